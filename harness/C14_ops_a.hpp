// C14 registry, part A: Geodesic / GeodesicExact / Geodesic(exact) / lines / Rhumb / RhumbLine /
// Gnomonic / AzimuthalEquidistant / CassiniSoldner / Intersect / PolygonArea
#pragma once
#include "harness/C14_ops.hpp"

namespace c14 {

inline unsigned gmask(Rng& r) {
  static const unsigned bits[] = {Geodesic::LATITUDE, Geodesic::LONGITUDE, Geodesic::AZIMUTH, Geodesic::DISTANCE,
                                  Geodesic::REDUCEDLENGTH, Geodesic::GEODESICSCALE, Geodesic::AREA, Geodesic::LONG_UNROLL};
  unsigned m = 0; for (unsigned b : bits) if (r.coin()) m |= b; return m;
}
inline double gdist(Rng& r, double a) {
  double u = r.u();
  if (u < 0.05) return 0; if (u < 0.2) return r.sign() * a * r.logu(1e-12, 1e-2);
  return a * r.uniform(-8, 8);
}

template <class G, Lazy<G> Shared::*M> void add_geod(const std::string& pre, const std::string& cls) {
  add(pre + ".inverse.all", cls, 2, true, [](const Shared* S, Rng& r, Res& o, int pv) {
    const G& g = (S->*M)(); Pair p = gpair(r); real s12, azi1, azi2, m12, M12, M21, S12;
    real a12 = g.Inverse(p.lat1, p.lon1, p.lat2, p.lon2, s12, azi1, azi2, m12, M12, M21, S12);
    o.d(a12); o.d(s12); o.d(azi1); o.d(azi2); o.d(m12); o.d(M12); o.d(M21); o.d(S12); });
  add(pre + ".inverse.overloads", cls, 1, true, [](const Shared* S, Rng& r, Res& o, int pv) {
    const G& g = (S->*M)(); Pair p = gpair(r); real s12, azi1, azi2, m12, M12, M21;
    o.d(g.Inverse(p.lat1, p.lon1, p.lat2, p.lon2, s12)); o.d(s12);
    o.d(g.Inverse(p.lat1, p.lon1, p.lat2, p.lon2, azi1, azi2)); o.d(azi1); o.d(azi2);
    o.d(g.Inverse(p.lat1, p.lon1, p.lat2, p.lon2, s12, azi1, azi2)); o.d(s12);
    o.d(g.Inverse(p.lat1, p.lon1, p.lat2, p.lon2, s12, azi1, azi2, m12)); o.d(m12);
    o.d(g.Inverse(p.lat1, p.lon1, p.lat2, p.lon2, s12, azi1, azi2, M12, M21)); o.d(M12); o.d(M21);
    o.d(g.Inverse(p.lat1, p.lon1, p.lat2, p.lon2, s12, azi1, azi2, m12, M12, M21)); });
  add(pre + ".geninverse.mask", cls, 1, true, [](const Shared* S, Rng& r, Res& o, int pv) {
    const G& g = (S->*M)(); Pair p = gpair(r); unsigned m = gmask(r);
    real s12 = -1, azi1 = -2, azi2 = -3, m12 = -4, M12 = -5, M21 = -6, S12 = -7;
    o.d(g.GenInverse(p.lat1, p.lon1, p.lat2, p.lon2, m, s12, azi1, azi2, m12, M12, M21, S12));
    o.d(s12); o.d(azi1); o.d(azi2); o.d(m12); o.d(M12); o.d(M21); o.d(S12); });
  add(pre + ".direct.all", cls, 2, true, [](const Shared* S, Rng& r, Res& o, int pv) {
    const G& g = (S->*M)(); real lat1 = glat(r), lon1 = glon(r), azi1 = gazi(r), s12 = gdist(r, g.EquatorialRadius());
    real lat2, lon2, azi2, m12, M12, M21, S12;
    o.d(g.Direct(lat1, lon1, azi1, s12, lat2, lon2, azi2, m12, M12, M21, S12));
    o.d(lat2); o.d(lon2); o.d(azi2); o.d(m12); o.d(M12); o.d(M21); o.d(S12); });
  add(pre + ".direct.overloads", cls, 1, true, [](const Shared* S, Rng& r, Res& o, int pv) {
    const G& g = (S->*M)(); real lat1 = glat(r), lon1 = glon(r), azi1 = gazi(r), s12 = gdist(r, g.EquatorialRadius());
    real lat2, lon2, azi2, m12, M12, M21;
    o.d(g.Direct(lat1, lon1, azi1, s12, lat2, lon2)); o.d(lat2); o.d(lon2);
    o.d(g.Direct(lat1, lon1, azi1, s12, lat2, lon2, azi2)); o.d(azi2);
    o.d(g.Direct(lat1, lon1, azi1, s12, lat2, lon2, azi2, m12)); o.d(m12);
    o.d(g.Direct(lat1, lon1, azi1, s12, lat2, lon2, azi2, M12, M21)); o.d(M12); o.d(M21);
    o.d(g.Direct(lat1, lon1, azi1, s12, lat2, lon2, azi2, m12, M12, M21)); });
  add(pre + ".arcdirect.all", cls, 1, true, [](const Shared* S, Rng& r, Res& o, int pv) {
    const G& g = (S->*M)(); real lat1 = glat(r), lon1 = glon(r), azi1 = gazi(r), a12 = r.coin(0.2) ? pk(r, {0.0, 90.0, 180.0, 360.0, -90.0}) : r.uniform(-720, 720);
    real lat2, lon2, azi2, s12, m12, M12, M21, S12;
    g.ArcDirect(lat1, lon1, azi1, a12, lat2, lon2, azi2, s12, m12, M12, M21, S12);
    o.d(lat2); o.d(lon2); o.d(azi2); o.d(s12); o.d(m12); o.d(M12); o.d(M21); o.d(S12);
    g.ArcDirect(lat1, lon1, azi1, a12, lat2, lon2); o.d(lat2); o.d(lon2);
    g.ArcDirect(lat1, lon1, azi1, a12, lat2, lon2, azi2, s12); o.d(s12); });
  add(pre + ".gendirect.mask", cls, 1, true, [](const Shared* S, Rng& r, Res& o, int pv) {
    const G& g = (S->*M)(); real lat1 = glat(r), lon1 = glon(r), azi1 = gazi(r); bool arc = r.coin();
    real s = arc ? r.uniform(-720, 720) : gdist(r, g.EquatorialRadius()); unsigned m = gmask(r);
    real lat2 = -1, lon2 = -2, azi2 = -3, s12 = -4, m12 = -5, M12 = -6, M21 = -7, S12 = -8;
    o.d(g.GenDirect(lat1, lon1, azi1, arc, s, m, lat2, lon2, azi2, s12, m12, M12, M21, S12));
    o.d(lat2); o.d(lon2); o.d(azi2); o.d(s12); o.d(m12); o.d(M12); o.d(M21); o.d(S12); });
  add(pre + ".line.position", cls, 1, true, [](const Shared* S, Rng& r, Res& o, int pv) {
    const G& g = (S->*M)(); real lat1 = glat(r), lon1 = glon(r), azi1 = gazi(r);
    auto l = r.coin() ? g.Line(lat1, lon1, azi1) : g.Line(lat1, lon1, azi1, gmask(r) | Geodesic::DISTANCE_IN);
    real lat2 = -1, lon2 = -2, azi2 = -3, m12 = -5, M12 = -6, M21 = -7, S12 = -8;
    for (int k = 0; k < 3; ++k) {
      o.d(l.Position(gdist(r, g.EquatorialRadius()), lat2, lon2, azi2, m12, M12, M21, S12));
      o.d(lat2); o.d(lon2); o.d(azi2); o.d(m12); o.d(M12); o.d(M21); o.d(S12); } });
  add(pre + ".inverseline", cls, 1, true, [](const Shared* S, Rng& r, Res& o, int pv) {
    const G& g = (S->*M)(); Pair p = gpair(r);
    auto l = r.coin() ? g.InverseLine(p.lat1, p.lon1, p.lat2, p.lon2) : g.InverseLine(p.lat1, p.lon1, p.lat2, p.lon2, gmask(r) | Geodesic::DISTANCE_IN);
    real lat2 = -1, lon2 = -2, azi2 = -3, m12 = -5, M12 = -6, M21 = -7, S12 = -8;
    o.d(l.Distance()); o.d(l.Arc()); o.d(l.Azimuth());
    o.d(l.Position(l.Distance() * r.uniform(-0.5, 1.5), lat2, lon2, azi2, m12, M12, M21, S12));
    o.d(lat2); o.d(lon2); o.d(azi2); o.d(m12); o.d(M12); o.d(M21); o.d(S12);
    l.ArcPosition(l.Arc(), lat2, lon2); o.d(lat2); o.d(lon2); });
  add(pre + ".directline", cls, 1, true, [](const Shared* S, Rng& r, Res& o, int pv) {
    const G& g = (S->*M)(); real lat1 = glat(r), lon1 = glon(r), azi1 = gazi(r);
    int k = r.range(0, 2);
    auto l = k == 0 ? g.DirectLine(lat1, lon1, azi1, gdist(r, g.EquatorialRadius()))
           : k == 1 ? g.ArcDirectLine(lat1, lon1, azi1, r.uniform(-400, 400))
                    : g.GenDirectLine(lat1, lon1, azi1, r.coin(), r.uniform(-300, 300), gmask(r) | Geodesic::DISTANCE_IN);
    real lat2 = -1, lon2 = -2, azi2 = -3, s12 = -4, m12 = -5, M12 = -6, M21 = -7, S12 = -8;
    o.d(l.GenPosition(true, l.Arc() * r.uniform(0, 1), Geodesic::ALL, lat2, lon2, azi2, s12, m12, M12, M21, S12));
    o.d(lat2); o.d(lon2); o.d(azi2); o.d(s12); o.d(m12); o.d(M12); o.d(M21); o.d(S12); });
  add(pre + ".accessors", cls, 0.3, true, [](const Shared* S, Rng&, Res& o, int pv) {
    const G& g = (S->*M)(); o.d(g.EquatorialRadius()); o.d(g.Flattening()); o.d(g.EllipsoidArea()); });
}

template <class L, Lazy<L> Shared::*M> void add_line(const std::string& pre, const std::string& cls) {
  add(pre + ".position.all", cls, 2, true, [](const Shared* S, Rng& r, Res& o, int pv) {
    const L& l = (S->*M)(); real lat2, lon2, azi2, m12, M12, M21, S12;
    o.d(l.Position(gdist(r, l.EquatorialRadius()), lat2, lon2, azi2, m12, M12, M21, S12));
    o.d(lat2); o.d(lon2); o.d(azi2); o.d(m12); o.d(M12); o.d(M21); o.d(S12); });
  add(pre + ".position.overloads", cls, 1, true, [](const Shared* S, Rng& r, Res& o, int pv) {
    const L& l = (S->*M)(); real s = gdist(r, l.EquatorialRadius()), lat2, lon2, azi2, m12, M12, M21;
    o.d(l.Position(s, lat2, lon2)); o.d(lat2); o.d(lon2);
    o.d(l.Position(s, lat2, lon2, azi2)); o.d(azi2);
    o.d(l.Position(s, lat2, lon2, azi2, m12)); o.d(m12);
    o.d(l.Position(s, lat2, lon2, azi2, M12, M21)); o.d(M12); o.d(M21);
    o.d(l.Position(s, lat2, lon2, azi2, m12, M12, M21)); });
  add(pre + ".arcposition.all", cls, 1, true, [](const Shared* S, Rng& r, Res& o, int pv) {
    const L& l = (S->*M)(); real lat2, lon2, azi2, s12, m12, M12, M21, S12;
    l.ArcPosition(r.uniform(-720, 720), lat2, lon2, azi2, s12, m12, M12, M21, S12);
    o.d(lat2); o.d(lon2); o.d(azi2); o.d(s12); o.d(m12); o.d(M12); o.d(M21); o.d(S12); });
  add(pre + ".genposition.mask", cls, 1, true, [](const Shared* S, Rng& r, Res& o, int pv) {
    const L& l = (S->*M)(); bool arc = r.coin(); real s = arc ? r.uniform(-720, 720) : gdist(r, l.EquatorialRadius());
    real lat2 = -1, lon2 = -2, azi2 = -3, s12 = -4, m12 = -5, M12 = -6, M21 = -7, S12 = -8;
    o.d(l.GenPosition(arc, s, gmask(r), lat2, lon2, azi2, s12, m12, M12, M21, S12));
    o.d(lat2); o.d(lon2); o.d(azi2); o.d(s12); o.d(m12); o.d(M12); o.d(M21); o.d(S12); });
  add(pre + ".accessors", cls, 0.3, true, [](const Shared* S, Rng&, Res& o, int pv) {
    const L& l = (S->*M)(); o.d(l.Latitude()); o.d(l.Longitude()); o.d(l.Azimuth()); o.d(l.EquatorialAzimuth()); o.d(l.EquatorialArc());
    o.d(l.Distance()); o.d(l.Arc()); o.i(l.Capabilities()); o.b(l.Init());
    real s, c; l.Azimuth(s, c); o.d(s); o.d(c); l.EquatorialAzimuth(s, c); o.d(s); o.d(c); });
}

template <Lazy<Rhumb> Shared::*M> void add_rhumb(const std::string& pre, const std::string& cls) {
  add(pre + ".inverse", cls, 3, true, [](const Shared* S, Rng& r, Res& o, int pv) {
    const Rhumb& h = (S->*M)(); Pair p = gpair(r); real s12, azi12, S12;
    h.Inverse(p.lat1, p.lon1, p.lat2, p.lon2, s12, azi12, S12); o.d(s12); o.d(azi12); o.d(S12);
    h.Inverse(p.lat1, p.lon1, p.lat2, p.lon2, s12, azi12); o.d(s12); o.d(azi12); });
  add(pre + ".direct", cls, 3, true, [](const Shared* S, Rng& r, Res& o, int pv) {
    const Rhumb& h = (S->*M)(); real lat1 = glat(r), lon1 = glon(r), azi = gazi(r), s12 = gdist(r, h.EquatorialRadius()) / 3, lat2, lon2, S12;
    h.Direct(lat1, lon1, azi, s12, lat2, lon2, S12); o.d(lat2); o.d(lon2); o.d(S12);
    h.Direct(lat1, lon1, azi, s12, lat2, lon2); o.d(lat2); o.d(lon2); });
  add(pre + ".gen.mask", cls, 1, true, [](const Shared* S, Rng& r, Res& o, int pv) {
    const Rhumb& h = (S->*M)(); Pair p = gpair(r); unsigned m = gmask(r);
    real s12 = -1, azi12 = -2, S12 = -3, lat2 = -4, lon2 = -5;
    h.GenInverse(p.lat1, p.lon1, p.lat2, p.lon2, m, s12, azi12, S12); o.d(s12); o.d(azi12); o.d(S12);
    S12 = -3; h.GenDirect(p.lat1, p.lon1, gazi(r), gdist(r, h.EquatorialRadius()) / 3, m, lat2, lon2, S12); o.d(lat2); o.d(lon2); o.d(S12); });
  add(pre + ".line.position", cls, 1, true, [](const Shared* S, Rng& r, Res& o, int pv) {
    const Rhumb& h = (S->*M)(); RhumbLine l = h.Line(glat(r), glon(r), gazi(r)); real lat2, lon2, S12;
    for (int k = 0; k < 3; ++k) { l.Position(gdist(r, h.EquatorialRadius()) / 3, lat2, lon2, S12); o.d(lat2); o.d(lon2); o.d(S12); } });
  add(pre + ".accessors", cls, 0.3, true, [](const Shared* S, Rng&, Res& o, int pv) {
    const Rhumb& h = (S->*M)(); o.d(h.EquatorialRadius()); o.d(h.Flattening()); o.d(h.EllipsoidArea()); });
}
template <Lazy<RhumbLine> Shared::*M> void add_rhumbline(const std::string& pre, const std::string& cls) {
  add(pre + ".position", cls, 2, true, [](const Shared* S, Rng& r, Res& o, int pv) {
    const RhumbLine& l = (S->*M)(); real lat2, lon2, S12; real s = gdist(r, l.EquatorialRadius()) / 3;
    l.Position(s, lat2, lon2, S12); o.d(lat2); o.d(lon2); o.d(S12);
    l.Position(s, lat2, lon2); o.d(lat2); o.d(lon2); });
  add(pre + ".genposition.mask", cls, 1, true, [](const Shared* S, Rng& r, Res& o, int pv) {
    const RhumbLine& l = (S->*M)(); real lat2 = -1, lon2 = -2, S12 = -3;
    l.GenPosition(gdist(r, l.EquatorialRadius()) / 3, gmask(r), lat2, lon2, S12); o.d(lat2); o.d(lon2); o.d(S12);
    o.d(l.Latitude()); o.d(l.Longitude()); o.d(l.Azimuth()); o.d(l.EquatorialRadius()); o.d(l.Flattening()); });
}

template <class PA, Lazy<PA> Shared::*M> void add_poly(const std::string& pre, const std::string& cls) {
  add(pre + ".compute", cls, 1, true, [](const Shared* S, Rng& r, Res& o, int pv) {
    const PA& p = (S->*M)(); real per = -1, area = -2; o.i(p.Compute(r.coin(), r.coin(), per, area)); o.d(per); o.d(area);
    real la, lo; p.CurrentPoint(la, lo); o.d(la); o.d(lo); o.i(p.NumberPoints()); o.b(p.Polyline());
    o.d(p.EquatorialRadius()); o.d(p.Flattening()); });
  add(pre + ".testpoint", cls, 1, true, [](const Shared* S, Rng& r, Res& o, int pv) {
    const PA& p = (S->*M)(); real per = -1, area = -2; o.i(p.TestPoint(glat(r), glon(r), r.coin(), r.coin(), per, area)); o.d(per); o.d(area); });
  add(pre + ".testedge", cls, 1, true, [](const Shared* S, Rng& r, Res& o, int pv) {
    const PA& p = (S->*M)(); real per = -1, area = -2; o.i(p.TestEdge(gazi(r), gdist(r, p.EquatorialRadius()) / 4, r.coin(), r.coin(), per, area)); o.d(per); o.d(area); });
}

inline void register_a() {
  add_geod<Geodesic, &Shared::g>("geod", "Geodesic");
  add_geod<GeodesicExact, &Shared::ge>("geodexact", "GeodesicExact");
  add_geod<Geodesic, &Shared::gx>("geodx", "Geodesic(exact=true)");
  add_line<GeodesicLine, &Shared::glX>("gline", "GeodesicLine");
  add_line<GeodesicLine, &Shared::glxX>("glinex", "GeodesicLine(exact=true)");
  add_line<GeodesicLineExact, &Shared::gleX>("glineexact", "GeodesicLineExact");
  add_rhumb<&Shared::rs>("rhumb", "Rhumb(series)");
  add_rhumb<&Shared::rx>("rhumbx", "Rhumb(exact)");
  add_rhumbline<&Shared::rls>("rhumbline", "RhumbLine(series)");
  add_rhumbline<&Shared::rlx>("rhumblinex", "RhumbLine(exact)");
  add_poly<PolygonArea, &Shared::poly>("polygon", "PolygonArea");
  add_poly<PolygonArea, &Shared::pline>("polyline", "PolygonArea");
  add_poly<PolygonAreaExact, &Shared::polye>("polygonexact", "PolygonAreaExact");
  add_poly<PolygonAreaRhumb, &Shared::polyr>("polygonrhumb", "PolygonAreaRhumb");
  // other construction paths
  add_line<GeodesicLine, &Shared::glC>("gline-ctor", "GeodesicLine(constructor)");
  add_line<GeodesicLine, &Shared::glI>("gline-inverseline", "GeodesicLine(InverseLine)");
  add_line<GeodesicLine, &Shared::glD>("gline-directline", "GeodesicLine(DirectLine)");
  add_line<GeodesicLine, &Shared::glxI>("glinex-inverseline", "GeodesicLine(exact=true,InverseLine)");
  add_line<GeodesicLineExact, &Shared::gleC>("glineexact-ctor", "GeodesicLineExact(constructor)");
  add_line<GeodesicLineExact, &Shared::gleI>("glineexact-inverseline", "GeodesicLineExact(InverseLine)");
  add_poly<PolygonArea, &Shared::polyx>("polygonx", "PolygonArea(Geodesic exact=true)");
  add_poly<PolygonAreaRhumb, &Shared::polyrx>("polygonrhumbx", "PolygonAreaRhumb(exact)");

  add("gnomonic.forward", "Gnomonic", 1, true, [](const Shared* S, Rng& r, Res& o, int pv) {
    real x, y, azi, rk; VAR(gnv).Forward(glat(r), glon(r), glat(r), glon(r), x, y, azi, rk); o.d(x); o.d(y); o.d(azi); o.d(rk); });
  add("gnomonic.reverse", "Gnomonic", 1, true, [](const Shared* S, Rng& r, Res& o, int pv) {
    real lat, lon, azi, rk; real a = VAR(gnv).EquatorialRadius(); VAR(gnv).Reverse(glat(r), glon(r), a * r.uniform(-3, 3), a * r.uniform(-3, 3), lat, lon, azi, rk);
    o.d(lat); o.d(lon); o.d(azi); o.d(rk); o.d(VAR(gnv).EquatorialRadius()); o.d(VAR(gnv).Flattening()); });
  add("azeq.forward", "AzimuthalEquidistant", 1, true, [](const Shared* S, Rng& r, Res& o, int pv) {
    real x, y, azi, rk; VAR(aev).Forward(glat(r), glon(r), glat(r), glon(r), x, y, azi, rk); o.d(x); o.d(y); o.d(azi); o.d(rk); });
  add("azeq.reverse", "AzimuthalEquidistant", 1, true, [](const Shared* S, Rng& r, Res& o, int pv) {
    real lat, lon, azi, rk; real a = VAR(aev).EquatorialRadius(); VAR(aev).Reverse(glat(r), glon(r), a * r.uniform(-3, 3), a * r.uniform(-3, 3), lat, lon, azi, rk);
    o.d(lat); o.d(lon); o.d(azi); o.d(rk); o.d(VAR(aev).EquatorialRadius()); o.d(VAR(aev).Flattening()); });
  add("cassini.forward", "CassiniSoldner", 1, true, [](const Shared* S, Rng& r, Res& o, int pv) {
    real x, y, azi, rk; VAR(csv).Forward(glat(r), glon(r), x, y, azi, rk); o.d(x); o.d(y); o.d(azi); o.d(rk);
    VAR(csv).Forward(glat(r), glon(r), x, y); o.d(x); o.d(y); });
  add("cassini.reverse", "CassiniSoldner", 1, true, [](const Shared* S, Rng& r, Res& o, int pv) {
    real lat, lon, azi, rk; real a = VAR(csv).EquatorialRadius(); VAR(csv).Reverse(a * r.uniform(-1.5, 1.5), a * r.uniform(-3, 3), lat, lon, azi, rk);
    o.d(lat); o.d(lon); o.d(azi); o.d(rk); o.d(VAR(csv).LatitudeOrigin()); o.d(VAR(csv).LongitudeOrigin()); o.b(VAR(csv).Init()); });

  add_variant("gnomonic.", "gnomonicx.", "Gnomonic(Geodesic exact=true)", 1);
  add_variant("azeq.", "azeqx.", "AzimuthalEquidistant(Geodesic exact=true)", 1);
  add_variant("cassini.", "cassini-reset.", "CassiniSoldner(default+Reset)", 1);

  // Intersect: every const entry point; the counters (NumInverse ...) are excluded by the property
  add("intersect.closest", "Intersect", 1, true, [](const Shared* S, Rng& r, Res& o, int pv) {
    int c = -9; auto p = S->inter().Closest(r.uniform(-80, 80), glon(r), gazi(r), r.uniform(-80, 80), glon(r), gazi(r), Intersect::Point(0, 0), &c);
    o.d(p.first); o.d(p.second); o.i(c); });
  add("intersect.closest.lines", "Intersect", 1, true, [](const Shared* S, Rng& r, Res& o, int pv) {
    int c = -9; real d = S->P.a; auto p = S->inter().Closest(S->glX(), S->glY(), Intersect::Point(d * r.uniform(-2, 2), d * r.uniform(-2, 2)), &c);
    o.d(p.first); o.d(p.second); o.i(c); });
  add("intersect.segment", "Intersect", 1, true, [](const Shared* S, Rng& r, Res& o, int pv) {
    int seg = -9, c = -9; auto p = S->inter().Segment(r.uniform(-80, 80), glon(r), r.uniform(-80, 80), glon(r), r.uniform(-80, 80), glon(r), r.uniform(-80, 80), glon(r), seg, &c);
    o.d(p.first); o.d(p.second); o.i(seg); o.i(c); });
  add("intersect.next", "Intersect", 1, true, [](const Shared* S, Rng& r, Res& o, int pv) {
    int c = -9; auto p = S->inter().Next(r.uniform(-80, 80), glon(r), gazi(r), gazi(r), &c); o.d(p.first); o.d(p.second); o.i(c); });
  add("intersect.all", "Intersect", 0.5, true, [](const Shared* S, Rng& r, Res& o, int pv) {
    std::vector<int> c; real d = S->P.a * r.uniform(0.5, 4);
    auto v = r.coin() ? S->inter().All(r.uniform(-80, 80), glon(r), gazi(r), r.uniform(-80, 80), glon(r), gazi(r), d, c)
                      : S->inter().All(S->glX(), S->glY(), d, c, Intersect::Point(0, 0));
    o.i((long long)v.size()); for (auto& p : v) { o.d(p.first); o.d(p.second); } for (int k : c) o.i(k); });
}

}  // namespace c14
