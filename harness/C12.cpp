// C12 — outputs are independent of the output mask / overload / line capabilities; unrequested or
// capability-less outputs are left untouched; lines that cannot locate the point return NaN; arc- and
// distance-specified positions coincide; Position is consistent with Direct; the stored third point
// reproduces its defining end point.
//
// Monitors (all evaluated next to every library call of the enumerated configuration lattice):
//   sentinel  every output argument is pre-filled with vh::sentinel(k); an output that is not requested by the
//             mask, or not available from the line's capabilities, must still hold that bit pattern afterwards;
//             a requested + available output must have been overwritten
//   value     a requested output equals its value under mask ALL on an ALL-capabilities object: bit-exact for
//             lat2/lon2/azi*/a12, K_ROUND*eps*scale for s12/m12 (scale max(b,|s12|)), M12/M21 (scale max(1,|M|)),
//             S12 (scale max(a,b)^2); observed maxima are recorded (they are 0 on the unchanged tree)
//   nan       default-constructed lines and distance queries on lines without DISTANCE_IN return NaN and set nothing
//   third     Distance()/Arc() after SetDistance/SetArc/GenSetDistance and after InverseLine/DirectLine/ArcDirectLine/
//             GenDirectLine; Position(Distance()) reproduces the defining end point (for InverseLine: the INPUT point 2)
//   duality   ArcPosition(a12) then Position(returned s12) (and the converse) is the same point to tol(f)
//   stack     GenInverse gives the same answer whatever the previous contents of the stack (uninitialised reads)
// keep the byte pattern written into the storage of a default-constructed line (placement new, section "defaultline"): without this
// GCC treats the storage as clobbered at the start of the constructor and deletes the pattern, so that a member the default
// constructor leaves uninitialised would not really hold "previous memory contents" when the library reads it
#pragma GCC optimize("no-lifetime-dse")
#include "harness/value_semantics.hpp"
#include "harness/geod_common.hpp"
#include <GeographicLib/Rhumb.hpp>
#include <new>

using namespace GeographicLib;
using vh::Ctx; using vh::J; using vh::Section;
using gh::q128;

static const double EPS = std::numeric_limits<double>::epsilon();
// round-off allowance of the value-equality monitor (in eps * natural scale); every observed maximum on the unchanged
// tree is exactly 0 (all mask-gated paths are the same arithmetic), the allowance is what the property text concedes
static const double K_ROUND = 8;
// x documented accuracy (same constants as C01) for the monitors that compare two different numerical routes
static const double K_SERIES = 2.0, K_EXACT = 4.0, K_EXACT_EXTREME = 8.0;

enum { O_LAT, O_LON, O_AZI, O_S12, O_m12, O_M12, O_M21, O_AREA };
struct Res { double v[8]; double a12; };
static inline void fill(Res& r) { for (int k = 0; k < 8; ++k) r.v[k] = vh::sentinel(k); r.a12 = vh::sentinel(8); }
static inline bool same(double x, double y) { return vh::same_bits(x, y) || (std::isnan(x) && std::isnan(y)); }

// kind: 0 = angle (bit-exact), 1 = length, 2 = dimensionless scale, 3 = area
struct Desc { int n; const char* name[8]; int kind[8]; };
static const Desc D_DIRECT = {8, {"lat2", "lon2", "azi2", "s12", "m12", "M12", "M21", "S12"}, {0, 0, 0, 1, 1, 2, 2, 3}};
static const Desc D_INVERSE = {7, {"s12", "azi1", "azi2", "m12", "M12", "M21", "S12", ""}, {1, 0, 0, 1, 2, 2, 3, 0}};
static const Desc D_RHDIRECT = {3, {"lat2", "lon2", "S12", "", "", "", "", ""}, {0, 0, 3, 0, 0, 0, 0, 0}};
static const Desc D_RHINVERSE = {3, {"s12", "azi12", "S12", "", "", "", "", ""}, {1, 0, 3, 0, 0, 0, 0, 0}};

// which output arguments a (capability-reduced) mask makes the library write
static inline unsigned w_direct(unsigned m) {
  return (m >> 7 & 1u) << O_LAT | (m >> 8 & 1u) << O_LON | (m >> 9 & 1u) << O_AZI | (m >> 10 & 1u) << O_S12 | (m >> 12 & 1u) << O_m12 |
         (m >> 13 & 1u) * (1u << O_M12 | 1u << O_M21) | (m >> 14 & 1u) << O_AREA;
}
static inline unsigned w_inverse(unsigned m) {
  return (m >> 10 & 1u) << 0 | (m >> 9 & 1u) * (1u << 1 | 1u << 2) | (m >> 12 & 1u) << 3 | (m >> 13 & 1u) * (1u << 4 | 1u << 5) | (m >> 14 & 1u) << 6;
}
static inline unsigned w_rhdirect(unsigned m) { return (m >> 7 & 1u) << 0 | (m >> 8 & 1u) << 1 | (m >> 14 & 1u) << 2; }
static inline unsigned w_rhinverse(unsigned m) { return (m >> 10 & 1u) << 0 | (m >> 9 & 1u) << 1 | (m >> 14 & 1u) << 2; }

// lattice index -> mask: bits 0..6 = the seven output quantities, bit 7 = LONG_UNROLL, bit 8 = DISTANCE_IN
template <class G> static inline unsigned mk(unsigned i) {
  static const unsigned B[9] = {G::LATITUDE, G::LONGITUDE, G::AZIMUTH, G::DISTANCE, G::REDUCEDLENGTH, G::GEODESICSCALE, G::AREA, G::LONG_UNROLL, G::DISTANCE_IN};
  unsigned m = 0;
  for (int j = 0; j < 9; ++j) if (i >> j & 1u) m |= B[j];
  return m;
}
static inline unsigned mk_rhumb(unsigned i) {      // same seven bit positions as the geodesic classes (12, 13 are ignored by Rhumb) + LONG_UNROLL
  static const unsigned B[8] = {1u << 7, 1u << 8, 1u << 9, 1u << 10, 1u << 12, 1u << 13, 1u << 14, 1u << 15};
  unsigned m = 0;
  for (int j = 0; j < 8; ++j) if (i >> j & 1u) m |= B[j];
  return m;
}

// ------------------------------------------------------------------------------------------------ accounting
enum Api { A_GenDirect, A_GenPosition, A_LineCaps, A_PosVsDirect, A_Overload, A_GenInverse, A_Third, A_Deleg, A_RhDirect, A_RhInverse, A_RhPosition, A_RhOverload, NAPI };
static const char* const API_NAME[NAPI] = {"GenDirect(mask)", "GenPosition(mask) on ALL-caps line", "GenPosition on line(caps)", "Position vs Direct", "inline overloads",
  "GenInverse(mask)", "third-point setters/constructors", "Geodesic(exact=true) vs GeodesicExact", "Rhumb::GenDirect(mask)", "Rhumb::GenInverse(mask)", "RhumbLine::GenPosition(mask)", "Rhumb overloads"};
enum { SV_SERIES, SV_EXACT, SV_DELEG, SV_RHS, SV_RHE, NSOLV };
static const char* const SOLVER_NAME[NSOLV] = {"series", "exact", "delegating", "rhumb-series", "rhumb-exact"};
static const char* const KIND_NAME[4] = {"angle", "length [eps*max(b,|s12|)]", "scale [eps*max(1,|M|)]", "area [eps*max(a,b)^2]"};
struct Acc {
  double mx[NAPI][NSOLV][4]; bool touched[NAPI][NSOLV][4];
  uint64_t calls, bitexact, inexact;
  void reset() { std::memset(this, 0, sizeof *this); }
} static g_acc;

struct Env {
  Ctx& c; const std::string& cls; int solver; J base;
  double sc_len, sc_area;
  std::string regime;     // appended to violation keys: names a thin input regime so that a defect confined to it has its own key
  const char* sname() const { return SOLVER_NAME[solver]; }
};

static void flush(Ctx& c) {
  for (int a = 0; a < NAPI; ++a) for (int s = 0; s < NSOLV; ++s) for (int k = 1; k < 4; ++k) if (g_acc.touched[a][s][k])
    c.obs(std::string("configuration dependence of ") + KIND_NAME[k] + " outputs, " + API_NAME[a] + ", " + SOLVER_NAME[s] + " (tolerance " + std::to_string((int)K_ROUND) + ")", g_acc.mx[a][s][k]);
  c.event("library calls judged by the sentinel+value monitors", g_acc.calls);
  c.event("compared outputs bit-identical to the ALL-mask value", g_acc.bitexact);
  if (g_acc.inexact) c.event("compared outputs equal only to round-off (not bit-identical)", g_acc.inexact);
  g_acc.reset();
}

// one library call against its reference: r = outputs after the call (pre-filled with sentinels), ref = the ALL-mask /
// ALL-capabilities values, want = bit set of output arguments that must have been written, nanret = the call must return NaN
static void judge(Env& e, int api, const char* an, const Desc& d, const Res& r, const Res& ref, unsigned want, bool nanret, unsigned mask, unsigned caps, int arcmode, double len) {
  ++g_acc.calls;
  auto wit = [&]() { return J(e.base).str("api", an).str("solver", e.sname()).u("mask", mask).u("caps", caps).i("arcmode", arcmode).f("len", len); };
  std::string site = std::string(an) + "/" + e.sname() + e.regime;
  if (nanret) {
    if (!std::isnan(r.a12)) e.c.viol("nan:C12/number-returned-by-line-that-cannot-locate-point/" + site, e.cls, wit().f("returned", r.a12));
    for (int k = 0; k < d.n; ++k) if (!vh::is_sentinel(r.v[k], k))
      e.c.viol("sentinel:C12/output-written-on-NaN-return/" + site + "/" + d.name[k], e.cls, wit().f("got", r.v[k]));
    return;
  }
  if (!same(r.a12, ref.a12)) e.c.viol("value:C12/a12-depends-on-configuration/" + site, e.cls, wit().f("got", r.a12).f("under_ALL", ref.a12));
  for (int k = 0; k < d.n; ++k) {
    bool w = want >> k & 1u, s = vh::is_sentinel(r.v[k], k);
    if (!w) { if (!s) e.c.viol("sentinel:C12/unrequested-output-written/" + site + "/" + d.name[k], e.cls, wit().f("got", r.v[k])); continue; }
    if (s) { e.c.viol("sentinel:C12/requested-output-not-written/" + site + "/" + d.name[k], e.cls, wit()); continue; }
    if (same(r.v[k], ref.v[k])) { ++g_acc.bitexact; if (d.kind[k]) g_acc.touched[api][e.solver][d.kind[k]] = true; continue; }
    double err = HUGE_VAL;
    if (d.kind[k] && std::isfinite(r.v[k]) && std::isfinite(ref.v[k])) {
      double sc = d.kind[k] == 1 ? e.sc_len : d.kind[k] == 2 ? std::max(1.0, std::fabs(ref.v[k])) : e.sc_area;
      err = std::fabs(r.v[k] - ref.v[k]) / (EPS * sc);
      g_acc.touched[api][e.solver][d.kind[k]] = true;
      if (err > g_acc.mx[api][e.solver][d.kind[k]]) g_acc.mx[api][e.solver][d.kind[k]] = err;
    }
    if (d.kind[k] == 0 || !(err <= K_ROUND))
      e.c.viol("value:C12/output-depends-on-configuration/" + site + "/" + d.name[k], e.cls, wit().f("got", r.v[k]).f("under_ALL", ref.v[k]).f("err_eps", err));
    else ++g_acc.inexact;
  }
}

// ------------------------------------------------------------------------------------------------ generators
struct Base { gh::EllSpec e; double lat1, lon1, azi1, len; bool arcmode; std::string cls; };

static double pick_len(vh::Rng& r, bool arcmode, double b, std::string& cls) {
  double a12;
  switch (r.below(12)) {
  case 0: cls = "zero"; a12 = r.coin() ? 0.0 : -0.0; break;
  case 1: cls = "tiny"; a12 = r.sign() * r.logu(1e-15, 1e-6); break;
  case 2: cls = "short"; a12 = r.sign() * r.logu(1e-6, 1); break;
  case 3: cls = "multiple-of-90"; a12 = 90.0 * r.range(-8, 8); if (!arcmode) a12 = vh::ulps(a12, r.range(-2, 2)); break;
  case 4: cls = "near-half-circuit"; a12 = r.sign() * (180 - r.sign() * r.logu(1e-12, 1)); break;
  case 5: cls = "multi-circuit"; a12 = r.sign() * r.uniform(360, 7200); break;
  case 6: cls = "negative"; a12 = -r.uniform(0, 360); break;
  default: cls = "within-one-circuit"; a12 = r.uniform(0, 360); break;
  }
  return arcmode ? a12 : a12 * (M_PI / 180) * b;
}
static Base gen(vh::Rng& r) {
  Base c; std::string cl, ca, cn;
  c.e = gh::pick_ellipsoid(r);
  c.lat1 = gh::pick_lat(r, cl); c.lon1 = gh::pick_lon(r); c.azi1 = gh::pick_azi(r, ca);
  c.arcmode = r.coin();
  c.len = pick_len(r, c.arcmode, c.e.a * (1 - c.e.f), cn);
  c.cls = "direct/" + c.e.bucket + "/start-" + cl + "/azi-" + ca + "/" + cn + (c.arcmode ? "/arc" : "/dist");
  return c;
}
static void set_ell(gh::EllSpec& e, double a, double f, const char* bucket) { e.a = a; e.f = f; e.series_ok = std::fabs(f) <= 0.2; e.bucket = bucket; }
// directed catalogue: polar / equatorial / meridional / antipodal / multi-circuit on the ellipsoid ladder incl. the |f| = 0.01 Newton switch
static bool directed(uint64_t i, Base& c) {
  static const double fs[] = {gh::WGS84_F, 0, 0.0101, -0.0101, 0.1, -1.0};
  static const double lats[] = {90, -90, 0, 45, -89.999999999999};
  static const double azis[] = {0, 90, 180, -135, 1e-10};
  static const double arcs[] = {0, 90, 180, -180, 360, 179.999999, 3600.5};
  const uint64_t nf = 6, nl = 5, na = 5, nr = 7;
  if (i >= nf * nl * na * nr) return false;
  i = (i * 397) % (nf * nl * na * nr);       // fixed permutation: any prefix of the catalogue (reduced-scale sanitizer runs) is a diverse subset
  double arc = arcs[i % nr]; i /= nr; c.azi1 = azis[i % na]; i /= na; c.lat1 = lats[i % nl]; i /= nl;
  set_ell(c.e, gh::WGS84_A, fs[i % nf], "directed");
  c.arcmode = (i + (uint64_t)(int64_t)std::fabs(arc * 7)) & 1; c.lon1 = (i % 3 == 0) ? 0 : (i % 3 == 1 ? 180 : -179.5);
  c.len = c.arcmode ? arc : arc * (M_PI / 180) * c.e.a * (1 - c.e.f);
  c.cls = "direct/directed/f=" + std::to_string(c.e.f) + (c.arcmode ? "/arc" : "/dist");
  return true;
}

struct Inv { gh::EllSpec e; double lat1, lon1, lat2, lon2; std::string cls; };
static Inv gen_inv(vh::Rng& r) {
  Inv k; std::string cl, cp;
  k.e = gh::pick_ellipsoid(r);
  k.lat1 = gh::pick_lat(r, cl); k.lon1 = gh::pick_lon(r);
  switch (r.below(14)) {
  case 0: cp = "coincident"; k.lat2 = k.lat1; k.lon2 = r.coin() ? k.lon1 : k.lon1 + 360; break;
  case 1: cp = "nearly-coincident"; k.lat2 = std::fabs(k.lat1) < 90 ? vh::ulps(k.lat1, r.range(-3, 3)) : k.lat1; k.lon2 = r.coin() ? k.lon1 : vh::ulps(k.lon1, r.range(-2, 2)); break;
  case 2: cp = "meridional"; k.lat2 = r.uniform(-90, 90); k.lon2 = r.coin() ? k.lon1 : k.lon1 + 180; break;
  case 3: cp = "equatorial"; k.lat1 = r.coin() ? 0.0 : -0.0; k.lat2 = r.coin(0.7) ? 0.0 : r.sign() * r.logu(1e-300, 1e-12); k.lon2 = k.lon1 + (r.coin() ? r.uniform(-180, 180) : r.sign() * (180 - r.logu(1e-9, 2))); break;
  case 4: cp = "antipodal"; k.lat2 = -k.lat1; k.lon2 = k.lon1 + 180; break;
  case 5: case 6: cp = "near-antipodal"; k.lat2 = -k.lat1 + r.sign() * r.logu(1e-12, 1); k.lon2 = k.lon1 + 180 + r.sign() * r.logu(1e-12, 2); break;
  case 7: cp = "to-pole"; k.lat2 = r.coin() ? 90 : -90; k.lon2 = gh::pick_lon(r); break;
  case 8: cp = "symmetric-latitude"; k.lat2 = r.coin() ? k.lat1 : -k.lat1; k.lon2 = k.lon1 + r.uniform(-180, 180); break;
  case 9: cp = "short"; k.lat2 = k.lat1 + r.sign() * r.logu(1e-9, 1e-2); k.lon2 = k.lon1 + r.sign() * r.logu(1e-9, 1e-2); break;
  case 10: cp = "lon-diff-180-ulps"; k.lat2 = r.uniform(-90, 90); k.lon2 = vh::ulps(k.lon1 + 180, r.range(-2, 2)); break;
  default: cp = "general"; k.lat2 = r.uniform(-90, 90); k.lon2 = gh::pick_lon(r); break;
  }
  if (k.lat2 > 90) k.lat2 = 90; if (k.lat2 < -90) k.lat2 = -90;
  k.cls = "inverse/" + k.e.bucket + "/p1-" + cl + "/" + cp;
  return k;
}
static bool directed_inv(uint64_t i, Inv& k) {
  static const double fs[] = {gh::WGS84_F, 0, 0.0101, -0.0101, 0.1, -1.0};
  // {lat1, lat2, dlon}
  static const double P[][3] = {{0, 0, 0}, {0, 0, 90}, {0, 0, 179.5}, {0, 0, 180}, {0, 0, 179.9999}, {30, -30, 180}, {30, -30, 179.7}, {30, -29.9, 179.8}, {90, -90, 0}, {90, 90, 77},
    {90, 0, 12}, {-90, 45, 180}, {20.001, 20.001, 0}, {20.001, 20.001000000000001, 0}, {45, 45.000000000000007, 0}, {-60, -59.999999999999993, 0}, {1e-200, -1e-200, 10}, {48.522876735459, -48.52287673545898293, 179.599720456223079643},
    {10, 20, 30}, {-10, 60, -150}, {89.99999999, -89.9, 100}, {5, -5, 179.99999}, {0.5, -0.5, 179.5}, {1e-9, 1e-9, 1e-9}};
  const uint64_t np = sizeof P / sizeof P[0], nf = 6;
  if (i >= np * nf * 2) return false;
  i = (i * 101) % (np * nf * 2);             // fixed permutation (see directed())
  bool swap = i & 1; i /= 2; const double* p = P[i % np]; i /= np;
  set_ell(k.e, gh::WGS84_A, fs[i % nf], "directed");
  k.lat1 = p[0]; k.lat2 = p[1]; k.lon1 = -17; k.lon2 = -17 + p[2];
  if (swap) { std::swap(k.lat1, k.lat2); std::swap(k.lon1, k.lon2); }
  k.cls = "inverse/directed/f=" + std::to_string(k.e.f);
  return true;
}

// ------------------------------------------------------------------------------------------------ call wrappers
template <class G> static inline Res gen_direct(const G& g, const Base& k, bool arcmode, double len, unsigned mask) {
  Res r; fill(r);
  r.a12 = g.GenDirect(k.lat1, k.lon1, k.azi1, arcmode, len, mask, r.v[0], r.v[1], r.v[2], r.v[3], r.v[4], r.v[5], r.v[6], r.v[7]);
  return r;
}
template <class L> static inline Res gen_pos(const L& l, bool arcmode, double len, unsigned mask) {
  Res r; fill(r);
  r.a12 = l.GenPosition(arcmode, len, mask, r.v[0], r.v[1], r.v[2], r.v[3], r.v[4], r.v[5], r.v[6], r.v[7]);
  return r;
}
template <class G> static inline Res gen_inverse(const G& g, const Inv& k, unsigned mask) {
  Res r; fill(r);
  r.a12 = g.GenInverse(k.lat1, k.lon1, k.lat2, k.lon2, mask, r.v[0], r.v[1], r.v[2], r.v[3], r.v[4], r.v[5], r.v[6]);
  return r;
}
// Uninitialised-read exposure.  A member or local that the library forgets to compute for some mask / capability set usually still
// holds the right value left behind by the previous, identical computation in the same storage, which hides the defect.  So
// (a) the part of the stack that the next library call will use for its locals and temporaries is filled with a known pattern, and
// (b) line objects are constructed by placement new into storage pre-filled with a byte pattern (kept by no-lifetime-dse above).
// Patterns alternate between NaN (propagates into every output computed from it) and finite negative values (flip comparisons).
static inline double stack_pattern(unsigned i) { return i & 1u ? -1.0 : std::numeric_limits<double>::quiet_NaN(); }
template <int N> __attribute__((noinline)) static void dirty_stack_n(double v) {
  volatile double a[N];
  for (int i = 0; i < N; ++i) a[i] = v;
}
static inline void dirty_stack(double v) { dirty_stack_n<4096>(v); }        // inverse problems (EllipticFunction, coefficient arrays on the stack)
static inline void dirty_small(double v) { dirty_stack_n<1536>(v); }        // direct problems (one temporary line object)
template <class L> struct Slot {
  alignas(L) unsigned char buf[sizeof(L)]; L* p = nullptr;
  template <class F> L& make(unsigned n, F&& f) {       // f returns the line by value: constructed directly in buf (guaranteed elision)
    destroy(); std::memset(buf, n & 1u ? 0xff : 0xa5, sizeof buf); p = new (buf) L(f()); return *p; }
  void destroy() { if (p) { p->~L(); p = nullptr; } }
  ~Slot() { destroy(); }
};

// physical residuals between two results describing "the same point" obtained by two numerical routes (author's measures)
struct Phys { double pos, dir, m12, M, S; };
static Phys phys_diff(const gh::Solvers& S, double lon_a, const Res& A, const Res& B) {
  (void)lon_a;
  Phys p; q128 X1[3], X2[3];
  ref::to_xyz<q128>(S.E, A.v[O_LAT], A.v[O_LON], X1); ref::to_xyz<q128>(S.E, B.v[O_LAT], B.v[O_LON], X2);
  p.pos = (double)ref::dist3(X1, X2);
  // the author's azimuth measure (as C01): azimuth difference corrected for meridian convergence, times a (pole safe)
  { q128 dalp = ref::remainder((q128)A.v[O_AZI] - (q128)B.v[O_AZI], (q128)360) * ref::deg<q128>();
    q128 dlam = ref::remainder((q128)A.v[O_LON] - (q128)B.v[O_LON], (q128)360) * ref::deg<q128>();
    q128 sphi = ref::sin((q128)B.v[O_LAT] * ref::deg<q128>());
    p.dir = (double)(ref::fabs(ref::sin(dalp) * ref::cos(dlam) - ref::cos(dalp) * ref::sin(dlam) * sphi) * S.E.a); }
  p.m12 = std::fabs(A.v[O_m12] - B.v[O_m12]);
  p.M = std::max(std::fabs(A.v[O_M12] - B.v[O_M12]), std::fabs(A.v[O_M21] - B.v[O_M21])) * S.a;
  // S12 has a branch cut (alp2 - alp1 = +-pi) where it jumps by 2 pi c2 = half the ellipsoid area: compare modulo that
  { double half = (double)(2 * ref::pi<q128>() * S.E.c2); p.S = std::fabs(std::remainder(A.v[O_AREA] - B.v[O_AREA], half)) / S.a; }
  return p;
}
static double route_tol(const gh::Solvers& S, int solver, double f) {
  double boa = 1 - f;
  return solver == SV_SERIES ? K_SERIES * S.tol_series : (boa < 1.0 / 16 || boa > 16 ? K_EXACT_EXTREME : K_EXACT) * S.tol_exact;
}

// ------------------------------------------------------------------------------------------------ overload tables
// every inline overload of Direct / ArcDirect / Position / ArcPosition / Inverse, called with sentinel-filled arguments
template <class G> static int direct_overload(const G& g, const Base& k, double s, int n, Res& r, unsigned& want) {
  fill(r); double* v = r.v;
  switch (n) {
  case 0: r.a12 = g.Direct(k.lat1, k.lon1, k.azi1, s, v[0], v[1], v[2], v[4], v[5], v[6], v[7]); want = 0xf7; return 1;
  case 1: r.a12 = g.Direct(k.lat1, k.lon1, k.azi1, s, v[0], v[1]); want = 0x03; return 1;
  case 2: r.a12 = g.Direct(k.lat1, k.lon1, k.azi1, s, v[0], v[1], v[2]); want = 0x07; return 1;
  case 3: r.a12 = g.Direct(k.lat1, k.lon1, k.azi1, s, v[0], v[1], v[2], v[4]); want = 0x17; return 1;
  case 4: r.a12 = g.Direct(k.lat1, k.lon1, k.azi1, s, v[0], v[1], v[2], v[5], v[6]); want = 0x67; return 1;
  case 5: r.a12 = g.Direct(k.lat1, k.lon1, k.azi1, s, v[0], v[1], v[2], v[4], v[5], v[6]); want = 0x77; return 1;
  }
  return 0;
}
template <class G> static int arcdirect_overload(const G& g, const Base& k, double a, int n, Res& r, unsigned& want) {
  fill(r); double* v = r.v;
  switch (n) {
  case 0: g.ArcDirect(k.lat1, k.lon1, k.azi1, a, v[0], v[1], v[2], v[3], v[4], v[5], v[6], v[7]); want = 0xff; return 1;
  case 1: g.ArcDirect(k.lat1, k.lon1, k.azi1, a, v[0], v[1]); want = 0x03; return 1;
  case 2: g.ArcDirect(k.lat1, k.lon1, k.azi1, a, v[0], v[1], v[2]); want = 0x07; return 1;
  case 3: g.ArcDirect(k.lat1, k.lon1, k.azi1, a, v[0], v[1], v[2], v[3]); want = 0x0f; return 1;
  case 4: g.ArcDirect(k.lat1, k.lon1, k.azi1, a, v[0], v[1], v[2], v[3], v[4]); want = 0x1f; return 1;
  case 5: g.ArcDirect(k.lat1, k.lon1, k.azi1, a, v[0], v[1], v[2], v[3], v[5], v[6]); want = 0x6f; return 1;
  case 6: g.ArcDirect(k.lat1, k.lon1, k.azi1, a, v[0], v[1], v[2], v[3], v[4], v[5], v[6]); want = 0x7f; return 1;
  }
  return 0;
}
template <class L> static int position_overload(const L& l, double s, int n, Res& r, unsigned& want) {
  fill(r); double* v = r.v;
  switch (n) {
  case 0: r.a12 = l.Position(s, v[0], v[1], v[2], v[4], v[5], v[6], v[7]); want = 0xf7; return 1;
  case 1: r.a12 = l.Position(s, v[0], v[1]); want = 0x03; return 1;
  case 2: r.a12 = l.Position(s, v[0], v[1], v[2]); want = 0x07; return 1;
  case 3: r.a12 = l.Position(s, v[0], v[1], v[2], v[4]); want = 0x17; return 1;
  case 4: r.a12 = l.Position(s, v[0], v[1], v[2], v[5], v[6]); want = 0x67; return 1;
  case 5: r.a12 = l.Position(s, v[0], v[1], v[2], v[4], v[5], v[6]); want = 0x77; return 1;
  }
  return 0;
}
template <class L> static int arcposition_overload(const L& l, double a, int n, Res& r, unsigned& want) {
  fill(r); double* v = r.v;
  switch (n) {
  case 0: l.ArcPosition(a, v[0], v[1], v[2], v[3], v[4], v[5], v[6], v[7]); want = 0xff; return 1;
  case 1: l.ArcPosition(a, v[0], v[1]); want = 0x03; return 1;
  case 2: l.ArcPosition(a, v[0], v[1], v[2]); want = 0x07; return 1;
  case 3: l.ArcPosition(a, v[0], v[1], v[2], v[3]); want = 0x0f; return 1;
  case 4: l.ArcPosition(a, v[0], v[1], v[2], v[3], v[4]); want = 0x1f; return 1;
  case 5: l.ArcPosition(a, v[0], v[1], v[2], v[3], v[5], v[6]); want = 0x6f; return 1;
  case 6: l.ArcPosition(a, v[0], v[1], v[2], v[3], v[4], v[5], v[6]); want = 0x7f; return 1;
  }
  return 0;
}
template <class G> static int inverse_overload(const G& g, const Inv& k, int n, Res& r, unsigned& want) {
  fill(r); double* v = r.v;   // s12 0, azi1 1, azi2 2, m12 3, M12 4, M21 5, S12 6
  switch (n) {
  case 0: r.a12 = g.Inverse(k.lat1, k.lon1, k.lat2, k.lon2, v[0], v[1], v[2], v[3], v[4], v[5], v[6]); want = 0x7f; return 1;
  case 1: r.a12 = g.Inverse(k.lat1, k.lon1, k.lat2, k.lon2, v[0]); want = 0x01; return 1;
  case 2: r.a12 = g.Inverse(k.lat1, k.lon1, k.lat2, k.lon2, v[1], v[2]); want = 0x06; return 1;
  case 3: r.a12 = g.Inverse(k.lat1, k.lon1, k.lat2, k.lon2, v[0], v[1], v[2]); want = 0x07; return 1;
  case 4: r.a12 = g.Inverse(k.lat1, k.lon1, k.lat2, k.lon2, v[0], v[1], v[2], v[3]); want = 0x0f; return 1;
  case 5: r.a12 = g.Inverse(k.lat1, k.lon1, k.lat2, k.lon2, v[0], v[1], v[2], v[4], v[5]); want = 0x37; return 1;
  case 6: r.a12 = g.Inverse(k.lat1, k.lon1, k.lat2, k.lon2, v[0], v[1], v[2], v[3], v[4], v[5]); want = 0x3f; return 1;
  }
  return 0;
}

// ------------------------------------------------------------------------------------------------ direct family
static J base_j(const Base& k) { return J().f("a", k.e.a).f("f", k.e.f).f("lat1", k.lat1).f("lon1", k.lon1).f("azi1", k.azi1); }

// a two-route comparison ("same point"): record the residuals over the tolerance, raise a keyed violation
static void judge_route(Env& e, const gh::Solvers& S, const char* slug, const std::string& what, const Res& A, const Res& B, double T, double lenerr, bool with_aux, const J& w) {
  Phys p = phys_diff(S, 0, A, B);
  std::string sv = e.sname();
  e.c.obs(what + ": position difference / tolerance [" + sv + "]", p.pos / T, w);
  e.c.obs(what + ": direction difference*a / tolerance [" + sv + "]", p.dir / T, w);
  e.c.obs(what + ": length (s12 or a12*b) difference / tolerance [" + sv + "]", lenerr / T, w);
  std::string key = std::string("route:C12/") + slug + "/" + sv;
  if (!(p.pos <= T)) e.c.viol(key + "/position", e.cls, J(w).f("err_m", p.pos).f("tol_m", T).f("latA", A.v[O_LAT]).f("lonA", A.v[O_LON]).f("latB", B.v[O_LAT]).f("lonB", B.v[O_LON]));
  if (!(p.dir <= T)) e.c.viol(key + "/azimuth", e.cls, J(w).f("err_m", p.dir).f("tol_m", T).f("aziA", A.v[O_AZI]).f("aziB", B.v[O_AZI]));
  if (!(lenerr <= T)) e.c.viol(key + "/length", e.cls, J(w).f("err_m", lenerr).f("tol_m", T));
  if (with_aux) {
    // m12, M12/M21 are not part of "the same point": their sensitivity to the arc length grows with the secular term of J12
    // (multi-circuit, very eccentric), so no tolerance in metres on the ground applies to them: recorded only
    e.c.obs(what + ": |m12 difference| / tolerance (recorded only) [" + sv + "]", p.m12 / T, w);
    e.c.obs(what + ": |M12,M21 difference|*a / tolerance (recorded only) [" + sv + "]", p.M / T, w);
  }
}

template <class G, class L>
static void direct_family(Ctx& c, const Base& k, const gh::Solvers& S, const G& g, int solver, bool full, Res* ref_all_out) {
  Env e{c, k.cls, solver, base_j(k), S.b, std::max(S.a, S.b) * std::max(S.a, S.b)};
  vh::Rng& rng = c.rng;
  const unsigned UN = G::LONG_UNROLL;
  // ---- reference values: mask ALL (with / without LONG_UNROLL) in both length modes; the other mode's length is the returned s12 / a12
  Res refD[2][2]; double len[2]; int pm = k.arcmode ? 1 : 0;
  len[pm] = k.len;
  refD[pm][0] = gen_direct(g, k, pm, len[pm], G::ALL);
  len[!pm] = pm ? refD[pm][0].v[O_S12] : refD[pm][0].a12;
  bool have[2] = {true, true};
  if (!std::isfinite(len[!pm])) { have[!pm] = false; c.event(std::string("other length mode skipped (non-finite conversion) ") + e.sname()); }
  for (int am = 0; am < 2; ++am) if (have[am]) for (int u = 0; u < 2; ++u) {
    refD[am][u] = gen_direct(g, k, am, len[am], G::ALL | (u ? UN : 0u));
    e.sc_len = std::max(e.sc_len, std::fabs(refD[am][u].v[O_S12]));
    for (int o = 0; o < 8; ++o) if (vh::is_sentinel(refD[am][u].v[o], o)) c.viol(std::string("sentinel:C12/requested-output-not-written/GenDirect(ALL)/") + e.sname() + "/" + D_DIRECT.name[o], k.cls, J(e.base).i("arcmode", am).f("len", len[am]));
  }
  if (ref_all_out) *ref_all_out = refD[pm][0];
  // the values themselves must be usable (finite) for the comparisons to mean anything
  bool finite = true;
  for (int o = 0; o < 8; ++o) if (!std::isfinite(refD[pm][0].v[o])) finite = false;
  if (!finite) c.event(std::string("base problem with non-finite ALL outputs ") + e.sname());

  // ---- (A) GenDirect over the full mask lattice
  for (int am = 0; am < 2; ++am) if (have[am]) {
    uint64_t coin = rng.next();
    for (unsigned i = 0; i < 256; ++i) {
      unsigned m = mk<G>(i | ((coin >> (i & 63) & 1u) && (i & 3) == 1 ? 256u : 0u));
      dirty_small(stack_pattern(i >> 3));
      Res r = gen_direct(g, k, am, len[am], m);
      judge(e, A_GenDirect, "GenDirect", D_DIRECT, r, refD[am][i >> 7 & 1], w_direct(m), false, m, 0, am, len[am]);
    }
  }
  // ---- (B) a line with all capabilities: Position == Direct; GenPosition over the full mask lattice
  Slot<L> sall, sc, s3;
  L& lall = sall.make(0, [&] { return g.Line(k.lat1, k.lon1, k.azi1); });
  Res refP[2][2];
  for (int am = 0; am < 2; ++am) if (have[am]) {
    for (int u = 0; u < 2; ++u) {
      refP[am][u] = gen_pos(lall, am, len[am], L::ALL | (u ? UN : 0u));
      judge(e, A_PosVsDirect, "Position-vs-Direct", D_DIRECT, refP[am][u], refD[am][u], 0xff, false, L::ALL | (u ? UN : 0u), L::ALL, am, len[am]);
    }
    for (unsigned i = 0; i < 256; ++i) {
      unsigned m = mk<G>(i);
      Res r = gen_pos(lall, am, len[am], m);
      judge(e, A_GenPosition, "GenPosition", D_DIRECT, r, refP[am][i >> 7 & 1], w_direct(m), false, m, L::ALL, am, len[am]);
    }
  }
  // ---- (C) capability lattice: 2^7 output capabilities x DISTANCE_IN; masks ALL, ALL|LONG_UNROLL + two random ones (all 256 in the full-lattice section)
  for (unsigned ci = 0; ci < 256; ++ci) {
    unsigned caps = mk<G>(ci & 127u) | (ci & 128u ? unsigned(G::DISTANCE_IN) : 0u);
    unsigned ecaps = caps | G::LATITUDE | G::AZIMUTH | G::LONG_UNROLL;
    L& lc = sc.make(ci >> 1, [&] { return (ci & 1u) ? g.Line(k.lat1, k.lon1, k.azi1, caps) : L(g, k.lat1, k.lon1, k.azi1, caps); });
    bool din = ci & 128u, dcap = caps >> 10 & 1u;
    if (lc.Capabilities() != ecaps || !lc.Init() || !lc.Capabilities(caps) || lc.Capabilities(G::ALL) != ((ecaps & 0x7F80u) == 0x7F80u))
      c.viol(std::string("caps:C12/Capabilities-inspector-wrong/") + e.sname(), k.cls, J(e.base).u("caps", caps).u("reported", lc.Capabilities()));
    unsigned ml[256]; int nm = 0;
    if (full) for (unsigned i = 0; i < 256; ++i) ml[nm++] = i;
    else { ml[nm++] = 127; ml[nm++] = 255; ml[nm++] = (unsigned)rng.below(256); ml[nm++] = (unsigned)rng.below(256); }
    for (int am = 0; am < 2; ++am) if (have[am]) for (int j = 0; j < nm; ++j) {
      unsigned m = mk<G>(ml[j]);
      Res r = gen_pos(lc, am, len[am], m);
      judge(e, A_LineCaps, "GenPosition(caps)", D_DIRECT, r, refP[am][ml[j] >> 7 & 1], w_direct(m & ecaps), !am && !din, m, caps, am, len[am]);
    }
    // third point by the setters; SetDistance then SetArc then SetDistance so that each NaN convention has a non-NaN predecessor
    if (have[0] && have[1]) {
      auto bad = [&](const char* what, double got, double want) {
        c.viol(std::string("third:C12/") + what + "/" + e.sname(), k.cls, J(e.base).u("caps", caps).f("s13", len[0]).f("a13", len[1]).f("got", got).f("want", want)); };
      Res t3, r3; fill(t3); fill(r3);
      for (int rep = 0; rep < 2; ++rep) {
        if ((ci + rep) & 1u) lc.SetDistance(len[0]); else lc.GenSetDistance(false, len[0]);
        if (!vh::same_bits(lc.Distance(), len[0])) bad("SetDistance/Distance()-not-the-value-set", lc.Distance(), len[0]);
        if (din ? !same(lc.Arc(), refP[0][0].a12) : !std::isnan(lc.Arc())) bad(din ? "SetDistance/Arc()-differs-from-Position-a12" : "SetDistance/Arc()-not-NaN-without-DISTANCE_IN", lc.Arc(), din ? refP[0][0].a12 : NAN);
        if (!same(lc.GenDistance(false), lc.Distance()) || !same(lc.GenDistance(true), lc.Arc())) bad("GenDistance-inconsistent", lc.GenDistance(true), lc.Arc());
        if (rep) break;
        if (ci & 2u) lc.SetArc(len[1]); else lc.GenSetDistance(true, len[1]);
        if (!vh::same_bits(lc.Arc(), len[1])) bad("SetArc/Arc()-not-the-value-set", lc.Arc(), len[1]);
        if (!dcap) { if (!std::isnan(lc.Distance())) bad("SetArc/Distance()-not-NaN-without-DISTANCE", lc.Distance(), NAN); }
        else {       // Distance() is the s12 of ArcPosition(a13)
          t3.v[O_S12] = lc.Distance(); r3.v[O_S12] = refP[1][0].v[O_S12]; t3.a12 = r3.a12 = 0;
          judge(e, A_Third, "SetArc/Distance()", D_DIRECT, t3, r3, 1u << O_S12, false, 0, caps, 1, len[1]);
        }
      }
    }
  }
  // ---- (D) every inline overload, against the ALL values
  {
    Res r; unsigned want;
    if (have[0]) {
      for (int n = 0; direct_overload(g, k, len[0], n, r, want); ++n) { std::string nm = "Direct#" + std::to_string(n); judge(e, A_Overload, nm.c_str(), D_DIRECT, r, refD[0][0], want, false, 0, 0, 0, len[0]); }
      for (int n = 0; position_overload(lall, len[0], n, r, want); ++n) { std::string nm = "Position#" + std::to_string(n); judge(e, A_Overload, nm.c_str(), D_DIRECT, r, refP[0][0], want, false, 0, L::ALL, 0, len[0]); }
    }
    if (have[1]) {
      for (int n = 0; arcdirect_overload(g, k, len[1], n, r, want); ++n) { r.a12 = refD[1][0].a12; std::string nm = "ArcDirect#" + std::to_string(n); judge(e, A_Overload, nm.c_str(), D_DIRECT, r, refD[1][0], want, false, 0, 0, 1, len[1]); }
      for (int n = 0; arcposition_overload(lall, len[1], n, r, want); ++n) { r.a12 = refP[1][0].a12; std::string nm = "ArcPosition#" + std::to_string(n); judge(e, A_Overload, nm.c_str(), D_DIRECT, r, refP[1][0], want, false, 0, L::ALL, 1, len[1]); }
    }
  }
  if (!finite) return;
  // ---- (E) third point by the line constructors
  double T0 = route_tol(S, solver, k.e.f);
  auto scaleT = [&](int am) { return T0 * (am ? std::max(1.0, std::fabs(len[1]) / 180) : std::max(1.0, std::fabs(len[0]) / (M_PI * S.b))); };
  auto bad3 = [&](const std::string& what, double got, double want) { c.viol("third:C12/" + what + "/" + e.sname(), k.cls, J(e.base).f("s12", len[0]).f("a12", len[1]).f("got", got).f("want", want)); };
  if (have[0]) {
    L& ld = s3.make(0, [&] { return rng.coin() ? g.DirectLine(k.lat1, k.lon1, k.azi1, len[0]) : g.GenDirectLine(k.lat1, k.lon1, k.azi1, false, len[0]); });
    if (!vh::same_bits(ld.Distance(), len[0])) bad3("DirectLine/Distance()-not-s12", ld.Distance(), len[0]);
    if (!same(ld.Arc(), refD[0][0].a12)) bad3("DirectLine/Arc()-differs-from-Direct-a12", ld.Arc(), refD[0][0].a12);
    Res r = gen_pos(ld, false, ld.Distance(), L::ALL);
    judge(e, A_Third, "DirectLine/Position(Distance())", D_DIRECT, r, refD[0][0], 0xff, false, L::ALL, L::ALL, 0, len[0]);
    // reduced capabilities: DISTANCE_IN is supplied automatically, nothing else is
    unsigned ci = (unsigned)rng.below(128), caps = mk<G>(ci);
    L& lr = sc.make(ci, [&] { return g.DirectLine(k.lat1, k.lon1, k.azi1, len[0], caps); });
    if (!vh::same_bits(lr.Distance(), len[0]) || !same(lr.Arc(), refD[0][0].a12)) bad3("DirectLine(caps)/third-point", lr.Arc(), refD[0][0].a12);
    if (lr.Capabilities() != (caps | G::DISTANCE_IN | G::LATITUDE | G::AZIMUTH | UN)) bad3("DirectLine(caps)/capabilities", lr.Capabilities(), caps | G::DISTANCE_IN);
    Res rr = gen_pos(lr, false, lr.Distance(), L::ALL);
    judge(e, A_Third, "DirectLine(caps)/Position(Distance())", D_DIRECT, rr, refD[0][0], w_direct(L::ALL & (caps | G::LATITUDE | G::AZIMUTH)), false, L::ALL, caps, 0, len[0]);
  }
  if (have[1]) {
    L& la = s3.make(1, [&] { return rng.coin() ? g.ArcDirectLine(k.lat1, k.lon1, k.azi1, len[1]) : g.GenDirectLine(k.lat1, k.lon1, k.azi1, true, len[1]); });
    if (!vh::same_bits(la.Arc(), len[1])) bad3("ArcDirectLine/Arc()-not-a12", la.Arc(), len[1]);
    { Res t3, r3; fill(t3); fill(r3); t3.v[O_S12] = la.Distance(); r3.v[O_S12] = refD[1][0].v[O_S12]; t3.a12 = r3.a12 = 0;
      judge(e, A_Third, "ArcDirectLine/Distance()", D_DIRECT, t3, r3, 1u << O_S12, false, 0, L::ALL, 1, len[1]); }
    Res r = gen_pos(la, true, la.Arc(), L::ALL);
    judge(e, A_Third, "ArcDirectLine/ArcPosition(Arc())", D_DIRECT, r, refD[1][0], 0xff, false, L::ALL, L::ALL, 1, len[1]);
    // Position(Distance()) goes the other numerical route: the same point to tol(f)
    Res rd = gen_pos(la, false, la.Distance(), L::ALL);
    judge_route(e, S, "ArcDirectLine/Position(Distance())-vs-ArcDirect-end-point", "ArcDirectLine: Position(Distance()) vs ArcDirect end point", rd, refD[1][0], scaleT(1), std::fabs(rd.a12 - len[1]) * (M_PI / 180) * S.b, true, J(e.base).f("a12", len[1]).f("s13", la.Distance()));
    // reduced capabilities in arc mode: no DISTANCE -> Distance() is NaN, Arc() kept
    unsigned ci = (unsigned)rng.below(128), caps = mk<G>(ci);
    L& lr = sc.make(ci, [&] { return g.ArcDirectLine(k.lat1, k.lon1, k.azi1, len[1], caps); });
    if (!vh::same_bits(lr.Arc(), len[1])) bad3("ArcDirectLine(caps)/Arc()-not-a12", lr.Arc(), len[1]);
    if (caps >> 10 & 1u ? !same(lr.Distance(), la.Distance()) : !std::isnan(lr.Distance())) bad3("ArcDirectLine(caps)/Distance()-NaN-convention", lr.Distance(), caps >> 10 & 1u ? la.Distance() : NAN);
  }
  // ---- (F) arc / distance duality on the ALL line (both directions)
  if (have[0] && have[1]) {
    Res p1 = refP[1][0];                                   // point at arc len[1]; its distance:
    Res p2 = gen_pos(lall, false, p1.v[O_S12], L::ALL);
    judge_route(e, S, "duality/ArcPosition(a12)-then-Position(s12)", "duality: ArcPosition(a12) then Position(s12)", p2, p1, scaleT(1), std::fabs(p2.a12 - len[1]) * (M_PI / 180) * S.b, true, J(e.base).f("a12", len[1]).f("s12", p1.v[O_S12]));
    Res p3 = refP[0][0];                                   // point at distance len[0]; its arc:
    Res p4 = gen_pos(lall, true, p3.a12, L::ALL);
    judge_route(e, S, "duality/Position(s12)-then-ArcPosition(a12)", "duality: Position(s12) then ArcPosition(a12)", p4, p3, scaleT(0), std::fabs(p4.v[O_S12] - len[0]), true, J(e.base).f("s12", len[0]).f("a12", p3.a12));
  }
}

static uint64_t hash_base(const Base& k) { return vh::hmix(vh::hmix(vh::hmix(vh::hmix(vh::hmix(vh::hmix(12, k.e.a), k.e.f), k.lat1), k.lon1), k.azi1), k.len) ^ (k.arcmode ? 1 : 0); }

static void run_direct(Ctx& c, const Base& k, bool full) {
  g_acc.reset();
  c.count(k.cls, hash_base(k));
  if (c.want_sample(k.cls)) c.sample(k.cls, J().f("a", k.e.a).f("f", k.e.f).f("lat1", k.lat1).f("lon1", k.lon1).f("azi1", k.azi1).b("arcmode", k.arcmode).f("len", k.len));
  gh::Solvers& S = gh::solvers(k.e.a, k.e.f, k.e.series_ok);
  Res rx, rd;
  if (k.e.series_ok) direct_family<Geodesic, GeodesicLine>(c, k, S, *S.series, SV_SERIES, full, nullptr);
  direct_family<GeodesicExact, GeodesicLineExact>(c, k, S, *S.exact, SV_EXACT, full, &rx);
  direct_family<Geodesic, GeodesicLine>(c, k, S, *S.delegating, SV_DELEG, full, &rd);
  // pure delegation: Geodesic(exact=true) returns GeodesicExact's numbers
  { Env e{c, k.cls, SV_DELEG, base_j(k), S.b, std::max(S.a, S.b) * std::max(S.a, S.b)};
    judge(e, A_Deleg, "GenDirect-delegation", D_DIRECT, rd, rx, 0xff, false, Geodesic::ALL, 0, k.arcmode, k.len); }
  c.event(full ? "base problems with the full caps x mask product" : "direct base problems", 1);
  flush(c);
}

// ------------------------------------------------------------------------------------------------ inverse family
static J inv_j(const Inv& k) { return J().f("a", k.e.a).f("f", k.e.f).f("lat1", k.lat1).f("lon1", k.lon1).f("lat2", k.lat2).f("lon2", k.lon2); }

template <class G, class L>
static void inverse_family(Ctx& c, const Inv& k, const gh::Solvers& S, const G& g, int solver, Res* ref_out) {
  Env e{c, k.cls, solver, inv_j(k), S.b, std::max(S.a, S.b) * std::max(S.a, S.b)};
  vh::Rng& rng = c.rng;
  dirty_stack(1.0);
  Res ref = gen_inverse(g, k, G::ALL);
  if (ref_out) *ref_out = ref;
  e.sc_len = std::max(e.sc_len, std::fabs(ref.v[0]));
  // thin regime with its own keys: arc length below tol0 = eps radians (GenInverse's "prevent negative s12 or m12 for short lines" patch)
  if (ref.a12 >= 0 && ref.a12 < EPS * (180 / M_PI) * 1.0001) e.regime = "/arc-below-eps";
  for (int o = 0; o < 7; ++o) if (vh::is_sentinel(ref.v[o], o)) c.viol(std::string("sentinel:C12/requested-output-not-written/GenInverse(ALL)/") + e.sname() + "/" + D_INVERSE.name[o], k.cls, e.base);
  // ---- (A) the full mask lattice; the stack below the call is alternately filled with -1.0 / +1.0 so that a read of an
  //      uninitialised local shows up as a dependence on the mask or on the fill pattern
  for (unsigned i = 0; i < 256; ++i) {
    unsigned m = mk<G>(i);
    dirty_stack(i & 1u ? 1.0 : (i & 2u ? std::numeric_limits<double>::quiet_NaN() : -1.0));
    Res r = gen_inverse(g, k, m);
    judge(e, A_GenInverse, "GenInverse", D_INVERSE, r, ref, w_inverse(m), false, m, 0, -1, 0);
    if (i < 128 && !(i >> 3 & 1u)) {      // masks without DISTANCE: repeat with the opposite fill pattern
      dirty_stack(i & 1u ? -1.0 : 1.0);
      Res r2 = gen_inverse(g, k, m);
      bool eq = same(r.a12, r2.a12);
      for (int o = 0; o < 7; ++o) eq = eq && same(r.v[o], r2.v[o]);
      ++g_acc.calls;
      if (!eq) c.viol(std::string("uninit:C12/result-depends-on-previous-stack-contents/GenInverse/") + e.sname() + e.regime, k.cls, J(e.base).u("mask", m).f("a12_A", r.a12).f("a12_B", r2.a12).f("m12_A", r.v[3]).f("m12_B", r2.v[3]));
    }
  }
  // ---- (B) inline overloads
  { Res r; unsigned want;
    for (int n = 0; inverse_overload(g, k, n, r, want); ++n) { std::string nm = "Inverse#" + std::to_string(n); judge(e, A_Overload, nm.c_str(), D_INVERSE, r, ref, want, false, 0, 0, -1, 0); } }
  bool finite = std::isfinite(ref.a12);
  for (int o = 0; o < 7; ++o) finite = finite && std::isfinite(ref.v[o]);
  if (!finite) { c.event(std::string("inverse problem with non-finite ALL outputs ") + e.sname()); return; }
  // ---- (C) InverseLine: third point = point 2 of the inverse problem
  auto bad3 = [&](const std::string& what, double got, double want, unsigned caps) { c.viol("third:C12/" + what + "/" + e.sname() + e.regime, k.cls, J(e.base).u("caps", caps).f("got", got).f("want", want)); };
  double T = route_tol(S, solver, k.e.f) * std::max(1.0, ref.v[0] / (M_PI * S.b));
  std::string sv = e.sname();
  // thin regime with its own keys: prolate, both points near the equator, longitude difference near 180 (the inverse solver itself is off there)
  std::string rp = (k.e.f < -0.2 && std::max(std::fabs(k.lat1), std::fabs(k.lat2)) < 2 && std::fabs(std::remainder(k.lon2 - k.lon1, 360.0)) > 120) ? "/prolate-near-equatorial-near-antipodal" : "";
  // second thin regime of the inverse solver: very oblate (f > 0.3), both points within 1e-12 deg of the equator but not both exactly on it
  if (k.e.f > 0.3 && std::max(std::fabs(k.lat1), std::fabs(k.lat2)) < 1e-12 && (k.lat1 != 0 || k.lat2 != 0)) rp = "/very-oblate-within-1e-12deg-of-equator";
  {
    Slot<L> si;
    L& li = si.make(0, [&] { dirty_stack(-1.0); return g.InverseLine(k.lat1, k.lon1, k.lat2, k.lon2); });
    if (!same(li.Arc(), ref.a12)) bad3("InverseLine/Arc()-differs-from-Inverse-a12", li.Arc(), ref.a12, L::ALL);
    if (!same(li.Azimuth(), ref.v[1])) bad3("InverseLine/Azimuth()-differs-from-Inverse-azi1", li.Azimuth(), ref.v[1], L::ALL);
    if (!same(li.Latitude(), k.lat1) || !same(li.Longitude(), k.lon1)) bad3("InverseLine/start-point", li.Latitude(), k.lat1, L::ALL);
    double ds = std::fabs(li.Distance() - ref.v[0]);
    c.obs("InverseLine: |Distance() - Inverse s12| / tolerance [" + sv + rp + "]", ds / T, e.base);
    if (!(ds <= T)) c.viol("third:C12/InverseLine/Distance()-vs-Inverse-s12/" + sv + rp, k.cls, J(e.base).f("Distance", li.Distance()).f("s12", ref.v[0]).f("tol_m", T));
    // Position(Distance()) and ArcPosition(Arc()) against the INPUT point 2
    for (int am = 0; am < 2; ++am) {
      Res p = gen_pos(li, am, am ? li.Arc() : li.Distance(), L::ALL);
      q128 X1[3], X2[3];
      ref::to_xyz<q128>(S.E, p.v[O_LAT], p.v[O_LON], X1); ref::to_xyz<q128>(S.E, k.lat2, k.lon2, X2);
      double epos = (double)ref::dist3(X1, X2);
      c.obs(std::string("InverseLine: ") + (am ? "ArcPosition(Arc())" : "Position(Distance())") + " vs input point 2, position error / tolerance [" + sv + rp + "]", epos / T, e.base);
      if (!(epos <= T)) c.viol(!rp.empty() ? "third:C12/InverseLine/third-point-misses-input-point-2" + rp      // one defect of the inverse solver: one key
                               : std::string("third:C12/InverseLine/") + (am ? "ArcPosition(Arc())" : "Position(Distance())") + "-misses-input-point-2/" + sv, k.cls,
                               J(e.base).str("solver", sv).f("err_m", epos).f("tol_m", T).f("lat", p.v[O_LAT]).f("lon", p.v[O_LON]).f("s13", li.Distance()).f("a13", li.Arc()));
      // the other quantities at the third point are those of the inverse solution
      double em = std::fabs(p.v[O_m12] - ref.v[3]), eM = std::max(std::fabs(p.v[O_M12] - ref.v[4]), std::fabs(p.v[O_M21] - ref.v[5])) * S.a;
      c.obs("InverseLine: m12 at third point vs Inverse m12 / tolerance [" + sv + rp + "]", em / T, e.base);
      c.obs("InverseLine: M12,M21 at third point vs Inverse *a / tolerance [" + sv + rp + "]", eM / T, e.base);
    }
  }
  for (int rep = 0; rep < 4; ++rep) {      // capability conventions of InverseLine
    unsigned caps = rep == 0 ? unsigned(G::LATITUDE | G::LONGITUDE) : rep == 1 ? unsigned(G::DISTANCE_IN) : rep == 2 ? unsigned(G::STANDARD) : (mk<G>((unsigned)rng.below(128)) | (rng.coin() ? unsigned(G::DISTANCE_IN) : 0u));
    Slot<L> si;
    L& li = si.make(rep, [&] { dirty_stack(stack_pattern(rep)); return g.InverseLine(k.lat1, k.lon1, k.lat2, k.lon2, caps); });
    bool din = caps >> 11 & 1u, dcap = (caps >> 10 & 1u) || din;      // DISTANCE is added when DISTANCE_IN is asked for
    unsigned ecaps = caps | (din ? unsigned(G::DISTANCE) : 0u) | G::LATITUDE | G::AZIMUTH | G::LONG_UNROLL;
    if (li.Capabilities() != ecaps) bad3("InverseLine(caps)/capabilities", li.Capabilities(), ecaps, caps);
    if (!same(li.Arc(), ref.a12)) bad3("InverseLine(caps)/Arc()-differs-from-Inverse-a12", li.Arc(), ref.a12, caps);
    if (dcap ? !(std::fabs(li.Distance() - ref.v[0]) <= T) : !std::isnan(li.Distance())) bad3(dcap ? "InverseLine(caps)/Distance()-vs-Inverse-s12" : "InverseLine(caps)/Distance()-not-NaN-without-DISTANCE", li.Distance(), dcap ? ref.v[0] : NAN, caps);
    Res p = gen_pos(li, !din, din ? li.Distance() : li.Arc(), L::ALL);
    unsigned want = w_direct(L::ALL & ecaps);
    ++g_acc.calls;
    for (int o = 0; o < 8; ++o) if ((want >> o & 1u) == (unsigned)vh::is_sentinel(p.v[o], o))
      c.viol(std::string("sentinel:C12/") + (want >> o & 1u ? "requested-output-not-written" : "unrequested-output-written") + "/InverseLine(caps).GenPosition/" + sv + "/" + D_DIRECT.name[o], k.cls, J(e.base).u("caps", caps));
    if (want >> O_LON & 1u) {
      q128 X1[3], X2[3];
      ref::to_xyz<q128>(S.E, p.v[O_LAT], p.v[O_LON], X1); ref::to_xyz<q128>(S.E, k.lat2, k.lon2, X2);
      double epos = (double)ref::dist3(X1, X2);
      c.obs("InverseLine(caps): third point vs input point 2, position error / tolerance [" + sv + rp + "]", epos / T, J(e.base).u("caps", caps));
      if (!(epos <= T)) c.viol(!rp.empty() ? "third:C12/InverseLine/third-point-misses-input-point-2" + rp : "third:C12/InverseLine(caps)/third-point-misses-input-point-2/" + sv, k.cls,
                               J(e.base).u("caps", caps).str("solver", sv).f("err_m", epos).f("tol_m", T));
    }
  }
}

static void run_inverse(Ctx& c, const Inv& k) {
  g_acc.reset();
  c.count(k.cls, vh::hmix(vh::hmix(vh::hmix(vh::hmix(vh::hmix(vh::hmix(13, k.e.a), k.e.f), k.lat1), k.lon1), k.lat2), k.lon2));
  if (c.want_sample(k.cls)) c.sample(k.cls, inv_j(k));
  gh::Solvers& S = gh::solvers(k.e.a, k.e.f, k.e.series_ok);
  Res rx, rd;
  if (k.e.series_ok) inverse_family<Geodesic, GeodesicLine>(c, k, S, *S.series, SV_SERIES, nullptr);
  inverse_family<GeodesicExact, GeodesicLineExact>(c, k, S, *S.exact, SV_EXACT, &rx);
  inverse_family<Geodesic, GeodesicLine>(c, k, S, *S.delegating, SV_DELEG, &rd);
  { Env e{c, k.cls, SV_DELEG, inv_j(k), S.b, std::max(S.a, S.b) * std::max(S.a, S.b)};
    judge(e, A_Deleg, "GenInverse-delegation", D_INVERSE, rd, rx, 0x7f, false, Geodesic::ALL, 0, -1, 0); }
  c.event("inverse base problems", 1);
  flush(c);
}

// ------------------------------------------------------------------------------------------------ rhumb family
struct RhumbPair { std::unique_ptr<Rhumb> series, exact; };
static RhumbPair& rhumbs(double a, double f, bool want_series) {
  static std::map<std::pair<double, double>, RhumbPair> cache;
  auto key = std::make_pair(a, f);
  if (cache.size() > 64 && !cache.count(key)) cache.clear();
  RhumbPair& p = cache[key];
  if (!p.exact) p.exact.reset(vh::detached_new<Rhumb>([&] { return Rhumb(a, f, true); }, [&] { return Rhumb(a * 1.25, f > 0.5 ? 0.01 : 0.25, true); }));       // detached copies: harness/value_semantics.hpp
  if (want_series && !p.series) p.series.reset(vh::detached_new<Rhumb>([&] { return Rhumb(a, f, false); }, [&] { return Rhumb(a * 1.25, 0.005, false); }));
  return p;
}
static void rhumb_family(Ctx& c, const Base& k, const Inv& ki, const Rhumb& rh, int solver) {
  double a = k.e.a, b = a * (1 - k.e.f);
  Env e{c, k.cls, solver, base_j(k).f("s12", k.len).f("lat2", ki.lat2).f("lon2", ki.lon2), std::max(b, std::fabs(k.len)), std::max(a, b) * std::max(a, b)};
  auto rdir = [&](unsigned m) { Res r; fill(r); rh.GenDirect(k.lat1, k.lon1, k.azi1, k.len, m, r.v[0], r.v[1], r.v[2]); r.a12 = 0; return r; };
  auto rinv = [&](unsigned m) { Res r; fill(r); rh.GenInverse(ki.lat1, ki.lon1, ki.lat2, ki.lon2, m, r.v[0], r.v[1], r.v[2]); r.a12 = 0; return r; };
  RhumbLine rl = rh.Line(k.lat1, k.lon1, k.azi1);
  auto rpos = [&](unsigned m) { Res r; fill(r); rl.GenPosition(k.len, m, r.v[0], r.v[1], r.v[2]); r.a12 = 0; return r; };
  Res refD[2] = {rdir(Rhumb::ALL), rdir(Rhumb::ALL | Rhumb::LONG_UNROLL)}, refI = rinv(Rhumb::ALL), refP[2] = {rpos(RhumbLine::ALL), rpos(RhumbLine::ALL | RhumbLine::LONG_UNROLL)};
  e.sc_len = std::max(e.sc_len, std::fabs(refI.v[0]));
  // LONG_UNROLL only decides how lon2 is reported: lat2 and S12 must not depend on it, and the two longitudes differ by whole turns
  // (added after seeded change C12-r5s1: S12 computed from the REDUCED longitude difference when LONG_UNROLL is not set)
  for (int w = 0; w < 2; ++w) {
    const Res* rf = w ? refP : refD; const char* nm = w ? "RhumbLine::GenPosition" : "Rhumb::GenDirect";
    auto sameornan = [](double x, double y) { return same(x, y) || (std::isnan(x) && std::isnan(y)); };
    bool ok = sameornan(rf[0].v[0], rf[1].v[0]) && sameornan(rf[0].v[2], rf[1].v[2]);
    if (ok && std::isfinite(rf[0].v[1]) && std::isfinite(rf[1].v[1])) { double d = std::remainder(rf[1].v[1] - rf[0].v[1], 360.0); ok = std::fabs(d) <= 4 * std::numeric_limits<double>::epsilon() * std::max(360.0, std::fabs(rf[1].v[1])); }
    if (!ok) c.viol(std::string("value:C12/output-depends-on-LONG_UNROLL/") + nm + "/" + e.sname(), k.cls, J(e.base).f("lat2", rf[0].v[0]).f("lat2_unroll", rf[1].v[0]).f("lon2", rf[0].v[1]).f("lon2_unroll", rf[1].v[1]).f("S12", rf[0].v[2]).f("S12_unroll", rf[1].v[2]));
  }
  for (int u = 0; u < 2; ++u) judge(e, A_PosVsDirect, "RhumbLine::Position-vs-Rhumb::Direct", D_RHDIRECT, refP[u], refD[u], 7, false, Rhumb::ALL, 0, 0, k.len);
  for (unsigned i = 0; i < 256; ++i) {
    unsigned m = mk_rhumb(i);
    judge(e, A_RhDirect, "Rhumb::GenDirect", D_RHDIRECT, rdir(m), refD[i >> 7 & 1], w_rhdirect(m), false, m, 0, 0, k.len);
    judge(e, A_RhPosition, "RhumbLine::GenPosition", D_RHDIRECT, rpos(m), refP[i >> 7 & 1], w_rhdirect(m), false, m, 0, 0, k.len);
    judge(e, A_RhInverse, "Rhumb::GenInverse", D_RHINVERSE, rinv(m), refI, w_rhinverse(m), false, m, 0, -1, 0);
  }
  // overloads
  { Res r; fill(r); rh.Direct(k.lat1, k.lon1, k.azi1, k.len, r.v[0], r.v[1], r.v[2]); r.a12 = 0; judge(e, A_RhOverload, "Rhumb::Direct#0", D_RHDIRECT, r, refD[0], 7, false, 0, 0, 0, k.len); }
  { Res r; fill(r); rh.Direct(k.lat1, k.lon1, k.azi1, k.len, r.v[0], r.v[1]); r.a12 = 0; judge(e, A_RhOverload, "Rhumb::Direct#1", D_RHDIRECT, r, refD[0], 3, false, 0, 0, 0, k.len); }
  { Res r; fill(r); rl.Position(k.len, r.v[0], r.v[1], r.v[2]); r.a12 = 0; judge(e, A_RhOverload, "RhumbLine::Position#0", D_RHDIRECT, r, refP[0], 7, false, 0, 0, 0, k.len); }
  { Res r; fill(r); rl.Position(k.len, r.v[0], r.v[1]); r.a12 = 0; judge(e, A_RhOverload, "RhumbLine::Position#1", D_RHDIRECT, r, refP[0], 3, false, 0, 0, 0, k.len); }
  { Res r; fill(r); rh.Inverse(ki.lat1, ki.lon1, ki.lat2, ki.lon2, r.v[0], r.v[1], r.v[2]); r.a12 = 0; judge(e, A_RhOverload, "Rhumb::Inverse#0", D_RHINVERSE, r, refI, 7, false, 0, 0, -1, 0); }
  { Res r; fill(r); rh.Inverse(ki.lat1, ki.lon1, ki.lat2, ki.lon2, r.v[0], r.v[1]); r.a12 = 0; judge(e, A_RhOverload, "Rhumb::Inverse#1", D_RHINVERSE, r, refI, 3, false, 0, 0, -1, 0); }
  // line inspectors
  if (!same(rl.Latitude(), k.lat1) || !same(rl.Longitude(), k.lon1)) c.viol(std::string("third:C12/RhumbLine/start-point/") + e.sname(), k.cls, e.base);
}
static void sec_rhumb(Ctx& c, uint64_t) {
  g_acc.reset();
  vh::Rng& r = c.rng;
  Base k = gen(r); Inv ki = gen_inv(r); ki.e = k.e;
  if (r.coin(0.5)) { ki.lat1 = k.lat1; ki.lon1 = k.lon1; }
  // rhumb length: metres in every case; crossing a pole (lon2 = NaN convention) happens for long meridional-ish courses
  if (k.arcmode) k.len = k.len * (M_PI / 180) * k.e.a * (1 - k.e.f);
  k.arcmode = false;
  k.cls = "rhumb/" + k.cls.substr(7); k.cls = k.cls.substr(0, k.cls.rfind('/')) + "/" + ki.cls.substr(ki.cls.rfind('/') + 1);
  c.count(k.cls, vh::hmix(hash_base(k), vh::hmix(vh::hmix(14, ki.lat2), ki.lon2)));
  if (c.want_sample(k.cls)) c.sample(k.cls, base_j(k).f("s12", k.len).f("lat2", ki.lat2).f("lon2", ki.lon2));
  RhumbPair& R = rhumbs(k.e.a, k.e.f, k.e.series_ok);
  if (k.e.series_ok) rhumb_family(c, k, ki, *R.series, SV_RHS);
  rhumb_family(c, k, ki, *R.exact, SV_RHE);
  { double lat2, lon2; R.exact->Direct(k.lat1, k.lon1, k.azi1, k.len, lat2, lon2); if (std::isnan(lon2)) c.event("rhumb courses over a pole (lon2 = S12 = NaN convention)"); }
  c.event("rhumb base problems", 1);
  flush(c);
}

// ------------------------------------------------------------------------------------------------ uninitialised lines
// A default-constructed line lives in storage whose previous contents are arbitrary (heap reuse, stack): construct it by
// placement new into a buffer pre-filled with a byte pattern and check the documented contract (NaN, nothing set).
template <class L> static void default_line(Ctx& c, const char* sname, unsigned char fillbyte) {
  std::string cls = std::string("default-constructed-line/") + sname;
  c.count(cls, vh::hmix(15, (uint64_t)fillbyte) ^ vh::hstr(sname), fillbyte != 0);
  alignas(L) static unsigned char buf[sizeof(L)];
  std::memset(buf, fillbyte, sizeof buf);
  L* l = new (buf) L();
  J w = J().str("solver", sname).u("storage_fill_byte", fillbyte);
  auto bad = [&](const char* what) { c.viol(std::string("nan:C12/default-constructed-line/") + what + "/" + sname, cls, w); };
  if (l->Init()) bad("Init()-true");
  if (l->Capabilities() != 0u) bad("Capabilities()-nonzero");
  if (!(std::isnan(l->Latitude()) && std::isnan(l->Longitude()) && std::isnan(l->Azimuth()) && std::isnan(l->EquatorialAzimuth()) && std::isnan(l->EquatorialArc()) &&
        std::isnan(l->EquatorialRadius()) && std::isnan(l->Flattening()) && std::isnan(l->Distance()) && std::isnan(l->Arc()))) bad("inspector-not-NaN");
  { double s = vh::sentinel(0), cc = vh::sentinel(1); l->Azimuth(s, cc); l->EquatorialAzimuth(s, cc); if (!vh::is_sentinel(s, 0) || !vh::is_sentinel(cc, 1)) bad("inspector-wrote-output"); }
  static const double lens[] = {0, 1000, -5e6, 90, 1e300};
  for (int am = 0; am < 2; ++am) for (double len : lens) for (unsigned i = 0; i < 512; i += 3) {
    Res r = gen_pos(*l, am, len, mk<L>(i));
    ++g_acc.calls;
    if (!std::isnan(r.a12)) bad("GenPosition-returns-number");
    for (int o = 0; o < 8; ++o) if (!vh::is_sentinel(r.v[o], o)) bad("GenPosition-writes-output");
  }
  { Res r; unsigned want;
    for (int n = 0; position_overload(*l, 1000.0, n, r, want); ++n) { if (!std::isnan(r.a12)) bad("Position-returns-number"); for (int o = 0; o < 8; ++o) if (!vh::is_sentinel(r.v[o], o)) bad("Position-writes-output"); }
    for (int n = 0; arcposition_overload(*l, 10.0, n, r, want); ++n) for (int o = 0; o < 8; ++o) if (!vh::is_sentinel(r.v[o], o)) bad("ArcPosition-writes-output"); }
  l->SetDistance(1000); if (!(std::isnan(l->Arc()) && std::isnan(l->Distance()))) bad("SetDistance-gives-third-point");
  l->SetArc(10); if (!(std::isnan(l->Arc()) && std::isnan(l->Distance()))) bad("SetArc-gives-third-point");
  if (l->Init()) bad("Init()-true-after-setters");
  l->~L();
  c.event("default-constructed line objects exercised");
}
static void sec_defaultline(Ctx& c, uint64_t i) {
  g_acc.reset();
  static const unsigned char fills[] = {0x00, 0x01, 0xff, 0xa5, 0x5a, 0x80};
  unsigned char fb = fills[(i / 2) % 6];
  if (i & 1) default_line<GeodesicLineExact>(c, "exact", fb); else default_line<GeodesicLine>(c, "series", fb);
  flush(c);
}

// ------------------------------------------------------------------------------------------------ sections
static void sec_directed(Ctx& c, uint64_t i) { Base k; if (directed(i, k)) run_direct(c, k, false); }
static void sec_direct(Ctx& c, uint64_t) { Base k = gen(c.rng); run_direct(c, k, false); }
static void sec_full(Ctx& c, uint64_t i) {
  Base k = gen(c.rng);
  if (i % 4 == 0) { set_ell(k.e, gh::WGS84_A, gh::WGS84_F, "wgs84-like"); }
  if (i % 4 == 1) { set_ell(k.e, gh::WGS84_A, c.rng.coin() ? 0.05 : -0.05, c.rng.coin() ? "f<=0.2" : "f>=-0.2"); }
  if (!k.arcmode && i % 4 < 2) k.len = pick_len(c.rng, false, k.e.a * (1 - k.e.f), k.cls);
  k.cls = "full-lattice/" + k.e.bucket;
  run_direct(c, k, true);
}
static void sec_dirinv(Ctx& c, uint64_t i) { Inv k; if (directed_inv(i, k)) run_inverse(c, k); }
static void sec_inverse(Ctx& c, uint64_t) { Inv k = gen_inv(c.rng); run_inverse(c, k); }

int main(int argc, char** argv) {
  std::vector<Section> S;
  S.push_back({"defaultline", 12, 12, false, sec_defaultline, 60});
  S.push_back({"directed", 1050, 1050, true, sec_directed, 120});
  S.push_back({"direct", 4000, 80000, true, sec_direct, 120});
  S.push_back({"full", 64, 1000, true, sec_full, 600});
  S.push_back({"dirinv", 288, 288, true, sec_dirinv, 120});
  S.push_back({"inverse", 4000, 80000, true, sec_inverse, 120});
  S.push_back({"rhumb", 3000, 60000, true, sec_rhumb, 120});
  return vh::run_sections(argc, argv, S);
}
