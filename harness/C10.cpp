// C10 — text formatting and parsing is closed and faithful.
//  (a) encode -> decode round trips with an exact (GMP rational) half-unit oracle and an
//      independent reader of the output format (normalisation, padding, carry);
//  (b) grammar-based generation of the documented input forms with their exact value;
//  (c') deterministic mutation of well-formed strings judged by the independent recogniser
//      of the documented grammar (the libFuzzer targets in fuzz/ use the same monitors);
//  GeoCoords representations at all precisions parsed back by GeoCoords::Reset.
#include "harness/C10_monitors.hpp"
#include <cfloat>

using vh::Ctx; using vh::J; using vh::Section;
using namespace c10;
using GeographicLib::Math;
using GeographicLib::UTMUPS;
using GeographicLib::MGRS;

struct CtxSink : Sink {
  Ctx& c; explicit CtxSink(Ctx& cc) : c(cc) {}
  void viol(const std::string& key, const std::string& cls, const J& d) override { c.viol(key, cls, d); }
  void event(const std::string& n, uint64_t k) override { c.event(n, k); }
  void obs(const std::string& n, double v, const J& at) override { c.obs(n, v, at); }
};

// =========================================================================================
// (a) value catalogue for DMS::Encode
struct CatVal { double x; const char* cls; };
static std::vector<CatVal> build_catalogue() {
  std::vector<CatVal> v;
  auto add = [&](double x, const char* c) { v.push_back({x, c}); if (!std::isnan(x)) v.push_back({-x, c}); };
  const double sp[] = {0.0, 90.0, 180.0, 270.0, 360.0, 720.0, 45.0, 1.0, 59.0, 60.0, 89.0, 179.0, 359.0};
  for (double s : sp) for (int u = -2; u <= 2; ++u) add(vh::ulps(s, u), "special+-ulps");
  const double tiny[] = {5e-324, 2.2250738585072014e-308, 1e-300, 1e-100, 1e-20, 1e-16, 4.9e-12, 1e-9};
  for (double s : tiny) add(s, "tiny");
  const double huge[] = {1e15, 1e15 + 0.5, 4503599627370495.5, 9007199254740992.0, 1e18, 123456789012345678.0, 1e22, 1e100, 1e300, DBL_MAX};
  for (double s : huge) add(s, "huge");
  add(std::numeric_limits<double>::infinity(), "non-finite"); v.push_back({std::numeric_limits<double>::quiet_NaN(), "non-finite"});
  // x.99..95 at every precision, in degrees / minutes / seconds, with single and double carry
  const int bases[] = {0, 59, 89, 179, 359};
  for (int p = 0; p <= 16; ++p) {
    double h = 0.5 * std::pow(10.0, -p);
    for (int b : bases) for (int u = -1; u <= 1; ++u) {
      add(vh::ulps(b + 1 - h, u), "carry/degree");                                    // b.99..95
      add(vh::ulps(b + (59 + 1 - h) / 60, u), "carry/minute");                        // b d 59.99..95'
      add(vh::ulps(b + (59 + (59 + 1 - h) / 60) / 60, u), "carry/second");            // b d 59' 59.99..95"
      add(vh::ulps(b + (17 + (59 + 1 - h) / 60) / 60, u), "carry/second-into-minute");
      add(vh::ulps(b + (17 + 1 - h) / 60, u), "carry/minute-fraction");
      add(vh::ulps(b + h, u), "half-unit-above-integer");
    }
  }
  // k/60 and k/3600
  for (int k = 0; k <= 60; ++k) for (int u = -1; u <= 1; ++u) {
    add(vh::ulps(k / 60.0, u), "k/60"); add(vh::ulps(33 + k / 60.0, u), "k/60");
    add(vh::ulps(k / 3600.0, u), "k/3600"); add(vh::ulps(122 + (3540 + k) / 3600.0, u), "k/3600");
  }
  return v;
}
static const std::vector<CatVal>& catalogue() { static const std::vector<CatVal> c = build_catalogue(); return c; }

static void sec_encode_directed(Ctx& c, uint64_t idx) {
  CtxSink k(c); const CatVal& cv = catalogue()[idx];
  for (int tr = 0; tr < 3; ++tr) for (int ind = 0; ind < 4; ++ind) for (int sp = 0; sp < 2; ++sp) {
    std::string cls = std::string("encode/") + cv.cls + "/" + trname(tr) + "/" + indname(ind) + (sp ? "/colon" : "/dms");
    for (unsigned prec = 0; prec <= 20; ++prec) {
      c.count(cls, vh::hmix(vh::hmix(vh::hmix(11, cv.x), (uint64_t)(tr * 100 + ind * 10 + sp)), (uint64_t)prec));
      check_encode(cv.x, tr, prec, ind, sp ? ':' : 0, k, cls);
    }
    if (c.want_sample(cls)) c.sample(cls, J().f("x", cv.x).str("encoded", DMS::Encode(cv.x, DMS::component(tr), 3, DMS::flag(ind), sp ? ':' : 0)));
  }
  for (unsigned prec = 0; prec <= 20; ++prec) for (int ind = 0; ind < 5; ++ind) {
    std::string cls = std::string("encode4/") + cv.cls + "/" + indname(ind);
    c.count(cls, vh::hmix(vh::hmix(12, cv.x), (uint64_t)(prec * 8 + ind)));
    check_encode4(cv.x, prec, ind, (prec & 1) ? ':' : 0, k, cls);
  }
}

static double gen_value(vh::Rng& r, std::string& cls) {
  switch (r.below(12)) {
    case 0: cls = "lat-range"; return r.uniform(-90, 90);
    case 1: cls = "lon-range"; return r.uniform(-180, 180);
    case 2: cls = "azimuth-range"; return r.uniform(-720, 720);
    case 3: cls = "small"; return r.sign() * r.logu(1e-18, 1);
    case 4: cls = "large"; return r.sign() * r.logu(360, 1e17);
    case 5: { cls = "carry/random"; int p = r.range(0, 16); double base = std::floor(r.uniform(0, 360));
      int m = r.coin() ? 59 : r.range(0, 59), s = r.coin() ? 59 : r.range(0, 59);
      double h = r.uniform(0.3, 0.7) * std::pow(10.0, -p);
      switch (r.below(3)) { case 0: return r.sign() * vh::ulps(base + 1 - h, r.range(-2, 2));
        case 1: return r.sign() * vh::ulps(base + (m + 1 - h) / 60, r.range(-2, 2));
        default: return r.sign() * vh::ulps(base + (m + (s + 1 - h) / 60) / 60, r.range(-2, 2)); } }
    case 6: { cls = "k/3600"; return r.sign() * vh::ulps(std::floor(r.uniform(0, 360)) + r.range(0, 3600) / 3600.0, r.range(-2, 2)); }
    case 7: { cls = "decimal-tie"; int p = r.range(0, 12); double m = std::floor(r.uniform(0, 1e6));   // ...5 at the digit after the last printed one
      return r.sign() * (m + 0.5) * std::pow(10.0, -p); }
    case 8: cls = "binade"; return r.sign() * std::ldexp(1 + r.u(), r.range(-60, 60));
    case 9: cls = "near-360"; return r.sign() * vh::ulps(360.0 * r.range(0, 3), r.range(-3, 3)) + (r.coin(0.3) ? r.sign() * r.logu(1e-16, 1e-3) : 0);
    case 10: cls = "subnormal-or-huge"; return r.coin() ? r.sign() * std::ldexp(r.u(), -1022) : r.sign() * r.logu(1e17, 1.7e308);
    default: { static const double sp[] = {0.0, INF, NAN, 90, 180}; cls = "special"; double x = r.pick(sp); return r.coin() ? -x : x; }
  }
}
static void sec_encode_random(Ctx& c, uint64_t) {
  CtxSink k(c); std::string vc; double x = gen_value(c.rng, vc);
  for (int j = 0; j < 6; ++j) {
    int tr = c.rng.range(0, 2), ind = c.rng.range(0, 3); unsigned prec = (unsigned)c.rng.range(0, 20); char sp = c.rng.coin(0.3) ? ':' : 0;
    if (c.rng.coin(0.02)) prec = (unsigned)c.rng.below(1u << 31) * 2u + 21u;      // absurd precision is clamped, not a crash
    std::string cls = "encode/" + vc + "/" + trname(tr) + "/" + indname(ind) + (sp ? "/colon" : "/dms");
    c.count(cls, vh::hmix(vh::hmix(13, x), (uint64_t)(tr * 1000 + ind * 100 + prec % 100 + (sp ? 50000 : 0))), !std::isfinite(x));
    check_encode(x, tr, prec, ind, sp, k, cls);
  }
  int ind = c.rng.range(0, 4); unsigned prec = (unsigned)c.rng.range(0, 20);
  std::string cls = "encode4/" + vc + "/" + indname(ind);
  c.count(cls, vh::hmix(vh::hmix(14, x), (uint64_t)(prec * 8 + ind)), !std::isfinite(x));
  check_encode4(x, prec, ind, c.rng.coin(0.3) ? ':' : 0, k, cls);
}

// =========================================================================================
// Utility::str / val / fract / nummatch round trips
static void sec_strval(Ctx& c, uint64_t) {
  CtxSink k(c); vh::Rng& r = c.rng;
  std::string vc; double x;
  switch (r.below(8)) {
    case 0: vc = "uniform"; x = r.uniform(-1e6, 1e6); break;
    case 1: vc = "log"; x = r.sign() * r.logu(1e-30, 1e30); break;
    case 2: vc = "binade-all"; x = r.sign() * std::ldexp(1 + r.u(), r.range(-1074, 1023)); break;
    case 3: vc = "integer"; x = r.sign() * std::floor(r.logu(1, 1e17)); break;
    case 4: vc = "decimal-tie"; x = r.sign() * (std::floor(r.uniform(0, 1e6)) + 0.5) * std::pow(10.0, -r.range(0, 12)); break;
    case 5: vc = "subnormal"; x = r.sign() * std::ldexp(r.u(), -1022); break;
    case 6: { static const double sp[] = {0.0, INF, NAN, 1.0, DBL_MAX, DBL_MIN, 5e-324}; vc = "special"; x = r.pick(sp); if (r.coin()) x = -x; break; }
    default: vc = "wgs84-like"; x = r.coin() ? 6378137.0 + r.uniform(-1e3, 1e3) : 1 / (298.257223563 + r.uniform(-1, 1)); break;
  }
  int p = r.range(-1, 20);
  std::string cls = "str-val/" + vc + (p < 0 ? "/default-format" : "/fixed");
  c.count(cls, vh::hmix(vh::hmix(21, x), (uint64_t)(p + 1)), !std::isfinite(x));
  std::string S, what; double v = 0;
  auto det = [&]() { return J().f("x", x).i("p", p).str("str", S); };
  Outcome o = guarded([&] { S = Utility::str(x, p); v = Utility::val<double>(S); }, what);
  if (o != RETURNED) { c.viol("law:C10/str-val/rejected", cls, det().str("what", what)); return; }
  if (c.want_sample(cls)) c.sample(cls, det());
  if (!std::isfinite(x)) {
    const char* want = std::isnan(x) ? "nan" : x > 0 ? "inf" : "-inf";
    if (S != want || !(std::isnan(x) ? std::isnan(v) : v == x)) c.viol("law:C10/str-val/non-finite", cls, det().f("val", v));
    check_nummatch(S, k, cls);
    return;
  }
  double want = 0;
  if (!rd::strtod_exact(S, want)) { c.viol("oracle:C10/str/not-a-plain-number", cls, det()); return; }
  if (!vh::same_bits(v, want) && !(v == 0 && want == 0 && std::signbit(v) == std::signbit(want))) c.viol("oracle:C10/val-double/value", cls, det().f("val", v).f("want", want));
  if ((S[0] == '-') != std::signbit(x)) c.viol("oracle:C10/str/sign", cls, det());
  if (p >= 0) {
    std::string t = S[0] == '-' ? S.substr(1) : S; rd::Q D; int ni, nf;
    if (!rd::dec_to_q(t, D, &ni, &nf) || nf != p) { c.viol("oracle:C10/str/fixed-format", cls, det()); return; }
    rd::Q err = rd::qabs(D - rd::qabs(rd::Q::from_double(x))), unit = rd::pow10(-p);
    c.obs("str(x,p) |printed - x| [units of last digit]", (err / unit).to_double(), det());
    if (rd::cmp(err, unit / rd::Q(2)) > 0) c.viol("oracle:C10/str/half-unit-of-last-digit", cls, det());
  } else {
    // default stream format: 6 significant digits
    double rel = x == 0 ? std::fabs(v) : std::fabs(v - x) / std::fabs(x);
    if (!(rel <= 5.0e-6 * (1 + 1e-9)) && !(std::fabs(x) < 1e-300)) c.viol("oracle:C10/str/default-format-6-significant", cls, det().f("val", v));
  }
  check_val_double(S, k, cls);
  // fract: x / y written as "S/T"
  if (r.coin(0.3)) {
    double y = r.coin(0.1) ? 0.0 : r.sign() * r.logu(1e-3, 1e6); std::string T = Utility::str(y, r.range(0, 12));
    std::string F = S + "/" + T; check_fract(F, k, "fract/str-over-str"); c.count("fract/str-over-str", vh::hmixs(22, F));
  }
  // ints
  if (r.coin(0.3)) {
    long long n = r.coin(0.2) ? (r.coin() ? 2147483647LL : -2147483648LL) + r.range(-2, 2) : (long long)(r.sign() * std::floor(r.logu(1, 3e9)));
    std::string N = std::to_string(n); if (r.coin(0.2)) N = " " + N + "\t";
    c.count("val-int/decimal", vh::hmixs(23, N)); check_val_int(N, k, "val-int/decimal");
    if (n >= -2147483648LL && n <= 2147483647LL) {
      std::string N2 = Utility::str(int(n)); int b = 0;
      Outcome o2 = guarded([&] { b = Utility::val<int>(N2); }, what);
      if (o2 != RETURNED || b != int(n)) c.viol("law:C10/str-val/int-roundtrip", "val-int/decimal", J().i("n", n).str("str", N2));
    }
  }
}

// =========================================================================================
// GeoCoords representations at all precisions, parsed back by GeoCoords::Reset
static void gen_position(vh::Rng& r, double& lat, double& lon, std::string& cls) {
  switch (r.below(10)) {
    case 0: case 1: cls = "uniform"; lat = r.uniform(-90, 90); lon = r.uniform(-180, 180); break;
    case 2: cls = "utm-ups-boundary"; lat = (r.coin() ? 84.0 : -80.0) + (r.coin(0.3) ? 0 : r.sign() * r.logu(1e-12, 1e-2)); lon = r.uniform(-180, 180); break;
    case 3: cls = "zone-boundary"; lat = r.uniform(-80, 84); lon = -180 + 6 * r.range(0, 60) + (r.coin(0.3) ? 0 : r.sign() * r.logu(1e-12, 1e-3)); break;
    case 4: cls = "equator"; lat = r.coin(0.3) ? (r.coin() ? 0.0 : -0.0) : r.sign() * r.logu(1e-14, 1e-4); lon = r.uniform(-180, 180); break;
    case 5: cls = "pole"; lat = r.sign() * (90 - (r.coin(0.3) ? 0 : r.logu(1e-13, 5))); lon = r.uniform(-180, 180); break;
    case 6: cls = "norway-svalbard"; lat = r.uniform(56, 84); lon = r.uniform(0, 42); break;
    case 7: cls = "band-boundary"; lat = -80 + 8 * r.range(0, 20) + (r.coin(0.3) ? 0 : r.sign() * r.logu(1e-12, 1e-3)); lat = std::max(-90.0, std::min(90.0, lat)); lon = r.uniform(-180, 180); break;
    case 8: cls = "antimeridian"; lat = r.uniform(-90, 90); lon = r.sign() * (180 - (r.coin(0.3) ? 0 : r.logu(1e-13, 1e-2))); break;
    default: cls = "integer-degrees"; lat = r.range(-90, 90); lon = r.range(-180, 180); break;
  }
}
static bool within(double a, double b, double half_unit, double extra) { return std::fabs(a - b) <= half_unit * (1 + 1e-9) + extra; }

static void geocoords_body(Ctx& c, double lat, double lon, const std::string& pc) {
  vh::Rng& r = c.rng;
  std::string what; GeoCoords g;
  Outcome o = guarded([&] { g.Reset(lat, lon); }, what);
  if (o != RETURNED) { c.viol("exception:C10/GeoCoords(lat,lon)", "geocoords/" + pc, J().f("lat", lat).f("lon", lon).str("what", what)); return; }
  lon = g.Longitude();
  const bool ups = g.Zone() == 0;
  auto base = [&]() { return J().f("lat", lat).f("lon", lon).i("zone", g.Zone()).b("northp", g.Northp()).f("easting", g.Easting()).f("northing", g.Northing()); };
  uint64_t h0 = vh::hmix(vh::hmix(31, lat), lon);
  for (int prec = -7; prec <= 13; ++prec) {
    // ---- decimal degrees
    for (int lf = 0; lf < 2; ++lf) {
      std::string cls = "geocoords/geo/" + pc; c.count(cls, vh::hmix(h0, (uint64_t)(prec + 10 + 100 * lf)));
      std::string s; GeoCoords g2; int p = std::max(0, std::min(9, prec) + 5);
      o = guarded([&] { s = g.GeoRepresentation(prec, lf); g2.Reset(s, true, lf); }, what);
      if (o != RETURNED) { c.viol("law:C10/geocoords/geo-representation-rejected", cls, base().i("prec", prec).str("repr", s).str("what", what)); continue; }
      double hu = 0.5 * std::pow(10.0, -p);
      bool ok = within(g2.Latitude(), lat, hu, 2 * rd::ulp(lat)) && std::fabs(std::remainder(g2.Longitude() - lon, 360.0)) <= hu * (1 + 1e-9) + 2 * rd::ulp(180.0)
        && std::signbit(g2.Latitude()) == std::signbit(lat);
      if (!ok) c.viol("law:C10/geocoords/geo-representation-roundtrip", cls, base().i("prec", prec).b("longfirst", lf).str("repr", s).f("lat2", g2.Latitude()).f("lon2", g2.Longitude()));
      // independent exact reading of the text
      std::vector<std::string> t = rd::split_tokens(s);
      if (t.size() != 2) { c.viol("oracle:C10/geocoords/geo-representation-format", cls, base().str("repr", s)); continue; }
      for (int i = 0; i < 2; ++i) {
        double want = (i == 0) == (lf == 0) ? lat : lon; std::string u = t[i]; bool neg = u[0] == '-'; if (neg) u = u.substr(1);
        rd::Q D; int ni, nf;
        if (!rd::dec_to_q(u, D, &ni, &nf) || nf != p || rd::cmp(rd::qabs((neg ? -D : D) - rd::Q::from_double(want)), rd::pow10(-p) / rd::Q(2)) > 0 || neg != std::signbit(want))
          c.viol("oracle:C10/geocoords/geo-representation-half-unit", cls, base().i("prec", prec).str("repr", s));
      }
      if (c.want_sample(cls)) c.sample(cls, base().i("prec", prec).str("repr", s));
    }
    // ---- DMS with hemisphere letters, either order, parsed under either longfirst setting
    for (int lf = 0; lf < 2; ++lf) {
      char sep = (prec + lf) & 1 ? ':' : 0;
      std::string cls = std::string("geocoords/dms") + (sep ? "-colon/" : "/") + pc; c.count(cls, vh::hmix(h0, (uint64_t)(prec + 10 + 1000 + 100 * lf)));
      std::string s; GeoCoords g2; int p = std::max(0, std::min(10, prec) + 5);
      bool parse_lf = r.coin();
      o = guarded([&] { s = g.DMSRepresentation(prec, lf, sep); g2.Reset(s, true, parse_lf); }, what);
      if (o != RETURNED) { c.viol("law:C10/geocoords/dms-representation-rejected", cls, base().i("prec", prec).str("repr", s).str("what", what)); continue; }
      int tr = p < 2 ? 0 : p < 4 ? 1 : 2; int dec = p < 2 ? p : p < 4 ? p - 2 : p - 4; dec = std::min(dec, 15 - 2 * tr);
      double hu = 0.5 * std::pow(10.0, -dec) / (tr == 0 ? 1 : tr == 1 ? 60 : 3600);
      bool ok = within(g2.Latitude(), lat, hu, 4 * rd::ulp(lat)) && std::fabs(std::remainder(g2.Longitude() - lon, 360.0)) <= hu * (1 + 1e-9) + 4 * rd::ulp(180.0)
        && std::signbit(g2.Latitude()) == std::signbit(lat);
      if (!ok) c.viol("law:C10/geocoords/dms-representation-roundtrip", cls, base().i("prec", prec).b("longfirst", lf).str("repr", s).f("lat2", g2.Latitude()).f("lon2", g2.Longitude()));
      std::vector<std::string> t = rd::split_tokens(s);
      if (t.size() != 2 || t[lf ? 1 : 0].empty() || !std::strchr("NS", t[lf ? 1 : 0].back()) || !std::strchr("EW", t[lf ? 0 : 1].back()))
        c.viol("oracle:C10/geocoords/dms-representation-format", cls, base().str("repr", s));
      else for (int i = 0; i < 2; ++i) {      // documented precision table: trailing unit and number of decimals
        bool islat = (i == 0) == (lf == 0); Printed P; std::string why;
        if (!read_encoded(t[i], tr, sep, islat ? DMS::LATITUDE : DMS::LONGITUDE, P, why) || P.decimals != dec)
          c.viol("oracle:C10/geocoords/dms-representation-format", cls, base().i("prec", prec).str("repr", s).str("why", why).i("want_decimals", dec));
      }
      if (c.want_sample(cls)) c.sample(cls, base().i("prec", prec).str("repr", s));
    }
    // ---- UTM/UPS (standard, hemisphere override, alternate zone)
    for (int var = 0; var < 4; ++var) {
      bool abbrev = r.coin();
      static const char* vn[] = {"utmups", "utmups-override-n", "utmups-override-s", "utmups-alt"};
      std::string cls = std::string("geocoords/") + vn[var] + (ups ? "/ups/" : "/utm/") + pc;
      std::string s; GeoCoords g2; int p = std::max(-5, std::min(9, prec));
      double e0 = g.Easting(), n0 = g.Northing(); int z0 = g.Zone();
      if (var == 3) {
        if (ups) continue;
        int az = g.Zone() + (r.coin() ? 1 : -1); if (az < 1) az = 60; if (az > 60) az = 1;
        o = guarded([&] { g.SetAltZone(az); }, what);
        if (o == GEOERR) { c.event("geocoords: alternate zone not usable (GeographicErr, legal)"); g.SetAltZone(UTMUPS::STANDARD); continue; }
        if (o == OTHER) { c.viol("exception:C10/GeoCoords::SetAltZone", cls, base().i("altzone", az).str("what", what)); continue; }
        e0 = g.AltEasting(); n0 = g.AltNorthing(); z0 = g.AltZone();
      }
      c.count(cls, vh::hmix(h0, (uint64_t)(prec + 10 + 2000 + 100 * var)));
      o = guarded([&] { s = var == 0 ? g.UTMUPSRepresentation(prec, abbrev) : var == 1 ? g.UTMUPSRepresentation(true, prec, abbrev)
                          : var == 2 ? g.UTMUPSRepresentation(false, prec, abbrev) : g.AltUTMUPSRepresentation(prec, abbrev); }, what);
      if (var == 3) g.SetAltZone(UTMUPS::STANDARD);
      if (o == GEOERR && (var == 1 || var == 2) && ups) { c.event("geocoords: UPS hemisphere override refused (GeographicErr, documented)"); continue; }
      if (o != RETURNED) { c.viol("exception:C10/GeoCoords::UTMUPSRepresentation", cls, base().i("prec", prec).str("what", what)); continue; }
      o = guarded([&] { g2.Reset(s, true, false); }, what);
      if (o != RETURNED) { c.viol("law:C10/geocoords/utmups-representation-rejected", cls, base().i("prec", prec).str("repr", s).str("what", what)); continue; }
      double hu = 0.5 * std::pow(10.0, -p);
      // What the *text* says (independent reading): zone, hemisphere token, easting, northing.  The parser must keep the
      // printed hemisphere unless the northing lies strictly on the other side of the equator (y = northing - false
      // northing): y > 0 => north, y < 0 => south, y == 0 => the printed hemisphere is preserved ("either hemisphere
      // is allowed on the equator" -- this is what the unchanged library does, incl. for lat = -0.0 and "-0").
      {
        std::vector<std::string> tt = rd::split_tokens(s); rd::ZoneResult ZZ; rd::NumResult EE, NN;
        if (tt.size() != 3 || (ZZ = rd::zone_ref(tt[0])).st != rd::ACCEPT || (EE = rd::val_double_ref(tt[1])).st != rd::ACCEPT || (NN = rd::val_double_ref(tt[2])).st != rd::ACCEPT
            || EE.sp != rd::FINITE || NN.sp != rd::FINITE) { c.viol("oracle:C10/geocoords/utmups-representation-format", cls, base().i("prec", prec).str("repr", s)); continue; }
        bool hp = ZZ.northp; double y = ups ? NN.v : NN.v - (hp ? 0 : 1e7);
        double y0 = ups ? n0 : g.Northing() - (g.Northp() ? 0 : 1e7);     // true northing from the equator (same in every UTM hemisphere convention)
        if (var == 3) y0 = n0 - (g.Northp() ? 0 : 1e7);
        bool want_np = ups ? hp : (y > 0 ? true : y < 0 ? false : hp);
        double want_n = want_np == hp ? NN.v : NN.v + (hp ? 1e7 : -1e7);
        auto d2 = [&]() { return base().i("prec", prec).b("abbrev", abbrev).str("repr", s).i("zone2", g2.Zone()).b("northp2", g2.Northp()).f("easting2", g2.Easting()).f("northing2", g2.Northing()).b("want_northp", want_np).f("want_northing", want_n); };
        // (i) the text is within half a unit of the original
        if (ZZ.zone != z0 || !within(EE.v, e0, hu, 2 * rd::ulp(e0)) || !within(y, y0, hu, 2 * rd::ulp(1e7)))
          c.viol("law:C10/geocoords/utmups-representation-roundtrip", cls, d2().f("want_e", e0).f("want_n", n0));
        if ((var == 0 || var == 3) && hp != g.Northp()) c.viol("oracle:C10/geocoords/utmups-representation-hemisphere-token", cls, d2());
        if ((var == 1 || var == 2) && hp != (var == 1)) c.viol("oracle:C10/geocoords/utmups-representation-hemisphere-token", cls, d2());
        // (ii) the parser returns what the text says, with the hemisphere rule above
        if (g2.Zone() != ZZ.zone || !vh::same_bits(g2.Easting(), EE.v)) c.viol("law:C10/geocoords/utmups-parse-zone-or-easting", cls, d2());
        if (g2.Northp() != want_np || !(want_np == hp ? vh::same_bits(g2.Northing(), want_n) || (g2.Northing() == 0 && want_n == 0) : std::fabs(g2.Northing() - want_n) <= rd::ulp(1e7)))
          c.viol("law:C10/geocoords/utmups-parse-hemisphere-or-northing", cls, d2());
        // (iii) relative to the original position the hemisphere may differ only for a text exactly on the equator
        if (want_np != g.Northp()) {
          if (!ups && y == 0) c.event("geocoords: text exactly on the equator keeps the printed (overridden) hemisphere (tolerated)");
          else c.viol("law:C10/geocoords/utmups-representation-roundtrip", cls, d2().str("why", "hemisphere of the original position lost"));
        }
        // (iv) print(parse(text)) == text whenever the printed hemisphere is the one kept
        if (want_np == hp && g2.Northp() == hp) {
          std::string s2; o = guarded([&] { s2 = g2.UTMUPSRepresentation(prec, abbrev); }, what);
          if (o != RETURNED || s2 != s) c.viol("law:C10/geocoords/utmups-print-parse-fixed-point", cls, d2().str("reprinted", s2).str("what", what));
        }
      }
      // format: zone token + two plain numbers; negative precision pads with zeros
      std::vector<std::string> t = rd::split_tokens(s); rd::ZoneResult Z;
      if (t.size() != 3 || (Z = rd::zone_ref(t[0])).st != rd::ACCEPT || Z.zone != z0 || (abbrev ? t[0].size() > 3 : t[0].size() < 5))
        c.viol("oracle:C10/geocoords/utmups-representation-format", cls, base().i("prec", prec).str("repr", s));
      else for (int i = 1; i < 3; ++i) {      // fixed format with max(0,prec) decimals; negative precision ends in -prec zeros
        std::string u = t[i][0] == '-' ? t[i].substr(1) : t[i]; rd::Q D; int ni = 0, nf = 0;
        bool okf = rd::dec_to_q(u, D, &ni, &nf) && nf == std::max(0, p) && (nf > 0) == (u.find('.') != std::string::npos);
        if (okf && p < 0 && !D.is_zero()) okf = (int)u.size() > -p && u.substr(u.size() - (size_t)(-p)) == std::string((size_t)(-p), '0');
        if (!okf) c.viol("oracle:C10/geocoords/utmups-representation-format", cls, base().i("prec", prec).str("repr", s));
      }
      if (c.want_sample(cls)) c.sample(cls, base().i("prec", prec).str("repr", s));
    }
    // ---- MGRS (standard and alternate zone); truncation, so the centre of the cell is within half a unit
    if (prec >= -6 && prec <= 7) for (int var = 0; var < 2; ++var) {
      std::string cls = std::string("geocoords/") + (var ? "mgrs-alt" : "mgrs") + (ups ? "/ups/" : "/utm/") + pc;
      std::string s; GeoCoords g2, g3; int p = std::max(-1, std::min(6, prec) + 5);
      double e0 = g.Easting(), n0 = g.Northing(); int z0 = g.Zone();
      if (var == 1) {
        if (ups) continue;
        int az = g.Zone() + (r.coin() ? 1 : -1); if (az < 1) az = 60; if (az > 60) az = 1;
        o = guarded([&] { g.SetAltZone(az); }, what);
        if (o != RETURNED) { g.SetAltZone(UTMUPS::STANDARD); continue; }
        e0 = g.AltEasting(); n0 = g.AltNorthing(); z0 = g.AltZone();
      }
      o = guarded([&] { s = var ? g.AltMGRSRepresentation(prec) : g.MGRSRepresentation(prec); }, what);
      if (var == 1) g.SetAltZone(UTMUPS::STANDARD);
      if (o == GEOERR && var == 1) { c.event("geocoords: alternate-zone MGRS outside MGRS limits (GeographicErr, legal)"); continue; }
      if (o != RETURNED) { c.viol("exception:C10/GeoCoords::MGRSRepresentation", cls, base().i("prec", prec).str("what", what)); continue; }
      c.count(cls, vh::hmix(h0, (uint64_t)(prec + 10 + 3000 + 100 * var)));
      if (p < 0) { o = guarded([&] { g2.Reset(s, true, false); }, what);      // grid zone only
        if (o != RETURNED) c.viol("law:C10/geocoords/mgrs-representation-rejected", cls, base().i("prec", prec).str("repr", s).str("what", what)); continue; }
      o = guarded([&] { g2.Reset(s, true, false); g3.Reset(s, false, false); }, what);
      if (o != RETURNED) { c.viol("law:C10/geocoords/mgrs-representation-rejected", cls, base().i("prec", prec).str("repr", s).str("what", what)); continue; }
      double u = 1e5 * std::pow(10.0, -p);
      // In UPS and in UTM the reading is in the same zone / hemisphere as the (alternate) coordinates printed
      bool ok = g2.Zone() == z0 && g3.Zone() == z0 && g2.Northp() == g.Northp() && g3.Northp() == g.Northp()
        && within(g2.Easting(), e0, u / 2, 4 * rd::ulp(e0)) && within(g2.Northing(), n0, u / 2, 4 * rd::ulp(1e7))
        && g3.Easting() <= e0 + 4 * rd::ulp(e0) && e0 < g3.Easting() + u * (1 + 1e-12) + 4 * rd::ulp(e0)
        && g3.Northing() <= n0 + 4 * rd::ulp(1e7) && n0 < g3.Northing() + u * (1 + 1e-12) + 4 * rd::ulp(1e7);
      if (!ok) c.viol("law:C10/geocoords/mgrs-representation-roundtrip", cls, base().i("prec", prec).str("repr", s).i("zone2", g2.Zone()).b("northp2", g2.Northp())
                      .f("center_e", g2.Easting()).f("center_n", g2.Northing()).f("corner_e", g3.Easting()).f("corner_n", g3.Northing()).f("want_e", e0).f("want_n", n0));
      { size_t nd = 0; while (nd < s.size() && std::isdigit((unsigned char)s[s.size() - 1 - nd])) ++nd;      // 2 x (prec+5) digits after the letters
        if (!mgrs_lexical(s) || (int)nd != 2 * p) c.viol("oracle:C10/geocoords/mgrs-representation-format", cls, base().i("prec", prec).str("repr", s).i("want_digits", 2 * p)); }
      if (c.want_sample(cls)) c.sample(cls, base().i("prec", prec).str("repr", s));
    }
  }
}

static void sec_geocoords(Ctx& c, uint64_t) {
  double lat, lon; std::string pc; gen_position(c.rng, lat, lon, pc);
  geocoords_body(c, lat, lon, pc);
}
// directed: positions on / next to the equator (+0, -0, +-tiny that round onto it at every printed precision)
static const double kEqLat[] = {0.0, 5e-324, 1e-300, 1e-20, 1e-15, 1e-12, 4e-9, 4e-8, 4e-7, 4e-6, 4.4e-6, 4.6e-6, 4e-5, 4e-4, 4e-3, 0.04, 0.4};
static const double kEqLon[] = {3.0, -177.0, 0.0, 179.5, 45.3, -6.0, 8.99999999};
static void sec_geocoords_equator(Ctx& c, uint64_t idx) {
  size_t nl = sizeof kEqLat / sizeof kEqLat[0], nn = sizeof kEqLon / sizeof kEqLon[0];
  double lat = kEqLat[(idx / 2) % nl]; if (idx & 1) lat = -lat;
  double lon = kEqLon[(idx / (2 * nl)) % nn];
  geocoords_body(c, lat, lon, std::signbit(lat) ? "equator-directed/south-side" : "equator-directed/north-side");
}
// directed: three-token UTM strings exactly on the equator in both hemisphere conventions, every zone,
// zone first / last, abbreviated / long / upper-case hemisphere, several spellings of the numbers
static void sec_utm_equator(Ctx& c, uint64_t idx) {
  CtxSink k(c); int zone = (int)idx + 1;
  static const char* hs[] = {"s", "S", "south", "South", "SOUTH"}; static const char* hn[] = {"n", "N", "north", "North", "NORTH"};
  static const char* ns[] = {"10000000", "10000000.0", "10000000.000000000", "1e7", "10000000.", "+10000000", "010000000"};
  static const char* nn[] = {"0", "0.0", "-0", "-0.000", "0.000000000", "0e0", "+0"};
  static const char* es[] = {"500000", "500000.000", "166021.4", "833978.6", "5e5"};
  for (int south = 0; south < 2; ++south) for (int hi = 0; hi < 5; ++hi) for (int ni = 0; ni < 7; ++ni) for (int ei = 0; ei < 5; ++ei) for (int zl = 0; zl < 2; ++zl) for (int pad = 0; pad < 2; ++pad) {
    if (pad && zone >= 10) continue;
    char zb[8]; std::snprintf(zb, sizeof zb, pad ? "%02d" : "%d", zone);
    std::string zt = std::string(zb) + (south ? hs[hi] : hn[hi]), nt = south ? ns[ni] : nn[ni], et = es[ei];
    std::string line = zl ? et + " " + nt + " " + zt : zt + " " + et + " " + nt;
    std::string cls = std::string("utm-equator/") + (south ? "south-10000000" : "north-0") + (zl ? "/zone-last" : "/zone-first") + (hi >= 2 ? "/long-hemisphere" : "/abbreviated");
    c.count(cls, vh::hmixs(81, line), true);
    GeoCoords g; std::string what; Outcome o = guarded([&] { g.Reset(line); }, what);
    auto det = [&]() { return J().str("line", line).str("what", what).b("northp", g.Northp()).f("northing", g.Northing()).f("lat", g.Latitude()).i("zone", g.Zone()); };
    if (o != RETURNED) { c.viol("oracle:C10/utm-equator/rejected", cls, det()); continue; }
    double wantn = south ? 1e7 : 0.0;
    if (g.Zone() != zone || g.Northp() != !south || g.Northing() != wantn || g.Latitude() != 0)
      { c.viol("oracle:C10/utm-equator/hemisphere-or-northing-not-preserved", cls, det()); continue; }
    // print / parse fixed point in every precision and hemisphere spelling
    for (int prec = -5; prec <= 9; ++prec) for (int ab = 0; ab < 2; ++ab) {
      std::string r1, r2; GeoCoords g2;
      o = guarded([&] { r1 = g.UTMUPSRepresentation(prec, ab != 0); g2.Reset(r1); r2 = g2.UTMUPSRepresentation(prec, ab != 0); }, what);
      std::vector<std::string> t = rd::split_tokens(r1); rd::ZoneResult Z; if (t.size() == 3) Z = rd::zone_ref(t[0]);
      bool neg0 = !south && nt[0] == '-';
      std::string wantnt = std::string(neg0 ? "-" : "") + (south ? (prec < 0 ? std::to_string((long long)std::llround(1e7 / std::pow(10.0, -prec))) + std::string((size_t)(-prec), '0') : std::string("10000000")) : std::string("0"));
      if (prec > 0) wantnt += "." + std::string((size_t)prec, '0');
      if (o != RETURNED || r1 != r2 || t.size() != 3 || Z.st != rd::ACCEPT || Z.northp != !south || Z.zone != zone || t[2] != wantnt || g2.Northp() != !south || g2.Northing() != wantn)
        c.viol("law:C10/utm-equator/print-parse-fixed-point", cls, det().i("prec", prec).b("abbrev", ab).str("printed", r1).str("reprinted", r2).str("want_northing_text", wantnt));
    }
    check_geocoords_reset(line, true, false, k, cls);
    if (c.want_sample(cls)) c.sample(cls, det().str("printed", g.UTMUPSRepresentation(0)));
  }
}

// undefined position: every representation still parses and gives back "undefined"
static void sec_geocoords_nan(Ctx& c, uint64_t idx) {
  double lat = idx & 1 ? NAN : 45.0, lon = idx & 2 ? NAN : 10.0; if (!(idx & 3)) { lat = NAN; lon = NAN; }
  std::string cls = "geocoords/undefined-position"; c.count(cls, idx, true);
  std::string what, s[4]; GeoCoords g, g2;
  Outcome o = guarded([&] { if (idx == 0) g = GeoCoords(); else g.Reset(lat, lon); s[0] = g.GeoRepresentation(3); s[1] = g.DMSRepresentation(3); s[2] = g.UTMUPSRepresentation(3); s[3] = g.MGRSRepresentation(3); }, what);
  if (o != RETURNED) { c.viol("exception:C10/GeoCoords/undefined-position", cls, J().u("idx", idx).str("what", what)); return; }
  for (int i = 0; i < 4; ++i) {
    o = guarded([&] { g2.Reset(s[i]); }, what);
    bool ok = o == RETURNED && (i >= 2 ? (std::isnan(g2.Latitude()) && std::isnan(g2.Longitude()))
                                       : (std::isnan(g.Latitude()) == std::isnan(g2.Latitude()) && std::isnan(g.Longitude()) == std::isnan(g2.Longitude())));
    if (!ok) c.viol("law:C10/geocoords/undefined-position-roundtrip", cls, J().u("idx", idx).str("repr", s[i]).str("what", what));
  }
  c.sample(cls, J().str("geo", s[0]).str("dms", s[1]).str("utm", s[2]).str("mgrs", s[3]));
}


// =========================================================================================
// numeric split / join helpers of DMS (Encode(ang,d,m[,s]), Decode(d,m,s))
static void sec_split(Ctx& c, uint64_t) {
  vh::Rng& r = c.rng; std::string vc; double x = gen_value(r, vc);
  if (!std::isfinite(x) || std::fabs(x) >= 2e9) { x = r.uniform(-1e6, 1e6); vc = "uniform"; }   // int(ang) must be representable
  std::string cls = "split/" + vc; c.count(cls, vh::hmix(71, x));
  double d = 0, m = 0, s = 0, d2 = 0, m2 = 0;
  DMS::Encode(x, d, m, s); DMS::Encode(x, d2, m2);
  auto det = [&]() { return J().f("x", x).f("d", d).f("m", m).f("s", s).f("d2", d2).f("m2", m2); };
  bool neg = x < 0;
  bool ok = d == std::trunc(x) && d2 == d && m == std::trunc(m) && std::fabs(m) < 60 && std::fabs(s) <= 60 && std::fabs(m2) <= 60
    && (neg ? (m <= 0 && s <= 0 && m2 <= 0) : (m >= 0 && s >= 0 && m2 >= 0));
  if (!ok) c.viol("oracle:C10/split/components", cls, det());
  // exact recomposition error of the returned components (they are an exact-arithmetic statement about x)
  rd::Q X = rd::Q::from_double(x);
  rd::Q e3 = rd::qabs(rd::Q::from_double(d) + rd::Q::from_double(m) / rd::Q(60) + rd::Q::from_double(s) / rd::Q(3600) - X);
  rd::Q e2 = rd::qabs(rd::Q::from_double(d2) + rd::Q::from_double(m2) / rd::Q(60) - X);
  double u = rd::ulp(x), scale = std::max(u, rd::ulp(1.0) * std::min(1.0, std::fabs(x)));
  c.obs("split recomposition error [max(ulp(x), eps*min(1,|x|))]", std::max(e3.to_double(), e2.to_double()) / scale, det());
  if (rd::cmp(e3, rd::Q::from_double(4 * scale)) > 0 || rd::cmp(e2, rd::Q::from_double(4 * scale)) > 0) c.viol("oracle:C10/split/recomposition", cls, det());
  double y = DMS::Decode(d, m, s);
  if (!(std::fabs(y - x) <= 6 * scale)) c.viol("oracle:C10/split/decode-dms-triple", cls, det().f("joined", y));
}

// =========================================================================================
// (b) grammar-based generation with known exact value
struct GenPiece { std::string text; rd::Q val; int ind = 0; std::string feat; };
static std::string spell(vh::Rng& r, rd::Cls cl, bool unicode) {
  if (!unicode) { switch (cl) { case rd::C_DEG: return r.coin(0.8) ? "d" : (r.coin() ? "D" : "*"); case rd::C_MIN: return r.coin(0.8) ? "'" : "`";
      case rd::C_SEC: return r.coin(0.7) ? "\"" : "''"; case rd::C_PLUS: return "+"; case rd::C_MINUS: return "-"; default: return ""; } }
  static std::vector<std::string> tab[6]; if (tab[0].empty()) for (int i = 0; i < 6; ++i) tab[i] = rd::spellings(rd::Cls(i));
  if (cl == rd::C_SEC && r.coin(0.15)) return r.pick(tab[rd::C_MIN]) + r.pick(tab[rd::C_MIN]);     // any two consecutive minute symbols
  return r.pick(tab[cl]);
}
static std::string gen_uint(vh::Rng& r, long long v, bool pad2) {
  std::string s = std::to_string(v);
  if (pad2 && s.size() < 2 && r.coin(0.6)) s = "0" + s;
  if (r.coin(0.1)) s = std::string(r.range(1, 3), '0') + s;
  return s;
}
static std::string gen_frac(vh::Rng& r) {
  int n = r.coin(0.1) ? r.range(16, 30) : r.range(0, 15); std::string f = ".";
  for (int i = 0; i < n; ++i) f += (char)('0' + (r.coin(0.15) ? 9 : r.range(0, 9)));
  return f;
}
// body + sign + hemisphere.  hemi: 0 none allowed, 1 N/S, 2 E/W.
static GenPiece gen_piece(vh::Rng& r, bool first, int hemi, bool unicode, double maxdeg, int style) {
  GenPiece g; std::vector<std::string> tok; rd::Q tot;
  long long degv = maxdeg >= 1 ? (long long)std::floor(r.coin(0.15) ? r.logu(1, maxdeg + 1) - 1 : r.uniform(0, maxdeg)) : 0;
  bool have[3] = {false, false, false};
  if (style == 0) have[0] = true;
  else if (style == 1) { int m = r.range(1, 7); for (int i = 0; i < 3; ++i) have[i] = m & (1 << i); }
  else { have[0] = have[1] = true; have[2] = r.coin(); }
  int last = have[2] ? 2 : have[1] ? 1 : 0;
  bool omit_last = false;
  if (style == 1) { int prev = -1; for (int i = 0; i < last; ++i) if (have[i]) prev = i;
    bool can = (prev == last - 1) || (last == 0); omit_last = can && r.coin(0.35); }
  for (int i = 0; i < 3; ++i) if (have[i]) {
    std::string num; long long iv = i == 0 ? degv : r.range(0, 59);
    bool sixty = i > 0 && i == last && r.coin(0.02);
    if (i == last && (sixty || r.coin(0.6))) {
      std::string f = sixty ? std::string(".") + std::string(r.range(0, 4), '0') : gen_frac(r);
      num = (iv == 0 && !sixty && f.size() > 1 && r.coin(0.2)) ? f : gen_uint(r, sixty ? 60 : iv, i > 0) + f;
    } else num = gen_uint(r, iv, i > 0);
    rd::Q q; rd::dec_to_q(num, q);
    tot = tot + q / rd::Q(i == 0 ? 1 : i == 1 ? 60 : 3600);
    tok.push_back(num);
    if (style == 2) { if (i != last) tok.push_back(":"); }
    else if (style == 1 && !(i == last && omit_last)) tok.push_back(spell(r, i == 0 ? rd::C_DEG : i == 1 ? rd::C_MIN : rd::C_SEC, unicode));
    else if (style == 0 && r.coin(0.15)) tok.push_back(spell(r, rd::C_DEG, unicode));
  }
  int sign = 1; std::string sg;
  if (!first || r.coin(0.4)) { bool neg = r.coin(); sign = neg ? -1 : 1; sg = spell(r, neg ? rd::C_MINUS : rd::C_PLUS, unicode); }
  std::string h; bool hpre = false;
  if (hemi && r.coin(first ? 0.6 : 0.3)) {
    const char* L = hemi == 1 ? "SN" : "WE"; int w = r.range(0, 1); char ch = L[w]; if (r.coin(0.3)) ch = (char)std::tolower(ch);
    h = std::string(1, ch); if (w == 0) sign = -sign; g.ind = hemi; hpre = first && r.coin();
  }
  // assemble with optional ignorable spaces between tokens
  std::vector<std::string> all;
  if (hpre) all.push_back(h);
  if (!sg.empty()) all.push_back(sg);
  for (auto& t : tok) all.push_back(t);
  if (!h.empty() && !hpre) all.push_back(h);
  static std::vector<std::string> ign; if (ign.empty()) ign = rd::spellings(rd::C_IGN);
  for (size_t i = 0; i < all.size(); ++i) { g.text += all[i]; if (unicode && r.coin(0.12)) g.text += r.pick(ign); }
  g.val = sign < 0 ? -tot : tot;
  g.feat = std::string(style == 0 ? "decimal" : style == 1 ? "dms-letters" : "colon") + (g.ind ? (hpre ? "/hemi-prefix" : "/hemi-suffix") : "/no-hemi") + (sg.empty() ? "" : "/signed");
  return g;
}
struct GenString { std::string text; rd::Q val; int ind = 0; std::string cls; int npieces = 1; };
static GenString gen_dms(vh::Rng& r, int hemi, double maxdeg, bool allow_sum) {
  GenString s; bool unicode = r.coin(0.35);
  int np = allow_sum && r.coin(0.3) ? r.range(2, 4) : 1;
  std::string feat;
  for (int i = 0; i < np; ++i) {
    int style = r.below(3) == 0 ? 0 : r.coin() ? 1 : 2;
    GenPiece p = gen_piece(r, i == 0, hemi, unicode, i == 0 ? maxdeg : std::min(maxdeg, 5.0), style);
    s.text += p.text; s.val = s.val + p.val; if (p.ind) s.ind = p.ind; if (i == 0) feat = p.feat;
  }
  s.npieces = np;
  if (r.coin(0.15)) s.text = std::string(r.range(1, 2), r.coin() ? ' ' : '\t') + s.text;
  if (r.coin(0.15)) s.text += std::string(r.range(1, 2), r.coin() ? ' ' : '\n');
  s.cls = feat + (np > 1 ? "/sum" : "") + (unicode ? "/unicode" : "/ascii");
  return s;
}
static bool q_close(double v, const rd::Q& q, double tol) { return std::isfinite(v) && rd::cmp(rd::qabs(rd::Q::from_double(v) - q), rd::Q::from_double(tol)) <= 0; }

static void sec_grammar(Ctx& c, uint64_t) {
  CtxSink k(c); vh::Rng& r = c.rng;
  int mode = (int)r.below(4);
  if (mode <= 1) {
    // single angle through Decode / DecodeAngle / DecodeAzimuth
    int hemi = r.below(3); double maxdeg = r.coin(0.1) ? 1e15 : r.coin(0.3) ? 720 : 180;
    GenString s = gen_dms(r, hemi, maxdeg, true);
    std::string cls = "grammar/angle/" + s.cls;
    c.count(cls, vh::hmixs(41, s.text));
    if (c.want_sample(cls)) c.sample(cls, J().str("text", s.text).str("exact_value", s.val.str()).i("ind", s.ind));
    // the generator's own exact value is the oracle; the recogniser must agree with it (else the harness is wrong)
    rd::DmsResult R = rd::decode_ref(s.text);
    if (R.st != rd::ACCEPT || R.val.sp != rd::FINITE || rd::cmp(R.val.q, s.val) != 0 || R.ind != s.ind) {
      c.herr("recogniser disagrees with generator on '" + vh::jesc(s.text) + "': " + R.why + " value " + valstr(R.val) + " vs " + s.val.str()); return; }
    double v = 0; DMS::flag fl; std::string what;
    Outcome o = guarded([&] { v = DMS::Decode(s.text, fl); }, what);
    auto det = [&]() { return J().str("text", s.text).str("exact_value", s.val.str()).i("ind", s.ind); };
    if (o != RETURNED) { c.viol("oracle:C10/grammar/documented-form-rejected", cls, det().str("what", what)); return; }
    if (!q_close(v, s.val, R.val.tol)) c.viol("oracle:C10/grammar/value", cls, det().f("returned", v));
    if ((int)fl != s.ind) c.viol("oracle:C10/grammar/hemisphere-flag", cls, det().i("flag", fl));
    check_decode(s.text, k, cls);
    check_angle(s.text, k, cls);
    check_azimuth(s.text, k, cls);
    // direct statement of DecodeAngle / DecodeAzimuth against the generator's value
    o = guarded([&] { v = DMS::DecodeAngle(s.text); }, what);
    if ((o == RETURNED) != (s.ind == 0)) c.viol("oracle:C10/grammar/decode-angle-hemisphere-rule", cls, det());
    o = guarded([&] { v = DMS::DecodeAzimuth(s.text); }, what);
    if ((o == RETURNED) != (s.ind != 1)) c.viol("oracle:C10/grammar/decode-azimuth-hemisphere-rule", cls, det());
    else if (o == RETURNED) {
      rd::Q d = rd::Q::from_double(v) - s.val, n = rd::qfloor(d / rd::Q(360) + rd::Q(1, 2));
      if (!(std::fabs(v) <= 180) || rd::cmp(rd::qabs(d - rd::Q(360) * n), rd::Q::from_double(R.val.tol + rd::ulp(180.0))) > 0)
        c.viol("oracle:C10/grammar/decode-azimuth-value", cls, det().f("returned", v));
    }
    return;
  }
  // a position: latitude and longitude strings, either order, longfirst
  bool hl = r.coin(), hn = r.coin();
  GenString A = gen_dms(r, hl ? 1 : 0, 90, r.coin(0.2)), B = gen_dms(r, hn ? 2 : 0, r.coin(0.2) ? 720 : 180, r.coin(0.2));
  // keep the latitude legal: |lat| <= 90 exactly (fractions may push 90 over)
  if (rd::cmp(rd::qabs(A.val), rd::Q(90)) > 0) { A = GenString(); A.text = r.coin() ? "90" : "-90"; A.val = rd::Q(A.text[0] == '-' ? -90 : 90); A.cls = "decimal/no-hemi/ascii"; }
  // white space belongs to the token separator here
  auto strip = [](std::string t) { return rd::trim_ws(t); };
  A.text = strip(A.text); B.text = strip(B.text);
  bool anyhemi = A.ind || B.ind;
  bool longfirst = r.coin(0.4);
  bool lonfirst_in_text = anyhemi ? r.coin() : longfirst;
  const std::string& t0 = lonfirst_in_text ? B.text : A.text; const std::string& t1 = lonfirst_in_text ? A.text : B.text;
  std::string cls = std::string("grammar/position/") + (A.ind ? "lat-hemi" : "lat-plain") + (B.ind ? "/lon-hemi" : "/lon-plain") + (lonfirst_in_text ? "/lon-first" : "/lat-first") + (longfirst ? "/longfirst-flag" : "");
  c.count(cls, vh::hmixs(vh::hmixs(42, t0), t1));
  auto det = [&]() { return J().str("first", t0).str("second", t1).b("longfirst", longfirst).str("exact_lat", A.val.str()).str("exact_lon", B.val.str()); };
  if (c.want_sample(cls)) c.sample(cls, det());
  rd::DmsResult RA = rd::decode_ref(A.text), RB = rd::decode_ref(B.text);
  if (RA.st != rd::ACCEPT || RB.st != rd::ACCEPT || rd::cmp(RA.val.q, A.val) || rd::cmp(RB.val.q, B.val)) { c.herr("recogniser disagrees with generator (position) on '" + vh::jesc(A.text) + "' / '" + vh::jesc(B.text) + "': " + RA.why + " | " + RB.why + " " + valstr(RA.val) + " vs " + A.val.str() + "; " + valstr(RB.val) + " vs " + B.val.str()); return; }
  double lat = 0, lon = 0; std::string what;
  Outcome o = guarded([&] { DMS::DecodeLatLon(t0, t1, lat, lon, longfirst); }, what);
  if (o != RETURNED) { c.viol("oracle:C10/grammar/position-rejected", cls, det().str("what", what)); return; }
  if (!q_close(lat, A.val, RA.val.tol) || !q_close(lon, B.val, RB.val.tol)) c.viol("oracle:C10/grammar/position-value-or-order", cls, det().f("lat", lat).f("lon", lon));
  check_latlon(t0, t1, longfirst, k, cls);
  if (mode == 3 && rd::cmp(rd::qabs(B.val), rd::Q(100000)) < 0) {
    // the same through GeoCoords with blank / comma separators
    static const char* seps[] = {" ", "  ", ",", ", ", "\t", " ,"};
    std::string line = (r.coin(0.2) ? " " : "") + t0 + r.pick(seps) + t1 + (r.coin(0.2) ? " " : "");
    GeoCoords g; o = guarded([&] { g.Reset(line, r.coin(), longfirst); }, what);
    if (o != RETURNED) { c.viol("oracle:C10/grammar/geocoords-position-rejected", cls, det().str("line", line).str("what", what)); return; }
    rd::Value want; want.q = B.val; want.tol = RB.val.tol;
    if (!q_close(g.Latitude(), A.val, RA.val.tol) || !lon_equal_mod360(g.Longitude(), want, rd::ulp(360.0)))
      c.viol("oracle:C10/grammar/geocoords-position-value-or-order", cls, det().str("line", line).f("lat", g.Latitude()).f("lon", g.Longitude()));
    if (std::fabs(g.Longitude()) > 180) c.event("unreduced longitude returned by GeoCoords::Reset(string)");
    check_geocoords_reset(line, true, longfirst, k, cls);
  }
}

// =========================================================================================
// (c') deterministic mutation, judged by the recogniser
static const std::vector<std::string>& dictionary() {
  static std::vector<std::string> d;
  if (d.empty()) {
    for (int i = 0; i < 6; ++i) for (auto& s : rd::spellings(rd::Cls(i))) d.push_back(s);
    const char* a[] = {"0", "1", "5", "9", "59", "60", "61", ".", ":", "::", "d", "'", "\"", "N", "S", "E", "W", "n", "s", "e", "w", "+", "-", " ", "\t", ",", "/",
      "nan", "inf", "infinity", "1.#INF", "1.#QNAN", "1.#IND", "e5", "E+1", "x", "#", "north", "south", "38", "38n", "SMB", "\xe2", "\xe2\x80", "\xc2", "\xff", "\x80", "\r"};
    for (const char* s : a) d.push_back(s);
    d.push_back(std::string(1, '\0'));
  }
  return d;
}
static std::string mutate(vh::Rng& r, std::string s, int nmut) {
  const auto& D = dictionary();
  for (int m = 0; m < nmut; ++m) {
    size_t n = s.size(); size_t p = n ? r.below(n + 1) : 0;
    switch (r.below(8)) {
      case 0: case 1: s.insert(p, r.pick(D)); break;
      case 2: if (n) s.erase(std::min(p, n - 1), 1); break;
      case 3: if (n) { size_t q = std::min(p, n - 1); s.replace(q, 1, r.pick(D)); } break;
      case 4: if (n) { size_t q = std::min(p, n - 1), l = 1 + r.below(std::min<size_t>(4, n - q)); s.insert(q, s.substr(q, l)); } break;   // duplicate a chunk
      case 5: if (n > 1) { size_t q = r.below(n - 1); std::swap(s[q], s[q + 1]); } break;
      case 6: if (n) { size_t q = std::min(p, n - 1); s[q] = (char)(s[q] ^ (1 << r.below(8))); } break;
      default: { const char* tails[] = {":1", ":2:3", "d1", "'1", "\"1", "+1", "-0:0.5", "N", "W", ".5", "0"}; s += r.pick(tails); } break;
    }
  }
  return s;
}
static void sec_mutate(Ctx& c, uint64_t) {
  CtxSink k(c); vh::Rng& r = c.rng;
  int target = (int)r.below(10);
  std::string base, cls;
  auto angle = [&]() { if (r.coin(0.3)) { std::string vc; double x = gen_value(r, vc); if (!std::isfinite(x)) x = 12.5;
      return DMS::Encode(x, DMS::component(r.range(0, 2)), (unsigned)r.range(0, 12), DMS::flag(r.range(0, 3)), r.coin(0.4) ? ':' : 0); }
    return gen_dms(r, r.below(3), 360, true).text; };
  int nm = r.coin(0.15) ? 0 : r.range(1, 3);
  switch (target) {
    case 0: case 1: case 2: { std::string m = mutate(r, angle(), nm); rd::DmsResult R = check_decode(m, k, "mutate/decode");
      cls = std::string("mutate/decode/ref-") + (R.st == rd::ACCEPT ? "accept" : R.st == rd::REJECT ? ("reject/" + slug(R.why)) : ("grey/" + slug(R.why))); base = m;
      if (r.coin(0.3)) { check_angle(m, k, "mutate/decode-angle"); check_azimuth(m, k, "mutate/decode-azimuth"); } break; }
    case 3: { std::string a = mutate(r, gen_dms(r, r.below(2), 90, false).text, r.range(0, 2)), b = mutate(r, gen_dms(r, r.coin() ? 2 : 0, 180, false).text, r.range(0, 2));
      if (r.coin()) std::swap(a, b);
      rd::LatLonResult R = check_latlon(a, b, r.coin(), k, "mutate/decode-latlon"); cls = std::string("mutate/decode-latlon/ref-") + (R.st == rd::ACCEPT ? "accept" : R.st == rd::REJECT ? "reject" : "grey"); base = a + "\n" + b; break; }
    case 4: { std::string vc; double x = gen_value(r, vc); std::string s = r.coin(0.2) ? std::string("nan") : Utility::str(x, r.range(-1, 15));
      if (r.coin(0.3)) { char b[64]; std::snprintf(b, sizeof b, "%.*e", r.range(0, 17), x); s = b; }
      std::string m = mutate(r, s, nm); check_val_double(m, k, "mutate/val-double"); rd::NumResult R = rd::val_double_ref(m);
      cls = std::string("mutate/val-double/ref-") + (R.st == rd::ACCEPT ? "accept" : R.st == rd::REJECT ? "reject" : "grey"); base = m; break; }
    case 5: { std::string s = std::to_string((long long)(r.sign() * std::floor(r.logu(1, 1e11)))); std::string m = mutate(r, s, nm); check_val_int(m, k, "mutate/val-int");
      cls = std::string("mutate/val-int/ref-") + (rd::val_int_ref(m).st == rd::ACCEPT ? "accept" : "reject"); base = m; break; }
    case 6: { std::string s = Utility::str(r.uniform(-10, 10), r.range(0, 6)) + "/" + Utility::str(r.logu(1e-2, 1e3), r.range(0, 9)); std::string m = mutate(r, s, nm); check_fract(m, k, "mutate/fract");
      cls = "mutate/fract"; base = m; break; }
    case 7: { static const char* w[] = {"nan", "inf", "-inf", "+inf", "NaN", "Infinity", "1.#INF", "-1.#INF", "1.#QNAN", "1.#SNAN", "1.#IND", "1.#R", "1.#INF00", "+nan", "-nan", "na", "in", "nan0", "0", "00nan"};
      std::string m = mutate(r, r.pick(w), r.coin(0.5) ? 0 : 1); check_nummatch(m, k, "mutate/nummatch"); rd::Special sp; rd::Status st = rd::nummatch_ref(m, sp);
      cls = std::string("mutate/nummatch/ref-") + (st == rd::ACCEPT ? "accept" : st == rd::REJECT ? "reject" : "grey"); base = m;
      check_val_double(m, k, "mutate/val-double"); check_decode(m, k, "mutate/decode"); break; }
    default: { // GeoCoords::Reset on a line
      std::string line;
      switch (r.below(4)) {
        case 0: line = gen_dms(r, r.below(2), 90, false).text + " " + gen_dms(r, r.coin() ? 2 : 0, 180, false).text; break;
        case 1: { double la, lo; std::string pc; gen_position(r, la, lo, pc); GeoCoords g(la, lo); line = g.UTMUPSRepresentation(r.range(-5, 9), r.coin()); if (r.coin(0.3)) { auto t = rd::split_tokens(line); line = t[1] + " " + t[2] + " " + t[0]; } break; }
        case 2: { double la, lo; std::string pc; gen_position(r, la, lo, pc); GeoCoords g(la, lo); line = g.MGRSRepresentation(r.range(-6, 6)); break; }
        default: { double la, lo; std::string pc; gen_position(r, la, lo, pc); GeoCoords g(la, lo); line = r.coin() ? g.DMSRepresentation(r.range(-5, 10), r.coin(), r.coin() ? ':' : 0) : g.GeoRepresentation(r.range(-5, 9), r.coin()); break; }
      }
      std::string m = mutate(r, line, nm);
      check_geocoords_reset(m, r.coin(), r.coin(0.3), k, "mutate/geocoords-reset");
      cls = "mutate/geocoords-reset/tokens-" + std::to_string(std::min<size_t>(4, rd::split_tokens(m).size())); base = m; break; }
  }
  c.count(cls, vh::hmixs(51, base), nm == 0);
  if (c.want_sample(cls)) c.sample(cls, J().str("input", base));
}

// =========================================================================================
// directed strings: the legal / illegal examples of the documentation, with their stated
// equivalences, and the historically bad inputs
struct Legal { const char* text; double value; int ind; };
static void sec_directed_strings(Ctx& c, uint64_t idx) {
  CtxSink k(c);
  static const std::vector<std::vector<Legal>> groups = {
    {{"-20.51125", -20.51125, 0}, {"20d30'40.5\"S", -20.51125, 1}, {"-20\xc2\xb0" "30'40.5", -20.51125, 0}, {"-20d30.675", -20.51125, 0}, {"N-20d30'40.5\"", -20.51125, 1}, {"-20:30:40.5", -20.51125, 0}},
    {{"4d0'9", 4.0025, 0}, {"4d9\"", 4.0025, 0}, {"4d9''", 4.0025, 0}, {"4:0:9", 4.0025, 0}, {"004:00:09", 4.0025, 0}, {"4.0025", 4.0025, 0}, {"4.0025d", 4.0025, 0}, {"4d0.15", 4.0025, 0}, {"04:.15", 4.0025, 0}},
    {{"4:59.99999999999999", 5, 0}, {"4:60.0", 5, 0}, {"4:59:59.9999999999999", 5, 0}, {"4:59:60.0", 5, 0}, {"5", 5, 0}},
    {{"-070:00:45", -70.0125, 0}, {"70:01:15W+0:0.5", -70.0125, 2}, {"70:01:15W-0:0:30W", -70.0125, 2}, {"W70:01:15+0:0:30E", -70.0125, 2}},
    {{"S3-2.5+4.1N", -1.4, 1}, {"7.0E+1", 8, 2}, {"8.0E", 8, 2}, {"33d10", 33 + 10 / 60.0, 0}, {"33d10'", 33 + 10 / 60.0, 0}, {"50d30'10.3\"", 50 + 30 / 60.0 + 10.3 / 3600, 0}, {"50:30:10.3", 50 + 30 / 60.0 + 10.3 / 3600, 0}, {"5.5'", 5.5 / 60, 0}, {"0:5.5", 5.5 / 60, 0}},
    {{"40d30'30\"", 40 + 30.5 / 60, 0}, {"40d30'30", 40 + 30.5 / 60, 0}, {"40\xc2\xb0" "30'30", 40 + 30.5 / 60, 0}, {"40d30.5'", 40 + 30.5 / 60, 0}, {"40d30.5", 40 + 30.5 / 60, 0}, {"40:30:30", 40 + 30.5 / 60, 0}, {"40:30.5", 40 + 30.5 / 60, 0}, {"40:30+0:0:30", 40 + 30.5 / 60, 0}, {"40:31-0:0.5", 40 + 30.5 / 60, 0}},
    {{"-1d30", -1.5, 0}, {"-1:30-0:0:15", -(1 + 30 / 60.0 + 15 / 3600.0), 0}, {"-0", -0.0, 0}, {"nan", NAN, 0}, {"inf", INF, 0}, {"-inf", -INF, 0}, {"+1.#INF", INF, 0}, {"\xe2\x88\x92" "5\xe2\x81\xb0" "3\xe2\x80\xb2" "2\xe2\x80\xb3" "W", 5 + 3 / 60.0 + 2 / 3600.0, 2}},
  };
  static const std::vector<std::string> illegal = {
    "4d5\"4'", "4::5", "4:5:", ":4:5", "4d4.5'4\"", "-N20.5", "1.8e2d", "4:60", "4:59:60", "70:01:15W+0:0:15N", "W70:01:15+W0:0:15", "7.0E1",
    "", " ", "+", "-", "N", "NS", "5NS", "N5S", "N5N", "1 2", "1..2", ".", "d", "'", "5dd", "1'2d", "1d2'3\"4", "4:5:6:7", "1:2:3:4:5", "1:2:3:4:5:6:7:8:9", "0:0:0:0:0",
    "4:60.5", "4:59:60.5", "70'", "61\"", "1e5", "0x10", "++1", "+-1", "1+", "1-", "5+N3", "nanN", "Nnan", "infE",
    std::string("1\0", 2), std::string("\0" "1", 2), std::string("1\0" "2", 3), std::string("4\0" "5d", 4), std::string("12\0" "N", 4), std::string("\0", 1), std::string("5:\0" "6", 4),
    "\xc2", "5\xe2\x80", "\xff" "5", "5\xc3\xa9", "\xd9\xa1", "4\xe2\x80\xb4",
  };
  if (idx < groups.size()) {
    for (const Legal& L : groups[idx]) {
      std::string cls = "directed/documented-legal"; c.count(cls, vh::hstr(L.text), true);
      double v = 0; DMS::flag fl; std::string what;
      Outcome o = guarded([&] { v = DMS::Decode(L.text, fl); }, what);
      bool ok = o == RETURNED && (std::isnan(L.value) ? std::isnan(v) : std::isinf(L.value) ? v == L.value : std::fabs(v - L.value) <= 4 * rd::ulp(L.value)) && (int)fl == L.ind && (L.value != 0 || std::signbit(v) == std::signbit(L.value));
      if (!ok) c.viol("oracle:C10/documented-example/legal", cls, J().str("text", L.text).f("want", L.value).f("returned", v).i("flag", fl).str("what", what));
      rd::DmsResult R = check_decode(L.text, k, cls);
      if (R.st != rd::ACCEPT) c.herr(std::string("recogniser does not accept the documented example ") + L.text);
      c.sample(cls, J().str("text", L.text).f("value", v));
    }
    return;
  }
  size_t j = idx - groups.size();
  if (j < illegal.size()) {
    const std::string& s = illegal[j]; std::string cls = "directed/malformed"; c.count(cls, vh::hmixs(61, s), true);
    rd::DmsResult R = check_decode(s, k, cls);
    if (R.st != rd::REJECT) c.herr("recogniser does not reject the malformed example " + vh::jesc(s));
    check_angle(s, k, cls); check_azimuth(s, k, cls); check_latlon(s, "10", false, k, cls); check_latlon("10", s, true, k, cls);
    check_val_double(s, k, cls); check_val_int(s, k, cls); check_fract(s, k, cls); check_nummatch(s, k, cls);
    check_geocoords_reset(s, true, false, k, cls); check_geocoords_reset(s + " 5", true, false, k, cls); check_geocoords_reset("38n 500000 " + s, true, false, k, cls);
    if (j < 3) c.sample(cls, J().str("text", s));
    return;
  }
  // documented GeoCoords / DecodeZone examples
  j -= illegal.size();
  if (j > 1) return;
  static const char* same_pos[] = {"40 -75", "N40 W75", "-75 N40", "75W 40N", "E-75 -40S"};
  static const char* zones_ok[] = {"n", "01s", "2n", "38s", "south", "3north"};
  static const char* zones_bad[] = {"0n", "001s", "+3n", "61n", "38P"};
  std::string cls = "directed/geocoords-doc-examples"; c.count(cls, 62 + j, true);
  std::string what;
  if (j == 0) {
    for (const char* p : same_pos) { GeoCoords g; Outcome o = guarded([&] { g.Reset(p); }, what);
      if (o != RETURNED || g.Latitude() != 40 || g.Longitude() != -75) c.viol("oracle:C10/documented-example/geocoords-position", cls, J().str("text", p).str("what", what)); check_geocoords_reset(p, true, false, k, cls); }
    static const char* ramadi[] = {"33.44 43.27", "N33d26.4' E43d16.2'", "43d16'12\"E 33d26'24\"N", "43:16:12E 33:26:24", "38SLC3918701405", "38n 339188 3701405", "897039 3708229 37n"};
    for (const char* p : ramadi) { GeoCoords g; Outcome o = guarded([&] { g.Reset(p); }, what);
      if (o != RETURNED || std::fabs(g.Latitude() - 33.44) > 1e-4 || std::fabs(g.Longitude() - 43.27) > 1e-4) c.viol("oracle:C10/documented-example/geocoords-position", cls, J().str("text", p).str("what", what)); check_geocoords_reset(p, true, false, k, cls); }
  } else {
    for (const char* z : zones_ok) { int zn; bool np; Outcome o = guarded([&] { UTMUPS::DecodeZone(z, zn, np); }, what); rd::ZoneResult Z = rd::zone_ref(z);
      if (o != RETURNED || Z.st != rd::ACCEPT || Z.zone != zn || Z.northp != np) c.viol("oracle:C10/documented-example/zone", cls, J().str("text", z)); }
    for (const char* z : zones_bad) { int zn; bool np; Outcome o = guarded([&] { UTMUPS::DecodeZone(z, zn, np); }, what); rd::ZoneResult Z = rd::zone_ref(z);
      if (o != GEOERR || Z.st != rd::REJECT) c.viol("oracle:C10/documented-example/zone", cls, J().str("text", z)); }
  }
}

int main(int argc, char** argv) {
  std::vector<Section> S;
  S.push_back({"encode_directed", catalogue().size(), catalogue().size(), false, sec_encode_directed, 60});
  S.push_back({"directed_strings", 120, 120, false, sec_directed_strings, 20});
  S.push_back({"geocoords_undefined", 4, 4, false, sec_geocoords_nan, 20});
  S.push_back({"geocoords_equator", 2 * 17 * 7, 2 * 17 * 7, false, sec_geocoords_equator, 60});
  S.push_back({"utm_equator", 60, 60, false, sec_utm_equator, 60});
  S.push_back({"encode_random", 60000, 2000000, true, sec_encode_random, 20});
  S.push_back({"strval", 150000, 4000000, true, sec_strval, 20});
  S.push_back({"split", 50000, 1000000, true, sec_split, 20});
  S.push_back({"geocoords", 4000, 150000, true, sec_geocoords, 20});
  S.push_back({"grammar", 300000, 6000000, true, sec_grammar, 20});
  S.push_back({"mutate", 300000, 8000000, true, sec_mutate, 20});
  return vh::run_sections(argc, argv, S);
}
