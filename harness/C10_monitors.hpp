// C10 monitors shared by the volume harness (harness/C10.cpp) and the libFuzzer targets
// (fuzz/C10_fuzz.cpp).  Each check_* function calls the library on ONE input, evaluates the
// reference model of oracle/ref_dms.hpp next to it and reports through a Sink.
#pragma once
#include <GeographicLib/DMS.hpp>
#include <GeographicLib/GeoCoords.hpp>
#include <GeographicLib/MGRS.hpp>
#include <GeographicLib/UTMUPS.hpp>
#include <GeographicLib/Utility.hpp>
#include <new>
#include <typeinfo>
#include "harness/common.hpp"
#include "oracle/ref_dms.hpp"

namespace c10 {
using GeographicLib::DMS;
using GeographicLib::GeoCoords;
using GeographicLib::GeographicErr;
using GeographicLib::Utility;
using vh::J;
namespace rd = refdms;

struct Sink {
  virtual void viol(const std::string& key, const std::string& cls, const J& detail) = 0;
  virtual void event(const std::string& name, uint64_t n = 1) = 0;
  virtual void obs(const std::string& name, double v, const J& at) = 0;
  virtual ~Sink() {}
};

enum Outcome { RETURNED, GEOERR, OTHER };
template <class F> inline Outcome guarded(F&& f, std::string& what) {
  try { f(); return RETURNED; }
  catch (const GeographicErr& e) { what = e.what(); return GEOERR; }
  catch (const std::bad_alloc&) { what = "std::bad_alloc"; return OTHER; }
  catch (const std::exception& e) { what = std::string(typeid(e).name()) + ": " + e.what(); return OTHER; }
  catch (...) { what = "non-std exception"; return OTHER; }
}
inline std::string slug(const char* w) {
  std::string o;
  for (const char* p = w; *p; ++p) { char c = *p; if (c >= 'A' && c <= 'Z') c += 32;
    if ((c >= 'a' && c <= 'z') || (c >= '0' && c <= '9')) o += c; else if (!o.empty() && o.back() != '-') o += '-'; }
  while (!o.empty() && o.back() == '-') o.pop_back();
  return o.empty() ? "unspecified" : o;
}
inline const char* spname(rd::Special s) { return s == rd::S_NAN ? "nan" : s == rd::S_PINF ? "inf" : s == rd::S_NINF ? "-inf" : "finite"; }
inline std::string valstr(const rd::Value& v) { return v.sp == rd::FINITE ? v.q.str(25) : spname(v.sp); }
static const double INF = std::numeric_limits<double>::infinity();

// ------------------------------------------------------------------------------------------
// Independent reader of the *output* format of DMS::Encode (doc of Encode): returns false if
// the string is not of the documented shape; D = exact value of the magnitude.
struct Printed { bool neg = false; char hemi = 0; rd::Q D; int deg_int_width = 0, decimals = 0; bool deg360 = false; rd::Q degq, minq, secq; };
inline bool read_encoded(const std::string& S, int trailing, char sep, int ind, Printed& P, std::string& why) {
  size_t b = 0, e = S.size();
  if (ind == DMS::NONE && b < e && S[b] == '-') { P.neg = true; ++b; }
  if (ind == DMS::LATITUDE || ind == DMS::LONGITUDE) {
    if (e == b) { why = "empty"; return false; }
    char h = S[e - 1]; const char* ok = ind == DMS::LATITUDE ? "NS" : "EW";
    if (!std::strchr(ok, h) || !h) { why = "missing/incorrect hemisphere letter"; return false; }
    P.hemi = h; P.neg = (h == 'S' || h == 'W'); --e;
  }
  std::string body = S.substr(b, e - b), f[3];
  int nf = trailing + 1;
  if (sep) {
    size_t p0 = 0;
    for (int i = 0; i < nf; ++i) {
      size_t p1 = i + 1 < nf ? body.find(sep, p0) : body.size();
      if (p1 == std::string::npos) { why = "missing separator"; return false; }
      f[i] = body.substr(p0, p1 - p0); p0 = p1 + 1;
    }
  } else {
    static const char dl[3] = {'d', '\'', '"'};
    size_t p0 = 0;
    for (int i = 0; i < nf; ++i) {
      if (trailing == 0) { f[0] = body; break; }       // no designator when degrees is the trailing component
      size_t p1 = body.find(dl[i], p0);
      if (p1 == std::string::npos) { why = "missing d ' \" designator"; return false; }
      f[i] = body.substr(p0, p1 - p0); p0 = p1 + 1;
      if (i + 1 == nf && p0 != body.size()) { why = "text after the last designator"; return false; }
    }
  }
  rd::Q q[3];
  for (int i = 0; i < nf; ++i) {
    int ni = 0, nfr = 0;
    if (!rd::dec_to_q(f[i], q[i], &ni, &nfr)) { why = "component is not a plain decimal number"; return false; }
    bool haspoint = f[i].find('.') != std::string::npos;
    if (i < trailing && haspoint) { why = "decimal point in a non-trailing component"; return false; }
    if (i == trailing) { P.decimals = nfr; if (haspoint && nfr == 0) { why = "bare decimal point"; return false; } }
    if (i == 0) {
      P.deg_int_width = ni;
      int w = ind == DMS::NONE ? 1 : ind == DMS::LATITUDE ? 2 : 3;
      if (ni < w) { why = "degrees not zero-padded to the documented width"; return false; }
      if (ni > w && f[i][0] == '0') { why = "superfluous leading zero in degrees"; return false; }
    } else if (ni != 2) { why = "minutes/seconds integer part not given with 2 digits"; return false; }
    if (i >= 1 && rd::cmp(q[i], rd::Q(60)) >= 0) { why = "minutes or seconds >= 60 (no carry)"; return false; }
  }
  P.degq = q[0]; P.minq = q[1]; P.secq = q[2];
  P.D = q[0] + q[1] / rd::Q(60) + q[2] / rd::Q(3600);
  return true;
}

inline const char* indname(int ind) { static const char* n[] = {"NONE", "LATITUDE", "LONGITUDE", "AZIMUTH", "NUMBER"}; return n[ind]; }
inline const char* trname(int t) { static const char* n[] = {"DEGREE", "MINUTE", "SECOND"}; return n[t]; }

// ------------------------------------------------------------------------------------------
// Encode -> (independent reader, exact half-unit test, normalisation) -> Decode.
inline void check_encode(double x, int trailing, unsigned prec, int ind, char sep, Sink& k, const std::string& cls) {
  std::string S, what;
  auto det = [&]() { return J().f("angle", x).str("trailing", trname(trailing)).u("prec", prec).str("ind", indname(ind)).i("dmssep", sep).str("encoded", S); };
  Outcome o = guarded([&] { S = DMS::Encode(x, DMS::component(trailing), prec, DMS::flag(ind), sep); }, what);
  if (o != RETURNED) { k.viol("exception:C10/DMS::Encode", cls, det().str("what", what)); return; }
  // what the library's own parser makes of it
  double v = 0; DMS::flag fl = DMS::NONE;
  o = guarded([&] { v = DMS::Decode(S, fl); }, what);
  if (o != RETURNED) { k.viol("law:C10/encode-decode/output-rejected-by-Decode", cls, det().str("what", what)); return; }
  if (!std::isfinite(x)) {
    const char* want = std::isnan(x) ? "nan" : x > 0 ? "inf" : "-inf";
    if (S != want) k.viol("oracle:C10/encode/non-finite-text", cls, det().str("want", want));
    bool same = std::isnan(x) ? std::isnan(v) : v == x;
    if (!same) k.viol("law:C10/encode-decode/non-finite-value", cls, det().f("decoded", v));
    return;
  }
  int pe = (int)std::min<unsigned>(prec, 15u - 2u * (unsigned)trailing);
  Printed P; std::string why;
  if (!read_encoded(S, trailing, sep, ind, P, why)) { k.viol("oracle:C10/encode/format/" + slug(why.c_str()), cls, det().str("why", why)); return; }
  if (P.decimals != pe) k.viol("oracle:C10/encode/format/number-of-decimals", cls, det().i("decimals", P.decimals).i("want", pe));
  // exact comparison with the argument
  rd::Q X = rd::Q::from_double(x), target; bool wantneg = std::signbit(x);
  double ul = rd::ulp(x);
  if (ind == DMS::AZIMUTH) {
    rd::Q t = X / rd::Q(360); target = X - rd::Q(360) * rd::qfloor(t);     // in [0,360)
    wantneg = false; ul = std::max(ul, rd::ulp(360.0));
  } else target = rd::qabs(X);
  int scale = trailing == 0 ? 1 : trailing == 1 ? 60 : 3600;
  rd::Q unit = rd::pow10(-pe) / rd::Q(scale);
  rd::Q allowed = unit / rd::Q(2) + rd::Q::from_double(2 * ul);
  rd::Q err = rd::qabs(P.D - target);
  if (ind == DMS::AZIMUTH) {
    int c = rd::cmp(P.D, rd::Q(360));
    if (c > 0) { k.viol("law:C10/encode/azimuth-range", cls, det()); return; }
    if (c == 0) {
      // tolerated only as the rounding carry of an angle within half a unit below 360
      if (rd::cmp(rd::Q(360) - target, allowed) <= 0) { k.event("encode: azimuth printed as 360 by rounding carry (tolerated)"); err = rd::Q(360) - target; }
      else { k.viol("law:C10/encode/azimuth-range", cls, det().str("reduced_angle", target.str())); return; }
    }
  }
  double ratio = (err / unit).to_double();
  if (rd::cmp(err, allowed) > 0)
    k.viol("oracle:C10/encode/half-unit-of-last-digit", cls, det().str("printed_value", P.D.str()).str("target", target.str()).f("err_in_units_of_last_digit", ratio));
  else if (rd::cmp(unit, rd::Q::from_double(8 * ul)) > 0) k.obs("encode |printed - value| [units of last printed digit]", ratio, det());
  // correct rounding direction is implied by the half-unit test; sign / hemisphere
  if (ind != DMS::AZIMUTH && P.neg != wantneg) k.viol("oracle:C10/encode/sign-or-hemisphere", cls, det());
  // Decode(Encode(x)) against the exact value of the text
  int wantfl = (ind == DMS::LATITUDE || ind == DMS::LONGITUDE) ? ind : 0;
  if ((int)fl != wantfl) k.viol("law:C10/encode-decode/hemisphere-flag", cls, det().i("flag", fl));
  rd::Q sD = P.neg ? -P.D : P.D;
  rd::Q derr = rd::qabs(rd::Q::from_double(v) - sD);
  double du = rd::ulp(P.D.to_double());
  // Decode accumulates an integer without decimal point digit by digit: one rounding per digit beyond 2^53
  int extra_digits = std::max(0, P.deg_int_width - 15);
  if (!std::isfinite(v) || rd::cmp(derr, rd::Q::from_double((4 + extra_digits) * du)) > 0)
    k.viol("law:C10/encode-decode/value", cls, det().f("decoded", v).str("text_value", sD.str()));
  else k.obs(extra_digits ? "Decode(Encode(x)) - exact text value [ulp], more than 15 integer digits (one rounding per digit)" : "Decode(Encode(x)) - exact text value [ulp], up to 15 integer digits", derr.to_double() / du, det());
  if (std::signbit(v) != P.neg) k.viol("law:C10/encode-decode/sign", cls, det().f("decoded", v));
}

// the (angle, prec, ind, dmssep) overload incl. DMS::NUMBER
inline void check_encode4(double x, unsigned prec, int ind, char sep, Sink& k, const std::string& cls) {
  std::string S, what;
  auto det = [&]() { return J().f("angle", x).u("prec", prec).str("ind", indname(ind)).i("dmssep", sep).str("encoded", S); };
  Outcome o = guarded([&] { S = DMS::Encode(x, prec, DMS::flag(ind), sep); }, what);
  if (o != RETURNED) { k.viol("exception:C10/DMS::Encode4", cls, det().str("what", what)); return; }
  if (ind != DMS::NUMBER) {
    int tr = prec < 2 ? 0 : prec < 4 ? 1 : 2; unsigned p = prec < 2 ? prec : prec < 4 ? prec - 2 : prec - 4;
    std::string S5 = DMS::Encode(x, DMS::component(tr), p, DMS::flag(ind), sep);
    if (S5 != S) k.viol("oracle:C10/encode4/precision-mapping", cls, det().str("five_arg", S5));
    return;
  }
  // NUMBER: "a number in fixed format with precision prec"
  double v = 0, v2 = 0; DMS::flag fl;
  o = guarded([&] { v = DMS::Decode(S, fl); v2 = Utility::val<double>(S); }, what);
  if (o != RETURNED) { k.viol("law:C10/encode-decode/number-rejected", cls, det().str("what", what)); return; }
  if (!std::isfinite(x)) { bool same = std::isnan(x) ? (std::isnan(v) && std::isnan(v2)) : (v == x && v2 == x);
    if (!same) k.viol("law:C10/encode-decode/non-finite-value", cls, det()); return; }
  std::string t = S; bool neg = false; if (!t.empty() && t[0] == '-') { neg = true; t = t.substr(1); }
  rd::Q D; int ni = 0, nf = 0;
  if (!rd::dec_to_q(t, D, &ni, &nf) || nf != (int)prec) { k.viol("oracle:C10/encode/number-format", cls, det()); return; }
  rd::Q err = rd::qabs((neg ? -D : D) - rd::Q::from_double(x)), unit = rd::pow10(-(int)prec);
  if (rd::cmp(err, unit / rd::Q(2)) > 0) k.viol("oracle:C10/encode/number-half-unit", cls, det());
  double want; rd::strtod_exact(S, want);
  if (!(v2 == want) || !(rd::cmp(rd::qabs(rd::Q::from_double(v) - (neg ? -D : D)), rd::Q::from_double((2 + std::max(0, ni - 15)) * rd::ulp(want))) <= 0))
    k.viol("law:C10/encode-decode/number-value", cls, det().f("decode", v).f("val", v2).f("want", want));
  if (neg != std::signbit(x)) k.viol("oracle:C10/encode/sign-or-hemisphere", cls, det());
}

// ------------------------------------------------------------------------------------------
// DMS::Decode against the documented grammar.
// returns the reference result so that callers can label the case
inline rd::DmsResult check_decode(const std::string& s, Sink& k, const std::string& cls, bool reencode = true) {
  rd::DmsResult R = rd::decode_ref(s);
  double v = 0; DMS::flag fl = DMS::NONE; std::string what;
  auto det = [&]() { return J().str("input", s).str("ref_status", R.st == rd::ACCEPT ? "accept" : R.st == rd::REJECT ? "reject" : "grey").str("ref_why", R.why); };
  Outcome o = guarded([&] { v = DMS::Decode(s, fl); }, what);
  if (o == OTHER) { k.viol("exception:C10/DMS::Decode/escaped-non-GeographicErr", cls, det().str("what", what)); return R; }
  if (o == GEOERR) {
    if (R.st == rd::ACCEPT) k.viol("oracle:C10/decode/rejected-documented-form", cls, det().str("what", what).str("ref_value", valstr(R.val)));
    return R;
  }
  if (R.st == rd::REJECT) { k.viol("oracle:C10/decode/accepted-malformed/" + slug(R.why), cls, det().f("returned", v).i("flag", fl)); return R; }
  if (!R.has_value) return R;
  double aerr = 0;
  if (!rd::agrees(v, R.val, 0, &aerr)) k.viol("oracle:C10/decode/value", cls, det().f("returned", v).str("ref_value", valstr(R.val)).f("tol", R.val.tol));
  else if (R.val.sp == rd::FINITE && !R.val.huge && R.val.tol > 0) k.obs("Decode value error [fraction of allowance]", aerr / R.val.tol, det());
  if ((int)fl != R.ind) k.viol("oracle:C10/decode/hemisphere-flag", cls, det().i("flag", fl).i("want", R.ind));
  if (R.neg_zero && !(v == 0 && std::signbit(v))) k.viol("oracle:C10/decode/negative-zero", cls, det().f("returned", v));
  // accepted => re-encode at full precision and decode again gives the same value
  if (reencode && std::isfinite(v) && std::fabs(v) < 1e15) {
    int tr = (int)(vh::hmixs(7, s) % 3);
    int ind = (int)fl;
    std::string S2; double v2 = 0; DMS::flag f2;
    o = guarded([&] { S2 = DMS::Encode(v, DMS::component(tr), 15, DMS::flag(ind)); v2 = DMS::Decode(S2, f2); }, what);
    if (o != RETURNED) k.viol("law:C10/decode-encode-decode/threw", cls, det().str("re_encoded", S2).str("what", what));
    else {
      double unit = std::pow(10.0, -(15 - 2 * tr)) / (tr == 0 ? 1 : tr == 1 ? 60 : 3600);
      double allow = unit / 2 * (1 + 1e-9) + 4 * rd::ulp(v);
      if (!(std::fabs(v2 - v) <= allow) || f2 != fl || std::signbit(v2) != std::signbit(v))
        k.viol("law:C10/decode-encode-decode/value", cls, det().f("v", v).str("re_encoded", S2).f("v2", v2));
    }
  }
  return R;
}

inline void check_angle(const std::string& s, Sink& k, const std::string& cls) {
  rd::DmsResult R = rd::decode_ref(s);
  double v = 0; std::string what;
  auto det = [&]() { return J().str("input", s).str("ref_why", R.why); };
  Outcome o = guarded([&] { v = DMS::DecodeAngle(s); }, what);
  if (o == OTHER) { k.viol("exception:C10/DMS::DecodeAngle/escaped-non-GeographicErr", cls, det().str("what", what)); return; }
  bool must_reject = R.st == rd::REJECT || (R.st == rd::ACCEPT && R.ind != 0);
  if (o == GEOERR) { if (R.st == rd::ACCEPT && R.ind == 0) k.viol("oracle:C10/decode-angle/rejected-documented-form", cls, det().str("what", what)); return; }
  if (must_reject) { k.viol(std::string("oracle:C10/decode-angle/") + (R.st == rd::REJECT ? "accepted-malformed" : "accepted-hemisphere"), cls, det().f("returned", v)); return; }
  if (!R.has_value) return;
  if (R.st == rd::GREY && R.ind != 0) { k.viol("oracle:C10/decode-angle/accepted-hemisphere", cls, det().f("returned", v)); return; }
  if (!rd::agrees(v, R.val)) k.viol("oracle:C10/decode-angle/value", cls, det().f("returned", v).str("ref_value", valstr(R.val)));
}

inline void check_azimuth(const std::string& s, Sink& k, const std::string& cls) {
  rd::DmsResult R = rd::decode_ref(s);
  double v = 0; std::string what;
  auto det = [&]() { return J().str("input", s).str("ref_why", R.why); };
  Outcome o = guarded([&] { v = DMS::DecodeAzimuth(s); }, what);
  if (o == OTHER) { k.viol("exception:C10/DMS::DecodeAzimuth/escaped-non-GeographicErr", cls, det().str("what", what)); return; }
  if (o == GEOERR) { if (R.st == rd::ACCEPT && R.ind != 1) k.viol("oracle:C10/decode-azimuth/rejected-documented-form", cls, det().str("what", what)); return; }
  if (R.st == rd::REJECT) { k.viol("oracle:C10/decode-azimuth/accepted-malformed", cls, det().f("returned", v)); return; }
  if (!R.has_value) return;
  if (R.ind == 1) { k.viol("oracle:C10/decode-azimuth/accepted-latitude-hemisphere", cls, det().f("returned", v)); return; }
  if (R.val.huge) return;
  if (R.val.sp != rd::FINITE) { if (!std::isnan(v)) k.viol("oracle:C10/decode-azimuth/value", cls, det().f("returned", v).str("want", "nan")); return; }
  if (!(std::fabs(v) <= 180)) { k.viol("oracle:C10/decode-azimuth/range", cls, det().f("returned", v)); return; }
  // equal modulo 360 within the allowance
  rd::Q d = rd::Q::from_double(v) - R.val.q; rd::Q t = d / rd::Q(360);
  rd::Q n = rd::qfloor(t + rd::Q(1, 2)); rd::Q r = rd::qabs(d - rd::Q(360) * n);
  if (rd::cmp(r, rd::Q::from_double(R.val.tol + rd::ulp(180.0))) > 0)
    k.viol("oracle:C10/decode-azimuth/value", cls, det().f("returned", v).str("ref_value_unreduced", valstr(R.val)));
}

// DMS::DecodeLatLon incl. the "outputs unchanged on throw" clause
inline rd::LatLonResult check_latlon(const std::string& a, const std::string& b, bool longfirst, Sink& k, const std::string& cls) {
  rd::LatLonResult R = rd::latlon_ref(a, b, longfirst);
  double lat = vh::sentinel(1), lon = vh::sentinel(2); std::string what;
  auto det = [&]() { return J().str("a", a).str("b", b).b("longfirst", longfirst).str("ref_why", R.why); };
  Outcome o = guarded([&] { DMS::DecodeLatLon(a, b, lat, lon, longfirst); }, what);
  if (o == OTHER) { k.viol("exception:C10/DMS::DecodeLatLon/escaped-non-GeographicErr", cls, det().str("what", what)); return R; }
  if (o == GEOERR) {
    if (!vh::is_sentinel(lat, 1) || !vh::is_sentinel(lon, 2)) k.viol("sentinel:C10/decode-latlon/outputs-written-on-throw", cls, det());
    if (R.st == rd::ACCEPT) k.viol("oracle:C10/decode-latlon/rejected-documented-form", cls, det().str("what", what));
    return R;
  }
  if (R.st == rd::REJECT) { k.viol("oracle:C10/decode-latlon/accepted-malformed/" + slug(R.why), cls, det().f("lat", lat).f("lon", lon)); return R; }
  if (!R.has_value) return R;
  if (!rd::agrees(lat, R.lat) || !rd::agrees(lon, R.lon))
    k.viol("oracle:C10/decode-latlon/value-or-order", cls, det().f("lat", lat).f("lon", lon).str("ref_lat", valstr(R.lat)).str("ref_lon", valstr(R.lon)));
  return R;
}

// ------------------------------------------------------------------------------------------
inline void check_val_double(const std::string& s, Sink& k, const std::string& cls) {
  rd::NumResult R = rd::val_double_ref(s);
  double v = 0; std::string what;
  auto det = [&]() { return J().str("input", s).str("ref_why", R.why); };
  Outcome o = guarded([&] { v = Utility::val<double>(s); }, what);
  if (o == OTHER) { k.viol("exception:C10/Utility::val<double>/escaped-non-GeographicErr", cls, det().str("what", what)); return; }
  if (o == GEOERR) { if (R.st == rd::ACCEPT) k.viol("oracle:C10/val-double/rejected-documented-form", cls, det().str("what", what)); return; }
  if (R.st == rd::REJECT) { k.viol("oracle:C10/val-double/accepted-malformed", cls, det().f("returned", v)); return; }
  if (R.st == rd::GREY) return;
  bool ok = R.sp == rd::S_NAN ? std::isnan(v) : R.sp == rd::S_PINF ? v == INF : R.sp == rd::S_NINF ? v == -INF : vh::same_bits(v, R.v);
  if (!ok) k.viol("oracle:C10/val-double/value", cls, det().f("returned", v).f("want", R.sp == rd::FINITE ? R.v : NAN).str("want_special", spname(R.sp)));
}
inline void check_val_int(const std::string& s, Sink& k, const std::string& cls) {
  rd::IntResult R = rd::val_int_ref(s);
  int v = 0; std::string what;
  auto det = [&]() { return J().str("input", s); };
  Outcome o = guarded([&] { v = Utility::val<int>(s); }, what);
  if (o == OTHER) { k.viol("exception:C10/Utility::val<int>/escaped-non-GeographicErr", cls, det().str("what", what)); return; }
  if (o == GEOERR) { if (R.st == rd::ACCEPT) k.viol("oracle:C10/val-int/rejected-documented-form", cls, det().str("what", what)); return; }
  if (R.st == rd::REJECT) { k.viol("oracle:C10/val-int/accepted-malformed", cls, det().i("returned", v)); return; }
  if (v != R.v) k.viol("oracle:C10/val-int/value", cls, det().i("returned", v).i("want", R.v));
}
inline void check_fract(const std::string& s, Sink& k, const std::string& cls) {
  // doc: "a simple fraction, e.g., 3/4"; otherwise as val
  size_t d = s.find('/');
  rd::Status st; double want = 0; bool special_nan = false;
  if (d == std::string::npos) {
    rd::NumResult R = rd::val_double_ref(s); st = R.st;
    want = R.sp == rd::S_NAN ? NAN : R.sp == rd::S_PINF ? INF : R.sp == rd::S_NINF ? -INF : R.v;
  } else {
    rd::NumResult A = rd::val_double_ref(s.substr(0, d)), B = rd::val_double_ref(s.substr(d + 1));
    auto dv = [](const rd::NumResult& R) { return R.sp == rd::S_NAN ? (double)NAN : R.sp == rd::S_PINF ? INF : R.sp == rd::S_NINF ? -INF : R.v; };
    if (A.st == rd::REJECT || B.st == rd::REJECT) st = rd::REJECT;
    else if (A.st == rd::GREY || B.st == rd::GREY) st = rd::GREY;
    else { st = rd::ACCEPT; want = dv(A) / dv(B); }
  }
  special_nan = std::isnan(want);
  double v = 0; std::string what;
  auto det = [&]() { return J().str("input", s); };
  Outcome o = guarded([&] { v = Utility::fract<double>(s); }, what);
  if (o == OTHER) { k.viol("exception:C10/Utility::fract/escaped-non-GeographicErr", cls, det().str("what", what)); return; }
  if (o == GEOERR) { if (st == rd::ACCEPT) k.viol("oracle:C10/fract/rejected-documented-form", cls, det().str("what", what)); return; }
  if (st == rd::REJECT) { k.viol("oracle:C10/fract/accepted-malformed", cls, det().f("returned", v)); return; }
  if (st == rd::GREY) return;
  if (!(special_nan ? std::isnan(v) : vh::same_bits(v, want) || (v == 0 && want == 0))) k.viol("oracle:C10/fract/value", cls, det().f("returned", v).f("want", want));
}
inline void check_nummatch(const std::string& s, Sink& k, const std::string& cls) {
  rd::Special sp = rd::FINITE; rd::Status st = rd::nummatch_ref(s, sp);
  double v = 0; std::string what;
  Outcome o = guarded([&] { v = Utility::nummatch<double>(s); }, what);
  if (o != RETURNED) { k.viol("exception:C10/Utility::nummatch/threw", cls, J().str("input", s).str("what", what)); return; }
  if (st == rd::GREY) return;
  bool ok = st == rd::REJECT ? (v == 0) : sp == rd::S_NAN ? std::isnan(v) : sp == rd::S_PINF ? v == INF : v == -INF;
  if (!ok) k.viol("oracle:C10/nummatch/value", cls, J().str("input", s).f("returned", v).str("want", st == rd::REJECT ? "0" : spname(sp)));
}

// ------------------------------------------------------------------------------------------
// GeoCoords::Reset(string): token dispatch, lat/long meaning; light lexical check of MGRS and
// UTM/UPS forms (their numerics belong to C04/C05).
inline bool lon_equal_mod360(double lon, const rd::Value& want, double extra) {
  if (want.huge) return true;
  if (want.sp != rd::FINITE) return want.sp == rd::S_NAN ? std::isnan(lon) : !std::isfinite(lon);
  if (!std::isfinite(lon)) return false;
  rd::Q d = rd::Q::from_double(lon) - want.q;
  rd::Q n = rd::qfloor(d / rd::Q(360) + rd::Q(1, 2));
  return rd::cmp(rd::qabs(d - rd::Q(360) * n), rd::Q::from_double(want.tol + extra)) <= 0;
}
inline bool mgrs_lexical(const std::string& t) {
  // [zone digits 1-2][1..3 letters][even number of digits]   or something starting with INV
  if (t.size() >= 3 && std::toupper((unsigned char)t[0]) == 'I' && std::toupper((unsigned char)t[1]) == 'N' && std::toupper((unsigned char)t[2]) == 'V') return true;
  size_t i = 0, n = t.size(), nd = 0, nl = 0, nd2 = 0;
  while (i < n && t[i] >= '0' && t[i] <= '9') { ++i; ++nd; }
  while (i < n && ((t[i] >= 'A' && t[i] <= 'Z') || (t[i] >= 'a' && t[i] <= 'z'))) { ++i; ++nl; }
  while (i < n && t[i] >= '0' && t[i] <= '9') { ++i; ++nd2; }
  return i == n && nd <= 2 && nl >= 1 && nl <= 3 && nd2 % 2 == 0;
}
inline void check_geocoords_reset(const std::string& s, bool centerp, bool longfirst, Sink& k, const std::string& cls) {
  std::vector<std::string> tok = rd::split_tokens(s);
  std::string what;
  auto det = [&]() { return J().str("input", s).b("centerp", centerp).b("longfirst", longfirst).u("tokens", tok.size()); };
  rd::LatLonResult LL;
  if (tok.size() == 2) {
    LL = rd::latlon_ref(tok[0], tok[1], longfirst);
    // a non-finite longitude goes into UTMUPS::StandardZone's float->int conversion (C04/C13 territory)
    if (LL.st != rd::REJECT && LL.has_value && (LL.lon.sp == rd::S_PINF || LL.lon.sp == rd::S_NINF || LL.lon.huge || LL.lat.huge)) { k.event("reset: skipped, infinite/huge longitude"); return; }
    if (LL.st != rd::REJECT && LL.lon.sp == rd::FINITE && rd::cmp(rd::qabs(LL.lon.q), rd::Q(1000000000L)) > 0) { k.event("reset: skipped, infinite/huge longitude"); return; }
  }
  if (tok.size() == 2 && LL.st == rd::GREY && !LL.has_value) { k.event("reset: skipped, value not predicted (grey normalisation)"); return; }
  GeoCoords g;
  Outcome o = guarded([&] { g.Reset(s, centerp, longfirst); }, what);
  if (o == OTHER) { k.viol("exception:C10/GeoCoords::Reset/escaped-non-GeographicErr", cls, det().str("what", what)); return; }
  if (tok.size() == 0 || tok.size() > 3) { if (o == RETURNED) k.viol("oracle:C10/geocoords-reset/accepted-wrong-token-count", cls, det()); return; }
  if (tok.size() == 2) {
    if (o == GEOERR) { if (LL.st == rd::ACCEPT) k.viol("oracle:C10/geocoords-reset/rejected-documented-latlon", cls, det().str("what", what)); return; }
    if (LL.st == rd::REJECT) { k.viol("oracle:C10/geocoords-reset/accepted-malformed-latlon/" + slug(LL.why), cls, det().f("lat", g.Latitude()).f("lon", g.Longitude())); return; }
    if (!LL.has_value) return;
    double lat = g.Latitude(), lon = g.Longitude();
    if (!rd::agrees(lat, LL.lat) || !lon_equal_mod360(lon, LL.lon, rd::ulp(360.0)))
      k.viol("oracle:C10/geocoords-reset/latlon-value-or-order", cls, det().f("lat", lat).f("lon", lon).str("ref_lat", valstr(LL.lat)).str("ref_lon", valstr(LL.lon)));
    if (std::fabs(lon) > 180) k.event("unreduced longitude returned by GeoCoords::Reset(string)");
    // the position prints and parses back
    if (std::isfinite(lat) && std::isfinite(lon)) {
      std::string r; GeoCoords g2;
      o = guarded([&] { r = g.GeoRepresentation(9, longfirst); g2.Reset(r, centerp, longfirst); }, what);
      if (o != RETURNED) k.viol("law:C10/geocoords/geo-representation-rejected", cls, det().str("repr", r).str("what", what));
      else if (!(std::fabs(g2.Latitude() - lat) <= 0.5e-14 * (1 + 1e-9) + 2 * rd::ulp(lat)) ||
               !(std::fabs(std::remainder(g2.Longitude() - lon, 360.0)) <= 0.5e-14 * (1 + 1e-9) + 2 * rd::ulp(lon)))
        k.viol("law:C10/geocoords/geo-representation-roundtrip", cls, det().str("repr", r).f("lat", lat).f("lon", lon).f("lat2", g2.Latitude()).f("lon2", g2.Longitude()));
    }
    return;
  }
  if (tok.size() == 1) {
    if (o == RETURNED && !mgrs_lexical(tok[0])) k.viol("oracle:C10/geocoords-reset/accepted-malformed-mgrs", cls, det().f("lat", g.Latitude()).f("lon", g.Longitude()));
    if (o == RETURNED) k.event("reset: MGRS token accepted");
    return;
  }
  // three tokens: zone first or zone last
  rd::ZoneResult z0 = rd::zone_ref(tok[0]), z2 = rd::zone_ref(tok[2]);
  if (o == GEOERR) return;            // ranges of easting/northing are C04's business
  int zi = z0.st == rd::ACCEPT ? 0 : z2.st == rd::ACCEPT ? 2 : -1;
  if (zi < 0) { k.viol("oracle:C10/geocoords-reset/accepted-malformed-utm-zone", cls, det()); return; }
  const rd::ZoneResult& Z = zi == 0 ? z0 : z2;
  rd::NumResult E = rd::val_double_ref(tok[zi == 0 ? 1 : 0]), N = rd::val_double_ref(tok[zi == 0 ? 2 : 1]);
  if (E.st == rd::REJECT || N.st == rd::REJECT) { k.viol("oracle:C10/geocoords-reset/accepted-malformed-utm-number", cls, det()); return; }
  if (Z.invalid) { k.event("reset: INV zone accepted"); return; }
  if (g.Zone() != Z.zone) k.viol("oracle:C10/geocoords-reset/utm-zone-value", cls, det().i("zone", g.Zone()).i("want", Z.zone));
  if (E.st == rd::ACCEPT && E.sp == rd::FINITE && !vh::same_bits(g.Easting(), E.v)) k.viol("oracle:C10/geocoords-reset/utm-easting-value", cls, det().f("easting", g.Easting()).f("want", E.v));
  // (the hemisphere is fixed from the latitude of the point: with a non-finite easting there is no latitude and hence no rule to
  //  judge -- "30n 1.#IND -701405" was a false alarm of this monitor in the thorough tier's fuzz run)
  if (N.st == rd::ACCEPT && N.sp == rd::FINITE && E.st == rd::ACCEPT && E.sp == rd::FINITE) {
    // hemisphere rule read off the text: y = northing - false northing; y > 0 north, y < 0 south, y == 0 keeps the
    // hemisphere token (either hemisphere is allowed on the equator).  UPS (zone 0) never changes hemisphere.
    double n = g.Northing();
    double y = Z.zone == 0 ? 0 : N.v - (Z.northp ? 0 : 10000000.0);
    bool keep = vh::same_bits(n, N.v) && g.Northp() == Z.northp;
    bool flip = Z.zone != 0 && g.Northp() != Z.northp && std::fabs(n - (N.v + (Z.northp ? 1 : -1) * 10000000.0)) <= rd::ulp(1e7);
    bool want_flip = Z.zone != 0 && ((y > 0 && !Z.northp) || (y < 0 && Z.northp));
    bool undecided = std::fabs(y) < 1e-6 && y != 0;      // the latitude may underflow to zero
    if (!(undecided ? (keep || flip) : (want_flip ? flip : keep)))
      k.viol("oracle:C10/geocoords-reset/utm-northing-or-hemisphere", cls, det().f("northing", n).f("want", N.v).b("northp", g.Northp()).b("text_northp", Z.northp).b("want_flip", want_flip));
  }
  k.event("reset: UTM/UPS triple accepted");
}

}  // namespace c10
