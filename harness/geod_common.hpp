// Shared pieces of the geodesic harnesses (C01, C02, C03, C12, C08, C17): ellipsoid ladders,
// documented-accuracy tolerance model, cached solver objects, start/azimuth/length generators.
#pragma once
#include "harness/value_semantics.hpp"
#include <GeographicLib/Geodesic.hpp>
#include <GeographicLib/GeodesicExact.hpp>
#include <GeographicLib/GeodesicLine.hpp>
#include <GeographicLib/GeodesicLineExact.hpp>
#include <map>
#include <memory>
#include "harness/common.hpp"
#include "oracle/ref_geod.hpp"

namespace gh {
using ref::q128;
static const double WGS84_A = 6378137.0, WGS84_F = 1 / 298.257223563;

struct EllSpec { double a, f; std::string bucket; bool series_ok; };

// documented accuracy of the series solver as a function of |f| (Geodesic.hpp), metres for a = WGS84_a
inline double doc_series(double f) {
  static const double F[] = {WGS84_F, 0.01, 0.02, 0.05, 0.1, 0.2};
  static const double T[] = {15e-9, 25e-9, 30e-9, 10e-6, 1.5e-3, 300e-3};
  f = std::fabs(f);
  if (f <= F[0]) return T[0];
  for (int i = 1; i < 6; ++i) if (f <= F[i]) {
    double t = (std::log(f) - std::log(F[i - 1])) / (std::log(F[i]) - std::log(F[i - 1]));
    return std::exp(std::log(T[i - 1]) + t * (std::log(T[i]) - std::log(T[i - 1])));
  }
  return T[5] * std::pow(f / 0.2, 7);     // beyond the table: f^7 scaling (documented: "not supported")
}
// documented accuracy of the exact solver as a function of b/a for a quarter meridian of 10 000 km
inline double doc_exact(double boa) {
  static const double R[] = {1.0 / 128, 1.0 / 64, 1.0 / 32, 1.0 / 16, 1.0 / 8, 0.25, 0.5, 1, 2, 4, 8, 16, 32, 64, 128};
  static const double T[] = {387, 345, 269, 210, 115, 69, 36, 15, 25, 96, 318, 985, 2352, 6008, 19024};
  double t;
  if (boa <= R[0]) t = T[0]; else if (boa >= R[14]) t = T[14];
  else { int i = 1; while (boa > R[i]) ++i;
    double u = (std::log(boa) - std::log(R[i - 1])) / (std::log(R[i]) - std::log(R[i - 1]));
    t = std::exp(std::log(T[i - 1]) + u * (std::log(T[i]) - std::log(T[i - 1]))); }
  return std::max(t, 40.0) * 1e-9;        // "about 40 nm" on WGS84
}
// quarter meridian (long double quadrature; only used to scale tolerances)
inline double quarter_meridian(double a, double f) {
  ref::Ell<long double> E(a, f);
  long double e2 = E.e2, aa = E.a;
  return (double)ref::integrate<long double>([e2, aa](long double p) { long double s = std::sin(p), w = 1 - e2 * s * s; return aa * (1 - e2) / (w * std::sqrt(w)); },
                                             0.0L, ref::pi<long double>() / 2, 0.05L);
}

struct Solvers {
  double a, f, b, qm, tol_series, tol_exact;
  std::unique_ptr<GeographicLib::Geodesic> series, delegating;
  std::unique_ptr<GeographicLib::GeodesicExact> exact;
  ref::Ell<q128> E;
  Solvers(double a_, double f_, bool want_series) : a(a_), f(f_), E(a_, f_) {
    b = a * (1 - f); qm = quarter_meridian(a, f);
    tol_series = doc_series(f) * a / WGS84_A;
    tol_exact = doc_exact(b / a) * qm / 1e7;
    // every solver the harnesses use is a detached COPY (harness/value_semantics.hpp): the object it was copied from is overwritten
    // by a solver for another ellipsoid and destroyed before the first call
    using GeographicLib::Geodesic; using GeographicLib::GeodesicExact;
    const double a2 = a * 1.25, f2 = f > 0.5 ? 0.01 : 0.25;
    if (want_series) series.reset(vh::detached_new<Geodesic>([&] { return Geodesic(a, f); }, [&] { return Geodesic(a2, 0.015); }));
    exact.reset(vh::detached_new<GeodesicExact>([&] { return GeodesicExact(a, f); }, [&] { return GeodesicExact(a2, f2); }));
    delegating.reset(vh::detached_new<Geodesic>([&] { return Geodesic(a, f, true); }, [&] { return Geodesic(a2, f2, true); }));
  }
};
inline Solvers& solvers(double a, double f, bool want_series) {
  static std::map<std::pair<double, double>, std::unique_ptr<Solvers>> cache;
  auto key = std::make_pair(a, f);
  auto it = cache.find(key);
  if (it == cache.end() || (want_series && !it->second->series)) {
    if (cache.size() > 64) cache.clear();
    cache[key].reset(new Solvers(a, f, want_series));
    it = cache.find(key);
  }
  return *it->second;
}

// ellipsoid ladder of DESIGN.md 1.3; series solver judged for |f| <= 0.2 (documented table), exact for b/a in [0.01,100]
inline EllSpec pick_ellipsoid(vh::Rng& r) {
  static const double fl[] = {0, 1e-6, -1e-6, WGS84_F, 1.0 / 150, -1.0 / 150, 0.01, -0.01, 0.02, -0.02, 0.05, -0.05, 0.1, -0.1, 0.2, -0.2};
  static const double boa[] = {0.01, 0.1, 0.5, 0.9, 1.1, 2, 10, 100};
  static const double al[] = {1, WGS84_A, 1e12};
  EllSpec e; e.a = r.coin(0.6) ? WGS84_A : r.pick(al);
  int k = (int)r.below(10);
  if (k < 3) e.f = WGS84_F;
  else if (k < 7) e.f = r.pick(fl);
  else if (k < 8) e.f = r.sign() * r.logu(1e-5, 0.2);
  else if (k < 9) e.f = 1 - r.pick(boa);
  else e.f = 1 - std::exp(r.uniform(std::log(0.01), std::log(100.0)));
  double af = std::fabs(e.f);
  e.series_ok = af <= 0.2;
  e.bucket = e.f == 0 ? "sphere" : af <= 0.0034 ? (e.f > 0 ? "wgs84-like" : "wgs84-like-prolate") : af <= 0.02 ? (e.f > 0 ? "f<=0.02" : "f>=-0.02")
    : af <= 0.2 ? (e.f > 0 ? "f<=0.2" : "f>=-0.2") : e.f > 0 ? "very-oblate" : "very-prolate";
  return e;
}

inline double pick_lat(vh::Rng& r, std::string& cls) {
  switch (r.below(10)) {
  case 0: cls = "pole"; return r.coin() ? 90 : -90;
  case 1: cls = "near-pole"; return r.sign() * (90 - r.logu(1e-14, 1e-2));
  case 2: cls = "equator"; return r.coin() ? 0.0 : -0.0;
  case 3: cls = "near-equator"; return r.sign() * r.logu(1e-300, 1e-3);
  default: cls = "mid"; return r.uniform(-90, 90);
  }
}
inline double pick_lon(vh::Rng& r) {
  switch (r.below(8)) {
  case 0: { static const double s[] = {0, 180, -180, 540, -540, 360, 1e6, -1e6}; return r.pick(s); }
  case 1: return vh::ulps(r.coin() ? 180 : -180, r.range(-2, 2));
  default: return r.uniform(-180, 180);
  }
}
inline double pick_azi(vh::Rng& r, std::string& cls) {
  switch (r.below(8)) {
  case 0: { static const double s[] = {0.0, -0.0, 90, -90, 180, -180, 270, 360, -360, 720}; cls = "cardinal"; return r.pick(s); }
  case 1: { static const double s[] = {0, 90, -90, 180, -180}; cls = "near-cardinal"; return vh::ulps(r.pick(s), r.range(-3, 3)) + (r.coin() ? 0 : r.sign() * r.logu(1e-14, 1e-5)); }
  case 2: cls = "multi-turn"; return r.uniform(-1e4, 1e4);
  default: cls = "general"; return r.uniform(-180, 180);
  }
}

}  // namespace gh
