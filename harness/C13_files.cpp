// C13 (d)/(e): hostile bytes and files.
//   * seed_valid        every synthetic seed file is ACCEPTED by its reader (else the fault
//                       enumeration would be vacuous -> harness error)
//   * fault_<reader>    deterministic FAULT ENUMERATION over every valid seed file:
//                       truncation at every byte offset, every header field replaced by
//                       {empty,-1,0,1,2^31-1,2^31,2^32,2^63,1e400,1e-400,nan,inf,text,...},
//                       every binary length/degree word replaced by {-1,0,1,v+-1,2^14-1,2^14,
//                       2^16,INT_MAX,INT_MIN}, selected doubles by {nan,inf,-1,1e308}, every
//                       header line deleted / duplicated / swapped with its successor,
//                       trailing garbage, single-byte corruption at every offset, swapped and
//                       empty / missing .cof files
//   * missing_files     absent / empty / directory / over-long-name data files: GeographicErr only
//   * geoid_ftruncate   file shrunk under a live non-cached Geoid: every later call returns
//                       the old value or raises GeographicErr
//   * parser_directed   cross product (hostile string catalogue) x (all string parsers)
//   * parser_grammar    random structural mutations of valid strings x all string parsers
//   * corpus_replay     files of $C13_CORPUS_DIR (libFuzzer corpus; used by the valgrind pass)
//   * fuzz_witness      re-execution of a witness found by libFuzzer (replays/C13/w_<idx>.bin)
// Monitors live in fuzz/C13_targets.hpp (exception type, sentinels on throw, laws); ASan /
// UBSan reports are turned into violations by the driver.
#include "fuzz/C13_newlimit.hpp"
#include "fuzz/C13_targets.hpp"
#include "harness/common.hpp"

#include <dirent.h>
#include <functional>
#include <memory>

using vh::Ctx; using vh::J; using vh::Section;

namespace {

struct HEnv : c13::Env {
  Ctx* c = nullptr; std::string cls; const std::string* input = nullptr; std::string label;
  std::map<std::string, uint64_t> ev;
  void viol(const std::string& key, const std::string& detail) override {
    c->viol(key, cls, J().str("what", detail).str("fault", label).str("input_hex", input ? c13::hexs(*input, 3000) : "")
            .u("input_len", input ? input->size() : 0));
  }
  void event(const std::string& e) override { c->event(e); }
};
HEnv g_env;

void cleanup_dir() {
  if (g_env.dir.empty()) return;
  for (const char* f : {"g.pgm", "m.wmm", "m.wmm.cof", "g.egm", "g.egm.cof", "t.pgm", "x.wmm", "x.wmm.cof", "x.egm", "x.egm.cof"})
    ::unlink((g_env.dir + "/" + f).c_str());
  ::rmdir(g_env.dir.c_str());
}
void ensure_dir() {
  if (!g_env.dir.empty()) return;
  g_env.dir = "/dev/shm/c13h." + std::to_string((long)getpid());
  ::mkdir(g_env.dir.c_str(), 0755);
  std::atexit(cleanup_dir);
}

// run one input through one target; classify the outcome
void run_target(Ctx& c, const c13::Target& t, const std::string& in, const std::string& kind, const std::string& label) {
  ensure_dir();
  c13::hang::install(fileno(c.out), c.section, c.idx, c.seed);
  g_env.c = &c; g_env.input = &in; g_env.label = label; g_env.cls = std::string(t.name) + "/" + kind;
  uint64_t a0 = g_env.accepted, r0 = g_env.rejected, b0 = g_env.badalloc;
  t.fn((const uint8_t*)in.data(), in.size(), g_env);
  uint64_t a = g_env.accepted - a0, r = g_env.rejected - r0, b = g_env.badalloc - b0;
  std::string out = b ? "bad_alloc" : (a && r ? "mixed" : (a ? "accepted" : "rejected"));
  std::string cls = std::string(t.name) + "/" + kind + "/" + out;
  c.count(cls, vh::hmixs(vh::hstr(t.name), in));
  c.event("calls/guarded", a + r + b); c.event("exits/normal", a); c.event("exits/GeographicErr", r); c.event("exits/bad_alloc", b);
  if (c.want_sample(cls)) c.sample(cls, J().str("fault", label).str("input_hex", c13::hexs(in, 64)).u("len", in.size()));
  if (c.only) std::fprintf(stderr, "target=%s kind=%s label=%s len=%zu outcome=%s (normal %llu, GeographicErr %llu, bad_alloc %llu)\n",
                           t.name, kind.c_str(), label.c_str(), in.size(), out.c_str(), (unsigned long long)a, (unsigned long long)r, (unsigned long long)b);
}

// ------------------------------------------------------------------ fault lists
struct Fault { std::string kind, label; std::function<std::string()> make; };

std::string le32(int32_t v) { char b[4]; std::memcpy(b, &v, 4); return std::string(b, 4); }
std::string le64f(double v) { char b[8]; std::memcpy(b, &v, 8); return std::string(b, 8); }

// all faults of one file image; wrap(bytes) turns a faulted image into a target input.
// (closures share the image and the wrapper through shared_ptr: tens of thousands of faults)
typedef std::function<std::string(const std::string&)> Wrap;
void faults_of(const c13::SeedFile& f, const std::string& tag, Wrap wrap, std::vector<Fault>& out, bool byteflips = true) {
  auto Bp = std::make_shared<const std::string>(f.bytes);
  auto Wp = std::make_shared<Wrap>(wrap);
  const size_t n = Bp->size();
  out.push_back({"valid", tag + ":valid", [Bp, Wp] { return (*Wp)(*Bp); }});
  for (size_t k = 0; k < n; ++k)
    out.push_back({"truncate", tag + ":truncate@" + std::to_string(k), [Bp, Wp, k] { return (*Wp)(Bp->substr(0, k)); }});
  static const char* const textrep[] = {"", "-1", "0", "1", "2147483647", "2147483648", "4294967296", "9223372036854775808",
    "1e400", "-1e400", "1e-400", "nan", "inf", "-inf", "text", "-0", "0x10", "1/0", "0/0", "2147483646", "16384", "1 2", "1e308", "-2147483648"};
  for (auto& fd : f.fields) {
    const size_t off = fd.off, len = fd.len;
    auto repl = [Bp, Wp, off, len](const std::string& v) { return (*Wp)(Bp->substr(0, off) + v + Bp->substr(off + len)); };
    std::string base = tag + ":" + fd.name;
    std::string orig = Bp->substr(off, len);
    if (fd.kind == c13::F_TEXTNUM || fd.kind == c13::F_TEXT || fd.kind == c13::F_ID) {
      for (const char* r : textrep) { std::string rs = r; out.push_back({"field-text", base + "=" + rs, [repl, rs] { return repl(rs); }}); }
      out.push_back({"field-text", base + "=orig+X", [repl, orig] { return repl(orig + "X"); }});
      out.push_back({"field-text", base + "=orig-1char", [repl, orig] { return repl(orig.substr(0, orig.size() ? orig.size() - 1 : 0)); }});
      out.push_back({"field-text", base + "=long", [repl] { return repl(std::string(300, '9')); }});
    } else if (fd.kind == c13::F_I32) {
      int32_t v; std::memcpy(&v, &(*Bp)[off], 4);
      for (long long r : {-1LL, 0LL, 1LL, 2LL, (long long)v + 1, (long long)v - 1, 16383LL, 16384LL, 65536LL, 2147483647LL, -2147483648LL,
                          1835101817LL, 2147483646LL, -2LL, 46341LL})
        out.push_back({"field-int", base + "=" + std::to_string(r), [repl, r] { return repl(le32((int32_t)r)); }});
    } else if (fd.kind == c13::F_F64) {
      for (double r : {std::numeric_limits<double>::quiet_NaN(), std::numeric_limits<double>::infinity(), -1.0, 1e308, 0.0, 5e-324})
        out.push_back({"field-real", base + "=" + vh::jnum(r), [repl, r] { return repl(le64f(r)); }});
    } else if (fd.kind == c13::F_LINE) {
      out.push_back({"line", base + ":deleted", [repl] { return repl(""); }});
      out.push_back({"line", base + ":duplicated", [repl, orig] { return repl(orig + orig); }});
      size_t e = off + len, e2 = Bp->find('\n', e);
      if (e2 != std::string::npos && fd.name != "line:maxval")
        out.push_back({"line", base + ":swapped-with-next", [Bp, Wp, off, e, e2, orig] {
          return (*Wp)(Bp->substr(0, off) + Bp->substr(e, e2 + 1 - e) + orig + Bp->substr(e2 + 1)); }});
      out.push_back({"line", base + ":no-newline", [repl, orig] { return repl(orig.substr(0, orig.size() - 1) + " "); }});
    }
  }
  for (const std::string& g : {std::string("\n"), std::string("X"), std::string(8, '\xff'), std::string(4096, 'A'), std::string(1, '\0')})
    out.push_back({"trailing-garbage", tag + ":+" + std::to_string(g.size()) + "bytes", [Bp, Wp, g] { return (*Wp)(*Bp + g); }});
  out.push_back({"leading-garbage", tag + ":leading-newline", [Bp, Wp] { return (*Wp)("\n" + *Bp); }});
  out.push_back({"leading-garbage", tag + ":leading-BOM", [Bp, Wp] { return (*Wp)("\xef\xbb\xbf" + *Bp); }});
  if (byteflips && n <= 4096)
    for (size_t k = 0; k < n; ++k)
      for (int m = 0; m < 4; ++m)
        out.push_back({"byte-corruption", tag + ":byte@" + std::to_string(k) + "/" + std::to_string(m), [Bp, Wp, k, m] {
          std::string s = *Bp; unsigned char& ch = (unsigned char&)s[k];
          ch = m == 0 ? ch ^ 0xff : m == 1 ? ch ^ 0x01 : m == 2 ? 0 : '\n'; return (*Wp)(s); }});
}

std::vector<Fault> g_geoid, g_magnetic, g_gravity, g_coeff, g_nnbin, g_nntext;

void build_faults() {
  auto id = [](const std::string& s) { return s; };
  for (int v = 0; v < 4; ++v) faults_of(c13::geoid_seed(v), "geoid" + std::to_string(v), id, g_geoid);
  static const unsigned char sels[] = {0x00, 0x53};
  for (int v = 0; v < 3; ++v) {
    c13::PairSeed p = c13::magnetic_seed(v);
    for (unsigned char sel : sels) {
      std::string st = "magnetic" + std::to_string(v) + "/sel" + std::to_string(sel);
      std::string cof = p.cof.bytes, meta = p.meta.bytes;
      faults_of(p.meta, st + "/wmm", [=](const std::string& m) { return c13::pack_pair(sel, m, cof); }, g_magnetic, sel == 0);
      faults_of(p.cof, st + "/cof", [=](const std::string& c) { return c13::pack_pair(sel, meta, c); }, g_magnetic, sel == 0);
    }
    // swapped coefficient files
    for (int w = 0; w < 3; ++w) if (w != v) {
      std::string cof = c13::magnetic_seed(w).cof.bytes, meta = p.meta.bytes;
      g_magnetic.push_back({"swapped-cof", "magnetic" + std::to_string(v) + ":cof-of-magnetic" + std::to_string(w), [=] { return c13::pack_pair(0, meta, cof); }});
      // same id but the blocks of another model
      std::string cof2 = p.cof.bytes.substr(0, 8) + cof.substr(8);
      g_magnetic.push_back({"swapped-cof", "magnetic" + std::to_string(v) + ":blocks-of-magnetic" + std::to_string(w), [=] { return c13::pack_pair(0, meta, cof2); }});
      g_magnetic.push_back({"swapped-cof", "magnetic" + std::to_string(v) + ":blocks-of-magnetic" + std::to_string(w) + "/truncating", [=] { return c13::pack_pair(0x53, meta, cof2); }});
    }
    { std::string cof = c13::gravity_seed(0).cof.bytes, meta = p.meta.bytes;
      g_magnetic.push_back({"swapped-cof", "magnetic" + std::to_string(v) + ":cof-of-gravity0", [=] { return c13::pack_pair(0, meta, cof); }});
      std::string cof2 = p.cof.bytes.substr(0, 8) + cof.substr(8);
      g_magnetic.push_back({"swapped-cof", "magnetic" + std::to_string(v) + ":blocks-of-gravity0", [=] { return c13::pack_pair(0, meta, cof2); }}); }
  }
  for (int v = 0; v < 3; ++v) {
    c13::PairSeed p = c13::gravity_seed(v);
    for (unsigned char sel : sels) {
      std::string st = "gravity" + std::to_string(v) + "/sel" + std::to_string(sel);
      std::string cof = p.cof.bytes, meta = p.meta.bytes;
      faults_of(p.meta, st + "/egm", [=](const std::string& m) { return c13::pack_pair(sel, m, cof); }, g_gravity, sel == 0);
      faults_of(p.cof, st + "/cof", [=](const std::string& c) { return c13::pack_pair(sel, meta, c); }, g_gravity, sel == 0);
    }
    for (int w = 0; w < 3; ++w) if (w != v) {
      std::string cof = c13::gravity_seed(w).cof.bytes, meta = p.meta.bytes;
      std::string cof2 = p.cof.bytes.substr(0, 8) + cof.substr(8);
      g_gravity.push_back({"swapped-cof", "gravity" + std::to_string(v) + ":cof-of-gravity" + std::to_string(w), [=] { return c13::pack_pair(0, meta, cof); }});
      g_gravity.push_back({"swapped-cof", "gravity" + std::to_string(v) + ":blocks-of-gravity" + std::to_string(w), [=] { return c13::pack_pair(0, meta, cof2); }});
      g_gravity.push_back({"swapped-cof", "gravity" + std::to_string(v) + ":blocks-of-gravity" + std::to_string(w) + "/truncating", [=] { return c13::pack_pair(0x53, meta, cof2); }});
    }
    { std::string cof = c13::magnetic_seed(0).cof.bytes, meta = p.meta.bytes;
      std::string cof2 = p.cof.bytes.substr(0, 8) + cof.substr(8);
      g_gravity.push_back({"swapped-cof", "gravity" + std::to_string(v) + ":blocks-of-magnetic0", [=] { return c13::pack_pair(0, meta, cof2); }}); }
  }
  static const unsigned char csel[] = {0x00, 0x27, 0x01, 0x43, 0x80 | 0x2d};
  for (int v = 0; v < 4; ++v)
    for (unsigned char sel : csel)
      faults_of(c13::coeff_seed(v), "coeff" + std::to_string(v) + "/sel" + std::to_string(sel),
                [=](const std::string& s) { return std::string(1, (char)sel) + s; }, g_coeff, sel == 0);
  // headers that legitimately ask for more memory than the 512 MB cap: the legal exit is std::bad_alloc
  g_coeff.push_back({"huge-allocation", "coeff:N=M=16383,no-data", [] { return std::string(1, '\0') + le32(16383) + le32(16383); }});
  g_coeff.push_back({"huge-allocation", "coeff:N=M=16383,truncating-request", [] { return std::string(1, (char)0x27) + le32(16383) + le32(16383); }});
  { std::string b = c13::nn_save(9, 2, true);
    g_nnbin.push_back({"huge-allocation", "nnbin:numpoints=treesize=INT_MAX", [b] { std::string s = b; s.replace(28, 4, le32(2147483647)); s.replace(32, 4, le32(2147483647)); return s; }});
    g_nntext.push_back({"huge-allocation", "nntext:numpoints=treesize=INT_MAX", [] { return std::string("1 53 4 2147483647 2147483647 0\n-1 0 1 2 -1\n"); }}); }
  { static const int np[] = {9, 40, 17, 0, 30}, bk[] = {2, 4, 0, 4, 10};
    for (int v = 0; v < 5; ++v) {
      c13::SeedFile b; b.name = "nnbin"; b.bytes = c13::nn_save(np[v], bk[v], true); c13::nnbin_fields(b);
      faults_of(b, "nnbin" + std::to_string(v), id, g_nnbin);
      c13::SeedFile t; t.name = "nntext"; t.bytes = c13::nn_save(np[v], bk[v], false); c13::tokenize_fields(t);
      // the text tokens get a reduced replacement list through the generic text faults; restrict the
      // (numerous) node tokens to the first 40
      if (t.fields.size() > 40) t.fields.resize(40);
      faults_of(t, "nntext" + std::to_string(v), id, g_nntext);
    } }
}

void run_fault(Ctx& c, const char* target, const std::vector<Fault>& L, uint64_t idx) {
  if (idx >= L.size()) return;
  const c13::Target* t = c13::find_target(target);
  std::string in = L[idx].make();
  run_target(c, *t, in, L[idx].kind, L[idx].label);
}

// ------------------------------------------------------------------ hostile string catalogue
std::vector<std::string> g_cat;
void build_catalogue() {
  std::vector<std::string>& C = g_cat;
  auto add = [&](const std::string& s) { C.push_back(s); };
  // separators repeated
  for (int k = 1; k <= 8; ++k) {
    std::string s = "1"; for (int i = 0; i < k; ++i) s += ":" + std::to_string(i + 2); add(s); add(s + "N"); add("-" + s); add(s + ":");
    std::string d = "1"; static const char* comp[] = {"d", "'", "\""}; for (int i = 0; i < k; ++i) d += std::string(comp[i % 3]) + std::to_string(i + 2); add(d);
    add(std::string(k, ':')); add(std::string(k, 'd')); add(std::string(k, '\'')); add(std::string(k, '"'));
    add("1" + std::string(k, ':') + "2");
  }
  // long digit runs, with and without a trailing letter / exponent
  for (int k : {1, 2, 3, 4, 5, 9, 10, 11, 12, 15, 18, 19, 20, 21, 25, 40, 310, 1000}) {
    for (char dch : {'9', '1', '0'}) {
      std::string r(k, dch);
      add(r); add(r + "C"); add(r + "n"); add(r + "S"); add(r + "AA"); add(r + "SMB4488"); add("38SMB" + r); add("38S" + r); add(r + "." + r); add("-" + r);
      add(r + "-1-1"); add("1-" + r + "-1"); add("1-1-" + r); add(r + "/" + r); add("1e" + r); add("1e-" + r); add(r + ":" + r + ":" + r);
      add("GJPJ" + r); add("SU" + r); add("TG " + r + " " + r); add("ezs" + r); add("006AG" + r); add(r + "AG39"); add(r + "d" + r + "'" + r + "\"");
    }
  }
  for (const char* s : {"2147483647", "2147483648", "-2147483648", "-2147483649", "4294967295", "4294967296", "9223372036854775807",
       "9223372036854775808", "18446744073709551616", "1e400", "-1e400", "1e-400", "0x7fffffff", "0x1p1000", "1e308", "1.7976931348623159e308",
       "444444444-1-1", "2147483647-12-31", "-2147483648-1-1", "0-0-0", "1-2147483647-1", "1-1-2147483647", "21474836-01-01", "214748364-1-1", "9999999-12-31",
       "2000-13-01", "2000-02-30", "2000-00-00", "-1-1-1", "2000--1-1", "2000-1--1", "now", "NOW", "nan", "NaN", "-nan", "inf", "-inf", "+inf", "infinity", "1.#INF", "-1.#IND", "1.#QNAN0000",
       "1/0", "0/0", "1/-0", "-2147483648/-1", "2147483647/0", "1/", "/1", "1//2", "1/2/3", "",
       " ", "\t", "\n", "\r\n", "-", "+", ".", "e", "E", "+-1", "--1", "1e", "1e+", ".e1", "0x", "1 2", "1,2",
       "90", "90.0000000000001", "91N", "181E", "-181", "360", "-360", "90N 180E", "90S 180W", "91 0", "0 361", "N", "S", "E", "W", "NS", "EW", "1N2", "N1N", "1NN", "1N 2N", "1E 2E",
       "INVALID", "invalid", "INV", "inv", "INVx", "INVALI", "INVALIDINVALID", "iNvAlId", "NAN", "INF",
       "38n", "38north", "38south", "0n", "00n", "61n", "60n", "-1n", "+1n", "1x", "n", "s", "north", "south", "nn", "1", "60", "38nn", "38 n", " 38n", "38n ", "038n", "3 8n",
       "38SMB4488", "38SMB448", "38SMB44889", "38SMB", "38S", "38", "38SM", "38SIB", "38SOB", "38SMO", "38IMB", "38OMB", "00SMB", "61SMB", "38AMB", "38ZMB", "38YMB", "ASMB", "A", "B", "Y", "Z",
       "ZAB1234", "ZAB", "ZA", "ZAB123", "YZG", "BAN", "AZZ", "ZZZ", "AAA", "BZZ9999999999999999999999", "31NAA", "31XAA", "32XAA", "34XAA", "36XAA", "33XVK", "31VAA", "32VAA",
       "ezs42", "ezs4a", "ezs4i", "ezs4l", "ezs4o", "EZS42", "zzzzzzzzzzzzzzzzzz", "zzzzzzzzzzzzzzzzzzz", "0000000000000000000", "s",
       "006AG39", "006AG3", "006AG", "006A", "006", "00", "000AG", "721AG", "720QZ49", "720RA", "006IG", "006AO", "006AG50", "006AG30", "006AG05", "006AG3A", "1AG",
       "GJPJ3716", "GJPJ371", "GJPJ", "GJP", "GJ", "G", "IJPJ", "GIPJ", "GJIJ", "GJPI", "ZZQQ", "AAAA", "GJPJ6000", "GJPJ0060", "GJPJ37161627384950617283", "ZMQQ5959", "ANAA",
       "TG 51409 13177", "TG5140913177", "TG514091317", "TG", "T", "TI", "IG", "SV", "HP", "JM", "AA", "ZZ", "TG 51409", "TG 5 1", "TG51409 13177 ", " TG", "TG  1  2", "TG 5140913177514091317751409131775140913177",
       "40d26'47\"N", "40d26'47\"N 73d58'W", "40:26:47N 73:58W", "-40.5 -73.5", "1d2d3", "1'2'3", "1\"2", "1d2'3\"4", "1d60'", "1d2'60\"", "1d-2'", "1d2.5'3\"", "1.5d2'", "1d2'3\"N4", "+-1d", "1d2'3\"NN", "d", "'", "\"", "1dd", "1''", "1'\"", "'1", "d1",
       "\xc2\xb0", "1\xc2\xb0" "2\xe2\x80\xb2" "3\xe2\x80\xb3", "1\xb0" "2'", "\xe2\x88\x92" "1", "1\xe2", "1\xc2", "\xff", "\x80", "\xfe\xff", "1\xba" "2\xb4", "1^2", "1*2", "1`", "1\xe2\x80\x99" "2",
       "Name value", "key = value # comment", "#", "# only comment", "=", "= v", "k =", "k = = v", "k\tv", "  k  v  ", "k#v", "k=#", "\x23\x23", "true", "FALSE", "on", "off", "yes", "no", "t", "f", "nil", "y", "n", "tru", "2", "01", "1.0"})
    add(s);
  // every seed of every string target, mutated position by position
  static const std::string repl("\0\xff\x80 -+.:eIOd'\"/\n", 17);
  for (auto& t : c13::targets()) if (t.is_string)
    for (auto& s : c13::seeds_for(t.name)) {
      add(s);
      for (size_t k = 0; k <= s.size(); ++k) {
        add(s.substr(0, k));
        for (char r : repl) { if (k < s.size()) { std::string m = s; m[k] = r; add(m); } std::string ins = s; ins.insert(k, 1, r); add(ins); }
        if (k < s.size()) { std::string del = s; del.erase(k, 1); add(del); }
      }
      add(s + s); add(" " + s + " "); add("\t" + s); add(s + "\n"); add(s + std::string(1, '\0')); add(std::string(1, '\0') + s);
      { std::string u = s; for (auto& ch : u) ch = (char)std::tolower((unsigned char)ch); add(u); for (auto& ch : u) ch = (char)std::toupper((unsigned char)ch); add(u); }
    }
  for (char ch : {'A', '9', ':', ' ', 'd', '\'', '-', '.', 'e', '/', '#', '\0', '\xff', 'z', 'I', '0'})
    for (int len : {257, 5000}) add(std::string(len, ch));
  // de-duplicate, keep order
  std::vector<std::string> U; std::map<std::string, bool> seen;
  for (auto& s : C) if (!seen[s]) { seen[s] = true; U.push_back(s); }
  C.swap(U);
}

std::vector<const c13::Target*> g_strt;

// random structural mutation of valid strings
std::string grammar_string(vh::Rng& r) {
  static std::vector<std::string> pool, toks;
  if (pool.empty()) {
    for (auto& t : c13::targets()) if (t.is_string) for (auto& s : c13::seeds_for(t.name)) pool.push_back(s);
    toks = {":", "d", "'", "\"", "N", "S", "E", "W", "-", "+", ".", "e", "E", " ", "\t", "\n", "/", "#", "=", std::string(1, '\0'), "\xff", "\xc2\xb0", "\xe2\x80\xb2", "\xe2\x80\xb3", "\xe2\x88\x92",
            "nan", "inf", "INV", "INVALID", "now", "n", "s", "north", "south", "38", "60", "61", "00", "0", "9", "99999", "2147483647", "2147483648", "1e400", "1e-400",
            "A", "Z", "I", "O", "a", "z", "MB", "SMB", "ZAB", "TG", "GJPJ", "ezs", "006AG", "X", "x", "0x", "::", "''", "d'", "1:2:3:4", "180", "90", "360", "-0", "1/0"};
  }
  std::string s = r.pick(pool);
  int nm = 1 + (int)r.below(4);
  for (int i = 0; i < nm; ++i) {
    size_t p = s.empty() ? 0 : r.below(s.size() + 1);
    switch (r.below(8)) {
    case 0: s.insert(p, r.pick(toks)); break;
    case 1: if (!s.empty()) s.erase(std::min(p, s.size() - 1), 1 + r.below(3)); break;
    case 2: if (!s.empty()) { std::string t = r.pick(toks); s.replace(std::min(p, s.size() - 1), std::min<size_t>(t.size(), 2), t); } break;
    case 3: { const std::string& o = r.pick(pool); s.insert(p, o.substr(r.below(o.size() + 1))); } break;
    case 4: if (!s.empty()) { size_t q = r.below(s.size()); s.insert(p, s.substr(q, 1 + r.below(6))); } break;
    case 5: if (!s.empty()) { size_t q = std::min(p, s.size() - 1); if (std::isdigit((unsigned char)s[q])) s.insert(q, std::string(1 + r.below(24), char('0' + r.below(10)))); else s[q] = (char)r.below(256); } break;
    case 6: s = s.substr(0, p); break;
    default: if (!s.empty()) { size_t q = std::min(p, s.size() - 1); s[q] = std::isupper((unsigned char)s[q]) ? (char)std::tolower((unsigned char)s[q]) : (char)std::toupper((unsigned char)s[q]); } break;
    }
  }
  return s;
}

// ------------------------------------------------------------------ live truncation of a geoid file
void geoid_ftruncate_case(Ctx& c, uint64_t idx) {
  ensure_dir();
  static const std::string img[2] = {c13::geoid_seed(1).bytes, c13::geoid_seed(0).bytes};
  int which = idx & 1, cubic = (idx >> 1) & 1; uint64_t step = idx >> 2;
  const std::string& B = img[which];
  size_t L = (size_t)step * (which == 0 ? 16 : 4);
  if (L > B.size()) return;
  std::string path = g_env.dir + "/t.pgm";
  if (!c13::write_file(path, B)) { c.herr("cannot write " + path); return; }
  c13::hang::install(fileno(c.out), c.section, c.idx, c.seed);
  g_env.c = &c; g_env.input = nullptr; g_env.label = "ftruncate to " + std::to_string(L); g_env.cls = "geoid/ftruncate-live";
  std::string cls = std::string("geoid/ftruncate-live/") + (cubic ? "cubic" : "bilinear");
  uint64_t same = 0, threw = 0;
  try {
    GeographicLib::Geoid g("t", g_env.dir, cubic != 0, false);
    double before[16];
    for (int k = 0; k < 16; ++k) before[k] = g(c13::kProbe[k][0], c13::kProbe[k][1]);
    // prime differently for odd steps: leave the cell cache pointing somewhere else
    if (step & 1) (void)g(-33.0, 123.0);
    if (::truncate(path.c_str(), (off_t)L) != 0) { c.herr("truncate failed"); return; }
    for (int k = 15; k >= 0; --k) {
      double v = vh::sentinel(1);
      int rc = c13::guard(g_env, "Geoid::operator()(file truncated under live object)", [&] { v = g(c13::kProbe[k][0], c13::kProbe[k][1]); });
      if (rc == 0) {
        if (!c13::dsame(v, before[k]))
          c.viol("fault:C13/geoid/value-changed-after-live-truncation", cls, J().u("newlen", L).i("probe", k).f("before", before[k]).f("after", v));
        ++same;
      } else if (rc == 1) ++threw;
    }
    c13::guard(g_env, "Geoid::CacheArea(file truncated under live object)", [&] { g.CacheArea(-30, 10, 40, 200); });
    c13::guard(g_env, "Geoid::CacheAll(file truncated under live object)", [&] { g.CacheAll();
      // a cache that claims to be complete must reproduce the old values
      for (int k = 0; k < 16; ++k) { double v = g(c13::kProbe[k][0], c13::kProbe[k][1]);
        if (!c13::dsame(v, before[k])) c.viol("fault:C13/geoid/value-changed-after-live-truncation/cached", cls, J().u("newlen", L).i("probe", k).f("before", before[k]).f("after", v)); } });
  }
  catch (const GeographicLib::GeographicErr& e) { c.herr(std::string("valid geoid seed rejected: ") + e.what()); return; }
  c.count(cls + (threw ? "/GeographicErr-raised" : "/all-served-from-buffer"), vh::hmix(vh::hmix(1, (uint64_t)L), idx & 3));
  c.event("geoid-live-truncation/heights-unchanged", same); c.event("geoid-live-truncation/heights-GeographicErr", threw);
}

// ------------------------------------------------------------------ missing / unreadable files
void missing_case(Ctx& c, uint64_t idx) {
  ensure_dir();
  c13::hang::install(fileno(c.out), c.section, c.idx, c.seed);
  g_env.c = &c; g_env.input = nullptr; g_env.label = "missing-file case " + std::to_string(idx); g_env.cls = "missing-file";
  const std::string d = g_env.dir;
  for (const char* f : {"x.wmm", "x.wmm.cof", "x.egm", "x.egm.cof", "t.pgm"}) ::unlink((d + "/" + f).c_str());
  c13::PairSeed m = c13::magnetic_seed(0), g = c13::gravity_seed(0);
  std::string longname(5000, 'n'), nulname("t\0x", 3);
  bool ok = false; int rc = 0; const char* what = "";
  using namespace GeographicLib;
  switch (idx) {
  case 0: what = "Geoid/no-such-file"; rc = c13::guard(g_env, "Geoid::Geoid(missing)", [&] { Geoid x("nosuch", d); ok = true; }); break;
  case 1: what = "Geoid/name-is-a-directory"; ::mkdir((d + "/dir.pgm").c_str(), 0755); rc = c13::guard(g_env, "Geoid::Geoid(directory)", [&] { Geoid x("dir", d); ok = true; }); ::rmdir((d + "/dir.pgm").c_str()); break;
  case 2: what = "Geoid/empty-file"; c13::write_file(d + "/t.pgm", ""); rc = c13::guard(g_env, "Geoid::Geoid(empty)", [&] { Geoid x("t", d, true, true); ok = true; }); break;
  case 3: what = "Geoid/default-path"; rc = c13::guard(g_env, "Geoid::Geoid(default path)", [&] { Geoid x("nosuch"); ok = true; }); break;
  case 4: what = "Geoid/very-long-name"; rc = c13::guard(g_env, "Geoid::Geoid(long name)", [&] { Geoid x(longname, d); ok = true; }); break;
  case 5: what = "Geoid/name-with-NUL"; c13::write_file(d + "/t.pgm", c13::geoid_seed(0).bytes); rc = c13::guard(g_env, "Geoid::Geoid(NUL in name)", [&] { Geoid x(nulname, d); (void)x(1, 2); }); ok = false; rc = 1; break;
  case 6: what = "MagneticModel/no-such-file"; rc = c13::guard(g_env, "MagneticModel(missing)", [&] { MagneticModel x("nosuch", d); ok = true; }); break;
  case 7: what = "MagneticModel/missing-cof"; c13::write_file(d + "/x.wmm", m.meta.bytes); rc = c13::guard(g_env, "MagneticModel(missing cof)", [&] { MagneticModel x("x", d); ok = true; }); break;
  case 8: what = "MagneticModel/empty-cof"; c13::write_file(d + "/x.wmm", m.meta.bytes); c13::write_file(d + "/x.wmm.cof", ""); rc = c13::guard(g_env, "MagneticModel(empty cof)", [&] { MagneticModel x("x", d); ok = true; }); break;
  case 9: what = "MagneticModel/default-path"; rc = c13::guard(g_env, "MagneticModel(default path)", [&] { MagneticModel x("nosuch"); ok = true; }); break;
  case 10: what = "GravityModel/no-such-file"; rc = c13::guard(g_env, "GravityModel(missing)", [&] { GravityModel x("nosuch", d); ok = true; }); break;
  case 11: what = "GravityModel/missing-cof"; c13::write_file(d + "/x.egm", g.meta.bytes); rc = c13::guard(g_env, "GravityModel(missing cof)", [&] { GravityModel x("x", d); ok = true; }); break;
  case 12: what = "GravityModel/empty-cof"; c13::write_file(d + "/x.egm", g.meta.bytes); c13::write_file(d + "/x.egm.cof", ""); rc = c13::guard(g_env, "GravityModel(empty cof)", [&] { GravityModel x("x", d); ok = true; }); break;
  case 13: what = "GravityModel/cof-is-the-metadata-file"; c13::write_file(d + "/x.egm", g.meta.bytes); c13::write_file(d + "/x.egm.cof", g.meta.bytes); rc = c13::guard(g_env, "GravityModel(cof = metadata)", [&] { GravityModel x("x", d); ok = true; }); break;
  case 14: what = "GravityModel/very-long-name"; rc = c13::guard(g_env, "GravityModel(long name)", [&] { GravityModel x(longname, d); ok = true; }); break;
  default: return;
  }
  if (ok) c.viol(std::string("fault:C13/unusable-file-accepted/") + what, "missing-file", J().str("case", what));
  c.count(std::string("missing-file/") + what + (rc == 1 ? "/GeographicErr" : rc == 2 ? "/bad_alloc" : "/other"), vh::hmix(7, idx));
  for (const char* f : {"x.wmm", "x.wmm.cof", "x.egm", "x.egm.cof", "t.pgm"}) ::unlink((d + "/" + f).c_str());
}

// ------------------------------------------------------------------ seeds must be valid
void seed_valid_case(Ctx& c, uint64_t idx) {
  struct Item { const char* target; std::string in; };
  static std::vector<Item> items;
  if (items.empty())
    for (const char* t : {"geoid", "magnetic", "gravity", "readcoeffs", "nn_bin", "nn_text"})
      for (auto& s : c13::seeds_for(t)) items.push_back({t, s});
  if (idx >= items.size()) return;
  const c13::Target* t = c13::find_target(items[idx].target);
  std::string tn = items[idx].target;
  uint64_t before = c.events[tn == "nn_bin" || tn == "nn_text" ? "nn/accepted" : tn + "/accepted"], b0 = g_env.badalloc;
  run_target(c, *t, items[idx].in, "seed", "valid seed " + std::to_string(idx));
  uint64_t after = c.events[tn == "nn_bin" || tn == "nn_text" ? "nn/accepted" : tn + "/accepted"];
  // the reader itself must accept its seed (guarded sub-calls with illegal requests may throw)
  if (!(after > before && g_env.badalloc == b0))
    c.herr(std::string("valid seed not accepted by its reader: ") + items[idx].target + " #" + std::to_string(idx));
}

// ------------------------------------------------------------------ corpus / witness replay
std::vector<std::string> g_corpus;
void load_corpus_list() {
  const char* d = std::getenv("C13_CORPUS_DIR");
  if (!d) return;
  if (DIR* dir = opendir(d)) {
    while (dirent* e = readdir(dir)) { std::string n = e->d_name; if (n.find("__") != std::string::npos) g_corpus.push_back(std::string(d) + "/" + n); }
    closedir(dir);
  }
  std::sort(g_corpus.begin(), g_corpus.end());
}
std::string slurp(const std::string& p, bool& ok) {
  std::ifstream f(p.c_str(), std::ios::binary); ok = f.good();
  std::ostringstream os; os << f.rdbuf(); return os.str();
}
void corpus_case(Ctx& c, uint64_t idx) {
  if (idx >= g_corpus.size()) return;
  std::string base = g_corpus[idx].substr(g_corpus[idx].rfind('/') + 1);
  std::string tn = base.substr(0, base.find("__"));
  const c13::Target* t = c13::find_target(tn);
  bool ok; std::string in = slurp(g_corpus[idx], ok);
  if (!t || !ok) { c.herr("bad corpus entry " + g_corpus[idx]); return; }
  run_target(c, *t, in, "corpus", base);
}
void witness_case(Ctx& c, uint64_t idx) {
  const char* root = std::getenv("VERIF_ROOT");
  std::string p = std::string(root ? root : "/verif") + "/replays/C13/w_" + std::to_string(idx) + ".bin";
  bool ok; std::string all = slurp(p, ok);
  size_t nl = all.find('\n');
  if (!ok || nl == std::string::npos) { c.herr("no witness file " + p); return; }
  const c13::Target* t = c13::find_target(all.substr(0, nl));
  if (!t) { c.herr("unknown target in " + p); return; }
  run_target(c, *t, all.substr(nl + 1), "fuzz-witness", p);
}

}  // namespace

int main(int argc, char** argv) {
  // private flag (removed before the common runtime parses argv): --sections a,b,c runs only
  // the named sections (prefix match); used by the valgrind pass
  std::string only_sections;
  for (int i = 1; i + 1 < argc; ++i) if (std::string(argv[i]) == "--sections") {
    only_sections = std::string(",") + argv[i + 1] + ",";
    for (int j = i; j + 2 < argc; ++j) argv[j] = argv[j + 2];
    argc -= 2; break; }
  build_faults(); build_catalogue(); load_corpus_list();
  for (auto& t : c13::targets()) if (t.is_string) g_strt.push_back(&t);
  std::vector<Section> S;
  S.push_back({"seed_valid", 64, 64, false, seed_valid_case, 60});
  S.push_back({"missing_files", 15, 15, false, missing_case, 60});
  S.push_back({"fault_geoid", g_geoid.size(), g_geoid.size(), false, [](Ctx& c, uint64_t i) { run_fault(c, "geoid", g_geoid, i); }, 60});
  S.push_back({"fault_magnetic", g_magnetic.size(), g_magnetic.size(), false, [](Ctx& c, uint64_t i) { run_fault(c, "magnetic", g_magnetic, i); }, 60});
  S.push_back({"fault_gravity", g_gravity.size(), g_gravity.size(), false, [](Ctx& c, uint64_t i) { run_fault(c, "gravity", g_gravity, i); }, 60});
  S.push_back({"fault_readcoeffs", g_coeff.size(), g_coeff.size(), false, [](Ctx& c, uint64_t i) { run_fault(c, "readcoeffs", g_coeff, i); }, 60});
  S.push_back({"fault_nn_bin", g_nnbin.size(), g_nnbin.size(), false, [](Ctx& c, uint64_t i) { run_fault(c, "nn_bin", g_nnbin, i); }, 60});
  S.push_back({"fault_nn_text", g_nntext.size(), g_nntext.size(), false, [](Ctx& c, uint64_t i) { run_fault(c, "nn_text", g_nntext, i); }, 60});
  { uint64_t n = 4 * (std::max(c13::geoid_seed(1).bytes.size() / 16, c13::geoid_seed(0).bytes.size() / 4) + 2);
    S.push_back({"geoid_ftruncate", n, n, false, geoid_ftruncate_case, 60}); }
  { uint64_t n = g_cat.size() * g_strt.size();
    S.push_back({"parser_directed", n, n, false, [](Ctx& c, uint64_t i) {
      const c13::Target* t = g_strt[i % g_strt.size()]; const std::string& s = g_cat[i / g_strt.size()];
      run_target(c, *t, s, "directed", "catalogue#" + std::to_string(i / g_strt.size())); }, 60}); }
  S.push_back({"parser_grammar", 60000, 1500000, true, [](Ctx& c, uint64_t) {
      std::string s = grammar_string(c.rng);
      for (const c13::Target* t : g_strt) run_target(c, *t, s, "grammar", "grammar"); }, 60});
  S.push_back({"corpus_replay", g_corpus.size(), g_corpus.size(), false, corpus_case, 120});
  S.push_back({"fuzz_witness", 0, 0, false, witness_case, 120});
  if (!only_sections.empty())
    for (auto& sec : S) {
      bool keep = false; size_t p = 0;
      while ((p = only_sections.find(',', p)) != std::string::npos && p + 1 < only_sections.size()) {
        size_t q = only_sections.find(',', p + 1); std::string pat = only_sections.substr(p + 1, q - p - 1);
        if (!pat.empty() && sec.name.compare(0, pat.size(), pat) == 0) keep = true; p = q; }
      if (!keep) sec.nquick = sec.nthorough = 0;
    }
  return vh::run_sections(argc, argv, S);
}
