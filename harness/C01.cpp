// C01 — direct geodesic problem.  Oracle monitor: float128 quadrature geodesic (oracle/ref_geod.hpp)
// evaluated next to every call of the four solver configurations (series, exact, exact=true
// delegation, precomputed line) in both length modes; range and longitude-unroll monitors; REF is
// itself validated against an independent ODE formulation in the "selftest" section.
#include "harness/geod_common.hpp"
#include "oracle/ref_exact.hpp"

using namespace GeographicLib;
using vh::Ctx; using vh::J; using vh::Section;
using gh::q128;
// x documented accuracy.  The exact solver's table is an 'approximate maximum error' measured by its author on random
// geodesics; on the directed extremes used here (b/a outside [1/16,16]) round-off reaches ~5x that table, so K=8 there.
static const double K_SERIES = 2.0, K_EXACT = 4.0, K_EXACT_EXTREME = 8.0;

struct Case { gh::EllSpec e; double lat1, lon1, azi1, len; bool arcmode; std::string cls; };

static double pick_len(vh::Rng& r, bool arcmode, double b, std::string& cls) {
  // as an arc in degrees; converted to metres with the mean scale for distance mode
  double a12;
  switch (r.below(12)) {
  case 0: cls = "zero"; a12 = r.coin() ? 0.0 : -0.0; break;
  case 1: cls = "tiny"; a12 = r.sign() * r.logu(1e-15, 1e-6); break;
  case 2: cls = "short"; a12 = r.sign() * r.logu(1e-6, 1); break;
  case 3: cls = "multiple-of-90"; a12 = 90.0 * r.range(-8, 8); if (!arcmode) a12 = vh::ulps(a12, r.range(-2, 2)); break;
  case 4: cls = "near-half-circuit"; a12 = r.sign() * (180 - r.sign() * r.logu(1e-12, 1)); break;
  case 5: cls = "multi-circuit"; a12 = r.sign() * r.uniform(360, 7200); break;
  case 6: cls = "negative"; a12 = -r.uniform(0, 360); break;
  default: cls = "within-one-circuit"; a12 = r.uniform(0, 360); break;
  }
  return arcmode ? a12 : a12 * (M_PI / 180) * b;
}

static Case gen(vh::Rng& r) {
  Case c; std::string cl, ca, cn;
  c.e = gh::pick_ellipsoid(r);
  c.lat1 = gh::pick_lat(r, cl); c.lon1 = gh::pick_lon(r); c.azi1 = gh::pick_azi(r, ca);
  c.arcmode = r.coin();
  c.len = pick_len(r, c.arcmode, c.e.a * (1 - c.e.f), cn);
  c.cls = c.e.bucket + "/start-" + cl + "/azi-" + ca + "/" + cn + (c.arcmode ? "/arc" : "/dist");
  return c;
}

// directed catalogue: the singular sets named in the property
static bool directed(uint64_t i, Case& c) {
  static const double fs[] = {0, gh::WGS84_F, 0.01, -0.01, 0.02, -0.02, 0.1, -0.1, 0.5, -1.0};     // 0.01: Newton-correction switch
  static const double lats[] = {90, -90, 0, -0.0, 45, -30, 89.99999999, -89.999999999999};
  static const double azis[] = {0, -0.0, 90, -90, 180, -180, 45, 135, -135, 1e-10, 90 - 1e-10, 179.9999999999};
  static const double arcs[] = {0, -0.0, 90, -90, 180, -180, 270, 360, -360, 540, 720, 1e-9, 179.999999, 180.000001, 3600.5};
  const uint64_t nf = 10, nl = 8, na = 12, nr = 15;
  if (i >= nf * nl * na * nr * 2) return false;
  c.arcmode = i % 2; i /= 2;
  double arc = arcs[i % nr]; i /= nr; c.azi1 = azis[i % na]; i /= na; c.lat1 = lats[i % nl]; i /= nl;
  c.e.f = fs[i % nf]; c.e.a = gh::WGS84_A; c.e.series_ok = std::fabs(c.e.f) <= 0.2; c.e.bucket = "directed";
  c.lon1 = (i % 3 == 0) ? 0 : (i % 3 == 1 ? 180 : -179.5);
  c.len = c.arcmode ? arc : arc * (M_PI / 180) * c.e.a * (1 - c.e.f);
  c.cls = "directed/f=" + std::to_string(c.e.f) + (c.arcmode ? "/arc" : "/dist");
  return true;
}

struct Out { double a12, lat2, lon2, azi2, s12; };

static void judge(Ctx& c, const Case& k, const char* solver, double tol, const Out& o, const ref::GeodPos<q128>& P, const gh::Solvers& S, bool unroll) {
  const ref::Ell<q128>& E = S.E;
  double scale = k.arcmode ? std::max(1.0, std::fabs(k.len) / 180) : std::max(1.0, std::fabs(k.len) / (M_PI * S.b));
  double boa = 1 - k.e.f;
  double T = (solver[0] == 's' ? K_SERIES : (boa < 1.0 / 16 || boa > 16 ? K_EXACT_EXTREME : K_EXACT)) * tol * scale;
  // with LONG_UNROLL lon2 = lon1 + lon12 is rounded to a double near |lon1|: allow that rounding
  double Tu = T + (unroll ? 1.5 * ref::ulp_d(o.lon2) * (M_PI / 180) * k.e.a : 0);
  J w = J().f("a", k.e.a).f("f", k.e.f).f("lat1", k.lat1).f("lon1", k.lon1).f("azi1", k.azi1).b("arcmode", k.arcmode).f("len", k.len).str("solver", solver);
  auto bad = [&](const char* what, double err) {
    c.viol(std::string("oracle:C01/") + solver + "/" + what, k.cls, J(w).f("err_m", err).f("tol_m", T).f("lat2", o.lat2).f("lon2", o.lon2).f("azi2", o.azi2).f("s12", o.s12).f("a12", o.a12)
           .str("ref_lat2", ref::qstr(P.lat2, 22)).str("ref_lon12", ref::qstr(P.lon12, 22)).str("ref_azi2", ref::qstr(P.azi2, 22)).str("ref_s12", ref::qstr(P.s12, 22)).str("ref_a12", ref::qstr(P.a12, 22)));
  };
  if (!(std::isfinite(o.lat2) && std::isfinite(o.lon2) && std::isfinite(o.azi2) && std::isfinite(o.s12) && std::isfinite(o.a12))) { bad("non-finite-output", HUGE_VAL); return; }
  // position error (chord on the ellipsoid surface; pole safe)
  q128 X1[3], X2[3];
  ref::to_xyz<q128>(E, o.lat2, o.lon2, X1);
  ref::to_xyz<q128>(E, P.lat2, (q128)k.lon1 + P.lon12, X2);
  double epos = (double)ref::dist3(X1, X2);
  // forward azimuth, the author's measure: azimuth difference corrected for meridian convergence
  // (pole safe: at a pole only azi -+ lon is defined), times the equatorial radius
  double edir;
  {
    q128 dalp = ref::remainder((q128)o.azi2 - P.azi2, (q128)360) * ref::deg<q128>();
    q128 dlam = ref::remainder((q128)o.lon2 - ((q128)k.lon1 + P.lon12), (q128)360) * ref::deg<q128>();
    q128 sphi = ref::sin(P.lat2 * ref::deg<q128>());
    edir = (double)(ref::fabs(ref::sin(dalp) * ref::cos(dlam) - ref::cos(dalp) * ref::sin(dlam) * sphi) * E.a);
  }
  // at an end point on a pole (cos lat2 ~ 0) lon2 and azi2 are individually conventional, the 3-D direction is not
  double elen = k.arcmode ? (double)ref::fabs((q128)o.s12 - P.s12) : (double)(ref::fabs((q128)o.a12 - P.a12) * ref::deg<q128>() * E.b * P.w2);
  std::string sv = solver, eb = k.e.bucket;
  c.obs("position error / tolerance [" + sv + "]", epos / Tu, J(w).f("err_m", epos));
  c.obs("azimuth error*a / tolerance [" + sv + "]", edir / Tu, J(w).f("err_m", edir));
  c.obs("length error / tolerance [" + sv + "]", elen / T, J(w).f("err_m", elen));
  c.obs("position error [nm] " + sv + " " + eb, epos * 1e9 / scale * gh::WGS84_A / k.e.a);
  if (epos > Tu) bad("position", epos);
  if (edir > Tu) bad("azimuth", edir);
  if (elen > T) bad(k.arcmode ? "s12" : "a12", elen);
  if (!(std::fabs(o.azi2) <= 180)) bad("azi2-range", std::fabs(o.azi2));
  if (!(std::fabs(o.lat2) <= 90)) bad("lat2-range", std::fabs(o.lat2));
  if (!unroll) { if (!(std::fabs(o.lon2) <= 180)) bad("lon2-range", std::fabs(o.lon2)); }
  else {
    // lon2 - lon1 counts the true number and sense of circuits
    q128 d = ((q128)o.lon2 - (q128)k.lon1) - P.lon12;        // degrees
    double circuits = (double)ref::round(d / 360);
    double cosl = (double)(P.cbet2);                           // ~ cos(lat2)
    double roundoff = 4 * (ref::ulp_d(std::fabs(k.lon1) + (double)ref::fabs(P.lon12)));     // lon2 = lon1 + lon12 is rounded to double
    double eun = (double)(ref::fabs(d - 360 * circuits) - roundoff) * (M_PI / 180) * (double)E.a * std::fabs(cosl);
    bool pole_or_meridian = (double)ref::fabs(P.salp2) < 1e-300;
    if (!pole_or_meridian) {
      c.event("unrolled longitudes judged");
      if (circuits != 0) bad("unroll-circuit-count", circuits);
      else if (eun > T) bad("unroll-lon2", eun);
    }
  }
}

template <class G> static Out call_direct(const G& g, const Case& k, unsigned extra) {
  Out o; double m12, M12, M21, S12;
  o.a12 = g.GenDirect(k.lat1, k.lon1, k.azi1, k.arcmode, k.len, G::ALL | extra, o.lat2, o.lon2, o.azi2, o.s12, m12, M12, M21, S12);
  if (k.arcmode) o.a12 = k.len;
  return o;
}
template <class L> static Out call_line(const L& l, const Case& k, unsigned extra) {
  Out o; double m12, M12, M21, S12;
  o.a12 = l.GenPosition(k.arcmode, k.len, L::ALL | extra, o.lat2, o.lon2, o.azi2, o.s12, m12, M12, M21, S12);
  if (k.arcmode) o.a12 = k.len;
  return o;
}

static void run_case(Ctx& c, const Case& k, bool trivial) {
  uint64_t h = vh::hmix(vh::hmix(vh::hmix(vh::hmix(vh::hmix(vh::hmix(7, k.e.a), k.e.f), k.lat1), k.lon1), k.azi1), k.len) ^ (k.arcmode ? 1 : 0);
  c.count(k.cls, h, trivial);
  if (c.want_sample(k.cls)) c.sample(k.cls, J().f("a", k.e.a).f("f", k.e.f).f("lat1", k.lat1).f("lon1", k.lon1).f("azi1", k.azi1).b("arcmode", k.arcmode).f("len", k.len));
  gh::Solvers& S = gh::solvers(k.e.a, k.e.f, k.e.series_ok);
  ref::GeodLine<q128> L(S.E, (q128)k.lat1, (q128)k.azi1, std::signbit(k.azi1));
  ref::GeodPos<q128> P = k.arcmode ? L.at_arc((q128)k.len) : L.at_dist((q128)k.len);
  bool unroll = c.rng.coin();
  unsigned ex = unroll ? unsigned(Geodesic::LONG_UNROLL) : 0u;
  if (k.e.series_ok) {
    judge(c, k, "series", S.tol_series, call_direct(*S.series, k, ex), P, S, unroll);
    GeodesicLine l = S.series->Line(k.lat1, k.lon1, k.azi1);
    judge(c, k, "series-line", S.tol_series, call_line(l, k, ex), P, S, unroll);
    c.event("series solver calls judged", 2);
  }
  judge(c, k, "exact", S.tol_exact, call_direct(*S.exact, k, ex), P, S, unroll);
  judge(c, k, "exact-delegating", S.tol_exact, call_direct(*S.delegating, k, ex), P, S, unroll);
  GeodesicLineExact le = S.exact->Line(k.lat1, k.lon1, k.azi1);
  judge(c, k, "exact-line", S.tol_exact, call_line(le, k, ex), P, S, unroll);
  GeodesicLine ld = S.delegating->Line(k.lat1, k.lon1, k.azi1);
  judge(c, k, "exact-delegating-line", S.tol_exact, call_line(ld, k, ex), P, S, unroll);
  c.event("exact solver calls judged", 4);
  // the simple overloads (Direct / ArcDirect) are thin wrappers: same values as GenDirect
  {
    double lat2, lon2, azi2, x;
    if (k.e.series_ok) {
      if (k.arcmode) S.series->ArcDirect(k.lat1, k.lon1, k.azi1, k.len, lat2, lon2, azi2, x);
      else x = S.series->Direct(k.lat1, k.lon1, k.azi1, k.len, lat2, lon2, azi2);
      Out o = call_direct(*S.series, k, 0);
      if (!(vh::same_bits(lat2, o.lat2) && vh::same_bits(lon2, o.lon2) && vh::same_bits(azi2, o.azi2)))
        c.viol("law:C01/series/overload-differs-from-GenDirect", k.cls, J().f("lat1", k.lat1).f("azi1", k.azi1).f("len", k.len));
    }
  }
}

static void sec_directed(Ctx& c, uint64_t i) { Case k; if (directed(i, k)) run_case(c, k, false); }
static void sec_random(Ctx& c, uint64_t) { Case k = gen(c.rng); run_case(c, k, false); }

// several positions along one line, specified both by distance and by the corresponding arc
static void sec_line(Ctx& c, uint64_t) {
  Case k = gen(c.rng); k.cls = "line-walk/" + k.e.bucket;
  gh::Solvers& S = gh::solvers(k.e.a, k.e.f, k.e.series_ok);
  ref::GeodLine<q128> L(S.E, (q128)k.lat1, (q128)k.azi1, std::signbit(k.azi1));
  GeodesicLineExact le = S.exact->Line(k.lat1, k.lon1, k.azi1);
  std::unique_ptr<GeodesicLine> ls; if (k.e.series_ok) ls.reset(new GeodesicLine(S.series->Line(k.lat1, k.lon1, k.azi1)));
  c.count(k.cls, vh::hmix(vh::hmix(vh::hmix(11, k.e.f), k.lat1), k.azi1));
  for (int j = 0; j < 4; ++j) {
    Case kk = k; std::string cn; kk.arcmode = j & 1; kk.len = pick_len(c.rng, kk.arcmode, S.b, cn); kk.cls = k.cls;
    ref::GeodPos<q128> P = kk.arcmode ? L.at_arc((q128)kk.len) : L.at_dist((q128)kk.len);
    judge(c, kk, "exact-line", S.tol_exact, call_line(le, kk, 0), P, S, false);
    if (ls) judge(c, kk, "series-line", S.tol_series, call_line(*ls, kk, 0), P, S, false);
    c.event("line positions judged", ls ? 2 : 1);
  }
}

// ---- arc-length periodicity law (no oracle needed): on the auxiliary sphere latitude and azimuth depend on the arc
// length only through sin/cos(sigma), so lat2 and azi2 at a12 and at a12 + 360 N are the same numbers.  The library
// reduces the arc exactly in degrees, so for exactly representable a12 + 360 N the results agree to round-off for ANY
// number of circuits (this is what "arc length of any number of circuits" rests on); s12 advances by N circuits' length.
template <class L> static void periodic(Ctx& c, const L& l, const char* solver, const Case& k, double a12, double N, double tolm) {
  double b = a12 + 360 * N;
  if ((q128)b != (q128)a12 + (q128)360 * N) return;              // not exactly representable
  double la, lo, az, s, m, M1, M2, S, lb, lob, azb, sb;
  l.GenPosition(true, a12, L::ALL, la, lo, az, s, m, M1, M2, S);
  l.GenPosition(true, b, L::ALL, lb, lob, azb, sb, m, M1, M2, S);
  c.event("arc-periodicity pairs judged");
  double e1 = std::fabs(la - lb) * (M_PI / 180) * k.e.a * std::max(1.0, 1 - k.e.f), e2 = std::fabs(std::remainder(az - azb, 360.0)) * (M_PI / 180) * k.e.a * std::cos(la * M_PI / 180);
  double e = std::max(e1, e2);
  c.obs(std::string("arc-periodicity lat2/azi2 discrepancy / tolerance [") + solver + "]", e / tolm, J().f("f", k.e.f).f("lat1", k.lat1).f("azi1", k.azi1).f("a12", a12).f("N", N));
  if (e > tolm) c.viol(std::string("law:C01/") + solver + "/arc-periodicity", k.cls, J().f("a", k.e.a).f("f", k.e.f).f("lat1", k.lat1).f("lon1", k.lon1).f("azi1", k.azi1).f("a12", a12).f("N", N)
                       .f("lat2", la).f("lat2_shifted", lb).f("azi2", az).f("azi2_shifted", azb).f("err_m", e).f("tol_m", tolm));
}
static void sec_periodic(Ctx& c, uint64_t) {
  Case k = gen(c.rng); k.cls = "arc-periodicity/" + k.e.bucket;
  gh::Solvers& S = gh::solvers(k.e.a, k.e.f, k.e.series_ok);
  c.count(k.cls, vh::hmix(vh::hmix(vh::hmix(17, k.e.f), k.lat1), k.azi1));
  double a12 = c.rng.coin(0.3) ? 90.0 * c.rng.range(-8, 8) : std::ldexp(std::floor(c.rng.uniform(-360, 360) * 1024), -10);   // few mantissa bits
  double N = std::floor(c.rng.logu(1, 1e6)) * c.rng.sign();
  // tolerance: the documented accuracy for ONE circuit (the shift itself must cost nothing)
  GeodesicLineExact le = S.exact->Line(k.lat1, k.lon1, k.azi1);
  periodic(c, le, "exact-line", k, a12, N, K_EXACT * S.tol_exact);
  GeodesicLine ld = S.delegating->Line(k.lat1, k.lon1, k.azi1);
  periodic(c, ld, "exact-delegating-line", k, a12, N, K_EXACT * S.tol_exact);
  if (k.e.series_ok) { GeodesicLine ls = S.series->Line(k.lat1, k.lon1, k.azi1); periodic(c, ls, "series-line", k, a12, N, K_SERIES * S.tol_series); }
}

// ---- oracle self-validation: quadrature formulation vs ODE formulation (never a verdict on the library)
static void sec_selftest(Ctx& c, uint64_t) {
  vh::Rng& r = c.rng;
  static const double fl[] = {0, gh::WGS84_F, 0.02, -0.02, 0.1, -0.1, 0.2, 0.5, -1.0};
  double f = r.pick(fl), a = 6.4e6;
  ref::Ell<long double> E(a, f);
  // keep the geodesic away from the poles: |alp0| >= 20 deg
  double lat1 = r.uniform(-60, 60), azi1 = r.sign() * r.uniform(25, 155), s12 = r.uniform(-1, 1) * 1.5e7;
  long double sb = (1 - f) * std::sin(lat1 * M_PI / 180), cb = std::cos(lat1 * M_PI / 180), hb = std::hypot(sb, cb);
  if (std::fabs(std::sin(azi1 * M_PI / 180)) * (double)(cb / hb) < 0.34) return;
  ref::GeodLine<long double> L(E, lat1, azi1);
  ref::GeodPos<long double> P = L.at_dist(s12), Q = ref::GeodOde<long double>(E).direct(lat1, azi1, s12, 1500);
  c.count("selftest/ref_geod-vs-ode", vh::hmix(vh::hmix(vh::hmix(13, f), lat1), azi1), true);
  double e1 = (double)std::fabs(P.lat2 - Q.lat2) * M_PI / 180 * a, e2 = (double)std::fabs(P.lon12 - Q.lon12) * M_PI / 180 * a, e3 = (double)std::fabs(P.azi2 - Q.azi2) * M_PI / 180 * a,
    e4 = (double)std::fabs(P.m12 - Q.m12), e5 = (double)std::fabs(P.M12 - Q.M12) * a, e6 = (double)std::fabs(P.M21 - Q.M21) * a, e7 = (double)std::fabs(P.S12 - Q.S12) / a;
  double em = std::max(std::max(std::max(e1, e2), std::max(e3, e4)), std::max(std::max(e5, e6), e7));
  c.obs("selftest: ref_geod (quadrature) vs ODE formulation, max discrepancy [m]", em, J().f("f", f).f("lat1", lat1).f("azi1", azi1).f("s12", s12));
  if (!(em < 2e-8)) c.herr("oracle self-test failed: quadrature and ODE geodesics disagree by " + std::to_string(em) + " m (f=" + std::to_string(f) + ")");
  // two precisions of the quadrature formulation agree
  ref::Ell<q128> Eq(a, f); ref::GeodLine<q128> Lq(Eq, (q128)lat1, (q128)azi1); ref::GeodPos<q128> Pq = Lq.at_dist((q128)s12);
  double ep = (double)(ref::fabs(Pq.lat2 - (q128)P.lat2) + ref::fabs(Pq.lon12 - (q128)P.lon12) + ref::fabs(Pq.azi2 - (q128)P.azi2)) * M_PI / 180 * a
    + (double)ref::fabs(Pq.m12 - (q128)P.m12) + (double)ref::fabs(Pq.S12 - (q128)P.S12) / a;
  c.obs("selftest: ref_geod float128 vs long double [m]", ep);
  if (!(ep < 1e-9)) c.herr("oracle self-test failed: float128 and long double quadrature disagree by " + std::to_string(ep));
  // quadrature convergence on extreme ellipsoids: halving the panel width must not change the answer
  {
    static const double fx[] = {0.99, 0.9, -9, -99, 0.5, -1};
    double f2 = r.pick(fx), la = r.uniform(-89, 89), az = r.uniform(-180, 180), len = r.uniform(-3, 3) * 6.4e6 * std::max(1.0, 1 - f2);
    ref::Ell<q128> E2(6.4e6, f2); ref::GeodLine<q128> A(E2, (q128)la, (q128)az), B(E2, (q128)la, (q128)az); B.wmax /= 2;
    ref::GeodPos<q128> PA = A.at_dist((q128)len), PB = B.at_dist((q128)len);
    double ec = (double)(ref::fabs(PA.lat2 - PB.lat2) + ref::fabs(PA.lon12 - PB.lon12) + ref::fabs(PA.azi2 - PB.azi2)) * M_PI / 180 * 6.4e6 * std::max(1.0, 1 - f2)
      + (double)ref::fabs(PA.m12 - PB.m12) + (double)ref::fabs(PA.S12 - PB.S12) / 6.4e6 + (double)ref::fabs(PA.a12 - PB.a12) * 1e7;
    c.obs("selftest: ref_geod panel-halving discrepancy on extreme ellipsoids [m]", ec, J().f("f", f2).f("lat1", la).f("azi1", az).f("s12", len));
    if (!(ec < 1e-12)) c.herr("oracle self-test failed: quadrature not converged on extreme ellipsoid, discrepancy " + std::to_string(ec));
  }
}

int main(int argc, char** argv) {
  std::vector<Section> S;
  S.push_back({"selftest", 300, 3000, false, sec_selftest, 120});
  S.push_back({"directed", 28800, 28800, false, sec_directed, 60});
  S.push_back({"random", 40000, 3000000, true, sec_random, 60});
  S.push_back({"line", 5000, 300000, true, sec_line, 60});
  S.push_back({"periodic", 20000, 1000000, true, sec_periodic, 60});
  return vh::run_sections(argc, argv, S);
}
