// C19, part 2 (included by C19.cpp): SphericalHarmonic / SphericalHarmonic1 / SphericalHarmonic2 / CircularEngine vs REF
#pragma once

static int pick_degree(Ctx& c) {
  vh::Rng& r = c.rng;
  // mostly N <= 60; big degrees are fewer (REF cost ~ N^2 float128 operations)
  double u = r.u();
  if (c.quick()) {
    if (u < 0.002) return 360;
    if (u < 0.007) return 200;
    if (u < 0.07) return 60;
    if (u < 0.25) return 20;
  } else {
    if (u < 0.004) return 360;
    if (u < 0.012) return 200;
    if (u < 0.09) return 60;
    if (u < 0.27) return 20;
  }
  static const int lo[] = {0, 1, 2, 3, 8, 8, 3, 2};
  return r.pick(lo);
}

struct Variant {
  std::string name; int nmx, mmx; std::vector<Q> C, S, CA, SA;      // dense REF coefficients and the magnitudes of their parts
  std::function<double(double, double, double)> val;
  std::function<double(double, double, double, double&, double&, double&)> grad;
  std::function<CircularEngine(double, double, bool)> circle;
};

static void report_sh(Ctx& c, const std::string& cls, const std::string& what, const Judge& j, const ref::HarmResult& o, const AxisAllow& al, Q q,
                      const J& wit, double Kv, double Kg, bool denormp, const std::string& coefst) {
  if (j.skip) { c.event("sh: REF magnitude outside double range (not judged)"); return; }
  bool under = scaled_underflow(o, q, &al);
  c.obs("sh " + what + " value err [eps*sum(n+1)|term|]" + (under ? " (internal scaling subnormal)" : denormp ? " (denormal p)" : ""), j.ev, wit);
  c.obs("sh " + what + " gradient err [eps*sum(n+2)|grad term|]" + (under ? " (internal scaling subnormal)" : denormp ? " (denormal p)" : ""), j.eg, wit);
  if (!under && !denormp) {
    c.obs("sh value err, coefficient style " + coefst + " [eps*sum(n+1)|term|]", j.ev);
    c.obs("sh gradient err, coefficient style " + coefst + " [eps*sum(n+2)|grad term|]", j.eg);
  }
  if (!(j.ev <= Kv))
    c.viol(under ? KEY_UNDER : denormp ? KEY_DENORMP : std::string("oracle:C19/sh/value"), cls, J(wit).str("what", what).f("err_over_eps_scale", j.ev).f("tol_abs", j.tolV * Kv).str("ref_V", qs(o.V)).str("sum_abs", qs(o.sabs)));
  if (!(j.eg <= Kg))
    c.viol(under ? KEY_UNDER : denormp ? KEY_DENORMP : std::string("oracle:C19/sh/gradient"), cls,
           J(wit).str("what", what).f("err_over_eps_scale", j.eg).f("tol_abs", j.tolG * Kg).str("ref_gx", qs(o.gx)).str("ref_gy", qs(o.gy)).str("ref_gz", qs(o.gz)));
}

static void sec_sh(Ctx& c, uint64_t idx) {
  vh::Rng& r = c.rng;
  int N = pick_degree(c);
  if (idx < 18) { static const int lad[] = {0, 1, 2, 3, 8, 20, 60, 200, 360}; N = lad[idx % 9]; }   // every degree of the ladder x both normalisations, every run
  set_degree_factor(N);
  unsigned norm = idx < 18 ? (unsigned)(idx / 9) : (unsigned)r.below(2);
  ref::HarmNorm rn = norm == SphericalHarmonic::FULL ? ref::HARM_FULL : ref::HARM_SCHMIDT;
  const char* nname = norm == SphericalHarmonic::FULL ? "full" : "schmidt";
  double a = r.coin(0.4) ? 1.0 : r.coin(0.5) ? 6378137.0 : r.logu(1e-3, 1e9);
  int style = (int)r.below(CS_NSTYLES); if (r.coin(0.35)) style = CS_DECAY;
  bool big = N >= 200;
  Packed P0(N); fill_coeffs(r, P0, style);
  // second and third coefficient sets for the 1- and 2-forms (smaller degree allowed)
  int N1 = r.coin(0.3) ? N : r.range(0, N), N2 = r.coin(0.3) ? N : r.range(0, N);
  Packed P1(N1), P2(N2);
  int st1 = style == CS_HUGE || style == CS_TINY ? style : (r.coin() ? CS_DECAY : CS_FLAT);
  fill_coeffs(r, P1, st1); fill_coeffs(r, P2, st1);
  static const double taus[] = {0, 1, -1, 0.5, 4.25, -1e3, 1e-3};
  double tau1 = r.coin(0.5) ? r.pick(taus) : r.uniform(-10, 10), tau2 = r.coin(0.5) ? r.pick(taus) : r.uniform(-10, 10);
  int nmx = r.range(0, N), mmx = r.range(0, nmx);
  if (N > 0 && r.coin(0.5)) { nmx = r.range(0, N - 1); mmx = nmx > 0 ? r.range(0, nmx - 1) : 0; }     // strictly truncated
  if (r.coin(0.1)) nmx = mmx = -1;                                                                     // empty sum
  int nmx1 = std::min(nmx, r.range(-1, N1)), mmx1 = nmx1 < 0 ? -1 : std::min(mmx, r.range(0, nmx1));
  if (nmx1 < 0 || mmx1 < 0) nmx1 = mmx1 = -1;
  int nmx2 = std::min(nmx, r.range(-1, N2)), mmx2 = nmx2 < 0 ? -1 : std::min(mmx, r.range(0, nmx2));
  if (nmx2 < 0 || mmx2 < 0) nmx2 = mmx2 = -1;

  size_t D = (size_t)ref::tri(N, N) + 1;
  std::vector<Variant> V;
  std::unique_ptr<SphericalHarmonic> hfull, htr; std::unique_ptr<SphericalHarmonic1> h1, h1t; std::unique_ptr<SphericalHarmonic2> h2, h2t;
  try {
    hfull.reset(new SphericalHarmonic(P0.C, P0.S, N, a, norm));
    htr.reset(new SphericalHarmonic(P0.C, P0.S, N, nmx, mmx, a, norm));
    h1.reset(new SphericalHarmonic1(P0.C, P0.S, N, P1.C, P1.S, N1, a, norm));
    h1t.reset(new SphericalHarmonic1(P0.C, P0.S, N, nmx, mmx, P1.C, P1.S, N1, nmx1, mmx1, a, norm));
    h2.reset(new SphericalHarmonic2(P0.C, P0.S, N, P1.C, P1.S, N1, P2.C, P2.S, N2, a, norm));
    h2t.reset(new SphericalHarmonic2(P0.C, P0.S, N, nmx, mmx, P1.C, P1.S, N1, nmx1, mmx1, P2.C, P2.S, N2, nmx2, mmx2, a, norm));
  } catch (const GeographicErr& e) {
    c.viol("law:C19/sh/constructor-rejects-valid-arguments", "sh/construct",
           J().i("N", N).i("nmx", nmx).i("mmx", mmx).i("N1", N1).i("nmx1", nmx1).i("mmx1", mmx1).i("N2", N2).i("nmx2", nmx2).i("mmx2", mmx2).str("what", e.what()));
    return;
  }
  auto mk = [&](const std::string& nm, int nx, int mx) { Variant v; v.name = nm; v.nmx = nx; v.mmx = mx; v.C.assign(D, 0); v.S.assign(D, 0); v.CA.assign(D, 0); v.SA.assign(D, 0); return v; };
  {
    Variant v = mk("full", N, N); add_dense(v.C, v.S, N, P0, N, N, 1, &v.CA, &v.SA);
    SphericalHarmonic* h = hfull.get();
    v.val = [h](double x, double y, double z) { return (*h)(x, y, z); };
    v.grad = [h](double x, double y, double z, double& gx, double& gy, double& gz) { return (*h)(x, y, z, gx, gy, gz); };
    v.circle = [h](double p, double z, bool g) { return h->Circle(p, z, g); };
    V.push_back(std::move(v));
  }
  int nv = big ? 1 : 5;      // how many of the other variants to run
  std::vector<int> order = {1, 2, 3, 4, 5};
  for (int i = 4; i > 0; --i) std::swap(order[i], order[r.below(i + 1)]);
  for (int oi = 0; oi < nv; ++oi) switch (order[oi]) {
    case 1: {
      Variant v = mk("truncated", nmx, mmx); add_dense(v.C, v.S, N, P0, nmx, mmx, 1, &v.CA, &v.SA);
      SphericalHarmonic* h = htr.get();
      v.val = [h](double x, double y, double z) { return (*h)(x, y, z); };
      v.grad = [h](double x, double y, double z, double& gx, double& gy, double& gz) { return (*h)(x, y, z, gx, gy, gz); };
      v.circle = [h](double p, double z, bool g) { return h->Circle(p, z, g); };
      V.push_back(std::move(v)); break; }
    case 2: {
      Variant v = mk("sh1", N, N); add_dense(v.C, v.S, N, P0, N, N, 1, &v.CA, &v.SA); add_dense(v.C, v.S, N, P1, N1, N1, (Q)tau1, &v.CA, &v.SA);
      SphericalHarmonic1* h = h1.get(); double t = tau1;
      v.val = [h, t](double x, double y, double z) { return (*h)(t, x, y, z); };
      v.grad = [h, t](double x, double y, double z, double& gx, double& gy, double& gz) { return (*h)(t, x, y, z, gx, gy, gz); };
      v.circle = [h, t](double p, double z, bool g) { return h->Circle(t, p, z, g); };
      V.push_back(std::move(v)); break; }
    case 3: {
      Variant v = mk("sh1-truncated", nmx, mmx); add_dense(v.C, v.S, N, P0, nmx, mmx, 1, &v.CA, &v.SA); add_dense(v.C, v.S, N, P1, nmx1, mmx1, (Q)tau1, &v.CA, &v.SA);
      SphericalHarmonic1* h = h1t.get(); double t = tau1;
      v.val = [h, t](double x, double y, double z) { return (*h)(t, x, y, z); };
      v.grad = [h, t](double x, double y, double z, double& gx, double& gy, double& gz) { return (*h)(t, x, y, z, gx, gy, gz); };
      v.circle = [h, t](double p, double z, bool g) { return h->Circle(t, p, z, g); };
      V.push_back(std::move(v)); break; }
    case 4: {
      Variant v = mk("sh2", N, N); add_dense(v.C, v.S, N, P0, N, N, 1, &v.CA, &v.SA); add_dense(v.C, v.S, N, P1, N1, N1, (Q)tau1, &v.CA, &v.SA); add_dense(v.C, v.S, N, P2, N2, N2, (Q)tau2, &v.CA, &v.SA);
      SphericalHarmonic2* h = h2.get(); double t = tau1, t2 = tau2;
      v.val = [h, t, t2](double x, double y, double z) { return (*h)(t, t2, x, y, z); };
      v.grad = [h, t, t2](double x, double y, double z, double& gx, double& gy, double& gz) { return (*h)(t, t2, x, y, z, gx, gy, gz); };
      v.circle = [h, t, t2](double p, double z, bool g) { return h->Circle(t, t2, p, z, g); };
      V.push_back(std::move(v)); break; }
    default: {
      Variant v = mk("sh2-truncated", nmx, mmx); add_dense(v.C, v.S, N, P0, nmx, mmx, 1, &v.CA, &v.SA); add_dense(v.C, v.S, N, P1, nmx1, mmx1, (Q)tau1, &v.CA, &v.SA); add_dense(v.C, v.S, N, P2, nmx2, mmx2, (Q)tau2, &v.CA, &v.SA);
      SphericalHarmonic2* h = h2t.get(); double t = tau1, t2 = tau2;
      v.val = [h, t, t2](double x, double y, double z) { return (*h)(t, t2, x, y, z); };
      v.grad = [h, t, t2](double x, double y, double z, double& gx, double& gy, double& gz) { return (*h)(t, t2, x, y, z, gx, gy, gz); };
      v.circle = [h, t, t2](double p, double z, bool g) { return h->Circle(t, t2, p, z, g); };
      V.push_back(std::move(v)); break; }
  }
  c.event(std::string("sh coefficient style ") + coefstyle_name[style]);

  int npts = big ? 1 : N >= 60 ? 2 : 3;
  for (int ip = 0; ip < npts; ++ip) {
    Pt p = gen_point(r, a, N, idx < 18 ? (int)((idx / 2 + ip) % PT_NSTYLES) : -1);
    RefEval R(p.x, p.y, p.z, N, rn);
    Q q = (Q)a / R.g.r;
    bool denormp = R.g.p < (Q)DMIN && R.g.p > 0;
    c.event(std::string("sh point style ") + ptstyle_name[p.style]);
    for (size_t iv = 0; iv < V.size(); ++iv) {
      Variant& v = V[iv];
      std::string cls = std::string("sh/") + v.name + "/" + nname + "/" + nbucket(N) + "/" + ptstyle_name[p.style];
      uint64_t h = vh::hmix(vh::hmix(vh::hmix(vh::hmix(vh::hmix((uint64_t)(N * 131 + norm), p.x), p.y), p.z), (uint64_t)(v.nmx * 1000 + v.mmx)), (uint64_t)style * 7 + iv);
      h = vh::hmix(h, P0.C[P0.C.size() / 2]);
      AxisAllow al; ref::HarmResult o = R.sum(a, v.C, v.S, v.nmx, v.mmx, al, &v.CA, &v.SA);
      J wit = J().i("N", N).str("norm", nname).f("a", a).str("coef_style", coefstyle_name[style]).i("nmx", v.nmx).i("mmx", v.mmx).f("x", p.x).f("y", p.y).f("z", p.z)
                 .f("tau1", tau1).f("tau2", tau2).i("N1", N1).i("N2", N2);
      bool trivial = v.nmx < 0;
      c.count(cls, h, trivial);
      if (c.want_sample(cls)) c.sample(cls, wit);
      double gx = vh::sentinel(1), gy = vh::sentinel(2), gz = vh::sentinel(3);
      double Vv = v.val(p.x, p.y, p.z), Vg = v.grad(p.x, p.y, p.z, gx, gy, gz);
      if (vh::is_sentinel(gx, 1) || vh::is_sentinel(gy, 2) || vh::is_sentinel(gz, 3))
        c.viol("sentinel:C19/sh/gradient-not-written", cls, wit);
      // the value must not depend on whether the gradient was requested (identical arithmetic)
      if (!(vh::same_bits(Vv, Vg) || (std::isnan(Vv) && std::isnan(Vg))))
        c.viol("law:C19/sh/value-differs-with-gradient-request", cls, J(wit).f("V_value_only", Vv).f("V_with_gradient", Vg));
      Judge j = judge(o, al, Vg, gx, gy, gz, true);
      if (c.only)
        std::fprintf(stderr, "%s: lib V=%.17g g=(%.17g,%.17g,%.17g)\n   ref V=%s g=(%s,%s,%s) sabs_n=%s gabs_n=%s ev=%g eg=%g\n", cls.c_str(), Vg, gx, gy, gz,
                     qs(o.V).c_str(), qs(o.gx).c_str(), qs(o.gy).c_str(), qs(o.gz).c_str(), qs(o.sabs_n).c_str(), qs(o.gabs_n).c_str(), j.ev, j.eg);
      report_sh(c, cls, "direct", j, o, al, q, wit, K_V, K_G, denormp, coefstyle_name[style]);

      // ---- gradient == derivative of the library's own value (central differences): first point, one variant
      if (ip == 0 && iv == (size_t)(idx % V.size()) && !j.skip && !denormp && !scaled_underflow(o, q, &al) && dq(o.gabs_n) > 0 && R.g.u >= (Q)1e-3) {
        // horizontal derivatives of order-m terms carry a factor m/(r u): shrink the step towards the axis, and
        // scale the truncation bound by 1/u^2; closer to the axis than sin(theta) = 1e-3 a finite step cannot resolve u^m, REF is the only judge there
        double rr = dq(R.g.r), uu = std::max(dq(R.g.u), 1e-300), hh = rr * 6e-6 * std::min(1.0, std::max(uu, 1e-2)), amp = 1 / std::min(1.0, uu * uu);
        double pc[3] = {p.x, p.y, p.z}, g[3] = {gx, gy, gz}, worst = 0;
        for (int ax = 0; ax < 3; ++ax) {
          double pp[3] = {pc[0], pc[1], pc[2]}, pm[3] = {pc[0], pc[1], pc[2]}; pp[ax] += hh; pm[ax] -= hh;
          double d = (v.val(pp[0], pp[1], pp[2]) - v.val(pm[0], pm[1], pm[2])) / (pp[ax] - pm[ax]);
          // truncation h^2/6 |V(3)| <= (h/r)^2 (N+3)/6 * sum (n+2)|grad term| ; round-off of the two values K_V eps sum(n+1)|term| / h
          double tol = 4 * ((hh / rr) * (hh / rr) * amp * (N + 3) / 6 * dq(o.gabs_n) + K_V * EPS * dq(o.sabs_n) / hh) + 4 * K_G * EPS * dq(o.gabs_n);
          worst = std::max(worst, std::fabs(d - g[ax]) / tol);
        }
        c.obs("sh |gradient - central difference of library value| / tolerance", worst, wit);
        c.event("sh gradient-vs-central-difference checks");
        if (!(worst <= 1)) c.viol("law:C19/sh/gradient-is-not-derivative-of-value", cls, J(wit).f("ratio_to_tol", worst).f("gx", gx).f("gy", gy).f("gz", gz));
      }

      // ---- Circle object vs direct evaluation at the same longitudes (and vs REF at the first one)
      if (iv == (size_t)((idx / 3) % V.size()) && !j.skip) {
        double pp = std::hypot(p.x, p.y), zz = p.z;
        bool gradp = r.coin(0.75);
        CircularEngine ce = v.circle(pp, zz, gradp);
        int nl = 32;
        static const double speclon[] = {0, 90, 180, -90, -180, 45, 30, 360, 1e-300, -0.0};
        double worstv = 0, worstg = 0;
        for (int il = 0; il < nl; ++il) {
          double lon = il < 10 ? speclon[il] : r.uniform(-180, 180);
          if (il == 0 && pp > 0) lon = std::atan2(p.y, p.x) / Math::degree();
          double sl, cl; Math::sincosd(lon, sl, cl);
          double X = pp * cl, Y = pp * sl;
          double dgx = 0, dgy = 0, dgz = 0, Vd = v.grad(X, Y, zz, dgx, dgy, dgz);
          double cgx = vh::sentinel(4), cgy = vh::sentinel(5), cgz = vh::sentinel(6);
          double Vc = (il & 1) ? ce(lon, cgx, cgy, cgz) : ce(sl, cl, cgx, cgy, cgz);
          double Vc0 = (il & 2) ? ce(lon) : ce(sl, cl);
          if (!(vh::same_bits(Vc, Vc0) || (std::isnan(Vc) && std::isnan(Vc0))))
            c.viol("law:C19/circle/value-differs-with-gradient-request", cls, J(wit).f("lon", lon).f("V", Vc0).f("V_with_gradient", Vc));
          bool written = !(vh::is_sentinel(cgx, 4) && vh::is_sentinel(cgy, 5) && vh::is_sentinel(cgz, 6));
          if (!gradp && written) c.viol("sentinel:C19/circle/gradient-touched-without-capability", cls, J(wit).f("lon", lon));
          if (gradp && (vh::is_sentinel(cgx, 4) || vh::is_sentinel(cgy, 5) || vh::is_sentinel(cgz, 6))) c.viol("sentinel:C19/circle/gradient-not-written", cls, J(wit).f("lon", lon));
          // the scales do not depend on the longitude (|C|+|S| weighting)
          Q sv = (Q)EPS * o.sabs_n + al.dV + (Q)5e-324, sg = (Q)EPS * o.gabs_n + al.dG + (Q)5e-324;
          double ev = std::fabs(Vc - Vd) / dq(sv), eg = 0;
          if (gradp) eg = std::max(std::max(std::fabs(cgx - dgx), std::fabs(cgy - dgy)), std::fabs(cgz - dgz)) / dq(sg);
          if (std::isnan(ev)) ev = (std::isnan(Vc) && std::isnan(Vd)) || (Vc == Vd) ? 0 : INF;
          if (std::isnan(eg)) eg = INF;
          worstv = std::max(worstv, ev); worstg = std::max(worstg, eg);
          c.count(std::string("circle/") + v.name + "/" + nname + "/" + nbucket(N) + (gradp ? "/grad" : "/value-only"), vh::hmix(h, lon), trivial);
          if (il == 0 && pp > 0 && !denormp) {          // the circle against REF itself at the original point
            Judge jc = judge(o, al, Vc, gradp ? cgx : 0, gradp ? cgy : 0, gradp ? cgz : 0, gradp);
            report_sh(c, cls, "circle", jc, o, al, q, J(wit).f("lon", lon), K_V + 4, K_G + 4, denormp, coefstyle_name[style]);
          }
        }
        bool under = scaled_underflow(o, q, &al);
        c.obs(std::string("circle vs direct value [eps*sum(n+1)|term|]") + (under ? " (internal scaling subnormal)" : denormp ? " (denormal p)" : ""), worstv, wit);
        c.obs(std::string("circle vs direct gradient [eps*sum(n+2)|grad term|]") + (under ? " (internal scaling subnormal)" : denormp ? " (denormal p)" : ""), worstg, wit);
        if (!(worstv <= K_C)) c.viol(under ? KEY_UNDER : denormp ? KEY_DENORMP : std::string("law:C19/circle/value-differs-from-direct"), cls, J(wit).f("err_over_eps_scale", worstv).b("gradp", gradp));
        if (!(worstg <= K_C)) c.viol(under ? KEY_UNDER : denormp ? KEY_DENORMP : std::string("law:C19/circle/gradient-differs-from-direct"), cls, J(wit).f("err_over_eps_scale", worstg));
      }
    }
  }
}
