// C17 (B) — Intersect: Closest / Next / Segment / All.
// Monitors
//  (i)  MEMBERSHIP: the reference geodesic (oracle/ref_geod.hpp) evaluated along X by x and along Y by y must land on
//       the same point (3-D gap <= 10 x documented geodesic accuracy, scaled by path length).
//  (ii) COMPLETENESS / OPTIMALITY certificate, independent of the library's tiling: both lines are sampled every 20 km
//       over the whole L1 ball by an own Runge-Kutta integration of the geodesic ODE in Cartesian form, all sample pairs
//       closer than one step are found by spatial hashing, each is refined by a Newton iteration on the reference
//       geodesics (tangent-plane gap) -> the full list {(x,y)} of intersections in the ball.  Nearly parallel lines
//       (crossing angle < 1e-4) use a second finder: the signed cross-track offset of X(x) from the tracked branch of Y
//       is sampled and its sign changes are refined.  Closest must be the L1 minimum of the list, Next the minimum
//       excluding the origin, Segment the documented choice with the documented indicator, All the list itself (sorted
//       multiset).  L1 ties accept either.  Coincident lines are judged by c and membership only.
//  (iii) laws: lat/lon/azi overloads == GeodesicLine overloads bit for bit; All sorted by distance from p0; segmode is the
//       documented function of the returned point.
#include "harness/value_semantics.hpp"
#include <GeographicLib/Intersect.hpp>
#include <unordered_map>
#include "harness/geod_common.hpp"
#include "oracle/ref_exact.hpp"

using namespace GeographicLib;
using vh::Ctx; using vh::J; using vh::Section;
using gh::q128;
typedef long double ld;
static const double K_POS = 10.0;       // positions to 10 x tol(f)   (DESIGN.md C17)
static const double STEP = 20e3;        // sampling step of the certificate [m] (for a = WGS84_a)

// One key per KNOWN defect regime (decided from the inputs only): inside the regime every monitor reports under the regime key, the
// monitor's own key goes into the detail; outside it the normal keys apply.
static std::string g_regime_key;
struct RegimeGuard { explicit RegimeGuard(const std::string& k) { g_regime_key = k; } ~RegimeGuard() { g_regime_key.clear(); } };
static void VIOLX(Ctx& c, const std::string& key, const std::string& cls, const J& d) {
  if (g_regime_key.empty()) c.viol(key, cls, d); else c.viol(g_regime_key, cls, J(d).str("monitor", key)); }
// ------------------------------------------------------------------------------------------------ ellipsoids
struct EllCfg {
  std::string name; double a, f; bool exact; double tol, b, circ;
  std::unique_ptr<Geodesic> g; std::unique_ptr<Intersect> in; std::unique_ptr<ref::Ell<ld>> El; std::unique_ptr<ref::Ell<q128>> Eq;
};
static std::vector<EllCfg>& ells() {
  static std::vector<EllCfg> v;
  if (v.empty()) {
    struct S { const char* n; double a, f; bool ex; };
    static const S s[] = {{"wgs84", gh::WGS84_A, gh::WGS84_F, false}, {"sphere", gh::WGS84_A, 0, false}, {"f=+0.01", gh::WGS84_A, 0.01, false},
      {"f=-0.01", gh::WGS84_A, -0.01, false}, {"f=+0.1-exact", gh::WGS84_A, 0.1, true}, {"f=-0.1-exact", gh::WGS84_A, -0.1, true}};
    for (const S& e : s) {
      EllCfg c; c.name = e.n; c.a = e.a; c.f = e.f; c.exact = e.ex; c.b = e.a * (1 - e.f);
      double qm = gh::quarter_meridian(e.a, e.f);
      c.tol = e.ex ? gh::doc_exact(c.b / c.a) * qm / 1e7 : gh::doc_series(e.f) * e.a / gh::WGS84_A;
      c.circ = 2 * M_PI * std::max(c.a, c.b);
      c.g.reset(vh::detached_new<Geodesic>([&] { return Geodesic(e.a, e.f, e.ex); }, [&] { return Geodesic(e.a * 1.25, 0.015, false); }));      // detached copies: harness/value_semantics.hpp
      { std::unique_ptr<Geodesic> tmp(new Geodesic(e.a, e.f, e.ex)); c.in.reset(new Intersect(*tmp)); *tmp = Geodesic(e.a * 0.8, 0.012); }   // Intersect holds its own copy of the Geodesic
      c.El.reset(new ref::Ell<ld>((ld)e.a, (ld)e.f)); c.Eq.reset(new ref::Ell<q128>((q128)e.a, (q128)e.f));
      v.push_back(std::move(c));
    }
  }
  return v;
}
static EllCfg& pick_ell(vh::Rng& r) { static const int w[] = {0, 0, 0, 1, 2, 3, 4, 5}; return ells()[w[r.below(8)]]; }

// ------------------------------------------------------------------------------------------------ reference line
// Reference geodesic through (lat1, lon1, azi1) [doubles], evaluated at signed distance s: position and unit tangent in
// 3-D.  Long lines are evaluated from check points every HCHK metres (restarted reference geodesics), so the cost of
// one evaluation does not grow with |s|.
template <class T> struct RLine {
  const ref::Ell<T>* E; double lat1, lon1, azi1; T hchk;
  struct Chk { T lat, lon, azi; bool negz; };
  std::map<long, Chk> chk;
  RLine() : E(nullptr) {}
  RLine(const ref::Ell<T>& E_, double lat, double lon, double azi) : E(&E_), lat1(lat), lon1(lon), azi1(azi) {
    hchk = (T)5.0e6 * E_.a / (T)gh::WGS84_A;
    chk[0] = Chk{(T)lat, (T)lon, (T)azi, std::signbit(azi)};
  }
  const Chk& check(long k) {
    auto it = chk.find(k); if (it != chk.end()) return it->second;
    long kp = k > 0 ? k - 1 : k + 1; const Chk c0 = check(kp);
    ref::GeodLine<T> L(*E, c0.lat, c0.azi, c0.negz); ref::GeodPos<T> P = L.at_dist(k > 0 ? hchk : -hchk);
    Chk c; c.lat = P.lat2; c.lon = c0.lon + P.lon12; c.azi = P.azi2; c.negz = false;
    // at_dist may return |azi2| = 180 or 0 with the sign carried by sgn; GeodLine(azi) re-derives the sense from azi < 0,
    // so a west-going line with azi2 == -0 / -180 needs the flag
    if (P.azi2 == 0 || ref::fabs(P.azi2) == 180) c.negz = L.sgn < 0;
    return chk[k] = c;
  }
  // position X[3], unit tangent D[3], also lat/lon/azi (degrees) at distance s
  void eval(T s, T* X, T* D, T* lla = nullptr) {
    long k = (long)(double)ref::floor(s / hchk + (T)0.5);
    const Chk c0 = check(k);
    ref::GeodLine<T> L(*E, c0.lat, c0.azi, c0.negz); ref::GeodPos<T> P = L.at_dist(s - k * hchk);
    T lon = c0.lon + P.lon12;
    ref::to_xyz<T>(*E, P.lat2, lon, X);
    // tangent from (sbet2, cbet2, salp2, calp2): pole safe.  east = (-sin lon, cos lon, 0); north = (-sphi cl, -sphi sl, cphi)
    T sl, cl; ref::sincosd(lon, sl, cl);
    T sphi = P.sbet2, cphi = E->f1 * P.cbet2; { T h = ref::hypot(sphi, cphi); sphi /= h; cphi /= h; }
    T sa = P.salp2 * L.sgn, ca = P.calp2; { T h = ref::hypot(sa, ca); if (h == 0) { ref::sincosd(P.azi2, sa, ca); h = 1; } sa /= h; ca /= h; }
    D[0] = sa * (-sl) + ca * (-sphi * cl); D[1] = sa * cl + ca * (-sphi * sl); D[2] = ca * cphi;
    if (lla) { lla[0] = P.lat2; lla[1] = lon; lla[2] = P.azi2; }
  }
};
template <class T> static inline T dot3(const T* a, const T* b) { return a[0] * b[0] + a[1] * b[1] + a[2] * b[2]; }
template <class T> static inline void normal_at(const ref::Ell<T>& E, const T* X, T* n) {
  n[0] = X[0] / (E.a * E.a); n[1] = X[1] / (E.a * E.a); n[2] = X[2] / (E.b * E.b); T h = ref::sqrt(dot3(n, n)); n[0] /= h; n[1] /= h; n[2] /= h; }

// ------------------------------------------------------------------------------------------------ RK4 sampler (own ODE, double)
// geodesic on F = (X^2+Y^2)/a^2 + Z^2/b^2 - 1 = 0:  r'' = -(r'^T H r') / |grad F|^2 * grad F  (unit speed)
struct Sampler {
  double a2, b2;
  Sampler(double a, double b) : a2(a * a), b2(b * b) {}
  void acc(const double* r, const double* v, double* A) const {
    double g[3] = {2 * r[0] / a2, 2 * r[1] / a2, 2 * r[2] / b2};
    double q = 2 * (v[0] * v[0] / a2 + v[1] * v[1] / a2 + v[2] * v[2] / b2), gg = g[0] * g[0] + g[1] * g[1] + g[2] * g[2];
    double lam = -q / gg; A[0] = lam * g[0]; A[1] = lam * g[1]; A[2] = lam * g[2];
  }
  void step(double* r, double* v, double h) const {
    double k1r[3], k1v[3], k2r[3], k2v[3], k3r[3], k3v[3], k4r[3], k4v[3], tr[3], tv[3];
    for (int i = 0; i < 3; ++i) k1r[i] = v[i]; acc(r, v, k1v);
    for (int i = 0; i < 3; ++i) { tr[i] = r[i] + h / 2 * k1r[i]; tv[i] = v[i] + h / 2 * k1v[i]; }
    for (int i = 0; i < 3; ++i) k2r[i] = tv[i]; acc(tr, tv, k2v);
    for (int i = 0; i < 3; ++i) { tr[i] = r[i] + h / 2 * k2r[i]; tv[i] = v[i] + h / 2 * k2v[i]; }
    for (int i = 0; i < 3; ++i) k3r[i] = tv[i]; acc(tr, tv, k3v);
    for (int i = 0; i < 3; ++i) { tr[i] = r[i] + h * k3r[i]; tv[i] = v[i] + h * k3v[i]; }
    for (int i = 0; i < 3; ++i) k4r[i] = tv[i]; acc(tr, tv, k4v);
    for (int i = 0; i < 3; ++i) { r[i] += h / 6 * (k1r[i] + 2 * k2r[i] + 2 * k3r[i] + k4r[i]); v[i] += h / 6 * (k1v[i] + 2 * k2v[i] + 2 * k3v[i] + k4v[i]); }
    // back onto the surface / unit tangent
    double F = (r[0] * r[0] + r[1] * r[1]) / a2 + r[2] * r[2] / b2, sc = 1 / std::sqrt(F); r[0] *= sc; r[1] *= sc; r[2] *= sc;
    double n[3] = {r[0] / a2, r[1] / a2, r[2] / b2}, nn = std::sqrt(n[0] * n[0] + n[1] * n[1] + n[2] * n[2]); n[0] /= nn; n[1] /= nn; n[2] /= nn;
    double vn = v[0] * n[0] + v[1] * n[1] + v[2] * n[2]; for (int i = 0; i < 3; ++i) v[i] -= vn * n[i];
    double vv = std::sqrt(v[0] * v[0] + v[1] * v[1] + v[2] * v[2]); for (int i = 0; i < 3; ++i) v[i] /= vv;
  }
  // samples at s = s0 + i*h, i = 0..n  (integrated outward from s = 0 in both directions)
  void sample(double lat, double lon, double azi, double s0, double h, long n, std::vector<std::array<double, 3>>& out) const {
    out.assign(n + 1, std::array<double, 3>());
    double a = std::sqrt(a2), f = 1 - std::sqrt(b2) / a; ref::Ell<double> E(a, f);
    double r0[3], v0[3]; ref::to_xyz<double>(E, lat, lon, r0); ref::dir_xyz<double>(lat, lon, azi, v0);
    // index of the sample nearest to s = 0 and its offset
    long i0 = (long)std::llround(-s0 / h); if (i0 < 0) i0 = 0; if (i0 > n) i0 = n;
    double sfirst = s0 + i0 * h;                     // parameter of sample i0 (may be != 0)
    double r[3], v[3]; for (int i = 0; i < 3; ++i) { r[i] = r0[i]; v[i] = v0[i]; }
    // move from s = 0 to sfirst in sub-steps of at most h
    { double rem = sfirst; while (std::fabs(rem) > 0) { double d = std::fabs(rem) > h ? std::copysign(h, rem) : rem; step(r, v, d); rem -= d; } }
    double rs[3], vs[3]; for (int i = 0; i < 3; ++i) { rs[i] = r[i]; vs[i] = v[i]; }
    out[i0] = {r[0], r[1], r[2]};
    for (long i = i0 + 1; i <= n; ++i) { step(r, v, h); out[i] = {r[0], r[1], r[2]}; }
    for (int i = 0; i < 3; ++i) { r[i] = rs[i]; v[i] = vs[i]; }
    for (long i = i0 - 1; i >= 0; --i) { step(r, v, -h); out[i] = {r[0], r[1], r[2]}; }
  }
};

// ------------------------------------------------------------------------------------------------ certificate finders
struct XY { ld x, y; double angle; double gap; };      // intersection, crossing angle (rad, in (0, pi)), residual gap [m]

// Newton on the tangent-plane gap with the reference lines.  Returns true if converged onto an intersection.
static bool newton_xy(const EllCfg& e, RLine<ld>& X, RLine<ld>& Y, ld& x, ld& y, double& angle, double& gap, int maxit = 40) {
  const ld cap = 3.0e6L * e.a / gh::WGS84_A;
  for (int it = 0; it < maxit; ++it) {
    ld PX[3], DX[3], PY[3], DY[3], n[3]; X.eval(x, PX, DX); Y.eval(y, PY, DY);
    ld F[3] = {PY[0] - PX[0], PY[1] - PX[1], PY[2] - PX[2]};
    normal_at<ld>(*e.El, PX, n);
    // in-plane basis: u = DX, w = n x DX
    ld w[3] = {n[1] * DX[2] - n[2] * DX[1], n[2] * DX[0] - n[0] * DX[2], n[0] * DX[1] - n[1] * DX[0]};
    ld Fu = dot3(F, DX), Fw = dot3(F, w), Yu = dot3(DY, DX), Yw = dot3(DY, w);
    gap = (double)std::sqrt((double)dot3(F, F));
    angle = std::atan2(std::fabs((double)Yw), (double)Yu);
    // solve  x' * (1,0) - y' * (Yu, Yw) = (Fu, Fw)   ->  dy = -Fw / Yw, dx = Fu + dy * Yu
    if (std::fabs((double)Yw) < 1e-14) return false;
    ld dy = -Fw / Yw, dx = Fu + dy * Yu;
    ld m = std::max(std::fabs(dx), std::fabs(dy)); if (m > cap) { dx *= cap / m; dy *= cap / m; }
    // converged when the step is at the noise floor of the long double reference (1e-11 m per half circuit) / sin(crossing angle)
    const ld stol = 2e-9L * (e.a / gh::WGS84_A) * (1 + (std::fabs(x) + std::fabs(y)) / 2e7L) / std::max((ld)std::fabs((double)Yw), (ld)1e-12);
    if (gap < 1e-3 && m < stol) { x += dx; y += dy; X.eval(x, PX, DX); Y.eval(y, PY, DY);
      gap = (double)std::sqrt((double)((PY[0] - PX[0]) * (PY[0] - PX[0]) + (PY[1] - PX[1]) * (PY[1] - PX[1]) + (PY[2] - PX[2]) * (PY[2] - PX[2]))); return gap < 1e-6 * e.a / gh::WGS84_A; }
    x += dx; y += dy;
  }
  return false;
}

struct Finder {
  long ncand = 0, nnewton = 0, nconv = 0, nfail = 0; bool shallow = false;     // shallow: some crossing angle below the transversal finder's range
};

// (T) all intersections with |x - x0| + |y - y0| <= R (plus a margin), lines given as doubles
static std::vector<XY> find_all(const EllCfg& e, RLine<ld>& X, RLine<ld>& Y, double x0, double y0, double R, Finder& st, int diag_c = 0) {
  const double h = STEP * e.a / gh::WGS84_A, Rm = R + 3 * h;
  long n = (long)std::ceil(2 * Rm / h);
  Sampler S(e.a, e.b); std::vector<std::array<double, 3>> sx, sy;
  S.sample(X.lat1, X.lon1, X.azi1, x0 - Rm, h, n, sx); S.sample(Y.lat1, Y.lon1, Y.azi1, y0 - Rm, h, n, sy);
  const double cell = 1.5 * h, near2 = (1.08 * h) * (1.08 * h), inj = 0.98 * M_PI * std::min(e.b, e.a * e.a / e.b);
  auto key = [&](const std::array<double, 3>& p, int dx, int dy, int dz) -> uint64_t {
    int64_t ix = (int64_t)std::floor(p[0] / cell) + dx + (1 << 19), iy = (int64_t)std::floor(p[1] / cell) + dy + (1 << 19), iz = (int64_t)std::floor(p[2] / cell) + dz + (1 << 19);
    return ((uint64_t)ix << 42) | ((uint64_t)iy << 21) | (uint64_t)iz; };
  std::unordered_multimap<uint64_t, long> grid; grid.reserve(sy.size() * 2);
  for (long j = 0; j <= n; ++j) grid.emplace(key(sy[j], 0, 0, 0), j);
  std::vector<XY> found;
  struct Cand { long i, j; double d2; }; std::vector<Cand> cands;
  for (long i = 0; i <= n; ++i)
    for (int dx = -1; dx <= 1; ++dx) for (int dy = -1; dy <= 1; ++dy) for (int dz = -1; dz <= 1; ++dz) {
      auto rg = grid.equal_range(key(sx[i], dx, dy, dz));
      for (auto it = rg.first; it != rg.second; ++it) {
        long j = it->second; double d2 = 0; for (int k = 0; k < 3; ++k) d2 += (sx[i][k] - sy[j][k]) * (sx[i][k] - sy[j][k]);
        if (d2 <= near2) cands.push_back({i, j, d2});
      }
    }
  std::sort(cands.begin(), cands.end(), [](const Cand& a, const Cand& b) { return a.d2 < b.d2; });
  st.ncand += (long)cands.size();
  for (const Cand& cd : cands) {
    ld x = (ld)(x0 - Rm) + cd.i * (ld)h, y = (ld)(y0 - Rm) + cd.j * (ld)h;
    if (diag_c && std::fabs((double)(x - diag_c * y)) < 3 * h) continue;      // coincident lines from a common start: the trivial diagonal
    // skip starts that can only lead to an intersection already found: the injectivity radius of the ellipsoid is
    // >= pi / sqrt(Kmax) (Klingenberg), so two different intersections differ by at least that much in x or in y
    bool skip = false;
    for (const XY& p : found) if (std::max(std::fabs((double)(x - p.x)), std::fabs((double)(y - p.y))) < inj - 2 * h) { skip = true; break; }
    if (skip) continue;
    double ang, gap; ++st.nnewton;
    if (!newton_xy(e, X, Y, x, y, ang, gap)) { ++st.nfail; continue; }
    ++st.nconv;
    bool dup = false; for (const XY& p : found) if (std::fabs((double)(x - p.x)) + std::fabs((double)(y - p.y)) < 1e3 * e.a / gh::WGS84_A) { dup = true; break; }
    if (dup) continue;
    if (std::min(ang, M_PI - ang) < 1e-4) st.shallow = true;
    found.push_back(XY{x, y, ang, gap});
  }
  std::vector<XY> out;
  for (const XY& p : found) if (std::fabs((double)(p.x - x0)) + std::fabs((double)(p.y - y0)) <= R + h) out.push_back(p);
  std::sort(out.begin(), out.end(), [&](const XY& a, const XY& b) { return std::fabs((double)(a.x - x0)) + std::fabs((double)(a.y - y0)) < std::fabs((double)(b.x - x0)) + std::fabs((double)(b.y - y0)); });
  return out;
}

// (N) nearly parallel (sense = +1) / antiparallel (sense = -1) lines that are close to each other at (xa, ya):
// g(x) = signed cross-track offset of X(x) from the tracked branch y ~ ya + sense (x - xa) of Y; roots of g in the ball.
static bool project_on_Y(RLine<ld>& Y, const ld* PX, ld& y, ld* PY, ld* DY) {
  for (int it = 0; it < 30; ++it) { Y.eval(y, PY, DY); ld F[3] = {PX[0] - PY[0], PX[1] - PY[1], PX[2] - PY[2]}; ld dy = dot3(F, DY); y += dy;
    if (std::fabs((double)dy) < 1e-10) { Y.eval(y, PY, DY); return true; } }
  return false;
}
static std::vector<XY> find_parallel(const EllCfg& e, RLine<ld>& X, RLine<ld>& Y, double xa, double ya, int sense, double x0, double y0, double R, Finder& st) {
  const double h = 250e3 * e.a / gh::WGS84_A, lap = M_PI * (e.a + e.b);
  long n = (long)std::ceil(2 * (R + 2 * h) / h);
  auto geval = [&](ld x, ld& y, double& ang) -> ld {
    ld PX[3], DX[3], PY[3], DY[3], nn[3]; X.eval(x, PX, DX);
    if (!project_on_Y(Y, PX, y, PY, DY)) return std::numeric_limits<ld>::quiet_NaN();
    normal_at<ld>(*e.El, PY, nn);
    ld w[3] = {nn[1] * DY[2] - nn[2] * DY[1], nn[2] * DY[0] - nn[0] * DY[2], nn[0] * DY[1] - nn[1] * DY[0]};
    ld F[3] = {PX[0] - PY[0], PX[1] - PY[1], PX[2] - PY[2]};
    ld cx[3] = {DX[1] * DY[2] - DX[2] * DY[1], DX[2] * DY[0] - DX[0] * DY[2], DX[0] * DY[1] - DX[1] * DY[0]};
    ang = std::asin(std::min(1.0, (double)std::sqrt((double)dot3(cx, cx)))); if (dot3(DX, DY) < 0) ang = M_PI - ang;
    return dot3(F, w); };
  std::vector<XY> out;
  // Y passes close to X once per lap: the branches y ~ ya + k lap + sense (x - xa), k = 0, +-1, ... (the lap-shifted ones cross X
  // at the small angle by which the geodesic precesses); every branch that can enter the ball is scanned
  const int kmax = (int)std::ceil((2 * R + std::fabs(x0 - xa) + std::fabs(y0 - ya)) / lap) + 1;
  for (int k = -kmax; k <= kmax; ++k) {
    ld xs = (ld)x0 - (R + 2 * h) + 0.377L * h, xprev = 0, gprev = 0, yprev = 0; bool have = false;
    for (long i = 0; i <= n; ++i) {
      ld x = xs + i * (ld)h, y = have ? yprev + sense * (x - xprev) : (ld)ya + k * (ld)lap + sense * (x - (ld)xa); double ang;
      // only where the branch can be inside the ball
      if (std::fabs((double)(x - x0)) + std::fabs((double)(y - y0)) > R + 0.25 * lap) { if (have) { yprev += sense * (x - xprev); xprev = x; have = false; } continue; }
      ld g = geval(x, y, ang); ++st.nnewton;
      if (std::isnan((double)g)) { have = false; continue; }
      if (have && ((gprev < 0) != (g < 0))) {
        ld xl = xprev, gl = gprev, yl = yprev, xr = x, gr = g, yr = y; double angm = ang;
        for (int it = 0; it < 200; ++it) {
          ld xm = (it % 3 == 2) ? (xl + xr) / 2 : xl - gl * (xr - xl) / (gr - gl);
          if (!(xm > std::min(xl, xr) && xm < std::max(xl, xr))) xm = (xl + xr) / 2;
          ld ym = yl + sense * (xm - xl); ld gm = geval(xm, ym, angm);
          if (std::isnan((double)gm)) break;
          if ((gm < 0) == (gl < 0)) { xl = xm; gl = gm; yl = ym; } else { xr = xm; gr = gm; yr = ym; }
          if (std::fabs((double)(xr - xl)) < 1e-4 || gm == 0) break;
        }
        ld xm = std::fabs((double)gl) < std::fabs((double)gr) ? xl : xr, ym = std::fabs((double)gl) < std::fabs((double)gr) ? yl : yr;
        ++st.nconv;
        bool dup = false; for (const XY& p : out) if (std::fabs((double)(xm - p.x)) + std::fabs((double)(ym - p.y)) < 1e3 * e.a / gh::WGS84_A) dup = true;
        if (!dup && std::fabs((double)(xm - x0)) + std::fabs((double)(ym - y0)) <= R + h)
          out.push_back(XY{xm, ym, angm, (double)std::min(std::fabs((double)gl), std::fabs((double)gr))});
      }
      xprev = x; gprev = g; yprev = y; have = true;
    }
  }
  std::sort(out.begin(), out.end(), [&](const XY& a, const XY& b) { return std::fabs((double)(a.x - x0)) + std::fabs((double)(a.y - y0)) < std::fabs((double)(b.x - x0)) + std::fabs((double)(b.y - y0)); });
  return out;
}

// ------------------------------------------------------------------------------------------------ a pair of lines + monitors
struct Pair {
  EllCfg* e; double latX, lonX, aziX, latY, lonY, aziY; std::string cls;
  GeodesicLine lX, lY; RLine<ld> rX, rY; RLine<q128> qX, qY;
  Pair(EllCfg& e_, double a, double b, double c, double d, double f, double g, const std::string& cl) : e(&e_), latX(a), lonX(b), aziX(c), latY(d), lonY(f), aziY(g), cls(cl),
    lX(e_.g->Line(a, b, c, Intersect::LineCaps)), lY(e_.g->Line(d, f, g, Intersect::LineCaps)), rX(*e_.El, a, b, c), rY(*e_.El, d, f, g), qX(*e_.Eq, a, b, c), qY(*e_.Eq, d, f, g) {}
  J j() const { return J().str("ell", e->name).f("latX", latX).f("lonX", lonX).f("aziX", aziX).f("latY", latY).f("lonY", lonY).f("aziY", aziY); }
  uint64_t hash() const { uint64_t h = vh::hstr(e->name.c_str()); for (double v : {latX, lonX, aziX, latY, lonY, aziY}) h = vh::hmix(h, v); return h; }
  double scale(double x, double y) const { return std::max(1.0, (std::fabs(x) + std::fabs(y)) / (M_PI * e->b)); }
  double Tgap(double x, double y) const { return K_POS * e->tol * scale(x, y); }
  double gap(double x, double y, bool quad, double* ang = nullptr) {
    if (quad) { q128 A[3], B[3], DA[3], DB[3]; qX.eval((q128)x, A, DA); qY.eval((q128)y, B, DB);
      if (ang) { q128 c[3] = {DA[1] * DB[2] - DA[2] * DB[1], DA[2] * DB[0] - DA[0] * DB[2], DA[0] * DB[1] - DA[1] * DB[0]}; *ang = std::asin(std::min(1.0, (double)ref::sqrt(dot3(c, c)))); }
      return (double)ref::dist3(A, B); }
    ld A[3], B[3], DA[3], DB[3]; rX.eval((ld)x, A, DA); rY.eval((ld)y, B, DB);
    if (ang) { ld c[3] = {DA[1] * DB[2] - DA[2] * DB[1], DA[2] * DB[0] - DA[0] * DB[2], DA[0] * DB[1] - DA[1] * DB[0]}; *ang = std::asin(std::min(1.0, (double)std::sqrt((double)dot3(c, c)))); }
    return (double)ref::dist3(A, B);
  }
};
// coincidence indicator implied by the reference tangents at (x,y): +-1 if the lines are tangent there, else 0 (a genuine crossing,
// e.g. a self-crossing of one and the same geodesic)
static int c_from_tangents(Pair& P, double x, double y) {
  ld A[3], B[3], DA[3], DB[3]; P.rX.eval((ld)x, A, DA); P.rY.eval((ld)y, B, DB);
  ld cr[3] = {DA[1] * DB[2] - DA[2] * DB[1], DA[2] * DB[0] - DA[0] * DB[2], DA[0] * DB[1] - DA[1] * DB[0]};
  double sn = std::sqrt((double)dot3(cr, cr));
  if (sn > 1e-6) return 0;
  int sg = dot3(DA, DB) > 0 ? 1 : -1;
  return sn < 1e-16 ? sg : 3 * sg;      // +-3: crossing at an angle in (1e-16, 1e-6): either 0 or the sign is accepted
}
static bool c_ok(int got, int want) { return want == 3 || want == -3 ? (got == 0 || got == want / 3) : got == want; }
static inline double L1(double x, double y, double x0 = 0, double y0 = 0) { return std::fabs(x - x0) + std::fabs(y - y0); }
static inline double sinang(double a) { return std::max(1e-300, std::sin(std::min(a, M_PI - a))); }

// (i) membership of a returned point
static bool member(Ctx& c, Pair& P, const char* op, double x, double y, bool quad, const J& w) {
  if (!(std::isfinite(x) && std::isfinite(y))) { VIOLX(c, std::string("oracle:C17/intersect/") + op + "/non-finite", P.cls, w); return false; }
  double g = P.gap(x, y, quad), T = P.Tgap(x, y);
  c.obs(std::string("intersect ") + op + ": membership gap / tolerance [" + P.e->name + "]", g / T, J(w).f("x", x).f("y", y).f("gap_m", g));
  c.event(quad ? "membership judged (float128 reference)" : "membership judged (long double reference)");
  if (g > T) { VIOLX(c, std::string("oracle:C17/intersect/") + op + "/membership", P.cls, J(w).f("x", x).f("y", y).f("gap_m", g).f("tol_m", T)); return false; }
  return true;
}
// tolerance on (x,y) of an intersection crossing at angle ang: position tolerance / sin(angle)
static double Txy(const Pair& P, const XY& p) { return 2 * P.Tgap((double)p.x, (double)p.y) / sinang(p.angle) + 1e-7 * P.e->a / gh::WGS84_A; }
static int match(const Pair& P, const std::vector<XY>& list, double x, double y, const std::vector<char>* used = nullptr) {
  int best = -1; double bd = HUGE_VAL;
  for (size_t k = 0; k < list.size(); ++k) { if (used && (*used)[k]) continue; double d = L1(x, y, (double)list[k].x, (double)list[k].y); if (d < bd) { bd = d; best = (int)k; } }
  if (best >= 0 && bd <= Txy(P, list[best])) return best;
  return -1;
}
static std::string liststr(const std::vector<XY>& l, double x0, double y0, size_t nmax = 6) {
  std::string s = "["; char b[160];
  for (size_t k = 0; k < l.size() && k < nmax; ++k) { std::snprintf(b, sizeof b, "%s(%.6f,%.6f; L1=%.6f; ang=%.3g)", k ? " " : "", (double)l[k].x, (double)l[k].y, L1((double)l[k].x, (double)l[k].y, x0, y0), l[k].angle); s += b; }
  return s + (l.size() > nmax ? " ...]" : "]");
}

// certificate for the pair (chooses the finder).  par: 0 transversal finder, +-1 parallel finder anchored at (xa, ya)
static std::vector<XY> certificate(Ctx& c, Pair& P, double x0, double y0, double R, int par, double xa, double ya) {
  Finder st; std::vector<XY> l = par ? find_parallel(*P.e, P.rX, P.rY, xa, ya, par, x0, y0, R, st) : find_all(*P.e, P.rX, P.rY, x0, y0, R, st);
  c.event(par ? "certificate runs (near-parallel finder)" : "certificate runs (transversal finder)");
  c.event("certificate: Newton / root refinements", st.nnewton); c.event("certificate: Newton runs that did not converge", st.nfail); c.event("certificate: candidate sample pairs", st.ncand);
  c.obs("certificate: non-converged Newton runs in one call", (double)st.nfail, P.j().f("x0", x0).f("y0", y0).f("R", R).i("par", par));
  if (c.only) std::fprintf(stderr, "CERT par=%d p0=(%.3f,%.3f) R=%.3f cand=%ld newton=%ld conv=%ld fail=%ld list=%s\n", par, x0, y0, R, st.ncand, st.nnewton, st.nconv, st.nfail, liststr(l, x0, y0, 20).c_str()); c.event("certificate: intersections listed", l.size());
  if (st.shallow) c.event("certificate: transversal finder met a crossing angle < 1e-4 (case not judged for completeness)");
  if (st.shallow) l.clear();
  return l;
}

// ---- Closest
static bool check_closest(Ctx& c, Pair& P, double x0, double y0, const std::vector<XY>& list, bool expect_c0, Intersect::Point* out = nullptr, bool quad = true) {
  const Intersect& I = *P.e->in; Intersect::Point p0(x0, y0); int cc = 99, cc2 = 99;
  Intersect::Point p = I.Closest(P.lX, P.lY, p0, &cc), p2 = I.Closest(P.latX, P.lonX, P.aziX, P.latY, P.lonY, P.aziY, p0, &cc2);
  J w = P.j().f("p0x", x0).f("p0y", y0).f("x", p.first).f("y", p.second).i("c", cc);
  if (!(vh::same_bits(p.first, p2.first) && vh::same_bits(p.second, p2.second) && cc == cc2)) VIOLX(c, "law:C17/intersect/Closest/overloads-differ", P.cls, J(w).f("x2", p2.first).f("y2", p2.second));
  if (out) *out = p;
  if (!member(c, P, "Closest", p.first, p.second, quad, w)) return false;
  if (expect_c0 && cc != 0) VIOLX(c, "oracle:C17/intersect/Closest/coincidence-indicator-nonzero-for-crossing-lines", P.cls, w);
  if (list.empty()) return true;
  c.event("Closest judged against certificate");
  int k = match(P, list, p.first, p.second);
  double dl = L1(p.first, p.second, x0, y0), dm = L1((double)list[0].x, (double)list[0].y, x0, y0);
  if (k < 0) {
    if (dl <= dm + Txy(P, list[0])) { VIOLX(c, "oracle:C17/intersect/Closest/intersection-unknown-to-certificate", P.cls, J(w).str("certificate", liststr(list, x0, y0))); return false; }
    VIOLX(c, "oracle:C17/intersect/Closest/not-the-L1-minimum", P.cls, J(w).f("L1_returned", dl).f("L1_min", dm).str("certificate", liststr(list, x0, y0))); return false;
  }
  double tie = Txy(P, list[k]) + Txy(P, list[0]);
  c.obs("intersect Closest: (L1 returned - L1 min) / tie tolerance [" + P.e->name + "]", (dl - dm) / tie, w);
  c.obs("intersect Closest: |x,y - certificate|_1 / tolerance [" + P.e->name + "]", L1(p.first, p.second, (double)list[k].x, (double)list[k].y) / Txy(P, list[k]), w);
  if (dl > dm + tie) { VIOLX(c, "oracle:C17/intersect/Closest/not-the-L1-minimum", P.cls, J(w).f("L1_returned", dl).f("L1_min", dm).str("certificate", liststr(list, x0, y0))); return false; }
  if (k != 0) c.event("Closest: L1 tie, either accepted");
  return true;
}

// ---- All
static void check_all(Ctx& c, Pair& P, double x0, double y0, double maxdist, const std::vector<XY>& list, bool have_list, bool expect_c0) {
  const Intersect& I = *P.e->in; Intersect::Point p0(x0, y0); std::vector<int> cv, cv2;
  std::vector<Intersect::Point> v = I.All(P.lX, P.lY, maxdist, cv, p0), v2 = I.All(P.latX, P.lonX, P.aziX, P.latY, P.lonY, P.aziY, maxdist, cv2, p0), v3 = I.All(P.lX, P.lY, maxdist, p0),
    v4 = I.All(P.latX, P.lonX, P.aziX, P.latY, P.lonY, P.aziY, maxdist, p0);      // the overload without the coincidence vector (never called before the reach monitor said so)
  J w = P.j().f("p0x", x0).f("p0y", y0).f("maxdist", maxdist).i("returned", (long long)v.size());
  bool same = v.size() == v2.size() && v.size() == v3.size() && v.size() == v4.size() && cv == cv2 && cv.size() == v.size();
  for (size_t k = 0; same && k < v.size(); ++k) same = vh::same_bits(v[k].first, v2[k].first) && vh::same_bits(v[k].second, v2[k].second) && vh::same_bits(v[k].first, v3[k].first) && vh::same_bits(v[k].second, v3[k].second)
    && vh::same_bits(v[k].first, v4[k].first) && vh::same_bits(v[k].second, v4[k].second);
  if (!same) VIOLX(c, "law:C17/intersect/All/overloads-differ", P.cls, w);
  c.event("All calls judged"); c.event("All: intersections returned", v.size());
  double prev = -1;
  for (size_t k = 0; k < v.size(); ++k) {
    double d = Intersect::Dist(v[k], p0);
    if (!(d <= maxdist)) VIOLX(c, "law:C17/intersect/All/point-beyond-maxdist", P.cls, J(w).i("k", (long long)k).f("dist", d));
    if (d < prev) VIOLX(c, "law:C17/intersect/All/not-sorted-by-distance", P.cls, J(w).i("k", (long long)k).f("dist", d).f("prev", prev));
    prev = d;
    member(c, P, "All", v[k].first, v[k].second, false, J(w).i("k", (long long)k));
    if (expect_c0 && k < cv.size() && cv[k] != 0) VIOLX(c, "oracle:C17/intersect/All/coincidence-indicator-nonzero-for-crossing-lines", P.cls, J(w).i("k", (long long)k));
  }
  if (!have_list) return;
  c.event("All judged against certificate");
  std::vector<char> used(list.size(), 0);
  for (size_t k = 0; k < v.size(); ++k) {
    int m = match(P, list, v[k].first, v[k].second, &used);
    if (m < 0) { VIOLX(c, match(P, list, v[k].first, v[k].second) >= 0 ? "oracle:C17/intersect/All/intersection-returned-twice" : "oracle:C17/intersect/All/intersection-unknown-to-certificate", P.cls,
                        J(w).i("k", (long long)k).f("x", v[k].first).f("y", v[k].second).str("certificate", liststr(list, x0, y0, 12))); continue; }
    used[m] = 1;
  }
  for (size_t m = 0; m < list.size(); ++m) if (!used[m]) {
    double d = L1((double)list[m].x, (double)list[m].y, x0, y0);
    if (d <= maxdist - Txy(P, list[m])) VIOLX(c, "oracle:C17/intersect/All/missed-intersection", P.cls, J(w).f("missed_x", (double)list[m].x).f("missed_y", (double)list[m].y).f("L1", d).f("angle", list[m].angle).str("certificate", liststr(list, x0, y0, 12)));
    else if (d <= maxdist + Txy(P, list[m])) c.event("All: intersection within tolerance of maxdist (either accepted)");
  }
}

// ---- Next (both lines start at the same point)
static void check_next(Ctx& c, EllCfg& e, double lat, double lon, double aziX, double aziY, const std::string& cls, int par) {
  Pair P(e, lat, lon, aziX, lat, lon, aziY, cls);
  const Intersect& I = *e.in; int cc = 99, cc2 = 99;
  Intersect::Point p = I.Next(P.lX, P.lY, &cc), p2 = I.Next(lat, lon, aziX, aziY, &cc2);
  J w = P.j().f("x", p.first).f("y", p.second).i("c", cc);
  if (!(vh::same_bits(p.first, p2.first) && vh::same_bits(p.second, p2.second) && cc == cc2)) VIOLX(c, "law:C17/intersect/Next/overloads-differ", cls, J(w).f("x2", p2.first).f("y2", p2.second));
  if (!member(c, P, "Next", p.first, p.second, true, w)) return;
  if (c_from_tangents(P, 0, 0) != 0) {      // the two lines are tangent at the common point (a random pair can be coincident): c and membership only
    c.event("Next: lines tangent at the common point, judged by membership and c only");
    if (!c_ok(cc, c_from_tangents(P, p.first, p.second))) VIOLX(c, "oracle:C17/intersect/Next/coincidence-indicator", cls, w);
    return;
  }
  if (cc != 0) VIOLX(c, "oracle:C17/intersect/Next/coincidence-indicator-nonzero-for-crossing-lines", cls, w);
  if (L1(p.first, p.second) < 1e3 * e.a / gh::WGS84_A) { VIOLX(c, "oracle:C17/intersect/Next/returned-the-origin", cls, w); return; }
  double R = 1.25 * e.circ;
  std::vector<XY> all = certificate(c, P, 0, 0, R, par, 0, 0), list;
  bool origin = false;
  for (const XY& q : all) { if (L1((double)q.x, (double)q.y) < 1e3 * e.a / gh::WGS84_A) origin = true; else list.push_back(q); }
  if (all.empty()) return;
  if (!origin) { c.herr("certificate did not find the common starting point of a Next pair"); return; }
  if (list.empty()) { c.event("Next: certificate found no other intersection within its radius (not judged)"); return; }
  c.event("Next judged against certificate");
  int k = match(P, list, p.first, p.second);
  double dl = L1(p.first, p.second), dm = L1((double)list[0].x, (double)list[0].y);
  if (k < 0) { VIOLX(c, dl <= dm + Txy(P, list[0]) ? "oracle:C17/intersect/Next/intersection-unknown-to-certificate" : "oracle:C17/intersect/Next/not-the-next-nearest", cls, J(w).f("L1_returned", dl).f("L1_min", dm).str("certificate", liststr(list, 0, 0))); return; }
  double tie = Txy(P, list[k]) + Txy(P, list[0]);
  c.obs("intersect Next: (L1 returned - L1 min) / tie tolerance [" + e.name + "]", (dl - dm) / tie, w);
  if (dl > dm + tie) VIOLX(c, "oracle:C17/intersect/Next/not-the-next-nearest", cls, J(w).f("L1_returned", dl).f("L1_min", dm).str("certificate", liststr(list, 0, 0)));
  else if (k != 0) c.event("Next: L1 tie, either accepted");
}

// ---- Segment
static int segmode_doc(double x, double y, double sx, double sy) { return (x < 0 ? -1 : x <= sx ? 0 : 1) * 3 + (y < 0 ? -1 : y <= sy ? 0 : 1); }
struct SegExpect { bool known; double x, y; int kx_lo, kx_hi, ky_lo, ky_hi; };      // expected intersection and admissible indicators
static void check_segment(Ctx& c, EllCfg& e, double latX1, double lonX1, double latX2, double lonX2, double latY1, double lonY1, double latY2, double lonY2,
                          const std::string& cls, const SegExpect* ex, bool use_certificate, int expect_c /* 0, +-1, 99 = unknown */) {
  const Intersect& I = *e.in;
  GeodesicLine lX = e.g->InverseLine(latX1, lonX1, latX2, lonX2, Intersect::LineCaps), lY = e.g->InverseLine(latY1, lonY1, latY2, lonY2, Intersect::LineCaps);
  double sx = lX.Distance(), sy = lY.Distance();
  int sm = 99, sm2 = 99, cc = 99, cc2 = 99;
  Intersect::Point p = I.Segment(lX, lY, sm, &cc), p2 = I.Segment(latX1, lonX1, latX2, lonX2, latY1, lonY1, latY2, lonY2, sm2, &cc2);
  Pair P(e, latX1, lonX1, lX.Azimuth(), latY1, lonY1, lY.Azimuth(), cls);
  J w = J().str("ell", e.name).f("latX1", latX1).f("lonX1", lonX1).f("latX2", latX2).f("lonX2", lonX2).f("latY1", latY1).f("lonY1", lonY1).f("latY2", latY2).f("lonY2", lonY2)
    .f("sx", sx).f("sy", sy).f("x", p.first).f("y", p.second).i("segmode", sm).i("c", cc);
  c.event("Segment calls judged");
  if (!(vh::same_bits(p.first, p2.first) && vh::same_bits(p.second, p2.second) && sm == sm2 && cc == cc2)) VIOLX(c, "law:C17/intersect/Segment/overloads-differ", cls, J(w).f("x2", p2.first).f("y2", p2.second).i("segmode2", sm2));
  if (!member(c, P, "Segment", p.first, p.second, true, w)) return;
  if (sm != segmode_doc(p.first, p.second, sx, sy)) VIOLX(c, "law:C17/intersect/Segment/segmode-is-not-the-documented-function-of-the-point", cls, J(w).i("documented", segmode_doc(p.first, p.second, sx, sy)));
  if (expect_c != 99 && cc != expect_c) VIOLX(c, expect_c == 0 ? "oracle:C17/intersect/Segment/coincidence-indicator-nonzero-for-crossing-lines" : "oracle:C17/intersect/Segment/coincidence-indicator", cls, J(w).i("expected_c", expect_c));
  if (ex && ex->known) {
    double ang; P.gap(ex->x, ex->y, false, &ang); XY t{(ld)ex->x, (ld)ex->y, ang, 0};
    // end points are rounded to doubles (<= 4 nm): extrapolating a short segment to the crossing magnifies that by distance / length
    double lever = 1 + std::max(std::fabs(ex->x), std::fabs(ex->x - sx)) / std::max(sx, 1e-3) + std::max(std::fabs(ex->y), std::fabs(ex->y - sy)) / std::max(sy, 1e-3);
    double d = L1(p.first, p.second, ex->x, ex->y), T = Txy(P, t) + 2 * 4e-9 * (e.a / gh::WGS84_A) * lever / sinang(ang);
    c.obs("intersect Segment: |x,y - constructed|_1 / tolerance [" + e.name + "]", d / T, w);
    if (d > T) VIOLX(c, "oracle:C17/intersect/Segment/not-the-constructed-intersection", cls, J(w).f("want_x", ex->x).f("want_y", ex->y).f("tol", T));
    int kx = (sm + 4) / 3 - 1, ky = (sm + 4) % 3 - 1;
    // the indicator is a function of the point: where the constructed point is within the position tolerance T (which carries the
    // lever of extrapolating a short segment) of a segment end, either side is acceptable.  (Without this, two segments 1-4 m long whose
    // lines meet 342 km away gave a false alarm in the thorough tier: position within T, indicator on the other side of the end point.)
    int kxlo = ex->kx_lo, kxhi = ex->kx_hi, kylo = ex->ky_lo, kyhi = ex->ky_hi;
    auto widen = [&](double v, double s, int& lo, int& hi) { auto ind = [&](double u) { return u < 0 ? -1 : (u > s ? 1 : 0); }; int a2 = ind(v - T), b2 = ind(v + T); lo = std::min(lo, std::min(a2, b2)); hi = std::max(hi, std::max(a2, b2)); };
    widen(ex->x, sx, kxlo, kxhi); widen(ex->y, sy, kylo, kyhi);
    if (kx < kxlo || kx > kxhi || ky < kylo || ky > kyhi) VIOLX(c, "oracle:C17/intersect/Segment/wrong-segment-indicator", cls, J(w).i("kx", kx).i("ky", ky).i("kx_lo", ex->kx_lo).i("kx_hi", ex->kx_hi).i("ky_lo", ex->ky_lo).i("ky_hi", ex->ky_hi));
    c.event("Segment judged against construction");
  }
  if (use_certificate) {
    std::vector<XY> list = certificate(c, P, sx / 2, sy / 2, 0.65 * e.circ + (sx + sy) / 2, 0, 0, 0);
    if (list.empty()) return;
    c.event("Segment judged against certificate");
    // intersections strictly inside / possibly inside the rectangle
    int inside_sure = -1, inside_maybe = 0;
    for (size_t k = 0; k < list.size(); ++k) { double T = Txy(P, list[k]), x = (double)list[k].x, y = (double)list[k].y;
      if (x >= T && x <= sx - T && y >= T && y <= sy - T) inside_sure = (int)k;
      if (x >= -T && x <= sx + T && y >= -T && y <= sy + T) ++inside_maybe; }
    int k = match(P, list, p.first, p.second);
    if (k < 0) { VIOLX(c, "oracle:C17/intersect/Segment/intersection-unknown-to-certificate", cls, J(w).str("certificate", liststr(list, sx / 2, sy / 2))); return; }
    if (inside_sure >= 0 && sm != 0) VIOLX(c, "oracle:C17/intersect/Segment/segments-intersect-but-segmode-nonzero", cls, J(w).str("certificate", liststr(list, sx / 2, sy / 2)));
    if (inside_maybe == 0 && sm == 0) VIOLX(c, "oracle:C17/intersect/Segment/segmode-zero-but-segments-do-not-intersect", cls, J(w).str("certificate", liststr(list, sx / 2, sy / 2)));
    if (inside_maybe == 0) {      // documented: the intersection closest to the midpoints
      double dl = L1(p.first, p.second, sx / 2, sy / 2), dm = L1((double)list[0].x, (double)list[0].y, sx / 2, sy / 2), tie = Txy(P, list[k]) + Txy(P, list[0]);
      if (dl > dm + tie) VIOLX(c, "oracle:C17/intersect/Segment/not-closest-to-midpoints", cls, J(w).f("L1_returned", dl).f("L1_min", dm).str("certificate", liststr(list, sx / 2, sy / 2)));
    }
  }
}

// ------------------------------------------------------------------------------------------------ generators / sections
static void random_point(vh::Rng& r, double& lat, double& lon) { std::string s; lat = r.coin(0.8) ? std::asin(r.uniform(-1, 1)) / (M_PI / 180) : gh::pick_lat(r, s); lon = r.uniform(-180, 180); }
static std::string angcls(double a) { a = std::min(a, M_PI - a); return a >= 0.1 ? "angle>=0.1" : a >= 1e-2 ? "angle>=1e-2" : a >= 1e-4 ? "angle>=1e-4" : a >= 1e-8 ? "angle>=1e-8" : "angle<1e-8"; }

static void flow(Ctx& c, Pair& P, int par, double xa, double ya, bool heavy) {
  vh::Rng& r = c.rng; EllCfg& e = *P.e;
  const double Rc = 0.65 * e.circ;
  c.count(P.cls, P.hash());
  if (c.want_sample(P.cls)) c.sample(P.cls, P.j());
  std::vector<XY> l0 = certificate(c, P, 0, 0, Rc, par, xa, ya);
  if (l0.empty()) { c.event("certificate empty: case judged for membership and laws only"); }
  bool c0 = !l0.empty() && std::min(l0[0].angle, M_PI - l0[0].angle) > 1e-11;
  Intersect::Point pc;
  bool ok = check_closest(c, P, 0, 0, l0, c0, &pc);
  // All within the ball of the first certificate
  { double md; switch (r.below(5)) { case 0: md = 0; break; case 1: md = r.logu(1, 1e6); break; case 2: md = l0.empty() ? Rc / 2 : L1((double)l0[0].x, (double)l0[0].y) + r.sign() * r.logu(1e-3, 1e3); break; default: md = r.uniform(0, Rc); }
    if (md < 0) md = 0; if (md > Rc) md = Rc;
    check_all(c, P, 0, 0, md, l0, !l0.empty(), c0); }
  // offset p0
  if (r.coin(heavy ? 0.5 : 0.3) && !par) {
    double x0 = r.uniform(-1, 1) * e.circ, y0 = r.uniform(-1, 1) * e.circ;
    std::vector<XY> l1 = certificate(c, P, x0, y0, Rc, 0, 0, 0);
    check_closest(c, P, x0, y0, l1, c0, nullptr, false);
    check_all(c, P, x0, y0, r.uniform(0, Rc), l1, !l1.empty(), c0);
  }
  // adversarial p0: midway between two intersections (largest possible distance to the closest one, near-ties)
  if (!par && l0.size() >= 2 && r.coin(0.6)) {
    size_t i = r.below(std::min<size_t>(l0.size(), 4)), j = (i + 1 + r.below(l0.size() - 1)) % l0.size();
    double pert = r.coin() ? 1e6 : r.coin() ? 1e3 : 1;
    double x0 = (double)(l0[i].x + l0[j].x) / 2 + r.uniform(-1, 1) * pert, y0 = (double)(l0[i].y + l0[j].y) / 2 + r.uniform(-1, 1) * pert;
    std::vector<XY> l1 = certificate(c, P, x0, y0, Rc, 0, 0, 0);
    c.event("Closest from a point midway between two intersections");
    check_closest(c, P, x0, y0, l1, c0, nullptr, false);
  }
  // large maxdist (up to 4 circumferences)
  if (!par && r.coin(heavy ? 0.25 : 0.08)) {
    double md = r.uniform(0.65, 4.0) * e.circ;
    std::vector<XY> l2 = certificate(c, P, 0, 0, md, 0, 0, 0);
    c.event("All with maxdist > capture radius");
    check_all(c, P, 0, 0, md, l2, !l2.empty(), c0);
  }
  // Next from the intersection just found
  if (ok && !par && r.coin(0.5)) {
    double lat, lon, ax, ay, t1, t2; P.lX.Position(pc.first, lat, lon, ax); P.lY.Position(pc.second, t1, t2, ay);
    ay += std::remainder(lon - t2, 360.0) * std::sin(lat * (M_PI / 180));       // same direction expressed at X's longitude (matters at the poles only)
    check_next(c, e, lat, lon, ax, ay, P.cls, 0);
  }
}

static void sec_random(Ctx& c, uint64_t idx) {
  vh::Rng& r = c.rng; EllCfg& e = idx < 12 ? ells()[idx % ells().size()] : pick_ell(r);
  double a, b, cc, d, f, g; std::string geo, s1;
  switch (r.below(10)) {
  case 0: geo = "meridian-x-equator"; a = r.uniform(-80, 80); b = r.uniform(-180, 180); cc = r.coin() ? 0 : 180; d = 0; f = r.uniform(-180, 180); g = r.coin() ? 90 : -90; break;
  case 1: geo = "meridian-x-meridian"; a = r.uniform(-80, 80); b = r.uniform(-180, 180); cc = r.coin() ? 0 : 180; d = r.uniform(-80, 80); f = b + r.sign() * r.uniform(5, 175); g = r.coin() ? 0 : 180; break;
  case 2: geo = "from-pole"; a = r.coin() ? 90 : -90; b = r.uniform(-180, 180); cc = r.uniform(-180, 180); random_point(r, d, f); g = r.uniform(-180, 180); break;
  case 3: geo = "equator-x-oblique"; a = 0; b = r.uniform(-180, 180); cc = r.coin() ? 90 : -90; random_point(r, d, f); g = gh::pick_azi(r, s1); break;
  case 4: geo = "meridian-x-oblique"; a = r.uniform(-89, 89); b = r.uniform(-180, 180); cc = r.coin() ? 0 : 180; random_point(r, d, f); g = r.uniform(-180, 180); break;
  default: geo = "random"; random_point(r, a, b); cc = gh::pick_azi(r, s1); random_point(r, d, f); g = gh::pick_azi(r, s1);
  }
  Pair P(e, a, b, cc, d, f, g, "lines/" + geo + "/" + e.name);
  flow(c, P, 0, 0, 0, !c.quick());
}

static void sec_nearparallel(Ctx& c, uint64_t idx) {
  vh::Rng& r = c.rng; EllCfg& e = idx < 12 ? ells()[idx % ells().size()] : pick_ell(r);
  double lat, lon; random_point(r, lat, lon); if (std::fabs(lat) > 89) lat = r.uniform(-80, 80);
  double aziX = r.uniform(-180, 180), th = r.sign() * r.logu(1e-12, 1e-1); bool anti = r.coin(0.35);
  double aziY = aziX + (anti ? 180 : 0) + th / (M_PI / 180);
  double theta = std::fabs(std::remainder(aziY - aziX - (anti ? 180 : 0), 360.0)) * (M_PI / 180);
  int par = theta < 1e-4 ? (anti ? -1 : 1) : 0;
  std::string cls = std::string("near-parallel/") + (anti ? "anti/" : "same/") + angcls(theta) + "/" + e.name;
  if (r.coin(0.4)) {    // Next from the exactly common point
    c.count(cls + "/Next", vh::hmix(vh::hmix(vh::hmix(vh::hmix(vh::hstr(cls.c_str()), lat), lon), aziX), aziY));
    check_next(c, e, lat, lon, aziX, aziY, cls + "/Next", par);
    return;
  }
  // separate starting points: slide back along each line (library positions; the certificate works from the resulting doubles)
  double x0 = r.uniform(-1, 1) * 6e6 * e.a / gh::WGS84_A, y0 = r.uniform(-1, 1) * 6e6 * e.a / gh::WGS84_A;
  GeodesicLine tx = e.g->Line(lat, lon, aziX), ty = e.g->Line(lat, lon, aziY);
  double a, b, cc, d, f, g; tx.Position(-x0, a, b, cc); ty.Position(-y0, d, f, g);
  Pair P(e, a, b, cc, d, f, g, cls);
  flow(c, P, par, x0, y0, false);
}

// coincident lines: displacement d along X at which X passes through the starting point of Y, X(d) = Y(0) (coarse scan of X every
// 500 km over +-0.6 circumference, then Newton projection on the reference line).  The coincidence line is y = c (x - d).
static bool coincidence_offset(const EllCfg& e, Pair& P, double& d) {
  ld Y0[3], D[3], PX[3], DX[3]; P.rY.eval(0, Y0, D);
  const double h = 5e5 * e.a / gh::WGS84_A; double best = HUGE_VAL; ld xb = 0;
  for (double x = -0.6 * e.circ; x <= 0.6 * e.circ; x += h) { P.rX.eval((ld)x, PX, DX); double g = (double)ref::dist3(PX, Y0); if (g < best || (g < best + 1e-3 && std::fabs(x) < std::fabs((double)xb))) { best = g; xb = x; } }
  if (!project_on_Y(P.rX, Y0, xb, PX, DX)) return false;
  if ((double)ref::dist3(PX, Y0) > 1e-6 * e.a / gh::WGS84_A) return false;
  d = (double)xb; return true;
}
// first zero of the reduced length m12(s) along the reference geodesic from (lat, azi), s > 0 (dir = +1) or s < 0 (dir = -1)
static double conjugate_dist(const EllCfg& e, double lat, double azi, int dir) {
  ref::GeodLine<ld> L(*e.El, (ld)lat, (ld)azi, std::signbit(azi));
  const ld step = 2e5L * e.a / gh::WGS84_A, smax = 1.6L * M_PI * std::max(e.a, e.b);
  ld s0 = 0.25L * M_PI * std::min(e.a, e.b), m0 = L.at_dist(dir * s0).m12;
  for (ld s1 = s0 + step; s1 < smax; s1 += step) {
    ld m1 = L.at_dist(dir * s1).m12;
    if ((m0 < 0) != (m1 < 0)) {
      ld a = s0, b = s1, ma = m0;
      for (int it = 0; it < 200 && b - a > 1e-10L; ++it) { ld mid = (a + b) / 2, mm = L.at_dist(dir * mid).m12; if ((mm < 0) == (ma < 0)) { a = mid; ma = mm; } else b = mid; }
      return (double)(dir * (a + b) / 2);
    }
    s0 = s1; m0 = m1;
  }
  return std::numeric_limits<double>::quiet_NaN();
}
// Next on coincident (c = +1) / reversed (c = -1) lines from a common start: the next intersections on the coincidence line are the
// conjugate points of the start (zeros of m12) in both directions, (s, c s) with L1 = 2|s|; besides them the geodesic may cross
// itself (c = 0).  The documented answer is the L1-nearest of all of these.
static void check_next_coincident(Ctx& c, Pair& P, int csense) {
  EllCfg& e = *P.e; const Intersect& I = *e.in; int ci = 99, ci2 = 99;
  Intersect::Point q = I.Next(P.lX, P.lY, &ci), q2 = I.Next(P.latX, P.lonX, P.aziX, P.aziY, &ci2);
  J w = P.j().f("x", q.first).f("y", q.second).i("c", ci);
  if (!(vh::same_bits(q.first, q2.first) && vh::same_bits(q.second, q2.second) && ci == ci2)) VIOLX(c, "law:C17/intersect/Next/overloads-differ", P.cls, w);
  c.event("coincident Next judged");
  if (!member(c, P, "Next(coincident)", q.first, q.second, true, w)) return;
  if (!c_ok(ci, c_from_tangents(P, q.first, q.second))) VIOLX(c, "oracle:C17/intersect/Next/coincidence-indicator", P.cls, w);
  if (L1(q.first, q.second) < 1e3) { VIOLX(c, "oracle:C17/intersect/Next/returned-the-origin", P.cls, w); return; }
  double sf = conjugate_dist(e, P.latX, P.aziX, +1), sb = conjugate_dist(e, P.latX, P.aziX, -1);
  if (!(std::isfinite(sf) && std::isfinite(sb))) { c.herr("no conjugate point found on a coincident pair"); return; }
  const double Tc = 4 * P.Tgap(sf, sf);
  // a result with c != 0 lies on the coincidence line (y = c x) and is a conjugate point of the start
  if (ci != 0) {
    ref::GeodLine<ld> L(*e.El, (ld)P.latX, (ld)P.aziX, std::signbit(P.aziX)); double m12 = (double)L.at_dist((ld)q.first).m12;
    c.obs("intersect Next(coincident): |m12| at the returned conjugate point / tolerance [" + e.name + "]", std::fabs(m12) / Tc, w);
    // (on the sphere the lines are closed: y = c x holds only modulo the circumference, membership already covers it)
    // (closed lines - sphere, meridians, equator - satisfy y = c x only modulo their period; membership already covers them)
    double sa0, ca0; Math::sincosd(P.aziX, sa0, ca0);
    const bool closed = e.f == 0 || std::fabs(P.latX) > 90 - 1e-9 || sa0 == 0 || (P.latX == 0 && ca0 == 0);
    if (!closed && std::fabs(q.second - ci * q.first) > Tc) VIOLX(c, "oracle:C17/intersect/Next/coincident-result-off-the-coincidence-line", P.cls, w);
    if (std::fabs(m12) > Tc) VIOLX(c, "oracle:C17/intersect/Next/coincident-result-is-not-a-conjugate-point", P.cls, J(w).f("m12", m12).f("conj_fwd", sf).f("conj_bwd", sb).f("tol", Tc));
    if (ci != csense) VIOLX(c, "oracle:C17/intersect/Next/coincidence-indicator", P.cls, J(w).i("expected_c", csense));
  }
  // optimality: L1 minimum over {forward, backward conjugate point, genuine self-crossings}
  Finder st; std::vector<XY> cr = find_all(e, P.rX, P.rY, 0, 0, 1.25 * e.circ, st, csense);
  c.event("certificate runs (coincident lines: conjugate points + self-crossings)");
  double best = std::min(2 * sf, 2 * std::fabs(sb)), tolb = 2 * Tc; const char* which = 2 * sf <= 2 * std::fabs(sb) ? "forward conjugate point" : "backward conjugate point";
  for (const XY& p : cr) { double d = L1((double)p.x, (double)p.y); if (d > 1e3 && std::min(p.angle, M_PI - p.angle) > 1e-6 && d < best) { best = d; tolb = Txy(P, p) + 2 * Tc; which = "self-crossing"; } }
  double dl = L1(q.first, q.second);
  c.obs("intersect Next(coincident): (L1 returned - L1 min) / tolerance [" + e.name + "]", (dl - best) / tolb, w);
  if (dl > best + tolb) VIOLX(c, "oracle:C17/intersect/Next/coincident-not-the-next-nearest", P.cls, J(w).f("L1_returned", dl).f("L1_min", best).str("nearest", which).f("conj_fwd", sf).f("conj_bwd", sb).i("self_crossings", (long long)cr.size()));
  if (ci == 0) {      // a crossing result must be one of the certificate's self-crossings
    double ang; P.gap(q.first, q.second, false, &ang);
    if (ang < 1e-4) c.event("coincident Next: self-crossing at an angle below the certificate's range (membership + optimality only)");
    else if (match(P, cr, q.first, q.second) < 0) VIOLX(c, "oracle:C17/intersect/Next/intersection-unknown-to-certificate", P.cls, J(w).str("certificate", liststr(cr, 0, 0)));
  }
  c.event("coincident Next judged against conjugate points");
}

static void sec_coincident(Ctx& c, uint64_t idx) {
  vh::Rng& r = c.rng; EllCfg& e = pick_ell(r);
  double a, b, cc, d, f, g; int expect; std::string geo;
  switch (idx % 7) {
  case 0: geo = "identical"; random_point(r, a, b); cc = r.uniform(-180, 180); d = a; f = b; g = cc; expect = 1; break;
  case 1: geo = "reversed"; random_point(r, a, b); cc = r.uniform(-179, 179); d = a; f = b; g = cc > 0 ? cc - 180 : cc + 180; expect = -1; break;
  case 2: geo = "equator-same"; a = 0; b = r.uniform(-180, 180); cc = r.coin() ? 90 : -90; d = 0; f = r.uniform(-180, 180); g = cc; expect = 1; break;
  case 3: geo = "equator-opposite"; a = 0; b = r.uniform(-180, 180); cc = r.coin() ? 90 : -90; d = 0; f = r.uniform(-180, 180); g = -cc; expect = -1; break;
  case 4: geo = "meridian-same"; a = r.uniform(-85, 85); b = r.uniform(-180, 180); cc = r.coin() ? 0 : 180; d = r.uniform(-85, 85); f = b; g = cc; expect = 1; break;
  case 5: geo = "meridian-opposite"; a = r.uniform(-85, 85); b = r.uniform(-180, 180); cc = r.coin() ? 0 : 180; d = r.uniform(-85, 85); f = b; g = 180 - cc; expect = -1; break;
  default: geo = "meridian-over-the-pole"; a = r.uniform(-85, 85); b = r.uniform(-180, 0); cc = 0; d = r.uniform(-85, 85); f = b + 180; g = 0; expect = -1; break;
  }
  Pair P(e, a, b, cc, d, f, g, "coincident/" + geo + "/" + e.name);
  c.count(P.cls, P.hash());
  const Intersect& I = *e.in; int ci = 99;
  double x0 = r.coin(0.25) ? 0 : r.uniform(-1, 1) * e.circ, y0 = r.coin(0.25) ? 0 : r.uniform(-1, 1) * e.circ;
  // KNOWN regime (thorough tier, seed 2; reproduced against the library): coincident lines with the reference point p0 about one
  // circumference or more (L1) from the common origin -- Closest returns a point of the coincidence line that is not the L1-nearest
  // one and flags it c = 0, All misses it or returns nothing although Closest is within maxdist, membership residuals of microns
  RegimeGuard rg_(std::fabs(x0) + std::fabs(y0) > 0.95 * e.circ ? "regime:C17/intersect/coincident-lines-with-p0-beyond-one-circumference" : "");
  Intersect::Point p = I.Closest(P.lX, P.lY, Intersect::Point(x0, y0), &ci);
  const int sense = expect;
  J w = P.j().f("p0x", x0).f("p0y", y0).f("x", p.first).f("y", p.second).i("c", ci).i("expected_c", expect);
  { int c2 = 99; Intersect::Point p2 = I.Closest(a, b, cc, d, f, g, Intersect::Point(x0, y0), &c2);
    if (!(vh::same_bits(p.first, p2.first) && vh::same_bits(p.second, p2.second) && ci == c2)) VIOLX(c, "law:C17/intersect/Closest/overloads-differ", P.cls, J(w).f("x2", p2.first).f("y2", p2.second)); }
  bool okm = member(c, P, "Closest(coincident)", p.first, p.second, true, w);
  // OPTIMALITY on coincident lines: every (x, c (x - dd)) is an intersection, so the closest one to p0 is at L1 distance
  // <= |y0 - c (x0 - dd)| (self-crossings / further laps of a closed line can only be closer)
  double dd = 0, Lline = -1; const double Tl = 4 * P.Tgap(x0, y0) + 4 * P.Tgap(p.first, p.second);
  if (coincidence_offset(e, P, dd)) {
    Lline = std::fabs(y0 - sense * (x0 - dd));
    double dl = L1(p.first, p.second, x0, y0);
    c.obs("intersect Closest(coincident): (L1 returned - L1 of the coincidence line from p0) / tolerance [" + e.name + "]", (dl - Lline) / Tl, w);
    c.event("coincident Closest judged against the coincidence line");
    if (okm && dl > Lline + Tl) VIOLX(c, "oracle:C17/intersect/Closest/coincident-not-the-L1-minimum", P.cls, J(w).f("L1_returned", dl).f("L1_line", Lline).f("offset_d", dd).f("tol", Tl));
  } else c.herr("could not locate the start of Y on X for a coincident pair");
  if (okm) { int ct = c_from_tangents(P, p.first, p.second); if (ct == 0) c.event("coincident lines: returned a genuine (self-)crossing, c = 0 expected"); else if (ct != expect && ct != 3 * expect) c.herr("coincident construction has the wrong sense"); expect = ct; }
  if (okm && !c_ok(ci, expect)) VIOLX(c, "oracle:C17/intersect/Closest/coincidence-indicator", P.cls, w);
  c.event("coincident Closest judged");
  { double md = r.coin(0.3) && Lline >= 0 ? Lline + r.logu(1, 3e6) : r.uniform(0, 1.5) * e.circ; std::vector<int> cv, cv2; std::vector<Intersect::Point> v = I.All(P.lX, P.lY, md, cv, Intersect::Point(x0, y0));
    std::vector<Intersect::Point> v2 = I.All(a, b, cc, d, f, g, md, cv2, Intersect::Point(x0, y0));
    double prev = -1; J wa = J(w).f("maxdist", md).i("returned", (long long)v.size());
    { bool same = v.size() == v2.size() && cv == cv2; for (size_t k = 0; same && k < v.size(); ++k) same = vh::same_bits(v[k].first, v2[k].first) && vh::same_bits(v[k].second, v2[k].second);
      if (!same) VIOLX(c, "law:C17/intersect/All/overloads-differ", P.cls, wa); }
    // the closest point of the coincidence line is within maxdist => All must list an intersection at most that far from p0
    if (Lline >= 0 && Lline + Tl <= md) {
      c.event("coincident All judged against the coincidence line");
      if (v.empty() || Intersect::Dist(v[0], Intersect::Point(x0, y0)) > Lline + Tl)
        VIOLX(c, "oracle:C17/intersect/All/coincident-missed-the-closest-intersection", P.cls, J(wa).f("L1_line", Lline).f("offset_d", dd).f("first_dist", v.empty() ? -1.0 : Intersect::Dist(v[0], Intersect::Point(x0, y0))));
    }
    for (size_t k = 0; k < v.size(); ++k) { double dd = Intersect::Dist(v[k], Intersect::Point(x0, y0));
      if (!(dd <= md)) VIOLX(c, "law:C17/intersect/All/point-beyond-maxdist", P.cls, J(wa).i("k", (long long)k));
      if (dd < prev) VIOLX(c, "law:C17/intersect/All/not-sorted-by-distance", P.cls, J(wa).i("k", (long long)k)); prev = dd;
      if (!member(c, P, "All(coincident)", v[k].first, v[k].second, false, J(wa).i("k", (long long)k))) continue;
      if (!c_ok(cv[k], c_from_tangents(P, v[k].first, v[k].second))) VIOLX(c, "oracle:C17/intersect/All/coincidence-indicator", P.cls, J(wa).i("k", (long long)k).i("ck", cv[k])); }
    if (v.empty() && L1(p.first, p.second, x0, y0) <= md) VIOLX(c, "oracle:C17/intersect/All/empty-although-Closest-is-within-maxdist", P.cls, wa);
    c.event("coincident All judged"); }
  if (idx % 7 < 2) check_next_coincident(c, P, idx % 7 == 0 ? 1 : -1);     // same starting point
}

static void sec_segment(Ctx& c, uint64_t idx) {
  vh::Rng& r = c.rng; EllCfg& e = idx < 12 ? ells()[idx % ells().size()] : pick_ell(r);
  const double sc = e.a / gh::WGS84_A;
  int kind = (int)(idx % 8);
  if (kind == 6) {      // random long segments, judged by the certificate
    double p[8]; for (int k = 0; k < 4; ++k) random_point(r, p[2 * k], p[2 * k + 1]);
    double s1, s2; e.g->Inverse(p[0], p[1], p[2], p[3], s1); e.g->Inverse(p[4], p[5], p[6], p[7], s2);
    double lim = 0.85 * M_PI * std::min(e.a, e.b); if (s1 > lim || s2 > lim) { c.event("random segment pair skipped (not safely a unique shortest path)"); return; }
    std::string cls = "segments/random-long/" + e.name; c.count(cls, vh::hmix(vh::hmix(vh::hstr(cls.c_str()), p[0]), p[5]));
    check_segment(c, e, p[0], p[1], p[2], p[3], p[4], p[5], p[6], p[7], cls, nullptr, true, 0);
    return;
  }
  if (kind == 7) {      // exactly coincident segments on the equator / a meridian
    bool eq = r.coin(); double t0 = r.uniform(-170, 100), t1 = t0 + r.uniform(5, 60), u0 = r.uniform(-170, 100), u1 = u0 + r.uniform(5, 60); bool rev = r.coin(); if (rev) std::swap(u0, u1);
    if (!eq) { t0 = t0 / 2.2; t1 = t1 / 2.2; u0 = u0 / 2.2; u1 = u1 / 2.2; }
    std::string cls = std::string("segments/coincident/") + (eq ? "equator" : "meridian") + (rev ? "-opposite/" : "-same/") + e.name; c.count(cls, vh::hmix(vh::hmix(vh::hstr(cls.c_str()), t0), u0));
    double L = r.uniform(-30, 30);
    bool overlap = std::max(t0, t1) > std::min(u0, u1) + 1e-3 && std::max(u0, u1) > std::min(t0, t1) + 1e-3, apart = std::max(t0, t1) < std::min(u0, u1) - 1e-3 || std::max(u0, u1) < std::min(t0, t1) - 1e-3;
    const Intersect& I = *e.in; int sm = 99, ci = 99;
    Intersect::Point p = eq ? I.Segment(0, t0, 0, t1, 0, u0, 0, u1, sm, &ci) : I.Segment(t0, L, t1, L, u0, L, u1, L, sm, &ci);
    GeodesicLine lX = eq ? e.g->InverseLine(0, t0, 0, t1) : e.g->InverseLine(t0, L, t1, L), lY = eq ? e.g->InverseLine(0, u0, 0, u1) : e.g->InverseLine(u0, L, u1, L);
    Pair P(e, lX.Latitude(), lX.Longitude(), lX.Azimuth(), lY.Latitude(), lY.Longitude(), lY.Azimuth(), cls);
    J w = P.j().f("t0", t0).f("t1", t1).f("u0", u0).f("u1", u1).f("x", p.first).f("y", p.second).i("segmode", sm).i("c", ci);
    member(c, P, "Segment(coincident)", p.first, p.second, true, w);
    if (!c_ok(ci, c_from_tangents(P, p.first, p.second)) || ci != (rev ? -1 : 1)) VIOLX(c, "oracle:C17/intersect/Segment/coincidence-indicator", cls, w);
    if (overlap && sm != 0) VIOLX(c, "oracle:C17/intersect/Segment/coincident-overlapping-segments-but-segmode-nonzero", cls, w);
    if (apart && sm == 0) VIOLX(c, "oracle:C17/intersect/Segment/coincident-disjoint-segments-but-segmode-zero", cls, w);
    if (sm != segmode_doc(p.first, p.second, lX.Distance(), lY.Distance())) VIOLX(c, "law:C17/intersect/Segment/segmode-is-not-the-documented-function-of-the-point", cls, w);
    c.event("coincident Segment judged");
    return;
  }
  // constructed around a crossing point C: X through C with azimuth aX, Y with aY
  double lat, lon; random_point(r, lat, lon); if (std::fabs(lat) > 88) lat = r.uniform(-80, 80);
  double aX = r.uniform(-180, 180), ang = r.coin(0.2) ? r.logu(1e-3, 0.1) : r.uniform(0.1, M_PI - 0.1), aY = aX + r.sign() * ang / (M_PI / 180);
  RLine<ld> RX(*e.El, lat, lon, aX), RY(*e.El, lat, lon, aY);
  auto at = [&](RLine<ld>& L, double s, double& la, double& lo) { ld X[3], D[3], lla[3]; L.eval((ld)s, X, D, lla); la = (double)lla[0]; lo = (double)ref::remainder(lla[1], (ld)360); if (std::fabs(la) > 90) la = std::copysign(90.0, la); };
  auto len = [&]() { return r.coin(0.3) ? r.logu(1, 1e5) * sc : r.uniform(1e5, 4e6) * sc; };
  // signed start/end parameters of the segments relative to C (start < end)
  double xs, xe, ys, ye; SegExpect ex; ex.known = true; std::string kn;
  auto side = [&](int k, double& s, double& en, int& lo, int& hi) {   // k: 0 inside, 1 C beyond the end, -1 C before the start, 2 end exactly at C, -2 start exactly at C
    if (k == 0) { s = -len(); en = len(); lo = hi = 0; } else if (k == 1) { en = -r.logu(1e-3, 1e6) * sc; s = en - len(); lo = hi = 1; }
    else if (k == -1) { s = r.logu(1e-3, 1e6) * sc; en = s + len(); lo = hi = -1; } else if (k == 2) { en = 0; s = -len(); lo = 0; hi = 1; } else { s = 0; en = len(); lo = -1; hi = 0; } };
  static const int kinds[6][2] = {{0, 0}, {1, 0}, {0, -1}, {1, -1}, {2, 0}, {-2, 2}};
  static const char* kname[6] = {"inside", "beyond-X-end", "before-Y-start", "outside-both", "X-ends-at-crossing", "both-touch-at-end-points"};
  side(kinds[kind][0], xs, xe, ex.kx_lo, ex.kx_hi); side(kinds[kind][1], ys, ye, ex.ky_lo, ex.ky_hi); kn = kname[kind];
  double p[8]; at(RX, xs, p[0], p[1]); at(RX, xe, p[2], p[3]); at(RY, ys, p[4], p[5]); at(RY, ye, p[6], p[7]);
  int ul = 0;
  if (kind >= 4 && r.coin(0.6)) { ul = r.range(-1, 1); int which = (int)r.below(2); double& v = kind == 4 ? p[2 + which] : p[which]; v = vh::ulps(v, ul); }   // end point at C moved by 0, +-1 ulp
  ex.x = -xs; ex.y = -ys;
  std::string cls = "segments/constructed/" + kn + "/" + angcls(ang) + "/" + e.name;
  c.count(cls, vh::hmix(vh::hmix(vh::hmix(vh::hmix(vh::hstr(cls.c_str()), lat), lon), aX), xs));
  if (c.want_sample(cls)) c.sample(cls, J().f("lat", lat).f("lon", lon).f("aX", aX).f("aY", aY).f("xs", xs).f("xe", xe).f("ys", ys).f("ye", ye).i("ulp", ul));
  check_segment(c, e, p[0], p[1], p[2], p[3], p[4], p[5], p[6], p[7], cls, &ex, r.coin(c.quick() ? 0.15 : 0.3), 0);
}

int main(int argc, char** argv) {
  std::vector<Section> S;
  S.push_back({"lines", 3000, 40000, true, sec_random, 300});
  S.push_back({"near-parallel", 1600, 20000, true, sec_nearparallel, 300});
  S.push_back({"coincident", 700, 8000, true, sec_coincident, 300});
  S.push_back({"segments", 2700, 36000, true, sec_segment, 300});
  return vh::run_sections(argc, argv, S);
}
