// C19 — spherical-harmonic sums, magnetic / gravity models loaded from (synthetic) files, normal gravity.
// Monitors: float128 reference (oracle/ref_harm.hpp: explicit Legendre table + term-by-term sum, closed-form
// Somigliana-Pizzetti normal gravity) next to every library call; law monitors (gradient == central difference of
// the library's own value, circle == direct evaluation, value-only overload == value+gradient overload,
// J2 <-> f round trip, div Gamma == 0); sentinels on outputs that must stay untouched.
#include <GeographicLib/SphericalHarmonic.hpp>
#include <GeographicLib/SphericalHarmonic1.hpp>
#include <GeographicLib/SphericalHarmonic2.hpp>
#include <GeographicLib/CircularEngine.hpp>
#include <GeographicLib/MagneticModel.hpp>
#include <GeographicLib/MagneticCircle.hpp>
#include <GeographicLib/GravityModel.hpp>
#include <GeographicLib/GravityCircle.hpp>
#include <GeographicLib/NormalGravity.hpp>
#include <GeographicLib/Geocentric.hpp>
#include <memory>
#include "harness/common.hpp"
#include "oracle/ref_harm.hpp"
#include "oracle/ref_modelfiles.hpp"

using namespace GeographicLib;
using vh::Ctx; using vh::J; using vh::Section;
typedef ref::Q Q;
static const double EPS = std::numeric_limits<double>::epsilon();
static const double EPS15 = EPS * std::sqrt(EPS);          // the library moves points this close to the axis off it
static const double DMIN = std::numeric_limits<double>::min();
static const double INF = std::numeric_limits<double>::infinity();

// ---------------------------------------------------------------------------- tolerances (see checks/C19.py)
// value:    K_V * eps * sum [(n+1)|term| + |d term/d theta|]      gradient: K_G * eps * sum (n+2)|gradient term|
// Every K is a base constant times g_kfac = max(1, sqrt((N+1)/16)), N = degree of the case: for single high-degree terms the
// double Clenshaw summation of the library is observed (not a defect) to lose a little more than n*eps (thorough: 60 eps*scale
// at N = 360, 9 at N <= 8); the factor keeps the low-degree checks sharp.
static double g_kfac = 1;
static inline void set_degree_factor(int N) { g_kfac = std::max(1.0, std::sqrt((N + 1) / 16.0)); }
#define K_V (24.0 * g_kfac)
#define K_G (16.0 * g_kfac)
// circle vs direct evaluation of the library itself (two library results, both with the error above)
#define K_C (24.0 * g_kfac)
// models: same measure, one more rounding layer (geodetic -> geocentric, time interpolation, rotation)
#define K_M (16.0 * g_kfac)
// disturbing-potential quantities (T, delta, geoid height, anomaly): difference of two fields, J_n, flattening from J2, rotations
#define K_T (64.0 * g_kfac)

static inline double dq(Q v) { return (double)v; }
static inline double absd(Q v) { return (double)fabsq(v); }
static std::string qs(Q v) { char b[64]; quadmath_snprintf(b, sizeof b, "%.25Qg", v); return b; }

// ---------------------------------------------------------------------------- packed (library layout) coefficients
struct Packed {
  int N = -1; std::vector<double> C, S;
  explicit Packed(int N_ = -1) : N(N_) { if (N >= 0) { C.assign((size_t)(N + 1) * (N + 2) / 2, 0.0); S.assign((size_t)N * (N + 1) / 2, 0.0); } }
  int ci(int n, int m) const { return m * N - m * (m - 1) / 2 + n; }          // documented layout
  double& c(int n, int m) { return C[ci(n, m)]; }
  double& s(int n, int m) { return S[ci(n, m) - (N + 1)]; }
  double c(int n, int m) const { return C[ci(n, m)]; }
  double s(int n, int m) const { return m ? S[ci(n, m) - (N + 1)] : 0.0; }
};
// dense float128 copy with truncation (n <= nmx, m <= mmx) and multiplier; accumulates into D (size tri(Nd,Nd)+1)
static void add_dense(std::vector<Q>& DC, std::vector<Q>& DS, int Nd, const Packed& P, int nmx, int mmx, Q mult,
                      std::vector<Q>* AC = nullptr, std::vector<Q>* AS = nullptr) {
  for (int n = 0; n <= std::min(nmx, Nd); ++n) for (int m = 0; m <= std::min(n, mmx); ++m) {
    DC[ref::tri(n, m)] += mult * (Q)P.c(n, m); if (AC) (*AC)[ref::tri(n, m)] += fabsq(mult * (Q)P.c(n, m));
    if (m) { DS[ref::tri(n, m)] += mult * (Q)P.s(n, m); if (AS) (*AS)[ref::tri(n, m)] += fabsq(mult * (Q)P.s(n, m)); }
  }
}

enum CoefStyle { CS_DECAY, CS_FLAT, CS_SINGLE, CS_ALT, CS_HUGE, CS_TINY, CS_MIXED, CS_NSTYLES };
static const char* coefstyle_name[] = {"decay", "flat", "single", "alternating", "huge1e150", "tiny1e-150", "mixed-magnitude"};
static void fill_coeffs(vh::Rng& r, Packed& P, int style, double scale = 1) {
  int N = P.N; if (N < 0) return;
  auto rnd = [&]() { return r.uniform(-1, 1); };
  switch (style) {
  case CS_DECAY: for (int n = 0; n <= N; ++n) for (int m = 0; m <= n; ++m) { double d = scale / ((n + 1.0) * (n + 1.0)); P.c(n, m) = rnd() * d; if (m) P.s(n, m) = rnd() * d; } break;
  case CS_FLAT: for (int n = 0; n <= N; ++n) for (int m = 0; m <= n; ++m) { P.c(n, m) = rnd() * scale; if (m) P.s(n, m) = rnd() * scale; } break;
  case CS_SINGLE: { int n = r.range(0, N), m = r.coin(0.3) ? (r.coin() ? 0 : n) : r.range(0, n); int w = m ? r.range(0, 2) : 0;
    if (w != 1) P.c(n, m) = r.sign() * r.logu(0.1, 10) * scale; if (w != 0) P.s(n, m) = r.sign() * r.logu(0.1, 10) * scale; break; }
  case CS_ALT: for (int n = 0; n <= N; ++n) for (int m = 0; m <= n; ++m) { double v = ((n + m) & 1) ? -scale : scale; P.c(n, m) = v; if (m) P.s(n, m) = -v; } break;
  case CS_HUGE: for (int n = 0; n <= N; ++n) for (int m = 0; m <= n; ++m) { double d = 1e150 / (n + 1.0); P.c(n, m) = rnd() * d; if (m) P.s(n, m) = rnd() * d; } break;
  case CS_TINY: for (int n = 0; n <= N; ++n) for (int m = 0; m <= n; ++m) { double d = 1e-150 / (n + 1.0); P.c(n, m) = rnd() * d; if (m) P.s(n, m) = rnd() * d; } break;
  default: for (int n = 0; n <= N; ++n) for (int m = 0; m <= n; ++m) { P.c(n, m) = r.sign() * r.logu(1e-30, 1e30); if (m) P.s(n, m) = r.coin(0.2) ? 0.0 : r.sign() * r.logu(1e-30, 1e30); } break;
  }
}

// ---------------------------------------------------------------------------- points
enum PtStyle { PT_GENERIC, PT_AXIS, PT_EQUATOR, PT_NEARPOLE, PT_DENORMP, PT_NEAREQ, PT_MERIDIAN, PT_FAR, PT_NEAR, PT_NSTYLES };
static const char* ptstyle_name[] = {"generic", "polar-axis", "equator", "near-pole", "denormal-p", "near-equator", "meridian-plane", "far-field", "inside-r<a"};
struct Pt { double x, y, z; int style; };
// rr = r/a range allowed for this degree so that q^(N+1) stays representable (|log10| <= 250) except in far/near styles
static Pt gen_point(vh::Rng& r, double a, int N, int style = -1) {
  if (style < 0) { static const int w[] = {PT_GENERIC, PT_GENERIC, PT_GENERIC, PT_AXIS, PT_EQUATOR, PT_NEARPOLE, PT_DENORMP, PT_NEAREQ, PT_MERIDIAN, PT_FAR, PT_NEAR, PT_GENERIC}; style = r.pick(w); }
  double lim = std::min(3.0, 250.0 / (N + 1));                       // decades inside
  double limout = std::min(6.0, 250.0 / (N + 1));
  double rho;
  if (style == PT_FAR) rho = a * std::pow(10.0, r.uniform(0, limout));
  else if (style == PT_NEAR) rho = a * std::pow(10.0, -r.uniform(0, lim));
  else rho = a * (r.coin(0.8) ? r.uniform(0.7, 3) : std::pow(10.0, r.uniform(-std::min(lim, 1.0), std::min(limout, 2.0))));
  double lam = r.uniform(-M_PI, M_PI), th = std::acos(r.uniform(-1, 1));
  Pt p; p.style = style;
  switch (style) {
  case PT_AXIS: p.x = 0; p.y = r.coin(0.2) ? -0.0 : 0.0; p.z = r.sign() * rho; break;
  case PT_EQUATOR: p.x = rho * std::cos(lam); p.y = rho * std::sin(lam); p.z = r.coin(0.3) ? -0.0 : 0.0; break;
  case PT_NEARPOLE: { double u = r.logu(1e-30, 1e-2); p.x = rho * u * std::cos(lam); p.y = rho * u * std::sin(lam); p.z = r.sign() * rho; break; }
  case PT_DENORMP: { p.x = r.sign() * std::ldexp(r.u(), -1022) * (r.coin(0.3) ? 1e-10 : 1); p.y = r.coin(0.3) ? 0 : r.sign() * std::ldexp(r.u(), -1022) * (r.coin(0.3) ? 1e-10 : 1);
    if (r.coin(0.15)) { p.x = r.sign() * 5e-324; p.y = r.sign() * 5e-324; } p.z = r.sign() * rho; break; }
  case PT_NEAREQ: { double t = r.coin(0.3) ? std::ldexp(r.u(), -1022) / rho : r.logu(1e-30, 1e-2); p.x = rho * std::cos(lam); p.y = rho * std::sin(lam); p.z = r.sign() * rho * t; break; }
  case PT_MERIDIAN: { int k = (int)r.below(4); double s = rho * std::sin(th), c = rho * std::cos(th); p.z = c;
    p.x = k == 0 ? s : k == 1 ? -s : 0; p.y = k == 2 ? s : k == 3 ? -s : 0; break; }
  default: p.x = rho * std::sin(th) * std::cos(lam); p.y = rho * std::sin(th) * std::sin(lam); p.z = rho * std::cos(th); break;
  }
  return p;
}

// ---------------------------------------------------------------------------- comparison helper
struct Cmp { double ev, eg; };     // errors in units of the tolerance scale (value, gradient), already divided by eps
// extra allowance for the library's documented-in-source displacement of near-axis points to sin(theta) = eps^1.5
struct AxisAllow { Q dV = 0, dG = 0, sabs2 = 0, small2 = 0; };

struct RefEval {
  ref::HarmPoint g; ref::Legendre L; bool axis; ref::HarmPoint g2; ref::Legendre L2;
  RefEval(double x, double y, double z, int N, ref::HarmNorm norm) : g(x, y, z), g2(x, y, z) {
    L.compute(N, N, norm, g.t, g.u);
    axis = g.u < (Q)EPS15;
    if (axis) { g2.u = EPS15; L2.compute(N, N, norm, g2.t, g2.u); }
  }
  ref::HarmResult sum(Q a, const std::vector<Q>& C, const std::vector<Q>& S, int nmx, int mmx, AxisAllow& al,
                      const std::vector<Q>* CA = nullptr, const std::vector<Q>* SA = nullptr) const {
    ref::HarmResult o = ref::harm_sum(L, g, a, C, S, nmx, mmx, true, CA, SA);
    al = AxisAllow();
    if (axis) { ref::HarmResult o2 = ref::harm_sum(L2, g2, a, C, S, nmx, mmx, true, CA, SA);
      // net change of the sum by the displacement + everything that vanishes on the axis (the library's longitude there is arbitrary)
      al.dV = fabsq(o2.V - o.V) + o2.sabs_m1; al.dG = fmaxq(fmaxq(fabsq(o2.gx - o.gx), fabsq(o2.gy - o.gy)), fabsq(o2.gz - o.gz)) + o2.gabs_m2;
      al.sabs2 = o2.sabs; al.small2 = o2.sabs_small; }
    return o;
  }
};

static inline bool finite3(double a, double b, double c) { return std::isfinite(a) && std::isfinite(b) && std::isfinite(c); }

// judge library (V,gx,gy,gz) against REF; returns errors / (eps * scale).  K multiplies the tolerance.
struct Judge { bool skip; double ev, eg; double tolV, tolG; };
static Judge judge(const ref::HarmResult& o, const AxisAllow& al, double V, double gx, double gy, double gz, bool havegrad) {
  Judge j; j.skip = false; j.ev = j.eg = 0;
  // out of double range: nothing to compare (the true result is not representable)
  if (!(o.sabs_n < (Q)1e290) || !(o.gabs_n < (Q)1e290)) { j.skip = true; return j; }
  Q sv = (Q)EPS * o.sabs_n + al.dV / K_V + (Q)5e-324, sg = (Q)EPS * o.gabs_n + al.dG / K_G + (Q)5e-324;
  j.tolV = dq(sv); j.tolG = dq(sg);
  j.ev = std::isfinite(V) ? dq(fabsq((Q)V - o.V) / sv) : INF;
  if (havegrad) {
    if (!finite3(gx, gy, gz)) j.eg = INF;
    else j.eg = dq(fmaxq(fmaxq(fabsq((Q)gx - o.gx), fabsq((Q)gy - o.gy)), fabsq((Q)gz - o.gz)) / sg);
  }
  return j;
}

// is the (scaled) computation inside the library in the subnormal range?  internal scale = 2^-614
// Regime (derived from the inputs only): (U1) a significant part of the sum comes from coefficients c with c*2^-614 subnormal
// to within 16/eps, i.e. |c| < ~1e-106, or (U2) the whole sum times 2^-614 (/q) is in that range.
static const double SMALLCOEF = 1e-106;
// narrow keys of two genuine corner-case defects (one key per defect, whichever monitor sees it)
static const std::string KEY_UNDER = "oracle:C19/sh/coefficient-scaling-underflow";   // coefficients < ~1e-106 lose precision / flush to 0
static const std::string KEY_DENORMP = "oracle:C19/sh/denormal-p-longitude";          // hypot(x,y) subnormal: cos/sin(lambda) not normalised
// On the axis the sum the library actually forms is the one at its displaced colatitude (al.sabs2).
static bool scaled_underflow(const ref::HarmResult& o, Q q, const AxisAllow* al = nullptr) {
  Q S = o.sabs, Ssm = o.sabs_small;
  if (al && al->sabs2 > S) { S = al->sabs2; Ssm = al->small2; }
  if (!(S > 0)) return false;
  Q sc = ldexpq((Q)1, -614), lim = (Q)DMIN / (Q)EPS * 16;
  return Ssm > S * (Q)EPS / 64 || S * sc < lim || S * sc / q < lim;
}

static std::string nbucket(int N) { return N <= 3 ? "N0-3" : N <= 20 ? "N8-20" : N <= 60 ? "N60" : "N200-360"; }

// ---------------------------------------------------------------------------- section: oracle self-test
static void sec_selftest(Ctx& c, uint64_t idx) {
  vh::Rng& r = c.rng;
  auto fail = [&](const std::string& w) { c.herr("REF self-test failed: " + w); };
  if (idx % 4 == 0) {
    // Legendre table against the explicit definition (Ferrers function, documented normalisation), n <= 12
    // theta = dl (sg = +1) or pi - dl (sg = -1), parametrised by the distance dl to the nearer pole so that nothing is lost in pi - theta
    Q dl = (Q)r.uniform(0, M_PI / 2), sg = r.coin() ? 1 : -1; if (idx % 8 == 0) dl = (Q)r.logu(1e-12, 1e-2);
    Q th = dl, t = sg * cosq(dl), u = sinq(dl);
    for (int nm = 0; nm < 2; ++nm) {
      ref::Legendre L; L.compute(12, 12, (ref::HarmNorm)nm, t, u);
      for (int n = 0; n <= 12; ++n) for (int m = 0; m <= n; ++m) {
        Q e = ref::legendre_explicit(n, m, (ref::HarmNorm)nm, t, u), g = L.P(n, m);
        Q mf = 1; for (int j = 2; j <= m; ++j) mf *= j;
        Q lim = (Q)1e-27 * (fabsq(e) + powq(u, m) * powq(n + 1, m) / mf);
        if (!(fabsq(e - g) <= lim)) fail("P(" + std::to_string(n) + "," + std::to_string(m) + ") table " + qs(g) + " vs definition " + qs(e));
        // derivative table against a float128 central difference of the definition
        Q h = (Q)1e-9 * fminq(1, th); Q e1 = ref::legendre_explicit(n, m, (ref::HarmNorm)nm, sg * cosq(th + h), sinq(th + h)), e0 = ref::legendre_explicit(n, m, (ref::HarmNorm)nm, sg * cosq(th - h), sinq(th - h));
        Q d = sg * (e1 - e0) / (2 * h), gd = L.dP(n, m);
        if (!(fabsq(d - gd) <= (Q)1e-14 * (fabsq(gd) + powq(u, m > 0 ? m - 1 : 0) * powq(n + 1, m + 1) / mf) + (Q)1e-30 * (n + 1) * fabsq(e) / h)) fail("dP/dtheta(" + std::to_string(n) + "," + std::to_string(m) + ") " + qs(gd) + " vs " + qs(d));
      }
    }
    c.count("selftest/legendre-vs-definition", idx, true);
  } else if (idx % 4 == 1) {
    // addition theorem up to degree 360: sum_m Pbar_nm(1) Pbar_nm(2) cos m(l1-l2) = (2n+1) P_n(cos psi)
    int N = idx % 8 == 1 ? 360 : 60;
    Q t1 = (Q)r.uniform(-1, 1), t2 = (Q)r.uniform(-1, 1), dl = (Q)r.uniform(-M_PI, M_PI);
    if (r.coin(0.3)) t1 = 1 - (Q)r.logu(1e-20, 1e-3);
    Q u1 = sqrtq((1 - t1) * (1 + t1)), u2 = sqrtq((1 - t2) * (1 + t2));
    ref::Legendre A, B; A.compute(N, N, ref::HARM_FULL, t1, u1); B.compute(N, N, ref::HARM_FULL, t2, u2);
    Q cpsi = t1 * t2 + u1 * u2 * cosq(dl);
    for (int n = 0; n <= N; n += (n < 20 ? 1 : 17)) {
      Q s = 0; for (int m = 0; m <= n; ++m) s += A.P(n, m) * B.P(n, m) * cosq(m * dl);
      Q e = (2 * n + 1) * ref::legendre_Pn(n, cpsi);
      if (!(fabsq(s - e) <= (Q)1e-26 * (2 * n + 1) * (n + 1))) fail("addition theorem n=" + std::to_string(n) + " " + qs(s) + " vs " + qs(e));
    }
    c.count("selftest/addition-theorem", idx, true);
  } else if (idx % 4 == 2) {
    // analytic gradient of REF == central difference of REF's value (float128), incl. near the axis
    int N = r.pick(std::vector<int>{1, 2, 3, 8, 20, 60});
    ref::HarmNorm nm = (ref::HarmNorm)r.below(2);
    Packed P(N); fill_coeffs(r, P, r.coin() ? CS_DECAY : CS_FLAT);
    std::vector<Q> C(ref::tri(N, N) + 1, 0), S(C.size(), 0); add_dense(C, S, N, P, N, N, 1);
    Pt p = gen_point(r, 1.0, N, r.coin(0.3) ? PT_NEARPOLE : PT_GENERIC);
    Q x = p.x, y = p.y, z = p.z, rr = sqrtq(x * x + y * y + z * z), h = rr * (Q)1e-8 / (N + 1);
    ref::HarmResult o = ref::harm_eval(N, N, nm, 1, C, S, x, y, z, true);
    Q g[3] = {o.gx, o.gy, o.gz};
    for (int ax = 0; ax < 3; ++ax) {
      Q pp[3] = {x, y, z}, pm[3] = {x, y, z}; pp[ax] += h; pm[ax] -= h;
      Q d = (ref::harm_eval(N, N, nm, 1, C, S, pp[0], pp[1], pp[2], false).V - ref::harm_eval(N, N, nm, 1, C, S, pm[0], pm[1], pm[2], false).V) / (2 * h);
      if (!(fabsq(d - g[ax]) <= (Q)1e-12 * o.gabs_n)) fail("REF gradient axis " + std::to_string(ax) + " analytic " + qs(g[ax]) + " vs difference " + qs(d) + " N=" + std::to_string(N));
    }
    c.count("selftest/ref-gradient-vs-difference", idx, true);
  } else {
    // normal gravity closed form: harmonic outside, constant on the ellipsoid, |grad U| on the surface == Somigliana,
    // J_n closed form == projection of the closed-form potential on Legendre polynomials
    static const double fl[] = {0, 1 / 298.257223563, -1 / 298.257223563, 0.1, -0.1, 0.3, -0.3, 0.49, -0.49, 1e-6, -1e-9};
    Q f = (Q)r.pick(fl), a = 1, GM = 1, om = (Q)r.uniform(0, 0.5);
    ref::NormalGravityRef G(a, GM, om, f);
    Q U0 = G.U0();
    for (int k = 0; k < 7; ++k) {
      double lat = k == 0 ? 0 : k == 1 ? 90 : k == 2 ? -90 : r.uniform(-90, 90);
      ref::GeoFrame F = ref::geodetic_frame(a, f, lat, r.uniform(-180, 180), 0);
      Q Us = G.U(F.X, F.Y, F.Z);
      if (!(fabsq(Us - U0) <= (Q)1e-28 * fabsq(U0))) fail("U on ellipsoid " + qs(Us) + " vs U0 " + qs(U0) + " f=" + qs(f));
      Q gx, gy, gz; G.gradU(F.X, F.Y, F.Z, gx, gy, gz);
      Q e, n, u; ref::to_enu(F, gx, gy, gz, e, n, u);
      Q som = G.somigliana(lat);
      if (!(fabsq(-u - som) <= (Q)1e-20 * fabsq(som) && fabsq(e) + fabsq(n) <= (Q)1e-20 * fabsq(som)))
        fail("surface gravity: grad U = (" + qs(e) + "," + qs(n) + "," + qs(u) + ") vs Somigliana " + qs(som) + " f=" + qs(f) + " lat=" + std::to_string(lat));
      ref::GeoFrame H = ref::geodetic_frame(a, f, lat, r.uniform(-180, 180), (Q)r.logu(1e-3, 10));
      Q lap = G.laplaceV0(H.X, H.Y, H.Z), sc = fabsq(G.V0(H.X, H.Y, H.Z)) / (H.X * H.X + H.Y * H.Y + H.Z * H.Z);
      if (!(fabsq(lap) <= (Q)1e-7 * sc)) fail("Laplacian of REF V0 " + qs(lap) + " scale " + qs(sc));
    }
    Q rho = fmaxq(a, G.b) * 2;
    for (int n = 2; n <= 10; n += 2) {
      Q jc = G.Jn(n), jq = G.Jn_quadrature(n, rho);
      if (!(fabsq(jc - jq) <= (Q)1e-22 * powq(2 * fmaxq(1, 1 - f), n))) fail("J" + std::to_string(n) + " closed " + qs(jc) + " vs projection " + qs(jq) + " f=" + qs(f) + " omega=" + qs(om));
    }
    // f(J2(f)) == f
    Q fb = ref::NormalGravityRef::f_of_J2(a, GM, om, G.J2());
    if (!(fabsq(fb - f) <= (Q)1e-25)) fail("f_of_J2(J2(f)) " + qs(fb) + " vs " + qs(f));
    c.count("selftest/normal-gravity-closed-form", idx, true);
  }
}

#include "harness/C19_sh.hpp"
#include "harness/C19_models.hpp"
#include "harness/C19_gravity.hpp"
#include "harness/C19_normal.hpp"

int main(int argc, char** argv) {
  ref::harm_small_threshold() = SMALLCOEF;
  std::vector<Section> S;
  S.push_back({"selftest", 64, 400, false, sec_selftest, 120});
  S.push_back({"sh", 30000, 600000, true, sec_sh, 120});
  S.push_back({"fieldcomp", 20000, 600000, true, sec_fieldcomp});
  S.push_back({"magnetic", 10000, 200000, true, sec_magnetic, 120});
  S.push_back({"gravity", 4000, 80000, true, sec_gravity, 120});
  S.push_back({"normal", 2000, 60000, true, sec_normal, 60});
  return vh::run_sections(argc, argv, S);
}
