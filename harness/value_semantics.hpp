// Objects of the library are values: a copy is as good as the original and owes nothing to the later fate of the object it was
// copied from (or of the objects handed to its constructor).  detached<T>(make, other) builds the object the harness will use as
//   a COPY of a heap-allocated source which is then overwritten in place by a different, valid object ("other") and destroyed.
// A class whose copy keeps a pointer / reference into its source (seeded changes C07-r5s1, C09-r5s1) then computes with the wrong
// parameters (caught by the oracle of whichever property uses the object) or touches freed memory (caught by ASan).
// Every property harness builds its long-lived solver objects through this helper, so the whole workload doubles as the monitor.
#pragma once
#include <memory>
#include <new>
#include <utility>

namespace vh {
// make(): returns T by value (the object wanted); other(): returns a T with different parameters
template <class T, class Make, class Other> inline T* detached_new(Make make, Other other) {
  std::unique_ptr<T> src(new T(make()));
  T* out = new T(*src);                       // copy construction from the heap source
  T* raw = src.get();
  raw->~T(); new (raw) T(other());            // the storage of the source now holds an object with other parameters ...
  src.reset();                                // ... and is then destroyed and freed
  return out;
}
}  // namespace vh
