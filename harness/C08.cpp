// C08 — PolygonArea / PolygonAreaExact / PolygonAreaRhumb over edit histories.
// Monitors (see harness/C08_ref.hpp and oracle/ref_polygon.hpp for the reference side):
//  (1) oracle: area == line integral of the authalic 1-form along the REFERENCE edges (+ winding term), perimeter == sum of
//      reference edge lengths, for every Compute in every history; the four (reverse, sign) outputs obey the documented
//      complement / negation relations; area ranges.
//  (2) metamorphic, library only: rotate first vertex, reverse order, shift all longitudes, +-360k on one longitude, cut
//      along a diagonal, move a pole vertex by 1e-9 deg.
//  (3) history model: NumberPoints / CurrentPoint / return counts; TestPoint/TestEdge == copy-add-Compute within round-off of
//      the sums and never mutate (twin object); Clear == fresh object (bit exact); fresh rebuild from the model == live object.
//  (4) polyline: the area argument keeps its sentinel.
#include "harness/C08_ref.hpp"

using namespace c08;
using vh::Section; using vh::Rng;

static const double TWO32 = 4294967296.0;
static double grid(double x) { return std::round(x * TWO32) / TWO32; }          // longitudes on a 2^-32 deg grid: shifts by grid constants are exact

// ---------------------------------------------------------------- environments
static std::shared_ptr<Env> pick_env(Rng& r, int force_be = -1) {
  static const double fser[] = {0, 1e-6, -1e-6, gh::WGS84_F, 1.0 / 150, -1.0 / 150, 0.01, -0.01, 0.02, -0.02, 0.05, -0.05, 0.1, -0.1, 0.2, -0.2};
  static const double boa[] = {0.01, 0.1, 0.5, 0.9, 1, 1.1, 2, 10, 100};
  static const double frh[] = {0, 1e-6, -1e-6, gh::WGS84_F, 1.0 / 150, -1.0 / 150, 0.01, -0.01};
  static const double boarh[] = {0.25, 0.5, 0.9, 1, 1.1, 2, 4};
  static const double al[] = {1, gh::WGS84_A, 1e12};
  BE be;
  if (force_be >= 0) be = (BE)force_be;
  else { int k = (int)r.below(20); be = k < 6 ? B_SERIES : k < 9 ? B_EXACT : k < 12 ? B_DELEG : k < 16 ? B_RH_SERIES : B_RH_EXACT; }
  double a = r.coin(0.6) ? gh::WGS84_A : r.pick(al), f;
  int k = (int)r.below(10);
  if (k < 4) f = gh::WGS84_F;
  else switch (be) {
    case B_SERIES: f = k < 8 ? r.pick(fser) : r.sign() * r.logu(1e-5, 0.2); break;
    case B_EXACT: case B_DELEG: f = k < 6 ? r.pick(fser) : k < 9 ? 1 - r.pick(boa) : 1 - std::exp(r.uniform(std::log(0.01), std::log(100.0))); break;
    case B_RH_SERIES: f = k < 8 ? r.pick(frh) : r.sign() * r.logu(1e-5, 0.01); break;
    default: f = k < 6 ? r.pick(frh) : k < 9 ? 1 - r.pick(boarh) : 1 - std::exp(r.uniform(std::log(0.25), std::log(4.0))); break;
  }
  return make_env(be, a, f);
}

// ---------------------------------------------------------------- shapes
struct PV { int how; double lat, lon, azi, s; };   // how: 0 AddPoint(lat,lon); 1 AddEdge aimed at (lat,lon) (azi,s solved at run time); 2 AddEdge(azi,s)

static void sph_direct(double lat1, double lon1, double azi, double ang, double& lat2, double& lon2) {
  double p = lat1 * M_PI / 180, a = azi * M_PI / 180;
  double sp = std::sin(p) * std::cos(ang) + std::cos(p) * std::sin(ang) * std::cos(a);
  sp = std::max(-1.0, std::min(1.0, sp));
  lat2 = std::asin(sp) * 180 / M_PI;
  lon2 = lon1 + std::atan2(std::sin(a) * std::sin(ang) * std::cos(p), std::cos(ang) - std::sin(p) * sp) * 180 / M_PI;
}
static double special_lon(Rng& r) { static const double s[] = {0.0, -0.0, 180, -180, 360, -360, 720, 540, -540, -720, 90, -90}; return r.pick(s); }

static const char* const SHAPES[] = {"regular-small", "regular-large", "irregular", "pole-enclosing", "straddle-0-or-180", "special-longitudes",
  "pole-vertex", "repeated-vertices", "wrapping-edges", "equator-and-meridian", "near-antipodal", "random-edges", "tiny"};
enum { NSHAPES = 13 };

static std::vector<PV> gen_shape(Rng& r, const Env& env, int kind, bool rhumb) {
  std::vector<PV> v;
  const double sc = std::min(env.a, env.b) / gh::WGS84_A;      // absolute lengths below are for the WGS84 size and scaled to this ellipsoid
  auto add = [&](double lat, double lon) { lat = std::max(-90.0, std::min(90.0, lat)); v.push_back(PV{0, lat, grid(lon), 0, 0}); };
  double circ = 2 * M_PI * std::min(env.a, env.b);
  switch (kind) {
  case 0: case 1: case 12: {
    double lat0 = r.coin(0.15) ? r.sign() * (90 - r.logu(1e-6, 5)) : r.uniform(-85, 85), lon0 = r.coin(0.2) ? special_lon(r) : r.uniform(-180, 180);
    double rad = kind == 0 ? r.logu(0.1, 1e5) : kind == 1 ? r.logu(1e5, 9e6) : r.logu(1e-9, 1e-3);
    int n = r.range(3, kind == 1 ? 60 : 40); double az0 = r.uniform(0, 360), dir = r.sign();
    for (int i = 0; i < n; ++i) { double la, lo; sph_direct(lat0, lon0, az0 + dir * 360.0 * i / n, rad / gh::WGS84_A, la, lo); add(la, lo); }
    if (kind == 12) for (auto& p : v) p.lon = lon0 + (p.lon - lon0);   // keep the sub-grid structure of tiny polygons
    break; }
  case 2: { int n = r.range(3, 30); for (int i = 0; i < n; ++i) { std::string cl; add(gh::pick_lat(r, cl) , r.uniform(-180, 180) + (r.coin(0.1) ? 360.0 * r.range(-2, 2) : 0)); } break; }
  case 3: {
    int n = r.range(3, 40), W = r.coin(0.15) ? 2 : 1; double dir = r.sign(), lon0 = r.uniform(-180, 180), hs = r.sign();
    double base = r.uniform(20, 89.9);
    for (int i = 0; i < n * W; ++i) add(hs * std::min(89.99, std::max(5.0, base + r.uniform(-15, 15) * (r.coin(0.5) ? 1 : 0))), lon0 + dir * (360.0 * i / n + r.uniform(-0.3, 0.3) * 360.0 / n));
    break; }
  case 4: {
    static const double cs[] = {0, 180, -180, 360, -360};
    double lon0 = r.pick(cs), lat0 = r.uniform(-80, 80), rad = r.logu(10, 3e6); int n = r.range(3, 24); double az0 = r.uniform(0, 360);
    for (int i = 0; i < n; ++i) { double la, lo; sph_direct(lat0, lon0, az0 + 360.0 * i / n, rad / gh::WGS84_A * r.uniform(0.3, 1), la, lo);
      if (r.coin(0.25)) lo = r.coin() ? lon0 : (r.coin() ? 0.0 : (r.coin() ? 180.0 : -180.0)) + (std::fabs(lon0) == 360 ? lon0 : 0);
      add(la, lo); }
    break; }
  case 5: { int n = r.range(3, 12); for (int i = 0; i < n; ++i) { double lo = r.coin(0.7) ? special_lon(r) : r.uniform(-180, 180); v.push_back(PV{0, r.uniform(-89, 89), lo, 0, 0}); } break; }
  case 6: {
    int n = r.range(3, 12), ip = (int)r.below(n), ip2 = r.coin(0.2) ? (int)r.below(n) : -1; double ps = r.sign();
    for (int i = 0; i < n; ++i) { if (i == ip || i == ip2) v.push_back(PV{0, ps * 90, r.coin() ? special_lon(r) : grid(r.uniform(-180, 180)), 0, 0}); else add(r.uniform(-89, 89) , r.uniform(-180, 180)); }
    break; }
  case 7: {
    std::vector<PV> b = gen_shape(r, env, (int)r.below(7), rhumb);
    for (auto& p : b) { v.push_back(p); int rep = r.coin(0.35) ? r.range(1, 2) : 0;
      for (int k = 0; k < rep; ++k) { if (r.coin()) v.push_back(p); else if (r.coin()) v.push_back(PV{2, 0, 0, r.uniform(-180, 180), r.coin() ? 0.0 : -0.0}); else { PV q = p; q.lon = grid(p.lon + 360.0 * r.range(-2, 2)); v.push_back(q); } } }
    break; }
  case 8: {
    add(r.uniform(-80, 80), r.uniform(-180, 180)); int n = r.range(1, 5);
    for (int i = 0; i < n; ++i) { std::string cl; double azi = rhumb ? (r.coin(0.6) ? r.sign() * r.uniform(60, 120) : r.uniform(-180, 180)) : gh::pick_azi(r, cl);
      v.push_back(PV{2, 0, 0, azi, r.uniform(0.3, 3) * circ}); if (r.coin(0.5)) add(r.uniform(-80, 80), r.uniform(-180, 180)); }
    break; }
  case 9: {
    int n = r.range(3, 10); bool eq = r.coin(); double m = grid(r.coin(0.4) ? special_lon(r) : r.uniform(-180, 180));
    for (int i = 0; i < n; ++i) { if (r.coin(0.7)) { if (eq) v.push_back(PV{0, r.coin() ? 0.0 : -0.0, grid(r.uniform(-180, 180)), 0, 0}); else v.push_back(PV{0, r.uniform(-89, 89), m, 0, 0}); } else add(r.uniform(-60, 60), r.uniform(-180, 180)); }
    break; }
  case 10: {
    int n = r.range(3, 8); double la = r.uniform(-80, 80), lo = r.uniform(-180, 180); add(la, lo);
    for (int i = 1; i < n; ++i) { if (r.coin(0.5)) { double e = r.coin(0.3) ? 0 : r.sign() * r.logu(1e-12, 2); la = -la + e; lo = lo + 180 + (r.coin(0.3) ? 0 : r.sign() * r.logu(1e-12, 2)); } else { la = r.uniform(-80, 80); lo = r.uniform(-180, 180); } add(la, lo); }
    break; }
  case 11: {
    add(r.uniform(-85, 85), r.uniform(-180, 180)); int n = r.range(2, 30); double scale = r.logu(1, 5e6);
    for (int i = 0; i < n; ++i) { std::string cl; v.push_back(PV{2, 0, 0, r.coin(0.2) ? gh::pick_azi(r, cl) : r.uniform(-180, 180), r.coin(0.05) ? 0.0 : sc * scale * r.logu(0.01, 1)}); }
    break; }
  }
  // convert some AddPoint vertices (never the first) into "AddEdge aimed at the vertex"
  if (kind != 10 && r.coin(0.35)) for (size_t i = 1; i < v.size(); ++i) if (v[i].how == 0 && r.coin(0.5) && std::fabs(v[i].lat) < 90) v[i].how = 1;
  // free (off-grid) longitudes in a minority of shapes: arbitrary doubles, ulp neighbours of +-180
  if (r.coin(0.25)) for (auto& p : v) if (p.how != 2 && r.coin(0.5)) p.lon = r.coin(0.2) ? vh::ulps(r.coin() ? 180.0 : -180.0, r.range(-2, 2)) : p.lon + r.uniform(-1e-7, 1e-7);
  return v;
}

// ---------------------------------------------------------------- the runner: executes operations, keeps the model, evaluates the monitors
struct Runner {
  Ctx& c; const Env& env; bool polyline; std::string cls, bn;
  std::unique_ptr<IPoly> P, twin; Model M; bool had_clear = false; double scan_prob;
  uint64_t h = 1469598103934665603ULL; long nops = 0, njudged = 0;
  // cache of the closing edge for the current model version
  long version = 0, close_version = -1; EdgeOut close_edge;
  Runner(Ctx& c_, const Env& e, bool pl, const std::string& cls_, double scanp) : c(c_), env(e), polyline(pl), cls(cls_), bn(BE_NAME[e.be]), P(e.make(pl)), twin(e.make(pl)), scan_prob(scanp) {}
  bool rh() const { return is_rhumb(env.be); }
  J wit() const { return J().str("backend", bn).f("a", env.a).f("f", env.f).b("polyline", polyline).i("n", (long long)M.V.size()).i("op_index", nops).str("ops", opstr()); }
  std::string opstr() const {   // the mutating history since the last Clear, hex floats (replayable by hand)
    std::string s; char b[96]; size_t n = M.ops.size(), lim = 24;
    for (size_t i = 0; i < n; ++i) { if (n > lim && i == lim / 2) { s += "... "; i = n - lim / 2; }
      std::snprintf(b, sizeof b, "%s(%a,%a) ", M.ops[i].edge ? "E" : "P", M.ops[i].x, M.ops[i].y); s += b; }
    return s; }
  // KNOWN-defect regimes, decided from the back end, the ellipsoid and the polygon's edges only (fixed order).  Inside a regime every
  // numerical monitor (oracle:/law:) reports under the regime key with the monitor's own key in detail.monitor.
  double test_extra_S = 0;
  bool tr_rheq = false, tr_preq = false, tr_rhtiny = false;     // the edge(s) being evaluated by the current operation carry the signature
  std::string regime() const {
    if (env.be == B_RH_EXACT && (M.nrhtiny || tr_rhtiny)) return "regime:C08/rhumb-exact/edge-with-nonzero-latitude-below-1e-290deg";
    if (env.be == B_RH_EXACT && env.f < 0 && (M.nrheq || tr_rheq)) return "regime:C08/rhumb-exact/prolate-ellipsoid-edge-near-equator-same-side";
    if ((env.be == B_EXACT || env.be == B_DELEG) && env.f < -0.2 && (M.npreq || tr_preq)) return "regime:C08/geod-exact/strongly-prolate-ellipsoid-near-equatorial-nearly-antipodal-inverse-edge";
    if ((env.be == B_EXACT || env.be == B_DELEG) && env.f > 0.5 && (M.npreq || tr_preq)) return "regime:C08/geod-exact/strongly-oblate-ellipsoid-inverse-edge-within-1e-8deg-of-equator";
    return ""; }
  void viol(const std::string& key, const J& d) {
    std::string rg = (key.compare(0, 7, "oracle:") == 0 || key.compare(0, 4, "law:") == 0) ? regime() : std::string();
    if (!rg.empty()) c.viol(rg, cls, J(d).str("monitor", key)); else c.viol(key, cls, d); }
  std::string k(const char* fam, const char* what) const { return std::string(fam) + ":C08/" + bn + "/" + what; }

  EdgeOut between(const RV& A, const RV& B, bool form) {
    EdgeOut e = rh() ? rhumb_edge_between(env, c, A, B) : geod_edge_between(env, c, A, B, form, scan_prob);
    if (c.only && std::getenv("C08_TRACE")) {   // replay aid: the reference edge next to the library's own inverse solution
      double s12 = 0, azi = 0, t;
      if (rh()) env.rh->Inverse(A.lat, A.lon, B.lat, B.lon, s12, azi); else env.S->exact->Inverse(A.lat, A.lon, B.lat, B.lon, s12, azi, t);
      std::fprintf(stderr, "TRACE edge (%.17g,%.17g)->(%.17g,%.17g): st=%d(%s) ref len=%.6Lf azi1=%.9Lf a12=%.6Lf cert=%d seeded=%d tie=%d | lib s12=%.6f azi1=%.9f | I=%.12Lg dlam=%.12Lg\n",
                   A.lat, A.lon, B.lat, B.lon, (int)e.st, e.why.c_str(), e.len, e.azi1, e.a12, e.certified, e.seeded, e.tie, s12, azi, e.I, e.dlam);
    }
    return e;
  }

  void add_point(double lat, double lon) {
    tr_rheq = tr_preq = tr_rhtiny = false; ++nops; h = vh::hmix(vh::hmix(h, lat), lon);
    P->AddPoint(lat, lon); twin->AddPoint(lat, lon);
    RV nv{lat, lon};
    if (!M.V.empty()) M.add(env, between(M.V.back(), nv, !polyline));
    M.V.push_back(nv); M.ops.push_back({false, lat, lon}); ++version;
    c.event("ops: AddPoint");
  }
  void add_edge(double azi, double s) {
    tr_rheq = tr_preq = tr_rhtiny = false; ++nops; h = vh::hmix(vh::hmix(h, azi), s) ^ 0x55;
    if (M.V.empty()) {     // documented: does nothing
      P->AddEdge(azi, s); twin->AddEdge(azi, s);
      if (P->NumberPoints() != 0) viol(k("history", "addedge-on-empty-object-changed-count"), wit());
      c.event("ops: AddEdge on empty object"); return;
    }
    RV A = M.V.back();
    if (rh() && std::fabs(A.lat) == 90) { c.event("skipped: rhumb AddEdge from a pole vertex (library returns NaN longitude; rhumb property C09)"); return; }
    if (rh()) {   // keep rhumb courses off the poles (documented NaN otherwise): shrink the distance
      bool crossed = true; int guard = 0;
      while (guard++ < 60) { rhumb_edge_direct(env, c, A, azi, s, nullptr, nullptr, &crossed); if (!crossed) break; s *= 0.5; if (std::fabs(A.lat) == 90) { s = 0; } }
      if (crossed) { c.event("skipped: rhumb AddEdge from a vertex within 1e-7 deg (rectifying latitude) of a pole (documented NaN longitude; C09)"); return; }
    }
    P->AddEdge(azi, s); twin->AddEdge(azi, s);
    RV B; P->CurrentPoint(B.lat, B.lon);
    LD perr = 0; EdgeOut e;
    if (!(std::isfinite(B.lat) && std::isfinite(B.lon))) { viol(k("oracle", "addedge-vertex-non-finite"), wit().f("azi", azi).f("s", s)); e.st = E_FAIL; e.why = "non-finite vertex from library"; }
    else {
      e = rh() ? rhumb_edge_direct(env, c, A, azi, s, &B, &perr, nullptr) : geod_edge_direct(env, A, azi, s, &B, !polyline, &perr);
      tr_rheq = e.rheq; tr_rhtiny = e.rhtiny;
      if (e.st == E_OK) {
        double T = env.K * (env.tol_pos * (double)e.lenscale + (double)e.extra_tol) + 1.5 * ref::ulp_d(B.lon) * (M_PI / 180) * std::max(env.a, env.b);
        if ((double)perr <= T) c.obs("AddEdge vertex position error / tolerance [" + bn + "]", (double)perr / T, J().f("a", env.a).f("f", env.f).f("lat1", A.lat).f("lon1", A.lon).f("azi", azi).f("s", s).f("err_m", (double)perr));
        if ((double)perr > T) viol(k("oracle", "addedge-vertex-position"), wit().f("lat1", A.lat).f("lon1", A.lon).f("azi", azi).f("s", s).f("lat2", B.lat).f("lon2", B.lon).f("err_m", (double)perr).f("tol_m", T));
      }
    }
    if (c.only && std::getenv("C08_TRACE")) std::fprintf(stderr, "TRACE direct (%.17g,%.17g) azi=%.17g s=%.17g -> lib (%.17g,%.17g): st=%d(%s) pos_err=%.3Lg I=%.12Lg dlam=%.12Lg | chain dlam/2pi=%.9Lf\n", A.lat, A.lon, azi, s, B.lat, B.lon, (int)e.st, e.why.c_str(), perr, e.I, e.dlam, (M.dlam + e.dlam) / (2 * ref::pi<LD>()));
    M.add(env, e); M.V.push_back(B); M.ops.push_back({true, azi, s}); ++version;
    c.event("ops: AddEdge");
  }
  void clear() {
    ++nops; h = vh::hmix(h, (uint64_t)77);
    P->Clear(); twin->Clear(); M.clear(); ++version; had_clear = true;
    double la = 1, lo = 1; P->CurrentPoint(la, lo);
    if (P->NumberPoints() != 0 || !std::isnan(la) || !std::isnan(lo)) viol(k("history", "clear-does-not-restore-empty-state"), wit().f("lat", la).f("lon", lo).i("num", P->NumberPoints()));
    c.event("ops: Clear");
  }
  void number_points() { ++nops; unsigned n = P->NumberPoints(); if (n != M.V.size()) viol(k("history", "numberpoints"), wit().i("got", n)); c.event("ops: NumberPoints"); }
  void current_point() {
    ++nops; double la = vh::sentinel(1), lo = vh::sentinel(2); P->CurrentPoint(la, lo);
    bool ok = M.V.empty() ? (std::isnan(la) && std::isnan(lo) && !vh::is_sentinel(la, 1) && !vh::is_sentinel(lo, 2)) : (vh::same_bits(la, M.V.back().lat) && vh::same_bits(lo, M.V.back().lon));
    if (!ok) viol(k("history", "currentpoint"), wit().f("lat", la).f("lon", lo));
    if (!M.V.empty() && std::fabs(lo) > 180) c.event("note: CurrentPoint longitude outside [-180,180] (documentation says it is inside)");
    c.event("ops: CurrentPoint");
  }

  // totals of the closed reference curve
  bool closed_totals(LD& I, LD& dlam, LD& len, LD& tolA, LD& tolP, LD& absI) {
    if (!M.judged) return false;
    if (close_version != version) { close_edge = between(M.V.back(), M.V[0], true); close_version = version; }
    tr_rheq = tr_rheq || close_edge.rheq; tr_preq = tr_preq || close_edge.preq; tr_rhtiny = tr_rhtiny || close_edge.rhtiny;
    if (close_edge.st != E_OK) return false;
    I = M.I + close_edge.I; dlam = M.dlam + close_edge.dlam; len = M.len + close_edge.len; absI = M.absI + fabsl(close_edge.I);
    tolA = M.tolA + ((LD)env.tol_pos * close_edge.lenscale + close_edge.extra_tol) * env.cauth * close_edge.cond; tolP = M.tolP + (LD)env.tol_pos * close_edge.lenscale + close_edge.extra_tol;
    return true;
  }
  void relations(const char* fn, const double* A /* [r*2+s] */, double slack_ulps) {
    double A0 = env.area0_lib, u = ref::ulp_d(A0) * slack_ulps;
    auto bad = [&](const char* w, double x, double y) { viol(k("law", (std::string("reverse-sign-relations/") + fn + "/" + w).c_str()), wit().f("x", x).f("y", y).f("A_ff", A[0]).f("A_fs", A[1]).f("A_rf", A[2]).f("A_rs", A[3]).f("area0", A0)); };
    for (int i = 0; i < 4; ++i) if (!std::isfinite(A[i])) { c.event("note: non-finite Test* area (rhumb NaN edge or excluded edge; not judged here)"); return; }
    // ranges: unsigned in [0, area0], signed in [-area0/2, area0/2]  (area0 - tiny legitimately rounds to area0)
    if (!(A[0] >= 0 && A[0] <= A0) || !(A[2] >= 0 && A[2] <= A0)) bad("unsigned-area-outside-[0,area0]", A[0], A[2]);
    if (!(A[1] >= -A0 / 2 && A[1] <= A0 / 2) || !(A[3] >= -A0 / 2 && A[3] <= A0 / 2)) bad("signed-area-outside-[-area0/2,area0/2]", A[1], A[3]);
    // signed(reverse) = -signed(!reverse) (exactly, except on the boundary +-area0/2); unsigned = signed mod area0; complement
    bool boundary = std::fabs(A[1]) >= A0 / 2 - u || std::fabs(A[3]) >= A0 / 2 - u;
    if (!boundary && std::fabs(A[1] + A[3]) > (slack_ulps > 1 ? u : 0)) bad("signed-not-negated-by-reverse", A[1], A[3]);
    if ((double)circ_dist(A[0], A[1], A0) > u) bad("unsigned-vs-signed", A[0], A[1]);
    if ((double)circ_dist(A[2], A[3], A0) > u) bad("unsigned-vs-signed/reverse", A[2], A[3]);
    if ((double)circ_dist((LD)A[0] + A[2], 0, A0) > 2 * u) bad("reverse-not-complement", A[0], A[2]);
    c.obs(std::string("reverse/sign relations: max deviation [ulp(area0)] ") + fn, std::max(std::max((double)circ_dist(A[0], A[1], A0), (double)circ_dist(A[2], A[3], A0)), boundary ? 0.0 : std::fabs(A[1] + A[3])) / ref::ulp_d(A0));
  }
  void judge_area(const char* what, double got, LD Accw, bool r, bool s, LD tolA, int nvert, bool extra_tie = false, bool extra_preq = false) {
    LD ex = expect_area(env, Accw, r, s);
    double err = (double)circ_dist((LD)got, ex, env.area0), T = env.K * (double)tolA + 2 * ref::ulp_d(env.area0_lib);
    if (err <= T) c.obs(std::string("area error / tolerance [") + bn + "] " + what, err / T, wit().f("got", got).f("expected", (double)ex).f("err_m2", err).f("tol_m2", T));
    if (err <= T && env.bucket == "wgs84-like" && env.a == gh::WGS84_A && M.maxcond <= 1 && M.nwrap == 0 && (std::string(what) != "polygon" || close_edge.cond <= 1)) c.obs(std::string("WGS84, all edges shorter than a quarter circuit: area error per vertex [m^2] ") + bn + " " + what, err / std::max(1, nvert));
    std::string sub;
    (void)extra_preq;
    if (!(err <= T) && std::fabs(err - 0.5 * env.area0_lib) <= T) sub = (M.ntie || extra_tie || (!std::string(what).compare("polygon") && close_edge.tie)) ? "/off-by-half-ellipsoid-area/edge-between-opposite-meridians" : "/off-by-half-ellipsoid-area";
    if (!(err <= T)) viol(k("oracle", (std::string(what) + "-area" + sub).c_str()), wit().b("reverse", r).b("sign", s).f("got", got).f("expected", (double)ex).f("err_m2", err).f("tol_m2", T).f("area0", (double)env.area0));
  }
  void judge_per(const char* what, double got, LD len, LD tolP, bool extra_preq = false, bool extra_rheq = false) {
    double err = (double)fabsl((LD)got - len), T = env.K * (double)tolP + 4 * ref::ulp_d((double)len);
    if (err <= T) c.obs(std::string("perimeter error / tolerance [") + bn + "] " + what, err / T, wit().f("got", got).f("expected", (double)len).f("err_m", err).f("tol_m", T));
    if (err <= T && env.bucket == "wgs84-like" && env.a == gh::WGS84_A) c.obs(std::string("WGS84: perimeter error [nm] ") + bn + " " + what, err * 1e9);
    (void)extra_preq; (void)extra_rheq; std::string sub;
    if (!(err <= T)) viol(k("oracle", (std::string(what) + "-perimeter" + sub).c_str()), wit().f("got", got).f("expected", (double)len).f("err_m", err).f("tol_m", T));
  }

  void compute(bool with_twin) {
    tr_rheq = tr_preq = tr_rhtiny = false; ++nops; c.event("ops: Compute (all four reverse/sign combinations)");
    unsigned n = (unsigned)M.V.size(); double per[4], A[4]; unsigned ret[4];
    int order[4] = {0, 1, 2, 3}; for (int i = 3; i > 0; --i) std::swap(order[i], order[c.rng.below(i + 1)]);
    for (int q = 0; q < 4; ++q) { int i = order[q]; per[i] = vh::sentinel(10 + i); A[i] = vh::sentinel(20 + i); ret[i] = P->Compute(i >> 1, i & 1, per[i], A[i]); }
    for (int i = 0; i < 4; ++i) {
      if (ret[i] != n) viol(k("history", "compute-count"), wit().i("got", ret[i]));
      if (vh::is_sentinel(per[i], 10 + i)) viol(k("sentinel", "perimeter-not-written/Compute"), wit());
      if (polyline) { if (!vh::is_sentinel(A[i], 20 + i)) viol(k("sentinel", "polyline-area-written/Compute"), wit().f("area", A[i])); }
      else if (vh::is_sentinel(A[i], 20 + i)) viol(k("sentinel", "polygon-area-not-written/Compute"), wit());
      if (!vh::same_bits(per[i], per[0])) viol(k("law", "perimeter-depends-on-reverse-or-sign"), wit().f("p0", per[0]).f("pi", per[i]));
    }
    if (with_twin) {
      double tp = 0, ta = 0; unsigned tn = twin->Compute(false, true, tp, ta);
      if (tn != ret[1] || !vh::same_bits(tp, per[1]) || (!polyline && !vh::same_bits(ta, A[1])))
        viol(k("history", "query-call-mutates-object (twin without Test*/Compute calls differs)"), wit().f("per", per[1]).f("twin_per", tp).f("area", A[1]).f("twin_area", ta));
    }
    if (n < 2) {
      for (int i = 0; i < 4; ++i) if (per[i] != 0 || (!polyline && A[i] != 0)) viol(k("oracle", "fewer-than-two-points-not-zero"), wit().f("per", per[i]).f("area", polyline ? 0 : A[i]));
      return;
    }
    if (polyline) {
      if (!std::isfinite(per[0])) { if (M.judged) viol(k("oracle", "polyline-length-non-finite"), wit()); return; }
      if (M.judged) { judge_per("polyline", per[0], M.len, M.tolP); ++njudged; c.event("judged: polyline lengths against the reference"); }
      return;
    }
    LD I, dlam, len, tolA, tolP, absI;
    bool have_ref = closed_totals(I, dlam, len, tolA, tolP, absI);
    if (!(std::isfinite(per[0]) && std::isfinite(A[0]) && std::isfinite(A[1]) && std::isfinite(A[2]) && std::isfinite(A[3]))) {
      // a NaN result is a finding only for a polygon whose edges are all well defined (not e.g. a pole-to-opposite-pole rhumb line or a vertex that already came back NaN)
      if (have_ref) viol(k("oracle", "compute-non-finite"), wit().f("per", per[0]).f("area", A[0])); else c.event("note: non-finite Compute on a polygon with an undefined / excluded edge (not judged)");
      return;
    }
    relations("Compute", A, 1);
    if (have_ref) {
      LD frac, Accw = closed_area(env, I, dlam, &frac);
      if (frac > (LD)1e-9) { c.herr("reference curve does not close: longitude winding not integral (frac " + std::to_string((double)frac) + ")"); return; }
      for (int i = 0; i < 4; ++i) judge_area("polygon", A[i], Accw, i >> 1, i & 1, tolA, (int)n);
      judge_per("polygon", per[0], len, tolP);
      ++njudged; c.event("judged: polygon Compute against the reference (x4 outputs)");
      if (M.nseeded || close_edge.seeded) c.event("judged: ... of which with edges longer than the injectivity radius");
    } else c.event("unjudged Compute (polygon has an ambiguous / nearly antipodal edge)");
  }

  void test_point(double lat, double lon, bool r, bool s, bool ref_too) {
    tr_rheq = tr_preq = tr_rhtiny = false; ++nops; c.event("ops: TestPoint"); h = vh::hmix(vh::hmix(h, lat), lon) ^ 0x99;
    double per = vh::sentinel(3), A = vh::sentinel(4); unsigned num = P->TestPoint(lat, lon, r, s, per, A);
    std::unique_ptr<IPoly> Q(P->clone()); Q->AddPoint(lat, lon); double per2 = 0, A2 = 0; unsigned num2 = Q->Compute(r, s, per2, A2);
    check_test("TestPoint", num, per, A, num2, per2, A2, J().f("lat", lat).f("lon", lon).b("reverse", r).b("sign", s));
    if (!polyline && M.V.size() >= 1) { double B[4]; for (int i = 0; i < 4; ++i) { double p; B[i] = 0; P->TestPoint(lat, lon, i >> 1, i & 1, p, B[i]); } relations("TestPoint", B, 4); }
    if (ref_too && M.judged && !M.V.empty() && std::isfinite(A) ) {
      RV T{lat, lon}; EdgeOut e1 = between(M.V.back(), T, !polyline);
      tr_rheq = e1.rheq; tr_preq = e1.preq; tr_rhtiny = e1.rhtiny;
      if (e1.st != E_OK) return;
      if (polyline) { judge_per("TestPoint-polyline", per, M.len + e1.len, M.tolP + (LD)env.tol_pos * e1.lenscale + e1.extra_tol, e1.preq, e1.rheq); return; }
      EdgeOut e2 = between(T, M.V[0], true); tr_rheq = tr_rheq || e2.rheq; tr_preq = tr_preq || e2.preq; tr_rhtiny = tr_rhtiny || e2.rhtiny; if (e2.st != E_OK) return;
      LD frac, Accw = closed_area(env, M.I + e1.I + e2.I, M.dlam + e1.dlam + e2.dlam, &frac); if (frac > (LD)1e-9) return;
      LD tP = M.tolP + (LD)env.tol_pos * (e1.lenscale + e2.lenscale) + e1.extra_tol + e2.extra_tol, tA = M.tolA + (((LD)env.tol_pos * e1.lenscale + e1.extra_tol) * e1.cond + ((LD)env.tol_pos * e2.lenscale + e2.extra_tol) * e2.cond) * env.cauth;
      judge_area("TestPoint", A, Accw, r, s, tA, (int)M.V.size() + 1, e1.tie || e2.tie, e1.preq || e2.preq); judge_per("TestPoint", per, M.len + e1.len + e2.len, tP, e1.preq || e2.preq, e1.rheq || e2.rheq);
      c.event("judged: TestPoint against the reference");
    }
  }
  void test_edge(double azi, double sd, bool r, bool s) {
    tr_rheq = tr_preq = tr_rhtiny = false; ++nops; c.event("ops: TestEdge"); h = vh::hmix(vh::hmix(h, azi), sd) ^ 0x33;
    if (rh() && !M.V.empty() && std::fabs(M.V.back().lat) == 90) { c.event("skipped: rhumb TestEdge from a pole vertex"); return; }
    if (rh() && !M.V.empty()) { bool crossed = true; int g = 0; while (g++ < 60) { rhumb_edge_direct(env, c, M.V.back(), azi, sd, nullptr, nullptr, &crossed); if (!crossed) break; sd *= 0.5; } if (crossed) { c.event("skipped: rhumb TestEdge from a vertex within 1e-7 deg of a pole"); return; } }
    double per = vh::sentinel(5), A = vh::sentinel(6); unsigned num = P->TestEdge(azi, sd, r, s, per, A);
    if (M.V.empty()) {   // no starting point: the call cannot add anything; it returns 0
      if (num != 0) viol(k("history", "testedge-on-empty-object-count"), wit().i("got", num));
      c.event("ops: TestEdge on empty object"); return;
    }
    std::unique_ptr<IPoly> Q(P->clone()); Q->AddEdge(azi, sd); double per2 = 0, A2 = 0; unsigned num2 = Q->Compute(r, s, per2, A2);
    // |S12| of the tentative edge <= c2 |unrolled longitude change| (can be thousands of circuits next to a pole): part of sum |S12| in the round-off model
    { double la, lo; Q->CurrentPoint(la, lo); test_extra_S = std::isfinite(lo) ? (double)env.E.c2 * std::fabs(lo - M.V.back().lon) * (M_PI / 180) : 0; }
    check_test("TestEdge", num, per, A, num2, per2, A2, J().f("azi", azi).f("s", sd).b("reverse", r).b("sign", s));
    test_extra_S = 0;
    if (!polyline) { double B[4]; for (int i = 0; i < 4; ++i) { double p; B[i] = 0; P->TestEdge(azi, sd, i >> 1, i & 1, p, B[i]); } relations("TestEdge", B, 4); }
  }
  void check_test(const char* fn, unsigned num, double per, double A, unsigned num2, double per2, double A2, const J& in) {
    std::string f = fn;
    if (num != num2 || num != M.V.size() + 1) viol(k("history", (f + "-vs-add/count").c_str()), wit().i("test", num).i("add", num2).obj("input", in));
    if (vh::is_sentinel(per, 3) || vh::is_sentinel(per, 5)) viol(k("sentinel", ("perimeter-not-written/" + f).c_str()), wit());
    if (polyline) { if (!(vh::is_sentinel(A, 4) || vh::is_sentinel(A, 6))) viol(k("sentinel", ("polyline-area-written/" + f).c_str()), wit().f("area", A)); }
    else if (vh::is_sentinel(A, 4) || vh::is_sentinel(A, 6)) viol(k("sentinel", ("polygon-area-not-written/" + f).c_str()), wit());
    const double eps = std::numeric_limits<double>::epsilon();
    if (!std::isfinite(per2) || (!polyline && !std::isfinite(A2))) { c.event("note: non-finite add-then-Compute result (unjudged Test* comparison)"); return; }
    double Tp = 4 * eps * std::max(std::fabs(per2), 1e-300);
    double ep = std::fabs(per - per2);
    c.obs("Test* vs add-then-Compute: perimeter difference [eps * perimeter] " + f, ep / (eps * std::max(std::fabs(per2), 1e-300)));
    if (!(ep <= Tp)) viol(k("history", (f + "-vs-add/perimeter").c_str()), wit().f("test", per).f("add", per2).obj("input", in));
    if (polyline) return;
    // ordinary round-off of the accumulated sums: K eps (sum |S12| + area0); sum |S12| from the reference when available, else bounded by n * area0 / 2
    double sumS = (M.judged ? (double)(env.E.c2 * (M.absI + 4 * ref::pi<LD>())) : 0.5 * env.area0_lib * (M.V.size() + 2)) + test_extra_S;
    double Ta = 4 * eps * (sumS + env.area0_lib), ea = (double)circ_dist(A, A2, env.area0_lib);
    c.obs("Test* vs add-then-Compute: area difference [eps * (sum|S12| + area0)] " + f, ea / (eps * (sumS + env.area0_lib)), wit().f("test", A).f("add", A2));
    if (!(ea <= Ta)) viol(k("history", (f + "-vs-add/area").c_str()), wit().f("test", A).f("add", A2).f("diff", ea).f("tol", Ta).obj("input", in));
  }

  // end of history: final Compute, twin, fresh rebuild from the model (bit exact)
  void finish() {
    compute(true);
    std::unique_ptr<IPoly> F(env.make(polyline));
    for (auto& o : M.ops) { if (o.edge) F->AddEdge(o.x, o.y); else F->AddPoint(o.x, o.y); }
    bool same = F->NumberPoints() == P->NumberPoints();
    double la1, lo1, la2, lo2; F->CurrentPoint(la1, lo1); P->CurrentPoint(la2, lo2);
    same = same && vh::same_bits(la1, la2) && vh::same_bits(lo1, lo2);
    double pf[4], af[4], pp[4], ap[4];
    for (int i = 0; i < 4; ++i) { pf[i] = af[i] = pp[i] = ap[i] = 0; F->Compute(i >> 1, i & 1, pf[i], af[i]); P->Compute(i >> 1, i & 1, pp[i], ap[i]);
      same = same && vh::same_bits(pf[i], pp[i]) && (polyline || vh::same_bits(af[i], ap[i])); }
    if (!same) viol(k("history", had_clear ? "clear-does-not-restore-empty-state (fresh object with the operations since Clear differs)" : "live-object-differs-from-fresh-rebuild"),
                    wit().f("fresh_per", pf[0]).f("live_per", pp[0]).f("fresh_area", af[1]).f("live_area", ap[1]));
    c.event(had_clear ? "judged: Clear == fresh object (bit exact)" : "judged: live object == fresh rebuild (bit exact)");
  }
};

// ---------------------------------------------------------------- random operation histories
static void run_history(Ctx& c, const Env& env, bool polyline, int target_len, int first_kind, double scan_prob, bool trivial) {
  Rng& r = c.rng; bool rhumb = is_rhumb(env.be);
  int kind = first_kind >= 0 ? first_kind : (int)r.below(NSHAPES);
  std::string cls = std::string(BE_NAME[env.be]) + "/" + env.bucket + (polyline ? "/polyline/" : "/polygon/") + SHAPES[kind];
  Runner R(c, env, polyline, cls, scan_prob);
  double pq = r.coin(0.3) ? 0.05 : r.uniform(0.1, 0.6);         // density of query operations
  int guard = 0;
  // operations on the EMPTY object (fresh, or just cleared): AddEdge is documented to do nothing, the Test* queries and Compute
  // have their own empty-object paths (added after the reach monitor showed that TestPoint / AddEdge were never called on an
  // empty object, and seeded change C08-r4s1)
  auto empty_prelude = [&]() {
    int n = r.range(1, 4);
    for (int q = 0; q < n; ++q)
      switch (r.below(6)) {
      case 0: R.add_edge(r.uniform(-180, 180), std::min(env.a, env.b) / gh::WGS84_A * r.logu(1, 5e6)); break;
      case 1: { std::string cl; R.test_point(gh::pick_lat(r, cl), r.coin(0.3) ? special_lon(r) : r.uniform(-180, 180), r.coin(), r.coin(), false); break; }
      case 2: R.test_edge(r.uniform(-180, 180), std::min(env.a, env.b) / gh::WGS84_A * r.logu(1, 5e6), r.coin(), r.coin()); break;
      case 3: R.compute(r.coin()); break;
      case 4: R.current_point(); break;
      default: R.number_points(); break;
      }
  };
  if (r.coin(0.35)) empty_prelude();
  while (R.nops < target_len && guard++ < 64) {
    std::vector<PV> sh = gen_shape(r, env, kind, rhumb);
    for (size_t i = 0; i < sh.size() && R.nops < target_len; ++i) {
      const PV& p = sh[i];
      if (p.how == 0 || R.M.V.empty()) { if (p.how == 2) R.add_edge(p.azi, p.s); else R.add_point(p.lat, p.lon); }
      else if (p.how == 2) R.add_edge(p.azi, p.s);
      else {   // aim an edge at (lat, lon) from the current vertex (the library's inverse is only a generator here)
        RV A = R.M.V.back(); double s12 = 0, azi = 0, t;
        if (std::fabs(A.lat) == 90 && rhumb) { R.add_point(p.lat, p.lon); }
        else {
          if (rhumb) env.rh->Inverse(A.lat, A.lon, p.lat, p.lon, s12, azi); else env.S->exact->Inverse(A.lat, A.lon, p.lat, p.lon, s12, azi, t);
          if (std::isfinite(s12) && std::isfinite(azi) && s12 <= 2 * M_PI * std::max(env.a, env.b)) R.add_edge(azi, s12); else R.add_point(p.lat, p.lon);   // (a garbage inverse distance is not a sensible input)
        }
      }
      while (r.coin(pq) && R.nops < target_len) {
        switch (r.below(8)) {
        case 0: case 1: R.compute(r.coin(0.5)); break;
        case 2: case 3: { std::string cl; double la = r.coin(0.7) && !R.M.V.empty() ? std::max(-90.0, std::min(90.0, R.M.V.back().lat + r.uniform(-5, 5))) : gh::pick_lat(r, cl);
          double lo = r.coin(0.2) ? special_lon(r) : grid((R.M.V.empty() ? 0 : R.M.V.back().lon) + r.uniform(-20, 20));
          R.test_point(la, lo, r.coin(), r.coin(), r.coin(0.3)); break; }
        case 4: case 5: { std::string cl; R.test_edge(r.coin(0.2) ? gh::pick_azi(r, cl) : r.uniform(-180, 180), r.coin(0.05) ? 0.0 : std::min(env.a, env.b) / gh::WGS84_A * r.logu(1e-3, r.coin(0.1) ? 3 * 2 * M_PI * gh::WGS84_A : 5e6), r.coin(), r.coin()); break; }
        case 6: R.current_point(); break;
        default: R.number_points(); break;
        }
      }
    }
    if (R.nops >= target_len) break;
    // between shapes: usually Clear (state leakage between histories), sometimes keep accumulating
    if (r.coin(0.75)) { if (r.coin(0.5)) R.compute(true); R.clear(); if (r.coin(0.3)) { R.compute(false); R.test_edge(10, 1000 * std::min(env.a, env.b) / gh::WGS84_A, false, true); R.current_point(); R.number_points(); } else if (r.coin(0.4)) empty_prelude(); }
    kind = (int)r.below(NSHAPES);
  }
  R.finish();
  c.count(cls, R.h ^ vh::hmix(vh::hmix(3, env.a), env.f) ^ (uint64_t)env.be * 1315423911ULL ^ (polyline ? 0x1111 : 0), trivial);
  c.event("histories executed"); c.event("operations executed", (uint64_t)R.nops);
  if (c.want_sample(cls)) c.sample(cls, J().str("backend", BE_NAME[env.be]).f("a", env.a).f("f", env.f).b("polyline", polyline).i("ops", R.nops).i("judged_computes", R.njudged).str("tail_ops", R.opstr()));
}

static void sec_history(Ctx& c, uint64_t) {
  Rng& r = c.rng;
  std::shared_ptr<Env> env = pick_env(r);
  bool polyline = r.coin(0.2);
  int k = (int)r.below(10), len = k < 4 ? r.range(1, 20) : k < 8 ? r.range(20, 100) : r.range(100, 400);
  run_history(c, *env, polyline, len, -1, c.quick() ? 0.02 : 0.05, false);
}

// every (back end, shape, mode) combination at least once per run, on WGS84 and on one other ellipsoid
static void sec_matrix(Ctx& c, uint64_t i) {
  int be = (int)(i % B_COUNT); i /= B_COUNT; int kind = (int)(i % NSHAPES); i /= NSHAPES; bool polyline = i % 2; i /= 2; bool other = i % 2;
  std::shared_ptr<Env> env = other ? pick_env(c.rng, be) : make_env((BE)be, gh::WGS84_A, gh::WGS84_F);
  run_history(c, *env, polyline, 40, kind, 0.05, false);
}

// ---------------------------------------------------------------- directed catalogue: triangles on the special meridians
static void sec_directed(Ctx& c, uint64_t i) {
  static const double L[] = {0.0, -0.0, 180, -180, 360, -360, 720, 90, 179.99999999999997, -179.99999999999997, 1e-300, -1e-300};
  static const double LT[][3] = {{10, 20, -5}, {0, -0.0, 30}, {90, 0, -45}, {45, 45, 45}, {-30, 60, -90}, {-0.0, 0.0, 0.0}};
  const uint64_t nl = 12, nt = 6;
  int be = (int)(i % B_COUNT); i /= B_COUNT; bool edges = i % 2; i /= 2;
  int l1 = (int)(i % nl); i /= nl; int l2 = (int)(i % nl); i /= nl; int l3 = (int)(i % 6) * 2 + (int)((l1 + l2) & 1); i /= 6; int t = (int)(i % nt); i /= nt;
  if (i > 0) return;
  std::shared_ptr<Env> env = make_env((BE)be, gh::WGS84_A, gh::WGS84_F);
  std::string cls = std::string("directed/") + BE_NAME[be] + (edges ? "/edges" : "/points") + "/lat-pattern-" + std::to_string(t);
  Runner R(c, *env, false, cls, 0.0);
  double la[3] = {LT[t][0], LT[t][1], LT[t][2]}, lo[3] = {L[l1], L[l2], L[l3]};
  bool rhumb = is_rhumb((BE)be);
  for (int j = 0; j < 3; ++j) {
    if (j == 0 || !edges || std::fabs(la[j]) == 90 || (rhumb && std::fabs(R.M.V.back().lat) == 90)) R.add_point(la[j], lo[j]);
    else { RV A = R.M.V.back(); double s12, azi, tt;
      if (rhumb) env->rh->Inverse(A.lat, A.lon, la[j], lo[j], s12, azi); else env->S->exact->Inverse(A.lat, A.lon, la[j], lo[j], s12, azi, tt);
      if (std::isfinite(s12) && std::isfinite(azi) && s12 <= 2 * M_PI * 6378137.0) R.add_edge(azi, s12); else R.add_point(la[j], lo[j]); }
    if (j >= 1) R.compute(false);
  }
  R.test_point(la[0] * 0.5 + 1, lo[1], false, true, true);
  R.test_edge(77, 1e6, true, false);
  R.finish();
  c.count(cls, vh::hmix(vh::hmix(vh::hmix(vh::hmix(vh::hmix(5, (uint64_t)be), (uint64_t)l1), (uint64_t)l2), (uint64_t)l3), (uint64_t)(t * 2 + edges)), false);
}

#include "harness/C08_meta.hpp"

int main(int argc, char** argv) {
  std::vector<Section> S;
  S.push_back({"selftest", 400, 4000, false, sec_selftest, 300});
  S.push_back({"directed", 5 * 2 * 12 * 12 * 6 * 6, 5 * 2 * 12 * 12 * 6 * 6, false, sec_directed, 120});
  S.push_back({"matrix", 5 * 13 * 2 * 2, 5 * 13 * 2 * 2, false, sec_matrix, 300});
  S.push_back({"history", 4000, 100000, true, sec_history, 600});
  S.push_back({"meta", 6000, 100000, true, sec_meta, 300});
  if (const char* only = std::getenv("C08_DEV_SECTION")) {     // development aid only (never set by bin/check)
    std::vector<Section> T; for (auto& x : S) if (x.name == only) T.push_back(x); S = T; }
  return vh::run_sections(argc, argv, S);
}
