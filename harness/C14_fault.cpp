// C14 fault-construction trials (added after seeded change C14-r3s1): a Geoid "constructed as thread-safe" must BE thread safe
// whenever the constructor delivers an object -- also when an allocation fails inside the constructor (Geoid::CacheAll reads the
// whole raster into memory; the documented reaction to a failure is the library's exception, i.e. no object at all).
//
//   C14_fault --seed S --tier quick|thorough --count            number of planned trials
//   C14_fault --seed S --tier quick|thorough --only fault:I     run planned trial I (one PROCESS per trial; replay)
//
// One trial: write a synthetic geoid raster (size, interpolation from (seed, I)); compute reference heights single-threaded with
// an ordinary (non-thread-safe, uncached) Geoid object; then, with the global operator new armed to fail its k-th allocation from
// now on (k from the plan: first, second, ..., last row of the cache, beyond the last allocation = no fault), try to construct
// Geoid(name, dir, cubic, threadsafe = true).
//   * GeographicErr / std::bad_alloc out of the constructor  -> "refused" (the documented reaction), nothing more to check;
//   * any other exception                                   -> violation  exception:C14/fault/...;
//   * an object is delivered                                -> monitors:
//       invariant : ThreadSafe() implies Cache() (documented: a thread-safe object holds the whole data set in memory);
//       schedule  : T threads released from a barrier evaluate heights on the SAME object; every result must equal the reference
//                   bit for bit (determinism monitor); in the tsan flavour ThreadSanitizer watches the same run for data races.
// One JSON line on stdout; exit 0 unless the harness itself failed (3).
#include <atomic>
#include <cstdlib>
#include <new>
#include <thread>
#include <GeographicLib/Geoid.hpp>
#include "harness/C14_files.hpp"

using namespace GeographicLib;

// ------------------------------------------------------------------ allocation failpoint (malloc based; countdown; main thread only)
static std::atomic<long> g_countdown{0};      // 0 = disarmed; k > 0: the k-th allocation from now throws std::bad_alloc
static std::atomic<long> g_allocs{0};         // allocations seen while counting
static std::atomic<bool> g_counting{false};
void* operator new(std::size_t n) {
  if (g_counting.load(std::memory_order_relaxed)) g_allocs.fetch_add(1, std::memory_order_relaxed);
  long c = g_countdown.load(std::memory_order_relaxed);
  if (c > 0 && g_countdown.fetch_sub(1, std::memory_order_relaxed) == 1) throw std::bad_alloc();
  if (void* p = std::malloc(n ? n : 1)) return p;
  throw std::bad_alloc();
}
void* operator new[](std::size_t n) { return operator new(n); }
void* operator new(std::size_t n, const std::nothrow_t&) noexcept { return std::malloc(n ? n : 1); }
void* operator new[](std::size_t n, const std::nothrow_t&) noexcept { return std::malloc(n ? n : 1); }
void operator delete(void* p) noexcept { std::free(p); }
void operator delete[](void* p) noexcept { std::free(p); }
void operator delete(void* p, std::size_t) noexcept { std::free(p); }
void operator delete[](void* p, std::size_t) noexcept { std::free(p); }

struct Plan { int gw, gh; bool cubic; long k; int T; };
static Plan planned(uint64_t seed, uint64_t i, bool quick, long nalloc_hint) {
  vh::Rng r(vh::hmix(vh::hmix(vh::mix64(seed), i), (uint64_t)0xfa17));
  static const int W[] = {24, 36, 72, 90, 120, 360}, H[] = {13, 19, 37, 45, 61, 181};
  int s = (int)r.below(quick ? 4 : 6);
  Plan p; p.gw = W[s]; p.gh = H[s]; p.cubic = (i & 1) != 0; p.T = 2 + 2 * (int)r.below(4);
  (void)nalloc_hint; p.k = -1;             // resolved after counting the fault-free constructor's allocations
  return p;
}

static std::atomic<int> g_arrived{0};
static std::atomic<bool> g_go{false};
static std::atomic<long> g_threw{0};
struct Q { double lat, lon, want, got; };
static void worker(const Geoid* g, std::vector<Q>* q) {
  g_arrived.fetch_add(1, std::memory_order_acq_rel);
  while (!g_go.load(std::memory_order_acquire)) { }
  for (Q& x : *q) {
    try { x.got = (*g)(x.lat, x.lon); }
    catch (const std::exception&) { x.got = -7.77e77; g_threw.fetch_add(1, std::memory_order_relaxed); }     // const call on a delivered thread-safe object threw
  }
}

int main(int argc, char** argv) {
  std::string tier = "quick", only; uint64_t seed = 1; bool count = false;
  for (int i = 1; i < argc; ++i) {
    std::string a = argv[i];
    if (a == "--count") { count = true; continue; }
    if (i + 1 >= argc) { std::fprintf(stderr, "missing value for %s\n", a.c_str()); return 3; }
    std::string v = argv[++i];
    if (a == "--seed") seed = std::strtoull(v.c_str(), nullptr, 10); else if (a == "--tier") tier = v; else if (a == "--only") only = v;
    else { std::fprintf(stderr, "unknown arg %s\n", a.c_str()); return 3; }
  }
  bool quick = tier != "thorough";
  const uint64_t NTRIALS = quick ? 24 : 240;
  if (count) { std::printf("%llu\n", (unsigned long long)NTRIALS); return 0; }
  size_t pc = only.rfind(':'); uint64_t idx = std::strtoull(only.substr(pc == std::string::npos ? 0 : pc + 1).c_str(), nullptr, 10);
  if (only.empty() || idx >= NTRIALS) { std::fprintf(stderr, "need --only fault:I with I < %llu\n", (unsigned long long)NTRIALS); return 3; }
  Plan P = planned(seed, idx, quick, 0);
  c14f::TmpDir tmp; if (tmp.path.empty()) { std::fprintf(stderr, "no scratch directory\n"); return 3; }
  c14f::FileSpec fs; fs.gw = P.gw; fs.gh = P.gh; fs.seed = vh::hmix(seed, idx);
  const std::string name = "c14fault";
  if (!c14f::write_all(tmp.path, name, fs)) { std::fprintf(stderr, "cannot write data files\n"); return 3; }
  vh::Rng r(vh::hmix(vh::hmix(vh::mix64(seed), idx), (uint64_t)0x9e01d));
  // reference heights: ordinary object, single-threaded (bit-identical to every other mode by C20)
  std::vector<std::vector<Q>> qs(P.T);
  {
    Geoid ref(name, tmp.path, P.cubic, false);
    for (int t = 0; t < P.T; ++t)
      for (int k = 0; k < (quick ? 400 : 2000); ++k) {
        Q q; q.lat = r.coin(0.1) ? (r.coin() ? 90.0 : -90.0) : r.uniform(-90, 90); q.lon = r.uniform(-200, 400); q.want = ref(q.lat, q.lon); q.got = 0;
        qs[t].push_back(q);
        if (k % 3 == 0) { Q q2 = q; q2.lat = std::max(-90.0, std::min(90.0, q.lat + r.uniform(-0.5, 0.5) * 180.0 / P.gh)); q2.want = ref(q2.lat, q2.lon); qs[t].push_back(q2); }   // same / neighbouring cell
      }
  }
  // number of allocations of a fault-free thread-safe construction
  long nalloc;
  { g_allocs = 0; g_counting = true; { Geoid probe(name, tmp.path, P.cubic, true); g_counting = false; if (!probe.ThreadSafe() || !probe.Cache()) { std::fprintf(stderr, "fault-free thread-safe object without cache\n"); } } nalloc = g_allocs.load() + 1; }      // + 1: the object itself is allocated with new below
  // which allocation fails: spread over the whole constructor, with extra mass on the cache rows (the last gh + 1 allocations)
  switch (idx % 6) {
  case 0: P.k = 1 + (long)r.below((uint64_t)std::max(1L, nalloc)); break;
  case 1: P.k = nalloc; break;                                   // last allocation (last cache row)
  case 2: P.k = std::max(1L, nalloc - P.gh); break;              // the outer vector of the cache / first row
  case 3: P.k = std::max(1L, nalloc - (long)r.below((uint64_t)P.gh + 2)); break;
  case 4: P.k = std::max(1L, nalloc - P.gh / 2); break;
  default: P.k = nalloc + 8; break;                              // no fault: control
  }
  std::string outcome, what; Geoid* g = nullptr;
  g_countdown = P.k;
  try { g = new Geoid(name, tmp.path, P.cubic, true); g_countdown = 0; outcome = "delivered"; }
  catch (const GeographicErr& e) { g_countdown = 0; outcome = "refused"; what = e.what(); }
  catch (const std::bad_alloc&) { g_countdown = 0; outcome = "refused-bad_alloc"; }
  catch (const std::exception& e) { g_countdown = 0; outcome = "other-exception"; what = e.what(); }
  bool fault_hit = P.k <= nalloc;
  uint64_t evals = 0, mism = 0; std::string wit; bool inv_ok = true;
  if (g) {
    inv_ok = !g->ThreadSafe() || g->Cache();
    std::vector<std::thread> th;
    for (int t = 0; t < P.T; ++t) th.emplace_back(worker, g, &qs[t]);
    while (g_arrived.load(std::memory_order_acquire) < P.T) std::this_thread::yield();
    g_go.store(true, std::memory_order_release);
    for (auto& x : th) x.join();
    for (int t = 0; t < P.T; ++t) for (Q& q : qs[t]) { ++evals; if (!vh::same_bits(q.got, q.want)) { if (++mism <= 3) wit += (wit.empty() ? "" : ",") + vh::J().i("thread", t).f("lat", q.lat).f("lon", q.lon).f("concurrent", q.got).f("alone", q.want).done(); } }
    delete g;
  }
  std::printf("%s\n", vh::J().str("t", "fault").u("idx", idx).u("seed", seed).i("gw", P.gw).i("gh", P.gh).b("cubic", P.cubic).i("threads", P.T)
              .i("allocations_of_faultfree_ctor", nalloc).i("failing_allocation", P.k).b("fault_hit", fault_hit).str("outcome", outcome).str("what", what)
              .b("threadsafe_implies_cache", inv_ok).u("evals", evals).u("mismatches", mism).i("calls_that_threw", g_threw.load()).raw("witness", "[" + wit + "]").done().c_str());
  return 0;
}
