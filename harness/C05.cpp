// C05 — MGRS conversion is closed, exact and digit-consistent.
// Monitors (all evaluated next to real MGRS::Forward / Reverse / Decode / GeoCoords executions):
//   oracle    : ref::mgrs (oracle/ref_mgrs.hpp) — MGRS from the public specification with exact integer digit arithmetic,
//               band of a point from the reference Gauss-Krueger latitude (oracle/ref_tm.hpp), block-in-band truth computed
//               geometrically in two cross-checked formulations
//   laws      : precision-prefix law, Forward(Reverse(s)) == s apart from the band letter, both Forward overloads agree,
//               centerp ignored for grid-zone-only strings, lower case == upper case, GeoCoords == MGRS
//   sentinel  : a throwing call leaves every output argument untouched
//   exception : only GeographicLib::GeographicErr may escape
#include <GeographicLib/GeoCoords.hpp>
#include <memory>
#include "harness/C05_judge.hpp"

using namespace c05;
using vh::Ctx; using vh::Section;
typedef rm::LD LD;

static std::unique_ptr<rm::Geo> G;
static rm::Legal LT;
static const double INF = std::numeric_limits<double>::infinity();

static J jpt(int zone, bool northp, double x, double y) { return J().i("zone", zone).b("northp", northp).f("x", x).f("y", y).str("x_hex", hexd(x)).str("y_hex", hexd(y)); }
static std::string regime(const rm::Pt& p) {
  std::string r = p.utm ? (p.northp ? "utm-n" : "utm-s") : (p.northp ? "ups-n" : "ups-s");
  if (p.folded) r += "/folded";
  if (p.xedge || p.yedge) r += "/upper-edge";
  return r;
}

// exact band of a latitude given as a double (a band contains its southern edge; C and X extended)
static int band_of_lat(double lat) {
  double fl = std::floor(lat);                     // exact
  long il = (long)fl + 80;                         // |lat| <= 90 in this harness
  long b = (il >= 0 ? il / 8 : -((-il + 7) / 8)) - 10;
  return (int)std::max(-10L, std::min(9L, b));
}

// ------------------------------------------------------------------ cause classifier (used ONLY to name the violation key)
// When the library's string is not the exact truncation, this model of double-precision evaluation tells which rounding
// explains it: (a) "north" northing y < 0 folded by y + 1e7 in double (inexact), (b) x * 1e6 rounded up to an integer.
struct LibModel { bool fold_to_equator = false, fold_inexact = false, product = false; rm::Pt pm; };
static LibModel lib_model(int zone, bool northp, double x, double y, const rm::Pt& p) {
  LibModel m; m.pm = p;
  double yv = y;
  if (zone && northp && y < 0) {
    volatile double yf = y + 1e7; yv = yf;
    if (yv == 1e7) { m.fold_to_equator = true; return m; }
    if ((Q)yv != (Q)y + 10000000) { m.fold_inexact = true; m.pm = rm::normalize(zone, false, x, yv); }
  } else if (zone && !northp && y > 1e7) yv = y - 1e7;
  if (!m.pm.legal) return m;
  if (!m.pm.xedge) { volatile double t = x * 1e6; rm::i64 im = (rm::i64)std::floor(t); if (im != m.pm.ix) { m.pm.ix = im; m.product = true; } }
  if (!m.pm.yedge) { volatile double t = yv * 1e6; rm::i64 im = (rm::i64)std::floor(t); if (im != m.pm.iy) { m.pm.iy = im; m.product = true; } }
  return m;
}

// ------------------------------------------------------------------ Forward (without latitude) monitor
struct FwdRes { bool legal = false; rm::Pt p; BandExp be; std::vector<std::string> out; };   // out[prec+1], empty if not returned

static FwdRes judge_fwd(Ctx& c, int zone, bool northp, double x, double y, const std::vector<int>& precs, const std::string& cls, bool reverse_too = true) {
  FwdRes R; R.out.assign(13, "");
  rm::Pt p = rm::normalize(zone, northp, x, y); R.p = p;
  if (!p.legal) {
    for (int prec : precs) {
      LF f = lib_fwd(zone, northp, x, y, prec);
      if (f.st == 2) c.viol("exception:C05/forward/foreign-exception", cls, jpt(zone, northp, x, y).i("prec", prec).str("what", f.what));
      else if (f.st == 0) c.viol("oracle:C05/forward/accepted-illegal-coordinate/" + p.why, cls, jpt(zone, northp, x, y).i("prec", prec).str("got", f.s));
      else if (f.touched) c.viol("sentinel:C05/forward/output-written-on-throw", cls, jpt(zone, northp, x, y).i("prec", prec));
    }
    return R;
  }
  R.legal = true;
  static const std::string PREC_EV[13] = {"forward: legal points judged at prec -1", "forward: legal points judged at prec 0", "forward: legal points judged at prec 1", "forward: legal points judged at prec 2",
    "forward: legal points judged at prec 3", "forward: legal points judged at prec 4", "forward: legal points judged at prec 5", "forward: legal points judged at prec 6", "forward: legal points judged at prec 7",
    "forward: legal points judged at prec 8", "forward: legal points judged at prec 9", "forward: legal points judged at prec 10", "forward: legal points judged at prec 11"};
  for (int prec : precs) c.event(PREC_EV[prec + 1]);
  BandExp be = band_expect(*G, p, northp, x, y); R.be = be;
  const std::string reg = regime(p);
  for (int prec : precs) {
    LF f = lib_fwd(zone, northp, x, y, prec);
    if (f.st == 2) { c.viol("exception:C05/forward/foreign-exception", cls, jpt(zone, northp, x, y).i("prec", prec).str("what", f.what)); continue; }
    if (f.st == 1) {
      if (f.touched) c.viol("sentinel:C05/forward/output-written-on-throw", cls, jpt(zone, northp, x, y).i("prec", prec));
      LibModel m = lib_model(zone, northp, x, y, p);
      c.viol(m.fold_to_equator ? "oracle:C05/forward/rejected-legal-coordinate/north-convention-northing-in-(-1nm,0)" :
             "oracle:C05/forward/rejected-legal-coordinate/" + reg, cls, jpt(zone, northp, x, y).i("prec", prec).str("what", f.what));
      continue;
    }
    std::string want = rm::encode(p, be.band, prec);
    if (f.s != want) {
      // admissible alternatives: the neighbouring band letter within 5 nm of the edge (property text); for prec >= 6 the
      // truncation of fl(x * 10^6) instead of x * 10^6 (MGRS.hpp: "for prec in [6, 11] the conversion is accurate to round-off";
      // the two differ only when the exact product is < 1/2 ulp below an integer)
      const double nm = be.edge_m * 1e9;
      const bool nb_ok = p.utm && be.other != rm::NONE && nm <= NEIGHBOUR_NM + be.slack_nm;
      LibModel m = lib_model(zone, northp, x, y, p);
      const bool altok = m.product && !m.fold_inexact && !m.fold_to_equator && prec >= 6 && m.pm.legal;
      bool nb = false, ro = false, accepted = true;
      if (nb_ok && f.s == rm::encode(p, be.other, prec)) nb = true;
      else if (altok && f.s == rm::encode(m.pm, be.band, prec)) ro = true;
      else if (altok && nb_ok && f.s == rm::encode(m.pm, be.other, prec)) nb = ro = true;
      else accepted = false;
      if (nb) { c.event("forward: neighbouring band letter within 5 nm of the edge"); c.obs("neighbour band letter given at distance from band edge [nm]", nm, jpt(zone, northp, x, y)); }
      if (ro) c.event("forward: prec >= 6 digits are the truncation of fl(x * 10^6) (exact product < 1/2 ulp below the next micrometre; documented round-off)");
      if (!accepted) {
        const char* comp = diff_component(f.s, want, p.utm);
        std::string key = std::string("oracle:C05/forward/") + comp;
        if (std::string(comp) == "digits") key += prec <= 5 ? "/prec<=5" : "/prec>=6";
        if (m.fold_to_equator) key = "oracle:C05/forward/not-exact-truncation/north-convention-northing-in-(-1nm,0)";
        else if ((m.fold_inexact || m.product) && m.pm.legal && (f.s == rm::encode(m.pm, be.band, prec) || (nb_ok && f.s == rm::encode(m.pm, be.other, prec)))) {
          key = m.fold_inexact ? "oracle:C05/forward/not-exact-truncation/north-to-south-fold-y+1e7-rounded" : "oracle:C05/forward/not-exact-truncation/product-x*1e6-rounded-up/prec<=5";
          c.event(m.fold_inexact ? "forward: string explained by the rounding of y + 1e7 (fold)" : "forward: string explained by the rounding of x * 1e6");
        }
        c.viol(key, cls, jpt(zone, northp, x, y).i("prec", prec).str("got", f.s).str("want", want).i("ref_ix_um", p.ix).i("ref_iy_um", p.iy).i("ref_band", be.band).f("edge_dist_nm", nm));
        continue;
      }
    }
    R.out[prec + 1] = f.s;
  }
  // precision-prefix law on the library's own outputs
  for (int pr = 0; pr < 11; ++pr) {
    const std::string &a = R.out[pr + 1], &b = R.out[pr + 2];
    if (a.empty() || b.empty()) continue;
    size_t z = (p.utm ? 2 : 0) + 3;
    bool ok = a.size() == z + 2 * pr && b.size() == z + 2 * (pr + 1) && a.substr(0, z + pr) == b.substr(0, z + pr) && a.substr(z + pr) == b.substr(z + pr + 1, pr);
    if (!ok) c.viol("law:C05/forward/precision-prefix", cls, jpt(zone, northp, x, y).i("prec", pr).str("lower", a).str("higher", b));
  }
  if (!R.out[0].empty() && !R.out[1].empty() && R.out[1].substr(0, R.out[0].size()) != R.out[0])
    c.viol("law:C05/forward/precision-prefix", cls, jpt(zone, northp, x, y).i("prec", -1).str("lower", R.out[0]).str("higher", R.out[1]));
  // every produced string is accepted back: same UTM/UPS choice, zone, hemisphere, same square; Forward(Reverse) reproduces it
  if (reverse_too)
    for (int prec : precs) {
      const std::string& s = R.out[prec + 1];
      if (s.empty()) continue;
      RevOut o = judge_rev(c, s, LT, G.get(), cls);
      if (o.d.st != rm::Dec::VALID || o.d.unjudged || s != rm::encode(p, be.band, prec)) continue;    // (an allowed neighbour letter may change the hemisphere)
      rm::i64 dv = rm::pow10i(rm::MAXPREC - std::max(prec, 0));
      bool same = o.d.utm == p.utm && (!p.utm || o.d.zone == p.zone) && o.d.northp == p.northp &&
                  (prec < 0 || (o.d.nx == p.ix / dv && o.d.ny == p.iy / dv));
      if (!same) c.herr("REF decode(encode(point)) is not the square of the point: " + s);
    }
  return R;
}

// ------------------------------------------------------------------ Forward WITH latitude monitor
static void judge_fwd_lat(Ctx& c, int zone, bool northp, double x, double y, double lat, int prec, const std::string& cls) {
  rm::Pt p = rm::normalize(zone, northp, x, y);
  LF f = lib_fwd_lat(zone, northp, x, y, lat, prec);
  J w = jpt(zone, northp, x, y).f("lat", lat).str("lat_hex", hexd(lat)).i("prec", prec);
  if (f.st == 2) { c.viol("exception:C05/forward-lat/foreign-exception", cls, w.str("what", f.what)); return; }
  if (f.st == 1 && f.touched) c.viol("sentinel:C05/forward-lat/output-written-on-throw", cls, w);
  if (!p.legal) { if (f.st == 0) c.viol("oracle:C05/forward-lat/accepted-illegal-coordinate/" + p.why, cls, w.str("got", f.s)); return; }
  if (!p.utm) {
    std::string want = rm::encode(p, 0, prec);
    if (f.st == 0 && f.s != want && prec >= 6) {      // documented round-off at prec 6..11: truncation of fl(x * 10^6)
      LibModel mu = lib_model(zone, northp, x, y, p);
      if (mu.product && mu.pm.legal && f.s == rm::encode(mu.pm, 0, prec)) { c.event("forward-lat: prec >= 6 digits are the truncation of fl(x * 10^6) (documented round-off)"); return; }
    }
    if (f.st || f.s != want) c.viol("oracle:C05/forward-lat/ups-latitude-not-ignored", cls, w.str("got", f.s).str("want", want).str("what", f.what));
    return;
  }
  int b = band_of_lat(lat), other = rm::NONE; double nm = 1e30;
  {   // distance of the GIVEN latitude from the nearest band edge, in metres of meridian
    double k = std::round(lat / 8) * 8;
    if (std::fabs(k) <= 72) { nm = std::fabs(lat - k) * (M_PI / 180) * (double)G->rho_mer(k) * 1e9; other = lat >= k ? band_of_lat(k) - 1 : band_of_lat(k); }
  }
  // MGRS.hpp: prec 6..11 "accurate to round-off": the truncation of fl(x * 10^6) is accepted next to the exact truncation
  LibModel m = lib_model(zone, northp, x, y, p);
  const bool altok = m.product && !m.fold_inexact && !m.fold_to_equator && prec >= 6 && m.pm.legal;
  bool usedalt = false;
  auto expect = [&](int band, bool& unj) -> std::string {    // "" = must throw
    int v = LT.in(band, p.col(), p.truerow()); unj = v == 2; return v == 1 ? rm::encode(p, band, prec) : std::string(); };
  auto matches = [&](int band, bool& unj) -> bool {           // does the library behave as the reference demands for this band?
    std::string wb = expect(band, unj);
    if (unj) return true;
    if (wb.empty()) return f.st == 1;
    if (f.st != 0) return false;
    if (f.s == wb) return true;
    if (altok && f.s == rm::encode(m.pm, band, prec)) { usedalt = true; return true; }
    return false;
  };
  bool unj = false; std::string want = expect(b, unj);
  if (unj) { c.event("forward-lat: block within 1e-6 m of a band edge (not judged)"); return; }
  bool ok = matches(b, unj);
  if (!ok && other != rm::NONE && nm <= NEIGHBOUR_NM) {      // the neighbouring band's behaviour is allowed within 5 nm
    bool u2;
    if (matches(other, u2)) { ok = true; c.event("forward-lat: behaves as the neighbouring band within 5 nm of the edge"); c.obs("forward-lat neighbour band behaviour at distance from band edge [nm]", nm, w); }
  }
  if (ok && usedalt) c.event("forward-lat: prec >= 6 digits are the truncation of fl(x * 10^6) (documented round-off)");
  if (!ok) {
    // same rounding causes as in the overload without latitude (named identically: one defect, one key)
    auto explained = [&](int band) { return m.pm.legal && LT.in(band, m.pm.col(), m.pm.truerow()) == 1 && f.st == 0 && f.s == rm::encode(m.pm, band, prec); };
    if (m.fold_to_equator) c.viol(f.st ? "oracle:C05/forward/rejected-legal-coordinate/north-convention-northing-in-(-1nm,0)" : "oracle:C05/forward/not-exact-truncation/north-convention-northing-in-(-1nm,0)", cls, w.str("got", f.s).str("what", f.what));
    else if ((m.fold_inexact || m.product) && !want.empty() && (explained(b) || (other != rm::NONE && explained(other))))
      c.viol(m.fold_inexact ? "oracle:C05/forward/not-exact-truncation/north-to-south-fold-y+1e7-rounded" : "oracle:C05/forward/not-exact-truncation/product-x*1e6-rounded-up", cls, w.str("got", f.s).str("want", want));
    else if (want.empty()) c.viol("oracle:C05/forward-lat/inconsistent-latitude-accepted", cls, w.str("got", f.s).i("band_of_lat", b));
    else if (f.st == 1) c.viol("oracle:C05/forward-lat/consistent-latitude-rejected", cls, w.str("want", want).str("what", f.what));
    else c.viol(std::string("oracle:C05/forward-lat/") + diff_component(f.s, want, true), cls, w.str("got", f.s).str("want", want));
  }
}

static const std::vector<int> ALLPREC = {-1, 0, 1, 2, 3, 4, 5, 6, 7, 8, 9, 10, 11};

// ------------------------------------------------------------------ section: oracle self-validation
static void sec_selftest(Ctx& c, uint64_t idx) {
  c.count("selftest", idx, true);
  auto need = [&](bool ok, const std::string& what) { if (!ok) c.herr("selftest: " + what); };
  if (idx == 0) {
    // published worked examples (letters re-derived by hand from the specification)
    struct Ex { int zone; bool n; double x, y; int prec; const char* s; } ex[] = {
      {38, true, 444500, 3688500, 2, "38SMB4488"}, {4, true, 612345, 2367890, 5, "04QFJ1234567890"}, {18, true, 323371, 4306519, 5, "18SUJ2337106519"},
      {0, true, 2000000, 2000000, 0, "ZAH"}, {0, false, 2000000, 2000000, 0, "BAN"}, {31, true, 500000, 0, 0, "31NEA"}, {32, true, 500000, 0, 0, "32NNF"}};
    for (const Ex& e : ex) {
      rm::Pt p = rm::normalize(e.zone, e.n, e.x, e.y); need(p.legal, "example not legal");
      BandExp be = band_expect(*G, p, e.n, e.x, e.y);
      need(rm::encode(p, be.band, e.prec) == e.s, std::string("REF encode != published ") + e.s + " got " + rm::encode(p, be.band, e.prec));
      rm::Dec d = rm::decode(e.s, LT); need(d.st == rm::Dec::VALID && d.prec == e.prec && d.northp == e.n && d.zone == e.zone, std::string("REF decode of ") + e.s);
    }
    const char* yes[] = {"38VLS", "38WLS", "38MPE", "38NPF", "ZAB", "YZB"}; const char* no[] = {"38VMS", "38NPE", "38MPF", "YAB", "ZZB"};
    for (const char* s : yes) need(rm::decode(s, LT).st == rm::Dec::VALID, std::string("documented legal block rejected by REF: ") + s);
    for (const char* s : no) need(rm::decode(s, LT).st == rm::Dec::INVALID, std::string("documented illegal block accepted by REF: ") + s);
    int unj = 0; for (int b = -10; b <= 9; ++b) for (int col = 1; col <= 8; ++col) for (int r = -90; r <= 94; ++r) if (LT.in(b, col, r) == 2) ++unj;
    c.event("block table: (band, block) pairs within 1e-6 m of a band edge (not judged)", unj);
    c.event("block table: selftest done");
    // every (band, col, residue) designates at most one block (rowof throws otherwise)
    try { for (int b = -10; b <= 9; ++b) for (int col = 1; col <= 8; ++col) for (int r = 0; r < 20; ++r) { bool u; LT.rowof(b, col, r, u); } }
    catch (const std::exception& e) { c.herr(e.what()); }
    // UPS inverse: pole and a known parallel (lat 84 at rho from Snyder forward)
    LD la, lo; G->ups_reverse(true, 2000000, 2000000, la, lo); need(fabsl(la - 90) < 1e-12L, "UPS pole");
    try { GeographicLib::MGRS::Check(); c.event("MGRS::Check() passed"); }
    catch (const std::exception& e) { c.viol("law:C05/MGRS::Check-throws", "selftest", J().str("what", e.what())); }
    return;
  }
  // idx >= 1: long double vs binary128 latitude, central-meridian identity, band_of consistency at random points
  vh::Rng& r = c.rng;
  LD e = r.coin(0.2) ? 0 : r.uniform(0, 400000), y = r.uniform(1, 9500000);
  LD l1 = G->lat_ld(e, y); ref::q128 l2 = G->lat_q(e, y);
  double dm = (double)(fabsl(l1 - (LD)l2) * ref::deg<LD>() * G->rho_mer(l1));
  c.obs("REF self-check: long double vs binary128 latitude [m]", dm, J().f("e", (double)e).f("y", (double)y));
  need(dm < 1e-9, "long double and binary128 reference latitudes differ by more than 1 nm");
  if (e == 0) { LD m = rm::UTM_K0 * rm::WGS84_A * G->tl.meridian_unit(l1 * ref::deg<LD>()); need(fabsl(m - y) < 1e-9L, "central meridian identity"); }
}

// ------------------------------------------------------------------ section: exhaustive block table
// idx 0..79   : (h = idx / 20, residue = idx % 20): literal-geometry cross-check of the involved blocks, then all 60 zones x
//               20 bands x the two mirror columns x this row residue, at prec 0, 5, 11 with digits {0..0, 9..9, random},
//               lower case and one-digit zone spellings
// idx 80..139 : zone idx-79: all 26 x 26 x 26 (band, column, row) letter triples at prec 0
// idx 140     : UPS: all 26 x 26 x 26 triples without zone at prec 0, legal ones also at prec 5, 11
static void rev_variants(Ctx& c, const std::string& base, const std::string& cls, int& nacc) {
  vh::Rng& r = c.rng;
  RevOut o = judge_rev(c, base, LT, G.get(), cls);
  c.count(cls, vh::hmixs(11, base));
  bool acc = o.r1.st == 0; nacc += acc;
  for (int prec : {5, 11}) {
    std::string z(prec, '0'), n(prec, '9'), rx = rm::digits_of((rm::i64)r.below((uint64_t)rm::pow10i(prec)), prec), ry = rm::digits_of((rm::i64)r.below((uint64_t)rm::pow10i(prec)), prec);
    for (const std::string& s : {base + z + z, base + n + n, base + rx + ry, base + z + n}) {
      RevOut o2 = judge_rev(c, s, LT, G.get(), cls);
      c.count(cls, vh::hmixs(12, s), true);
      if ((o2.r1.st == 0) != acc) c.viol("law:C05/reverse/legal-block-prefix-but-acceptance-depends-on-digits", cls, jstr(s));
    }
  }
  if (acc) {
    std::string lo = base; for (char& ch : lo) if (ch >= 'A' && ch <= 'Z') ch = (char)(ch + 32);
    RevOut o3 = judge_rev(c, lo + "1234512345", LT, G.get(), cls);
    c.count(cls, vh::hmixs(13, lo), true);
    if (o3.r1.st != 0) c.viol("law:C05/reverse/lower-case-rejected", cls, jstr(lo)); else c.event("reverse: lower-case spelling accepted");
  }
}
static void sec_blocktable(Ctx& c, uint64_t idx) {
  const char* A26 = "ABCDEFGHIJKLMNOPQRSTUVWXYZ";
  if (idx < 80) {
    int h = (int)(idx / 20), res = (int)(idx % 20);
#if !defined(__SANITIZE_ADDRESS__)
    // (literal) min/max reference latitude over every block involved, against the (dual) table
    for (int pass = 0; pass < 2; ++pass) {
      int rr = pass == 0 ? res : 19 - res;
      if (pass == 1 && rr == res) break;
      for (int row = rr; row <= 94; row += 20) {
        rm::Geo::Range R = G->block_range_full(h, row);
        uint8_t a[10], d[10]; G->classify_literal(R, a); G->classify_dual(h, row, d);
        c.event("block table: blocks classified by min/max latitude (literal) and compared with the parallel-curve table");
        if (std::memcmp(a, d, 10)) c.herr("block table: literal and dual classifications differ for h=" + std::to_string(h) + " row=" + std::to_string(row));
        for (int k = 1; k <= 9; ++k) {
          double m1 = (double)(fabsl(R.hi - 8 * k) * ref::deg<LD>() * G->rho_mer(8 * k)), m2 = (double)(fabsl(R.lo - 8 * k) * ref::deg<LD>() * G->rho_mer(8 * k));
          c.obs("block table: -(closest approach of a block's extreme latitude to a band edge) [m]", -std::min(m1, m2), J().i("h", h).i("row", row).i("edge_deg", 8 * k));
        }
      }
    }
#endif
    int nacc = 0, ntot = 0;
    for (int zone = 1; zone <= 60; ++zone) for (int band = -10; band <= 9; ++band) for (int col : {5 + h, 4 - h}) {
      std::string base; base += (char)('0' + zone / 10); base += (char)('0' + zone % 10);
      base += rm::utm_band_letter(band); base += rm::utm_col_letter(zone, col); base += rm::utm_row_letter(zone, res);
      std::string cls = std::string("blocktable/utm/") + (band >= 0 ? "north" : "south") + (zone % 2 ? "/odd-zone" : "/even-zone");
      int before = nacc; rev_variants(c, base, cls, nacc); ++ntot;
      if (nacc > before && zone < 10) {          // leading zero may be dropped
        RevOut o = judge_rev(c, base.substr(1) + "55", LT, G.get(), cls);
        if (o.r1.st != 0) c.viol("law:C05/reverse/one-digit-zone-rejected", cls, jstr(base.substr(1))); else c.event("reverse: one-digit zone spelling accepted");
      }
    }
    c.event("blocktable: utm (zone, band, column, row-letter) combinations offered", ntot);
    c.event("blocktable: utm combinations accepted", nacc);
    if (c.want_sample("blocktable/utm")) c.sample("blocktable/utm", J().i("h", h).i("row_residue", res).i("offered", ntot).i("accepted", nacc));
  } else if (idx < 140) {
    int zone = (int)idx - 79, nacc = 0;
    std::string z; z += (char)('0' + zone / 10); z += (char)('0' + zone % 10);
    for (int a = 0; a < 26; ++a) for (int b = 0; b < 26; ++b) for (int d = 0; d < 26; ++d) {
      std::string s = z; s += A26[a]; s += A26[b]; s += A26[d];
      RevOut o = judge_rev(c, s, LT, G.get(), "blocktable/utm/all-letter-triples"); nacc += o.r1.st == 0;
      c.count("blocktable/utm/all-letter-triples", vh::hmixs(14, s), o.d.st == rm::Dec::VALID);     // the legal ones duplicate idx < 80
    }
    c.event("blocktable: utm letter triples accepted", nacc);
  } else {
    int nacc = 0;
    for (int a = 0; a < 26; ++a) for (int b = 0; b < 26; ++b) for (int d = 0; d < 26; ++d) {
      std::string s; s += A26[a]; s += A26[b]; s += A26[d];
      rm::Dec dd = rm::decode(s, LT);
      if (dd.st == rm::Dec::VALID) { int n = 0; rev_variants(c, s, std::string("blocktable/ups/") + (dd.northp ? "north" : "south"), n); nacc += n; }
      else { RevOut o = judge_rev(c, s, LT, G.get(), "blocktable/ups/illegal-letter-triples"); c.count("blocktable/ups/illegal-letter-triples", vh::hmixs(15, s)); nacc += o.r1.st == 0; }
    }
    c.event("blocktable: ups letter triples accepted", nacc);
  }
}

// ------------------------------------------------------------------ section: grid-zone-only strings (prec -1)
static void sec_gridzone(Ctx& c, uint64_t idx) {
  const char* A26 = "ABCDEFGHIJKLMNOPQRSTUVWXYZ";
  int zone = (int)idx;      // 0 = UPS
  for (int a = 0; a < 26; ++a) for (int lower = 0; lower < 2; ++lower) for (int form = 0; form < 3; ++form) {
    std::string s;
    if (zone) { if (form == 0) { s += (char)('0' + zone / 10); s += (char)('0' + zone % 10); } else if (form == 1) { if (zone >= 10) continue; s += (char)('0' + zone); } else { s += '0'; s += (char)('0' + zone / 10); s += (char)('0' + zone % 10); } }
    else if (form) continue;
    s += (char)(A26[a] + (lower ? 32 : 0));
    std::string cls = std::string("gridzone/") + (zone ? "utm" : "ups") + (form == 2 ? "/three-digit-zone" : "");
    judge_rev(c, s, LT, G.get(), cls); judge_dec(c, s, cls);
    c.count(cls, vh::hmixs(21, s), lower || form);
  }
}

// ------------------------------------------------------------------ section: tile corners and closed upper edges
static std::vector<double> around(double v) { return {v, std::nextafter(v, -INF), std::nextafter(v, INF), v - 1e-6, v + 1e-6}; }
static void sec_corners(Ctx& c, uint64_t idx) {
  int zone = (int)(idx / 2); bool northp = idx & 1; vh::Rng& r = c.rng;
  std::vector<double> xs, ys;
  if (zone) {
    for (int k = 1; k <= 9; ++k) for (double v : around(k * 1e5)) xs.push_back(v);
    std::vector<int> rows;
    int lo = northp ? -90 : 10, hi = northp ? 95 : 195;
    if (c.quick()) { rows = {lo, lo + 1, hi - 1, hi, northp ? 0 : 100, northp ? -1 : 99, northp ? 1 : 101}; for (int i = 0; i < 10; ++i) rows.push_back(r.range(lo, hi)); }
    else for (int k = lo; k <= hi; ++k) rows.push_back(k);
    for (int k : rows) for (double v : around(k * 1e5)) if (!(v < 0 && v > -1e-300)) ys.push_back(v);      // negative subnormals: section "subnormal"
    ys.push_back(northp ? 0.0 : 1e7); ys.push_back(northp ? -0.0 : 1e7);
    for (double t : {1e-300, 1e-12, 1e-9, 3e-7}) { ys.push_back((northp ? 0 : 1e7) - t); ys.push_back((northp ? 0 : 1e7) + t); }
  } else {
    int lo = rm::ups_lo(northp), hi = rm::ups_hi(northp);
    for (int k = lo; k <= hi; ++k) for (double v : around(k * 1e5)) { xs.push_back(v); ys.push_back(v); }
  }
  std::vector<int> precs = c.quick() ? std::vector<int>{-1, 0, 1, 5, 6, 11, r.range(2, 4), r.range(7, 10)} : ALLPREC;
  std::sort(precs.begin(), precs.end());
  for (double x : xs) for (double y : ys) {
    rm::Pt p0 = rm::normalize(zone, northp, x, y);
    std::string cls = std::string("corners/") + (p0.legal ? regime(p0) : std::string(zone ? "utm" : "ups") + "/outside-" + p0.why);
    FwdRes R = judge_fwd(c, zone, northp, x, y, precs, cls, false);
    c.count(cls, vh::hmix(vh::hmix(vh::hmix(31, x), y), (uint64_t)idx));
    if (c.want_sample(cls)) c.sample(cls, jpt(zone, northp, x, y).str("prec11", R.out[12]));
    if (R.legal) for (int prec : {0, 5, 11}) if (!R.out[prec + 1].empty()) judge_rev(c, R.out[prec + 1], LT, G.get(), cls);
  }
}

// ------------------------------------------------------------------ section: band edges located by REF (binary128)
static void sec_bandedges(Ctx& c, uint64_t idx) {
  vh::Rng& r = c.rng;
  int k = 1 + (int)(idx % 9); bool south = (idx / 9) & 1;
  double e = 0;
  switch ((idx / 18) % 6) { case 0: e = 0; break; case 1: e = 400000; break; case 2: e = 100000.0 * r.range(1, 3); break; case 3: e = r.uniform(0, 400000); break;
    case 4: e = std::floor(r.uniform(0, 400000)); break; default: e = r.uniform(399000, 400000); }
  if (r.coin()) e = -e;
  ref::q128 yb = G->edge_northing_q(k, fabsq((ref::q128)e));      // northing of the parallel 8k at this easting, ~1e-20 m
  double x = 500000 + e;
  int zone = r.range(1, 60);
  std::string cls = std::string("bandedge/") + (south ? "south" : "north") + "/edge-" + std::to_string(8 * k) + (std::fabs(e) >= 399000 ? "/zone-rim" : e == 0 ? "/central-meridian" : "");
  static const double offs[] = {0, 1e-10, 1e-9, 2e-9, 3e-9, 4e-9, 5e-9, 6e-9, 8e-9, 1e-8, 3e-8, 1e-7, 1e-6, 1e-5, 1e-3, 1, 10};
  std::vector<int> precs = {-1, 0, 5, 11};
  for (double o : offs) for (int sgn : {-1, 1}) {
    if (o == 0 && sgn > 0) continue;
    double yt = (double)(yb + sgn * o);                     // true northing (north of the equator), rounded to double
    bool altform = r.coin(0.25);                            // use the "other" hemisphere's continued northing
    double y; bool northp;
    if (!south) { northp = !altform; y = northp ? yt : yt + 1e7; }
    else { northp = altform; y = northp ? -yt : 1e7 - yt; }
    FwdRes R = judge_fwd(c, zone, northp, x, y, precs, cls);
    c.count(cls, vh::hmix(vh::hmix(vh::hmix(41, x), y), (uint64_t)zone));
    if (R.legal) { c.obs("band edge sampled at distance [-log10 m] (closest)", R.be.edge_m > 0 ? -std::log10(R.be.edge_m) : 30, jpt(zone, northp, x, y));
      if (R.be.edge_m * 1e9 <= NEIGHBOUR_NM) c.event("bandedge: points within 5 nm of a band edge"); else if (R.be.edge_m < 1e-6) c.event("bandedge: points within 5 nm .. 1 um of a band edge"); }
    // the same point through the overload that takes the latitude: the reference latitude rounded to double
    if (R.legal && !std::isnan((double)R.be.lat)) {
      double lat = (double)R.be.lat;
      judge_fwd_lat(c, zone, northp, x, y, lat, 5, cls + "/with-lat");
    }
  }
  if (c.want_sample(cls)) c.sample(cls, J().i("zone", zone).f("x", x).f("edge_northing", (double)yb));
}

// ------------------------------------------------------------------ section: random coordinates
static double near_grid(vh::Rng& r, double lo, double hi) {
  // a value in [lo, hi] with extra mass next to multiples of 10^-k (k = -5 .. 6), to 1e-10 relative of the step
  double v = r.uniform(lo, hi);
  switch (r.below(5)) {
    case 0: return v;
    case 1: { int k = r.range(-5, 6); double step = std::pow(10.0, -k), g = std::round(v / step) * step; return vh::ulps(g, r.range(-3, 3)); }
    case 2: { int k = r.range(-5, 6); double step = std::pow(10.0, -k), g = std::round(v / step) * step; return g + r.sign() * r.logu(1e-10, 1e-3) * step; }
    case 3: { double g = std::round(v * 1e6) / 1e6; return vh::ulps(g, r.range(-2, 2)); }
    default: { double g = std::round(v / 1e5) * 1e5; return g + r.sign() * r.logu(1e-9, 1e3); }
  }
}
static void gen_point(vh::Rng& r, int& zone, bool& northp, double& x, double& y) {
  zone = r.coin(0.15) ? 0 : r.range(1, 60); northp = r.coin();
  if (zone) {
    x = near_grid(r, 1e5, 9e5);
    double lo = northp ? -9e6 : 1e6, hi = northp ? 9.5e6 : 1.95e7;
    if (r.coin(0.6)) { lo = northp ? 0 : 1e6; hi = northp ? 9.5e6 : 1e7; }       // proper hemisphere
    y = near_grid(r, lo, hi);
    if (r.coin(0.02)) x = 9e5;
    if (r.coin(0.02)) y = r.coin() ? hi : (northp ? 0.0 : 1e7);
  } else {
    double lo = rm::ups_lo(northp) * 1e5, hi = rm::ups_hi(northp) * 1e5;
    x = near_grid(r, lo, hi); y = near_grid(r, lo, hi);
    if (r.coin(0.03)) x = hi;
    if (r.coin(0.03)) y = hi;
  }
}
static void sec_random(Ctx& c, uint64_t) {
  vh::Rng& r = c.rng; int zone; bool northp; double x, y; gen_point(r, zone, northp, x, y);
  int pr = r.range(-1, 11);
  std::vector<int> precs = {pr};
  if (pr < 11) precs.push_back(pr + 1);
  if (r.coin(0.3)) { precs = ALLPREC; }
  rm::Pt p0 = rm::normalize(zone, northp, x, y);
  std::string cls = std::string("random/") + (p0.legal ? regime(p0) : std::string(zone ? "utm" : "ups") + "/outside-" + p0.why);
  FwdRes R = judge_fwd(c, zone, northp, x, y, precs, cls);
  if (R.legal && R.be.edge_m < 1e29) cls += "/near-band-edge";
  c.count(cls, vh::hmix(vh::hmix(vh::hmix(51, x), y), (uint64_t)(zone * 2 + northp)));
  if (c.want_sample(cls)) c.sample(cls, jpt(zone, northp, x, y).i("prec", pr).str("mgrs", R.out[pr + 1]));
  if (R.legal) { std::string s = R.out[pr + 1]; if (!s.empty()) judge_dec(c, s, cls); }
  // the overload that takes the latitude, fed with the reference latitude (1 ms per point: on a sample)
  if (R.legal && R.p.utm && r.coin(0.03)) {
    LD latl, dl; G->latlon_ld((LD)x - 500000, northp ? (LD)y : (LD)y - 10000000, latl, dl);
    double lat0 = (double)latl, k8 = std::round(lat0 / 8) * 8, dm = std::fabs(lat0 - k8) * (M_PI / 180) * 6.4e6;
    judge_fwd_lat(c, zone, northp, x, y, lat0, pr, cls + "/with-ref-latitude");
    c.count(cls + "/with-ref-latitude", vh::hmix(vh::hmix(52, x), y));
    LF f0 = lib_fwd(zone, northp, x, y, pr), f1 = lib_fwd_lat(zone, northp, x, y, lat0, pr);
    if (dm > 1e-6 && !(f0.st == f1.st && f0.s == f1.s)) c.viol("law:C05/forward/overloads-differ", cls, jpt(zone, northp, x, y).f("lat", lat0).str("without", f0.s).str("with", f1.s).str("what", f0.what + f1.what));
  }
}

// ------------------------------------------------------------------ section: Forward with an explicit latitude
static void sec_latarg(Ctx& c, uint64_t) {
  vh::Rng& r = c.rng; int zone = r.range(1, 60); bool south = r.coin();
  double e, yt;    // |x - 500km| signed, true northing >= 0 (mirrored for south)
  e = r.uniform(-400000, 400000);
  int mode = (int)r.below(4);
  if (mode == 0) yt = r.uniform(0, south ? 9e6 : 9.5e6);
  else { int k = r.range(1, 9); int h = std::min(3, (int)(std::fabs(e) / 1e5)); double ya = (double)G->Yedge[k][h], yb = (double)G->Yedge[k][h + 1];
    yt = r.uniform(ya - 150000, yb + 150000); if (mode == 3) yt = r.uniform(ya - 1000, yb + 1000); }
  if (yt < 0) yt = -yt;
  if (south && yt > 9e6) yt = 9e6 - 1;
  double x = 500000 + e; bool northp = !south; double y = south ? 1e7 - yt : yt;
  if (r.coin(0.1)) { northp = !northp; y = northp ? -yt : yt + 1e7; }       // continued northing of the other hemisphere
  rm::Pt p = rm::normalize(zone, northp, x, y);
  if (!p.legal) { c.count("latarg/outside", 0, true); return; }
  LD latl, dl; G->latlon_ld((LD)x - 500000, northp ? (LD)y : (LD)y - 10000000, latl, dl);
  double lat0 = (double)latl;
  int b0 = band_of_lat(lat0);
  std::string cls = std::string("latarg/") + (p.northp ? "north" : "south");
  // (a) the reference latitude itself: must agree with the overload without latitude (unless within 1 um of an edge)
  int prec = r.range(-1, 11);
  judge_fwd_lat(c, zone, northp, x, y, lat0, prec, cls + "/ref-latitude");
  {
    LF f0 = lib_fwd(zone, northp, x, y, prec), f1 = lib_fwd_lat(zone, northp, x, y, lat0, prec);
    double k8 = std::round(lat0 / 8) * 8, dm = std::fabs(lat0 - k8) * (M_PI / 180) * 6.4e6;
    if (dm > 1e-6 && !(f0.st == f1.st && f0.s == f1.s)) c.viol("law:C05/forward/overloads-differ", cls, jpt(zone, northp, x, y).f("lat", lat0).str("without", f0.s).str("with", f1.s).str("what", f0.what + f1.what));
  }
  c.count(cls + "/ref-latitude", vh::hmix(vh::hmix(vh::hmix(61, x), y), lat0));
  // (b) other latitudes: neighbouring bands (legal iff the block meets them), exact band edges +- ulp, far, tiny
  std::vector<std::pair<double, const char*>> lats = {
    {lat0 + 8, "/neighbour-band"}, {lat0 - 8, "/neighbour-band"}, {8.0 * b0, "/band-edge-exact"}, {std::nextafter(8.0 * b0, -INF), "/band-edge-exact"},
    {8.0 * (b0 + 1), "/band-edge-exact"}, {std::nextafter(8.0 * (b0 + 1), -INF), "/band-edge-exact"}, {std::nextafter(8.0 * (b0 + 1), INF), "/band-edge-exact"},
    {r.uniform(-90, 90), "/random-latitude"}, {-lat0, "/wrong-hemisphere"}, {r.sign() * r.logu(1e-300, 1e-10), "/tiny-latitude"}, {0.0, "/tiny-latitude"}, {-0.0, "/tiny-latitude"},
    {r.sign() * std::ldexp(1.0, -46) * r.uniform(0.5, 2), "/tiny-latitude"}, {90, "/pole"}, {-90, "/pole"}};
  for (auto& lp : lats) {
    double la = lp.first; if (!(std::fabs(la) <= 90)) continue;
    judge_fwd_lat(c, zone, northp, x, y, la, r.range(-1, 11), cls + lp.second);
    c.count(cls + lp.second, vh::hmix(vh::hmix(vh::hmix(62, x), y), la));
  }
  // UPS ignores the latitude
  if (r.coin(0.05)) { bool n = r.coin(); double lo = rm::ups_lo(n) * 1e5, hi = rm::ups_hi(n) * 1e5, ux = r.uniform(lo, hi), uy = r.uniform(lo, hi);
    judge_fwd_lat(c, 0, n, ux, uy, r.uniform(-90, 90), r.range(-1, 11), "latarg/ups"); c.count("latarg/ups", vh::hmix(vh::hmix(63, ux), uy)); }
}

// ------------------------------------------------------------------ section: malformed strings (deterministic mutation classes)
static void offer(Ctx& c, const std::string& s, const std::string& cls) {
  RevOut o = judge_rev(c, s, LT, G.get(), cls); judge_dec(c, s, cls);
  c.count(cls, vh::hmixs(71, s));
  c.event(o.r1.st == 0 ? "malformed: mutants accepted (REF agreed unless a violation is listed)" : "malformed: mutants rejected");
  if (c.want_sample(cls)) c.sample(cls, jstr(s).b("accepted", o.r1.st == 0).str("ref", o.d.st == rm::Dec::VALID ? "valid" : o.d.st == rm::Dec::INVMARK ? "INV-marker" : o.d.reason));
}
static void sec_malformed(Ctx& c, uint64_t idx) {
  vh::Rng& r = c.rng;
  if (idx == 0) {      // fixed catalogue
    const std::string fixed[] = {"", "I", "IN", "INV", "INVALID", "inv", "Inv123", "iNvx", "INV\0x", "99999999999C", "4294967297CAB", "4294967334SMB", "18446744073709551617C",
      "99999999999999999999999999999999999999C", "000C", "00C", "0C", "0A", "00A", "61C", "99X", "100C", "600C", "123CAB", "038SMB", "0038SMB", "38", "3", "38S ", " 38S", "38 S", "38S\t", "+38S", "-38S",
      "38.S", "38SMB4488 ", "38SMB 4488", "38SMB44 88", "38SM", "38SMB4", "38SMB448", "38SMB44880", "A", "B", "Y", "Z", "C", "X", "AA", "ZAH", "ZAH1", "1ZAH", "38ZAH", "ZA", "BAN00", "BAN0",
      "38SMB" + std::string(22, '1'), "38SMB" + std::string(24, '1'), "38SMB" + std::string(26, '1'), "38SMB" + std::string(23, '1'), "38SMB" + std::string(1000, '1'), "38SMB" + std::string(100001, '7'),
      std::string("38S\0B12", 7), std::string("38S\0\0", 5), std::string("38SM\0" "12", 7), std::string("38\0MB", 5), std::string("\0", 1), std::string("38S\0", 4), std::string("Z\0H", 3), std::string("ZA\0", 3),
      std::string("38SMB44\0" "8", 9), std::string("38SMB4\08\08", 10), "38SMB44\xb8\xb8", "38\xd3MB", "38S\xcd" "B", "\xb3\xb8SMB", "38SMB४४८८", "３８SMB"};
    for (const std::string& s : fixed) offer(c, s, "malformed/fixed-catalogue");
    return;
  }
  int zone; bool northp; double x, y;
  do gen_point(r, zone, northp, x, y); while (!rm::normalize(zone, northp, x, y).legal);
  int prec = r.range(0, 11);
  LF f = lib_fwd(zone, northp, x, y, prec);
  if (f.st) return;                                   // judged in sec_random
  const std::string s = f.s; size_t z = zone ? 2 : 0, n = s.size();
  const std::string u = zone ? "utm" : "ups";
  offer(c, s, "malformed/" + u + "/unmutated");
  for (size_t i = z; i < z + 3; ++i) for (char ch : {'I', 'O', 'i', 'o'}) { std::string t = s; t[i] = ch; offer(c, t, "malformed/" + u + "/letter-I-or-O"); }
  { std::string t = s; t.pop_back(); if (prec) offer(c, t, "malformed/" + u + "/odd-digit-count"); offer(c, s + "5", "malformed/" + u + "/odd-digit-count"); }
  { std::string t = s; for (char& ch : t) if (ch >= 'A' && ch <= 'Z') ch = (char)(ch + 32); offer(c, t, "malformed/" + u + "/lower-case");
    std::string t2 = s; size_t i = z + r.below(3); t2[i] = (char)(t2[i] + 32); offer(c, t2, "malformed/" + u + "/lower-case"); }
  if (zone) {
    offer(c, "0" + s, "malformed/utm/leading-zero-3-digit-zone"); offer(c, "00" + s, "malformed/utm/leading-zero-3-digit-zone");
    if (zone < 10) offer(c, s.substr(1), "malformed/utm/one-digit-zone");
    offer(c, s.substr(0, 1) + s, "malformed/utm/3-digit-zone"); offer(c, "1" + s, "malformed/utm/3-digit-zone");
    for (const char* zz : {"00", "0", "61", "75", "99"}) offer(c, zz + s.substr(2), "malformed/utm/zone-out-of-range");
    offer(c, s.substr(2), "malformed/utm/zone-dropped");
    for (char ch : {'A', 'B', 'Y', 'Z'}) { std::string t = s; t[2] = ch; offer(c, t, "malformed/utm/ups-band-letter-with-zone"); }
    for (int k = 0; k < 4; ++k) { std::string t = s; t[2] = rm::utm_band_letter(r.range(-10, 9)); offer(c, t, "malformed/utm/other-band-letter"); }
    for (int k = 0; k < 3; ++k) { std::string t = s; t[3] = rm::alphabet24()[r.below(24)]; offer(c, t, "malformed/utm/other-column-letter"); }
    for (char ch : {'W', 'X', 'Y', 'Z'}) { std::string t = s; t[4] = ch; offer(c, t, "malformed/utm/row-letter-W-Z"); }
    for (int k = 0; k < 3; ++k) { std::string t = s; t[4] = rm::alphabet24()[r.below(20)]; offer(c, t, "malformed/utm/other-row-letter"); }
    offer(c, std::string(r.range(3, 25), '9') + s.substr(2), "malformed/utm/long-digit-prefix");
    offer(c, std::to_string(4294967296ULL + (unsigned)zone) + s.substr(2), "malformed/utm/long-digit-prefix");
  } else {
    offer(c, "38" + s, "malformed/ups/zone-digits-added"); offer(c, "0" + s, "malformed/ups/zone-digits-added"); offer(c, "00" + s, "malformed/ups/zone-digits-added");
    for (int k = 0; k < 3; ++k) { std::string t = s; t[0] = "ABYZ"[r.below(4)]; offer(c, t, "malformed/ups/other-band-letter"); }
    { std::string t = s; t[0] = rm::utm_band_letter(r.range(-10, 9)); offer(c, t, "malformed/ups/utm-band-letter-without-zone"); }
    for (int k = 0; k < 4; ++k) { std::string t = s; t[1 + r.below(2)] = rm::alphabet24()[r.below(24)]; offer(c, t, "malformed/ups/other-block-letter"); }
    for (char ch : {'D', 'E', 'M', 'N', 'V', 'W'}) { std::string t = s; t[1] = ch; offer(c, t, "malformed/ups/column-letter-not-in-ups-alphabet"); }
  }
  for (size_t i = 0; i <= n; ++i) {
    if (r.coin(0.5) && i > 6 && i < n) continue;
    offer(c, s.substr(0, i) + " " + s.substr(i), "malformed/" + u + "/embedded-space");
    offer(c, s.substr(0, i) + std::string(1, '\0') + s.substr(i), "malformed/" + u + "/embedded-NUL");
    if (i < n) { std::string t = s; t[i] = '\0'; offer(c, t, "malformed/" + u + "/NUL-replaces-character"); }
    if (i < n) { std::string t = s; t[i] = (char)(0x80 + r.below(128)); offer(c, t, "malformed/" + u + "/non-ascii-byte"); }
    if (i < n) offer(c, s.substr(0, i), "malformed/" + u + "/truncated");
  }
  for (char ch : {'\t', '\n', '+', '-', '.', ',', '/', ':', '@', '[', '`', '{'}) { size_t i = r.below(n + 1); offer(c, s.substr(0, i) + ch + s.substr(i), "malformed/" + u + "/punctuation"); }
  { std::string d1(11 - prec + 1, '3'); offer(c, s.substr(0, z + 3 + prec) + d1 + s.substr(z + 3 + prec) + d1, "malformed/" + u + "/too-many-digits");
    offer(c, s + std::string(2 * r.range(12, 40), '8'), "malformed/" + u + "/too-many-digits"); }
  if (prec) { std::string t = s; t[z + 3 + r.below(2 * prec)] = rm::alphabet24()[r.below(24)]; offer(c, t, "malformed/" + u + "/letter-among-digits"); }
}

// ------------------------------------------------------------------ section: GeoCoords cross-check
static void sec_geocoords(Ctx& c, uint64_t) {
  using GeographicLib::GeoCoords;
  vh::Rng& r = c.rng;
  double lat = r.coin(0.2) ? r.sign() * (90 - r.logu(1e-9, 12)) : r.uniform(-90, 90), lon = r.uniform(-180, 180);
  if (r.coin(0.15)) lat = vh::ulps(8.0 * r.range(-10, 10) + (r.coin(0.2) ? 4 : 0), r.range(-2, 2));
  if (r.coin(0.1)) lon = vh::ulps(6.0 * r.range(-30, 30), r.range(-2, 2));
  if (std::fabs(lat) > 90) lat = std::copysign(90.0, lat);
  int setzone = r.coin(0.7) ? GeographicLib::UTMUPS::STANDARD : r.coin() ? GeographicLib::UTMUPS::UTM : r.range(0, 60);
  std::string cls = "geocoords/";
  try {
    GeoCoords g(lat, lon, setzone);
    int prec = r.range(-7, 8), mp = std::max(-1, std::min(6, prec) + 5);
    cls += g.Zone() ? "utm" : "ups";
    std::string s, what; int st = 0;
    try { s = g.MGRSRepresentation(prec); } catch (const GeographicLib::GeographicErr& e) { st = 1; what = e.what(); } catch (const std::exception& e) { st = 2; what = e.what(); }
    LF f = lib_fwd_lat(g.Zone(), g.Northp(), g.Easting(), g.Northing(), g.Latitude(), mp);
    J w = J().f("lat", lat).f("lon", lon).i("setzone", setzone).i("prec", prec).i("zone", g.Zone()).b("northp", g.Northp()).f("easting", g.Easting()).f("northing", g.Northing());
    if (st == 2) c.viol("exception:C05/geocoords/foreign-exception", cls, w.str("what", what));
    else if (st != f.st || (st == 0 && s != f.s)) c.viol("law:C05/geocoords/MGRSRepresentation-differs-from-MGRS::Forward", cls, w.str("repr", s).str("forward", f.s).str("what", what + f.what));
    c.count(cls, vh::hmix(vh::hmix(vh::hmix(81, lat), lon), (uint64_t)(setzone + 10)));
    judge_fwd_lat(c, g.Zone(), g.Northp(), g.Easting(), g.Northing(), g.Latitude(), mp, cls);
    if (st == 0) {
      // the string parses back through GeoCoords to the same zone / hemisphere and to the centre returned by MGRS::Reverse
      rm::Dec d = rm::decode(s, LT);
      if (d.st == rm::Dec::VALID && !d.unjudged) {
        try { GeoCoords g2(s); LR rr = lib_rev(s, true);
          if (rr.st || g2.Zone() != rr.zone || g2.Northp() != rr.northp || !(g2.Easting() == rr.x) || !(g2.Northing() == rr.y))
            c.viol("law:C05/geocoords/constructor-from-MGRS-differs-from-MGRS::Reverse", cls, w.str("repr", s));
          if (g2.Zone() != g.Zone() || g2.Northp() != g.Northp()) c.viol("law:C05/geocoords/zone-or-hemisphere-not-preserved", cls, w.str("repr", s));
        } catch (const std::exception& e) { c.viol("law:C05/geocoords/own-MGRS-representation-rejected", cls, w.str("repr", s).str("what", e.what())); }
        if (c.want_sample(cls)) c.sample(cls, w.str("repr", s));
      } else if (d.st == rm::Dec::INVALID) c.viol("oracle:C05/geocoords/representation-not-a-valid-MGRS", cls, w.str("repr", s).str("reason", d.reason));
    } else c.event("geocoords: MGRSRepresentation threw GeographicErr (coordinate outside the MGRS range; REF agreed unless a violation is listed)");
  } catch (const GeographicLib::GeographicErr&) { c.count("geocoords/constructor-threw", 0, true); }
}

// ------------------------------------------------------------------ section: INVALID / NaN conventions
static void sec_invalid(Ctx& c, uint64_t idx) {
  const double nan = std::numeric_limits<double>::quiet_NaN();
  struct T { int zone; bool n; double x, y; } t[] = {{GeographicLib::UTMUPS::INVALID, true, 5e5, 5e5}, {GeographicLib::UTMUPS::INVALID, false, nan, 1e99}, {38, true, nan, 5e5}, {38, false, 5e5, nan}, {0, true, nan, nan}, {61, true, nan, 0}};
  const T& q = t[idx % 6];
  for (int prec : {-1, 0, 5, 11}) {
    LF f = lib_fwd(q.zone, q.n, q.x, q.y, prec), f2 = lib_fwd_lat(q.zone, q.n, q.x, q.y, 10, prec), f3 = lib_fwd_lat(38, true, 5e5, 1.2e6, nan, prec);
    if (f.st || f.s != "INVALID" || f2.st || f2.s != "INVALID" || f3.st || f3.s != "INVALID") c.viol("oracle:C05/forward/NaN-or-INVALID-zone-not-INVALID", "invalid-marker", jpt(q.zone, q.n, q.x, q.y).str("got", f.s + "|" + f2.s + "|" + f3.s));
    c.count("invalid-marker", vh::hmix(91, (uint64_t)(idx * 16 + prec + 1)), true);
  }
  for (int z : {-1, -2, -3, -5, 61, 1000, INT32_MAX, INT32_MIN, 38, 0}) for (int prec : {-2, -1, 0, 11, 12, 100, INT32_MIN, INT32_MAX}) {
    bool bad = !(z >= 0 && z <= 60) || !(prec >= -1 && prec <= 11);
    double xy = z ? 5e5 : 2e6;
    LF f = lib_fwd(z, true, xy, z ? 1.2e6 : 2e6, prec);
    if (bad ? !(f.st == 1 && !f.touched) : f.st != 0) c.viol("oracle:C05/forward/zone-or-prec-out-of-range-not-rejected-cleanly", "invalid-arguments", J().i("zone", z).i("prec", prec).str("got", f.s).str("what", f.what));
    c.count("invalid-arguments", vh::hmix(92, (uint64_t)(z * 1000003LL + prec)), true);
  }
}

// ------------------------------------------------------------------ section: negative subnormal northings ("north" convention, legal range)
static void sec_subnormal(Ctx& c, uint64_t idx) {
  static const double ys[] = {-5e-324, -1e-323, -1e-320, -2.4e-319, -2.5e-319, -1e-315, -2.2250738585072009e-308};
  int zone = (int[]){1, 38, 60}[idx % 3]; double y = ys[(idx / 3) % 7], x = (double[]){100000.0, 500000.0, 900000.0}[(idx / 21) % 3];
  int prec = (int[]){11, 5, 0, -1}[(idx / 63) % 4];
  judge_fwd(c, zone, true, x, y, {prec}, "subnormal-northing");
  c.count("subnormal-northing", vh::hmix(vh::hmix(95, y), (uint64_t)(zone * 100 + prec)));
}

// ------------------------------------------------------------------ replay of a fuzzer-found input (C05_REPLAY_HEX=<hex bytes>)
static void sec_fuzz_replay(Ctx& c, uint64_t) {
  const char* h = std::getenv("C05_REPLAY_HEX"); if (!h) { c.herr("set C05_REPLAY_HEX=<hex of the fuzz input>"); return; }
  std::string data; for (size_t i = 0; h[i] && h[i + 1]; i += 2) { unsigned v; std::sscanf(h + i, "%2x", &v); data += (char)v; }
  offer(c, data, "fuzz-replay");
}

int main(int argc, char** argv) {
  try { G.reset(new rm::Geo()); G->fill(LT); }
  catch (const std::exception& e) { std::fprintf(stderr, "C05: reference oracle failed to initialise: %s\n", e.what()); return 2; }
  if (argc == 3 && std::string(argv[1]) == "--dump-table") return LT.save(argv[2]) ? 0 : 2;
  if (argc == 5 && std::string(argv[1]) == "--dump-corpus") {      // DIR SEED N: library-produced strings as fuzz seeds
    vh::Rng r(vh::mix64(std::strtoull(argv[3], nullptr, 10) ^ 0xC05)); int n = std::atoi(argv[4]), w = 0;
    for (int i = 0; i < 20 * n && w < n; ++i) {
      int zone; bool northp; double x, y; gen_point(r, zone, northp, x, y);
      LF f = lib_fwd(zone, northp, x, y, i % 7 == 0 ? -1 : r.range(0, 11));
      if (f.st) continue;
      std::string s = f.s; if (i % 5 == 1) for (char& ch : s) if (ch >= 'A' && ch <= 'Z') ch = (char)(ch + 32);
      if (i % 11 == 2 && s[0] == '0') s = s.substr(1);
      FILE* fp = std::fopen((std::string(argv[2]) + "/p" + std::to_string(w++)).c_str(), "wb"); if (!fp) return 2;
      std::fwrite(s.data(), 1, s.size(), fp); std::fclose(fp);
    }
    return 0;
  }
  std::vector<Section> S;
  S.push_back({"selftest", 201, 2001, false, sec_selftest});
  S.push_back({"blocktable", 141, 141, false, sec_blocktable, 600});
  S.push_back({"gridzone", 61, 61, false, sec_gridzone});
  S.push_back({"invalid", 6, 6, false, sec_invalid});
  S.push_back({"subnormal", 252, 252, false, sec_subnormal});
  S.push_back({"corners", 122, 122, false, sec_corners, 1200});
  S.push_back({"bandedges", 324, 3240, true, sec_bandedges, 600});
  S.push_back({"random", 300000, 10000000, true, sec_random});
  S.push_back({"latarg", 6000, 200000, true, sec_latarg});
  S.push_back({"malformed", 3000, 100000, true, sec_malformed});
  S.push_back({"geocoords", 30000, 1000000, true, sec_geocoords});
  S.push_back({"fuzz_replay", 0, 0, false, sec_fuzz_replay});
  return vh::run_sections(argc, argv, S);
}
