// C16 — angle arithmetic and exact-summation primitives.
// Monitors: exact (MPFR / wider IEEE type) oracles next to every Math:: call, bit-exact
// symmetry / periodicity laws, exact-sum law for Math::sum, history model for Accumulator.
#include <GeographicLib/Math.hpp>
#include <GeographicLib/Accumulator.hpp>
#include "harness/common.hpp"
#include "oracle/ref_exact.hpp"

using GeographicLib::Math;
using vh::Ctx; using vh::J; using vh::Section;
static const double INF = std::numeric_limits<double>::infinity();
static const __float128 PIq = M_PIq;

// tolerances in ulps of the result type ("a couple of units in the last place" / "round-off")
static const double TOL_SINCOS = 2.0, TOL_TAN = 4.0, TOL_ATAN2 = 4.0;

// ---------------------------------------------------------------------------- float sweep
static inline float f_from_bits(uint32_t u) { float f; std::memcpy(&f, &u, 4); return f; }
static inline uint32_t bits_of(float f) { uint32_t u; std::memcpy(&u, &f, 4); return u; }
static inline uint64_t bits_of(double f) { uint64_t u; std::memcpy(&u, &f, 8); return u; }

static void truth_sincos_d(double x, double& s, double& c) {   // for float arguments: exact reduction in double
  int q; double r = std::remquo(x, 90.0, &q);
  double ss = std::sin(r * (M_PI / 180)), cc = std::cos(r * (M_PI / 180));
  if (r == 0) { ss = std::copysign(0.0, r); cc = 1; }
  switch (unsigned(q) & 3u) { case 0: s = ss; c = cc; break; case 1: s = cc; c = -ss; break;
    case 2: s = -ss; c = -cc; break; default: s = -cc; c = ss; }
}

static void check_float(Ctx& c, float x, uint64_t& nchecked) {
  const char* K = "f32";
  uint32_t xb = bits_of(x);
  if (std::isnan(x)) {
    float s, co; Math::sincosd(x, s, co);
    if (!(std::isnan(Math::AngNormalize(x)) && std::isnan(Math::sind(x)) && std::isnan(Math::cosd(x)) &&
          std::isnan(Math::tand(x)) && std::isnan(s) && std::isnan(co) && std::isnan(Math::LatFix(x)) && std::isnan(Math::AngRound(x))))
      c.viol("oracle:C16/f32/nan-in-nan-out", K, J().u("bits", xb));
    ++nchecked; return;
  }
  // ---- AngNormalize: IEEE remainder is exact, so the expected value is exact in double
  float y = Math::AngNormalize(x);
  if (std::isinf(x)) {
    if (!std::isnan(y)) c.viol("oracle:C16/f32/AngNormalize-inf", K, J().u("bits", xb).f("got", y));
  } else {
    double r = std::remainder((double)x, 360.0);
    if (std::fabs(r) == 180) r = std::copysign(180.0, (double)x);
    if (r == 0) r = std::copysign(0.0, (double)x);
    float e = (float)r;
    if (bits_of(e) != bits_of(y))
      c.viol("oracle:C16/f32/AngNormalize", K, J().u("bits", xb).f("x", x).f("got", y).f("want", e));
    if (std::fabs(x) <= 180 && bits_of(y) != xb)
      c.viol("oracle:C16/f32/AngNormalize-identity-in-range", K, J().u("bits", xb).f("x", x).f("got", y));
  }
  // ---- LatFix
  float lf = Math::LatFix(x);
  if (std::fabs(x) > 90 ? !std::isnan(lf) : bits_of(lf) != xb)
    c.viol("oracle:C16/f32/LatFix", K, J().u("bits", xb).f("x", x).f("got", lf));
  // ---- AngRound: sign kept, identity for |x| >= 1/16, error <= eps/16 otherwise, monotone vs neighbour
  float ar = Math::AngRound(x);
  {
    bool ok = std::signbit(ar) == std::signbit(x);
    if (std::fabs(x) >= 1.0f / 16 || x == 0) ok = ok && bits_of(ar) == xb;
    else ok = ok && std::fabs((double)ar - (double)x) <= std::numeric_limits<float>::epsilon() / 16 && std::fabs(ar) <= 1.0f / 16;
    if (!ok) c.viol("oracle:C16/f32/AngRound", K, J().u("bits", xb).f("x", x).f("got", ar));
    if (std::isfinite(x)) {
      float xn = std::nextafterf(x, std::numeric_limits<float>::infinity());
      if (std::isfinite(xn) && Math::AngRound(xn) < ar)
        c.viol("oracle:C16/f32/AngRound-monotone", K, J().u("bits", xb).f("x", x));
    }
  }
  // ---- trig in degrees
  float s = Math::sind(x), co = Math::cosd(x), t = Math::tand(x), s2, c2;
  Math::sincosd(x, s2, c2);
  if (std::isinf(x)) {
    if (!(std::isnan(s) && std::isnan(co) && std::isnan(t) && std::isnan(s2) && std::isnan(c2)))
      c.viol("oracle:C16/f32/trig-inf", K, J().u("bits", xb));
    ++nchecked; return;
  }
  double ts, tc; truth_sincos_d((double)x, ts, tc);
  double es = ref::err_ulps_f(s, ts), ec = ref::err_ulps_f(co, tc), es2 = ref::err_ulps_f(s2, ts), ec2 = ref::err_ulps_f(c2, tc);
  double em = std::max(std::max(es, ec), std::max(es2, ec2));
  c.obs("f32 sind/cosd/sincosd err [ulp]", em, J().u("bits", xb).f("x", x));
  if (em > TOL_SINCOS)
    c.viol("oracle:C16/f32/sincos-accuracy", K, J().u("bits", xb).f("x", x).f("sind", s).f("cosd", co).f("true_sin", ts).f("true_cos", tc).f("err_ulp", em));
  // exact zeros keep the documented signs
  if (ts == 0 && !(s == 0 && s2 == 0 && std::signbit(s) == std::signbit(x) && std::signbit(s2) == std::signbit(x)))
    c.viol("oracle:C16/f32/sin-zero-sign", K, J().u("bits", xb).f("x", x).f("sind", s));
  if (tc == 0 && !(co == 0 && c2 == 0 && !std::signbit(co) && !std::signbit(c2)))
    c.viol("oracle:C16/f32/cos-zero-sign", K, J().u("bits", xb).f("x", x).f("cosd", co));
  // tand
  {
    double tt = tc == 0 ? INF : ts / tc;
    const double ovf = 1.0 / ((double)std::numeric_limits<float>::epsilon() * std::numeric_limits<float>::epsilon());
    if (std::fabs(tt) >= ovf) { if (!(std::fabs(t) == (float)ovf)) c.viol("oracle:C16/f32/tand-clamp", K, J().u("bits", xb).f("x", x).f("tand", t)); }
    else { double et = ref::err_ulps_f(t, tt); c.obs("f32 tand err [ulp]", et, J().u("bits", xb));
      if (et > TOL_TAN) c.viol("oracle:C16/f32/tand-accuracy", K, J().u("bits", xb).f("x", x).f("tand", t).f("true", tt).f("err_ulp", et)); }
  }
  // correctly rounded at multiples of 30 and 45 degrees
  {
    double m30 = std::remainder((double)x, 30.0), m45 = std::remainder((double)x, 45.0);
    if (m30 == 0 || m45 == 0) {
      if (bits_of(s) != bits_of((float)ts) && !(ts == 0 && s == 0)) c.viol("oracle:C16/f32/sind-exact-30-45", K, J().u("bits", xb).f("x", x).f("got", s).f("want", (float)ts));
      if (bits_of(co) != bits_of((float)tc) && !(tc == 0 && co == 0)) c.viol("oracle:C16/f32/cosd-exact-30-45", K, J().u("bits", xb).f("x", x).f("got", co).f("want", (float)tc));
      if ((bits_of(s2) != bits_of((float)ts) && !(ts == 0 && s2 == 0)) || (bits_of(c2) != bits_of((float)tc) && !(tc == 0 && c2 == 0)))
        c.viol("oracle:C16/f32/sincosd-exact-30-45", K, J().u("bits", xb).f("x", x).f("sin", s2).f("cos", c2));
      c.event("f32 multiples of 30/45 checked for correct rounding");
    }
  }
  // odd / even, bit-exact
  {
    float sm = Math::sind(-x), cm = Math::cosd(-x), tm = Math::tand(-x);
    if (bits_of(sm) != bits_of(-s) || bits_of(cm) != bits_of(co) || bits_of(tm) != bits_of(-t))
      c.viol("law:C16/f32/parity", K, J().u("bits", xb).f("x", x));
  }
  // depends only on x mod 360 (bit-exact, the reduced argument is exactly representable)
  {
    float xr = (float)std::remainder((double)x, 360.0);
    if (xr == 0) xr = std::copysign(0.0f, x);
    if (std::fabs(xr) == 180) xr = std::copysign(180.0f, x);
    if (bits_of(Math::sind(xr)) != bits_of(s) || bits_of(Math::cosd(xr)) != bits_of(co))
      c.viol("law:C16/f32/period-360", K, J().u("bits", xb).f("x", x).f("xr", xr));
  }
  // sincosd consistent with sind / cosd to the same tolerance (already checked against truth)
  ++nchecked;
}

static void sec_f32sweep(Ctx& c, uint64_t blk) {
  uint64_t n = 0;
  uint32_t base = (uint32_t)(blk << 20);
  if (c.quick()) {
    uint32_t off = (uint32_t)(vh::mix64(c.seed ^ 0x5151) & 255u);
    for (uint32_t j = 0; j < (1u << 20); j += 256) check_float(c, f_from_bits(base + j + off), n);
  } else {
    for (uint32_t j = 0; j < (1u << 20); ++j) check_float(c, f_from_bits(base + j), n);
  }
  c.count("f32/one-argument-functions/block", blk);
  c.event("f32 bit patterns checked", n);
  if (blk % 1024 == 7) c.sample("f32/one-argument-functions/block", J().u("first_bits", base).u("patterns", n));
}

// ---------------------------------------------------------------------------- double generators
static double gen_angle(vh::Rng& r, std::string& cls) {
  switch (r.below(12)) {
  case 0: { long k = (long)r.below(1u << 21) - (1 << 20); cls = "mult30"; return vh::ulps(30.0 * k, r.range(-2, 2)); }
  case 1: { long k = (long)r.below(1u << 21) - (1 << 20); cls = "mult45"; return vh::ulps(45.0 * k, r.range(-2, 2)); }
  case 2: { double k = std::floor(r.logu(1, 4.5e15)); cls = "mult90-big"; return r.sign() * vh::ulps(90.0 * k, r.range(-2, 2)); }
  case 3: { cls = "pow2"; return r.sign() * std::ldexp(1.0, r.range(-1074, 1023)); }
  case 4: { cls = "subnormal"; return r.sign() * std::ldexp(r.u(), -1022); }
  case 5: { cls = "binade"; return r.sign() * std::ldexp(1 + r.u(), r.range(-1074, 1023)); }
  case 6: { cls = "near-180-360"; static const double b[] = {90, 180, 270, 360, 540, 720}; return r.sign() * vh::ulps(r.pick(b), r.range(-3, 3)); }
  case 7: { cls = "small"; return r.sign() * r.logu(1e-300, 1e-3); }
  case 8: { cls = "uniform-1circuit"; return r.uniform(-360, 360); }
  case 9: { cls = "uniform-many-circuits"; return r.uniform(-1e6, 1e6); }
  case 10: { cls = "huge"; return r.sign() * r.logu(1e15, 1.7e308); }
  default: { static const double sp[] = {0.0, -0.0, 1.0 / 16, 1.0 / 32, 5e-324, 2.2250738585072014e-308, 1.7976931348623157e308, 30, 45, 60, 90, 180};
    cls = "special"; return r.sign() * vh::ulps(r.pick(sp), r.range(-1, 1)); }
  }
}

static void truth_sincos_q(double x, __float128& s, __float128& c) {
  int q; __float128 r = remquoq((__float128)x, 90, &q);
  __float128 ss = sinq(r * (PIq / 180)), cc = cosq(r * (PIq / 180));
  switch (unsigned(q) & 3u) { case 0: s = ss; c = cc; break; case 1: s = cc; c = -ss; break;
    case 2: s = -ss; c = -cc; break; default: s = -cc; c = ss; }
}

static void sec_dbl1(Ctx& c, uint64_t) {
  std::string cls; double x = gen_angle(c.rng, cls); cls = "f64/one-arg/" + cls;
  c.count(cls, vh::hmix(1, x));
  if (c.want_sample(cls)) c.sample(cls, J().f("x", x));
  if (!std::isfinite(x)) {     // +-inf (NaN is covered in C13): every angle function must give NaN
    double s0, c0; Math::sincosd(x, s0, c0);
    if (!(std::isnan(Math::AngNormalize(x)) && std::isnan(Math::sind(x)) && std::isnan(Math::cosd(x)) && std::isnan(Math::tand(x)) && std::isnan(s0) && std::isnan(c0) && std::isnan(Math::LatFix(x))))
      c.viol("oracle:C16/f64/inf-gives-nan", cls, J().f("x", x));
    return;
  }
  // AngNormalize against MPFR's exact remainder
  {
    ref::MP mx = ref::mp(x), m360 = ref::mp(360), r;
    mpfr_remainder(r.v, mx.v, m360.v, MPFR_RNDN);
    double e = r.d();
    if (std::fabs(e) == 180) e = std::copysign(180.0, x);
    if (e == 0) e = std::copysign(0.0, x);
    double y = Math::AngNormalize(x);
    if (bits_of(y) != bits_of(e)) c.viol("oracle:C16/f64/AngNormalize", cls, J().f("x", x).f("got", y).f("want", e));
    if (!(std::fabs(y) <= 180)) c.viol("oracle:C16/f64/AngNormalize-range", cls, J().f("x", x).f("got", y));
  }
  double lf = Math::LatFix(x);
  if (std::fabs(x) > 90 ? !std::isnan(lf) : bits_of(lf) != bits_of(x)) c.viol("oracle:C16/f64/LatFix", cls, J().f("x", x).f("got", lf));
  double ar = Math::AngRound(x);
  {
    bool ok = std::signbit(ar) == std::signbit(x);
    if (std::fabs(x) >= 1.0 / 16 || x == 0) ok = ok && bits_of(ar) == bits_of(x);
    else ok = ok && std::fabs(ar - x) <= std::numeric_limits<double>::epsilon() / 16 && std::fabs(ar) <= 1.0 / 16;
    double xn = std::nextafter(x, INF);
    if (!ok) c.viol("oracle:C16/f64/AngRound", cls, J().f("x", x).f("got", ar));
    if (std::isfinite(xn) && Math::AngRound(xn) < ar) c.viol("oracle:C16/f64/AngRound-monotone", cls, J().f("x", x));
  }
  double s = Math::sind(x), co = Math::cosd(x), t = Math::tand(x), s2, c2;
  Math::sincosd(x, s2, c2);
  __float128 ts, tc; truth_sincos_q(x, ts, tc);
  double em = std::max(std::max(ref::err_ulps(s, ts), ref::err_ulps(co, tc)), std::max(ref::err_ulps(s2, ts), ref::err_ulps(c2, tc)));
  c.obs("f64 sind/cosd/sincosd err [ulp]", em, J().f("x", x));
  if (em > TOL_SINCOS) c.viol("oracle:C16/f64/sincos-accuracy", cls, J().f("x", x).f("sind", s).f("cosd", co).f("err_ulp", em).str("true_sin", ref::qstr(ts)).str("true_cos", ref::qstr(tc)));
  if (ts == 0 && !(s == 0 && s2 == 0 && std::signbit(s) == std::signbit(x) && std::signbit(s2) == std::signbit(x))) c.viol("oracle:C16/f64/sin-zero-sign", cls, J().f("x", x).f("sind", s));
  if (tc == 0 && !(co == 0 && c2 == 0 && !std::signbit(co) && !std::signbit(c2))) c.viol("oracle:C16/f64/cos-zero-sign", cls, J().f("x", x).f("cosd", co));
  {
    const double ovf = 1.0 / (std::numeric_limits<double>::epsilon() * std::numeric_limits<double>::epsilon());
    __float128 tt = tc == 0 ? (__float128)INF : ts / tc;
    if (fabsq(tt) >= ovf) { if (std::fabs(t) != ovf) c.viol("oracle:C16/f64/tand-clamp", cls, J().f("x", x).f("tand", t)); }
    else { double et = ref::err_ulps(t, tt); c.obs("f64 tand err [ulp]", et, J().f("x", x));
      if (et > TOL_TAN) c.viol("oracle:C16/f64/tand-accuracy", cls, J().f("x", x).f("tand", t).f("err_ulp", et)); }
  }
  {
    ref::MP mx = ref::mp(x), m30 = ref::mp(30), m45 = ref::mp(45), r30, r45;
    mpfr_remainder(r30.v, mx.v, m30.v, MPFR_RNDN); mpfr_remainder(r45.v, mx.v, m45.v, MPFR_RNDN);
    if (r30.zero() || r45.zero()) {
      c.event("f64 multiples of 30/45 checked for correct rounding");
      if (bits_of(s) != bits_of((double)ts) && !(ts == 0 && s == 0)) c.viol("oracle:C16/f64/sind-exact-30-45", cls, J().f("x", x).f("got", s).f("want", (double)ts));
      if (bits_of(co) != bits_of((double)tc) && !(tc == 0 && co == 0)) c.viol("oracle:C16/f64/cosd-exact-30-45", cls, J().f("x", x).f("got", co).f("want", (double)tc));
      // the same guarantee for the combined routine
      if ((bits_of(s2) != bits_of((double)ts) && !(ts == 0 && s2 == 0)) || (bits_of(c2) != bits_of((double)tc) && !(tc == 0 && c2 == 0)))
        c.viol("oracle:C16/f64/sincosd-exact-30-45", cls, J().f("x", x).f("sin", s2).f("cos", c2).f("want_sin", (double)ts).f("want_cos", (double)tc));
    }
    // sincosd and sind/cosd are the same function of x: bit-identical results
    if (bits_of(s2) != bits_of(s) || bits_of(c2) != bits_of(co)) c.viol("law:C16/f64/sincosd-differs-from-sind-cosd", cls, J().f("x", x).f("sind", s).f("sincosd_sin", s2).f("cosd", co).f("sincosd_cos", c2));
  }
  {
    double sm = Math::sind(-x), cm = Math::cosd(-x), tm = Math::tand(-x), s3, c3; Math::sincosd(-x, s3, c3);
    if (bits_of(sm) != bits_of(-s) || bits_of(cm) != bits_of(co) || bits_of(tm) != bits_of(-t) || bits_of(s3) != bits_of(-s2) || bits_of(c3) != bits_of(c2))
      c.viol("law:C16/f64/parity", cls, J().f("x", x));
  }
  // periodicity: x + 360k exactly representable => identical bits
  for (int rep = 0; rep < 3; ++rep) {
    double k = std::floor(c.rng.logu(1, 1e12)) * c.rng.sign();
    double xs = x + 360 * k;
    ref::MP ex = ref::mp(x), ek = ref::mp(360 * k), exs = ref::mp(xs); mpfr_add(ex.v, ex.v, ek.v, MPFR_RNDN);
    if (mpfr_cmp(ex.v, exs.v) == 0 && std::isfinite(xs) && xs != 0 && x != 0 && std::signbit(xs) == std::signbit(x)) {
      c.event("f64 exact 360k shifts checked");
      double s4, c4; Math::sincosd(xs, s4, c4);
      if (bits_of(Math::sind(xs)) != bits_of(s) || bits_of(Math::cosd(xs)) != bits_of(co) || bits_of(s4) != bits_of(s2) || bits_of(c4) != bits_of(c2) || bits_of(Math::tand(xs)) != bits_of(t))
        c.viol("law:C16/f64/period-360", cls, J().f("x", x).f("k", k));
    }
  }
  // sincosde(x, t): the sine and cosine of (x + t) for a tiny correction t
  {
    double tc2 = c.rng.coin(0.3) ? 0.0 : c.rng.sign() * c.rng.logu(1e-30, 1e-10);
    if (std::fabs(x) < 1e15) {
      double s5, c5; Math::sincosde(x, tc2, s5, c5);
      int q; __float128 r = remquoq((__float128)x, 90, &q) + tc2; __float128 ss = sinq(r * (PIq / 180)), cc = cosq(r * (PIq / 180)), S, C;
      switch (unsigned(q) & 3u) { case 0: S = ss; C = cc; break; case 1: S = cc; C = -ss; break; case 2: S = -ss; C = -cc; break; default: S = -cc; C = ss; }
      // AngRound inside sincosde moves the reduced angle by up to eps/16 degrees (documented rounding of tiny angles)
      double slack = std::numeric_limits<double>::epsilon() / 16 * (M_PI / 180);
      double e5 = (double)std::max(fabsq(s5 - S) - slack, fabsq(c5 - C) - slack) / std::numeric_limits<double>::epsilon();
      c.obs("f64 sincosde abs err beyond AngRound slack [eps]", e5, J().f("x", x).f("t", tc2));
      if (e5 > 2.0) c.viol("oracle:C16/f64/sincosde", cls, J().f("x", x).f("t", tc2).f("s", s5).f("c", c5));
    }
  }
  // atand
  {
    double a = Math::atand(x); __float128 ta = atanq((__float128)x) * (180 / PIq);
    double ea = ref::err_ulps(a, ta); c.obs("f64 atand err [ulp]", ea, J().f("x", x));
    if (ea > TOL_ATAN2) c.viol("oracle:C16/f64/atand", cls, J().f("x", x).f("got", a).f("err_ulp", ea));
  }
}

// ---------------------------------------------------------------------------- two-argument functions (double)
static void sec_dbl2(Ctx& c, uint64_t) {
  vh::Rng& r = c.rng; std::string ca, cb;
  double x = gen_angle(r, ca), y;
  std::string cls;
  switch (r.below(6)) {
  case 0: y = vh::ulps(x, r.range(-4, 4)); cls = "nearly-equal"; break;
  case 1: y = vh::ulps(x + 180, r.range(-4, 4)); cls = "nearly-opposite"; break;
  case 2: y = vh::ulps(x + 360 * std::floor(r.uniform(-1000, 1000)), r.range(-2, 2)); cls = "circuits-apart"; break;
  case 3: y = vh::ulps(-x, r.range(-2, 2)); cls = "negated"; break;
  default: y = gen_angle(r, cb); cls = "independent"; break;
  }
  cls = "f64/two-arg/" + cls + "/" + ca;
  c.count(cls, vh::hmix(vh::hmix(2, x), y));
  if (c.want_sample(cls)) c.sample(cls, J().f("x", x).f("y", y));
  if (!std::isfinite(x) || !std::isfinite(y)) {
    double e, d = Math::AngDiff(x, y, e);
    if (!std::isnan(d)) c.viol("oracle:C16/f64/AngDiff-inf-gives-nan", cls, J().f("x", x).f("y", y).f("d", d));
    return;
  }
  // ---- AngDiff
  {
    double e, d = Math::AngDiff(x, y, e), d1 = Math::AngDiff(x, y);
    ref::MP t = ref::mp(y), mx = ref::mp(x), se = ref::mp(d), me = ref::mp(e), m360 = ref::mp(360), rem;
    mpfr_sub(t.v, t.v, mx.v, MPFR_RNDN);           // exact y - x
    mpfr_add(se.v, se.v, me.v, MPFR_RNDN);         // exact d + e
    ref::MP diff(se); mpfr_sub(diff.v, se.v, t.v, MPFR_RNDN);
    mpfr_remainder(rem.v, diff.v, m360.v, MPFR_RNDN);
    bool ok = rem.zero();                            // d + e == y - x (mod 360) exactly
    ref::MP a180 = ref::mp(180); ref::MP ab(se); mpfr_abs(ab.v, se.v, MPFR_RNDN);
    bool inrange = mpfr_cmp(ab.v, a180.v) <= 0 && std::fabs(d) <= 180;
    bool nearest = std::fabs(e) <= ref::ulp_d(d) / 2 || (d == 0 && e == 0);
    if (bits_of(d) != bits_of(d1)) c.viol("law:C16/f64/AngDiff-overloads-differ", cls, J().f("x", x).f("y", y));
    if (!ok) c.viol("oracle:C16/f64/AngDiff-not-exact", cls, J().f("x", x).f("y", y).f("d", d).f("e", e));
    if (!inrange) c.viol("oracle:C16/f64/AngDiff-range", cls, J().f("x", x).f("y", y).f("d", d).f("e", e));
    if (!nearest) c.viol("oracle:C16/f64/AngDiff-not-rounded", cls, J().f("x", x).f("y", y).f("d", d).f("e", e));
    // sign rule at d = 0 : the sign of the (exact) difference when it is an exact multiple of 360
    if (d == 0 && e == 0 && !t.zero() && std::signbit(d) != (t.sgn() < 0)) c.viol("oracle:C16/f64/AngDiff-zero-sign", cls, J().f("x", x).f("y", y).f("d", d));
  }
  // ---- Math::sum
  {
    double u = x, v = r.coin() ? y : -x * (1 + r.uniform(-1e-10, 1e-10)), tt, s = Math::sum(u, v, tt);
    if (std::isfinite(s)) {
      ref::MP a = ref::mp(u), b = ref::mp(v), ss = ref::mp(s), te = ref::mp(tt);
      mpfr_add(a.v, a.v, b.v, MPFR_RNDN); mpfr_add(ss.v, ss.v, te.v, MPFR_RNDN);
      volatile double fl = u + v;
      if (mpfr_cmp(a.v, ss.v) != 0 || bits_of(s) != bits_of((double)fl)) c.viol("oracle:C16/f64/sum-not-exact", cls, J().f("u", u).f("v", v).f("s", s).f("t", tt));
      c.event("f64 error-free sums verified exactly");
    }
  }
  // ---- atan2d
  {
    double yy, xx;
    switch (r.below(4)) {
    case 0: { static const double m[] = {0.0, 5e-324, 1.0, 1.7976931348623157e308, INF}; yy = r.sign() * r.pick(m); xx = r.sign() * r.pick(m); break; }
    case 1: yy = r.sign() * r.logu(1e-300, 1e300); xx = r.sign() * r.logu(1e-300, 1e300); break;
    case 2: { double a = r.uniform(-180, 180); yy = std::sin(a * M_PI / 180); xx = std::cos(a * M_PI / 180); break; }
    default: yy = x; xx = y; break;
    }
    double a = Math::atan2d(yy, xx);
    __float128 ta = atan2q((__float128)yy, (__float128)xx) * (180 / PIq);
    bool axis = (yy == 0 || xx == 0 || std::isinf(yy) || std::isinf(xx)) && !(std::isinf(yy) && std::isinf(xx));
    if (std::isnan(yy) || std::isnan(xx)) { if (!std::isnan(a)) c.viol("oracle:C16/f64/atan2d-nan", cls, J().f("y", yy).f("x", xx)); }
    else if (axis) {
      c.event("f64 atan2d axis cases checked for exactness");
      double want = (double)ta;   // exactly 0, +-90, +-180 in float128 too (pi/2*180/pi rounds to 90)
      want = std::round(want / 90) * 90; if (want == 0) want = std::copysign(0.0, yy);
      if (yy == 0 && std::signbit(xx)) want = std::copysign(180.0, yy);
      if (bits_of(a) != bits_of(want)) c.viol("oracle:C16/f64/atan2d-axis", cls, J().f("y", yy).f("x", xx).f("got", a).f("want", want));
    } else {
      double ea = ref::err_ulps(a, ta);
      // gradual underflow: atan2 itself is rounded to a subnormal before the conversion to degrees (x57)
      if (fabsq(ta) < 1e-290Q) ea = (double)(fabsq(a - ta) / ((__float128)5e-324 * 64 + 4 * ref::ulp_d((double)ta))) * TOL_ATAN2;
      c.obs("f64 atan2d err [ulp]", ea, J().f("y", yy).f("x", xx));
      if (ea > TOL_ATAN2) c.viol("oracle:C16/f64/atan2d", cls, J().f("y", yy).f("x", xx).f("got", a).f("err_ulp", ea));
      if (!(std::fabs(a) <= 180)) c.viol("oracle:C16/f64/atan2d-range", cls, J().f("y", yy).f("x", xx).f("got", a));
    }
  }
}

// float pairs: exact truth in double
static void sec_f32pairs(Ctx& c, uint64_t) {
  vh::Rng& r = c.rng;
  auto gf = [&]() -> float { switch (r.below(6)) {
    case 0: return (float)(30.0 * ((long)r.below(4096) - 2048));
    case 1: return f_from_bits((uint32_t)r.next());
    case 2: return (float)r.uniform(-720, 720);
    case 3: return (float)(r.sign() * std::ldexp(1 + r.u(), r.range(-149, 127)));
    case 4: { static const float b[] = {0.f, 90.f, 180.f, 360.f}; float v = r.pick(b); for (int k = r.range(0, 3); k > 0; --k) v = std::nextafterf(v, r.coin() ? 1e30f : -1e30f); return v * (float)r.sign(); }
    default: return (float)(r.sign() * r.logu(1e-40, 1e38)); } };
  float x = gf(), y = r.coin(0.3) ? std::nextafterf(x + (r.coin() ? 180.f : 0.f), r.coin() ? 1e30f : -1e30f) : gf();
  if (std::isnan(x) || std::isnan(y) || std::isinf(x) || std::isinf(y)) { c.count("f32/two-arg/nonfinite", vh::hmix(bits_of(x), (uint64_t)bits_of(y)), true); return; }
  c.count("f32/two-arg", vh::hmix(bits_of(x), (uint64_t)bits_of(y)));
  if (c.want_sample("f32/two-arg")) c.sample("f32/two-arg", J().f("x", x).f("y", y));
  float e, d = Math::AngDiff(x, y, e);
  // exact: y - x in float needs <= 24+277 bits -> use MPFR
  ref::MP t = ref::mp(y, 400), mx = ref::mp(x, 400), se = ref::mp(d, 400), me = ref::mp(e, 400), m360 = ref::mp(360, 400), rem(400);
  mpfr_sub(t.v, t.v, mx.v, MPFR_RNDN); mpfr_add(se.v, se.v, me.v, MPFR_RNDN);
  ref::MP diff(400); mpfr_sub(diff.v, se.v, t.v, MPFR_RNDN); mpfr_remainder(rem.v, diff.v, m360.v, MPFR_RNDN);
  if (!rem.zero() || !(std::fabs(d) <= 180) || !(std::fabs(e) <= ref::ulp_f(d) / 2 || (d == 0 && e == 0)))
    c.viol("oracle:C16/f32/AngDiff", "f32/two-arg", J().f("x", x).f("y", y).f("d", d).f("e", e));
  float tt, s = Math::sum(x, y, tt);
  if (std::isfinite(s) && ((double)s + (double)tt != (double)x + (double)y || s != (float)((double)x + (double)y)))
    c.viol("oracle:C16/f32/sum-not-exact", "f32/two-arg", J().f("u", x).f("v", y).f("s", s).f("t", tt));
  if (x != 0 || y != 0) {
    float a = Math::atan2d(y, x); double ta = std::atan2((double)y, (double)x) * (180 / M_PI);
    double ea = ref::err_ulps_f(a, ta);
    if (std::fabs(ta) < 1e-30) ea = std::fabs((double)a - ta) / (1.4e-45 * 64 + 4 * (double)ref::ulp_f((float)ta)) * TOL_ATAN2;
    c.obs("f32 atan2d err [ulp]", ea, J().f("y", y).f("x", x));
    if (ea > TOL_ATAN2) c.viol("oracle:C16/f32/atan2d", "f32/two-arg", J().f("y", y).f("x", x).f("got", a).f("err_ulp", ea));
  }
}

// ---------------------------------------------------------------------------- long double
static bool mc_zero_or_tiny(const ref::MP& m) { return m.zero(); }
static void sec_ld1(Ctx& c, uint64_t) {
  std::string cls; double xd = gen_angle(c.rng, cls);
  long double x = (long double)xd;
  if (c.rng.coin()) x += (long double)xd * (long double)c.rng.uniform(-1, 1) * 0x1p-54L;   // use the extra 11 bits
  cls = "f80/one-arg/" + cls;
  c.count(cls, vh::hmix(vh::hmix(3, xd), (double)(x - xd)));
  if (c.want_sample(cls)) c.sample(cls, J().f("x_hi", xd).f("x_lo", (double)(x - xd)));
  if (!std::isfinite(xd)) { if (!(std::isnan(Math::AngNormalize(x)) && std::isnan(Math::sind(x)) && std::isnan(Math::cosd(x)))) c.viol("oracle:C16/f80/inf-gives-nan", cls, J().f("x_hi", xd)); return; }
  ref::MP mx(300), m90(300), r(300), ms(300), mc(300), pi(300); long q;
  mx.setld(x); m90.set(90); mpfr_remquo(r.v, &q, mx.v, m90.v, MPFR_RNDN);
  mpfr_const_pi(pi.v, MPFR_RNDN); mpfr_mul(r.v, r.v, pi.v, MPFR_RNDN); mpfr_div_ui(r.v, r.v, 180, MPFR_RNDN);
  mpfr_sin_cos(ms.v, mc.v, r.v, MPFR_RNDN);
  ref::MP S(300), C(300);
  switch ((unsigned long)q & 3u) { case 0: S = ms; C = mc; break; case 1: S = mc; mpfr_neg(C.v, ms.v, MPFR_RNDN); break;
    case 2: mpfr_neg(S.v, ms.v, MPFR_RNDN); mpfr_neg(C.v, mc.v, MPFR_RNDN); break; default: mpfr_neg(S.v, mc.v, MPFR_RNDN); C = ms; }
  long double s = Math::sind(x), co = Math::cosd(x), s2, c2; Math::sincosd(x, s2, c2);
  auto err = [&](long double got, const ref::MP& tr) -> double {
    long double t = tr.ld(); long double u = std::fabs(std::nextafterl(std::fabs(t), INFINITY) - std::fabs(t));
    ref::MP g(300); g.setld(got); mpfr_sub(g.v, g.v, tr.v, MPFR_RNDN); mpfr_abs(g.v, g.v, MPFR_RNDN);
    return (double)(g.ld() / u); };
  // mpfr_remquo returns only the low bits of the quotient with the quotient's sign; & 3 on the two's complement is right for negatives too
  double em = std::max(std::max(err(s, S), err(co, C)), std::max(err(s2, S), err(c2, C)));
  c.obs("f80 sind/cosd/sincosd err [ulp]", em, J().f("x_hi", xd));
  {
    ref::MP m45(300), r45(300), m30(300), r30(300); m45.set(45); m30.set(30);
    mpfr_remainder(r45.v, mx.v, m45.v, MPFR_RNDN); mpfr_remainder(r30.v, mx.v, m30.v, MPFR_RNDN);
    if (r45.zero() || r30.zero()) {
      c.event("f80 multiples of 30/45 checked for correct rounding");
      long double ws = S.ld(), wc = C.ld();
      auto eq = [](long double a, long double b) { return a == b || (a == 0 && b == 0) || std::fabs(b) < 1e-4000L && a == 0; };
      if (!(eq(s, ws) && eq(co, wc) && eq(s2, ws) && eq(c2, wc)))
        c.viol("oracle:C16/f80/sincos-exact-30-45", cls, J().f("x_hi", xd).f("sind", (double)s).f("cosd", (double)co).f("sincosd_sin", (double)s2).f("sincosd_cos", (double)c2));
    }
  }
  if (em > TOL_SINCOS) c.viol("oracle:C16/f80/sincos-accuracy", cls, J().f("x_hi", xd).f("x_lo", (double)(x - xd)).f("err_ulp", em));
  // AngNormalize exact
  ref::MP m360(300), rr(300); m360.set(360); mpfr_remainder(rr.v, mx.v, m360.v, MPFR_RNDN);
  long double e = rr.ld(); if (std::fabs(e) == 180) e = std::copysign(180.0L, x); if (e == 0) e = std::copysign(0.0L, x);
  long double y = Math::AngNormalize(x);
  if (!(y == e && std::signbit(y) == std::signbit(e))) c.viol("oracle:C16/f80/AngNormalize", cls, J().f("x_hi", xd).f("got", (double)y).f("want", (double)e));
  if (!(Math::sind(-x) == -s && Math::cosd(-x) == co)) c.viol("law:C16/f80/parity", cls, J().f("x_hi", xd));
  // ---- the remaining long double instantiations (never called before the API reach monitor said so): tand, atand, AngRound, LatFix
  {
    long double t = Math::tand(x);
    if (!mc_zero_or_tiny(C) && !S.zero()) {
      ref::MP T(300); mpfr_div(T.v, S.v, C.v, MPFR_RNDN);
      long double ovf = 1 / (std::numeric_limits<long double>::epsilon() * std::numeric_limits<long double>::epsilon());
      if (std::fabs(T.ld()) < ovf) { double et = err(t, T); c.obs("f80 tand err [ulp]", et, J().f("x_hi", xd)); if (et > TOL_TAN) c.viol("oracle:C16/f80/tand-accuracy", cls, J().f("x_hi", xd).f("x_lo", (double)(x - xd)).f("err_ulp", et)); }
      else if (!(std::fabs(t) == ovf)) c.viol("oracle:C16/f80/tand-clamp", cls, J().f("x_hi", xd).f("tand", (double)t));
    }
    if (!(Math::tand(-x) == -t)) c.viol("law:C16/f80/parity", cls, J().f("x_hi", xd).str("fn", "tand"));
    long double lf = Math::LatFix(x);
    if (std::fabs(x) > 90 ? !std::isnan(lf) : !(lf == x && std::signbit(lf) == std::signbit(x))) c.viol("oracle:C16/f80/LatFix", cls, J().f("x_hi", xd).f("got", (double)lf));
    long double xs = x * (long double)c.rng.logu(1e-12, 1), ar = Math::AngRound(xs), z = 1 / 16.0L;
    bool okr = std::signbit(ar) == std::signbit(xs) && (std::fabs(xs) >= z ? ar == xs : std::fabs(ar - xs) <= z * std::numeric_limits<long double>::epsilon());
    if (!okr) c.viol("oracle:C16/f80/AngRound", cls, J().f("x", (double)xs).f("got", (double)ar));
    // atand of a value of any magnitude: atan in MPFR
    long double v = (long double)(c.rng.sign() * c.rng.logu(1e-300, 1e300)) * (1 + (long double)c.rng.uniform(-1, 1) * 0x1p-54L), a = Math::atand(v);
    ref::MP mv(300), ma(300); mv.setld(v); mpfr_atan(ma.v, mv.v, MPFR_RNDN); mpfr_mul_ui(ma.v, ma.v, 180, MPFR_RNDN); mpfr_div(ma.v, ma.v, pi.v, MPFR_RNDN);
    double ea = err(a, ma); c.obs("f80 atand err [ulp]", ea, J().f("v", (double)v));
    if (ea > TOL_ATAN2) c.viol("oracle:C16/f80/atand", cls, J().f("v", (double)v).f("got", (double)a).f("err_ulp", ea));
  }
}

// two-argument functions in long double: AngDiff and sum (exactness in MPFR), atan2d, taupf / tauf round trip
static void sec_ld2(Ctx& c, uint64_t) {
  vh::Rng& r = c.rng; std::string c1, c2;
  auto ext = [&](double d) { return (long double)d + (r.coin() ? (long double)d * (long double)r.uniform(-1, 1) * 0x1p-54L : 0.0L); };
  long double x = ext(gen_angle(r, c1)), y = r.coin(0.3) ? x + (long double)r.sign() * (long double)r.logu(1e-18, 1e3) : ext(gen_angle(r, c2));
  std::string cls = "f80/two-arg"; c.count(cls, vh::hmix(vh::hmix(9, (double)x), (double)y));
  if (!(std::isfinite((double)x) && std::isfinite((double)y))) return;
  // sum: u + t == x + y exactly, u = fl(x + y)
  { long double t, u = Math::sum(x, y, t);
    ref::MP a(2400), b(2400), e(2400), g(2400); a.setld(x); b.setld(y); mpfr_add(e.v, a.v, b.v, MPFR_RNDN); a.setld(u); b.setld(t); mpfr_add(g.v, a.v, b.v, MPFR_RNDN);
    if (!(mpfr_cmp(e.v, g.v) == 0 && u == x + y)) c.viol("oracle:C16/f80/sum-not-exact", cls, J().f("x", (double)x).f("y", (double)y).f("u", (double)u).f("t", (double)t)); }
  // AngDiff: d + e == (y - x) reduced mod 360 exactly (to the 2-word precision the function works with), d in [-180, 180]
  { long double e, d = Math::AngDiff(x, y, e);
    ref::MP a(2400), b(2400), w(2400), m360(2400), g(2400); a.setld(x); b.setld(y); mpfr_sub(w.v, b.v, a.v, MPFR_RNDN);      // 2400 bits: exact for any two doubles-range values
    m360.set(360); mpfr_remainder(w.v, w.v, m360.v, MPFR_RNDN);
    a.setld(d); b.setld(e); mpfr_add(g.v, a.v, b.v, MPFR_RNDN); mpfr_sub(g.v, g.v, w.v, MPFR_RNDN); mpfr_remainder(g.v, g.v, m360.v, MPFR_RNDN); mpfr_abs(g.v, g.v, MPFR_RNDN);
    // the reductions of x and y are exact; the two-word result is exact unless the sum needs more than 2 x 64 bits: allow 2^-120 relative to 360
    double dev = g.d();
    c.obs("f80 AngDiff |d + e - true| [units of 360 * 2^-120]", dev / (360 * 0x1p-120));
    if (!(dev <= 360 * 0x1p-120 && std::fabs(d) <= 180)) c.viol("oracle:C16/f80/AngDiff", cls, J().f("x", (double)x).f("y", (double)y).f("d", (double)d).f("e", (double)e).f("dev", dev)); }
  // atan2d in every quadrant, exact on the axes
  { long double yy = (long double)(r.sign() * r.logu(1e-300, 1e300)), xx = (long double)(r.sign() * r.logu(1e-300, 1e300)); if (r.coin(0.1)) yy = r.coin() ? 0.0L : -0.0L; if (r.coin(0.1)) xx = r.coin() ? 0.0L : -0.0L;
    long double a = Math::atan2d(yy, xx);
    ref::MP my(300), mx(300), ma(300), pi(300); my.setld(yy); mx.setld(xx); mpfr_const_pi(pi.v, MPFR_RNDN); mpfr_atan2(ma.v, my.v, mx.v, MPFR_RNDN); mpfr_mul_ui(ma.v, ma.v, 180, MPFR_RNDN); mpfr_div(ma.v, ma.v, pi.v, MPFR_RNDN);
    long double t = ma.ld();
    if (yy == 0 || xx == 0) { if (!(a == t || (std::fabs(a) == 180 && std::fabs(t) == 180))) c.viol("oracle:C16/f80/atan2d-axes", cls, J().f("y", (double)yy).f("x", (double)xx).f("got", (double)a)); }
    else if (std::fabs(t) > 1e-4000L) { long double u = std::fabs(std::nextafterl(std::fabs(t), INFINITY) - std::fabs(t)); ref::MP g(300); g.setld(a); mpfr_sub(g.v, g.v, ma.v, MPFR_RNDN); mpfr_abs(g.v, g.v, MPFR_RNDN);
      double ea = (double)(g.ld() / u); c.obs("f80 atan2d err [ulp]", ea); if (ea > TOL_ATAN2) c.viol("oracle:C16/f80/atan2d", cls, J().f("y", (double)yy).f("x", (double)xx).f("got", (double)a).f("err_ulp", ea)); } }
  // tauf(taupf(tau)) == tau in long double and in float (documented eccentricity range of the iteration: see the f64 section)
  { static const double esl[] = {0, 0.0818191908426215, 0.3, 0.6, 0.9, -0.0820944379496957, -0.3, -0.9};
    double es = r.pick(esl); long double tau = (long double)(r.sign() * r.logu(1e-12, 1e12)), back = Math::tauf(Math::taupf(tau, (long double)es), (long double)es);
    double e2 = (double)(std::fabs(back - tau) / std::fabs(tau) / std::numeric_limits<long double>::epsilon()), K = es > 0 ? 16 + 8 / (1 - es * es) : 16 * (1 + es * es);
    c.obs("f80 tauf(taupf) round trip rel err [eps]", e2); if (e2 > 2 * K) c.viol("oracle:C16/f80/tauf-roundtrip", cls, J().f("tau", (double)tau).f("es", es).f("err_eps", e2));
    float tf = (float)(r.sign() * r.logu(1e-6, 1e6)), bf = Math::tauf(Math::taupf(tf, (float)es), (float)es);
    double e3 = std::fabs((double)bf - (double)tf) / std::fabs((double)tf) / std::numeric_limits<float>::epsilon();
    c.obs("f32 tauf(taupf) round trip rel err [eps]", e3); if (e3 > 2 * K) c.viol("oracle:C16/f32/tauf-roundtrip", cls, J().f("tau", tf).f("es", es).f("err_eps", e3)); }
  // sincosde(x, t) in long double and float: sine and cosine of x + t for a tiny correction t (as the f64 section: 2 eps beyond the AngRound slack)
  { long double tc = (long double)(r.sign() * r.logu(1e-25, 1e-12)), s5, c5; Math::sincosde(x, tc, s5, c5);
    ref::MP a(2400), b(2400), ms(400), mc(400), pi(2400), m360(2400); a.setld(x); b.setld(tc); mpfr_add(a.v, a.v, b.v, MPFR_RNDN); m360.set(360); mpfr_remainder(a.v, a.v, m360.v, MPFR_RNDN);   // exact sum, exact reduction
    mpfr_const_pi(pi.v, MPFR_RNDN); mpfr_mul(a.v, a.v, pi.v, MPFR_RNDN); mpfr_div_ui(a.v, a.v, 180, MPFR_RNDN);
    mpfr_sin_cos(ms.v, mc.v, a.v, MPFR_RNDN);
    long double eps = std::numeric_limits<long double>::epsilon(), slack = (eps / 16) * (3.14159265358979323846264338327950288L / 180);
    double e5 = (double)((std::max(std::fabs(s5 - ms.ld()), std::fabs(c5 - mc.ld())) - slack) / eps);
    c.obs("f80 sincosde abs err beyond AngRound slack [eps]", e5); if (e5 > 2.0) c.viol("oracle:C16/f80/sincosde", cls, J().f("x", (double)x).f("t", (double)tc).f("err_eps", e5));
    float xf = (float)x, tf = (float)(r.sign() * r.logu(1e-12, 1e-6)), s6, c6; Math::sincosde(xf, tf, s6, c6);
    if (std::isfinite(xf)) { double ang = ((double)xf + (double)tf), rr = std::remainder(ang, 360.0) * (M_PI / 180), fe = std::numeric_limits<float>::epsilon(), sl = (fe / 16) * (M_PI / 180);
      double e6 = (std::max(std::fabs((double)s6 - std::sin(rr)), std::fabs((double)c6 - std::cos(rr))) - sl) / fe;
      c.obs("f32 sincosde abs err beyond AngRound slack [eps]", e6); if (e6 > 2.0) c.viol("oracle:C16/f32/sincosde", cls, J().f("x", xf).f("t", tf).f("err_eps", e6)); } }
}

// ---------------------------------------------------------------------------- taupf / tauf
static void sec_tauf(Ctx& c, uint64_t) {
  vh::Rng& r = c.rng;
  static const double esl[] = {0, 1e-8, 0.0818191908426215 /*WGS84*/, 0.3, 0.6, 0.9, 0.99, -1e-8, -0.0820944379496957, -0.3, -0.6, -0.9, -0.99, -3.0, -10.0};
  double es = r.coin(0.7) ? r.pick(esl) : (r.coin() ? r.uniform(-0.99, 0.99) : -r.logu(1e-3, 50));
  double tau = r.sign() * (r.coin(0.2) ? r.logu(1e-300, 1e300) : r.logu(1e-12, 1e12));
  std::string cls = std::string("f64/tauf/") + (es > 0 ? "oblate" : es < 0 ? "prolate" : "sphere") + (std::fabs(tau) > 1e8 ? "/near-pole" : std::fabs(tau) < 1e-8 ? "/near-equator" : "/mid");
  c.count(cls, vh::hmix(vh::hmix(4, es), tau));
  if (c.want_sample(cls)) c.sample(cls, J().f("tau", tau).f("es", es));
  uint64_t p0 = vh::hook::panics();
  double tp = Math::taupf(tau, es), back = Math::tauf(tp, es);
  // repo hook: the Newton iteration of tauf ran out of iterations (silent in a normal build)
  if (vh::hook::panics() != p0) {
    if (es < -2.83 || es > 0.995) c.event("tauf convergence failures (hook) at extreme eccentricity");
    else c.viol("hook:C16/panic/tauf", "f64/tauf/convergence-failure", J().f("tau", tau).f("es", es).f("taup", tp));
  }
  // definition in float128: taup = tau*sqrt(1+sig^2) - sig*sqrt(1+tau^2), sig = sinh(e*atanh(e*sin(phi))) (atan form for prolate)
  __float128 T = tau, E = es, t1 = hypotq(1, T), sph = T / t1;
  __float128 sig = sinhq(E > 0 ? E * atanhq(E * sph) : -E * atanq(E * sph));
  __float128 TP = hypotq(1, sig) * T - sig * t1;
  double e1 = (double)(fabsq(tp - TP) / fabsq(TP)) / std::numeric_limits<double>::epsilon();
  double e2 = std::fabs(back - tau) / std::fabs(tau) / std::numeric_limits<double>::epsilon();
  // conditioning: for es -> 1 and large tau, taup = tau*exp(-es*atanh(es)) amplifies nothing; for prolate |es| large
  // d(ln taup)/d(ln tau) is O(1).  Allow K eps.
  c.obs("taupf rel err [eps]", e1, J().f("tau", tau).f("es", es));
  c.obs("tauf(taupf) round trip rel err [eps]", e2, J().f("tau", tau).f("es", es));
  double K = es > 0 ? 16 + 8 / (1 - es * es) : 16 * (1 + es * es);   // cancellation in taupf grows as 1/(1-e^2)
  if (std::fabs(tau) < 1e290 && std::fabs(tau) > 1e-290 && fabsq(TP) < 1e290Q && fabsq(hypotq(1, sig) * T) < 1e300Q) {
    if (e1 > K) c.viol("oracle:C16/f64/taupf", cls, J().f("tau", tau).f("es", es).f("got", tp).f("err_eps", e1));
    // b/a outside [0.1, 3]: the fixed 5 Newton steps of tauf are not enough (separate, known, key)
    bool extreme = es < -2.83 || es > 0.995;
    if (e2 > K) c.viol(extreme ? "oracle:C16/f64/tauf-roundtrip/extreme-eccentricity" : "oracle:C16/f64/tauf-roundtrip", cls, J().f("tau", tau).f("es", es).f("back", back).f("err_eps", e2));
  }
  if (!(Math::taupf(-tau, es) == -tp && Math::tauf(-tp, es) == -back)) c.viol("law:C16/f64/tauf-odd", cls, J().f("tau", tau).f("es", es));
}

// ---------------------------------------------------------------------------- Accumulator histories
template <class T> static void accum_history(Ctx& c, const char* tn) {
  vh::Rng& r = c.rng;
  const int P = std::numeric_limits<T>::digits;          // 53 or 24
  const int prec = 4000;
  const double unit = std::ldexp(1.0, -(2 * P - 2));     // 2^-104 (double) / 2^-46 (float): 4x the two-word round-off 2^-2P
  GeographicLib::Accumulator<T> acc;
  ref::MP E(prec), tmp(prec);
  // B = propagated bound on |accumulator - exact|: every addition may lose one rounding of the low word
  // (<= 2^-2P * largest magnitude involved), a multiplication scales the error, remainder keeps it.
  double B = 0;
  int nops = r.range(1, c.quick() ? 400 : 4000), nmul = 0;
  int style = (int)r.below(4);   // 0 cancelling, 1 all-positive, 2 wide range, 3 geodesic-area-like
  std::string cls = std::string(tn) + "/accumulator/" + (style == 0 ? "cancelling" : style == 1 ? "positive" : style == 2 ? "wide-range" : "area-like");
  std::string ops; uint64_t h = 5;
  T last_big = 0;
  auto setT = [&](ref::MP& m, T v) { if (sizeof(T) == 4) mpfr_set_flt(m.v, (float)v, MPFR_RNDN); else mpfr_set_d(m.v, (double)v, MPFR_RNDN); };
  const double lim = sizeof(T) == 4 ? 1e15 : 1e120;
  int done = 0; bool flagged_lead = false;
  for (int i = 0; i < nops; ++i, ++done) {
    int op = (int)r.below(20);
    T y;
    // assignment of a number ("set sum = y": the accumulator then holds exactly y, whatever it held before) and re-construction from a
    // number, on a USED object; comparisons with a number (consistent with the reported sum).  Added after seeded change C16-r4s1.
    if (r.below(40) == 0 && i > 0) {
      T v = r.coin(0.3) ? (T)0 : (T)(r.sign() * r.logu(1e-6, 1e6));
      if (r.coin(0.7)) { acc = v; if (ops.size() < 200) ops += '='; } else { acc = GeographicLib::Accumulator<T>(v); if (ops.size() < 200) ops += 'C'; }
      setT(E, v); B = 0; h = vh::hmix(h, (double)v) ^ 0x3d;
      if (!(acc() == v)) c.viol(std::string("oracle:C16/") + tn + "/accumulator-assignment", cls, J().i("op_index", i).str("ops_prefix", ops).f("assigned", (double)v).f("reported", (double)acc()));
      T sv = acc(), w2 = r.coin() ? sv : (T)(sv + (T)r.uniform(-1, 1));
      if (!((acc == w2) == (sv == w2) && (acc != w2) == (sv != w2) && (acc < w2) == (sv < w2) && (acc <= w2) == (sv <= w2) && (acc > w2) == (sv > w2) && (acc >= w2) == (sv >= w2)))
        c.viol(std::string("law:C16/") + tn + "/accumulator-comparison-inconsistent-with-reported-sum", cls, J().i("op_index", i).f("sum", (double)sv).f("y", (double)w2));
      c.event("accumulator: assignment / re-construction inside a history");
      continue;
    }
    if (style == 0) y = (i & 1) && r.coin(0.7) ? (r.coin(0.3) ? (T)acc() : -last_big * (T)(1 + r.uniform(-1e-3, 1e-3))) : (T)(r.sign() * r.logu(1e-10, 1e10));
    // (in the cancelling style, "y = acc()" followed by -= cancels the leading word exactly and leaves only the low word)
    if (style == 0 && y == (T)acc() && y != 0) op = 12;
    else if (style == 1) y = (T)r.logu(1e-8, 1e8);
    else if (style == 2) y = (T)(r.sign() * r.logu(sizeof(T) == 4 ? 1e-20 : 1e-100, sizeof(T) == 4 ? 1e12 : 1e100));
    else y = (T)(r.uniform(-1, 1) * 1e13);
    last_big = y; h = vh::hmix(h, (double)y);
    double sold = std::fabs((double)acc());
    char oc;
    if (op < 12 || op >= 20 || (op == 18 && nmul >= 25)) { acc += y; setT(tmp, y); mpfr_add(E.v, E.v, tmp.v, MPFR_RNDN); oc = '+'; B += unit * std::max(std::max(sold, std::fabs((double)y)), std::fabs((double)acc())); }
    else if (op < 16) { acc -= y; setT(tmp, y); mpfr_sub(E.v, E.v, tmp.v, MPFR_RNDN); oc = '-'; B += unit * std::max(std::max(sold, std::fabs((double)y)), std::fabs((double)acc())); }
    else if (op == 16) { acc *= -1; mpfr_neg(E.v, E.v, MPFR_RNDN); oc = 'n'; }
    else if (op == 17) { int k = r.range(-3, 3); int n = 1 << std::abs(k); if (k < 0) n = -n; acc *= n; mpfr_mul_si(E.v, E.v, n, MPFR_RNDN); B *= std::abs(n); oc = 'i'; }
    else if (op == 18) { T m = (T)(r.sign() * r.uniform(0.25, 4)); ++nmul; acc *= m; setT(tmp, m); mpfr_mul(E.v, E.v, tmp.v, MPFR_RNDN); B = B * std::fabs((double)m) + unit * std::fabs((double)acc()); oc = '*'; }
    else {
      T m = style == 3 ? (T)5.10065621724088e14 : (T)360;    // ellipsoid area / full circle
      T sb = acc(); T rem = std::remainder(sb, m);
      // model: the value changes by the exact multiple of m that the leading word was reduced by
      ref::MP k(prec), a(prec), b(prec); setT(a, sb); setT(b, rem); mpfr_sub(k.v, a.v, b.v, MPFR_RNDN);
      acc.remainder(m); mpfr_sub(E.v, E.v, k.v, MPFR_RNDN); oc = 'r'; B += unit * std::fabs((double)acc());
    }
    if (ops.size() < 200) ops += oc;
    // the "peek" form acc(y) (sum + y without changing the accumulator) is what a copy reports after += y, bit for bit -- also when y
    // cancels the leading word (added after seeded change C16-r5s1)
    if (r.below(6) == 0) {
      T yy = r.coin(0.5) ? (T)(-acc()) : r.coin() ? y : (T)(r.sign() * r.logu(1e-8, 1e8));
      GeographicLib::Accumulator<T> cp(acc); cp += yy; T before = acc(), pk = acc(yy);
      if (!(vh::same_bits((double)pk, (double)cp()) || (pk == 0 && cp() == 0)) || !(acc() == before))
        c.viol(std::string("law:C16/") + tn + "/accumulator-peek-differs-from-copy-plus-add", cls, J().i("op_index", i).str("ops_prefix", ops).f("y", (double)yy).f("peek", (double)pk).f("copy_plus_add", (double)cp()));
      c.event("accumulator: peek acc(y) judged against copy += y");
    }
    // the reported sum (leading word) never loses the whole sum: |acc() - exact| <= |acc()| (the low word is at most
    // comparable to the leading one); in particular acc() == 0 only if the accumulator holds 0
    {
      setT(tmp, acc()); mpfr_sub(tmp.v, tmp.v, E.v, MPFR_RNDN); mpfr_abs(tmp.v, tmp.v, MPFR_RNDN);
      double dev = tmp.d(), lead = std::fabs((double)acc());
      if (!(dev <= lead + 2 * B + (double)std::numeric_limits<T>::denorm_min()) && !flagged_lead) {
        flagged_lead = true;
        c.viol(std::string("oracle:C16/") + tn + "/accumulator-reported-sum-lost", cls, J().i("op_index", i).str("ops_prefix", ops).f("reported", (double)acc()).f("exact", E.d()));
      }
    }
    if (c.only) std::fprintf(stderr, "op %d %c y=%.17g s=%.17g E=%s B=%.3g\n", i, oc, (double)y, (double)acc(), E.str(25).c_str(), B);
    if (!(std::fabs((double)acc()) < lim)) break;      // stay far from overflow
  }
  // read the full two-word content through the public interface by peeling leading words off a copy
  GeographicLib::Accumulator<T> pe(acc);
  T s = pe(); ref::MP got(prec);
  for (int k = 0; k < 4; ++k) { T v = pe(); setT(tmp, v); mpfr_add(got.v, got.v, tmp.v, MPFR_RNDN); pe -= v; }
  mpfr_sub(got.v, got.v, E.v, MPFR_RNDN); mpfr_abs(got.v, got.v, MPFR_RNDN);
  double abserr = got.d();
  double tol = B + unit * std::fabs((double)s) + std::numeric_limits<T>::denorm_min();
  c.count(cls, h);
  if (c.want_sample(cls)) c.sample(cls, J().i("nops", done).str("ops_prefix", ops).f("sum", (double)s));
  c.obs(std::string(tn) + " accumulator |err| / propagated two-word bound", abserr / tol, J().i("nops", done).str("ops_prefix", ops.substr(0, 60)));
  if (!(abserr <= tol)) c.viol(std::string("oracle:C16/") + tn + "/accumulator", cls, J().i("nops", done).str("ops_prefix", ops).f("abserr", abserr).f("tol", tol).f("sum", (double)s));
  // Sum(y) const does not modify
  T before = acc(); (void)acc((T)1.5); if (!(acc() == before)) c.viol(std::string("law:C16/") + tn + "/accumulator-const-sum-mutates", cls, J().i("nops", done));
}
static void sec_accum(Ctx& c, uint64_t idx) { if (idx & 1) accum_history<float>(c, "f32"); else accum_history<double>(c, "f64"); }

int main(int argc, char** argv) {
  std::vector<Section> S;
  S.push_back({"f32sweep", 4096, 4096, false, sec_f32sweep, 120});
  S.push_back({"dbl1", 400000, 20000000, true, sec_dbl1});
  S.push_back({"dbl2", 300000, 15000000, true, sec_dbl2});
  S.push_back({"f32pairs", 300000, 15000000, true, sec_f32pairs});
  S.push_back({"ld1", 100000, 4000000, true, sec_ld1});
  S.push_back({"ld2", 60000, 2400000, true, sec_ld2});
  S.push_back({"tauf", 200000, 10000000, true, sec_tauf});
  S.push_back({"accum", 20000, 400000, true, sec_accum});
  return vh::run_sections(argc, argv, S);
}
