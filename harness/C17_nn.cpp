// C17 (C) — NearestNeighbor: vantage-point tree search, Save/Load.
// Monitors: brute-force linear-scan oracle next to every Search (exact comparison of the distance
// multisets for exact metrics; documented weaker contracts for exhaustive=false / tol>0),
// serialisation history monitor (Save/Load, operator<< / >>, text and binary, re-query must give
// identical answers; Save o Load o Save is the identity on bytes), corrupted-stream monitor (a Load
// that succeeds must leave a structurally legal tree as seen through a re-Save parsed by the
// harness; a Load that throws must leave the object unchanged), argument-contract monitor
// (bucket out of range / wrong pts size must throw GeographicErr and leave the state unchanged).
#include <GeographicLib/NearestNeighbor.hpp>
#include <GeographicLib/Geodesic.hpp>
#include <array>
#include <set>
#include <sstream>
#include "harness/common.hpp"

using vh::Ctx; using vh::J; using vh::Section;
using GeographicLib::NearestNeighbor; using GeographicLib::GeographicErr;

// ------------------------------------------------------------------------------------ metrics
// Every metric: dist_t D, pos_t P, operator()(P,P), gen(rng, n, style) -> points, query(rng, pts)
enum Style { UNIFORM_SMALL, UNIFORM_LARGE, CLUSTERS, LATTICE, IDENTICAL, TWO_VALUES, NSTYLE };
static const char* style_name[] = {"small-box-many-ties", "large-box", "clusters", "full-lattice", "all-identical", "two-values"};

template <class T, int DIM> static std::vector<std::array<T, DIM>> gen_lattice(vh::Rng& r, int n, int style) {
  std::vector<std::array<T, DIM>> p(n);
  long long box = style == UNIFORM_SMALL ? 1 + (long long)r.below(6) : style == UNIFORM_LARGE ? 1000000 : 100;
  std::vector<std::array<T, DIM>> centres;
  if (style == CLUSTERS) { int nc = 1 + (int)r.below(5); centres.resize(nc);
    for (auto& c : centres) for (int d = 0; d < DIM; ++d) c[d] = (T)((long long)r.below(2000001) - 1000000); }
  std::array<T, DIM> v0, v1;
  for (int d = 0; d < DIM; ++d) { v0[d] = (T)((long long)r.below(201) - 100); v1[d] = (T)((long long)r.below(201) - 100); }
  int side = 1; while (std::pow(side, DIM) < n) ++side;
  for (int i = 0; i < n; ++i) {
    switch (style) {
    case CLUSTERS: { const auto& c = centres[r.below(centres.size())];
      for (int d = 0; d < DIM; ++d) p[i][d] = c[d] + (T)((long long)r.below(21) - 10); break; }
    case LATTICE: { int k = i; for (int d = 0; d < DIM; ++d) { p[i][d] = (T)(k % side); k /= side; } break; }
    case IDENTICAL: p[i] = v0; break;
    case TWO_VALUES: p[i] = r.coin() ? v0 : v1; break;
    default: for (int d = 0; d < DIM; ++d) p[i][d] = (T)((long long)r.below(2 * box + 1) - box);
    }
  }
  // duplicates: copy some points over others
  if (n > 1 && r.coin(0.5)) for (int j = 0, m = 1 + (int)r.below(n / 4 + 1); j < m; ++j) p[r.below(n)] = p[r.below(n)];
  return p;
}
template <class P> static P gen_query_lattice(vh::Rng& r, const std::vector<P>& pts) {
  P q{};
  int m = (int)r.below(4);
  if (!pts.empty() && m == 0) return pts[r.below(pts.size())];                       // in the set
  if (!pts.empty() && m == 1) { q = pts[r.below(pts.size())]; q[r.below(q.size())] += (typename P::value_type)((long long)r.below(5) - 2); return q; }   // next to a member
  long long box = m == 2 ? 150 : 3000000;
  for (auto& x : q) x = (typename P::value_type)((long long)r.below(2 * box + 1) - box);
  return q;
}

template <class D, class T, int DIM> struct L1 {
  typedef D dist_t; typedef std::array<T, DIM> pos_t; static constexpr bool exact = true; static const char* name() { return "L1"; }
  mutable long long calls = 0;
  D operator()(const pos_t& a, const pos_t& b) const { ++calls; D s = 0; for (int d = 0; d < DIM; ++d) s += (D)(a[d] > b[d] ? a[d] - b[d] : b[d] - a[d]); return s; }
  std::vector<pos_t> gen(vh::Rng& r, int n, int style) { return gen_lattice<T, DIM>(r, n, style); }
  pos_t query(vh::Rng& r, const std::vector<pos_t>& p) const { return gen_query_lattice(r, p); }
};
template <class D, class T, int DIM> struct Linf {
  typedef D dist_t; typedef std::array<T, DIM> pos_t; static constexpr bool exact = true; static const char* name() { return "Linf"; }
  mutable long long calls = 0;
  D operator()(const pos_t& a, const pos_t& b) const { ++calls; D s = 0; for (int d = 0; d < DIM; ++d) { D t = (D)(a[d] > b[d] ? a[d] - b[d] : b[d] - a[d]); if (t > s) s = t; } return s; }
  std::vector<pos_t> gen(vh::Rng& r, int n, int style) { return gen_lattice<T, DIM>(r, n, style); }
  pos_t query(vh::Rng& r, const std::vector<pos_t>& p) const { return gen_query_lattice(r, p); }
};
struct L1Huge {        // dist_t = int with distances up to ~2e9 (< INT_MAX): any dist + dist overflows
  typedef int dist_t; typedef std::array<int, 2> pos_t; static constexpr bool exact = true; static const char* name() { return "L1-huge"; }
  mutable long long calls = 0;
  int operator()(const pos_t& a, const pos_t& b) const { ++calls; long long s = std::llabs((long long)a[0] - b[0]) + std::llabs((long long)a[1] - b[1]); return (int)s; }
  std::vector<pos_t> gen(vh::Rng& r, int n, int) { std::vector<pos_t> p(n); for (auto& q : p) q = {(int)r.below(1000000001) - 500000000, (int)r.below(1000000001) - 500000000}; return p; }
  pos_t query(vh::Rng& r, const std::vector<pos_t>& p) const { if (!p.empty() && r.coin(0.3)) return p[r.below(p.size())]; return {(int)r.below(1000000001) - 500000000, (int)r.below(1000000001) - 500000000}; }
};
struct Hamming {       // dist_t = short: maxbucket = 4 = the default bucket
  typedef short dist_t; typedef uint64_t pos_t; static constexpr bool exact = true; static const char* name() { return "hamming"; }
  mutable long long calls = 0;
  short operator()(const pos_t& a, const pos_t& b) const { ++calls; return (short)__builtin_popcountll(a ^ b); }
  std::vector<pos_t> gen(vh::Rng& r, int n, int style) {
    std::vector<pos_t> p(n); uint64_t base = r.next(), other = r.next();
    uint64_t mask = style == UNIFORM_SMALL ? 0x3f : style == CLUSTERS ? 0xffff : ~0ULL;
    for (int i = 0; i < n; ++i) p[i] = style == IDENTICAL ? base : style == TWO_VALUES ? (r.coin() ? base : other) : style == LATTICE ? (uint64_t)i : base ^ (r.next() & mask);
    return p;
  }
  pos_t query(vh::Rng& r, const std::vector<pos_t>& p) const { if (!p.empty() && r.coin()) return p[r.below(p.size())] ^ (r.coin() ? 0 : (1ULL << r.below(64))); return r.next(); }
};
struct Discrete {      // dist_t = float: 0 if equal else 1 (the hardest case for any pruning rule)
  typedef float dist_t; typedef int pos_t; static constexpr bool exact = true; static const char* name() { return "discrete"; }
  mutable long long calls = 0;
  float operator()(const pos_t& a, const pos_t& b) const { ++calls; return a == b ? 0.f : 1.f; }
  std::vector<pos_t> gen(vh::Rng& r, int n, int style) {
    std::vector<pos_t> p(n); int range = style == UNIFORM_SMALL ? 3 : style == IDENTICAL ? 1 : style == TWO_VALUES ? 2 : style == LATTICE ? n + 1 : 1 + (int)r.below(2 * n + 2);
    for (int i = 0; i < n; ++i) p[i] = style == LATTICE ? i : (int)r.below(range);
    return p;
  }
  pos_t query(vh::Rng& r, const std::vector<pos_t>& p) const { return (int)r.below(2 * p.size() + 3) - 1; }
};
struct TreeMetric {    // shortest-path metric of a random weighted tree; points = (possibly repeated) nodes
  typedef long long dist_t; typedef int pos_t; static constexpr bool exact = true; static const char* name() { return "tree-path"; }
  mutable long long calls = 0;
  std::vector<int> parent, depthn; std::vector<long long> depthw;
  long long operator()(const pos_t& a, const pos_t& b) const {
    ++calls; int u = a, v = b;
    while (depthn[u] > depthn[v]) u = parent[u];
    while (depthn[v] > depthn[u]) v = parent[v];
    while (u != v) { u = parent[u]; v = parent[v]; }
    return depthw[a] + depthw[b] - 2 * depthw[u];
  }
  std::vector<pos_t> gen(vh::Rng& r, int n, int style) {
    int N = std::max(2, style == UNIFORM_SMALL ? 5 : style == TWO_VALUES ? 2 : n + 3);
    parent.assign(N, 0); depthn.assign(N, 0); depthw.assign(N, 0);
    int shape = (int)r.below(3);         // random recursive tree / path / star-ish
    long long wmax = style == UNIFORM_LARGE ? 1000000 : 3; bool zero_ok = style == CLUSTERS;
    for (int i = 1; i < N; ++i) {
      int p = shape == 0 ? (int)r.below(i) : shape == 1 ? i - 1 : (int)r.below(std::min(i, 3));
      if (shape == 1 && i > 40) p = (int)r.below(i);      // keep the depth (cost of the metric) bounded
      long long w = (zero_ok ? 0 : 1) + (long long)r.below(wmax);
      parent[i] = p; depthn[i] = depthn[p] + 1; depthw[i] = depthw[p] + w;
    }
    std::vector<pos_t> p(n);
    for (int i = 0; i < n; ++i) p[i] = style == IDENTICAL ? 1 : style == LATTICE ? i % N : (int)r.below(N);
    return p;
  }
  pos_t query(vh::Rng& r, const std::vector<pos_t>&) const { return (int)r.below(parent.size()); }
};
struct Euclid {
  typedef double dist_t; typedef std::array<double, 2> pos_t; static constexpr bool exact = false; static const char* name() { return "euclid-double"; }
  mutable long long calls = 0; double scale = 1;
  double operator()(const pos_t& a, const pos_t& b) const { ++calls; return std::hypot(a[0] - b[0], a[1] - b[1]); }
  std::vector<pos_t> gen(vh::Rng& r, int n, int style) {
    std::vector<pos_t> p(n); scale = style == UNIFORM_LARGE ? 1e6 : 1;
    pos_t v0 = {r.uniform(-1, 1), r.uniform(-1, 1)}, v1 = {r.uniform(-1, 1), r.uniform(-1, 1)};
    std::vector<pos_t> cs(1 + r.below(5)); for (auto& c : cs) c = {r.uniform(-1, 1), r.uniform(-1, 1)};
    int side = 1; while (side * side < n) ++side;
    for (int i = 0; i < n; ++i) {
      switch (style) {
      case CLUSTERS: { auto c = cs[r.below(cs.size())]; p[i] = {c[0] + 1e-6 * r.uniform(-1, 1), c[1] + 1e-6 * r.uniform(-1, 1)}; break; }
      case LATTICE: p[i] = {0.1 * (i % side), 0.1 * (i / side)}; break;     // 0.1 is inexact: near-ties
      case IDENTICAL: p[i] = v0; break;
      case TWO_VALUES: p[i] = r.coin() ? v0 : v1; break;
      case UNIFORM_SMALL: p[i] = {(double)r.below(4) / 3, (double)r.below(4) / 3}; break;
      default: p[i] = {scale * r.uniform(-1, 1), scale * r.uniform(-1, 1)};
      }
    }
    return p;
  }
  pos_t query(vh::Rng& r, const std::vector<pos_t>& p) const {
    if (!p.empty() && r.coin(0.3)) return p[r.below(p.size())];
    return {scale * r.uniform(-1.5, 1.5), scale * r.uniform(-1.5, 1.5)};
  }
};
struct GeodDist {
  typedef double dist_t; typedef std::pair<double, double> pos_t; static constexpr bool exact = false; static const char* name() { return "geodesic-wgs84"; }
  mutable long long calls = 0;
  double operator()(const pos_t& a, const pos_t& b) const { ++calls; double s; GeographicLib::Geodesic::WGS84().Inverse(a.first, a.second, b.first, b.second, s); return s; }
  std::vector<pos_t> gen(vh::Rng& r, int n, int style) {
    std::vector<pos_t> p(n); pos_t v0 = {r.uniform(-90, 90), r.uniform(-180, 180)}, v1 = {-v0.first, v0.second + 180};
    for (int i = 0; i < n; ++i) {
      switch (style) {
      case CLUSTERS: p[i] = {v0.first * 0.9 + 1e-3 * r.uniform(-1, 1), v0.second + 1e-3 * r.uniform(-1, 1)}; break;
      case LATTICE: p[i] = {-80.0 + 10 * (i % 17), -180.0 + 10 * ((i / 17) % 36)}; break;
      case IDENTICAL: p[i] = v0; break;
      case TWO_VALUES: p[i] = r.coin() ? v0 : v1; break;                    // antipodal pair
      case UNIFORM_SMALL: p[i] = {(double)(r.coin() ? 90 : -90), r.uniform(-180, 180)}; break;   // poles: all coincident
      default: p[i] = {std::asin(r.uniform(-1, 1)) * 180 / M_PI, r.uniform(-180, 180)};
      }
    }
    return p;
  }
  pos_t query(vh::Rng& r, const std::vector<pos_t>& p) const {
    if (!p.empty() && r.coin(0.3)) return p[r.below(p.size())];
    return {std::asin(r.uniform(-1, 1)) * 180 / M_PI, r.uniform(-180, 180)};
  }
};

// ------------------------------------------------------------------------------------ helpers
template <class D> static std::string dstr(D v) { std::ostringstream o; o.precision(20); o << +v; return o.str(); }
template <class NN> static std::string save_str(const NN& nn, int mode) {   // 0 Save(bin) 1 Save(text) 2 operator<<
  std::ostringstream o(std::ios::binary);
  if (mode == 0) nn.Save(o, true); else if (mode == 1) nn.Save(o, false); else o << nn;
  return o.str();
}
template <class NN> static void load_str(NN& nn, const std::string& s, int mode) {
  std::istringstream i(s, std::ios::binary);
  if (mode == 0) nn.Load(i, true); else if (mode == 1) nn.Load(i, false); else i >> nn;
}

// Structural legality of a saved (text) tree, written from the documented format and the definition of a
// vantage-point tree: returns "" or the name of the broken invariant.
template <class D> static std::string validate_text(const std::string& s, int maxbucket) {
  std::istringstream is(s);
  long long version, realspec, bucket, numpoints, treesize, cost;
  if (!(is >> version >> realspec >> bucket >> numpoints >> treesize >> cost)) return "unparsable-header";
  if (version != 1) return "version";
  if (realspec != std::numeric_limits<D>::digits * (std::numeric_limits<D>::is_integer ? -1 : 1)) return "realspec";
  if (bucket < 0 || bucket > maxbucket) return "bucket-out-of-range";
  if (numpoints < 0 || treesize < 0 || treesize > numpoints) return "treesize-vs-numpoints";
  if (cost < 0) return "negative-cost";
  for (long long i = 0; i < treesize; ++i) {
    long long index; if (!(is >> index)) return "unparsable-node";
    if (index < -1 || index >= numpoints) return "index-out-of-range";
    if (index >= 0) {
      long double lo[2], up[2]; long long ch[2];
      auto rd = [&](long double& v) { std::string t; if (!(is >> t)) return false; char* e; v = std::strtold(t.c_str(), &e); return *e == 0 && e != t.c_str(); };   // also reads inf / nan
      for (int l = 0; l < 2; ++l) { if (!(rd(lo[l]) && rd(up[l]) && (is >> ch[l]))) return "unparsable-node";
        if (ch[l] < -1 || ch[l] >= treesize) return "child-out-of-range";
        if (ch[l] >= i) return "child-not-before-parent"; }
      if (!(0 <= lo[0] && lo[0] <= up[0] && up[0] <= lo[1] && lo[1] <= up[1])) return "bounds-not-ordered";
    } else {
      bool ended = false;
      for (int l = 0; l < bucket; ++l) { long long leaf; if (!(is >> leaf)) return "unparsable-node";
        if (leaf < -1 || leaf >= numpoints) return "leaf-out-of-range";
        if (l == 0 && leaf < 0) return "empty-leaf-node";
        if (ended && leaf != -1) return "leaf-after-end-marker";
        if (leaf == -1) ended = true; }
    }
  }
  return "";
}

static std::string g_ksfx;       // appended to oracle keys (regime-specific sections)
// scale helper for Euclid tolerance (other metrics: 1)
template <class M> struct HasScale { static double get(const M&) { return 1; } };
template <> struct HasScale<Euclid> { static double get(const Euclid& m) { return m.scale; } };

// ------------------------------------------------------------------------------------ one history
template <class M> static void nn_history(Ctx& c, const char* dname, int n, int style, bool heavy) {
  typedef typename M::dist_t D; typedef typename M::pos_t P; typedef NearestNeighbor<D, P, M> NN;
  vh::Rng& r = c.rng;
  M dist; std::vector<P> pts = dist.gen(r, n, style);
  const int maxbucket = 2 + std::max<int>(2, (int)(4 * sizeof(D) / sizeof(int)));
  int bucket = r.coin(0.3) ? (r.coin() ? 0 : maxbucket) : r.range(0, maxbucket);
  std::string nb = n == 0 ? "n=0" : n == 1 ? "n=1" : n == 2 ? "n=2" : n <= 10 ? "n<=10" : n <= 100 ? "n<=100" : n <= 1000 ? "n<=1000" : "n<=5000";
  std::string cls = std::string("nn/") + M::name() + "-" + dname + "/" + style_name[style] + "/" + nb;
  J w = J().str("metric", M::name()).str("dist_t", dname).i("n", n).str("style", style_name[style]).i("bucket", bucket);
  const double abstol = M::exact ? 0 : (std::string(M::name()) == "geodesic-wgs84" ? 2e-7 : 1e-9 * HasScale<M>::get(dist));
  c.event(std::string("bucket=") + (bucket == 0 ? "0" : bucket == maxbucket ? "maxbucket" : "interior"));

  // ---- argument contract: bad bucket / wrong pts size must throw GeographicErr and leave the state unchanged
  NN nn;
  try { nn.Initialize(pts, dist, bucket); }
  catch (const GeographicErr& e) { c.viol("contract:C17/nn/Initialize-threw-on-legal-input", cls, J(w).str("what", e.what())); return; }
  if (nn.NumPoints() != n) c.viol(std::string("oracle:C17/nn/NumPoints") + g_ksfx, cls, J(w).i("got", nn.NumPoints()));
  std::string ref_bin = save_str(nn, 0), ref_txt = save_str(nn, 1);
  {
    std::string v = validate_text<D>(ref_txt, maxbucket);
    if (!v.empty()) c.viol(std::string("oracle:C17/nn/built-tree-structurally-illegal/") + g_ksfx + v, cls, w);
    for (int bad : {-1, maxbucket + 1, std::numeric_limits<int>::min(), std::numeric_limits<int>::max()}) {
      bool threw = false;
      try { nn.Initialize(pts, dist, bad); } catch (const GeographicErr&) { threw = true; }
      if (!threw) c.viol("contract:C17/nn/bad-bucket-accepted", cls, J(w).i("bad_bucket", bad));
      if (save_str(nn, 0) != ref_bin) { c.viol("contract:C17/nn/state-changed-by-throwing-Initialize", cls, J(w).i("bad_bucket", bad)); nn.Initialize(pts, dist, bucket); }
    }
    std::vector<P> wrong = pts; if (r.coin() || wrong.empty()) wrong.push_back(dist.query(r, pts)); else wrong.pop_back();
    std::vector<int> ind(3, 77); bool threw = false;
    try { nn.Search(wrong, dist, dist.query(r, pts), ind); } catch (const GeographicErr&) { threw = true; }
    if (!threw) c.viol("contract:C17/nn/wrong-pts-size-accepted", cls, w);
    c.event("argument-contract probes", 5);
  }

  // ---- serialised copies (history monitor): each must answer every query identically
  std::vector<NN> copies(4);
  try {
    load_str(copies[0], ref_bin, 0); load_str(copies[1], ref_txt, 1); load_str(copies[2], save_str(nn, 2), 2);
    load_str(copies[3], save_str(copies[1], 0), 0);             // text -> binary chain
  } catch (const std::exception& e) { c.viol("history:C17/nn/Load-rejected-own-Save", cls, J(w).str("what", e.what())); return; }
  for (int m = 0; m < 4; ++m) {
    if (save_str(copies[m], 0) != ref_bin) c.viol("history:C17/nn/Save-Load-Save-not-identity/binary", cls, J(w).i("copy", m));
    if (save_str(copies[m], 1) != ref_txt) c.viol("history:C17/nn/Save-Load-Save-not-identity/text", cls, J(w).i("copy", m));
    if (copies[m].NumPoints() != n) c.viol("history:C17/nn/NumPoints-after-Load", cls, J(w).i("copy", m));
  }
  if (save_str(nn, 2) != ref_txt) c.viol("history:C17/nn/operator<<-differs-from-text-Save", cls, w);
  { NN a, b; a.Initialize(pts, dist, bucket); std::swap(a, b);
    if (save_str(b, 0) != ref_bin || a.NumPoints() != 0) c.viol("history:C17/nn/swap", cls, w); }
  c.event("serialisation round trips", 4);
  // a USED tree re-initialised with this point set (another point set, bucket size and a few searches first) is the fresh tree, bit for bit
  { NN u; std::vector<P> other; int m = r.range(0, 40); for (int i = 0; i < m; ++i) other.push_back(dist.query(r, pts));
    try { u.Initialize(other, dist, (int)r.below(maxbucket + 1)); std::vector<int> ii; if (m) u.Search(other, dist, other[0], ii, 3);
      u.Initialize(pts, dist, bucket);
      if (save_str(u, 0) != ref_bin || u.NumPoints() != n) c.viol("history:C17/nn/re-Initialize-of-used-tree-differs-from-fresh-tree", cls, J(w).i("previous_n", m));
    } catch (const std::exception& e) { c.viol("history:C17/nn/re-Initialize-threw", cls, J(w).str("what", e.what())); }
    c.event("re-Initialize of a used tree judged against the fresh tree (bit exact)"); }

  // ---- queries
  int nq = heavy ? 6 : (n <= 10 ? 12 : 24);
  std::vector<D> all(n); std::vector<std::pair<D, int>> cand; std::vector<int> ind, ind2;
  for (int qi = 0; qi < nq; ++qi) {
    P q = dist.query(r, pts);
    for (int i = 0; i < n; ++i) all[i] = dist(pts[i], q);
    std::vector<D> sorted(all); std::sort(sorted.begin(), sorted.end());
    uint64_t h = vh::hmix(vh::hmix(vh::hmix(vh::hstr(cls.c_str()), (uint64_t)n), (uint64_t)bucket), r.next());
    c.count(cls, h, false);
    if (c.want_sample(cls)) c.sample(cls, J(w).i("query", qi));
    const int ncfg = heavy ? 4 : 8;
    for (int ci = 0; ci < ncfg; ++ci) {
      // k, maxdist, mindist, exhaustive, tol
      static const int kk[] = {0, 1, 2, 5, -100, -103, 1, 1, 3, -1};     // -100 -> n, -103 -> n+3
      int k = kk[r.below(10)]; if (k == -100) k = n; else if (k == -103) k = n + 3;
      D maxd = std::numeric_limits<D>::max(), mind = (D)-1, tol = 0; bool exh = true;
      auto tie = [&]() -> D { return n ? sorted[std::min<size_t>(n - 1, (size_t)(r.u() * r.u() * n))] : (D)r.below(5); };
      switch (r.below(6)) { case 0: maxd = tie(); break; case 1: maxd = tie(); mind = tie(); break; case 2: mind = tie(); break;
        case 3: mind = 0; break; default: break; }
      if (r.coin(0.05)) { maxd = mind; }
      int mode = (int)r.below(8);       // 0..4 exact contract; 5: exhaustive=false; 6: tol>0; 7: both
      if (mode == 5 || mode == 7) exh = false;
      if (mode >= 6) tol = n && r.coin() ? (D)std::max<long double>(1, (long double)sorted[n / 2] / 4) : (D)1;
      if (ci == 0) { k = 1; maxd = std::numeric_limits<D>::max(); mind = (D)-1; exh = true; tol = 0; mode = 0; }     // the simplest invocation
      bool defaults = ci == 0;
      D d0;
      try {
        if (defaults) d0 = nn.Search(pts, dist, q, ind);
        else d0 = nn.Search(pts, dist, q, ind, k, maxd, mind, exh, tol);
      } catch (const std::exception& e) { c.viol("contract:C17/nn/Search-threw", cls, J(w).str("what", e.what())); continue; }
      c.event(exh && tol == 0 ? "Search judged (exact contract)" : !exh && tol == 0 ? "Search judged (exhaustive=false contract)" : "Search judged (tol>0 contract)");
      J wq = J(w).i("query", qi).i("cfg", ci).i("k", k).str("maxdist", dstr(maxd)).str("mindist", dstr(mind)).b("exhaustive", exh).str("tol", dstr(tol)).i("returned", (long long)ind.size());
      // the truth
      cand.clear();
      for (int i = 0; i < n; ++i) if (all[i] > mind && all[i] <= maxd) cand.push_back(std::make_pair(all[i], i));
      std::sort(cand.begin(), cand.end());
      size_t want = k > 0 ? std::min<size_t>((size_t)k, cand.size()) : 0;
      // generic sanity of the answer: valid, distinct, in range, sorted, return value
      bool sane = true; std::set<int> seen; D prev = 0;
      for (size_t j = 0; j < ind.size() && sane; ++j) {
        int i = ind[j];
        if (i < 0 || i >= n) { c.viol(std::string("oracle:C17/nn/index-out-of-range") + g_ksfx, cls, J(wq).i("index", i)); sane = false; break; }
        if (!seen.insert(i).second) { c.viol(std::string("oracle:C17/nn/index-returned-twice") + g_ksfx, cls, J(wq).i("index", i)); sane = false; }
        if (!(all[i] > mind && all[i] <= maxd)) { c.viol(std::string("oracle:C17/nn/result-outside-(mindist,maxdist]") + g_ksfx, cls, J(wq).i("index", i).str("dist", dstr(all[i]))); sane = false; }
        if (j && all[i] < prev) { c.viol(std::string("oracle:C17/nn/results-not-sorted-by-distance") + g_ksfx, cls, J(wq).i("pos", (long long)j)); sane = false; }
        prev = all[i];
      }
      if (!sane) continue;
      if (ind.size() > (size_t)std::max(k, 0)) { c.viol(std::string("oracle:C17/nn/more-than-k-results") + g_ksfx, cls, wq); continue; }
      if (ind.empty() ? !(d0 == (D)-1) : !(d0 == all[ind[0]])) c.viol(std::string("oracle:C17/nn/return-value-is-not-the-closest-distance") + g_ksfx, cls, J(wq).str("returned_d", dstr(d0)));
      if (exh && tol == 0) {
        if (M::exact) {
          if (ind.size() != want) c.viol(std::string("oracle:C17/nn/exact/wrong-number-of-results") + g_ksfx, cls, J(wq).i("want", (long long)want));
          else for (size_t j = 0; j < want; ++j) if (!(all[ind[j]] == cand[j].first)) {
            c.viol(std::string("oracle:C17/nn/exact/distance-multiset-differs-from-linear-scan") + g_ksfx, cls, J(wq).i("pos", (long long)j).str("got", dstr(all[ind[j]])).str("want", dstr(cand[j].first))); break; }
        } else {
          double worst = 0;
          for (size_t j = 0; j < ind.size() && j < want; ++j) worst = std::max(worst, (double)(all[ind[j]] - cand[j].first));
          c.obs(std::string("nn: excess of returned over true j-th distance [") + M::name() + "] / tolerance", worst / abstol);
          if (worst > abstol) c.viol(std::string("oracle:C17/nn/inexact/distance-worse-than-linear-scan") + g_ksfx, cls, J(wq).f("excess", worst).f("tol", abstol));
          if (ind.size() < want) {     // only points within tolerance of the (mindist, maxdist] boundary may be missing
            bool ok = true; for (size_t j = ind.size(); j < cand.size() && ok; ++j) ok = std::fabs((double)(cand[j].first - maxd)) <= abstol || std::fabs((double)(cand[j].first - mind)) <= abstol;
            if (!ok) c.viol(std::string("oracle:C17/nn/inexact/wrong-number-of-results") + g_ksfx, cls, J(wq).i("want", (long long)want));
          }
        }
      } else {
        // documented weaker contracts.  tol == 0, exhaustive=false: k results (any) or, if fewer, all there are.
        // tol > 0: every in-range point not returned is at distance >= dk - tol (dk = k-th returned distance);
        // fewer than k results: "the search is exact" (all in-range points returned).
        if (ind.size() < want) {
          // (inexact metrics: points within rounding of the (mindist, maxdist] boundary may legitimately be pruned)
          bool only_boundary = !M::exact; for (auto& cd : cand) if (!seen.count(cd.second) && !(std::fabs((double)(cd.first - maxd)) <= abstol || std::fabs((double)(cd.first - mind)) <= abstol)) only_boundary = false;
          if (only_boundary) c.event("inexact metric: boundary point pruned by rounding (accepted)");
          else if (tol == 0) c.viol(std::string("oracle:C17/nn/exhaustive=false/fewer-than-k-but-not-all") + g_ksfx, cls, J(wq).i("want", (long long)want));
          else {
            // separate, narrow key: pruning with maxdist - tol loses points in (maxdist - tol, maxdist]
            bool only_band = true; for (auto& cd : cand) if (!seen.count(cd.second) && !((long double)cd.first > (long double)maxd - (long double)tol)) only_band = false;
            if (M::exact || !only_band) c.viol(only_band ? std::string("doc:C17/nn/tol>0/fewer-than-k-results-but-search-not-exact/missed-in-(maxdist-tol,maxdist]")
                                   : std::string("oracle:C17/nn/tol>0/fewer-than-k-results-but-search-not-exact") + g_ksfx, cls, J(wq).i("want", (long long)want));
          }
        } else if (exh && tol > 0 && !ind.empty() && ind.size() == (size_t)k) {
          long double dk = all[ind.back()];
          for (auto& cd : cand) if (!seen.count(cd.second) && (long double)cd.first + abstol < dk - (long double)tol) {
            c.viol(std::string("oracle:C17/nn/tol>0/missed-point-closer-than-dk-tol") + g_ksfx, cls, J(wq).str("missed_dist", dstr(cd.first)).str("dk", dstr((D)dk))); break; }
        }
      }
      // the serialised copies answer identically (same tree => same traversal => same indices)
      for (int m = 0; m < 4; ++m) {
        if ((qi + ci + m) % 2) continue;
        D d1 = defaults ? copies[m].Search(pts, dist, q, ind2) : copies[m].Search(pts, dist, q, ind2, k, maxd, mind, exh, tol);
        if (!(d1 == d0) || ind2 != ind) c.viol("history:C17/nn/answer-changed-by-Save-Load", cls, J(wq).i("copy", m));
        c.event("re-queries after Load");
      }
    }
  }

  // ---- corrupted streams
  int ncorrupt = heavy ? 4 : 12;
  for (int t = 0; t < ncorrupt && !ref_txt.empty(); ++t) {
    bool bin = r.coin(0.4); std::string s = bin ? ref_bin : ref_txt; std::string how;
    if (bin) {
      if (s.size() <= 40) continue;
      int m = (int)r.below(3);
      if (m == 0) { size_t p = 16 + r.below(s.size() - 16); s[p] = (char)(s[p] ^ (1 << r.below(8))); how = "bit-flip"; }
      else if (m == 1) { size_t p = 16 + 4 * r.below((s.size() - 16) / 4); int v = (int)r.below(3) - 1 + (r.coin() ? n : 0); if (r.coin(0.2)) v = r.coin() ? INT32_MAX : INT32_MIN; std::memcpy(&s[p], &v, 4); how = "int-overwrite"; }
      else { s[r.below(16)] ^= 1; how = "bad-id"; }
    } else {
      // replace one numeric token
      std::vector<std::pair<size_t, size_t>> tok; size_t i = 0;
      while (i < s.size()) { while (i < s.size() && std::isspace((unsigned char)s[i])) ++i; size_t b = i; while (i < s.size() && !std::isspace((unsigned char)s[i])) ++i; if (i > b) tok.push_back({b, i - b}); }
      if (tok.empty()) continue;
      auto tk = tok[r.below(tok.size())];
      static const char* repl[] = {"-1", "-2", "0", "1", "x", "", "2147483647", "-2147483648", "1e400", "nan", "99999999999"};
      std::string rp = r.coin(0.5) ? repl[r.below(11)] : std::to_string((long long)r.below(2 * n + 4) - 2);
      if (r.coin(0.15)) { s = s.substr(0, tk.first); how = "truncate"; } else { s = s.substr(0, tk.first) + rp + s.substr(tk.first + tk.second); how = "token:" + rp; }
    }
    if (s == (bin ? ref_bin : ref_txt)) continue;
    NN victim; load_str(victim, ref_bin, 0);
    bool threw = false; std::string what;
    try { load_str(victim, s, bin ? 0 : 1); }
    catch (const GeographicErr& e) { threw = true; what = e.what(); }
    catch (const std::bad_alloc&) { threw = true; what = "bad_alloc"; }
    c.event(threw ? "corrupted stream rejected" : "corrupted stream accepted");
    J wc = J(w).b("binary", bin).str("mutation", how).str("what", what);
    if (threw) {
      if (save_str(victim, 0) != ref_bin) c.viol("history:C17/nn/state-changed-by-throwing-Load", cls, wc);
    } else {
      std::string v = validate_text<D>(save_str(victim, 1), maxbucket);
      if (!v.empty()) { c.viol("load:C17/nn/accepted-illegal-state/" + v, cls, wc); continue; }   // do NOT search such a tree
      if (victim.NumPoints() == n) {      // legal but possibly meaningless tree: Search must terminate, stay in bounds
        P q = dist.query(r, pts);
        try { victim.Search(pts, dist, q, ind, 3); for (int i : ind) if (i < 0 || i >= n) c.viol("load:C17/nn/search-after-corrupt-load/index-out-of-range", cls, wc); }
        catch (const GeographicErr&) {}
      }
    }
  }
  (void)dname;
}


// ------------------------------------------------------------------------------------ sections
static int pick_n(vh::Rng& r, uint64_t idx, int nmax) {
  if (idx < 12) return (int)idx;                              // n = 0,1,2,...,11 always present
  switch (r.below(10)) { case 0: case 1: return (int)r.below(4); case 2: case 3: return 3 + (int)r.below(20);
    case 4: case 5: case 6: return 10 + (int)r.below(200); case 7: case 8: return std::min(nmax, 100 + (int)r.below(1500)); default: return std::min(nmax, 1000 + (int)r.below(4001)); }
}
template <class M> static void sec(Ctx& c, uint64_t idx, const char* dname, int nmax) {
  int n = pick_n(c.rng, idx / NSTYLE, nmax);
  int style = (int)(idx % NSTYLE);
  nn_history<M>(c, dname, n, style, n > 1500);
}
int main(int argc, char** argv) {
  std::vector<Section> S;
  S.push_back({"L1-int", 420, 6000, true, [](Ctx& c, uint64_t i) { sec<L1<int, int, 2>>(c, i, "int", 5000); }, 120});
  S.push_back({"Linf-longlong", 420, 6000, true, [](Ctx& c, uint64_t i) { sec<Linf<long long, long long, 3>>(c, i, "longlong", 5000); }, 120});
  S.push_back({"L1-double-integers", 420, 6000, true, [](Ctx& c, uint64_t i) { sec<L1<double, double, 2>>(c, i, "double", 5000); }, 120});
  S.push_back({"hamming-short", 420, 6000, true, [](Ctx& c, uint64_t i) { sec<Hamming>(c, i, "short", 5000); }, 120});
  S.push_back({"discrete-float", 300, 4500, true, [](Ctx& c, uint64_t i) { sec<Discrete>(c, i, "float", 3000); }, 120});
  S.push_back({"tree-path-longlong", 420, 6000, true, [](Ctx& c, uint64_t i) { sec<TreeMetric>(c, i, "longlong", 5000); }, 120});
  S.push_back({"L1-int-distances-near-INT_MAX", 60, 900, true, [](Ctx& c, uint64_t i) { g_ksfx = "/distances-near-dist_t-max"; sec<L1Huge>(c, i, "int", 2000); g_ksfx.clear(); }, 120});
  S.push_back({"euclid-double", 420, 6000, true, [](Ctx& c, uint64_t i) { sec<Euclid>(c, i, "double", 5000); }, 120});
  S.push_back({"geodesic-double", 180, 2500, true, [](Ctx& c, uint64_t i) { sec<GeodDist>(c, i, "double", 300); }, 300});
  return vh::run_sections(argc, argv, S);
}
