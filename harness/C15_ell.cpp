// C15 (part 2) — EllipticFunction: Legendre integrals F,E,D,Pi,G,H (complete, incomplete, (sn,cn,dn) overloads,
// periodic parts), Einv/deltaEinv, Jacobi am/sn/cn/dn, Carlson RF,RC,RG,RJ,RD.
// Oracle: oracle/ref_elliptic.hpp — the defining integrals by adaptive Gauss-Legendre quadrature in binary128;
// Boost.Math 1.83 as a second opinion on the oracle (self-test section).  Law monitors: Legendre relation,
// sn^2+cn^2=1, dn^2+k^2 sn^2=1, periodicity, oddness, Carlson symmetry and homogeneity.
#define REF_ELLIPTIC_WITH_BOOST
#include "harness/value_semantics.hpp"
#include <GeographicLib/EllipticFunction.hpp>
#include <GeographicLib/Math.hpp>
#include "harness/common.hpp"
#include "oracle/ref_elliptic.hpp"
#include "oracle/ref_exact.hpp"
#include <map>
#include <memory>

using GeographicLib::EllipticFunction; using GeographicLib::GeographicErr; using GeographicLib::Math;
using vh::Ctx; using vh::J; using vh::Section; using ref::q128; using ref::QV; using ref::EllRef;
static const double EPS = std::numeric_limits<double>::epsilon();
static const double INF = std::numeric_limits<double>::infinity();
static const char* FN[6] = {"F", "E", "D", "Pi", "G", "H"};

static const double K_ELL = 32;       // relative error of an integral [eps]
static const double K_JAC = 16;       // Jacobi functions: absolute error in units of eps * (|value| + conditioning)
static const double K_CARLSON = 32;

// known-finding regimes: one key per defect, decided from the inputs only (see harness/C15.cpp)
static std::string g_regime;
struct Regime { std::string old; explicit Regime(const std::string& r) : old(g_regime) { g_regime = r; } ~Regime() { g_regime = old; } };
static void VIOL(Ctx& c, const std::string& key, const std::string& cls, const J& d) {
  if (g_regime.empty() || key == g_regime) c.viol(key, cls, d); else c.viol(g_regime, cls, J(d).str("monitor", key)); }

static const double LADDER[] = {-1e6, -100, -1, -1e-9, 0, 1e-9, 0.5, 1 - 1e-3, 1 - 1e-9, 1 - 1e-15, 1};
static const int NL = 11;

struct Obj { double k2, a2, kp2, ap2; bool four; std::unique_ptr<EllRef> R; std::unique_ptr<EllipticFunction> L; std::string cls; };
static std::string kcls(double k2, double kp2) {
  if (kp2 == 0) return "k2=1"; if (k2 == 0) return "k2=0"; if (k2 < -10) return "k2<-10"; if (k2 < 0) return "k2<0";
  if (kp2 < 1e-6) return "k2->1"; return "0<k2<1";
}
static std::string acls(double a2, double ap2) {
  if (ap2 == 0) return "a2=1"; if (a2 == 0) return "a2=0"; if (a2 < -10) return "a2<-10"; if (a2 < 0) return "a2<0";
  if (ap2 < 1e-6) return "a2->1"; return "0<a2<1";
}
static Obj* make_obj(double k2, double a2, bool four, double kp2 = 0, double ap2 = 0) {
  Obj* o = new Obj; o->k2 = k2; o->a2 = a2; o->four = four;
  if (four) { o->kp2 = kp2; o->ap2 = ap2; o->R.reset(new EllRef(k2, a2, kp2, ap2)); o->L.reset(vh::detached_new<EllipticFunction>([&] { return EllipticFunction(k2, a2, kp2, ap2); }, [&] { return EllipticFunction(0.3, 0.2); })); }      // detached copies: harness/value_semantics.hpp
  else { o->kp2 = 1 - k2; o->ap2 = 1 - a2; o->R.reset(new EllRef(k2, a2)); o->L.reset(vh::detached_new<EllipticFunction>([&] { return EllipticFunction(k2, a2); }, [&] { return EllipticFunction(0.3, 0.2); })); }
  o->cls = kcls(k2, o->kp2) + "," + acls(a2, o->ap2) + (a2 == k2 && k2 != 0 ? ",a2=k2" : "") + (four ? ",4-arg-ctor" : "");
  return o;
}
// cached ladder objects; random ones are owned by the caller
static Obj& ladder_obj(int i, int j) {
  static std::map<int, std::unique_ptr<Obj>> cache; int key = i * 64 + j;
  auto it = cache.find(key); if (it != cache.end()) return *it->second;
  double k2 = LADDER[i], a2 = j == NL ? k2 : LADDER[j];
  cache[key].reset(make_obj(k2, a2, false)); return *cache[key];
}
static Obj* pick_obj(vh::Rng& r, std::unique_ptr<Obj>& own) {
  int k = (int)r.below(10);
  if (k < 6) return &ladder_obj((int)r.below(NL), (int)r.below(NL + 1));
  auto rnd = [&](bool neg_ok) -> double { switch (r.below(5)) { case 0: return r.u(); case 1: return neg_ok ? -r.logu(1e-12, 1e8) : r.u(); case 2: return r.logu(1e-300, 1);
    case 3: return 1 - r.logu(1e-16, 1e-2); default: return r.uniform(-4, 1); } };
  if (k < 9) { own.reset(make_obj(rnd(true), r.coin(0.3) ? 0.0 : rnd(true), false)); return own.get(); }
  // four-argument constructor: complements supplied with full relative accuracy (k'^2 far below eps)
  double kp2 = r.coin() ? r.logu(1e-40, 1e-10) : r.logu(1e-10, 2), k2 = (double)(1 - (q128)kp2);
  double ap2 = r.coin() ? r.logu(1e-40, 1e-10) : r.logu(1e-10, 2), a2 = (double)(1 - (q128)ap2);
  own.reset(make_obj(k2, a2, true, kp2, ap2)); return own.get();
}
// regime in which Pi, G, H call R_J with widely separated arguments (reported separately: R_J loses accuracy there)
static bool rj_stressed(const Obj& o) { return o.a2 != 0 && (o.ap2 < 1e-6 || o.a2 < -10 || o.kp2 < 1e-6 || o.k2 < -1e4); }
static const char* RJKEY = "regime:C15/elliptic/Pi-G-H/RJ-stressed(alpha2->1|alpha2<-10|k2->1|k2<-1e4)";
static const char* G4KEY = "regime:C15/elliptic/G/4-arg-ctor-kp2<0.1-alphap2<0.1";
static const char* RGKEY = "regime:C15/elliptic/carlson/RG/argument-spread>1e3";
// regime of one Legendre function (fixed order): G with the 4-argument constructor and both complements < 0.1 (alpha2-k2 cancels);
// Pi/G/H when R_J is called with widely separated arguments; E when E() = 2 R_G(k'^2,1) has k'^2 < 1e-20
static std::string legendre_regime(const Obj& o, int i) {
  if (o.four && i == ref::EL_G && o.kp2 < 0.1 && o.ap2 < 0.1) return G4KEY;
  if (i >= 3 && rj_stressed(o)) return RJKEY;
  if (i == ref::EL_E && o.kp2 > 0 && o.kp2 < 1e-20) return RGKEY;
  return "";
}
static J jobj(const Obj& o) { J j; j.f("k2", o.k2).f("alpha2", o.a2); if (o.four) j.f("kp2", o.kp2).f("alphap2", o.ap2); return j; }

static double gen_phi(vh::Rng& r, const char*& cls) {
  switch (r.below(10)) {
  case 0: cls = "phi-tiny"; return r.sign() * r.logu(1e-300, 1e-6);
  case 1: cls = "phi-near-pi/2"; return r.sign() * (M_PI / 2 - r.logu(1e-16, 1e-2));
  case 2: cls = "phi-ulps-from-pi/2"; return r.sign() * vh::ulps(M_PI / 2, r.range(-4, 4));
  case 3: case 4: cls = "phi-many-periods"; return r.uniform(-20 * M_PI, 20 * M_PI);
  case 5: cls = "phi-near-multiple-of-pi/2"; return vh::ulps(r.range(-40, 40) * (M_PI / 2), r.range(-3, 3));
  case 6: cls = "phi-(pi/2,pi)"; return r.sign() * r.uniform(M_PI / 2, M_PI);
  default: cls = "phi-first-quadrant"; return r.uniform(-M_PI / 2, M_PI / 2);
  }
}

// relative error in eps; inf/inf agreement counts as 0
static double relerr(double got, q128 want) {
  if (std::isnan(got) || isnanq(want)) return HUGE_VAL;
  if (isinfq(want)) return (std::isinf(got) && (got > 0) == (want > 0)) ? 0 : HUGE_VAL;
  if (std::isinf(got)) return fabsq(want) > 1e308Q ? 0 : HUGE_VAL;
  if (want == 0) return got == 0 ? 0 : HUGE_VAL;
  return (double)(fabsq((q128)got - want) / fabsq(want)) / EPS;
}

// ================================================================ section: legendre
static void sec_legendre(Ctx& c, uint64_t) {
  vh::Rng& r = c.rng; std::unique_ptr<Obj> own; Obj& O = *pick_obj(r, own);
  EllRef& R = *O.R; const EllipticFunction& L = *O.L;
  // complete integrals (every case: cheap)
  {
    double got[6] = {L.K(), L.E(), L.D(), L.Pi(), L.G(), L.H()};
    std::string cls = "complete/" + O.cls; c.count(cls, vh::hmix(vh::hmix(vh::hmix(101, O.k2), O.a2), O.kp2));
    for (int i = 0; i < 6; ++i) {
      double e = relerr(got[i], R.C[i]); J w(jobj(O)); w.str("fn", FN[i]).f("got", got[i]).str("want", ref::qstr(R.C[i])).f("err_eps", e);
      // Pi, G, H are documented as  R_F-term + (coefficient) * R_J-term (DLMF 19.25.14): when the result is much smaller than
      // the R_F term (alpha^2 << 0) the subtraction amplifies round-off by (|F| + |X - F|)/|X|
      double cond = 1;
      if (i >= 3 && !isinfq(R.C[i]) && !isinfq(R.C[0]) && R.C[i] != 0) cond = (double)((fabsq(R.C[0]) + fabsq(R.C[i] - R.C[0])) / fabsq(R.C[i]));
      c.obs(std::string("complete ") + FN[i] + " rel err [eps]", e, w);
      c.obs(std::string("complete ") + FN[i] + " rel err / cancellation conditioning [eps]", e / cond, w);
      Regime rg_(legendre_regime(O, i));
      if (!(e <= K_ELL * cond)) VIOL(c, std::string("oracle:C15/elliptic/complete/") + FN[i], cls, w);
    }
    double eke = relerr(L.KE(), R.divergent[0] ? EllRef::inf() : R.k2 * R.C[ref::EL_D]);
    if (O.k2 != 0) { c.obs("complete KE = K-E rel err [eps]", eke, jobj(O)); if (!(eke <= K_ELL)) VIOL(c, "oracle:C15/elliptic/complete/KE", cls, J(jobj(O)).f("got", L.KE())); }
    if (c.want_sample(cls)) c.sample(cls, jobj(O));
    if (!(L.k2() == O.k2 && L.kp2() == O.kp2 && L.alpha2() == O.a2 && L.alphap2() == O.ap2)) VIOL(c, "law:C15/elliptic/inspectors", cls, jobj(O));
  }
  // (sn,cn,dn) overloads at the exact quadrant point cn = +-0 (phi = +-pi/2 exactly; cos(phi) of a double never vanishes, so the random
  // amplitudes below cannot reach the cn2 == 0 fall-back of E, D, Pi, G, H -- shown as never executed by the reach monitor):
  // the value is +-the complete integral
  if (r.below(4) == 0) {
    double sn = r.coin() ? 1.0 : -1.0, cn = r.coin() ? 0.0 : -0.0, dn = L.Delta(sn, cn);
    double got3[6] = {L.F(sn, cn, dn), L.E(sn, cn, dn), L.D(sn, cn, dn), L.Pi(sn, cn, dn), L.G(sn, cn, dn), L.H(sn, cn, dn)};
    std::string cls = "incomplete/" + O.cls + "/sncndn-at-exact-quarter-period"; c.count(cls, vh::hmix(vh::hmix(vh::hmix(103, O.k2), O.a2), sn + cn));
    for (int i = 0; i < 6; ++i) {
      if (R.divergent[i] || isinfq(R.C[i])) continue;
      Regime rg_(legendre_regime(O, i));
      double cond = 1; if (i >= 3 && !isinfq(R.C[0]) && R.C[i] != 0) cond = (double)((fabsq(R.C[0]) + fabsq(R.C[i] - R.C[0])) / fabsq(R.C[i]));
      double e = relerr(got3[i], (q128)sn * R.C[i]);
      c.obs(std::string("incomplete ") + FN[i] + "(sn=+-1,cn=+-0,dn) rel err / cancellation conditioning [eps]", e / cond);
      if (!(e <= K_ELL * cond)) VIOL(c, std::string("oracle:C15/elliptic/incomplete-sncndn-quarter-period/") + FN[i], cls, J(jobj(O)).str("fn", FN[i]).f("sn", sn).f("cn", cn).f("dn", dn).f("got", got3[i]).str("want", ref::qstr((q128)sn * R.C[i])).f("err_eps", e));
    }
  }
  for (int rep = 0; rep < 6; ++rep) {
    const char* pc; double phi = gen_phi(r, pc);
    q128 n = roundq((q128)phi / M_PIq); bool beyond = fabsq((q128)phi) > M_PIq / 2;
    std::string cls = "incomplete/" + O.cls + "/" + pc;
    c.count(cls, vh::hmix(vh::hmix(vh::hmix(102, O.k2), O.a2), phi));
    QV<6> W = R.at((q128)phi);
    // integrand at phi (conditioning w.r.t. the argument)
    q128 sq, cq; sincosq((q128)phi, &sq, &cq); q128 ig[6]; R.integrand(sq, cq, ig);
    double got[6] = {L.F(phi), L.E(phi), L.D(phi), L.Pi(phi), L.G(phi), L.H(phi)};
    double sn = std::sin(phi), cn = std::cos(phi), dn = L.Delta(sn, cn);
    double got3[6] = {L.F(sn, cn, dn), L.E(sn, cn, dn), L.D(sn, cn, dn), L.Pi(sn, cn, dn), L.G(sn, cn, dn), L.H(sn, cn, dn)};
    double gotd[6] = {L.deltaF(sn, cn, dn), L.deltaE(sn, cn, dn), L.deltaPi(sn, cn, dn) /*placeholder order fixed below*/, 0, 0, 0};
    gotd[2] = L.deltaD(sn, cn, dn); gotd[3] = L.deltaPi(sn, cn, dn); gotd[4] = L.deltaG(sn, cn, dn); gotd[5] = L.deltaH(sn, cn, dn);
    // Delta
    { double ed = relerr(dn, R.delta(sq, cq)); c.obs("Delta(sn,cn) rel err [eps]", ed, J(jobj(O)).f("phi", phi));
      // Delta^2 = k'^2 + k^2 cn^2 uses the rounded cos: condition number k^2 cn^2 / Delta^2 <= 1, so a few eps
      if (!(ed <= 8)) VIOL(c, "oracle:C15/elliptic/Delta", cls, J(jobj(O)).f("phi", phi).f("got", dn).str("want", ref::qstr(R.delta(sq, cq)))); }
    // (sn,cn,dn) overloads are "as though phi in (-pi,pi]": reference at atan2(sn,cn)
    QV<6> W3 = R.at_sc((q128)sn, (q128)cn);
    QV<6> Wq = R.at_sc(fabsq((q128)sn), fabsq((q128)cn));      // the first-quadrant piece that the library actually forms from R_F, R_D, R_J
    q128 phr = atan2q((q128)sn, (q128)cn);          // reduced angle actually represented by (sn,cn)
    for (int i = 0; i < 6; ++i) {
      bool div = R.divergent[i];
      J w(jobj(O)); w.str("fn", FN[i]).f("phi", phi).str("phi_class", pc);
      Regime rg_(legendre_regime(O, i));
      // cancellation conditioning of the documented R_F + coeff * R_J combination (see the complete integrals)
      double cc = 1, cc3 = 1;
      if (i >= 3) { if (!isinfq(W[i]) && !isinfq(W[0]) && W[i] != 0) cc = (double)((fabsq(W[0]) + fabsq(W[i] - W[0])) / fabsq(W[i]));
        if (!isinfq(W3[i]) && !isinfq(W3[0]) && W3[i] != 0) cc3 = (double)((fabsq(W3[0]) + fabsq(W3[i] - W3[0])) / fabsq(W3[i])); }
      // for |phi| >= pi the library uses (delta + phi) * complete / (pi/2): the complete integral's own cancellation enters as well
      if (i >= 3 && !isinfq(R.C[i]) && !isinfq(R.C[0])) { double c0 = (double)((fabsq(R.C[0]) + fabsq(R.C[i] - R.C[0])) / fabsq(R.C[i])); if (fabsq((q128)phi) >= 3) cc = std::max(cc, c0); if (signbitq((q128)cn)) cc3 = std::max(cc3, c0); }
      if (i >= 3 && !isinfq(Wq[i]) && !isinfq(Wq[0]) && Wq[i] != 0) { double cq_ = (double)((fabsq(Wq[0]) + fabsq(Wq[i] - Wq[0])) / fabsq(Wq[i])); cc = std::max(cc, cq_); cc3 = std::max(cc3, cq_); }
      bool four_g = O.four && i == ref::EL_G && O.kp2 < 0.1 && O.ap2 < 0.1;   // (alpha2 - k2) formed from the rounded values: amplification ~ 1/|alpha2 - k2|
      bool unrep = fabsq(W[i]) < 1e-290Q;       // result in the underflow range: not judged
      // --- real-argument overload
      if (unrep) c.event("incomplete integral below 1e-290 not judged");
      else if (!(div && beyond)) {
        // fold the conditioning w.r.t. the argument: REF at phi -+ 1 ulp differs by integrand(phi)*ulp(phi)
        double e = relerr(got[i], W[i]);
        double condslack = isinfq(W[i]) || W[i] == 0 ? 0 : (double)(fabsq(ig[i]) * (q128)ref::ulp_d(phi) / fabsq(W[i])) / EPS;
        c.obs(std::string("incomplete ") + FN[i] + "(phi) rel err [eps]", e, J(w).f("got", got[i]).str("want", ref::qstr(W[i])));
        c.obs(std::string("incomplete ") + FN[i] + "(phi) rel err beyond +-1ulp(phi) conditioning [eps]", std::max(0.0, e - condslack), J(w).f("got", got[i]).str("want", ref::qstr(W[i])));
        if (O.k2 >= -10 && O.kp2 >= 1e-4 && O.a2 >= -10 && O.ap2 >= 1e-4) c.obs(std::string("NORMAL REGIME (-10<=k2<=1-1e-4, -10<=alpha2<=1-1e-4) incomplete ") + FN[i] + "(phi) rel err / cancellation conditioning [eps]", e / cc, J(w).f("got", got[i]).str("want", ref::qstr(W[i])));
        c.obs(std::string("incomplete ") + FN[i] + "(phi) rel err / cancellation conditioning [eps]", e / cc, J(w).f("got", got[i]).str("want", ref::qstr(W[i])));
        if (!(e <= K_ELL * cc + condslack)) VIOL(c, std::string("oracle:C15/elliptic/incomplete/") + FN[i], cls, J(w).f("got", got[i]).str("want", ref::qstr(W[i])).f("err_eps", e).f("cond_slack_eps", condslack));
      } else c.event("divergent integral beyond pi/2 not judged");
      // --- (sn,cn,dn) overload
      bool beyond3 = signbitq((q128)cn);
      if (!(div && beyond3) && !unrep) {
        double e = relerr(got3[i], W3[i]);
        c.obs(std::string("incomplete ") + FN[i] + "(sn,cn,dn) rel err [eps]", e, J(w).f("got", got3[i]).str("want", ref::qstr(W3[i])));
        if (!(e <= K_ELL * cc3)) VIOL(c, std::string("oracle:C15/elliptic/incomplete-sncndn/") + FN[i], cls, J(w).f("sn", sn).f("cn", cn).f("dn", dn).f("got", got3[i]).str("want", ref::qstr(W3[i])).f("err_eps", e));
      }
      // --- periodic part: pi I(phi) / (2 I_c) - phi, period pi, odd.  Reference at the angle in (-pi/2, pi/2] equivalent mod pi
      if (!div && fabsq(phr) > 1e-290Q) {
        q128 pr = phr; if (signbitq((q128)cn)) pr = phr - copysignq(M_PIq, phr);      // the library flips (sn,cn) -> (-sn,-cn)
        QV<6> Wp = R.at(pr);
        q128 want = (M_PIq / 2) * Wp[i] / R.C[i] - pr;
        // absolute accuracy: the two terms are O(|pr|) each
        double c0 = i >= 3 ? (double)((fabsq(R.C[0]) + fabsq(R.C[i] - R.C[0])) / fabsq(R.C[i])) : 1;
        double e = (double)(fabsq((q128)gotd[i] - want) / (fabsq(pr) + fabsq(want))) / EPS / std::max(std::max(cc3, c0), 1.0);
        c.obs(std::string("delta") + FN[i] + " abs err / (|phi|+|delta|) [eps]", e, J(w).f("got", gotd[i]).str("want", ref::qstr(want)));
        if (!(e <= K_ELL)) VIOL(c, std::string("oracle:C15/elliptic/delta/") + FN[i], cls, J(w).f("sn", sn).f("cn", cn).f("dn", dn).f("got", gotd[i]).str("want", ref::qstr(want)).f("err_eps", e));
      }
    }
    // oddness (bit-exact) of the real-argument and the sn-cn-dn overloads
    if (!(vh::same_bits(L.F(-phi), -got[0]) && vh::same_bits(L.E(-phi), -got[1]) && vh::same_bits(L.Pi(-phi), -got[3]) && vh::same_bits(L.H(-sn, cn, dn), -got3[5])))
      if (!(std::isnan(got[0]) || std::isnan(got[3]))) VIOL(c, "law:C15/elliptic/odd", cls, J(jobj(O)).f("phi", phi));
    // documented reductions for alpha2 = 0: Pi = F, G = E, H = F - D
    if (O.a2 == 0 && !(R.ksing && beyond)) {
      double e1 = relerr(got[3], (q128)got[0]), e2 = relerr(got[4], (q128)got[1]);
      double cg = got[4] != 0 ? (std::fabs(got[0]) + std::fabs(got[4] - got[0])) / std::fabs(got[4]) : 1;    // G = R_F-term - R_J-term
      if (!(e1 <= 2 * K_ELL && e2 <= 2 * K_ELL * cg)) VIOL(c, "law:C15/elliptic/alpha2=0-reductions", cls, J(jobj(O)).f("phi", phi).f("Pi", got[3]).f("F", got[0]).f("G", got[4]).f("E", got[1]));
    }
    // Ed (degrees): E at the angle given in degrees, any number of turns
    if (rep == 0) {
      double ang = r.coin() ? r.uniform(-7200, 7200) : 90.0 * r.range(-80, 80) + r.sign() * r.logu(1e-14, 1);
      q128 want = R.at((q128)ang * (M_PIq / 180))[ref::EL_E];
      double g = L.Ed(ang), e = relerr(g, want);
      if (O.k2 != 0 || true) { c.count("Ed/" + O.cls, vh::hmix(vh::hmix(103, O.k2), ang)); c.obs("Ed(deg) rel err [eps]", e, J(jobj(O)).f("ang", ang).f("got", g).str("want", ref::qstr(want)));
        if (!(e <= K_ELL)) VIOL(c, "oracle:C15/elliptic/Ed", "Ed/" + O.cls, J(jobj(O)).f("ang", ang).f("got", g).str("want", ref::qstr(want)).f("err_eps", e)); }
    }
    (void)n;
  }
}

// ================================================================ section: reset (history on ONE object)
// EllipticFunction::Reset(k2, alpha2[, kp2, alphap2]) must leave the object in exactly the state of a freshly constructed one, whatever
// it held before: sequences of Reset calls whose consecutive parameter sets collide in one argument but not in its complement (k2 = 1.0
// exactly with kp2 = 1e-17 then 1e-20: possible only through the 4-argument form), repeat, or alternate between the 2- and 4-argument
// forms; after every call all complete integrals, the inspectors and a few incomplete integrals / Jacobi functions are compared
// BIT FOR BIT with a fresh object (added after seeded change C15-r4s1: stale K, E, D kept when only kp2 changed).
static void sec_reset(Ctx& c, uint64_t) {
  vh::Rng& r = c.rng;
  struct PS { double k2, a2, kp2, ap2; bool four; };
  auto tiny = [&]() { static const double t[] = {0.0, 1e-17, 1e-20, 1e-30, 3e-17, 1e-300}; return t[r.below(6)]; };
  auto gen = [&](const PS* prev) -> PS {
    PS p; int k = (int)r.below(8);
    if (prev && k < 3) { p = *prev; p.four = true;                    // collide with the previous set in k2 and/or alpha2, differ in a complement
      if (k == 0 || k == 2) { p.k2 = 1; p.kp2 = tiny(); } if (k == 1 || k == 2) { p.a2 = 1; p.ap2 = tiny(); }
      if (!prev->four) { p.kp2 = k == 1 ? 1 - p.k2 : p.kp2; p.ap2 = k == 0 ? 1 - p.a2 : p.ap2; } return p; }
    if (prev && k == 3) return *prev;                                  // identical parameters again
    if (k < 6) { p.four = false; p.k2 = r.coin(0.3) ? LADDER[r.below(NL)] : r.uniform(-4, 1); p.a2 = r.coin(0.3) ? 0.0 : r.coin(0.3) ? LADDER[r.below(NL)] : r.uniform(-4, 1); p.kp2 = 1 - p.k2; p.ap2 = 1 - p.a2; return p; }
    p.four = true; p.kp2 = r.coin() ? tiny() : r.logu(1e-12, 2); p.k2 = (double)(1 - (q128)p.kp2); p.ap2 = r.coin() ? tiny() : r.logu(1e-12, 2); p.a2 = (double)(1 - (q128)p.ap2); return p;
  };
  PS p0 = gen(nullptr);
  std::unique_ptr<EllipticFunction> L(r.coin(0.3) ? new EllipticFunction() : p0.four ? new EllipticFunction(p0.k2, p0.a2, p0.kp2, p0.ap2) : new EllipticFunction(p0.k2, p0.a2));
  PS prev = p0; int n = r.range(2, 7); std::string hist; uint64_t h = 107;
  for (int i = 0; i < n; ++i) {
    PS p = gen(&prev);
    if (p.four) L->Reset(p.k2, p.a2, p.kp2, p.ap2); else L->Reset(p.k2, p.a2);
    EllipticFunction F = p.four ? EllipticFunction(p.k2, p.a2, p.kp2, p.ap2) : EllipticFunction(p.k2, p.a2);
    char b[160]; std::snprintf(b, sizeof b, "%s(%.17g,%.17g,%.17g,%.17g) ", p.four ? "Reset4" : "Reset2", p.k2, p.a2, p.kp2, p.ap2); if (hist.size() < 1200) hist += b;
    h = vh::hmix(vh::hmix(vh::hmix(vh::hmix(h, p.k2), p.a2), p.kp2), p.ap2);
    double phi = r.uniform(-4, 4), x = r.uniform(-3, 3);
    double sn1, cn1, dn1, sn2, cn2, dn2; L->sncndn(x, sn1, cn1, dn1); F.sncndn(x, sn2, cn2, dn2);
    const double a[] = {L->K(), L->E(), L->D(), L->KE(), L->Pi(), L->G(), L->H(), L->k2(), L->kp2(), L->alpha2(), L->alphap2(), L->F(phi), L->E(phi), L->D(phi), L->Pi(phi), L->G(phi), L->H(phi), L->Ed(phi * 60), L->am(x), sn1, cn1, dn1};
    const double f[] = {F.K(), F.E(), F.D(), F.KE(), F.Pi(), F.G(), F.H(), F.k2(), F.kp2(), F.alpha2(), F.alphap2(), F.F(phi), F.E(phi), F.D(phi), F.Pi(phi), F.G(phi), F.H(phi), F.Ed(phi * 60), F.am(x), sn2, cn2, dn2};
    static const char* nm[] = {"K", "E", "D", "KE", "Pi", "G", "H", "k2", "kp2", "alpha2", "alphap2", "F(phi)", "E(phi)", "D(phi)", "Pi(phi)", "G(phi)", "H(phi)", "Ed", "am", "sn", "cn", "dn"};
    for (int q = 0; q < 22; ++q)
      if (!(vh::same_bits(a[q], f[q]) || (std::isnan(a[q]) && std::isnan(f[q])))) {
        c.viol(std::string("history:C15/elliptic/Reset-differs-from-fresh-object/") + nm[q], "reset-history", J().str("history", hist).i("call", i).str("quantity", nm[q]).f("after_reset", a[q]).f("fresh", f[q]).f("phi", phi).f("x", x));
        break; }
    prev = p;
  }
  c.count("reset-history/" + std::to_string(n) + "-calls", h); c.event("Reset histories judged against fresh objects (bit exact)");
  if (c.want_sample("reset-history")) c.sample("reset-history", J().str("history", hist));
}

// ================================================================ section: identities (Legendre relation, complementary object)
static void sec_ident(Ctx& c, uint64_t) {
  vh::Rng& r = c.rng;
  double k2 = r.coin(0.3) ? r.pick(LADDER) : (r.coin() ? r.u() : (r.coin() ? r.logu(1e-300, 1) : 1 - r.logu(1e-16, 1)));
  if (!(k2 > 0 && k2 < 1)) k2 = 0.5;
  double kp2 = (double)(1 - (q128)k2);
  EllipticFunction a(k2, 0, kp2, 1), b(kp2, 0, k2, 1);
  std::string cls = std::string("legendre-relation/") + kcls(k2, kp2); c.count(cls, vh::hmix(111, k2));
  // E K' + E' K - K K' = pi/2 ; evaluate as E K' - K (K' - E') = E K' - K k'^2 D'  to avoid the cancellation of the textbook form
  q128 lhs = (q128)a.E() * b.K() + (q128)b.E() * a.K() - (q128)a.K() * b.K();
  q128 mag = fabsq((q128)a.E() * b.K()) + fabsq((q128)b.E() * a.K()) + fabsq((q128)a.K() * b.K());
  double e = (double)(fabsq(lhs - M_PIq / 2) / mag) / EPS;
  c.obs("Legendre relation residual / sum of |terms| [eps]", e, J().f("k2", k2));
  if (!(e <= 8)) VIOL(c, "law:C15/elliptic/legendre-relation", cls, J().f("k2", k2).f("K", a.K()).f("E", a.E()).f("Kp", b.K()).f("Ep", b.E()));
  // KE = K - E = k2 D
  double e2 = relerr(a.KE(), (q128)a.K() - (q128)a.E());
  double cond = (double)(((q128)a.K() + (q128)a.E()) / ((q128)a.K() - (q128)a.E()));
  if (!(e2 <= 4 * cond)) VIOL(c, "law:C15/elliptic/KE-consistency", cls, J().f("k2", k2).f("KE", a.KE()).f("K", a.K()).f("E", a.E()));
  // constructor argument checks
  if ((c.idx % 16) == 0) {
    auto throws = [](double k2_, double a2_, double kp2_, double ap2_) { try { EllipticFunction z(k2_, a2_, kp2_, ap2_); (void)z; return false; } catch (const GeographicErr&) { return true; } };
    double big = 1 + r.logu(1e-15, 10);
    bool ok = throws(big, 0, 0.5, 1) && throws(0.5, big, 0.5, 0.5) && throws(0.5, 0, -r.logu(1e-300, 10), 1) && throws(0.5, 0.5, 0.5, -r.logu(1e-300, 10));
    bool ok2; try { EllipticFunction z(vh::ulps(1.0, 1), 0); (void)z; ok2 = false; } catch (const GeographicErr&) { ok2 = true; }
    bool ok3; try { EllipticFunction z(0.5, vh::ulps(1.0, 1)); (void)z; ok3 = false; } catch (const GeographicErr&) { ok3 = true; }
    c.count("ctor/illegal-parameters-throw", vh::hmix(112, big), true);
    if (!(ok && ok2 && ok3)) VIOL(c, "law:C15/elliptic/ctor-accepts-illegal-parameter", "ctor", J().f("big", big));
    // Reset gives the same state as a fresh object
    EllipticFunction z(0.3, 0.1); z.Reset(k2, 0, kp2, 1);
    if (!(vh::same_bits(z.K(), a.K()) && vh::same_bits(z.E(), a.E()) && vh::same_bits(z.D(), a.D()) && vh::same_bits(z.H(), a.H()) && vh::same_bits(z.F(0.7), a.F(0.7))))
      VIOL(c, "law:C15/elliptic/Reset-differs-from-fresh-object", "ctor", J().f("k2", k2));
  }
}

// ================================================================ section: jacobi
static void sec_jacobi(Ctx& c, uint64_t) {
  vh::Rng& r = c.rng; std::unique_ptr<Obj> own; Obj* po;
  do { po = pick_obj(r, own); } while (false);
  Obj& O = *po; EllRef& R = *O.R; const EllipticFunction& L = *O.L;
  double K = L.K();
  for (int rep = 0; rep < 4; ++rep) {
    double x; const char* xc;
    double Kf = std::isfinite(K) ? K : 3.0;
    switch (r.below(6)) {
    case 0: xc = "x-tiny"; x = r.sign() * r.logu(1e-300, 1e-6); break;
    case 1: xc = "x-near-multiple-of-K"; x = r.range(-80, 80) * Kf * (1 + r.sign() * r.logu(1e-16, 1e-3)); break;
    case 2: case 3: xc = "x-many-periods"; x = r.uniform(-80, 80) * Kf; break;
    default: xc = "x-first-quarter-period"; x = r.uniform(-1, 1) * Kf; break;
    }
    if (!std::isfinite(K)) x = r.coin(0.3) ? r.sign() * r.logu(1e-300, 40) : r.uniform(-40, 40);
    std::string cls = "jacobi/" + kcls(O.k2, O.kp2) + (O.four ? ",4-arg-ctor/" : "/") + xc;
    c.count(cls, vh::hmix(vh::hmix(vh::hmix(121, O.k2), O.kp2), x));
    q128 sn, cn, dn, am;
    try { am = R.am((q128)x, sn, cn, dn); } catch (const std::exception& e) { c.herr(std::string("oracle am failed: ") + e.what()); continue; }
    // conditioning: the argument is scaled by pi/(2K) etc. inside: delta x ~ eps |x|  ->  delta phi = dn * delta x
    q128 ax = fabsq((q128)x), k2a = fabsq(R.k2);
    q128 tsn = fabsq(sn) + fabsq(cn) * dn * ax, tcn = fabsq(cn) + fabsq(sn) * dn * ax, tdn = dn + k2a * fabsq(sn * cn) * ax, tam = fabsq(am) + dn * ax;
    J w(jobj(O)); w.f("x", x).str("x_class", xc);
    // regimes reported separately: modulus close to 1 (k'^2 < 1e-6) or, equivalently after Sala's imaginary-modulus
    // transformation, k^2 < -10; and tiny |x| for sncndn
    bool hard = (O.kp2 < 1e-4 && O.kp2 != 0) || O.k2 < -10;
    std::string kc = kcls(O.k2, O.kp2);
    auto judge = [&](const char* what, double got, q128 want, q128 tol) {
      double e = tol == 0 ? ((q128)got == want ? 0 : HUGE_VAL) : (double)(fabsq((q128)got - want) / tol) / EPS;
      c.obs(std::string("jacobi ") + what + " err / (|value| + conditioning) [eps] (" + kc + ")", e, J(w).f("got", got).str("want", ref::qstr(want)));
      if (!(e <= K_JAC)) VIOL(c, std::string("oracle:C15/elliptic/jacobi/") + what, cls, J(w).f("got", got).str("want", ref::qstr(want)).f("err_eps", e)); };
    // am() regime: modulus close to 1 (k'^2 < 1e-4) or k^2 < -10 (imaginary-modulus transformation lands near 1).  sncndn is NOT in it.
    std::unique_ptr<Regime> rgam(new Regime(hard ? "regime:C15/elliptic/am/k2->1(kp2<1e-4)-or-k2<-10" : ""));
    double s1, c1, d1, a1 = L.am(x, s1, c1, d1), a0 = L.am(x);
    judge("am", a1, am, tam); judge("am(x,sn,cn,dn).sn", s1, sn, tsn); judge("am(x,sn,cn,dn).cn", c1, cn, tcn); judge("am(x,sn,cn,dn).dn", d1, dn, tdn);
    if (!vh::same_bits(a0, a1)) VIOL(c, "law:C15/elliptic/jacobi/am-overloads-differ", cls, w);
    // identities on the returned triple
    { double i1 = std::fabs(s1 * s1 + c1 * c1 - 1) / EPS, i2 = (double)(fabsq((q128)d1 * d1 + (q128)O.k2 * s1 * s1 - 1) / (1 + k2a * s1 * s1)) / EPS;
      c.obs("jacobi am-triple |sn^2+cn^2-1| [eps]", i1, w); c.obs("jacobi am-triple |dn^2+k2 sn^2-1| / (1+|k2| sn^2) [eps]", i2, w);
      if (!(i1 <= 4 && i2 <= 4)) VIOL(c, "law:C15/elliptic/jacobi/am-triple-identities", cls, J(w).f("sn", s1).f("cn", c1).f("dn", d1)); }
    rgam.reset();
    // sncndn: documented for 0 <= k <= 1 only
    if (O.k2 >= 0) {
      Regime rgs_(std::fabs(x) < 1e-150 ? "regime:C15/elliptic/sncndn/|x|<1e-150" : "");
      double s2, c2, d2; L.sncndn(x, s2, c2, d2);
      bool tinynan0 = std::fabs(x) < 1e-150 && (std::isnan(s2) || std::isnan(d2) || (s2 == 0 && c2 == 0));
      if (!tinynan0) { judge("sncndn.sn", s2, sn, tsn); judge("sncndn.cn", c2, cn, tcn); judge("sncndn.dn", d2, dn, tdn); }
      double i1 = std::fabs(s2 * s2 + c2 * c2 - 1) / EPS, i2 = std::fabs(d2 * d2 + O.k2 * s2 * s2 - 1) / EPS;
      c.obs("jacobi sncndn |sn^2+cn^2-1| [eps]", i1, w); c.obs("jacobi sncndn |dn^2+k2 sn^2-1| [eps]", i2, w);
      bool tinynan = std::fabs(x) < 1e-150 && (std::isnan(s2) || std::isnan(d2) || (s2 == 0 && c2 == 0));
      if (tinynan) VIOL(c, "oracle:C15/elliptic/jacobi/sncndn/nan", cls, J(w).f("sn", s2).f("cn", c2).f("dn", d2));
      else if (!(i1 <= 4 && i2 <= 4)) VIOL(c, "law:C15/elliptic/jacobi/sncndn-identities", cls, J(w).f("sn", s2).f("cn", c2).f("dn", d2));
      // oddness / evenness, bit-exact
      double s3, c3, d3; L.sncndn(-x, s3, c3, d3);
      if (!tinynan && !(vh::same_bits(s3, -s2) && vh::same_bits(c3, c2) && vh::same_bits(d3, d2))) VIOL(c, "law:C15/elliptic/jacobi/sncndn-parity", cls, w);
      // F(sn,cn,dn) inverts sncndn within one period
      if (std::isfinite(K) && std::fabs(x) < K && !tinynan && !hard) {
        double back = L.F(s2, c2, d2); double e = (double)(fabsq((q128)back - (q128)x) / (ax + (q128)1e-300)) / EPS;
        c.obs("F(sncndn(x)) round trip rel err [eps]", e, w);
        if (!(e <= 4 * K_JAC)) VIOL(c, "law:C15/elliptic/jacobi/F-of-sncndn", cls, J(w).f("back", back));
      }
    }
    // am is the inverse of F: F(am(x)) = x
    if (std::isfinite(K) && !hard) {
      double back = L.F(a1); double e = (double)(fabsq((q128)back - (q128)x) / (ax + (q128)1e-300)) / EPS;
      // dF/dphi = 1/dn : the rounding of am (eps |am|) is amplified by 1/dn
      double cond = 1 + (double)(fabsq(am) / (dn * (ax + (q128)1e-300)));
      c.obs("F(am(x)) round trip rel err / conditioning [eps]", e / cond, w);
      if (!(e <= 4 * K_JAC * cond)) VIOL(c, "law:C15/elliptic/jacobi/F-of-am", cls, J(w).f("am", a1).f("back", back));
    }
  }
}

// ================================================================ section: einv
static void sec_einv(Ctx& c, uint64_t) {
  vh::Rng& r = c.rng; std::unique_ptr<Obj> own; Obj& O = *pick_obj(r, own);
  EllRef& R = *O.R; const EllipticFunction& L = *O.L; double Ec = L.E();
  for (int rep = 0; rep < 4; ++rep) {
    double x; const char* xc;
    switch (r.below(5)) {
    case 0: xc = "x-tiny"; x = r.sign() * r.logu(1e-300, 1e-6); break;
    case 1: xc = "x-near-multiple-of-E"; x = r.range(-80, 80) * Ec * (1 + r.sign() * r.logu(1e-16, 1e-3)); break;
    case 2: xc = "x-many-periods"; x = r.uniform(-80, 80) * Ec; break;
    default: xc = "x-first-quarter-period"; x = r.uniform(-1, 1) * Ec; break;
    }
    std::string cls = "Einv/" + kcls(O.k2, O.kp2) + (O.four ? ",4-arg-ctor/" : "/") + xc;
    c.count(cls, vh::hmix(vh::hmix(vh::hmix(131, O.k2), O.kp2), x));
    double phi = L.Einv(x);
    // backward check through the defining integral: E_ref(phi) - x, mapped to phi by dE/dphi = Delta
    q128 Ew = R.at((q128)phi)[ref::EL_E]; q128 s, co; sincosq((q128)phi, &s, &co); q128 dl = R.delta(s, co);
    J w(jobj(O)); w.f("x", x).f("phi", phi).str("x_class", xc);
    if (x == 0) { if (phi != 0) VIOL(c, "oracle:C15/elliptic/Einv", cls, w); }
    else if (dl > 0) {
      q128 dphi = (Ew - (q128)x) / dl;
      q128 tol = fabsq((q128)phi) + fabsq((q128)x) / dl;        // rounding of phi itself + conditioning w.r.t. x
      double e = (double)(fabsq(dphi) / tol) / EPS;
      c.obs("Einv(x): error in phi / (|phi| + |x|/Delta) [eps]", e, J(w).str("E_ref_of_phi", ref::qstr(Ew)));
      // Einv stops its Newton iteration on an absolute tolerance sqrt(eps/100): with a large |k2| (strong curvature) and a small
      // result the last step leaves a relative error above round-off
      Regime rge_(O.k2 < -10 && std::fabs(phi) < 1e-3 ? "regime:C15/elliptic/Einv/k2<-10-small-phi" : "");
      if (!(e <= K_ELL)) VIOL(c, "oracle:C15/elliptic/Einv", cls, J(w).str("E_ref_of_phi", ref::qstr(Ew)).f("err_eps", e));
    } else {
      // k2 = 1 at phi = pi/2 (mod pi): E has zero slope; judge the residual in E
      double e = relerr((double)Ew, (q128)x); c.obs("Einv(x) at Delta=0: residual in E [eps]", e, w);
      if (!(e <= 64)) VIOL(c, "oracle:C15/elliptic/Einv/k2=1-turning-point", cls, J(w).str("E_ref_of_phi", ref::qstr(Ew)));
    }
    // deltaEinv(stau, ctau) = Einv(tau 2E/pi) - tau, period pi
    double tau = r.coin(0.2) ? r.sign() * r.logu(1e-300, 1e-3) : r.uniform(-M_PI, M_PI), st = std::sin(tau), ct = std::cos(tau);
    double de = L.deltaEinv(st, ct);
    q128 tr = atan2q((q128)st, (q128)ct); if (signbitq((q128)ct)) tr -= copysignq(M_PIq, tr);
    q128 ph2 = tr + (q128)de, E2 = R.at(ph2)[ref::EL_E], target = tr * R.C[ref::EL_E] / (M_PIq / 2);
    q128 s2, c2; sincosq(ph2, &s2, &c2); q128 dl2 = R.delta(s2, c2);
    if (dl2 > 0) {
      double e = (double)(fabsq((E2 - target) / dl2) / (fabsq(tr) + fabsq(target) / dl2 + (q128)1e-300)) / EPS;
      c.count("deltaEinv/" + kcls(O.k2, O.kp2), vh::hmix(vh::hmix(132, O.k2), tau));
      c.obs("deltaEinv: error in phi / (|tau| + |x|/Delta) [eps]", e, J(jobj(O)).f("tau", tau).f("got", de));
      // Einv stops its Newton iteration on an absolute tolerance sqrt(eps/100): for small results with a large |k2| (strong curvature)
      // the last step leaves a relative error above round-off
      Regime rge_(O.k2 < -10 && std::fabs(tau) < 1e-3 ? "regime:C15/elliptic/Einv/k2<-10-small-phi" : "");
      if (!(e <= K_ELL)) VIOL(c, "oracle:C15/elliptic/deltaEinv", cls, J(jobj(O)).f("tau", tau).f("stau", st).f("ctau", ct).f("got", de).f("err_eps", e));
    }
  }
}

// ================================================================ section: carlson
static double gen_arg(vh::Rng& r, int mode) {
  switch (mode) { case 0: return r.logu(1e-3, 1e3); case 1: return r.logu(1e-30, 1e30); case 2: return r.logu(1e-90, 1e90); default: return r.logu(1e-300, 1e300); }
}
static void sec_carlson(Ctx& c, uint64_t idx) {
  vh::Rng& r = c.rng; int mode = (int)r.below(4); static const char* MN[] = {"args-1e+-3", "args-1e+-30", "args-1e+-90", "args-1e+-300"};
  double x = gen_arg(r, mode), y = gen_arg(r, mode), z = gen_arg(r, mode), p = gen_arg(r, mode);
  int pat = (int)r.below(8); const char* pn = "generic";
  if (pat == 0) { x = 0; pn = "x=0"; } else if (pat == 1) { y = x; pn = "x=y"; } else if (pat == 2) { y = x; z = x; p = x; pn = "all-equal"; } else if (pat == 3) { y = vh::ulps(x, r.range(1, 100)); pn = "x~y"; }
  else if (pat == 4) { p = z; pn = "p=z"; }
  int kind = (int)(idx % 7);
  static const char* KN[] = {"RF3", "RF2", "RC", "RG3", "RG2", "RJ", "RD"};
  std::string cls = std::string("carlson/") + KN[kind] + "/" + MN[mode] + "/" + pn;
  c.count(cls, vh::hmix(vh::hmix(vh::hmix(vh::hmix(vh::hmix(141, x), y), z), p), (uint64_t)kind));
  double got; q128 want; J w; w.f("x", x).f("y", y);
  bool wide = mode >= 2;
  switch (kind) {
  case 0: got = EllipticFunction::RF(x, y, z); want = ref::carlson(ref::C_RF, x, y, z); w.f("z", z); break;
  case 1: if (x == 0) x = gen_arg(r, mode); got = EllipticFunction::RF(x, y); want = ref::carlson(ref::C_RF, x, y, 0); w = J().f("x", x).f("y", y); break;
  case 2: got = EllipticFunction::RC(x, y); want = ref::carlson(ref::C_RC, x, y); break;
  case 3: got = EllipticFunction::RG(x, y, z); want = ref::carlson(ref::C_RG, x, y, z); w.f("z", z); break;
  case 4: if (x == 0) x = gen_arg(r, mode); got = EllipticFunction::RG(x, y); want = ref::carlson(ref::C_RG, x, y, 0); w = J().f("x", x).f("y", y); break;
  case 5: got = EllipticFunction::RJ(x, y, z, p); want = ref::carlson(ref::C_RJ, x, y, z, p); w.f("z", z).f("p", p); break;
  default: got = EllipticFunction::RD(x, y, z); want = ref::carlson(ref::C_RD, x, y, z); w.f("z", z); break;
  }
  double amin = HUGE_VAL, amax = 0; { double aa[4] = {x, y, kind == 2 || kind == 1 || kind == 4 ? y : z, kind == 5 ? p : y}; for (double v : aa) { if (v > 0 && v < amin) amin = v; if (v > amax) amax = v; } }
  double spread = amax / amin; const char* sb = spread <= 1e3 ? "spread<=1e3" : spread <= 1e6 ? "spread<=1e6" : spread <= 1e12 ? "spread<=1e12" : spread <= 1e30 ? "spread<=1e30" : "spread>1e30";
  bool bigmag = amax > 1e75 || amin < 1e-75;      // products of three arguments leave the double range
  double e = relerr(got, want);
  bool unrepresentable = fabsq(want) > 1e290Q || fabsq(want) < 1e-290Q;      // results next to the overflow/underflow thresholds are not judged
  w.f("got", got).str("want", ref::qstr(want)).f("err_eps", e);
  if (c.want_sample(cls)) c.sample(cls, w);
  c.obs(std::string("carlson ") + KN[kind] + " rel err [eps] (" + sb + (bigmag ? ", magnitudes beyond 1e+-75)" : ")"), unrepresentable ? 0 : e, w);
  // three-argument R_G is documented (Carlson 1.7) as [z R_F - (x-z)(y-z) R_D/3 + sqrt(xy/z)]/2: cancellation condition number of that sum
  double kcar = K_CARLSON;
  if (kind == 3 && x > 0 && y > 0 && z > 0 && !bigmag && spread <= 1e3) {
    q128 t1 = (q128)z * ref::carlson(ref::C_RF, x, y, z), t2 = ((q128)x - z) * ((q128)y - z) * ref::carlson(ref::C_RD, x, y, z) / 3, t3 = sqrtq((q128)x * y / z);
    double cnd = (double)((fabsq(t1) + fabsq(t2) + fabsq(t3)) / (2 * fabsq(want)));
    c.obs("carlson RG3 rel err / cancellation conditioning of (1.7) [eps] (spread<=1e3)", e / cnd, w); kcar *= cnd; }
  // regimes (inputs only, fixed order): some argument beyond 1e+-75 (products leave the double range); R_J / R_G with max/min argument ratio > 1e3
  // (R_F, both forms, and R_D are accurate for any magnitudes on the unchanged tree: they stay outside the overflow regime)
  bool ovf_kind = kind == 2 || kind == 3 || kind == 4 || kind == 5;
  Regime rgc_(bigmag && ovf_kind ? "regime:C15/elliptic/carlson/magnitudes-beyond-1e+-75" : (spread > 1e3 && kind == 5 ? "regime:C15/elliptic/carlson/RJ/argument-spread>1e3" : (spread > 1e3 && (kind == 3 || kind == 4) ? RGKEY : "")));
  if (!(e <= kcar) && !unrepresentable) VIOL(c, std::string("oracle:C15/elliptic/carlson/") + KN[kind], cls, w);
  // symmetry and homogeneity laws (moderate arguments)
  if (!wide && spread <= 1e3) {
    if (kind == 0) { double a = EllipticFunction::RF(y, z, x), b = EllipticFunction::RF(z, x, y); if (!(relerr(a, (q128)got) <= 8 && relerr(b, (q128)got) <= 8)) VIOL(c, "law:C15/elliptic/carlson/RF-symmetry", cls, w);
      double s = std::ldexp(1.0, 2 * r.range(-20, 20)), h = EllipticFunction::RF(x * s, y * s, z * s) * std::sqrt(s); if (!(relerr(h, (q128)got) <= 4)) VIOL(c, "law:C15/elliptic/carlson/RF-homogeneity", cls, J(w).f("scale", s)); }
    if (kind == 3 && spread <= 10) { double a = EllipticFunction::RG(y, z, x), b = EllipticFunction::RG(z, x, y); if (!(relerr(a, (q128)got) <= 32 && relerr(b, (q128)got) <= 32)) VIOL(c, "law:C15/elliptic/carlson/RG-symmetry", cls, J(w).f("perm1", a).f("perm2", b)); }
    if (kind == 5) { double a = EllipticFunction::RJ(y, z, x, p); if (!(relerr(a, (q128)got) <= 16)) VIOL(c, "law:C15/elliptic/carlson/RJ-symmetry", cls, J(w).f("perm", a)); }
    if (kind == 6) { double a = EllipticFunction::RD(y, x, z); if (!(relerr(a, (q128)got) <= 8)) VIOL(c, "law:C15/elliptic/carlson/RD-symmetry", cls, J(w).f("perm", a));
      if (x > 0) { double j = EllipticFunction::RJ(x, y, z, z); if (!(relerr(j, (q128)got) <= 16)) VIOL(c, "law:C15/elliptic/carlson/RD=RJ(x,y,z,z)", cls, J(w).f("RJ", j)); } }
    if (kind == 2) { double f = EllipticFunction::RF(x, y, y); if (!(relerr(f, (q128)got) <= 8)) VIOL(c, "law:C15/elliptic/carlson/RC=RF(x,y,y)", cls, J(w).f("RF", f)); }
  }
}

// ================================================================ section: selftest (oracle vs Boost.Math; failure = harness error)
static void sec_selftest(Ctx& c, uint64_t idx) {
  vh::Rng& r = c.rng;
  c.count("oracle-selftest/boost", vh::hmix(151, (uint64_t)idx), true);
  auto bad = [&](const char* what, double v, double a, double b) { char buf[240]; std::snprintf(buf, sizeof buf, "oracle self-test failed: %s rel diff %.3g (params %.17g %.17g)", what, v, a, b); c.herr(buf); };
  const double tol = 3e-17;      // Boost in 80-bit long double
  if (idx % 2 == 0) {
    double k2 = r.coin(0.3) ? 0.5 : r.uniform(0, 0.999), a2 = r.coin(0.3) ? 0.0 : r.uniform(-5, 0.99);
    EllRef R(k2, a2);
    for (int i = 0; i < 6; ++i) {
      double phi = r.uniform(-1.57, 1.57) * (i % 3 == 0 ? 7 : 1);
      QV<6> W = R.at((q128)phi);
      long double b[4] = {ref::BoostEll::F(k2, phi), ref::BoostEll::E(k2, phi), ref::BoostEll::D(k2, phi), ref::BoostEll::Pi(k2, a2, phi)};
      int ix[4] = {0, 1, 2, 3};
      for (int j = 0; j < 4; ++j) { double v = (double)(fabsq((q128)b[j] - W[ix[j]]) / fabsq(W[ix[j]])); if (v > tol * 8) bad(FN[ix[j]], v, k2, phi); }
      // G and H from their documented expressions in F and Pi (a2 != 0)
      if (a2 != 0) {
        q128 G = (q128)k2 / a2 * W[0] + (1 - (q128)k2 / a2) * W[3], H = W[0] / a2 + (1 - 1 / (q128)a2) * W[3];
        double vg = (double)(fabsq(G - W[4]) / (fabsq((q128)k2 / a2 * W[0]) + fabsq(W[3]))), vh_ = (double)(fabsq(H - W[5]) / (fabsq(W[0] / a2) + fabsq(W[3])));
        if (vg > 1e-28) bad("G = k2/a2 F + (1-k2/a2) Pi", vg, k2, a2); if (vh_ > 1e-28) bad("H = F/a2 + (1-1/a2) Pi", vh_, k2, a2);
      }
      // Jacobi
      double x = r.uniform(-3, 3) * (double)R.C[0]; q128 sn, cn, dn; R.am((q128)x, sn, cn, dn);
      long double bc, bd, bs = ref::BoostEll::sn(k2, x, bc, bd);
      double v = (double)std::max(std::max(fabsq(bs - sn), fabsq(bc - cn)), fabsq(bd - dn)); if (v > 5e-15) bad("jacobi sn/cn/dn", v, k2, x);
    }
  } else {
    double x = r.logu(1e-20, 1e20), y = r.logu(1e-20, 1e20), z = r.logu(1e-20, 1e20), p = r.logu(1e-20, 1e20); if (r.coin(0.2)) x = 0;
    double v;
    v = (double)(fabsq(ref::carlson(ref::C_RF, x, y, z) / (q128)boost::math::ellint_rf((long double)x, (long double)y, (long double)z) - 1)); if (v > tol * 8) bad("RF", v, x, y);
    v = (double)(fabsq(ref::carlson(ref::C_RC, x, y) / (q128)boost::math::ellint_rc((long double)x, (long double)y) - 1)); if (v > tol * 8) bad("RC", v, x, y);
    v = (double)(fabsq(ref::carlson(ref::C_RD, x, y, z) / (q128)boost::math::ellint_rd((long double)x, (long double)y, (long double)z) - 1)); if (v > tol * 16) bad("RD", v, x, y);
    v = (double)(fabsq(ref::carlson(ref::C_RJ, x, y, z, p) / (q128)boost::math::ellint_rj((long double)x, (long double)y, (long double)z, (long double)p) - 1)); if (v > tol * 64) bad("RJ", v, x, y);
    v = (double)(fabsq(ref::carlson(ref::C_RG, x, y, z) / (q128)boost::math::ellint_rg((long double)x, (long double)y, (long double)z) - 1)); if (v > tol * 16) bad("RG", v, x, y);
  }
}

int main(int argc, char** argv) {
  std::vector<Section> S;
  S.push_back({"legendre", 5000, 60000, true, sec_legendre});
  S.push_back({"reset", 3000, 60000, true, sec_reset});
  S.push_back({"ident", 4000, 80000, true, sec_ident});
  S.push_back({"jacobi", 4000, 40000, true, sec_jacobi});
  S.push_back({"einv", 4000, 40000, true, sec_einv});
  S.push_back({"carlson", 10000, 120000, true, sec_carlson});
  S.push_back({"selftest", 400, 4000, false, sec_selftest});
  return vh::run_sections(argc, argv, S);
}
