// C11 — polar stereographic, Lambert conformal conic (incl. Mercator / polar limits), Albers equal
// area (incl. cylindrical / azimuthal limits).
// Monitors evaluated next to every library call:
//   oracle : Forward vs binary128 Snyder closed forms (oracle/ref_proj.hpp), ground metric;
//            OriginLatitude()/CentralScale() vs REF latitude of minimum scale and the scale there;
//            Reverse of arbitrary (x,y) re-projected by REF
//   law    : Reverse o Forward = id; (gamma,k) = rotation/magnification of the finite-difference
//            Jacobian of the library's own Forward (conformal) resp. det = 1, E-W = k, N-S = 1/k
//            (Albers); k = k1 on the standard parallels; equivalent constructors give the same map;
//            SetScale gives the requested scale and leaves a consistent projection
//   contract: documented exceptions for inadmissible parameters
//   hook   : GEOGRAPHICLIB_PANIC (convergence failure) events raised inside constructor / Forward / Reverse
//
// Tolerance model (documented figure x K_safety 4, in the author's error measure):
//   position: ground distance = map error / local scale (Albers: E-W / k, N-S * k), 10 nm x 4 x a/a_WGS84 x eccfac with
//             eccfac = max(1, (1-f)^2, (1-f)^-2); Albers map coordinates carry a representation/conditioning floor
//             (PtScope) because the equal-area map shrinks N-S lengths by 1/k (one ulp of y = k ulps on the ground);
//   k, gamma: 10 nm / a_WGS84 x 4 x eccfac, times (1+|ln k/k0|) resp. (1+|gamma|) (k = exp(n psi)/m, gamma = n lam);
//   lat0, k0: documented 4.5e-14 deg / 7e-15 x 4 x eccfac inside the documented domain of the two-parallel constructors;
//   points whose REF scale exceeds 1e8 (poles of non-polar cones) are judged by round trip only.
// Violation keys: <family>:C11/<projection>/[after-SetScale/]<monitor>/<sphere|oblate|prolate>; configurations or points in
// an INPUT regime with an identified defect mechanism report every monitor under regime:C11/<projection>/<regime>
// (see build() and PtScope; the monitor name is in the witness), so that one mechanism = one key.
#include "harness/value_semantics.hpp"   // long-lived projection objects are detached copies
#include <GeographicLib/PolarStereographic.hpp>
#include <GeographicLib/LambertConformalConic.hpp>
#include <GeographicLib/AlbersEqualArea.hpp>
#include <GeographicLib/Constants.hpp>
#include <memory>
#include "harness/common.hpp"
#include "oracle/ref_proj.hpp"

using namespace GeographicLib;
using vh::Ctx; using vh::J; using vh::Section;
typedef refp::Q Q;
using refp::SC; using refp::Out;

static const double AW = 6378137.0;                 // the documented 10 nm refers to a WGS84-sized ellipsoid
static const double EPS = std::numeric_limits<double>::epsilon();
static const double DEG = M_PI / 180;
// tolerances: documented figure x K_safety
static const double KS = 4.0;
static const double TOL_NM = 10.0 * KS;             // "about 10 nm" ground distance (scaled by a/a_WGS84)
static const double TOL_REL = 10e-9 / AW * KS;      // scale / convergence "consistent with this": 10 nm / a
static const double TOL_LAT0_DEG = 4.5e-14 * KS;    // documented error of the latitude of origin
static const double TOL_K0_REL = 7e-15 * KS;        // documented relative error of the central scale
static const double TOL_FD = 2e-9;                  // finite-difference Jacobian (analysis: 4th-order stencil + round-off/h)
static const double KMAX = 1e8;                     // beyond this local scale: round trip only

enum PK { P_LCC = 0, P_ALB = 1, P_PS = 2 };
static const char* PKN[] = {"lcc", "albers", "polarstereo"};

// ------------------------------------------------------------------------------ ellipsoids
struct EllCfg { double a, f; std::string cls, grp, kind; bool extreme; };
static EllCfg mk_ell(double a, double f) {
  EllCfg e; e.a = a; e.f = f; e.extreme = (1 - f) > 3 || (1 - f) < 0.45;
  double af = std::fabs(f);
  e.kind = f == 0 ? "sphere" : (f > 0 ? "oblate" : "prolate");
  if (e.extreme) { e.cls = f > 0 ? "oblate-extreme(b/a<0.45)" : "prolate-extreme(b/a>3)"; e.grp = "extreme"; }
  else if (f == 0) { e.cls = "sphere"; e.grp = "|f|<=0.011"; }
  else if (af <= 1e-6) { e.cls = e.kind + "-nearly-spherical"; e.grp = "|f|<=0.011"; }
  else if (af <= 0.011) { e.cls = e.kind + "-earthlike"; e.grp = "|f|<=0.011"; }
  else if (af <= 0.15) { e.cls = e.kind + "-f~0.1"; e.grp = "0.011<|f|<=0.15"; }
  else { e.cls = e.kind + (f > 0 ? "-f~0.5" : "-f~-1"); e.grp = f > 0 ? "0.15<f<=0.9" : "-2<=f<-0.15"; }
  return e;
}
static const double F_LADDER[] = {0, 1e-8, -1e-8, 1 / 298.257223563, 0.01, -0.01, 0.1, -0.1, 0.5, -1};
static const int NF = 10;
static const double A_LADDER[] = {1, 6.4e6};
static const double K_LADDER[] = {0.5, 0.994, 1, 3};
static const double F_EXTREME[] = {0.6, 0.75, 0.85, 0.92, 0.95, -2.5, -4};

static EllCfg gen_ell(vh::Rng& r) {
  double f, a;
  switch (r.below(10)) {
  case 0: case 1: case 2: case 3: case 4: case 5: f = r.pick(F_LADDER); break;
  case 6: f = r.sign() * r.logu(1e-12, 0.3); break;
  case 7: f = r.uniform(-1, 0.5); break;
  case 8: f = r.uniform(0.003, 0.0036); break;
  default: f = r.coin(0.7) ? r.uniform(-2, 0) : r.uniform(0, 0.55); break;      // b/a in [0.45, 3]
  }
  a = r.coin(0.6) ? r.pick(A_LADDER) : r.logu(0.1, 1e8);
  return mk_ell(a, f);
}

// ------------------------------------------------------------------------------ standard parallels
struct ParCfg {
  int form;                 // 1 single latitude, 2 two latitudes, 3 sine/cosine pairs
  double lat1, lat2, s1, c1, s2, c2;
  std::string cls;
  SC p1() const { return form == 3 ? refp::sc_pair(s1, c1) : refp::sc_deg(lat1); }
  SC p2() const { return form == 3 ? refp::sc_pair(s2, c2) : (form == 1 ? refp::sc_deg(lat1) : refp::sc_deg(lat2)); }
  uint64_t hash() const { uint64_t h = form; for (double v : {lat1, lat2, s1, c1, s2, c2}) h = vh::hmix(h, v); return h; }
  J json() const { J j; j.i("form", form); if (form == 3) j.f("sin1", s1).f("cos1", c1).f("sin2", s2).f("cos2", c2); else { j.f("stdlat1", lat1); if (form == 2) j.f("stdlat2", lat2); } return j; }
};
static ParCfg par1(double lat, const char* cls) { ParCfg p{}; p.form = 1; p.lat1 = p.lat2 = lat; p.cls = cls; return p; }
static ParCfg par2(double l1, double l2, const char* cls) { ParCfg p{}; p.form = 2; p.lat1 = l1; p.lat2 = l2; p.cls = cls; return p; }
static ParCfg par3(double s1, double c1, double s2, double c2, const char* cls) { ParCfg p{}; p.form = 3; p.s1 = s1; p.c1 = c1; p.s2 = s2; p.c2 = c2; p.cls = cls; return p; }
static const char* sepcls(double sep) { return sep <= 1e-9 ? "pair/sep<=1e-9deg" : sep <= 1e-3 ? "pair/sep<=1e-3deg" : sep <= 20 ? "pair/sep<=20deg" : sep <= 120 ? "pair/sep<=120deg" : "pair/sep>120deg"; }

static std::vector<ParCfg> build_catalogue() {
  std::vector<ParCfg> v;
  // singles
  v.push_back(par1(0, "single/equator")); v.push_back(par1(1e-10, "single/near-equator")); v.push_back(par1(-1e-10, "single/near-equator"));
  v.push_back(par1(30, "single/mid")); v.push_back(par1(-30, "single/mid"));
  v.push_back(par1(89.999999, "single/near-pole")); v.push_back(par1(-89.999999, "single/near-pole"));
  v.push_back(par1(90, "single/pole")); v.push_back(par1(-90, "single/pole"));
  // pairs: centre x separation
  static const double cen[] = {0.25, 30, -45, 60, 85, -89};
  static const double sep[] = {1e-12, 1e-9, 1e-6, 1e-3, 1, 20, 60, 120, 170};
  for (double c : cen) for (double s : sep) {
    double l1 = c - s / 2, l2 = c + s / 2;
    if (s < 1e-3) { l1 = c; l2 = c + s; }
    if (std::fabs(l1) >= 90 || std::fabs(l2) >= 90 || l1 == l2) continue;
    v.push_back((v.size() & 1) ? par2(l1, l2, sepcls(s)) : par2(l2, l1, sepcls(s)));
  }
  // symmetric about the equator: Mercator / cylindrical limit
  for (double s : {1e-10, 20.0, 45.0, 85.0, 89.999}) v.push_back(par2(-s, s, "pair/symmetric(n=0)"));
  v.push_back(par2(40, -40, "pair/symmetric(n=0)"));
  // one parallel at a pole
  v.push_back(par2(90, 40, "pair/one-at-pole")); v.push_back(par2(30, 90, "pair/one-at-pole"));
  v.push_back(par2(-90, -20, "pair/one-at-pole")); v.push_back(par2(-89.9999, -90, "pair/one-at-pole"));
  v.push_back(par2(90, 89.999999999, "pair/one-at-pole")); v.push_back(par2(-60, 90, "pair/one-at-pole"));
  v.push_back(par2(90, 90, "pair/both-at-same-pole")); v.push_back(par2(-90, -90, "pair/both-at-same-pole"));
  v.push_back(par2(30, 30, "pair/coincident")); v.push_back(par2(0, 0, "pair/coincident"));
  // sine/cosine forms, incl. tiny and denormal cosines
  for (double c : {1e-5, 1e-10, 1e-20, 1e-100, 1e-300, 5e-324}) {
    v.push_back(par3(1, c, 1, c, "sincos/coincident/tiny-cos"));
    v.push_back(par3(-1, c, -1, 2 * c, "sincos/pair/tiny-cos"));
  }
  v.push_back(par3(1, 1e-300, 1, 5e-324, "sincos/pair/tiny-cos"));
  v.push_back(par3(1, 1e-8, 1, 1e-3, "sincos/pair/tiny-cos"));
  v.push_back(par3(1, 0, 1, 0, "sincos/pole")); v.push_back(par3(-1, 0, -1, 0, "sincos/pole"));
  v.push_back(par3(0.3, 0.4, 0.3, 0.4, "sincos/unnormalised")); v.push_back(par3(0.3, 0.4, 0.5, 0.5, "sincos/unnormalised"));
  v.push_back(par3(0, 1, 0, 1, "sincos/equator")); v.push_back(par3(-0.5, 0.8660254037844386, 0.5, 0.8660254037844386, "sincos/symmetric(n=0)"));
  v.push_back(par3(1, 0, 0.5, 0.5, "sincos/one-at-pole")); v.push_back(par3(-0.2, 0.9, -1, 0, "sincos/one-at-pole"));
  return v;
}
static const std::vector<ParCfg>& catalogue() { static const std::vector<ParCfg> v = build_catalogue(); return v; }

static double gen_lat_any(vh::Rng& r) {
  switch (r.below(8)) {
  case 0: return r.sign() * (90 - r.logu(1e-13, 10));
  case 1: return r.sign() * r.logu(1e-12, 10);
  case 2: return r.coin() ? 0.0 : r.sign() * 90;
  default: return r.uniform(-90, 90);
  }
}
static ParCfg gen_par(vh::Rng& r) {
  switch (r.below(10)) {
  case 0: case 1: return r.pick(catalogue());
  case 2: { double l = gen_lat_any(r); ParCfg p = par1(l, std::fabs(l) == 90 ? "single/pole" : std::fabs(l) > 89 ? "single/near-pole" : std::fabs(l) < 1 ? (l == 0 ? "single/equator" : "single/near-equator") : "single/mid"); return p; }
  case 3: case 4: {           // small separation
    double l1 = gen_lat_any(r); if (std::fabs(l1) == 90) l1 = r.uniform(-89, 89);
    double s = r.logu(1e-13, 1) * r.sign(), l2 = l1 + s;
    if (std::fabs(l2) >= 90 || l2 == l1) l2 = l1 - s;
    if (std::fabs(l2) >= 90 || l2 == l1) return par1(l1, "single/mid");
    return par2(l1, l2, sepcls(std::fabs(l2 - l1))); }
  case 5: case 6: {           // general pair
    double l1 = r.uniform(-89.9, 89.9), l2 = r.uniform(-89.9, 89.9);
    if (l1 == l2) l2 = -l1 + 1;
    if (l1 == -l2) return par2(l1, l2, "pair/symmetric(n=0)");
    return par2(l1, l2, sepcls(std::fabs(l2 - l1))); }
  case 7: { double s = r.coin(0.3) ? r.logu(1e-12, 89) : r.uniform(0, 89.99); return par2(-s, s, "pair/symmetric(n=0)"); }
  case 8: {                   // sin/cos pair near a pole
    double sg = r.sign(), c1 = r.logu(1e-310, 1e-2), c2 = r.coin(0.3) ? c1 : c1 * r.logu(0.5, 2);
    return par3(sg, c1, sg, c2, c1 == c2 ? "sincos/coincident/tiny-cos" : "sincos/pair/tiny-cos"); }
  default: {                  // sin/cos general
    double a1 = r.uniform(-89.9, 89.9) * DEG, a2 = r.coin(0.3) ? a1 : r.uniform(-89.9, 89.9) * DEG;
    return par3(std::sin(a1), std::cos(a1), std::sin(a2), std::cos(a2), a1 == a2 ? "sincos/coincident" : "sincos/pair"); }
  }
}

// ------------------------------------------------------------------------------ a configured projection
struct Model {
  PK pk; bool northp = true;
  EllCfg e; ParCfg par; double k1;
  refp::Ell E{1, 0};
  std::unique_ptr<LambertConformalConic> lcc; std::unique_ptr<AlbersEqualArea> alb; std::unique_ptr<PolarStereographic> ps;
  const LambertConformalConic* lccp = nullptr; const AlbersEqualArea* albp = nullptr; const PolarStereographic* psp = nullptr;
  std::unique_ptr<refp::LCC> rl; std::unique_ptr<refp::Albers> ra; std::unique_ptr<refp::PolarStereo> rp;
  std::string ccls, kpre; uint64_t h = 0; bool docdomain = true;
  bool conformal() const { return pk != P_ALB; }
  std::string pname() const { return PKN[pk]; }
  // Violation keys.  Normally <family>:C11/<projection>/[after-SetScale/]<monitor>/<sphere|oblate|prolate>.  Configurations
  // that lie in an input regime with a known defect mechanism (decided from the INPUTS only, see regime_of) report every
  // monitor under the single key regime:C11/<projection>/<regime>; the monitor name goes into the witness.
  mutable double nsfloor = 0;     // Albers: representation + conditioning floor of the N-S map coordinate at the current point
  bool hardregime = false; mutable double ewfloor = 0, Rpt = 0;
  std::string regime; mutable std::string ptregime;      // configuration-level / point-level regime
  std::string key(const std::string& fam, const std::string& what) const {
    if (!regime.empty() && (hardregime || ptregime.empty())) return std::string("regime:C11/") + PKN[pk] + "/" + regime;
    if (!ptregime.empty()) return std::string("regime:C11/") + PKN[pk] + "/" + ptregime;
    return fam + ":C11/" + PKN[pk] + "/" + kpre + what + "/" + e.kind; }
  // observed maxima of configurations / points inside a known-defect input regime are kept apart, so that the
  // regular lines show the calibration of the tolerances
  void obs(Ctx& c, const std::string& n, double v, const J& j) const {
    c.obs((!regime.empty() || !ptregime.empty()) ? n + " [inside a known-defect input regime]" : n, v, j); }
  void viol(Ctx& c, const std::string& fam, const std::string& what, const std::string& cls, const J& d) const {
    c.viol(key(fam, what), cls, J(d).str("monitor", fam + ":" + kpre + what)); }
  mutable uint64_t npanic = 0, ctor_panic = 0;      // GEOGRAPHICLIB_PANIC events (repo hook) seen in Forward/Reverse resp. the constructor
  void fwd(double lon0, double lat, double lon, double& x, double& y, double& g, double& k) const {
    uint64_t p0 = vh::hook::panics(); fwd_(lon0, lat, lon, x, y, g, k); npanic += vh::hook::panics() - p0; }
  void rev(double lon0, double x, double y, double& lat, double& lon, double& g, double& k) const {
    uint64_t p0 = vh::hook::panics(); rev_(lon0, x, y, lat, lon, g, k); npanic += vh::hook::panics() - p0; }
  void fwd_(double lon0, double lat, double lon, double& x, double& y, double& g, double& k) const {
    if (pk == P_LCC) lccp->Forward(lon0, lat, lon, x, y, g, k);
    else if (pk == P_ALB) albp->Forward(lon0, lat, lon, x, y, g, k);
    else psp->Forward(northp, lat, lon, x, y, g, k);
  }
  void rev_(double lon0, double x, double y, double& lat, double& lon, double& g, double& k) const {
    if (pk == P_LCC) lccp->Reverse(lon0, x, y, lat, lon, g, k);
    else if (pk == P_ALB) albp->Reverse(lon0, x, y, lat, lon, g, k);
    else psp->Reverse(northp, x, y, lat, lon, g, k);
  }
  Out rfwd(SC p, Q lam) const { return pk == P_LCC ? rl->fwd(p, lam) : pk == P_ALB ? ra->fwd(p, lam) : rp->fwd(northp, p, lam); }
  Q rn() const { return pk == P_LCC ? rl->n : pk == P_ALB ? ra->n : (northp ? (Q)1 : (Q)-1); }
  Q rrho0() const { return pk == P_LCC ? rl->rho0() : pk == P_ALB ? ra->rho0() : (Q)0; }
  // round-off in the conformal/authalic latitude conversions is amplified by 1/(1-e^2) (oblate) resp. the
  // ellipsoid is (b/a)^2 = 1-e^2 times "larger" (prolate); the documented figures are for Earth-like ellipsoids
  double eccfac() const { double e2m = (1 - e.f) * (1 - e.f); return std::max(1.0, std::max(e2m, 1 / e2m)); }
  double tolm() const { return TOL_NM * 1e-9 * e.a / AW * eccfac(); }       // ground tolerance in metres
  double tolrel() const { return TOL_REL * eccfac(); }
  double nm(double metres) const { return metres / e.a * AW * 1e9 / eccfac(); }   // metres -> WGS84-equivalent nm
  J json() const { J j; j.str("proj", PKN[pk]).f("a", e.a).f("f", e.f).f("k1", k1); if (pk == P_PS) j.b("northp", northp); else j.obj("parallels", par.json()); return j; }
};

static bool in_doc_domain(const Model& M);
// build library object + reference.  returns 0 ok, 1 library threw GeographicErr, sets expect_throw
static int build(Model& M, PK pk, const EllCfg& e, const ParCfg& par, double k1, bool northp, bool& expect_throw, std::string& what) {
  M.pk = pk; M.e = e; M.par = par; M.k1 = k1; M.northp = northp; M.E = refp::Ell(e.a, e.f);
  M.h = vh::hmix(vh::hmix(vh::hmix(vh::hmix(par.hash(), e.a), e.f), k1), (uint64_t)(pk * 2 + northp));
  M.ccls = pk == P_PS ? (northp ? "north" : "south") : par.cls;
  expect_throw = false;
  // input regimes with a known defect mechanism (decided from the inputs only)
  M.regime.clear(); M.hardregime = false;
  if (e.extreme) { M.regime = "extreme-eccentricity(b/a<0.45-or->3)"; M.hardregime = true; }
  else if (pk != P_PS) {
    SC q1 = par.p1(), q2 = par.p2(); bool distinct = !refp::same(q1, q2);
    Q cmin = q1.c < q2.c ? q1.c : q2.c, cmax = q1.c < q2.c ? q2.c : q1.c; (void)cmax;
    if (pk == P_LCC) {
      if ((q1.c > 0 && q1.c < 1e-13Q) || (q2.c > 0 && q2.c < 1e-13Q)) M.regime = "near-polar-parallel(0<cos<1e-13)";
      else if (distinct && ((e.f > 0.25 && cmin < 0.1Q) || (e.f < -0.25 && cmin < 0.05Q) || (std::fabs(e.f) > 0.005 && cmin < 1e-6Q)))
        // the documented accuracy of lat0 (4.5e-14 deg) is reached for |f| <~ 0.005 only; it degrades roughly like f^2/colatitude
        M.regime = "eccentric-near-polar-pair(|f|>0.005&cos<1e-6|f>0.25&cos<0.1|f<-0.25&cos<0.05)";
      else if (distinct && 1 - M.E.e2 * q1.s * q2.s <= 0) M.regime = "prolate-opposite-hemisphere-parallels(1-e2*sin1*sin2<=0)";
    } else {
      if (distinct && q1.c == 0) M.regime = "first-parallel-at-pole";     // (defect fixed in /repo: soft regime, point regimes take precedence)
      else if (distinct && fabsq(M.E.e2 + 3) < 1e-2Q) M.regime = "e2~-3";
      else if (distinct && e.f < -1.03) {      // Init fails (NaN / wrong lat0) when, with the cone oriented north, the lower parallel has sin < 0.15
        Q sg = q1.s + q2.s >= 0 ? 1 : -1, sa = sg * q1.s, sb = sg * q2.s, smin = sa < sb ? sa : sb;
        if (smin < 0.15Q) M.regime = "prolate(f<-1.03)-pair-with-lower-parallel-below-9deg";
      }
    }
  }
  if (pk == P_LCC) { M.rl.reset(new refp::LCC(M.E, par.p1(), par.p2(), k1)); expect_throw = !M.rl->ok; }
  else if (pk == P_ALB) { M.ra.reset(new refp::Albers(M.E, par.p1(), par.p2(), k1)); expect_throw = !M.ra->ok; }
  else M.rp.reset(new refp::PolarStereo(M.E, k1));
  M.docdomain = in_doc_domain(M);
  uint64_t hp0 = vh::hook::panics();
  if (!M.docdomain && M.regime.empty()) M.regime = "parallels-outside-documented-accuracy-domain";
  try {
    if (pk == P_LCC) {
      if (par.form == 1) M.lcc.reset(vh::detached_new<LambertConformalConic>([&] { return LambertConformalConic(e.a, e.f, par.lat1, k1); }, [&] { return LambertConformalConic(e.a * 1.25, 0.01, 33.0, 45.0, 0.9); }));
      else if (par.form == 2) M.lcc.reset(vh::detached_new<LambertConformalConic>([&] { return LambertConformalConic(e.a, e.f, par.lat1, par.lat2, k1); }, [&] { return LambertConformalConic(e.a * 1.25, 0.01, -20.0, 0.9); }));
      else M.lcc.reset(vh::detached_new<LambertConformalConic>([&] { return LambertConformalConic(e.a, e.f, par.s1, par.c1, par.s2, par.c2, k1); }, [&] { return LambertConformalConic(e.a * 1.25, 0.01, 33.0, 45.0, 0.9); }));
      M.lccp = M.lcc.get();
    } else if (pk == P_ALB) {
      if (par.form == 1) M.alb.reset(vh::detached_new<AlbersEqualArea>([&] { return AlbersEqualArea(e.a, e.f, par.lat1, k1); }, [&] { return AlbersEqualArea(e.a * 1.25, 0.01, 33.0, 45.0, 0.9); }));
      else if (par.form == 2) M.alb.reset(vh::detached_new<AlbersEqualArea>([&] { return AlbersEqualArea(e.a, e.f, par.lat1, par.lat2, k1); }, [&] { return AlbersEqualArea(e.a * 1.25, 0.01, -20.0, 0.9); }));
      else M.alb.reset(vh::detached_new<AlbersEqualArea>([&] { return AlbersEqualArea(e.a, e.f, par.s1, par.c1, par.s2, par.c2, k1); }, [&] { return AlbersEqualArea(e.a * 1.25, 0.01, 33.0, 45.0, 0.9); }));
      M.albp = M.alb.get();
    } else { M.ps.reset(vh::detached_new<PolarStereographic>([&] { return PolarStereographic(e.a, e.f, k1); }, [&] { return PolarStereographic(e.a * 1.25, 0.01, 0.9); })); M.psp = M.ps.get(); }
  } catch (const GeographicErr& ex) { what = ex.what(); return 1; }
  M.ctor_panic = vh::hook::panics() - hp0;
  return 0;
}

// ------------------------------------------------------------------------------ point monitors
static Q lam_of(double lon0, double lon) { Q d = remainderq((Q)lon - (Q)lon0, 360); return d * refp::DEGq; }
static const char* latcls(double lat) {
  double c = 90 - std::fabs(lat);
  return c == 0 ? "pole" : c < 1e-6 ? "colat<1e-6deg" : c < 1 ? "colat<1deg" : std::fabs(lat) < 1e-6 ? "equator" : "mid";
}
static double sent(int k) { return vh::sentinel(k); }

// ground error (metres) of a map-plane error (dx,dy) at a point with reference scale k / convergence g.
// conformal: |d|/k.  Albers: E-W component / k, N-S component * k; the N-S component is first reduced
// by the representation floor of the outputs (4 eps (|x|+|y|)): N-S map lengths are shrunk by 1/k, so
// one ulp of y is k ulps on the ground -- this is conditioning of the equal-area map, not an error.
static double ground_err(const Model& M, double dx, double dy, Q kq, Q gq, double /*x*/, double /*y*/) {
  double k = (double)kq;
  // theta = n*lam carries a relative error of a few eps: the image moves by rho*|theta|*eps along the parallel (matters for
  // Albers with k1^2 n0 > 1, where |theta| reaches 9 pi)
  double thfl = 4 * EPS * std::fabs((double)gq) * M.Rpt;
  if (M.conformal()) return std::max(0.0, std::hypot(dx, dy) - M.ewfloor) / k;
  double g = (double)gq, cg = std::cos(g), sg = std::sin(g);
  double dE = dx * cg + dy * sg, dN = -dx * sg + dy * cg;
  dN = std::max(0.0, std::fabs(dN) - M.nsfloor);
  dE = std::max(0.0, std::fabs(dE) - M.ewfloor - thfl);
  return std::hypot(dE / k, dN * k);
}

// extra round-trip tolerance (metres) for Albers: a perturbation delta = 8 eps (|x|+|y|) of the radial map
// coordinate moves the latitude by k*delta on the ground, but never by more than what the quadratic
// behaviour rho - rho_pole ~ c^2 at a non-apex pole allows: c'^2 = c^2 + X, X = 2 (1-e^2) w delta/a.
static double albers_cond(const Model& M, SC p, double x, double y) {
  const refp::Albers& A = *M.ra;
  double delta = 2 * M.nsfloor; (void)x; (void)y;
  double w = (double)sqrtq(A.w2(p)), c = (double)p.c;
  double X = 2 * std::fabs(1 - (double)A.E.e2) * w * delta / M.e.a;
  if (X < 0.25 * c * c) return 1.25 * (double)A.scale(p) * delta;         // linear regime: k * delta
  return (double)A.E.rho_mer(p) * (std::sqrt(c * c + X) + c);            // cap near a non-apex pole
}

// Albers: the library forms (n rho/a)^2 = m0^2 - n0 (q - q0); near a pole that is not the apex this difference is much
// smaller than m0^2 (cancellation factor kappa = m0^2 / w^2).  kappa <= 64 is accepted as conditioning of the formula
// (the tolerances carry a kappa eps term); kappa > 64 is reported under its own regime key.
static double albers_kappa(const Model& M, SC p) {
  const refp::Albers& A = *M.ra; Q m0 = A.E.m(A.p0), w2 = A.w2s(p);
  return w2 > 0 ? (double)(m0 * m0 / w2) : HUGE_VAL;
}
struct PtScope {     // per-point state of the model (regime, N-S floor), cleared when the point is done
  const Model& M;
  PtScope(const Model& m, SC p, double x, double y) : M(m) {
    M.ptregime.clear(); M.nsfloor = 0; M.ewfloor = 4 * EPS * (std::fabs(x) + std::fabs(y));
    if (M.pk != P_ALB) return;
    double kap = albers_kappa(M, p);
    if (kap > 64) M.ptregime = "near-pole-cancellation(m0^2/w^2>64)";
    Q R = M.ra->n != 0 ? fabsq(M.E.a * sqrtq(M.ra->w2(p)) / M.ra->n) : (Q)0;
    double Rr = finiteq(R) && R < 1e3Q * M.E.a ? (double)R : 0;
    // representation / conditioning floors of the map coordinates (in map units)
    M.nsfloor = (16 + 4 * std::min(kap, 64.0)) * M.eccfac() * EPS * (std::fabs(x) + std::fabs(y) + Rr);
    M.ewfloor = 8 * M.eccfac() * EPS * (std::fabs(x) + std::fabs(y) + Rr);
    M.Rpt = Rr;
  }
  ~PtScope() { M.ptregime.clear(); M.nsfloor = 0; M.ewfloor = 0; }
  // convergence failures (repo hook) seen since the last check; reported while the point regime is still set
  void panics(Ctx& c, const std::string& cls, const J& wit) { if (M.npanic) { M.viol(c, "hook", "convergence-failure-in-forward-or-reverse", cls, J(wit).u("panics", M.npanic)); M.npanic = 0; } }
};

struct PtRes { bool ok; double x, y, g, k; Out ref; };

// one point through every monitor.  do_fd: also the finite-difference Jacobian monitor.
static PtRes check_point(Ctx& c, const Model& M, double lat, double lon0, double lon, bool do_fd) {
  PtRes R{}; R.ok = false;
  std::string grp = M.pname() + " " + M.e.grp;
  std::string cls = M.pname() + "/" + M.ccls + "/" + M.e.cls + "/pt-" + latcls(lat);
  if (M.pk == P_PS) lon0 = 0;
  uint64_t h = vh::hmix(vh::hmix(vh::hmix(M.h, lat), lon0), lon);
  c.count(cls, h);
  J wit = J().obj("cfg", M.json()).f("lat", lat).f("lon0", lon0).f("lon", lon);
  if (c.want_sample(cls)) c.sample(cls, wit);
  double x = sent(1), y = sent(2), g = sent(3), k = sent(4);
  M.fwd(lon0, lat, lon, x, y, g, k);
  R.x = x; R.y = y; R.g = g; R.k = k;
  SC p = refp::sc_deg(lat);
  PtScope scope(M, p, x, y);
  if (!(std::isfinite(x) && std::isfinite(y) && std::isfinite(g) && std::isfinite(k))) {
    M.viol(c, "oracle", "forward-nonfinite", cls, J(wit).f("x", x).f("y", y).f("gamma", g).f("k", k)); return R; }
  Q lam = lam_of(lon0, lon);
  Out o = M.rfwd(p, lam);
  bool edge = fabsq(lam) == refp::PIq;
  if (edge) {         // lon - lon0 = +-180 exactly: both signs are legitimate images
    Out o2 = M.rfwd(p, -lam);
    if (hypotq(o2.x - x, o2.y - y) < hypotq(o.x - x, o.y - y)) { o = o2; lam = -lam; }
  }
  R.ref = o;
  bool judged = finiteq(o.k) && o.k > 0 && o.k <= KMAX && finiteq(o.x) && finiteq(o.y);
  if (c.only) std::fprintf(stderr, "FWD lat=%.17g lon0=%.17g lon=%.17g -> x=%.17g y=%.17g g=%.17g k=%.17g | ref x=%.17g y=%.17g g=%.17g k=%.17g\n",
                           lat, lon0, lon, x, y, g, k, (double)o.x, (double)o.y, (double)(o.gamma / refp::DEGq), (double)o.k);
  if (judged) {
    double dx = (double)((Q)x - o.x), dy = (double)((Q)y - o.y);
    double ge = ground_err(M, dx, dy, o.k, o.gamma, x, y);
    M.obs(c, grp + ": Forward vs REF, ground distance [nm at a=a_WGS84; tol " + std::to_string((int)TOL_NM) + "]", M.nm(ge), wit);
    if (!(ge <= M.tolm()) && M.pk == P_ALB && M.ra->p0.s < 0) {
      // diagnosis of one specific defect (kept under its own key): the image is that of the mirrored latitude
      SC pm = p; pm.s = -pm.s; Out om = M.rfwd(pm, lam);
      if (finiteq(om.k) && om.k > 0 && ground_err(M, (double)((Q)x - om.x), (double)((Q)y - om.y), om.k, om.gamma, x, y) <= M.tolm()) {
        M.viol(c, "oracle", "forward-southern-cone-latitude-mirrored", cls, J(wit).f("x", x).f("y", y).f("ref_x", (double)o.x).f("ref_y", (double)o.y).f("ref_x_of_minus_lat", (double)om.x).f("ref_y_of_minus_lat", (double)om.y));
        return R; }
    }
    if (!(ge <= M.tolm()))
      M.viol(c, "oracle", "forward", cls, J(wit).f("x", x).f("y", y).f("ref_x", (double)o.x).f("ref_y", (double)o.y).f("ref_k", (double)o.k).f("ground_err_nm_wgs84", M.nm(ge)).f("tol_nm", TOL_NM));
    // k = exp(n psi)/m: an absolute error of a few eps in the exponent is a relative error |ln(k/k0)| eps in k
    Q rk0 = M.pk == P_LCC ? M.rl->k0 : M.pk == P_ALB ? M.ra->k0 : M.rp->k0;
    double klog = 1 + std::fabs((double)logq(o.k / rk0));
    double ek = (double)(fabsq((Q)k - o.k) / o.k), tk = M.tolrel() * klog + (M.pk == P_ALB ? 4 * std::min(albers_kappa(M, p), 64.0) * EPS : 0);
    double eg = (double)fabsq(remainderq((Q)g - o.gamma / refp::DEGq, 360)) * DEG;
    if (edge && M.pk == P_PS) eg = std::min(eg, std::fabs(eg - 2 * M_PI));
    if (p.c == 0) eg = 0;
    bool doc = M.docdomain;
    std::string dom = doc ? "" : " (parallels outside documented domain: not judged)";
    M.obs(c, grp + ": Forward k vs REF, relative error / tolerance [tol = 4 x 10nm/a_WGS84 x eccfac x (1+|ln k/k0|)]" + dom, ek / tk, wit);
    // n is a quotient of differences (an absolute error of a few eps when the parallels straddle the equator), times k1^2 for Albers
    double tg = M.tolrel() * (1 + (double)fabsq(o.gamma)) + (M.pk == P_PS ? 0 : 8 * EPS * (double)fabsq(lam) * (M.pk == P_ALB ? std::max(1.0, M.k1 * M.k1) : 1));       // gamma = n*lam reaches 9*pi for Albers with k1 = 3
    M.obs(c, grp + ": Forward gamma vs REF [rad] / tolerance [tol = 4 x 10nm/a_WGS84 x eccfac x (1+|gamma|)]" + dom, eg / tg, wit);
    if (doc) {
      if (!(ek <= tk)) M.viol(c, "oracle", "forward-scale", cls, J(wit).f("k", k).f("ref_k", (double)o.k).f("rel_err", ek).f("tol", tk));
      if (!(eg <= tg)) M.viol(c, "oracle", "forward-convergence", cls, J(wit).f("gamma", g).f("ref_gamma", (double)(o.gamma / refp::DEGq)).f("err_rad", eg).f("tol", M.tolrel()));
    }
  } else c.event(M.pname() + ": points with REF scale > 1e8 or infinite (round trip only)");

  // ---- Reverse o Forward
  {
    Q nq = M.rn();
    bool wraps = M.pk == P_ALB && fabsq(nq * lam) >= refp::PIq * (1 - 1e-9Q);     // Albers with k0^2 n0 > 1 overlaps itself
    if (wraps) c.event("albers: cone constant k0^2*n0 > 1 and |theta| >= pi: round trip not defined, skipped");
    else {
      double lat2 = sent(5), lon2 = sent(6), g2 = sent(7), k2 = sent(8);
      M.rev(lon0, x, y, lat2, lon2, g2, k2);
      if (c.only) std::fprintf(stderr, "REV -> lat=%.17g lon=%.17g g=%.17g k=%.17g\n", lat2, lon2, g2, k2);
      if (std::isnan(lat2) && M.pk == P_LCC && nq != 0 && finiteq(M.rrho0()) && hypotq((Q)x, M.rrho0() - (Q)y) <= 1e-12Q * fabsq(M.rrho0()))
        c.viol("oracle:C11/lcc/reverse-nan-at-apex", cls, J(wit).f("x", x).f("y", y).f("lat2", lat2).f("lon2", lon2).f("gamma2", g2).f("k2", k2));
      else if (!(std::isfinite(lat2) && std::isfinite(lon2) && std::isfinite(g2) && std::isfinite(k2) && std::fabs(lat2) <= 90 && std::fabs(lon2) <= 180))
        M.viol(c, "law", "reverse-nonfinite-or-out-of-range", cls, J(wit).f("x", x).f("y", y).f("lat2", lat2).f("lon2", lon2).f("gamma2", g2).f("k2", k2));
      else {
        double dphi = (lat2 - lat) * DEG, dl = std::remainder(lon2 - lon, 360.0) * DEG;
        double gn = (double)M.E.rho_mer(p) * std::fabs(dphi), ge = (double)M.E.r_par(p) * std::fabs(dl);
        double err = std::hypot(gn, ge), tol = M.tolm();
        if (M.pk == P_ALB) tol += albers_cond(M, p, x, y);
        M.obs(c, grp + ": Reverse(Forward) ground distance / tolerance [tol = " + std::to_string((int)TOL_NM) + " nm at a_WGS84" + (M.pk == P_ALB ? " + conditioning" : "") + "]", err / tol, J(wit).f("lat2", lat2).f("lon2", lon2));
        if (M.pk != P_ALB) M.obs(c, grp + ": Reverse(Forward) ground distance [nm at a=a_WGS84]", M.nm(err), J(wit).f("lat2", lat2).f("lon2", lon2));
        if (!(err <= tol)) M.viol(c, "law", "roundtrip", cls, J(wit).f("x", x).f("y", y).f("lat2", lat2).f("lon2", lon2).f("ground_err_nm_wgs84", M.nm(err)).f("tol_nm_wgs84", M.nm(tol)));
        // Reverse reports the same gamma and k as Forward did
        if (judged && std::fabs(dphi) <= 0.1 * (double)p.c) {      // (otherwise the returned latitude is too far, in relative colatitude, for k to be comparable)
          double ek2 = std::fabs(k2 - k) / k, eg2 = std::fabs(std::remainder(g2 - g, 360.0)) * DEG;
          eg2 = std::min(eg2, std::fabs(eg2 - 2 * M_PI));
          if (p.c == 0) eg2 = 0;                 // at a pole the meridian direction is undefined
          // k is evaluated at the returned latitude: |d ln k / d phi| <~ 2 (1+|e2|)/cos(phi) times the (accepted) latitude difference
          double klog = 1 + std::fabs(std::log(k / (double)(M.pk == P_LCC ? M.rl->k0 : M.pk == P_ALB ? M.ra->k0 : M.rp->k0)));
          double slack = M.tolrel() * 2 * klog + 2 * (1 + (double)fabsq(M.E.e2)) * std::max(std::fabs(dphi), tol / (double)M.E.rho_mer(p)) / std::max((double)p.c, 1e-300)
                         + (M.pk == P_ALB ? 8 * std::min(albers_kappa(M, p), 64.0) * EPS : 0), slackg = 2 * M.tolrel();
          // close to the apex of a cone rho = |(x, y - rho0)| is a small difference of the represented outputs; k ~ rho^(1-1/n)
          if (nq != 0 && M.pk != P_PS) { double Rr = (double)fabsq(o.k * M.E.r_par(p) / nq), rep = 8 * EPS * (std::fabs(x) + std::fabs(y)) / std::max(Rr, 1e-300);
            slack += rep * (1 + 1 / std::fabs((double)nq)); slackg += rep; }
          M.obs(c, grp + ": Reverse k,gamma vs Forward k,gamma, difference / tolerance", std::max(ek2 / slack, eg2 / slackg), wit);
          if (!(ek2 <= slack && eg2 <= slackg)) M.viol(c, "law", "reverse-scale-convergence", cls, J(wit).f("k", k).f("k2", k2).f("gamma", g).f("gamma2", g2).f("tol_rel", slack));
        }
      }
    }
  }

  // ---- finite-difference Jacobian of the library's own Forward
  double colat = std::min(90 - lat, 90 + lat) * DEG;
  if (do_fd && judged && o.k < 1e6 && colat > 1e-6 && fabsq(lam) < refp::PIq - 1e-3Q) {
    double hl = 2e-4 * std::min(1.0, colat) / DEG;      // degrees
    double hx = 1e-4 / DEG;
    auto F = [&](double la, double lo, double& X, double& Y) { double gg, kk; M.fwd(lon0, la, lo, X, Y, gg, kk); };
    auto d5 = [&](bool inlat, double& DX, double& DY) {
      double hh = inlat ? hl : hx, X[4], Y[4]; double arg[4];
      for (int i = 0; i < 4; ++i) { static const int m[] = {-2, -1, 1, 2}; arg[i] = (inlat ? lat : lon) + m[i] * hh; if (inlat) F(arg[i], lon, X[i], Y[i]); else F(lat, arg[i], X[i], Y[i]); }
      double h1 = (arg[2] - arg[1]) / 2 * DEG, h2 = (arg[3] - arg[0]) / 2 * DEG;     // actual half-steps (radians)
      // Richardson: D = (4 D(h1) - D(h2) (h1/h2)^2 ... ) general for h2 = 2 h1: (4 D1 - D2)/3
      double D1x = (X[2] - X[1]) / (2 * h1), D2x = (X[3] - X[0]) / (2 * h2), D1y = (Y[2] - Y[1]) / (2 * h1), D2y = (Y[3] - Y[0]) / (2 * h2);
      double r = (h2 / h1) * (h2 / h1);
      DX = (r * D1x - D2x) / (r - 1); DY = (r * D1y - D2y) / (r - 1);
    };
    double Ex, Ey, Nx, Ny; d5(false, Ex, Ey); d5(true, Nx, Ny);
    double rp = (double)M.E.r_par(p), rm = (double)M.E.rho_mer(p);
    Ex /= rp; Ey /= rp; Nx /= rm; Ny /= rm;          // images of unit ground vectors east / north
    double gr = g * DEG, cg = std::cos(gr), sg = std::sin(gr);
    double aE = std::hypot(Ex, Ey), aN = std::hypot(Nx, Ny);
    double rotE = std::fabs(std::remainder(std::atan2(Ey, Ex) - gr, 2 * M_PI));
    double rotN = std::fabs(std::remainder(std::atan2(-Nx, Ny) - gr, 2 * M_PI));
    (void)cg; (void)sg;
    double det = Ex * Ny - Ey * Nx;
    double e1, e2, e3;
    if (M.conformal()) { e1 = std::fabs(aE / k - 1); e2 = std::fabs(aN / k - 1); e3 = std::max(rotE, rotN); }
    else { e1 = std::fabs(aE / k - 1); e2 = std::fabs(aN * k - 1); e3 = std::max(std::max(rotE, rotN), std::fabs(det - 1)); }
    // tolerance = truncation/analysis bound + round-off of the differenced outputs: 8 eps (|x|+|y|) / (expected image length of the step)
    double kn = M.conformal() ? k : 1 / k, nz = 32 * EPS * (std::fabs(x) + std::fabs(y));
    double tE = TOL_FD + nz / (k * rp * hx * DEG), tN = TOL_FD + nz / (kn * rm * hl * DEG);
    if (tE > 1e-6 || tN > 1e-6) { c.event(M.pname() + ": finite-difference Jacobian skipped (round-off of the differenced outputs > 1e-6)"); R.ok = true; return R; }
    M.obs(c, grp + ": FD Jacobian E-W stretch vs k, relative error / tolerance [2e-9 + round-off]", e1 / tE, wit);
    M.obs(c, grp + ": FD Jacobian N-S stretch vs " + (M.conformal() ? "k" : "1/k") + ", relative error / tolerance [2e-9 + round-off]", e2 / tN, wit);
    M.obs(c, grp + ": FD Jacobian rotation vs gamma" + (M.conformal() ? "" : " and |det-1|") + " [rad] / tolerance [2e-9 + round-off]", e3 / (tE + tN), wit);
    c.event(M.pname() + ": finite-difference Jacobian evaluations");
    J wj = J(wit).f("k", k).f("gamma", g).f("E_x", Ex).f("E_y", Ey).f("N_x", Nx).f("N_y", Ny).f("det", det).f("tolE", tE).f("tolN", tN);
    if (!(e1 <= tE)) M.viol(c, "law", "jacobian-eastwest-scale", cls, wj);
    if (!(e2 <= tN)) M.viol(c, "law", M.conformal() ? "jacobian-northsouth-scale" : "jacobian-northsouth-reciprocal-scale", cls, wj);
    if (!(e3 <= tE + tN)) M.viol(c, "law", M.conformal() ? "jacobian-rotation" : "jacobian-rotation-or-area", cls, wj);
  }
  scope.panics(c, cls, wit);
  R.ok = true;
  return R;
}

// ------------------------------------------------------------------------------ configuration monitors
static void gen_lons(vh::Rng& r, double& lon0, double& lon) {
  switch (r.below(6)) { case 0: lon0 = 0; break; case 1: lon0 = r.sign() * 180; break; case 2: lon0 = r.sign() * (180 - r.logu(1e-13, 1)); break; default: lon0 = r.uniform(-180, 180); }
  double dl;
  switch (r.below(10)) { case 0: dl = 0; break; case 1: dl = r.sign() * 180; break; case 2: dl = r.sign() * 90; break;
    case 3: dl = r.sign() * r.logu(1e-12, 1e-3); break; case 4: dl = r.sign() * (180 - r.logu(1e-12, 1)); break; default: dl = r.uniform(-180, 180); }
  lon = lon0 + dl;
  if (r.coin(0.5) && std::fabs(lon) > 180) lon -= std::copysign(360.0, lon);
}

static bool in_doc_domain(const Model& M) {      // domain in which the error of lat0 / k0 is documented
  if (M.pk == P_PS) return true;
  SC p1 = M.par.p1(), p2 = M.par.p2();
  if (refp::same(p1, p2)) return true;
  double l1 = (double)refp::lat_deg(p1), l2 = (double)refp::lat_deg(p2), d = std::fabs(l2 - l1), mx = std::max(std::fabs(l1), std::fabs(l2));
  if (M.pk == P_ALB) return d <= 160;
  return d <= 160 && mx <= 90 - std::min(0.0002, std::min(2.2e-6 * (180 - d), 6e-8 * d * d));
}

static void check_config(Ctx& c, const Model& M) {
  std::string grp = M.pname() + " " + M.e.grp, cls = M.pname() + "/" + M.ccls + "/" + M.e.cls + "/origin";
  J wit = M.json();
  c.count(cls, M.h);
  if (M.pk == P_PS) {
    if (M.psp->CentralScale() != M.k1) M.viol(c, "oracle", "central-scale", cls, J(wit).f("got", M.psp->CentralScale()));
    return;
  }
  double lat0 = M.pk == P_LCC ? M.lccp->OriginLatitude() : M.albp->OriginLatitude();
  double k0 = M.pk == P_LCC ? M.lccp->CentralScale() : M.albp->CentralScale();
  Q rl0 = M.pk == P_LCC ? M.rl->lat0_deg() : M.ra->lat0_deg(), rk0 = M.pk == P_LCC ? M.rl->k0 : M.ra->k0;
  SC p0 = M.pk == P_LCC ? M.rl->p0 : M.ra->p0;
  // REF self-check: phi0 really is the latitude of minimum scale of the reference map
  {
    Q phi = refp::lat_rad(p0);
    for (Q d : {(Q)1e-3, (Q)-1e-3, (Q)1e-7, (Q)-1e-7}) {
      Q ph = phi + d; if (fabsq(ph) >= refp::PIq / 2) continue;
      SC pp = refp::sc_rad(ph); Q ks = M.pk == P_LCC ? M.rl->scale(pp) : M.ra->scale(pp);
      if (!(ks >= rk0 * (1 - 1e-25Q))) c.herr("REF: scale at phi0 is not the minimum: " + M.json().done());
    }
  }
  bool doc = in_doc_domain(M);
  double el = (double)fabsq((Q)lat0 - rl0), ek = (double)(fabsq((Q)k0 - rk0) / rk0);
  std::string dom = doc ? "" : " (outside documented domain: not judged)";
  M.obs(c, grp + ": OriginLatitude vs REF latitude of minimum scale [deg; tol 1.8e-13]" + dom, el, wit);
  M.obs(c, grp + ": CentralScale vs REF scale there, relative [tol 2.8e-14]" + dom, ek, wit);
  if (c.only) std::fprintf(stderr, "CFG lat0=%.17g ref=%.17g  k0=%.17g ref=%.17g doc=%d\n", lat0, (double)rl0, k0, (double)rk0, (int)doc);
  if (doc) {
    if (!(el <= TOL_LAT0_DEG * M.eccfac())) M.viol(c, "oracle", "origin-latitude", cls, J(wit).f("got", lat0).f("ref", (double)rl0).f("err_deg", el));
    if (!(ek <= TOL_K0_REL * M.eccfac())) M.viol(c, "oracle", "central-scale", cls, J(wit).f("got", k0).f("ref", (double)rk0).f("rel_err", ek));
  } else c.event(M.pname() + ": configurations outside the documented accuracy domain of lat0/k0");
  // scale = k1 on the standard parallels (given in degrees, so Forward sees the very same latitude)
  if (M.par.form != 3) {
    for (int i = 0; i < (M.par.form == 1 ? 1 : 2); ++i) {
      double sl = i ? M.par.lat2 : M.par.lat1; SC ps = refp::sc_deg(sl);
      Q rs = M.pk == P_LCC ? M.rl->scale(ps) : M.ra->scale(ps);
      if (!finiteq(rs)) continue;
      if (fabsq(rs / (Q)M.k1 - 1) > 1e-25Q) {       // a polar "standard parallel" paired with a non-polar one (Albers) is standard only in the limit
        if (ps.c != 0) c.herr("REF: scale on a standard parallel != k1: " + M.json().done());
        c.event("albers: polar standard parallel paired with a non-polar one (scale there is k1*sqrt(n), not judged)"); continue; }
      double x, y, g, k; M.fwd(0, sl, 0, x, y, g, k);
      PtScope scope(M, ps, x, y);
      double e = std::fabs(k / M.k1 - 1) - (M.pk == P_ALB ? 2 * std::min(albers_kappa(M, ps), 64.0) * EPS : 0);
      M.obs(c, grp + ": k on a standard parallel vs k1, relative [units of 10nm/a_WGS84; tol " + std::to_string((int)KS) + "]", e / (TOL_REL / KS), J(wit).f("stdlat", sl));
      if (!(e <= M.tolrel())) M.viol(c, "law", "standard-parallel-scale", cls, J(wit).f("stdlat", sl).f("k", k).f("k1", M.k1));
    }
  }
}

// the directed + random point set of one configuration
static void run_points(Ctx& c, const Model& M, int nrand) {
  vh::Rng& r = c.rng;
  std::vector<double> lats = {90, -90};
  if (M.pk != P_PS) {
    lats.push_back(M.pk == P_LCC ? M.lccp->OriginLatitude() : M.albp->OriginLatitude());
    if (M.par.form != 3) { lats.push_back(M.par.lat1); lats.push_back(M.par.lat2); }
  }
  lats.push_back(r.coin() ? 0.0 : r.sign() * r.logu(1e-12, 1e-3));
  lats.push_back(90 - r.logu(1e-13, 1)); lats.push_back(-90 + r.logu(1e-13, 1));
  lats.push_back(vh::ulps(r.sign() * 90, 0) - r.sign() * 0);      // pole again with another longitude
  for (int i = 0; i < nrand; ++i) lats.push_back(r.coin(0.8) ? r.uniform(-90, 90) : gen_lat_any(r));
  int i = 0;
  for (double lat : lats) {
    if (!(std::fabs(lat) <= 90)) continue;
    double lon0, lon; gen_lons(r, lon0, lon);
    check_point(c, M, lat, lon0, lon, (i++ % 2) == 0);
  }
}

// ------------------------------------------------------------------------------ Reverse of arbitrary (x,y)
static void check_reverse_xy(Ctx& c, const Model& M, double lon0, double x, double y, const char* xcls) {
  std::string grp = M.pname() + " " + M.e.grp, cls = M.pname() + "/" + M.ccls + "/" + M.e.cls + "/xy-" + xcls;
  if (M.pk == P_PS) lon0 = 0;
  c.count(cls, vh::hmix(vh::hmix(vh::hmix(M.h, lon0), x), y));
  J wit = J().obj("cfg", M.json()).f("lon0", lon0).f("x", x).f("y", y);
  if (c.want_sample(cls)) c.sample(cls, wit);
  double lat = sent(1), lon = sent(2), g = sent(3), k = sent(4);
  M.rev(lon0, x, y, lat, lon, g, k);
  if (c.only) std::fprintf(stderr, "REVXY x=%.17g y=%.17g -> lat=%.17g lon=%.17g g=%.17g k=%.17g\n", x, y, lat, lon, g, k);
  if (std::isfinite(lat) && std::isfinite(lon) && std::isfinite(g) && std::fabs(lat) == 90 && std::isnan(k)) {
    // own key: the true scale at the pole of a non-polar cone is +infinity; NaN is returned
    c.viol("oracle:C11/lcc/reverse-scale-nan-at-pole", cls, J(wit).f("lat", lat).f("lon", lon).f("gamma", g).f("k", k)); k = HUGE_VAL; }
  if (std::isnan(lat) && M.pk == P_LCC && M.rn() != 0 && finiteq(M.rrho0()) && hypotq((Q)x, M.rrho0() - (Q)y) <= 1e-12Q * fabsq(M.rrho0())) {
    c.viol("oracle:C11/lcc/reverse-nan-at-apex", cls, J(wit).f("lat", lat).f("lon", lon).f("gamma", g).f("k", k)); return; }
  if (!(std::isfinite(lat) && std::isfinite(lon) && std::fabs(lat) <= 90 && std::fabs(lon) <= 180 && !std::isnan(g) && !std::isnan(k))) {
    M.viol(c, "oracle", "reverse-xy-nonfinite-or-out-of-range", cls, J(wit).f("lat", lat).f("lon", lon).f("gamma", g).f("k", k)); return; }
  Q n = M.rn(), lamx;
  Q Y1 = 0, R = 0;
  if (n != 0) { Q sg = n > 0 ? 1 : -1; Y1 = M.rrho0() - (Q)y; lamx = atan2q(sg * (Q)x, sg * Y1) / n; R = hypotq((Q)x, Y1); }
  else lamx = (Q)x / (M.pk == P_LCC ? M.rl->A : M.E.a * M.ra->w0);
  SC p = refp::sc_deg(lat);
  PtScope scope(M, p, x, y);
  if (M.pk == P_ALB) {        // outside the image: nearest pole (documented)
    const refp::Albers& A = *M.ra; int pole = 0;
    if (n != 0) { Q RN = fabsq(A.rho_pole(true)), RS = fabsq(A.rho_pole(false));
      Q lo = RN < RS ? RN : RS, hi = RN < RS ? RS : RN; int plo = RN < RS ? 1 : -1;
      if (R < lo * (1 - 1e-9Q)) pole = plo; else if (R > hi * (1 + 1e-9Q)) pole = -plo;
      else if (!(R > lo * (1 + 1e-9Q) && R < hi * (1 - 1e-9Q))) { c.event("albers: (x,y) within 1e-9 of the image boundary (not judged)"); return; } }
    else { SC pn{1, 0}, psx{-1, 0}; Q yN = A.fwd(pn, 0).y, yS = A.fwd(psx, 0).y;
      if ((Q)y > yN + fabsq(yN) * 1e-9Q) pole = 1; else if ((Q)y < yS - fabsq(yS) * 1e-9Q) pole = -1;
      else if (!((Q)y < yN - fabsq(yN) * 1e-9Q && (Q)y > yS + fabsq(yS) * 1e-9Q)) { c.event("albers: (x,y) within 1e-9 of the image boundary (not judged)"); return; } }
    if (pole) {
      c.event("albers: Reverse of (x,y) outside the image");
      SC pp{(Q)pole, 0};
      double err = (double)M.E.rho_mer(pp) * std::fabs(lat - 90 * pole) * DEG, tol = M.tolm() + albers_cond(M, pp, x, y);
      if (!(err <= tol)) M.viol(c, "oracle", "reverse-outside-image-not-nearest-pole", cls, J(wit).f("lat", lat).i("expected_pole", pole));
      return;
    }
  }
  bool wrapped = fabsq(lamx) > refp::PIq;
  if (wrapped) c.event(M.pname() + ": Reverse of (x,y) whose longitude difference exceeds 180 deg (wrapped; judged for range, longitude mod 360, k and gamma only)");
  Out o = M.rfwd(p, lamx);
  if (!(finiteq(o.k) && o.k > 0 && o.k <= KMAX && finiteq(o.x) && finiteq(o.y))) { c.event(M.pname() + ": Reverse-xy results with REF scale > 1e8 (not judged)"); return; }
  // arbitrary (x,y) may be far from the origin: an error equivalent to 16 eps of the given coordinates is backward error
  M.ewfloor = std::max(M.ewfloor, 16 * EPS * (std::fabs(x) + std::fabs(y)));
  double ge = ground_err(M, (double)((Q)x - o.x), (double)((Q)y - o.y), o.k, o.gamma, x, y);
  double tol = M.tolm(); if (M.pk == P_ALB) tol += albers_cond(M, p, x, y);
  // longitude
  // the longitude difference is formed in degrees before it is reduced: its representation (theta/n with its roundings: 32 ulp allowed) is a floor when it wraps
  double lamdeg = std::fabs((double)(lamx / refp::DEGq)), ulplam = std::nextafter(lamdeg, HUGE_VAL) - lamdeg;
  double dl = std::max(0.0, std::fabs((double)remainderq((Q)lon - ((Q)lon0 + lamx / refp::DEGq), 360)) - (lamdeg > 180 ? 32 * ulplam : 0)) * DEG, gl = (double)M.E.r_par(p) * std::fabs(dl);
  if (fabsq(lamx) > 20 * refp::PIq) gl = 0;        // more than ten turns: the longitude modulo 360 is not meaningful either
  if (wrapped) ge = 0;       // lat is then encoded in a relative change ~ eps of rho = a k/(n m): not a property of the principal image
  double err = std::hypot(ge, gl);
  if (c.only) std::fprintf(stderr, "REVXY ge=%.3g gl=%.3g lamdeg=%.17g ulplam=%.3g tol=%.3g k=%.6g\n", ge, gl, lamdeg, ulplam, tol, (double)o.k);
  M.obs(c, grp + ": REF-Forward(Reverse(x,y)) vs (x,y), ground distance / tolerance", err / tol, wit);
  if (!(err <= tol)) M.viol(c, "oracle", "reverse-xy", cls, J(wit).f("lat", lat).f("lon", lon).f("ref_x_of_result", (double)o.x).f("ref_y_of_result", (double)o.y).f("ground_err_nm_wgs84", M.nm(err)).f("tol_nm_wgs84", M.nm(tol)));
  double ek = (double)(fabsq((Q)k - o.k) / o.k), eg = (double)fabsq(remainderq((Q)g - o.gamma / refp::DEGq, 360)) * DEG;
  eg = std::min(eg, std::fabs(eg - 2 * M_PI));
  if (p.c == 0) eg = 0;            // at a pole the meridian direction is undefined
  // REF is evaluated at the returned latitude, which is rounded to a double in degrees: |d ln k / d phi| <~ 2 (1+|e2|)/cos(phi)
  double ulplat = std::nextafter(std::fabs(lat), 100.0) - std::fabs(lat);
  double slackk = M.tolrel() * (1 + std::fabs((double)logq(o.k / (M.pk == P_LCC ? M.rl->k0 : M.pk == P_ALB ? M.ra->k0 : M.rp->k0)))) + 2 * (1 + (double)fabsq(M.E.e2)) * ulplat * DEG / std::max((double)p.c, 1e-300)
                  + (M.pk == P_ALB ? albers_cond(M, p, x, y) / M.e.a / std::max((double)p.c, 1e-300) : 0);
  // within 1% of the apex the direction from the apex is limited by the representation of rho0 and (x,y)
  double slackg = M.tolrel();
  if (n != 0 && finiteq(M.rrho0()) && R > 0 && M.pk != P_PS)      // the documented error of the latitude of origin moves the apex by a k0 dphi0
    slackg += TOL_LAT0_DEG * DEG * M.eccfac() * M.e.a * (double)(M.pk == P_LCC ? M.rl->k0 : M.ra->k0) / (double)R;
  // (16 eps: calibrated on the thorough tier at two seeds, where 8 eps was exceeded once by 13 % on a nearly cylindrical cone 1000 a from the origin)
  if (n != 0 && finiteq(M.rrho0()) && R > 0) slackg += 16 * EPS * (double)((fabsq(M.rrho0()) + fabsq((Q)x) + fabsq((Q)y)) / R);
  if (c.only) std::fprintf(stderr, "REVXY ek=%.3g (slack %.3g) eg=%.3g (slack %.3g)\n", ek, slackk, eg, slackg);
  M.obs(c, grp + ": Reverse(x,y) k,gamma vs REF, error / tolerance", std::max(ek / slackk, eg / slackg), wit);
  scope.panics(c, cls, wit);
  if (!(ek <= slackk && eg <= slackg)) M.viol(c, "oracle", "reverse-xy-scale-convergence", cls, J(wit).f("k", k).f("ref_k", (double)o.k).f("gamma", g).f("ref_gamma", (double)(o.gamma / refp::DEGq)));
}

static void run_reverse_xy(Ctx& c, const Model& M, int npts) {
  vh::Rng& r = c.rng;
  double L = M.e.a * M.k1;
  Q rho0q = M.rrho0(); double rho0 = finiteq(rho0q) ? (double)rho0q : HUGE_VAL;
  for (int i = 0; i < npts; ++i) {
    double lon0, dummy; gen_lons(r, lon0, dummy);
    double x, y; const char* xc;
    switch (r.below(7)) {
    case 0: { SC p = refp::sc_deg(r.uniform(-89.9, 89.9)); Out o = M.rfwd(p, (Q)r.uniform(-M_PI, M_PI));
              x = (double)o.x * (1 + r.uniform(-1e-3, 1e-3)); y = (double)o.y * (1 + r.uniform(-1e-3, 1e-3)); xc = "near-image-point"; break; }
    case 1: x = r.uniform(-3, 3) * L; y = r.uniform(-3, 3) * L; xc = "box"; break;
    case 2: { double m = r.logu(1e-9, 1e3) * L, t = r.uniform(0, 2 * M_PI); x = m * std::cos(t); y = m * std::sin(t); xc = "log-radius-about-origin"; break; }
    case 3: if (std::isfinite(rho0) && std::fabs(rho0) < 1e6 * L) { double m = r.logu(1e-12, 10) * (std::fabs(rho0) + L * 1e-3), t = r.uniform(0, 2 * M_PI); x = m * std::cos(t); y = rho0 + m * std::sin(t); xc = "about-apex"; break; }
            // fallthrough when there is no finite apex
    case 4: x = 0; y = r.coin() ? 0 : r.uniform(-3, 3) * L; xc = "on-central-meridian"; break;
    case 5: if (std::isfinite(rho0) && std::fabs(rho0) < 1e6 * L) { x = r.coin() ? 0 : r.uniform(-1, 1) * L; y = rho0 + (r.coin() ? 0 : r.logu(1e-6, 10) * L * (rho0 >= 0 ? 1 : -1)); xc = "at-or-beyond-apex"; break; }
    default: x = r.uniform(-30, 30) * L; y = r.uniform(-30, 30) * L; xc = "far-box"; break;
    }
    if (!std::isfinite(x) || !std::isfinite(y)) continue;
    check_reverse_xy(c, M, lon0, x, y, xc);
  }
}

// ------------------------------------------------------------------------------ sections
static double gen_k1(vh::Rng& r) { return r.coin(0.6) ? r.pick(K_LADDER) : r.logu(0.1, 10); }

// build + the constructor contract; returns false if there is no object to exercise
static bool build_checked(Ctx& c, Model& M, PK pk, const EllCfg& e, const ParCfg& par, double k1, bool northp) {
  bool expect_throw; std::string what;
  int rc = build(M, pk, e, par, k1, northp, expect_throw, what);
  std::string cls = M.pname() + "/" + M.ccls + "/" + M.e.cls + "/constructor";
  if (expect_throw) {
    c.count(cls, M.h);
    c.event(M.pname() + ": singular standard parallels (documented to throw)");
    if (rc == 0) c.viol(std::string("contract:C11/") + PKN[pk] + "/singular-parallels-accepted/ctor-form" + std::to_string(par.form), cls, M.json());
    return false;
  }
  if (rc != 0) { c.count(cls, M.h); c.viol(std::string("contract:C11/") + PKN[pk] + "/admissible-parameters-rejected/ctor-form" + std::to_string(par.form), cls, J(M.json()).str("what", what)); return false; }
  if (M.ctor_panic) M.viol(c, "hook", "convergence-failure-in-constructor", cls, J(M.json()).u("panics", M.ctor_panic));
  return true;
}

static void exercise(Ctx& c, Model& M, int nrand, int nxy) {
  check_config(c, M);
  run_points(c, M, nrand);
  run_reverse_xy(c, M, nxy);
}

static uint64_t ndir(PK pk) { return pk == P_PS ? (uint64_t)NF * 2 * 4 * 2 : (uint64_t)catalogue().size() * NF * 2 * 4; }

static void sec_dir(Ctx& c, uint64_t idx, PK pk) {
  Model M;
  if (pk == P_PS) {
    bool northp = idx & 1; uint64_t r = idx >> 1; int ik = r % 4; r /= 4; int ia = r % 2; r /= 2; int ie = r % NF;
    if (!build_checked(c, M, pk, mk_ell(A_LADDER[ia], F_LADDER[ie]), ParCfg{}, K_LADDER[ik], northp)) return;
    exercise(c, M, 12, 6);
    return;
  }
  uint64_t np = catalogue().size(); const ParCfg& par = catalogue()[idx % np]; uint64_t r = idx / np;
  int ie = r % NF; r /= NF; int ia = r % 2; r /= 2; int ik = r % 4;
  if (!build_checked(c, M, pk, mk_ell(A_LADDER[ia], F_LADDER[ie]), par, K_LADDER[ik], true)) return;
  exercise(c, M, 3, 3);
}
static void sec_rnd(Ctx& c, uint64_t, PK pk) {
  Model M; vh::Rng& r = c.rng;
  EllCfg e = gen_ell(r); ParCfg par = pk == P_PS ? ParCfg{} : gen_par(r); double k1 = gen_k1(r); bool northp = r.coin();
  if (!build_checked(c, M, pk, e, par, k1, northp)) return;
  exercise(c, M, 8, 4);
}
// more extreme ellipsoids than the property's working range of Math::tauf (own key suffix)
static void sec_extreme(Ctx& c, uint64_t idx) {
  Model M; vh::Rng& r = c.rng; PK pk = (PK)(idx % 3);
  EllCfg e = mk_ell(r.pick(A_LADDER), r.coin() ? r.pick(F_EXTREME) : (r.coin() ? r.uniform(0.55, 0.97) : r.uniform(-5, -2)));
  ParCfg par = pk == P_PS ? ParCfg{} : gen_par(r);
  if (!build_checked(c, M, pk, e, par, gen_k1(r), r.coin())) return;
  exercise(c, M, 6, 3);
}

// ---- two library objects that must describe the same map
static void compare_models(Ctx& c, const Model& A, const Model& B, const char* what, double lon0) {
  static const double LATS[] = {-80, -41.5, -7, 0, 12.25, 33, 61, 85}, DLON[] = {-170, -112, -45, -3, 0, 17, 90, 179};
  std::string cls = A.pname() + "/equivalence/" + what + "/" + A.e.cls;
  c.count(cls, vh::hmix(vh::hmix(A.h, B.h), lon0));
  if (c.want_sample(cls)) c.sample(cls, J().obj("A", A.json()).obj("B", B.json()));
  double worst = 0; J ww;
  for (double lat : LATS) for (double dl : DLON) {
    double la = lat, lb = lat;
    if (A.pk == P_PS && !A.northp) lb = lat;      // same latitudes for both
    double xa, ya, ga, ka, xb, yb, gb, kb;
    A.fwd(lon0, la, lon0 + dl, xa, ya, ga, ka); B.fwd(B.pk == P_PS ? 0 : lon0, lb, (B.pk == P_PS ? 0 : lon0) + dl, xb, yb, gb, kb);
    if (!(ka < KMAX)) continue;
    PtScope scope(A, refp::sc_deg(la), xa, ya);
    if (!A.ptregime.empty()) continue;
    double ge = ground_err(A, xa - xb, ya - yb, ka, ga * DEG, xa, ya);
    double e = std::max(ge / A.tolm(), std::max(std::fabs(ka / kb - 1), std::fabs(std::remainder(ga - gb, 360.0)) * DEG / (1 + std::fabs(ga) * DEG)) / A.tolrel());
    if (e > worst) { worst = e; ww = J().f("lat", lat).f("dlon", dl).f("xA", xa).f("yA", ya).f("xB", xb).f("yB", yb).f("kA", ka).f("kB", kb).f("gA", ga).f("gB", gb); }
  }
  A.obs(c, A.pname() + " " + A.e.grp + ": equivalent constructors, 64-point lattice, worst error / tolerance", worst, J().obj("A", A.json()).obj("B", B.json()));
  if (!(worst <= 1)) A.viol(c, "law", std::string("constructor-equivalence/") + what, cls, J(ww).obj("A", A.json()).obj("B", B.json()).f("lon0", lon0));
}
static double rd(Q v) { return (double)v; }
static void sec_equiv(Ctx& c, uint64_t idx) {
  vh::Rng& r = c.rng; PK pk = (idx & 1) ? P_ALB : P_LCC;
  EllCfg e = gen_ell(r); double k1 = gen_k1(r), lon0 = r.coin(0.3) ? r.sign() * 180 : r.uniform(-180, 180);
  if (pk == P_LCC && r.coin(0.15)) lon0 = 0;
  static const double L1[] = {0, 1e-10, -1e-10, 30, -30, 89.999999, -89.999999, 90, -90};
  double l1 = r.coin(0.5) ? r.pick(L1) : gen_lat_any(r);
  bool et; std::string w;
  if (r.coin(0.6)) {                         // coinciding parallels: three constructors
    double sl1, cl1; Math::sincosd(l1, sl1, cl1);       // exactly the values the degree constructors pass to Init
    Model A, B, C;
    if (build(A, pk, e, par1(l1, "single"), k1, true, et, w) || et) { c.herr("equiv: unexpected throw " + w); return; }
    if (build(B, pk, e, par2(l1, l1, "pair/coincident"), k1, true, et, w) || et) { c.herr("equiv: unexpected throw " + w); return; }
    if (build(C, pk, e, par3(sl1, cl1, sl1, cl1, "sincos/coincident"), k1, true, et, w) || et) { c.herr("equiv: unexpected throw " + w); return; }
    compare_models(c, A, B, "one-parallel-vs-two-parallel", lon0);
    compare_models(c, A, C, "one-parallel-vs-sincos", lon0);
    if (pk == P_LCC && std::fabs(l1) == 90 && lon0 == 0) {      // polar limit of the conic = polar stereographic
      Model P; build(P, P_PS, e, ParCfg{}, k1, l1 > 0, et, w);
      compare_models(c, A, P, "lcc-at-pole-vs-polarstereographic", 0);
    }
  } else {                                   // distinct parallels: degrees vs sin/cos, and order of the parallels
    double l2 = r.coin(0.4) ? l1 + r.sign() * r.logu(1e-9, 10) : r.uniform(-89.9, 89.9);
    if (std::fabs(l1) >= 90) l1 = r.uniform(-89.9, 89.9);
    if (std::fabs(l2) >= 90 || l2 == l1) l2 = l1 > 0 ? l1 - 1 : l1 + 1;
    double sl1, cl1, sl2, cl2; Math::sincosd(l1, sl1, cl1); Math::sincosd(l2, sl2, cl2);
    Model A, B, C;
    if (build(A, pk, e, par2(l1, l2, "pair"), k1, true, et, w) || et) { c.herr("equiv: unexpected throw " + w); return; }
    if (build(B, pk, e, par2(l2, l1, "pair"), k1, true, et, w) || et) { c.herr("equiv: unexpected throw " + w); return; }
    if (build(C, pk, e, par3(sl1, cl1, sl2, cl2, "sincos/pair"), k1, true, et, w) || et) { c.herr("equiv: unexpected throw " + w); return; }
    compare_models(c, A, B, "order-of-parallels", lon0);
    compare_models(c, A, C, "two-parallel-vs-sincos", lon0);
  }
}

// ---- SetScale
static void sec_setscale(Ctx& c, uint64_t idx) {
  vh::Rng& r = c.rng; PK pk = (PK)(idx % 3);
  EllCfg e = gen_ell(r); ParCfg par = pk == P_PS ? ParCfg{} : gen_par(r); double k1 = gen_k1(r);
  Model M;
  if (!build_checked(c, M, pk, e, par, k1, r.coin())) return;
  double lat = r.coin(0.2) ? (r.coin() ? 90.0 : -90.0) : (r.coin(0.3) ? gen_lat_any(r) : r.uniform(-90, 90));
  if (r.coin(0.15) && pk != P_PS && par.form != 3) lat = r.coin() ? par.lat1 : par.lat2;
  double ks = r.coin(0.3) ? 1.0 : r.logu(0.2, 5);
  SC p = refp::sc_deg(lat);
  // reference scale before the call (PolarStereographic::SetScale always refers to the north aspect)
  Q kold = pk == P_LCC ? M.rl->scale(p) : pk == P_ALB ? M.ra->scale(p) : M.rp->fwd(true, p, 0).k;
  bool must_throw, may_throw = false;
  if (pk == P_LCC) must_throw = std::fabs(lat) == 90 && !(par.p1().c == 0 && lat * (double)M.rl->n > 0);
  else if (pk == P_ALB) must_throw = std::fabs(lat) == 90;
  else must_throw = lat == -90;
  std::string cls = M.pname() + "/" + M.ccls + "/" + M.e.cls + "/setscale-" + latcls(lat);
  c.count(cls, vh::hmix(vh::hmix(M.h, lat), ks));
  J wit = J(M.json()).f("setscale_lat", lat).f("setscale_k", ks);
  if (c.want_sample(cls)) c.sample(cls, wit);
  bool threw = false;
  double cs0 = pk == P_LCC ? M.lccp->CentralScale() : pk == P_ALB ? M.albp->CentralScale() : M.psp->CentralScale();
  try { if (pk == P_LCC) M.lcc->SetScale(lat, ks); else if (pk == P_ALB) M.alb->SetScale(lat, ks); else M.ps->SetScale(lat, ks); }
  catch (const GeographicErr&) { threw = true; }
  (void)may_throw;
  if (must_throw) { c.event(M.pname() + ": SetScale at an inadmissible latitude (documented to throw)");
    if (!threw) c.viol(std::string("contract:C11/") + PKN[pk] + "/setscale-inadmissible-latitude-accepted", cls, wit);
    return; }
  if (threw) { c.viol(std::string("contract:C11/") + PKN[pk] + "/setscale-admissible-latitude-rejected", cls, wit); return; }
  if (!(finiteq(kold) && kold > 0 && kold < 1e3 * (Q)k1 && kold > 1e-3 * (Q)k1 && ks / (double)kold < 1e2 && ks / (double)kold > 1e-2)) { c.event(M.pname() + ": SetScale where the old scale is extreme or the rescaling exceeds 1e+-2 (not judged)"); return; }
  // new reference: the scale is linear in k1
  double cs = pk == P_LCC ? M.lccp->CentralScale() : pk == P_ALB ? M.albp->CentralScale() : M.psp->CentralScale();
  // the new reference uses the library's own ratio of central scales (so that the point monitors below judge the
  // consistency of the rescaled object, not the accuracy of the old scale at lat once more); the ratio itself is judged
  // against ks/kold with the tolerance model of Forward k at lat
  Q k1n = (Q)k1 * (Q)cs / (Q)cs0, k1ideal = (Q)k1 * (Q)ks / kold, kold0 = pk == P_LCC ? M.rl->k0 : pk == P_ALB ? M.ra->k0 : M.rp->k0;
  if (pk == P_LCC) M.rl.reset(new refp::LCC(M.E, par.p1(), par.p2(), k1n));
  else if (pk == P_ALB) M.ra.reset(new refp::Albers(M.E, par.p1(), par.p2(), k1n));
  else M.rp.reset(new refp::PolarStereo(M.E, k1n));
  M.k1 = (double)k1n; M.ccls += "/after-SetScale"; M.kpre += "after-SetScale/";
  // requested scale at requested latitude
  double tss;
  PtScope sscope(M, p, 0, 0);
  {
    double x, y, g, k; bool np = M.northp; M.northp = true; M.fwd(0, lat, 0, x, y, g, k); M.northp = np;
    double e1 = std::fabs(k / ks - 1);
    // the old scale at lat enters the rescaling: same tolerance model as Forward k (|ln k/k0| eps, Albers kappa eps)
    tss = M.tolrel() * (2 + std::fabs((double)logq(kold / kold0))) + (pk == P_ALB ? 4 * std::min(albers_kappa(M, p), 64.0) * EPS : 0);
    M.obs(c, M.pname() + " " + M.e.grp + ": scale after SetScale(lat,k) at lat vs k, relative [units of 10nm/a_WGS84; tol " + std::to_string((int)KS) + "]", e1 / (TOL_REL / KS), wit);
    if (!(e1 <= tss)) M.viol(c, "law", "setscale-requested-scale", cls, J(wit).f("k_at_lat", k));
  }
  // the ratio of central scales applied by SetScale vs the ideal ks/kold
  {
    double er = (double)fabsq(k1n / k1ideal - 1);
    M.obs(c, M.pname() + " " + M.e.grp + ": SetScale: applied rescaling vs k/k_old(lat), relative error / tolerance", er / tss, wit);
    if (!(er <= tss)) M.viol(c, "law", "setscale-central-scale", cls, J(wit).f("central_scale_before", cs0).f("central_scale_after", cs).f("ideal_ratio", (double)(k1ideal / (Q)k1)));
  }
  // and the object is still a consistent projection (all point monitors against the rescaled reference)
  run_points(c, M, 4);
  run_reverse_xy(c, M, 2);
}

// ---- documented exceptions for inadmissible parameters
template <class Fn> static void must_throw(Ctx& c, const char* site, Fn fn) {
  std::string cls = std::string("contract/") + site;
  c.count(cls, vh::hstr(site), true);
  bool threw = false;
  try { fn(); } catch (const GeographicErr&) { threw = true; }
  if (!threw) c.viol(std::string("contract:C11/should-throw/") + site, cls, J().str("site", site));
}
static void sec_throws(Ctx& c, uint64_t idx) {
  const double a = 6.4e6, f = 1 / 298.25, NaN = std::numeric_limits<double>::quiet_NaN(), Inf = HUGE_VAL;
  static const double bad_a[] = {0, -1, NaN, Inf}, bad_f[] = {1, 1.5, NaN, Inf}, bad_k[] = {0, -1, NaN, Inf}, bad_lat[] = {90.00000000000001, -91, NaN, Inf};
  int j = idx % 4;
  switch (idx / 4) {
  case 0: must_throw(c, "lcc/ctor1/a", [&] { LambertConformalConic(bad_a[j], f, 30, 1); }); must_throw(c, "lcc/ctor2/a", [&] { LambertConformalConic(bad_a[j], f, 30, 40, 1); }); must_throw(c, "lcc/ctor3/a", [&] { LambertConformalConic(bad_a[j], f, 0.5, 0.8, 0.6, 0.8, 1); });
          must_throw(c, "albers/ctor1/a", [&] { AlbersEqualArea(bad_a[j], f, 30, 1); }); must_throw(c, "albers/ctor2/a", [&] { AlbersEqualArea(bad_a[j], f, 30, 40, 1); }); must_throw(c, "albers/ctor3/a", [&] { AlbersEqualArea(bad_a[j], f, 0.5, 0.8, 0.6, 0.8, 1); });
          must_throw(c, "polarstereo/ctor/a", [&] { PolarStereographic(bad_a[j], f, 1); }); break;
  case 1: must_throw(c, "lcc/ctor1/f", [&] { LambertConformalConic(a, bad_f[j], 30, 1); }); must_throw(c, "lcc/ctor2/f", [&] { LambertConformalConic(a, bad_f[j], 30, 40, 1); }); must_throw(c, "lcc/ctor3/f", [&] { LambertConformalConic(a, bad_f[j], 0.5, 0.8, 0.6, 0.8, 1); });
          must_throw(c, "albers/ctor1/f", [&] { AlbersEqualArea(a, bad_f[j], 30, 1); }); must_throw(c, "albers/ctor2/f", [&] { AlbersEqualArea(a, bad_f[j], 30, 40, 1); }); must_throw(c, "albers/ctor3/f", [&] { AlbersEqualArea(a, bad_f[j], 0.5, 0.8, 0.6, 0.8, 1); });
          must_throw(c, "polarstereo/ctor/f", [&] { PolarStereographic(a, bad_f[j], 1); }); break;
  case 2: must_throw(c, "lcc/ctor1/k", [&] { LambertConformalConic(a, f, 30, bad_k[j]); }); must_throw(c, "lcc/ctor2/k", [&] { LambertConformalConic(a, f, 30, 40, bad_k[j]); }); must_throw(c, "lcc/ctor3/k", [&] { LambertConformalConic(a, f, 0.5, 0.8, 0.6, 0.8, bad_k[j]); });
          must_throw(c, "albers/ctor1/k", [&] { AlbersEqualArea(a, f, 30, bad_k[j]); }); must_throw(c, "albers/ctor2/k", [&] { AlbersEqualArea(a, f, 30, 40, bad_k[j]); }); must_throw(c, "albers/ctor3/k", [&] { AlbersEqualArea(a, f, 0.5, 0.8, 0.6, 0.8, bad_k[j]); });
          must_throw(c, "polarstereo/ctor/k", [&] { PolarStereographic(a, f, bad_k[j]); });
          must_throw(c, "lcc/setscale/k", [&] { LambertConformalConic P(a, f, 30, 1); P.SetScale(20, bad_k[j]); }); must_throw(c, "albers/setscale/k", [&] { AlbersEqualArea P(a, f, 30, 1); P.SetScale(20, bad_k[j]); });
          must_throw(c, "polarstereo/setscale/k", [&] { PolarStereographic P(a, f, 1); P.SetScale(20, bad_k[j]); }); break;
  case 3: must_throw(c, "lcc/ctor1/stdlat", [&] { LambertConformalConic(a, f, bad_lat[j], 1); }); must_throw(c, "lcc/ctor2/stdlat1", [&] { LambertConformalConic(a, f, bad_lat[j], 40, 1); }); must_throw(c, "lcc/ctor2/stdlat2", [&] { LambertConformalConic(a, f, 40, bad_lat[j], 1); });
          must_throw(c, "albers/ctor1/stdlat", [&] { AlbersEqualArea(a, f, bad_lat[j], 1); }); must_throw(c, "albers/ctor2/stdlat1", [&] { AlbersEqualArea(a, f, bad_lat[j], 40, 1); }); must_throw(c, "albers/ctor2/stdlat2", [&] { AlbersEqualArea(a, f, 40, bad_lat[j], 1); });
          must_throw(c, "lcc/setscale/lat", [&] { LambertConformalConic P(a, f, 30, 1); P.SetScale(bad_lat[j], 1); }); must_throw(c, "albers/setscale/lat", [&] { AlbersEqualArea P(a, f, 30, 1); P.SetScale(bad_lat[j], 1); });
          must_throw(c, "polarstereo/setscale/lat", [&] { PolarStereographic P(a, f, 1); P.SetScale(bad_lat[j], 1); }); break;
  case 4: { static const double bs[][2] = {{0.5, -0.5}, {1.5, 0.5}, {0, 0}, {NaN, 0.5}};    // (sin, cos): negative cos, |sin|>1, both zero, NaN
          double s = bs[j][0], co = bs[j][1];
          must_throw(c, "lcc/ctor3/sincos1", [&] { LambertConformalConic(a, f, s, co, 0.6, 0.8, 1); }); must_throw(c, "lcc/ctor3/sincos2", [&] { LambertConformalConic(a, f, 0.6, 0.8, s, co, 1); });
          must_throw(c, "albers/ctor3/sincos1", [&] { AlbersEqualArea(a, f, s, co, 0.6, 0.8, 1); }); must_throw(c, "albers/ctor3/sincos2", [&] { AlbersEqualArea(a, f, 0.6, 0.8, s, co, 1); }); break; }
  default: {   // singular pairs and polar SetScale
          static const double pl[][2] = {{90, -90}, {-90, 90}, {90, 30}, {-20, -90}};
          double l1 = pl[j][0], l2 = pl[j][1];
          must_throw(c, "lcc/ctor2/distinct-parallels-one-at-pole", [&] { LambertConformalConic(a, f, l1, l2, 1); });
          SC p1 = refp::sc_deg(l1), p2 = refp::sc_deg(l2);
          must_throw(c, "lcc/ctor3/distinct-parallels-one-at-pole", [&] { LambertConformalConic(a, f, rd(p1.s), rd(p1.c), rd(p2.s), rd(p2.c), 1); });
          if (j < 2) { must_throw(c, "albers/ctor2/opposite-poles", [&] { AlbersEqualArea(a, f, l1, l2, 1); });
                       must_throw(c, "albers/ctor3/opposite-poles", [&] { AlbersEqualArea(a, f, rd(p1.s), rd(p1.c), rd(p2.s), rd(p2.c), 1); }); }
          must_throw(c, "albers/setscale/pole", [&] { AlbersEqualArea P(a, f, 30, 1); P.SetScale(j & 1 ? 90 : -90, 1); });
          must_throw(c, "lcc/setscale/pole-of-nonpolar-cone", [&] { LambertConformalConic P(a, f, j & 1 ? 30 : 0, 1); P.SetScale(j & 2 ? 90 : -90, 1); });
          must_throw(c, "lcc/setscale/far-pole-of-polar-cone", [&] { LambertConformalConic P(a, f, j & 1 ? 90 : -90, 1); P.SetScale(j & 1 ? -90 : 90, 1); });
          must_throw(c, "polarstereo/setscale/south-pole", [&] { PolarStereographic P(a, f, 1); P.SetScale(-90, 1); }); } break;
  }
}

// ---- the static singletons against the separately coded limiting closed forms
static void sec_statics(Ctx& c, uint64_t idx) {
  vh::Rng& r = c.rng;
  EllCfg e = mk_ell(Constants::WGS84_a(), Constants::WGS84_f());
  Model M; M.e = e; M.E = refp::Ell(e.a, e.f); M.northp = true; M.k1 = 1;
  int which = idx % 5;
  static const char* nm[] = {"static-UPS", "static-Mercator", "static-CylindricalEqualArea", "static-AzimuthalEqualAreaNorth", "static-AzimuthalEqualAreaSouth"};
  M.ccls = nm[which]; M.h = vh::hstr(nm[which]);
  switch (which) {
  case 0: M.pk = P_PS; M.psp = &PolarStereographic::UPS(); M.k1 = 0.994; M.northp = r.coin(); M.rp.reset(new refp::PolarStereo(M.E, (Q)Constants::UPS_k0())); break;
  case 1: M.pk = P_LCC; M.lccp = &LambertConformalConic::Mercator(); M.par = par1(0, nm[which]); M.rl.reset(new refp::LCC(M.E, refp::sc_deg(0), refp::sc_deg(0), 1)); break;
  case 2: M.pk = P_ALB; M.albp = &AlbersEqualArea::CylindricalEqualArea(); M.par = par1(0, nm[which]); M.ra.reset(new refp::Albers(M.E, refp::sc_deg(0), refp::sc_deg(0), 1)); break;
  case 3: M.pk = P_ALB; M.albp = &AlbersEqualArea::AzimuthalEqualAreaNorth(); M.par = par1(90, nm[which]); M.ra.reset(new refp::Albers(M.E, refp::sc_deg(90), refp::sc_deg(90), 1)); break;
  default: M.pk = P_ALB; M.albp = &AlbersEqualArea::AzimuthalEqualAreaSouth(); M.par = par1(-90, nm[which]); M.ra.reset(new refp::Albers(M.E, refp::sc_deg(-90), refp::sc_deg(-90), 1)); break;
  }
  if (which == 0 && Constants::UPS_k0() != 0.994) c.viol("oracle:C11/polarstereo/ups-k0", M.ccls, J().f("got", Constants::UPS_k0()));
  exercise(c, M, 10, 4);
  // direct comparison with the special-case textbook forms (not via the general conic REF)
  for (int i = 0; i < 8; ++i) {
    double lat = i == 0 ? 0 : gen_lat_any(r), lon0, lon; gen_lons(r, lon0, lon); if (which == 0) lon0 = 0;
    double x, y, g, k; M.fwd(lon0, lat, lon, x, y, g, k);
    SC p = refp::sc_deg(lat); Q lam = lam_of(lon0, lon); Out o;
    if (fabsq(lam) == refp::PIq) continue;
    switch (which) {
    case 0: o = M.rp->fwd(M.northp, p, lam); break;
    case 1: o = refp::Mercator(M.E, 1).fwd(p, lam); break;
    case 2: o = refp::CylEA(M.E, 1).fwd(p, lam); break;
    case 3: o = refp::AzimEA(M.E).fwd(true, p, lam); break;
    default: o = refp::AzimEA(M.E).fwd(false, p, lam); break;
    }
    if (!(finiteq(o.k) && o.k <= KMAX)) continue;
    PtScope scope(M, p, x, y);
    double ge = ground_err(M, (double)((Q)x - o.x), (double)((Q)y - o.y), o.k, o.gamma, x, y);
    c.count(std::string("statics/") + nm[which] + "/vs-special-closed-form", vh::hmix(vh::hmix(M.h, lat), lon));
    M.obs(c, std::string(nm[which]) + " vs special-case closed form, ground distance [nm]", M.nm(ge), J().f("lat", lat).f("lon0", lon0).f("lon", lon));
    if (!(ge <= M.tolm())) c.viol(std::string("oracle:C11/") + nm[which] + "/forward-vs-special-closed-form", M.ccls, J().f("lat", lat).f("lon0", lon0).f("lon", lon).f("x", x).f("y", y).f("ref_x", (double)o.x).f("ref_y", (double)o.y));
  }
}

// ---- oracle self-validation (failure = harness error, never a verdict)
static void sec_selftest(Ctx& c, uint64_t idx) {
  vh::Rng& r = c.rng;
  EllCfg e = idx < (uint64_t)NF ? mk_ell(6.4e6, F_LADDER[idx]) : gen_ell(r);
  refp::Ell E(e.a, e.f);
  c.count("selftest/" + e.cls, idx, true);
  auto rel = [&](Q a, Q b, Q scale) { return (double)(fabsq(a - b) / scale); };
  Q k1 = (Q)gen_k1(r);
  auto bad = [&](const std::string& w) { c.herr("REF self-test failed: " + w + " a=" + vh::jnum(e.a) + " f=" + vh::jnum(e.f)); };
  // 1. general conic REF in its limits vs the separately coded special projections
  for (int i = 0; i < 6; ++i) {
    double lat = i == 0 ? 90 : i == 1 ? -90 : gen_lat_any(r); SC p = refp::sc_deg(lat); Q lam = (Q)r.uniform(-M_PI, M_PI), L = E.a * k1;
    refp::LCC m0(E, refp::sc_deg(0), refp::sc_deg(0), k1); Out a = m0.fwd(p, lam), b = refp::Mercator(E, k1).fwd(p, lam);
    if (p.c != 0 && !(rel(a.x, b.x, L) < 1e-28 && rel(a.y, b.y, L * (1 + fabsq(b.y) / L)) < 1e-28 && rel(a.k, b.k, b.k) < 1e-28)) bad("LCC(0) vs Mercator");
    refp::LCC s0(E, refp::sc_deg(-35), refp::sc_deg(35), k1); a = s0.fwd(p, lam); b = refp::Mercator(E, k1 * E.m(refp::sc_deg(35))).fwd(p, lam);
    if (p.c != 0 && !(s0.n == 0 && rel(a.x, b.x, L) < 1e-28 && rel(a.y, b.y, L * (1 + fabsq(b.y) / L)) < 1e-28 && rel(a.k, b.k, b.k) < 1e-28)) bad("LCC(-35,35) vs Mercator");
    for (int np = 0; np < 2; ++np) {
      refp::LCC mp(E, refp::sc_deg(np ? 90 : -90), refp::sc_deg(np ? 90 : -90), k1); a = mp.fwd(p, lam); b = refp::PolarStereo(E, k1).fwd(np, p, lam);
      bool far = p.c == 0 && (p.s > 0) != (bool)np;
      if (!far && !(rel(a.x, b.x, L + fabsq(b.x)) < 1e-28 && rel(a.y, b.y, L + fabsq(b.y)) < 1e-28 && rel(a.k, b.k, b.k) < 1e-28 && rel(a.gamma, b.gamma, 1) < 1e-30)) bad("LCC(pole) vs polar stereographic");
      refp::Albers ap(E, refp::sc_deg(np ? 90 : -90), refp::sc_deg(np ? 90 : -90), 1); a = ap.fwd(p, lam); b = refp::AzimEA(E).fwd(np, p, lam);
      if (!(rel(a.x, b.x, E.a) < 1e-28 && rel(a.y, b.y, E.a) < 1e-28 && (far || rel(a.k, b.k, b.k) < 1e-28))) bad("Albers(pole) vs azimuthal equal-area");
    }
    refp::Albers c0(E, refp::sc_deg(0), refp::sc_deg(0), k1); a = c0.fwd(p, lam); b = refp::CylEA(E, k1).fwd(p, lam);
    if (!(rel(a.x, b.x, L) < 1e-28 && rel(a.y, b.y, E.a / k1) < 1e-28 && (p.c == 0 || rel(a.k, b.k, b.k) < 1e-28))) bad("Albers(0) vs cylindrical equal-area");
    refp::Albers c1(E, refp::sc_deg(-50), refp::sc_deg(50), k1); a = c1.fwd(p, lam); b = refp::CylEA(E, k1 * E.m(refp::sc_deg(50))).fwd(p, lam);
    if (!(c1.n == 0 && rel(a.x, b.x, L) < 1e-28 && rel(a.y, b.y, E.a / k1) < 1e-28)) bad("Albers(-50,50) vs cylindrical equal-area");
  }
  // 2. general conic: stable forms vs Snyder's literal formulas, and the REF's own k/gamma vs its finite-difference Jacobian
  for (int i = 0; i < 6; ++i) {
    ParCfg par = gen_par(r); SC p1 = par.p1(), p2 = par.p2();
    double lat = r.uniform(-89, 89); SC p = refp::sc_deg(lat); Q lam = (Q)r.uniform(-3, 3);
    for (int alb = 0; alb < 2; ++alb) {
      refp::LCC ml(E, p1, p2, k1); refp::Albers ma(E, p1, p2, k1);
      if (alb ? !ma.ok : !ml.ok) continue;
      Q n = alb ? ma.n : ml.n; Out a = alb ? ma.fwd(p, lam) : ml.fwd(p, lam);
      auto F = [&](Q ph, Q lm) { SC q = refp::sc_rad(ph); return alb ? ma.fwd(q, lm) : ml.fwd(q, lm); };
      if (fabsq(n) > 1e-3Q && fabsq(n) < 20 && p1.c > 1e-6Q && p2.c > 1e-6Q) {
        Q rho, rho0;
        if (alb) { rho = E.a * sqrtq(ma.C - n * E.q(p)) / n; rho0 = E.a * sqrtq(ma.C - n * E.q(ma.p0)) / n; }                       // (14-3),(14-3a)
        else if (ml.polar) { rho = 0; rho0 = 0; n = 0; }
        else { Q Fc = E.m(p1) / (n * expq(-n * E.psi(p1))); rho = E.a * (Q)k1 * Fc * expq(-n * E.psi(p)); rho0 = E.a * (Q)k1 * Fc * expq(-n * E.psi(ml.p0)); }   // (15-7),(15-7a),(15-10)
        if (n != 0) {
          Q xs = rho * sinq(n * lam), ys = rho0 - rho * cosq(n * lam), sc = fabsq(rho) + fabsq(rho0);
          if (!(rel(a.x, xs, sc) < 1e-26 && rel(a.y, ys, sc) < 1e-26)) bad(std::string(alb ? "Albers" : "LCC") + " stable vs literal Snyder form " + par.json().done());
          if (alb && !(rel(a.k, rho * n / (E.a * E.m(p)), a.k) < 1e-24)) bad("Albers k vs rho n/(a m)");
        }
      }
      if (finiteq(a.k) && a.k < 1e6 && a.k > 0) {
        Q ph = refp::lat_rad(p), h = 1e-9Q;
        Out e1 = F(ph, lam + h), e0 = F(ph, lam - h), n1 = F(ph + h, lam), n0 = F(ph - h, lam);
        Q rp = E.r_par(p), rm = E.rho_mer(p);
        Q Ex = (e1.x - e0.x) / (2 * h * rp), Ey = (e1.y - e0.y) / (2 * h * rp), Nx = (n1.x - n0.x) / (2 * h * rm), Ny = (n1.y - n0.y) / (2 * h * rm);
        Q cg = cosq(a.gamma), sg = sinq(a.gamma), kk = a.k, kn = alb ? 1 / a.k : a.k;
        double tol = 1e-13 * (1 + (double)fabsq(n));
        if (!(rel(Ex, kk * cg, kk) < tol && rel(Ey, kk * sg, kk) < tol && rel(Nx, -kn * sg, kn) < tol && rel(Ny, kn * cg, kn) < tol))
          bad(std::string(alb ? "Albers" : "LCC") + " REF k/gamma vs REF finite-difference Jacobian " + par.json().done() + " lat=" + vh::jnum(lat));
      }
    }
  }
}

int main(int argc, char** argv) {
  std::vector<Section> S;
  S.push_back({"selftest", 60, 400, false, sec_selftest});
  S.push_back({"throws", 24, 24, false, sec_throws});
  S.push_back({"statics", 50, 2000, false, sec_statics});
  S.push_back({"lcc_dir", ndir(P_LCC), ndir(P_LCC), false, [](Ctx& c, uint64_t i) { sec_dir(c, i, P_LCC); }});
  S.push_back({"alb_dir", ndir(P_ALB), ndir(P_ALB), false, [](Ctx& c, uint64_t i) { sec_dir(c, i, P_ALB); }});
  S.push_back({"ps_dir", ndir(P_PS), ndir(P_PS), false, [](Ctx& c, uint64_t i) { sec_dir(c, i, P_PS); }});
  S.push_back({"lcc_rnd", 6000, 250000, true, [](Ctx& c, uint64_t i) { sec_rnd(c, i, P_LCC); }});
  S.push_back({"alb_rnd", 6000, 250000, true, [](Ctx& c, uint64_t i) { sec_rnd(c, i, P_ALB); }});
  S.push_back({"ps_rnd", 2000, 80000, true, [](Ctx& c, uint64_t i) { sec_rnd(c, i, P_PS); }});
  S.push_back({"equiv", 4000, 150000, true, sec_equiv});
  S.push_back({"setscale", 4000, 150000, true, sec_setscale});
  S.push_back({"extreme", 1500, 60000, true, sec_extreme});
  return vh::run_sections(argc, argv, S);
}
