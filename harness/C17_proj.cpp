// C17 (A) — projections built on geodesics: AzimuthalEquidistant, Gnomonic, CassiniSoldner.
// Oracle: float128 reference geodesic (oracle/ref_geod.hpp).  Points are constructed from the
// centre (azimuth + distance, or the two-leg Cassini-Soldner construction), the reference end
// point is rounded to doubles and the reference parameters are Newton-corrected for that
// rounding, so the truth (s12, azi1, azi2, m12, M12) belongs to exactly the doubles handed to
// Forward.  Reverse is judged directly (its inputs x,y are the construction parameters).
// Error measures are the author's (develop/GeodTest.cpp): ground distance for positions and
// lengths, azimuth error x |m12| for azimuths obtained from an inverse problem, azimuth error
// x a for azimuths obtained from a direct problem, |dM12| x a for geodesic scales.
#include "harness/value_semantics.hpp"
#include <GeographicLib/AzimuthalEquidistant.hpp>
#include <GeographicLib/Gnomonic.hpp>
#include <GeographicLib/CassiniSoldner.hpp>
#include "harness/geod_common.hpp"
#include "oracle/ref_exact.hpp"

using namespace GeographicLib;
using vh::Ctx; using vh::J; using vh::Section;
using gh::q128;
typedef long double ld;
static const double K_TOL = 2.0;                 // x documented accuracy of the underlying geodesic solver
static const double DEG = M_PI / 180;

// A violation inside a KNOWN regime reports under the single regime key, with the monitor that fired in detail.monitor
static void viol_rg(Ctx& c, const std::string& rg, const std::string& key, const std::string& cls, const J& d) {
  if (rg.empty()) c.viol(key, cls, d); else c.viol(std::string("regime:C17/proj") + rg, cls, J(d).str("monitor", key));
}
struct EllCfg {
  std::string name; double a, f; bool exact; double tol, tolM, b, qm;
  std::unique_ptr<Geodesic> g; std::unique_ptr<AzimuthalEquidistant> ae; std::unique_ptr<Gnomonic> gn;
  std::unique_ptr<ref::Ell<q128>> Eq; std::unique_ptr<ref::Ell<ld>> El;
};
static std::vector<EllCfg>& ells() {
  static std::vector<EllCfg> v;
  if (v.empty()) {
    struct S { const char* n; double a, f; bool ex; };
    static const S s[] = {{"wgs84", gh::WGS84_A, gh::WGS84_F, false}, {"sphere", gh::WGS84_A, 0, false}, {"f=+0.01", gh::WGS84_A, 0.01, false},
      {"f=-0.01", gh::WGS84_A, -0.01, false}, {"f=+0.1-exact", gh::WGS84_A, 0.1, true}, {"wgs84-exact", gh::WGS84_A, gh::WGS84_F, true},
      {"f=-0.1-exact", gh::WGS84_A, -0.1, true}, {"a=1,f=1/150", 1.0, 1.0 / 150, false}};
    for (const S& e : s) {
      EllCfg c; c.name = e.n; c.a = e.a; c.f = e.f; c.exact = e.ex; c.b = e.a * (1 - e.f); c.qm = gh::quarter_meridian(e.a, e.f);
      c.tol = e.ex ? gh::doc_exact(c.b / c.a) * c.qm / 1e7 : gh::doc_series(e.f) * e.a / gh::WGS84_A; c.tolM = c.tol / c.a;
      // detached copies (harness/value_semantics.hpp); the projections are moreover constructed from a Geodesic that is then overwritten and destroyed
      c.g.reset(vh::detached_new<Geodesic>([&] { return Geodesic(e.a, e.f, e.ex); }, [&] { return Geodesic(e.a * 1.25, 0.015, false); }));
      { std::unique_ptr<Geodesic> tmp(new Geodesic(e.a, e.f, e.ex));
        c.ae.reset(vh::detached_new<AzimuthalEquidistant>([&] { return AzimuthalEquidistant(*tmp); }, [&] { return AzimuthalEquidistant(Geodesic(e.a * 1.25, 0.015)); }));
        c.gn.reset(vh::detached_new<Gnomonic>([&] { return Gnomonic(*tmp); }, [&] { return Gnomonic(Geodesic(e.a * 1.25, 0.015)); }));
        *tmp = Geodesic(e.a * 0.8, 0.012); }
      c.Eq.reset(new ref::Ell<q128>(e.a, e.f)); c.El.reset(new ref::Ell<ld>((ld)e.a, (ld)e.f));
      v.push_back(std::move(c));
    }
  }
  return v;
}
static EllCfg& pick_ell(vh::Rng& r) { static const int w[] = {0, 0, 0, 1, 2, 3, 4, 4, 5, 6, 7}; return ells()[w[r.below(11)]]; }

template <class T> static const ref::Ell<T>& ellT(const EllCfg& e);
template <> const ref::Ell<q128>& ellT<q128>(const EllCfg& e) { return *e.Eq; }
template <> const ref::Ell<ld>& ellT<ld>(const EllCfg& e) { return *e.El; }

// normalise a longitude (q128, degrees) into [-180,180] and round to double
static double lon_to_double(q128 lon) { q128 r = ref::remainder(lon, (q128)360); double d = (double)r; if (d > 180) d = 180; if (d < -180) d = -180; return d; }

// local (north, east) displacement in metres from the reference position to the double position
template <class T> static void local_ne(const ref::Ell<T>& E, T latref, T lonref, double latd, double lond, T& dN, T& dE) {
  T sp, cp; ref::sincosd((T)latd, sp, cp);
  dN = ((T)latd - latref) * ref::deg<T>() * E.rho(sp);
  dE = ref::remainder((T)lond - lonref, (T)360) * ref::deg<T>() * E.nu(sp) * cp;
}

// ---- reference geodesic from the centre through a point given as doubles
template <class T> struct Ray { T azi1, s12; ref::GeodPos<T> P; double resid; };
template <class T> static Ray<T> ray_refine(const ref::Ell<T>& E, double lat0, double lon0, T azi1, T s12, double latd, double lond, int maxit, double thr) {
  Ray<T> R; R.azi1 = azi1; R.s12 = s12; R.resid = HUGE_VAL;
  for (int it = 0; it < maxit; ++it) {
    ref::GeodLine<T> L(E, (T)lat0, R.azi1); R.P = L.at_dist(R.s12);
    T dN, dE; local_ne<T>(E, R.P.lat2, (T)lon0 + R.P.lon12, latd, lond, dN, dE);
    R.resid = (double)ref::hypot(dN, dE);
    if (R.resid <= thr || it + 1 == maxit) break;
    T sa, ca; ref::sincosd(R.P.azi2, sa, ca);
    T along = dN * ca + dE * sa, cross = -dN * sa + dE * ca;
    R.s12 += along;
    if (ref::fabs(R.P.m12) > (T)1e-6 * ref::fabs(cross)) R.azi1 += cross / R.P.m12 / ref::deg<T>();
  }
  return R;
}
static Ray<q128> ray_to_point(const EllCfg& e, double lat0, double lon0, q128 azi1, q128 s12, double latd, double lond) {
  Ray<ld> r1 = ray_refine<ld>(*e.El, lat0, lon0, (ld)azi1, (ld)s12, latd, lond, 6, 1e-9 * e.a / gh::WGS84_A);
  return ray_refine<q128>(*e.Eq, lat0, lon0, (q128)r1.azi1, (q128)r1.s12, latd, lond, 4, 1e-14 * e.a / gh::WGS84_A);
}

// pole-safe azimuth error (radians): azimuth azil at longitude lonl against reference (azir at lonr), latitude latr
static double azi_err(double azil, double lonl, q128 azir, q128 lonr, q128 latr) {
  q128 dalp = ref::remainder((q128)azil - azir, (q128)360) * ref::deg<q128>();
  q128 dlam = ref::remainder((q128)lonl - lonr, (q128)360) * ref::deg<q128>();
  q128 sphi = ref::sin(latr * ref::deg<q128>());
  q128 s = ref::sin(dalp) * ref::cos(dlam) - ref::cos(dalp) * ref::sin(dlam) * sphi;
  q128 c = ref::cos(dalp) * ref::cos(dlam) + ref::sin(dalp) * ref::sin(dlam) * sphi;
  return (double)ref::fabs(ref::atan2(s, c));
}
static double chord(const EllCfg& e, double lat, double lon, q128 latr, q128 lonr) {
  q128 A[3], B[3]; ref::to_xyz<q128>(*e.Eq, (q128)lat, (q128)lon, A); ref::to_xyz<q128>(*e.Eq, latr, lonr, B); return (double)ref::dist3(A, B);
}
static double angdiff_rad(q128 a, q128 b) { return (double)ref::fabs(ref::remainder(a - b, (q128)360) * ref::deg<q128>()); }
static bool finite4(double a, double b, double c, double d) { return std::isfinite(a) && std::isfinite(b) && std::isfinite(c) && std::isfinite(d); }

struct Centre { double lat0, lon0; std::string cls; };
static Centre pick_centre(vh::Rng& r) {
  Centre c; c.lat0 = gh::pick_lat(r, c.cls);
  switch (r.below(6)) { case 0: { static const double s[] = {0, 180, -180, 90, -90}; c.lon0 = r.pick(s); break; }
    case 1: c.lon0 = vh::ulps(r.coin() ? 180 : -180, r.range(-2, 2)); if (std::fabs(c.lon0) > 180) c.lon0 = 180; break;
    default: c.lon0 = r.uniform(-180, 180); }
  return c;
}
static double pick_azi0(vh::Rng& r, std::string& cls) {
  switch (r.below(8)) {
  case 0: { static const double s[] = {0.0, -0.0, 90, -90, 180, -180, 45, 135}; cls = "cardinal"; return r.pick(s); }
  case 1: { static const double s[] = {0, 90, -90, 180, -180}; cls = "near-cardinal"; double v = r.pick(s) + r.sign() * r.logu(1e-14, 1e-5); return std::max(-180.0, std::min(180.0, v)); }
  default: cls = "general"; return r.uniform(-180, 180);
  }
}

// distance along the ray (from the centre) at which M12 changes sign: the gnomonic horizon
static ld horizon_dist(const EllCfg& e, double lat0, double azi0) {
  ref::GeodLine<ld> L(*e.El, (ld)lat0, (ld)azi0);
  ld s = e.qm;
  for (int it = 0; it < 30; ++it) { ref::GeodPos<ld> P = L.at_dist(s); ld d = -(1 - P.M12 * P.M21) / P.m12; ld ds = -P.M12 / d; s += ds; if (std::fabs((double)ds) < 1e-9 * e.a / gh::WGS84_A) break; }
  return s;
}

// ===== Forward of both azimuthal projections for a point given as doubles; (azi0, s) = initial guess of the ray
static void judge_forward_point(Ctx& c, EllCfg& e, const Centre& ce, const std::string& cls, const J& w, double latd, double lond, double azi0, double s) {
  const double T = K_TOL * e.tol, TM = K_TOL * e.tolM, eps = std::numeric_limits<double>::epsilon(), cond_f = 4 * std::fabs(e.f);
  Ray<q128> R = ray_to_point(e, ce.lat0, ce.lon0, (q128)azi0, (q128)s, latd, lond);
  if (!(R.resid < 1e-11 * e.a / gh::WGS84_A)) { c.event("reference ray did not converge onto the rounded point (ill-conditioned): Forward not judged"); return; }
  // exactly on a pole along a meridian the reference (lon12, azi2) pair is degenerate (cos sigma2 == 0 and sin alpha0 == 0):
  // take the direction a hair (1e-12 m) before the pole, where it is regular; every other quantity is unaffected at the 1e-19 level
  if (R.P.calp2 == 0 && R.P.salp2 == 0) { ref::GeodLine<q128> Lp(*e.Eq, (q128)ce.lat0, R.azi1); ref::GeodPos<q128> Pd = Lp.at_dist(R.s12 - (q128)1e-12 * e.a / gh::WGS84_A);
    R.P.lon12 = Pd.lon12; R.P.azi2 = Pd.azi2; c.event("reference direction at a pole taken 1e-12 m before it"); }
  const ref::GeodPos<q128>& P = R.P;
  if (c.only) std::fprintf(stderr, "REF ray: s12=%s azi1=%s lat2=%s lon12=%s azi2=%s salp2=%s calp2=%s cbet2=%s resid=%g\n", ref::qstr(R.s12, 25).c_str(), ref::qstr(R.azi1, 25).c_str(),
    ref::qstr(P.lat2, 25).c_str(), ref::qstr(P.lon12, 25).c_str(), ref::qstr(P.azi2, 25).c_str(), ref::qstr(P.salp2, 8).c_str(), ref::qstr(P.calp2, 8).c_str(), ref::qstr(P.cbet2, 8).c_str(), R.resid);
  J wf = J(w).f("lat", latd).f("lon", lond).str("ref_s12", ref::qstr(R.s12, 22)).str("ref_azi1", ref::qstr(R.azi1, 22)).str("ref_azi2", ref::qstr(P.azi2, 22))
    .str("ref_m12", ref::qstr(P.m12, 22)).str("ref_M12", ref::qstr(P.M12, 22));
  double am12 = std::fabs((double)P.m12);
  q128 lonr = (q128)ce.lon0 + P.lon12;
  // known separate regime (Inverse near the end of the equatorial shortest segment): its own key suffix
  const std::string rg = (std::fabs(ce.lat0) < 1e-6 && std::fabs(latd) < 1e-6 && am12 < 1e-3 * e.a) ? "/equatorial-near-conjugate" : "";
  const std::string rgo = rg.empty() ? "" : " {regime equatorial-near-conjugate}";

  // ===== AzimuthalEquidistant::Forward
  {
    double fx, fy, azi, rk; e.ae->Forward(ce.lat0, ce.lon0, latd, lond, fx, fy, azi, rk);
    J wa = J(wf).f("x", fx).f("y", fy).f("azi", azi).f("rk", rk);
    if (!finite4(fx, fy, azi, rk)) c.viol("oracle:C17/azeq/Forward/non-finite", cls, wa);
    else {
      q128 sl = ref::hypot((q128)fx, (q128)fy), al = ref::atan2((q128)fx, (q128)fy) / ref::deg<q128>();
      double Ts = T + 4 * eps * (double)R.s12;
      double es = (double)ref::fabs(sl - R.s12), e1 = angdiff_rad(al, R.azi1) * am12, e2 = azi_err(azi, lond, P.azi2, lonr, P.lat2) * am12;
      double ek = (double)ref::fabs((q128)rk * R.s12 - P.m12) / (1 + std::fabs(rk));
      const double Tk = Ts * (1 + cond_f * e.a / std::max(am12, 1e-300));    // dm12/dazi1 = O(f a) times the azimuth uncertainty tol/|m12|
      c.obs("azeq Forward: |hypot(x,y) - s12| / tolerance [" + e.name + "]" + rgo, es / Ts, wa);
      c.obs("azeq Forward: |atan2(x,y) - azi1|*|m12| / tolerance [" + e.name + "]" + rgo, e1 / Ts, wa);
      c.obs("azeq Forward: |azi - azi2|*|m12| / tolerance [" + e.name + "]" + rgo, e2 / Ts, wa);
      c.obs("azeq Forward: |rk*s12 - m12|/(1+|rk|) / conditioned tolerance [" + e.name + "]" + rgo, ek / Tk, wa);
      if (es > Ts) viol_rg(c, rg, "oracle:C17/azeq/Forward/distance", cls, J(wa).f("err_m", es).f("tol_m", Ts));
      if (e1 > Ts) viol_rg(c, rg, "oracle:C17/azeq/Forward/azimuth-at-centre", cls, J(wa).f("err_m", e1).f("tol_m", Ts));
      if (e2 > Ts) viol_rg(c, rg, "oracle:C17/azeq/Forward/azi", cls, J(wa).f("err_m", e2).f("tol_m", Ts));
      if (ek > Tk) viol_rg(c, rg, "oracle:C17/azeq/Forward/rk", cls, J(wa).f("err_m", ek).f("tol_m", Tk));
      // Reverse o Forward = identity
      double lat2, lon2, az2, rk2; e.ae->Reverse(ce.lat0, ce.lon0, fx, fy, lat2, lon2, az2, rk2);
      double er = chord(e, lat2, lon2, (q128)latd, (q128)lond);
      c.obs("azeq Reverse o Forward: position error / tolerance [" + e.name + "]" + rgo, er / (2 * Ts), wa);
      if (!(er <= 2 * Ts)) viol_rg(c, rg, "law:C17/azeq/Reverse-o-Forward", cls, J(wa).f("lat2", lat2).f("lon2", lon2).f("err_m", er).f("tol_m", 2 * Ts));
    }
    c.event("azeq Forward judged");
  }

  // ===== Gnomonic::Forward (NaN beyond the horizon) and Reverse
  {
    double fx, fy, azi, rk; e.gn->Forward(ce.lat0, ce.lon0, latd, lond, fx, fy, azi, rk);
    J wg = J(wf).f("x", fx).f("y", fy).f("azi", azi).f("rk", rk);
    double M = (double)P.M12;
    const char* hz = M > TM ? "inside-horizon" : M < -TM ? "beyond-horizon" : "on-horizon-within-tolerance";
    c.event(std::string("gnomonic Forward judged: ") + hz);
    if (!(std::isfinite(azi) && std::isfinite(rk))) c.viol("oracle:C17/gnomonic/Forward/non-finite-azi-or-rk", cls, wg);
    else {
      // documented: x,y are NaN exactly when the returned rk <= 0
      if ((rk <= 0) != (std::isnan(fx) && std::isnan(fy)) || std::isnan(fx) != std::isnan(fy)) c.viol("law:C17/gnomonic/Forward/NaN-iff-rk<=0", cls, wg);
      if (M < -TM && !(std::isnan(fx) && std::isnan(fy))) c.viol("oracle:C17/gnomonic/Forward/number-beyond-the-horizon", cls, wg);
      if (M > TM && !(std::isfinite(fx) && std::isfinite(fy))) c.viol("oracle:C17/gnomonic/Forward/NaN-inside-the-horizon", cls, wg);
      // M12 of the inverse problem inherits the azimuth uncertainty tol/|m12| (author's measure) through dM12/dazi1 = O(f)
      const double Tk = T * (1 + cond_f * e.a / std::max(am12, 1e-300));
      double ek = std::fabs(rk - M) * e.a, e2 = azi_err(azi, lond, P.azi2, lonr, P.lat2) * am12;
      c.obs("gnomonic Forward: |rk - M12|*a / conditioned tolerance [" + e.name + "]", ek / Tk, wg);
      c.obs("gnomonic Forward: |azi - azi2|*|m12| / tolerance [" + e.name + "]", e2 / T, wg);
      if (ek > Tk) c.viol("oracle:C17/gnomonic/Forward/rk", cls, J(wg).f("err_m", ek).f("tol_m", Tk));
      if (e2 > T) c.viol("oracle:C17/gnomonic/Forward/azi", cls, J(wg).f("err_m", e2).f("tol_m", T));
      if (M > TM && std::isfinite(fx) && std::isfinite(fy)) {
        q128 rho = P.m12 / P.M12, rl = ref::hypot((q128)fx, (q128)fy), al = ref::atan2((q128)fx, (q128)fy) / ref::deg<q128>();
        // rho = m12/M12: d rho = dm/M + m dM/M^2  (conditioning near the horizon folded in)
        double Tr = T / M + am12 * TM / (M * M) + 4 * eps * (double)rho;
        double er = (double)ref::fabs(rl - rho), e1 = angdiff_rad(al, R.azi1) * am12;
        c.obs("gnomonic Forward: |hypot(x,y) - m12/M12| / conditioned tolerance [" + e.name + "]", er / Tr, wg);
        c.obs("gnomonic Forward: |atan2(x,y) - azi1|*|m12| / tolerance [" + e.name + "]", e1 / T, wg);
        if (er > Tr) c.viol("oracle:C17/gnomonic/Forward/rho", cls, J(wg).f("err_m", er).f("tol_m", Tr));
        if (e1 > T) c.viol("oracle:C17/gnomonic/Forward/azimuth-at-centre", cls, J(wg).f("err_m", e1).f("tol_m", T));
        // Reverse o Forward inside the horizon (minus 1e-6 relative)
        if (M > 1e-6) {
          double lat2, lon2, az2, rk2; e.gn->Reverse(ce.lat0, ce.lon0, fx, fy, lat2, lon2, az2, rk2);
          double err = chord(e, lat2, lon2, (q128)latd, (q128)lond);
          c.obs("gnomonic Reverse o Forward: position error / tolerance [" + e.name + "]", err / (2 * T), wg);
          if (!(err <= 2 * T)) c.viol("law:C17/gnomonic/Reverse-o-Forward", cls, J(wg).f("lat2", lat2).f("lon2", lon2).f("err_m", err).f("tol_m", 2 * T));
        }
      }
    }
  }
}

// ------------------------------------------------------------------------------ azimuthal equidistant + gnomonic
static void sec_azgn(Ctx& c, uint64_t idx) {
  vh::Rng& r = c.rng;
  EllCfg& e = idx < ells().size() * 4 ? ells()[idx % ells().size()] : pick_ell(r);
  Centre ce = pick_centre(r); std::string ca, cd;
  double azi0 = pick_azi0(r, ca);
  const double halfc = M_PI * e.b;         // scale of half a circuit
  // distance class
  double s; bool want_forward = true;
  int dc = (int)r.below(11);
  ld sh = 0;
  switch (dc) {
  case 0: cd = "s=1e-6..1m"; s = r.logu(1e-6, 1) * e.a / gh::WGS84_A; break;
  case 1: cd = "s=1m..100km"; s = r.logu(1, 1e5) * e.a / gh::WGS84_A; break;
  case 2: case 3: cd = "s<quarter"; s = r.uniform(0.01, 0.49) * halfc; break;
  case 4: case 5: cd = "near-horizon"; sh = horizon_dist(e, ce.lat0, azi0); s = (double)sh + r.sign() * r.logu(1e-6, 1e4) * e.a / gh::WGS84_A; break;
  case 6: cd = "at-horizon+-ulps"; sh = horizon_dist(e, ce.lat0, azi0); s = vh::ulps((double)sh, r.range(-3, 3)); break;
  case 7: case 8: cd = "beyond-horizon"; s = r.uniform(0.52, 0.97) * halfc; break;
  case 9: cd = "antipodal-minus-eps"; s = -1; break;       // fixed below from the arc length
  default: cd = "beyond-antipodal(reverse-only)"; s = r.uniform(1.05, 6) * halfc; want_forward = false; break;
  }
  ref::GeodLine<q128> L0(*e.Eq, (q128)ce.lat0, (q128)azi0, std::signbit(azi0));
  if (dc == 9) { double eps = r.logu(1e-6, 1); s = (double)L0.at_arc((q128)(180 - eps)).s12; }
  std::string cls = e.name + "/centre-" + ce.cls + "/" + cd;
  J w = J().str("ell", e.name).f("lat0", ce.lat0).f("lon0", ce.lon0).f("azi0", azi0).f("s", s);
  uint64_t h = vh::hmix(vh::hmix(vh::hmix(vh::hmix(vh::hmix(vh::hstr(e.name.c_str()), ce.lat0), ce.lon0), azi0), s), (uint64_t)1);
  c.count("azeq+gnom/" + cls, h);
  if (c.want_sample("azeq+gnom/" + cls)) c.sample("azeq+gnom/" + cls, w);
  const double T = K_TOL * e.tol, TM = K_TOL * e.tolM, scale = std::max(1.0, s / halfc), eps = std::numeric_limits<double>::epsilon();

  // ===== Reverse of the azimuthal equidistant projection: inputs (x, y) define (azi0', s') exactly
  q128 sa, ca_; ref::sincosd((q128)azi0, sa, ca_);
  double x = (double)((q128)s * sa), y = (double)((q128)s * ca_);
  {
    q128 azr = ref::atan2((q128)x, (q128)y) / ref::deg<q128>(), sr = ref::hypot((q128)x, (q128)y);
    ref::GeodLine<q128> L(*e.Eq, (q128)ce.lat0, azr, x == 0 && std::signbit(x));
    ref::GeodPos<q128> P = L.at_dist(sr);
    double lat, lon, azi, rk; e.ae->Reverse(ce.lat0, ce.lon0, x, y, lat, lon, azi, rk);
    J wr = J(w).f("x", x).f("y", y).f("lat", lat).f("lon", lon).f("azi", azi).f("rk", rk);
    if (!finite4(lat, lon, azi, rk)) c.viol("oracle:C17/azeq/Reverse/non-finite", cls, wr);
    else {
      double ep = chord(e, lat, lon, P.lat2, (q128)ce.lon0 + P.lon12), ea = azi_err(azi, lon, P.azi2, (q128)ce.lon0 + P.lon12, P.lat2) * e.a;
      double ek = (double)ref::fabs((q128)rk * sr - P.m12);
      c.obs("azeq Reverse: position error / tolerance [" + e.name + "]", ep / (T * scale), wr);
      c.obs("azeq Reverse: azimuth error*a / tolerance [" + e.name + "]", ea / (T * scale), wr);
      c.obs("azeq Reverse: |rk*s - m12| / tolerance [" + e.name + "]", ek / (T * scale), wr);
      if (ep > T * scale) c.viol("oracle:C17/azeq/Reverse/position", cls, J(wr).f("err_m", ep).f("tol_m", T * scale));
      if (ea > T * scale) c.viol("oracle:C17/azeq/Reverse/azi", cls, J(wr).f("err_m", ea).f("tol_m", T * scale));
      if (ek > T * scale) c.viol("oracle:C17/azeq/Reverse/rk", cls, J(wr).f("err_m", ek).f("tol_m", T * scale));
      if (!(std::fabs(lat) <= 90 && std::fabs(lon) <= 180)) c.viol("oracle:C17/azeq/Reverse/range", cls, wr);
      // Forward o Reverse = identity if the geodesic is a shortest path
      if (want_forward && (double)ref::fabs(P.lon12) < 180 - 1e-6 && (double)P.a12 < 180 - 1e-6) {
        double x2, y2, az2, rk2; e.ae->Forward(ce.lat0, ce.lon0, lat, lon, x2, y2, az2, rk2);
        double es = std::fabs(std::hypot(x2, y2) - std::hypot(x, y)), eaz = angdiff_rad(ref::atan2((q128)x2, (q128)y2) / ref::deg<q128>(), azr) * std::fabs((double)P.m12);
        const std::string rg = (std::fabs(ce.lat0) < 1e-6 && std::fabs(lat) < 1e-6 && std::fabs((double)P.m12) < 1e-3 * e.a) ? "/equatorial-near-conjugate" : "";
        const std::string rgo = rg.empty() ? "" : " {regime equatorial-near-conjugate}";
        c.obs("azeq Forward o Reverse: radius error / tolerance [" + e.name + "]" + rgo, es / (2 * T), wr);
        c.obs("azeq Forward o Reverse: azimuth error*|m12| / tolerance [" + e.name + "]" + rgo, eaz / (2 * T), wr);
        if (es > 2 * T || eaz > 2 * T) viol_rg(c, rg, "law:C17/azeq/Forward-o-Reverse", cls, J(wr).f("x2", x2).f("y2", y2).f("es_m", es).f("eaz_m", eaz).f("tol_m", 2 * T));
      }
    }
    c.event("azeq Reverse judged");
  }
  if (!want_forward) return;

  // ===== the constructed point as doubles + its exact reference ray
  ref::GeodPos<q128> P0 = L0.at_dist((q128)s);
  bool shortest = (double)ref::fabs(P0.lon12) < 180 - 1e-6 && (double)P0.a12 < 180 - 1e-6;
  if (!shortest) { c.event("constructed ray is not a shortest path: Forward not judged"); return; }
  double latd = (double)P0.lat2, lond = lon_to_double((q128)ce.lon0 + P0.lon12);
  if (std::fabs(latd) > 90) latd = std::copysign(90.0, latd);
  judge_forward_point(c, e, ce, cls, w, latd, lond, azi0, s);
  // Gnomonic::Reverse judged directly: (x,y) = rho (sin, cos) azi0 as doubles -> solve rho(s) = rho' with the reference
  if ((double)P0.M12 > 1e-6) {
    q128 rho0 = P0.m12 / P0.M12;
    double gx = (double)(rho0 * sa), gy = (double)(rho0 * ca_);
    q128 azr = ref::atan2((q128)gx, (q128)gy) / ref::deg<q128>(), rr = ref::hypot((q128)gx, (q128)gy);
    ref::GeodLine<q128> L(*e.Eq, (q128)ce.lat0, azr, gx == 0 && std::signbit(gx));
    q128 st = (q128)s; ref::GeodPos<q128> Q = P0; bool conv = false;
    for (int it = 0; it < 6; ++it) { Q = L.at_dist(st); q128 ds = (rr - Q.m12 / Q.M12) * Q.M12 * Q.M12; st += ds; if ((double)ref::fabs(ds) < 1e-13 * e.a / gh::WGS84_A) { conv = true; break; } }
    if (conv) {
      double lat, lon, azi, rk; e.gn->Reverse(ce.lat0, ce.lon0, gx, gy, lat, lon, azi, rk);
      J wr = J(w).f("x", gx).f("y", gy).f("lat", lat).f("lon", lon).f("azi", azi).f("rk", rk);
      if (!finite4(lat, lon, azi, rk)) {
        if ((double)rr <= 100 * e.a) c.viol("oracle:C17/gnomonic/Reverse/NaN-for-moderate-x-y", cls, wr);
        else c.event("gnomonic Reverse: documented non-convergence for very large x,y");
      } else {
        double ep = chord(e, lat, lon, Q.lat2, (q128)ce.lon0 + Q.lon12), ea = azi_err(azi, lon, Q.azi2, (q128)ce.lon0 + Q.lon12, Q.lat2) * e.a, ek = std::fabs(rk - (double)Q.M12) * e.a;
        c.obs("gnomonic Reverse: position error / tolerance [" + e.name + "]", ep / T, wr);
        c.obs("gnomonic Reverse: azimuth error*a / tolerance [" + e.name + "]", ea / T, wr);
        c.obs("gnomonic Reverse: |rk - M12|*a / tolerance [" + e.name + "]", ek / T, wr);
        if (ep > T) c.viol("oracle:C17/gnomonic/Reverse/position", cls, J(wr).f("err_m", ep).f("tol_m", T));
        if (ea > T) c.viol("oracle:C17/gnomonic/Reverse/azi", cls, J(wr).f("err_m", ea).f("tol_m", T));
        if (ek > T) c.viol("oracle:C17/gnomonic/Reverse/rk", cls, J(wr).f("err_m", ek).f("tol_m", T));
        // Forward o Reverse
        double x2, y2, az2, rk2; e.gn->Forward(ce.lat0, ce.lon0, lat, lon, x2, y2, az2, rk2);
        double Mq = (double)Q.M12, Tr = 2 * (T / Mq + std::fabs((double)Q.m12) * TM / (Mq * Mq) + 4 * eps * (double)rr);
        double er = std::fabs(std::hypot(x2, y2) - (double)rr), e1 = angdiff_rad(ref::atan2((q128)x2, (q128)y2) / ref::deg<q128>(), azr) * std::fabs((double)Q.m12);
        c.obs("gnomonic Forward o Reverse: radius error / conditioned tolerance [" + e.name + "]", er / Tr, wr);
        if (!(er <= Tr && e1 <= 2 * T)) c.viol("law:C17/gnomonic/Forward-o-Reverse", cls, J(wr).f("x2", x2).f("y2", y2).f("err_m", er).f("tol_m", Tr).f("eaz_m", e1));
      }
      c.event("gnomonic Reverse judged");
    }
  }
}

// ------------------------------------------------------------------------------ Cassini-Soldner
// reference two-leg construction: north along the central meridian by y, turn clockwise 90 deg, go x
template <class T> struct CSRef { ref::GeodPos<T> F, P; T lon12; };
template <class T> static CSRef<T> cs_eval(const ref::Ell<T>& E, double lat0, T x, T y) {
  CSRef<T> R; ref::GeodLine<T> mer(E, (T)lat0, (T)0); R.F = mer.at_dist(y);
  ref::GeodLine<T> perp(E, R.F.lat2, R.F.calp2 >= 0 ? (T)90 : (T)-90); R.P = perp.at_dist(x);
  R.lon12 = R.F.lon12 + R.P.lon12; return R;
}
template <class T> static double cs_refine(const ref::Ell<T>& E, double lat0, double lon0, T& x, T& y, double latd, double lond, int maxit, double thr, CSRef<T>& R) {
  double resid = HUGE_VAL;
  for (int it = 0; it < maxit; ++it) {
    R = cs_eval<T>(E, lat0, x, y);
    T dN, dE; local_ne<T>(E, R.P.lat2, (T)lon0 + R.lon12, latd, lond, dN, dE);
    resid = (double)ref::hypot(dN, dE);
    if (resid <= thr || it + 1 == maxit) break;
    T sa, ca; ref::sincosd(R.P.azi2, sa, ca);
    x += dN * ca + dE * sa;
    if (ref::fabs(R.P.M12) > (T)1e-9) y += (dN * sa - dE * ca) / R.P.M12;
  }
  return resid;
}

static void judge_cs_forward(Ctx& c, EllCfg& e, const Centre& ce, const CassiniSoldner& cs, const std::string& cls, const J& w, double latd, double lond, q128 x0, q128 y0) {
  const double T = K_TOL * e.tol, eps = std::numeric_limits<double>::epsilon();
  ld xl = (ld)x0, yl = (ld)y0; CSRef<ld> Rl; cs_refine<ld>(*e.El, ce.lat0, ce.lon0, xl, yl, latd, lond, 6, 1e-9 * e.a / gh::WGS84_A, Rl);
  q128 xq = xl, yq = yl; CSRef<q128> R; double resid = cs_refine<q128>(*e.Eq, ce.lat0, ce.lon0, xq, yq, latd, lond, 4, 1e-14 * e.a / gh::WGS84_A, R);
  if (!(resid < 1e-11 * e.a / gh::WGS84_A)) { c.event("cassini: reference did not converge onto the rounded point (ill-conditioned): Forward not judged"); return; }
  // inside the documented uniqueness region?  (perpendicular leg is the shortest route to the full meridian, y the shorter way round)
  bool inside = (double)ref::fabs(R.P.lon12) < 90 - 1e-6 && (double)ref::fabs(R.P.a12) < 90 - 1e-6 && std::fabs((double)yq) < 2 * e.qm * (1 - 1e-9);
  if (!inside) { c.event("cassini: point outside the uniqueness region: Forward not judged"); return; }
  double x, y, azi, rk; cs.Forward(latd, lond, x, y, azi, rk);
  J wf = J(w).f("lat", latd).f("lon", lond).f("x", x).f("y", y).f("azi", azi).f("rk", rk).str("ref_x", ref::qstr(xq, 22)).str("ref_y", ref::qstr(yq, 22))
    .str("ref_azi", ref::qstr(R.P.azi2, 22)).str("ref_rk", ref::qstr(R.P.M12, 22));
  if (!finite4(x, y, azi, rk)) { c.viol("oracle:C17/cassini/Forward/non-finite", cls, wf); return; }
  double M = std::fabs((double)R.P.M12), m2 = 2 * std::fabs((double)(R.P.m12 * R.P.M12));
  const std::string rg = (std::fabs(latd) < 1e-6 && m2 < 1e-3 * e.a) ? "/equatorial-near-conjugate" : "";
  const std::string rgo = rg.empty() ? "" : " {regime equatorial-near-conjugate}";
  double Ts = T + 4 * eps * (std::fabs((double)xq) + std::fabs((double)yq));
  double ex = (double)ref::fabs((q128)x - xq), ey = (double)ref::fabs((q128)y - yq) * M, ea = azi_err(azi, lond, R.P.azi2, (q128)ce.lon0 + R.lon12, R.P.lat2) * m2, ek = std::fabs(rk - (double)R.P.M12) * e.a;
  c.obs("cassini Forward: |x - x_ref| / tolerance [" + e.name + "]" + rgo, ex / Ts, wf);
  c.obs("cassini Forward: |y - y_ref|*M12 / tolerance [" + e.name + "]" + rgo, ey / Ts, wf);
  c.obs("cassini Forward: |azi - azi_ref|*m(P'P) / tolerance [" + e.name + "]" + rgo, ea / Ts, wf);
  c.obs("cassini Forward: |rk - M12|*a / tolerance [" + e.name + "]" + rgo, ek / Ts, wf);
  // a point exactly on the (anti)meridian: the library's zero-length branch applies and the easting azimuth is +-90 deg at the point, no conditioning excuse
  { double dl = std::remainder(lond - ce.lon0, 360.0);
    if ((dl == 0 || std::fabs(dl) == 180) && std::fabs(latd) < 90 && std::fabs(ce.lat0) < 90) {
      double eu = azi_err(azi, lond, R.P.azi2, (q128)ce.lon0 + R.lon12, R.P.lat2);
      c.obs("cassini Forward: azimuth error for points exactly on the central (anti)meridian [rad]", eu, wf); c.event("cassini Forward: point exactly on the central (anti)meridian");
      if (eu > 1e-12) c.viol("oracle:C17/cassini/Forward/azi-on-central-meridian", cls, J(wf).f("err_rad", eu));
    } }
  if (ex > Ts) viol_rg(c, rg, "oracle:C17/cassini/Forward/x", cls, J(wf).f("err_m", ex).f("tol_m", Ts));
  if (ey > Ts) viol_rg(c, rg, "oracle:C17/cassini/Forward/y", cls, J(wf).f("err_m", ey).f("tol_m", Ts));
  if (ea > Ts) viol_rg(c, rg, "oracle:C17/cassini/Forward/azi", cls, J(wf).f("err_m", ea).f("tol_m", Ts));
  if (ek > Ts) viol_rg(c, rg, "oracle:C17/cassini/Forward/rk", cls, J(wf).f("err_m", ek).f("tol_m", Ts));
  double lat2, lon2, az2, rk2; cs.Reverse(x, y, lat2, lon2, az2, rk2);
  double er = chord(e, lat2, lon2, (q128)latd, (q128)lond);
  c.obs("cassini Reverse o Forward: position error / tolerance [" + e.name + "]" + rgo, er / (2 * Ts), wf);
  if (!(er <= 2 * Ts)) viol_rg(c, rg, "law:C17/cassini/Reverse-o-Forward", cls, J(wf).f("lat2", lat2).f("lon2", lon2).f("err_m", er).f("tol_m", 2 * Ts));
  c.event("cassini Forward judged");
}

static void sec_cassini(Ctx& c, uint64_t idx) {
  vh::Rng& r = c.rng;
  EllCfg& e = idx < ells().size() * 4 ? ells()[idx % ells().size()] : pick_ell(r);
  Centre ce = pick_centre(r);
  // half of the objects reach their centre through Reset on a USED object (another centre first) or on one constructed without a
  // centre (Init() false; its Forward/Reverse return without writing): everything below then judges the state Reset left behind
  const int how = (int)r.below(4);       // 0, 1: constructed at the centre; 2: constructed without a centre; 3: constructed at another centre
  CassiniSoldner cs = how < 2 ? CassiniSoldner(ce.lat0, ce.lon0, *e.g) : how == 2 ? CassiniSoldner(*e.g) : [&]() { Centre o = pick_centre(r); return CassiniSoldner(o.lat0, o.lon0, *e.g); }();
  if (!cs.Init()) {
    double x = vh::sentinel(1), y = vh::sentinel(2), la = vh::sentinel(3), lo = vh::sentinel(4); cs.Forward(10, 20, x, y); cs.Reverse(1000, 2000, la, lo);
    (void)x; (void)y; (void)la; (void)lo;      // (driven for the sanitizers only: what an uninitialised object returns is not specified)
    c.event("cassini: object constructed without a centre, then Reset");
  }
  if (how >= 2 || r.coin(0.2)) { if (cs.Init()) { Centre o = pick_centre(r); cs.Reset(o.lat0, o.lon0); } cs.Reset(ce.lat0, ce.lon0); c.event("cassini: centre set through Reset on a used object"); }
  if (!cs.Init() || !(cs.LatitudeOrigin() == ce.lat0)) c.viol("oracle:C17/cassini/Reset-origin", e.name, J().f("lat0", ce.lat0).f("lon0", ce.lon0));
  const double Q = e.qm, sc = e.a / gh::WGS84_A;
  std::string cy, cx; double y, x; bool reverse_only = false;
  switch (r.below(8)) {
  case 0: cy = "y=0"; y = r.coin() ? 0.0 : -0.0; break;
  case 1: cy = "y-tiny"; y = r.sign() * r.logu(1e-6, 1) * sc; break;
  case 2: case 3: cy = "y<Q"; y = r.uniform(-1, 1) * Q; break;
  case 4: case 5: cy = "y-over-a-pole"; y = r.sign() * r.uniform(1, 1.99) * Q; break;
  case 6: cy = "y-near-2Q"; y = r.sign() * (2 * Q - r.logu(1e-3, 1e5) * sc); break;
  default: cy = "y-wraps(reverse-only)"; y = r.sign() * r.uniform(2.01, 10) * Q; reverse_only = true; break;
  }
  // x: the perpendicular leg; its limit (arc 90 deg) depends on the foot
  ref::GeodLine<ld> merl(*e.El, (ld)ce.lat0, (ld)0); ref::GeodPos<ld> Fl = merl.at_dist((ld)y);
  ref::GeodLine<ld> perpl(*e.El, Fl.lat2, Fl.calp2 >= 0 ? (ld)90 : (ld)-90);
  switch (r.below(8)) {
  case 0: cx = "x=0"; x = r.coin() ? 0.0 : -0.0; break;
  case 1: cx = "x-tiny"; x = r.sign() * r.logu(1e-6, 1) * sc; break;
  case 2: cx = "x-short"; x = r.sign() * r.logu(1, 1e5) * sc; break;
  case 3: case 4: case 5: cx = "x-moderate"; x = r.sign() * (double)perpl.at_arc((ld)r.uniform(1, 85)).s12; break;
  case 6: cx = "x-near-limit"; x = r.sign() * (double)perpl.at_arc((ld)(90 - r.logu(1e-5, 1))).s12; break;
  default: cx = "x-beyond-limit(reverse-only)"; x = r.sign() * (double)perpl.at_arc((ld)r.uniform(91, 700)).s12; reverse_only = true; break;
  }
  std::string cls = e.name + "/centre-" + ce.cls + "/" + cy + "/" + cx;
  J w = J().str("ell", e.name).f("lat0", ce.lat0).f("lon0", ce.lon0).f("x0", x).f("y0", y);
  c.count("cassini/" + cls, vh::hmix(vh::hmix(vh::hmix(vh::hmix(vh::hmix(vh::hstr(e.name.c_str()), ce.lat0), ce.lon0), x), y), (uint64_t)2));
  if (c.want_sample("cassini/" + cls)) c.sample("cassini/" + cls, w);
  const double T = K_TOL * e.tol, scale = std::max(1.0, (std::fabs(x) + std::fabs(y)) / (M_PI * e.b));
  // ===== Reverse judged directly
  CSRef<q128> R = cs_eval<q128>(*e.Eq, ce.lat0, (q128)x, (q128)y);
  {
    double lat, lon, azi, rk; cs.Reverse(x, y, lat, lon, azi, rk);
    J wr = J(w).f("lat", lat).f("lon", lon).f("azi", azi).f("rk", rk);
    if (!finite4(lat, lon, azi, rk)) c.viol("oracle:C17/cassini/Reverse/non-finite", cls, wr);
    else {
      q128 lonr = (q128)ce.lon0 + R.lon12;
      double ep = chord(e, lat, lon, R.P.lat2, lonr), ea = azi_err(azi, lon, R.P.azi2, lonr, R.P.lat2) * e.a, ek = std::fabs(rk - (double)R.P.M12) * e.a;
      c.obs("cassini Reverse: position error / tolerance [" + e.name + "]", ep / (2 * T * scale), wr);
      c.obs("cassini Reverse: azimuth error*a / tolerance [" + e.name + "]", ea / (2 * T * scale), wr);
      c.obs("cassini Reverse: |rk - M12|*a / tolerance [" + e.name + "]", ek / (2 * T * scale), wr);
      // two direct problems in sequence: twice the single-problem tolerance
      if (ep > 2 * T * scale) c.viol("oracle:C17/cassini/Reverse/position", cls, J(wr).f("err_m", ep).f("tol_m", 2 * T * scale));
      if (ea > 2 * T * scale) c.viol("oracle:C17/cassini/Reverse/azi", cls, J(wr).f("err_m", ea).f("tol_m", 2 * T * scale));
      if (ek > 2 * T * scale) c.viol("oracle:C17/cassini/Reverse/rk", cls, J(wr).f("err_m", ek).f("tol_m", 2 * T * scale));
      if (!(std::fabs(lat) <= 90 && std::fabs(lon) <= 180)) c.viol("oracle:C17/cassini/Reverse/range", cls, wr);
      bool inside = !reverse_only && (double)ref::fabs(R.P.lon12) < 90 - 1e-6 && (double)ref::fabs(R.P.a12) < 90 - 1e-6;
      if (inside) {     // Forward o Reverse = identity inside the region
        double x2, y2, a2, k2; cs.Forward(lat, lon, x2, y2, a2, k2);
        // y is a distance along the closed central meridian: it is defined modulo the meridian circumference 4 Q, and a foot of the
        // perpendicular at the antipode of the centre (y = +-2Q) is legitimately reported on either branch.  (The first version compared
        // y2 - y directly: a false alarm on the unchanged tree in the thorough tier, sphere, x 1.4 m from its limit, y = 2Q - 1 mm.)
        double ex = std::fabs(x2 - x), ey = std::fabs(std::remainder(y2 - y, 4 * e.qm)) * std::fabs((double)R.P.M12);
        const std::string rg = (std::fabs(lat) < 1e-6 && 2 * std::fabs((double)(R.P.m12 * R.P.M12)) < 1e-3 * e.a) ? "/equatorial-near-conjugate" : "";
        c.obs("cassini Forward o Reverse: max(|dx|, |dy|*M12) / tolerance [" + e.name + "]" + (rg.empty() ? "" : " {regime equatorial-near-conjugate}"), std::max(ex, ey) / (3 * T), wr);
        if (!(ex <= 3 * T && ey <= 3 * T)) viol_rg(c, rg, "law:C17/cassini/Forward-o-Reverse", cls, J(wr).f("x2", x2).f("y2", y2).f("ex_m", ex).f("ey_m", ey).f("tol_m", 3 * T));
      }
    }
    c.event("cassini Reverse judged");
  }
  if (reverse_only) return;
  double latd = (double)R.P.lat2, lond = lon_to_double((q128)ce.lon0 + R.lon12);
  if (std::fabs(latd) > 90) latd = std::copysign(90.0, latd);
  judge_cs_forward(c, e, ce, cs, cls, w, latd, lond, (q128)x, (q128)y);
}

// ------------------------------------------------------------------------------ directed catalogue (singular sets)
static void sec_directed(Ctx& c, uint64_t idx) {
  static const double lat0s[] = {90, -90, 0, -0.0, 45, -30, 89.999999, -89.9999999999};
  static const double lon0s[] = {0, 180, -180, 77.5};
  // target: {same as centre, north pole, south pole, on the central meridian, on the antimeridian, on the equator 90 deg away, general}
  const uint64_t nE = ells().size(), nL = 8, nO = 4, nT = 8;
  if (idx >= nE * nL * nO * nT) return;
  uint64_t i = idx; EllCfg& e = ells()[i % nE]; i /= nE; Centre ce; ce.lat0 = lat0s[i % nL]; i /= nL; ce.lon0 = lon0s[i % nO]; i /= nO; int t = (int)(i % nT);
  ce.cls = "directed";
  double lat, lon; const char* tn;
  switch (t) {
  case 0: tn = "point=centre"; lat = ce.lat0; lon = ce.lon0; break;
  case 1: tn = "north-pole"; lat = 90; lon = ce.lon0 + 33; break;
  case 2: tn = "south-pole"; lat = -90; lon = ce.lon0 - 120; break;
  case 3: tn = "on-central-meridian"; lat = std::max(-90.0, ce.lat0 - 37.25); lon = ce.lon0; break;
  case 4: tn = "on-antimeridian"; lat = 12.5; lon = ce.lon0 + 180; break;
  case 5: tn = "equator-90deg-away"; lat = 0; lon = ce.lon0 + 90; break;
  case 6: tn = "equator-89.999deg-away"; lat = 0; lon = ce.lon0 + 89.999; break;
  default: tn = "general"; lat = -27.125; lon = ce.lon0 + 61.5; break;
  }
  lon = lon_to_double((q128)lon);
  std::string cls = std::string("directed/") + tn + "/" + e.name;
  J w = J().str("ell", e.name).f("lat0", ce.lat0).f("lon0", ce.lon0).f("lat", lat).f("lon", lon);
  c.count(cls, vh::hmix(vh::hmix(vh::hmix(vh::hmix(vh::hstr(cls.c_str()), ce.lat0), ce.lon0), lat), lon));
  CassiniSoldner cs(ce.lat0, ce.lon0, *e.g);
  if (t == 0) {
    double x, y, azi, rk; e.ae->Forward(ce.lat0, ce.lon0, lat, lon, x, y, azi, rk);
    if (!(x == 0 && y == 0 && rk == 1 && std::isfinite(azi))) c.viol("oracle:C17/azeq/Forward/point=centre", cls, J(w).f("x", x).f("y", y).f("azi", azi).f("rk", rk));
    e.gn->Forward(ce.lat0, ce.lon0, lat, lon, x, y, azi, rk);
    if (!(x == 0 && y == 0 && std::fabs(rk - 1) <= 4 * std::numeric_limits<double>::epsilon() && std::isfinite(azi))) c.viol("oracle:C17/gnomonic/Forward/point=centre", cls, J(w).f("x", x).f("y", y).f("azi", azi).f("rk", rk));
    double la, lo; e.ae->Reverse(ce.lat0, ce.lon0, 0, 0, la, lo, azi, rk);
    const double T0 = K_TOL * e.tol;
    if (!(chord(e, la, lo, (q128)ce.lat0, (q128)ce.lon0) <= T0)) c.viol("oracle:C17/azeq/Reverse/x=y=0/position", cls, J(w).f("lat", la).f("lon", lo).f("rk", rk));
    if (!(rk == 1)) c.viol("oracle:C17/azeq/Reverse/x=y=0/rk", cls, J(w).f("lat", la).f("lon", lo).f("rk", rk));
    e.gn->Reverse(ce.lat0, ce.lon0, 0, 0, la, lo, azi, rk);
    if (!(chord(e, la, lo, (q128)ce.lat0, (q128)ce.lon0) <= T0)) c.viol("oracle:C17/gnomonic/Reverse/x=y=0/position", cls, J(w).f("lat", la).f("lon", lo).f("rk", rk));
    if (!(std::fabs(rk - 1) <= 4 * std::numeric_limits<double>::epsilon())) c.viol("oracle:C17/gnomonic/Reverse/x=y=0/rk", cls, J(w).f("lat", la).f("lon", lo).f("rk", rk));
    cs.Forward(lat, lon, x, y, azi, rk);
    if (!(x == 0 && std::fabs(y) <= K_TOL * e.tol && std::fabs(rk - 1) <= 4 * std::numeric_limits<double>::epsilon())) c.viol("oracle:C17/cassini/Forward/point=centre", cls, J(w).f("x", x).f("y", y).f("azi", azi).f("rk", rk));
    return;
  }
  // initial guess of the ray from the library's inverse (a guess only: the truth is the reference ray that is verified to hit the point)
  double s12, a1, a2; e.g->Inverse(ce.lat0, ce.lon0, lat, lon, s12, a1, a2);
  bool antipodal = std::fabs(ce.lat0 + lat) < 1e-9 && std::fabs(std::fabs(std::remainder(lon - ce.lon0, 360.0)) - 180) < 1e-9;
  if (!antipodal && !(std::fabs(ce.lat0) == 90 && std::fabs(lat) == 90)) judge_forward_point(c, e, ce, cls, w, lat, lon, a1, s12);
  // Cassini: initial guess from the library's own Forward (again only a guess; convergence onto the point is verified)
  double x, y, azi, rk; cs.Forward(lat, lon, x, y, azi, rk);
  if (std::isfinite(x) && std::isfinite(y)) judge_cs_forward(c, e, ce, cs, cls, w, lat, lon, (q128)x, (q128)y);
}

int main(int argc, char** argv) {
  std::vector<Section> S;
  S.push_back({"directed", 2048, 2048, false, sec_directed, 120});
  S.push_back({"azeq-gnomonic", 24000, 400000, true, sec_azgn, 120});
  S.push_back({"cassini", 16000, 250000, true, sec_cassini, 120});
  return vh::run_sections(argc, argv, S);
}
