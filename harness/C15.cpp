// C15 (part 1) — auxiliary latitudes, AuxAngle, DAuxLatitude, Ellipsoid, cross-class agreement.
// Oracle monitors: binary128 reference (oracle/ref_auxlat.hpp: defining closed forms / adaptive quadrature)
// evaluated next to every library call; accuracy measure = relative error of tan(angle) in units of eps.
// Law monitors: conversion o inverse = identity, oddness (bit-exact), fixed points 0 / +-90, monotone ladders,
// series vs exact for |f| <= 1/150, cross-class agreement (Geodesic, GeodesicExact, Rhumb, Geocentric, Math::taupf).
#include "harness/value_semantics.hpp"
#include <GeographicLib/AuxLatitude.hpp>
#include <GeographicLib/DAuxLatitude.hpp>
#include <GeographicLib/AuxAngle.hpp>
#include <GeographicLib/Ellipsoid.hpp>
#include <GeographicLib/Geodesic.hpp>
#include <GeographicLib/GeodesicExact.hpp>
#include <GeographicLib/Rhumb.hpp>
#include <GeographicLib/Geocentric.hpp>
#include <GeographicLib/Math.hpp>
#include "harness/common.hpp"
#include "oracle/ref_auxlat.hpp"
#include "oracle/ref_exact.hpp"
#include <memory>

using namespace GeographicLib;
using vh::Ctx; using vh::J; using vh::Section;
using ref::q128;
static const double EPS = std::numeric_limits<double>::epsilon();
static const double DMIN = std::numeric_limits<double>::denorm_min();
static const double DMAX = std::numeric_limits<double>::max();
static const double INF = std::numeric_limits<double>::infinity();
static const char* AUXN[6] = {"phi", "beta", "theta", "mu", "chi", "xi"};
static const double WGS84_F = 1 / 298.257223563;

// ---------------------------------------------------------------- known-finding regimes
// A known finding is ONE key per defect, decided from the INPUT REGIME only.  While a Regime object is alive every monitor that
// fires reports under the regime key (the monitor's own key goes into detail.monitor); outside any regime the monitor keys apply.
static std::string g_regime;
struct Regime { std::string old; explicit Regime(const std::string& r) : old(g_regime) { g_regime = r; } ~Regime() { g_regime = old; } };
static void VIOL(Ctx& c, const std::string& key, const std::string& cls, const J& d) {
  if (g_regime.empty() || key == g_regime) c.viol(key, cls, d); else c.viol(g_regime, cls, J(d).str("monitor", key)); }
// exact-method AuxLatitude regimes, checked in this fixed order (series method: none)
//   zone 2: some tangent of the point (or the crude Newton start tan/r^2 pushed through the conformal map) above 1e290
//   zone 1: some tangent below 1e-290 after division by max((b/a)^2,(a/b)^2); known only for (xi and tan<1e-300) or tan<1e-320
//   authalic latitude involved and b/a > 4;  authalic involved, 0<|f|<1e-6 and tan(phi) > 1e150
static std::string auxlat_regime(double ba, double f, bool exact, bool xi, int zone, q128 tphi, bool uf_known = true) {
  if (!exact) return "";
  if (zone == 2) return "regime:C15/auxlat/exact/overflow-zone(|tan|*amp>1e290)";
  // underflow zone: only the part where the unchanged library actually fails is a known regime (authalic latitude involved and
  // some tangent < 1e-300, or some tangent < 1e-320); elsewhere in the zone (21916 of 21916 evaluations right on the unchanged tree)
  // the monitors keep their own keys, with the graceful-underflow tolerance
  if (zone == 1 && uf_known) return "regime:C15/auxlat/exact/underflow-zone(xi&|tan|<1e-300 or |tan|<1e-320)";
  if (xi && ba > 4) return "regime:C15/auxlat/exact/xi/prolate-b/a>4";
  if (xi && f != 0 && std::fabs(f) < 1e-6 && tphi > 1e150Q) return "regime:C15/auxlat/exact/xi/|f|<1e-6-tanphi>1e150";
  return "";
}

// ---------------------------------------------------------------- tolerances (units: eps, relative error of the tangent)
static const double K_EXACT = 16;        // exact method, any b/a in [0.01,100]
static const double K_SERIES = 24;       // series method, |f| <= 1/150
static const double K_ROUNDTRIP = 32;    // conversion o inverse
static const double K_MEASURE = 8;       // ellipsoid measures (relative)
static const double K_DD = 64;           // divided differences (relative)

// access to the protected single conversions of AuxLatitude / DAuxLatitude
struct DAux : DAuxLatitude {
  DAux(double a, double f) : DAuxLatitude(a, f) {}
  using DAuxLatitude::Dsn; using DAuxLatitude::Datan; using DAuxLatitude::Dasinh; using DAuxLatitude::Dh; using DAuxLatitude::h;
};

struct Ell {
  double a, f, ba; bool axes = false; double b = 0;
  std::string regime; bool series_ok;
  std::shared_ptr<ref::AuxRef> R; std::shared_ptr<DAux> L; std::shared_ptr<AuxLatitude> Lax; std::shared_ptr<Ellipsoid> E;
  const AuxLatitude& lat() const { return axes ? *Lax : static_cast<const AuxLatitude&>(*L); }
};
static std::string regime_of(double ba, double f) {
  if (f == 0) return "sphere";
  if (std::fabs(f) <= (1.0 / 150) * (1 + 1e-9)) return f > 0 ? "oblate-f<=1/150" : "prolate-|f|<=1/150";
  if (ba < 0.2) return "oblate-extreme";
  if (ba < 1) return "oblate";
  if (ba > 5) return "prolate-extreme";
  return "prolate";
}
static Ell make_ell(double a, double f) {
  Ell e; e.a = a; e.f = f; e.ba = 1 - f; e.regime = regime_of(e.ba, f); e.series_ok = std::fabs(f) <= (1.0 / 150) * (1 + 1e-9);
  e.R = std::make_shared<ref::AuxRef>(ref::AuxRef::from_af(a, f));
  // detached copies (harness/value_semantics.hpp): the source object is overwritten by one for another ellipsoid and destroyed
  e.L.reset(vh::detached_new<DAux>([&] { return DAux(a, f); }, [&] { return DAux(a * 1.25, f > 0.5 ? 0.01 : 0.25); }));
  e.E.reset(vh::detached_new<Ellipsoid>([&] { return Ellipsoid(a, f); }, [&] { return Ellipsoid(a * 1.25, f > 0.5 ? 0.01 : 0.25); }));
  return e;
}
static Ell make_ell_axes(double a, double b) {
  Ell e; e.a = a; e.b = b; e.axes = true; e.f = (a - b) / a; e.ba = b / a; e.regime = regime_of(e.ba, e.f);
  e.series_ok = std::fabs(e.f) <= (1.0 / 150) * (1 - 1e-9);
  e.R = std::make_shared<ref::AuxRef>((q128)a, (q128)b);
  e.Lax = std::make_shared<AuxLatitude>(AuxLatitude::axes(a, b));
  return e;
}
static const double BA_LADDER[] = {0.01, 0.1, 0.5, 0.9, 149.0 / 150, 1 - WGS84_F, 1, 151.0 / 150, 1.1, 2, 10, 100};
static const int NLAD = 12;
static const double A_LADDER[] = {1, 6378137.0, 1e12};
static Ell& ladder(int i, int ia) {
  static std::vector<std::unique_ptr<Ell>> cache(NLAD * 3);
  auto& p = cache[i * 3 + ia];
  if (!p) { double ba = BA_LADDER[i]; double f = i == 5 ? WGS84_F : (i == 4 ? 1.0 / 150 : (i == 7 ? -1.0 / 150 : 1 - ba)); p.reset(new Ell(make_ell(A_LADDER[ia], f))); }
  return *p;
}
// ellipsoid for a case: ladder (cached) or random
static Ell pick_ell(vh::Rng& r, bool want_series) {
  int k = (int)r.below(10); static const int SER[] = {4, 5, 6, 7};
  if (k < 6) { int i = want_series ? SER[r.below(4)] : (int)r.below(NLAD); return ladder(i, (int)r.below(3)); }
  double a = r.pick(A_LADDER), f;
  if (want_series || k < 8) f = r.coin() ? r.uniform(-1.0 / 150, 1.0 / 150) : r.sign() * r.logu(1e-12, 1.0 / 150);
  else f = 1 - r.logu(0.01, 100);
  if (k == 9 && !want_series) { double b = a * r.logu(0.01, 100); return make_ell_axes(a, b); }
  return make_ell(a, f);
}

// ---------------------------------------------------------------- tangents
struct TanIn { double y, x; const char* cls; };
static TanIn gen_tan(vh::Rng& r) {
  TanIn t; double sy = r.sign(), sx = r.coin(0.15) ? -1.0 : 1.0;
  switch (r.below(12)) {
  case 0: t = {0.0, r.coin() ? 1.0 : r.logu(1e-300, 1e300), "exact-0"}; break;
  case 1: t = {r.coin() ? 1.0 : r.logu(1e-300, 1e300), 0.0, "exact-90"}; break;
  case 2: { double s = r.coin() ? 1.0 : r.logu(1e-150, 1e150); t = {s, s, "exact-45"}; break; }
  case 3: t = {r.logu(DMIN, 1e-300), 1.0, "tan-denormal-to-1e-300"}; break;
  case 4: t = {r.logu(1e300, DMAX), 1.0, "tan-1e300-to-max"}; break;
  case 5: case 6: t = {r.logu(1e-300, 1e300), 1.0, "tan-loguniform"}; break;
  case 7: { double tt = r.logu(1e-150, 1e150), s = r.logu(1e-150, 1e150); t = {tt * s, s, "unnormalised"}; break; }
  case 8: case 9: { AuxAngle a = AuxAngle::degrees(r.uniform(0, 90)); t = {a.y(), a.x(), "uniform-degrees"}; break; }
  case 10: { static const double sp[] = {0.0, 45.0, 90.0, 30.0, 60.0}; double d = vh::ulps(r.pick(sp), r.range(-3, 3)); if (d < 0) d = -d; if (d > 90) d = 90;
    AuxAngle a = AuxAngle::degrees(d); t = {a.y(), a.x(), "near-0-45-90-ulps"}; break; }
  default: t = {r.logu(1e-3, 1e3), 1.0, "tan-mid"}; break;
  }
  t.y = sy * t.y; t.x = sx * t.x; return t;
}
static inline q128 qtan_abs(double y, double x) { return x == 0 ? (y == 0 ? (q128)NAN : (q128)HUGE_VALQ) : fabsq((q128)y / (q128)x); }
// relative error of the tangent in eps, with an absolute slack of 4 denormal steps and overflow handling
static double tan_err_eps(double y, double x, q128 Tref, double dslack = 4) {
  q128 T = qtan_abs(y, x);
  if (isnanq(T) || isnanq(Tref)) return HUGE_VAL;
  if (Tref == 0) return T == 0 ? 0 : HUGE_VAL;
  if (isinfq(Tref)) return isinfq(T) ? 0 : HUGE_VAL;
  if (Tref > (q128)DMAX) return (T > (q128)DMAX / 2) ? 0 : HUGE_VAL;        // not representable: inf or huge accepted
  if (isinfq(T)) return HUGE_VAL;
  q128 d = fabsq(T - Tref) - dslack * (q128)DMIN; if (d < 0) d = 0;
  return (double)(d / Tref) / EPS;
}
static J jell(const Ell& e) { J j; j.f("a", e.a).f("f", e.f); if (e.axes) j.f("b", e.b).b("axes_ctor", true); return j; }

// ================================================================ section: conv
// one case = (ellipsoid, input AuxAngle, from-kind); all 6 targets x {exact, series}
static void sec_conv(Ctx& c, uint64_t idx) {
  vh::Rng& r = c.rng; bool want_series = (idx % 3) == 0;
  Ell E = pick_ell(r, want_series);
  const AuxLatitude& L = E.lat(); ref::AuxRef& R = *E.R;
  int from = (int)((idx / 3) % 6);
  TanIn ti = gen_tan(r);
  AuxAngle zin(ti.y, ti.x);
  q128 Tin = qtan_abs(ti.y, ti.x);
  c.event(std::string("input-class/") + ti.cls);
  q128 tphi;
  try { tphi = R.inv(from, Tin); } catch (const std::exception& ex) { c.herr(std::string("oracle inv failed: ") + ex.what()); return; }
  // all six tangents of the true point decide the zone: "normal" = everything (incl. the crude Newton starting values
  // tan/r^2) comfortably inside the double range; "underflow"/"overflow" zones are judged with their own rules and keys
  q128 Tall[6], tmin = HUGE_VALQ, tmax = 0;
  for (int k = 0; k < 6; ++k) { Tall[k] = R.fwd(k, tphi); if (Tall[k] < tmin) tmin = Tall[k]; if (Tall[k] > tmax) tmax = Tall[k]; }
  q128 amp = R.r * R.r; if (amp < 1) amp = 1 / amp;                       // max((b/a)^2, (a/b)^2)
  q128 ampo = amp; if (R.prolate) ampo *= expq(R.e * atanq(R.e));          // ... times the pole-side slope of the conformal map
  const char* zone = "";
  if (tmin != 0 && !isinfq(tmax)) { if (tmin / amp < 1e-290Q) zone = "/underflow-zone(|tan|<1e-290)"; else if (tmax * ampo > 1e290Q) zone = "/overflow-zone(|tan|>1e290)"; }
  bool normal = zone[0] == 0, uflow = zone[0] && zone[1] == 'u';
  double dslack = uflow ? 16 * (double)amp : 4;                            // graceful underflow: a few denormal quanta, scaled by the ellipsoid's amplification
  c.event(std::string("zone") + (normal ? "/normal" : zone));
  for (int to = 0; to < 6; ++to) {
    q128 Tref = Tall[to];
    for (int meth = 0; meth < 2; ++meth) {
      bool exact = meth == 0;
      if (!exact && !E.series_ok) continue;
      const char* mn = exact ? "exact" : "series";
      std::string pair = std::string(AUXN[from]) + "->" + AUXN[to];
      std::string cls = std::string("conv/") + mn + "/" + pair + "/" + E.regime;
      uint64_t h = vh::hmix(vh::hmix(vh::hmix(vh::hmix(vh::hmix(11, E.a), E.f), ti.y), ti.x), (uint64_t)(from * 16 + to * 2 + meth));
      c.count(cls, h, from == to);
      AuxAngle out = L.Convert(from, to, zin, exact);
      double err = tan_err_eps(out.y(), out.x(), Tref, dslack);
      J w; w.obj("ell", jell(E)).str("from", AUXN[from]).str("to", AUXN[to]).str("method", mn).f("y", ti.y).f("x", ti.x)
            .f("out_y", out.y()).f("out_x", out.x()).str("tan_ref", ref::qstr(Tref)).f("err_eps", err).str("input_class", ti.cls);
      if (c.want_sample(cls)) c.sample(cls, w);
      w.str("zone", normal ? "normal" : zone + 1);
      if (normal) { c.obs(std::string("auxlat ") + mn + " " + pair + " rel err tan [eps]", err, w);
        c.obs(std::string("auxlat ") + mn + " (" + E.regime + (E.axes ? ", axes ctor" : "") + ") rel err tan [eps]", err, w); }
      else { c.obs(std::string("auxlat ") + mn + " rel err tan [eps] in " + (zone + 1), err, w);
        bool isn = std::isnan(out.y()) || std::isnan(out.x());
        if (uflow && exact && from != to) { const char* tb = tmin < 1e-320Q ? "tmin<1e-320" : tmin < (q128)std::numeric_limits<double>::min() ? "tmin-subnormal" : tmin < 1e-300Q ? "tmin-2.2e-308..1e-300" : "tmin>=1e-300";
          bool xiq = from == ref::AUX_XI || to == ref::AUX_XI; bool inv3 = from >= 3;
          c.event(std::string("underflow-zone exact ") + (err <= K_EXACT * (R.prolate ? 1 + (double)(R.e * atanq(R.e)) : 1) ? "ok  " : "FAIL") + " " + tb + (xiq ? " xi" : " no-xi") + (inv3 ? " newton-inverse" : " closed-form-inverse")); }
        if (uflow && exact) { if (isn) c.event(std::string("underflow-zone NaN outputs, |tan_in| ") + (Tin <= 2 * (q128)DMIN ? "<= 2 denorm_min" : Tin < 1e-320Q ? "< 1e-320" : Tin < (q128)std::numeric_limits<double>::min() ? "subnormal" : "normal"));
          else if (std::isfinite(err)) c.obs("auxlat exact underflow-zone rel err tan [eps] (finite, after the denormal-quanta slack)", err, w); else c.event("underflow-zone non-NaN failures with infinite error measure"); } }
      // conformal latitude: tan(chi) ~ exp(-e atanh(e sin phi)); for prolate ellipsoids the exponent |e| atan(|e| sin phi)
      // reaches 157 at b/a = 100 and its round-off (>= eps/2 relative) is amplified by its size in any double evaluation
      double cond = 1;
      if ((to == ref::AUX_CHI || from == ref::AUX_CHI) && to != from && R.prolate) {
        q128 sph = isinfq(tphi) ? (q128)1 : tphi / hypotq(1, tphi); cond = 1 + (double)(R.e * atanq(R.e * sph)); }
      if (normal) c.obs(std::string("auxlat ") + mn + " rel err tan / conditioning [eps] all pairs", err / cond, w);
      double K = (exact ? K_EXACT : K_SERIES) * cond;
      if (E.ba >= 0.5 && E.ba <= 2 && tmin >= 1e-100Q && tmax <= 1e100Q && from != to) {
        c.obs(std::string("NORMAL REGIME (0.5<=b/a<=2, 1e-100<=|tan|<=1e100) auxlat ") + mn + " rel err tan [eps]", err, w);
        c.event(std::string("normal-regime conversions judged/") + mn); }
      if (normal && exact && (from >= 3 || to >= 3) && from != to) {
        const char* bk = E.ba < 0.02 ? "<0.02" : E.ba < 0.05 ? "0.02-0.05" : E.ba < 0.1 ? "0.05-0.1" : E.ba < 0.25 ? "0.1-0.25" : E.ba < 0.5 ? "0.25-0.5" : E.ba <= 2 ? "0.5-2" :
          E.ba <= 3 ? "2-3" : E.ba <= 5 ? "3-5" : E.ba <= 10 ? "5-10" : E.ba <= 30 ? "10-30" : E.ba <= 70 ? "30-70" : ">70";
        bool xi = from == ref::AUX_XI || to == ref::AUX_XI;
        c.obs(std::string("auxlat exact ") + (xi ? "xi" : "mu/chi") + (E.axes ? " axes-ctor" : " af-ctor") + " b/a " + bk + " rel err tan / conditioning [eps]", err / cond, w);
      }
      bool xi_ = from == ref::AUX_XI || to == ref::AUX_XI;
      Regime rg_(auxlat_regime(E.ba, E.f, exact, xi_, normal ? 0 : (uflow ? 1 : 2), tphi, (xi_ && tmin < 1e-300Q) || tmin < 1e-320Q));
      if (!(err <= K)) {
        std::string key = std::string("oracle:C15/auxlat/") + mn + "/" + pair;
        if (std::isnan(out.y()) || std::isnan(out.x())) key = std::string("oracle:C15/auxlat/") + mn + "/nan-output";
        VIOL(c, key, cls, w);
      }
      // quadrant / sign preservation and fixed points
      bool sy_ok = std::signbit(out.y()) == std::signbit(ti.y), sx_ok = std::signbit(out.x()) == std::signbit(ti.x);
      if (!sy_ok || !sx_ok) VIOL(c, std::string("law:C15/auxlat/quadrant-preserved/") + mn, cls, w);
      if (ti.y == 0 && !(out.y() == 0 && out.x() != 0)) VIOL(c, std::string("law:C15/auxlat/fixed-point-0/") + mn, cls, w);
      if (ti.x == 0 && !(std::isinf(out.y() / out.x()))) VIOL(c, std::string("law:C15/auxlat/fixed-point-90/") + mn, cls, w);
      if (ti.x != 0 && ti.y != 0 && normal && (out.x() == 0 || out.y() == 0))
        VIOL(c, std::string("law:C15/auxlat/spurious-fixed-point/") + mn, cls, w);
      // oddness: bit-exact
      {
        AuxAngle o2 = L.Convert(from, to, AuxAngle(-ti.y, ti.x), exact);
        if (!(vh::same_bits(o2.y(), -out.y()) && vh::same_bits(o2.x(), out.x()))) VIOL(c, std::string("law:C15/auxlat/odd/") + mn, cls, w);
      }
      // conversion o inverse = identity (only when everything is comfortably representable)
      if (normal && from != to) {
        AuxAngle back = L.Convert(to, from, out, exact);
        double e2 = tan_err_eps(back.y(), back.x(), Tin);
        c.obs(std::string("auxlat ") + mn + " roundtrip rel err tan [eps]", e2, w);
        if (E.ba >= 0.5 && E.ba <= 2 && tmin >= 1e-100Q && tmax <= 1e100Q) c.obs(std::string("NORMAL REGIME (0.5<=b/a<=2, 1e-100<=|tan|<=1e100) auxlat ") + mn + " roundtrip rel err tan [eps]", e2, w);
        c.obs(std::string("auxlat ") + mn + " roundtrip (" + E.regime + ") rel err tan [eps]", e2, w);
        if (!(e2 <= K_ROUNDTRIP * cond)) {
          std::string key = std::string("law:C15/auxlat/roundtrip/") + mn + "/" + pair;
          if (std::isnan(back.y()) || std::isnan(back.x())) key = std::string("law:C15/auxlat/roundtrip/") + mn + "/nan-output";
          VIOL(c, key, cls, J(w).f("back_y", back.y()).f("back_x", back.x()).f("roundtrip_err_eps", e2));
        }
      }
      // exact-method pieces: ToAuxiliary (+ derivative) and FromAuxiliary
      if (exact && from == 0 && to != 0) {
        double diff = vh::sentinel(1); AuxAngle o3 = L.ToAuxiliary(to, zin, &diff);
        double e3 = tan_err_eps(o3.y(), o3.x(), Tref, dslack);
        if (!(e3 <= K) && err <= K) VIOL(c, std::string("oracle:C15/auxlat/ToAuxiliary/") + AUXN[to], cls, J(w).f("ToAux_y", o3.y()).f("ToAux_x", o3.x()).f("ToAux_err_eps", e3));
        if (Tin > 1e-150Q && Tin < 1e150Q && err <= K && normal) {
          q128 dref = R.dfwd(to, Tin); double ed = (double)(fabsq(diff - dref) / dref) / EPS;
          c.obs("auxlat ToAuxiliary diff rel err [eps]", ed, J(w).f("diff", diff).str("diff_ref", ref::qstr(dref)));
          c.count(std::string("conv/ToAuxiliary-diff/") + AUXN[to] + "/" + E.regime, vh::hmix(h, (uint64_t)77));
          if (!(ed <= 4 * K)) VIOL(c, std::string("oracle:C15/auxlat/ToAuxiliary-diff/") + AUXN[to], cls, J(w).f("diff", diff).str("diff_ref", ref::qstr(dref)).f("diff_err_eps", ed));
        }
      }
      if (exact && to == 0 && from != 0) {
        int niter = -1; AuxAngle o3 = L.FromAuxiliary(from, zin, &niter);
        double e3 = tan_err_eps(o3.y(), o3.x(), Tref, dslack);
        if (!(e3 <= K) && err <= K) VIOL(c, std::string("oracle:C15/auxlat/FromAuxiliary/") + AUXN[from], cls, J(w).f("FromAux_y", o3.y()).f("FromAux_x", o3.x()).f("FromAux_err_eps", e3));
        bool subn = Tin < (q128)std::numeric_limits<double>::min();
        c.obs(subn ? "auxlat FromAuxiliary Newton iterations (subnormal tangent)" : "auxlat FromAuxiliary Newton iterations (normal tangent)", niter, w);
        // unchanged tree: at most 15 iterations for tangents in the normal range; the safeguarded Newton must not degenerate into bisection
        if (!subn && niter > 40 && niter < 1000) VIOL(c, std::string("law:C15/auxlat/FromAuxiliary-slow-convergence/") + AUXN[from], cls, J(w).i("niter", niter));
        if (niter >= 1000) { c.event(subn ? "FromAuxiliary Newton cap numit_=1000 reached (subnormal tangent)" : "FromAuxiliary Newton cap numit_=1000 reached (normal tangent)");
          if (!subn) VIOL(c, std::string("law:C15/auxlat/FromAuxiliary-newton-cap-reached/") + AUXN[from], cls, J(w).i("niter", niter)); }
      }
    }
  }
}


// ================================================================ helpers for angles in degrees
// error of an angle in degrees, converted to "relative error of the tangent" [eps]; an absolute slack of
// `ulps` ulp of the returned value (rounding of atan2d and of the 360*m addition) is removed first
static double deg_err_eps(double got, q128 Yref_deg, double ulps = 4) {
  if (std::isnan(got)) return HUGE_VAL;
  q128 d = fabsq((q128)got - Yref_deg) - ulps * (q128)ref::ulp_d((double)Yref_deg) - 64 * (q128)DMIN;
  if (d <= 0) return 0;
  q128 sc = fabsq(sinq(2 * Yref_deg * (M_PIq / 180))) / 2;
  if (sc == 0) return HUGE_VAL;
  return (double)(d * (M_PIq / 180) / sc) / EPS;
}
static double gen_lat(vh::Rng& r, const char*& cls) {
  switch (r.below(8)) {
  case 0: cls = "lat-0-45-90-exact"; { static const double sp[] = {0.0, 45.0, 90.0, 30.0, 60.0}; return r.sign() * r.pick(sp); }
  case 1: cls = "lat-near-special-ulps"; { static const double sp[] = {0.0, 45.0, 90.0}; double d = vh::ulps(r.pick(sp), r.range(-4, 4)); if (d > 90) d = 90; return r.sign() * d; }
  case 2: cls = "lat-tiny"; return r.sign() * r.logu(1e-300, 1e-6);
  case 3: cls = "lat-near-pole"; return r.sign() * (90 - r.logu(1e-14, 1e-2));
  default: cls = "lat-uniform"; return r.uniform(-90, 90);
  }
}
// conformal conditioning factor for a true geographic tangent
static double chi_cond(const ref::AuxRef& R, q128 tphi) {
  if (!R.prolate) return 1; q128 s = isinfq(tphi) ? (q128)1 : tphi / hypotq(1, tphi); return 1 + (double)(R.e * atanq(R.e * s));
}
static std::string narrow(const Ell& E, int from, int to, bool exact, double err, const std::string& generic) {
  bool xi = from == ref::AUX_XI || to == ref::AUX_XI;
  if (exact && xi && E.ba > 4 && err <= 32 * E.ba * E.ba) return "oracle:C15/auxlat/exact/xi/prolate-b/a>4";
  if (exact && !E.axes && E.ba < 0.25 && (from >= 3 || to >= 3) && err <= 2 / (E.ba * E.ba)) return "oracle:C15/auxlat/exact/af-ctor/oblate-b/a<0.25";
  return generic;
}

// ================================================================ section: deg  (degree overloads, multi-turn angles)
static void sec_deg(Ctx& c, uint64_t idx) {
  vh::Rng& r = c.rng; bool want_series = (idx & 1) == 0;
  Ell E = pick_ell(r, want_series); const AuxLatitude& L = E.lat(); ref::AuxRef& R = *E.R;
  int from = (int)r.below(6), to = (int)r.below(6);
  const char* lc; double lat = gen_lat(r, lc);
  // quadrant: 0 -> [-90,90]; 1 -> reflected into (90,270): angle = 180 - lat
  bool refl = r.coin(0.25); double base = refl ? (lat >= 0 ? 180 - lat : -180 - lat) : lat;
  double turns = r.coin(0.4) ? 0 : std::floor(r.uniform(-20, 21)); if (r.coin(0.05)) turns = std::floor(r.uniform(-1e6, 1e6));
  double zeta = base + 360 * turns;
  // exact reduction of the double actually passed
  q128 zr = remainderq((q128)zeta, 360); if (zr == -180) zr = 180;
  q128 m = roundq(((q128)zeta - zr) / 360);
  bool back = fabsq(zr) > 90;
  q128 latq = back ? copysignq(180 - fabsq(zr), zr) : zr;        // latitude-like part in [-90,90]
  q128 sq, cq; ref::sincosd(fabsq(latq), sq, cq);
  q128 Tin = cq == 0 ? (q128)HUGE_VALQ : sq / cq;
  q128 tphi = R.inv(from, Tin), Tout = R.fwd(to, tphi);
  q128 eta = ref::tan_to_deg(Tout);                              // in [0,90]
  q128 want = back ? copysignq(180 - eta, zr) : copysignq(eta, zr);
  if (zr == 0) want = 0;
  q128 wantfull = 360 * m + want;
  for (int meth = 0; meth < 2; ++meth) {
    bool exact = meth == 0; if (!exact && !E.series_ok) continue;
    const char* mn = exact ? "exact" : "series";
    std::string cls = std::string("deg/") + mn + "/" + E.regime + "/" + (back ? "quadrant-2-3" : "quadrant-1-4") + (turns != 0 ? "/multi-turn" : "/single-turn");
    c.count(cls, vh::hmix(vh::hmix(vh::hmix(vh::hmix(21, E.f), zeta), (uint64_t)(from * 8 + to)), (uint64_t)meth), from == to);
    double got = L.Convert(from, to, zeta, exact);
    // error measured on the reduced angle (the 360*m part adds one rounding of the sum)
    q128 d = fabsq((q128)got - wantfull) - 2 * (q128)ref::ulp_d((double)wantfull) - 2 * (q128)ref::ulp_d(zeta);
    double err;
    if (std::isnan(got)) err = HUGE_VAL; else if (d <= 0) err = 0;
    else if (fabsq(want) < 1e-290Q || fabsq(zr) < 1e-290Q) { err = fabsq((q128)got - wantfull) <= fabsq(want) + 1e-300Q ? 0 : HUGE_VAL; c.event("deg: underflow-zone angle judged leniently"); }
    else err = deg_err_eps((double)(want + copysignq(d, (q128)got - wantfull)), want, 4);
    double cond = (from == ref::AUX_CHI || to == ref::AUX_CHI) && from != to ? chi_cond(R, tphi) : 1;
    J w; w.obj("ell", jell(E)).str("from", AUXN[from]).str("to", AUXN[to]).str("method", mn).f("zeta_deg", zeta).f("got_deg", got).str("want_deg", ref::qstr(wantfull)).f("err_tan_eps", err).str("lat_class", lc);
    if (c.want_sample(cls)) c.sample(cls, w);
    c.obs(std::string("auxlat degree overload ") + mn + " err as rel tan [eps] / conditioning", err / cond, w);
    double K = (exact ? K_EXACT : K_SERIES) * cond;
    Regime rg_(auxlat_regime(E.ba, E.f, exact, from == ref::AUX_XI || to == ref::AUX_XI, 0, tphi));
    if (!(err <= K)) VIOL(c, std::string("oracle:C15/auxlat-deg/") + mn + "/" + AUXN[from] + "->" + AUXN[to], cls, w);
    // multi-turn consistency: same reduced angle with 0 turns gives the same result up to the 360 m shift
    if (turns != 0) {
      double g0 = L.Convert(from, to, (double)zr == zr ? (double)zr : base, exact);
      q128 dd = fabsq(((q128)got - 360 * m) - (q128)g0);
      if (!(dd <= 4 * (q128)ref::ulp_d(got) + 4 * (q128)ref::ulp_d(zeta) + (q128)deg_err_eps(0, 0) )) VIOL(c, std::string("law:C15/auxlat-deg/turns-not-additive/") + mn, cls, J(w).f("zero_turn_result", g0));
    }
    // oddness
    double gm = L.Convert(from, to, -zeta, exact);
    if (!(gm == -got)) VIOL(c, std::string("law:C15/auxlat-deg/odd/") + mn, cls, J(w).f("neg_result", gm));
  }
}

// ================================================================ section: mono  (monotone ladders of 1000 angles)
static void sec_mono(Ctx& c, uint64_t idx) {
  vh::Rng& r = c.rng; bool want_series = (idx & 1) == 0;
  Ell E = pick_ell(r, want_series); const AuxLatitude& L = E.lat();
  int from = (int)(idx % 6), to = (int)((idx / 6) % 6);
  bool exact = !want_series || r.coin(0.3); if (!E.series_ok) exact = true;
  const char* mn = exact ? "exact" : "series";
  int kind = (int)r.below(3);       // 0: geometric in the tangent over the whole range; 1: narrow window in degrees; 2: tangents a few 1e-12 apart
  std::string cls = std::string("mono/") + mn + "/" + AUXN[from] + "->" + AUXN[to] + "/" + (kind == 0 ? "whole-range" : kind == 1 ? "narrow-degrees" : "narrow-tangent");
  c.count(cls, vh::hmix(vh::hmix(vh::hmix(31, E.f), (uint64_t)idx), (uint64_t)kind));
  Regime rg_(auxlat_regime(E.ba, E.f, exact, from == ref::AUX_XI || to == ref::AUX_XI, 0, 1));
  const int N = 1000; double prev_in = 0, prev_out = 0; q128 prev_T = -1; bool have = false;
  double d0 = r.uniform(0, 89.9), t0 = r.logu(1e-6, 1e6), lo = r.coin() ? -280 : -3, hi = -lo;
  for (int i = 0; i < N; ++i) {
    double in, out; q128 T;
    if (kind == 1) { in = d0 + i * 1e-11; out = L.Convert(from, to, in, exact); if (have && !(out >= prev_out)) VIOL(c, std::string("law:C15/auxlat/monotone-degrees/") + mn, cls, J().obj("ell", jell(E)).str("from", AUXN[from]).str("to", AUXN[to]).f("in1", prev_in).f("in2", in).f("out1", prev_out).f("out2", out)); prev_in = in; prev_out = out; have = true; continue; }
    in = kind == 0 ? std::pow(10.0, lo + (hi - lo) * i / (N - 1.0)) : t0 * (1 + i * 1e-11);
    AuxAngle o = L.Convert(from, to, AuxAngle(in), exact);
    T = qtan_abs(o.y(), o.x());
    if (have && !(T >= prev_T) && !isnanq(T))
      VIOL(c, std::string("law:C15/auxlat/monotone-tangent/") + mn, cls, J().obj("ell", jell(E)).str("from", AUXN[from]).str("to", AUXN[to]).f("tan_in1", prev_in).f("tan_in2", in).str("tan_out1", ref::qstr(prev_T)).str("tan_out2", ref::qstr(T)));
    if (!isnanq(T)) { prev_T = T; prev_in = in; have = true; }
  }
  c.event("monotone ladder steps checked", N - 1);
}

// ================================================================ section: auxangle
static void sec_auxangle(Ctx& c, uint64_t) {
  vh::Rng& r = c.rng; TanIn ti = gen_tan(r); AuxAngle a(ti.y, ti.x);
  std::string cls = std::string("auxangle/") + ti.cls + (ti.x < 0 ? "/x<0" : "/x>=0");
  c.count(cls, vh::hmix(vh::hmix(41, ti.y), ti.x));
  J w; w.f("y", ti.y).f("x", ti.x);
  q128 ang = atan2q((q128)ti.y, (q128)ti.x);
  double deg = a.degrees(), rad = a.radians();
  double e1 = ref::err_ulps(deg, ang * (180 / M_PIq)), e2 = ref::err_ulps(rad, ang);
  if (fabsq(ang) < 1e-290Q) { e1 = 0; e2 = 0; }       // gradual underflow inside atan2 (C16 covers atan2d)
  c.obs("AuxAngle degrees()/radians() err [ulp]", std::max(e1, e2), w);
  if (!(e1 <= 4 && e2 <= 4)) VIOL(c, "oracle:C15/auxangle/degrees-radians", cls, J(w).f("degrees", deg).f("radians", rad));
  // normalized(): on the unit circle, same direction
  AuxAngle n = a.normalized();
  if (ti.y == 0 && ti.x == 0) { if (!std::isnan(n.y())) VIOL(c, "oracle:C15/auxangle/normalized-00", cls, w); }
  else {
    q128 hh = hypotq((q128)ti.y, (q128)ti.x), sy = (q128)ti.y / hh, sx = (q128)ti.x / hh;
    double en = (double)std::max(fabsq(n.y() - sy), fabsq(n.x() - sx)) / EPS;
    // relative accuracy of the small component
    double er = 0; if (sy != 0 && sx != 0 && fabsq(sy) > 1e-300Q && fabsq(sx) > 1e-300Q) er = (double)std::max(fabsq(n.y() - sy) / fabsq(sy), fabsq(n.x() - sx) / fabsq(sx)) / EPS;
    c.obs("AuxAngle normalized() abs err [eps]", en, w); c.obs("AuxAngle normalized() rel err of components [eps]", er, w);
    if (!(en <= 2 && er <= 4)) VIOL(c, "oracle:C15/auxangle/normalized", cls, J(w).f("ny", n.y()).f("nx", n.x()));
    if (std::signbit(n.y()) != std::signbit(ti.y) || std::signbit(n.x()) != std::signbit(ti.x)) VIOL(c, "law:C15/auxangle/normalized-quadrant", cls, w);
  }
  // tan(), lam(), lamd()
  if (ti.x != 0) {
    q128 T = (q128)ti.y / (q128)ti.x; double t = a.tan();
    if (fabsq(T) < (q128)DMAX && fabsq(T) > 1e-300Q) { double et = ref::err_ulps(t, T); if (!(et <= 1)) VIOL(c, "oracle:C15/auxangle/tan", cls, J(w).f("tan", t)); }
    if (fabsq(T) < 1e300Q && fabsq(T) > 1e-300Q) {
      q128 lam = asinhq(T); double el = std::max(ref::err_ulps(a.lam(), lam), ref::err_ulps(a.lamd(), lam * (180 / M_PIq)));
      c.obs("AuxAngle lam()/lamd() err [ulp]", el, w);
      if (!(el <= 4)) VIOL(c, "oracle:C15/auxangle/lam", cls, J(w).f("lam", a.lam()).f("lamd", a.lamd()));
    }
  }
  // factories: degrees(d), radians(r), lam(psi), lamd(psid)
  {
    double d = r.coin(0.3) ? r.uniform(-180, 180) : r.sign() * r.logu(1e-300, 180);
    AuxAngle f = AuxAngle::degrees(d); q128 s, co; ref::sincosd((q128)d, s, co);
    double e = (double)std::max(fabsq(f.y() - s), fabsq(f.x() - co)) / EPS;
    if (!(e <= 2)) VIOL(c, "oracle:C15/auxangle/factory-degrees", cls, J().f("d", d).f("y", f.y()).f("x", f.x()));
    double rr = d * (M_PI / 180); AuxAngle g = AuxAngle::radians(rr);
    double eg = (double)std::max(fabsq(g.y() - sinq((q128)rr)), fabsq(g.x() - cosq((q128)rr))) / EPS;
    if (!(eg <= 2)) VIOL(c, "oracle:C15/auxangle/factory-radians", cls, J().f("r", rr).f("y", g.y()).f("x", g.x()));
    double psi = r.sign() * r.logu(1e-300, 700); AuxAngle hL = AuxAngle::lam(psi), hD = AuxAngle::lamd(psi / (M_PI / 180));
    q128 sh = sinhq((q128)psi);
    double eh = ref::err_ulps(hL.y() / hL.x(), sh);
    double psid = psi / (M_PI / 180); q128 shd = sinhq((q128)psid * (M_PIq / 180));
    double ehd = (double)(fabsq((q128)hD.y() / (q128)hD.x() - shd) / fabsq(shd)) / EPS / (1 + std::fabs(psi));   // psid*degree rounds once: amplified by |psi|
    c.obs("AuxAngle::lam(psi) err [ulp]", eh, J().f("psi", psi)); c.obs("AuxAngle::lamd(psid) rel err / (1+|psi|) [eps]", ehd, J().f("psid", psid));
    if (!(eh <= 4)) VIOL(c, "oracle:C15/auxangle/factory-lam", cls, J().f("psi", psi).f("y", hL.y()));
    if (!(ehd <= 4)) VIOL(c, "oracle:C15/auxangle/factory-lamd", cls, J().f("psid", psid).f("y", hD.y()));
  }
  // copyquadrant and operator+=
  {
    TanIn t2 = gen_tan(r); AuxAngle b(t2.y, t2.x), q = a.copyquadrant(b);
    if (!(std::fabs(q.y()) == std::fabs(a.y()) && std::fabs(q.x()) == std::fabs(a.x()) && std::signbit(q.y()) == std::signbit(b.y()) && std::signbit(q.x()) == std::signbit(b.x())))
      VIOL(c, "law:C15/auxangle/copyquadrant", cls, J(w).f("py", t2.y).f("px", t2.x));
    AuxAngle an = a.normalized(), bn = b.normalized();
    if (!std::isnan(an.y()) && !std::isnan(bn.y())) {
      AuxAngle sum = an; sum += bn;
      q128 A = atan2q((q128)an.y(), (q128)an.x()) + atan2q((q128)bn.y(), (q128)bn.x());
      double es = (double)std::max(fabsq(sum.y() - sinq(A)), fabsq(sum.x() - cosq(A))) / EPS;
      c.obs("AuxAngle operator+= (normalized operands) abs err [eps]", es, w);
      Regime rga_(bn.y() == 0 && bn.x() < 0 ? "regime:C15/auxangle/plus-equals/p=180deg" : "");
      if (!(es <= 4)) VIOL(c, "oracle:C15/auxangle/plus-equals", cls, J(w).f("py", t2.y).f("px", t2.x).f("sy", sum.y()).f("sx", sum.x()));
    }
  }
  AuxAngle nn = AuxAngle::NaN(); if (!(std::isnan(nn.y()) && std::isnan(nn.x()))) VIOL(c, "law:C15/auxangle/NaN", cls, w);
}

// ================================================================ section: ell  (Ellipsoid inspectors and wrappers)
static void rel_check(Ctx& c, const std::string& name, const std::string& cls, double got, q128 want, double K, const J& w, double floor_abs = 0, const char* keysuffix = "") {
  double e;
  if (std::isnan(got) || isnanq(want)) e = (std::isnan(got) && isnanq(want)) ? 0 : HUGE_VAL;
  else if (want == 0) e = std::fabs(got) <= floor_abs ? 0 : HUGE_VAL;
  else { q128 d = fabsq((q128)got - want) - (q128)floor_abs; if (d < 0) d = 0; e = (double)(d / fabsq(want)) / EPS; }
  c.obs(name + " rel err [eps]", e / (K / K_MEASURE), J(w).f("got", got).str("want", ref::qstr(want)));
  if (!(e <= K)) VIOL(c, std::string("oracle:C15/") + name + keysuffix, cls, J(w).f("got", got).str("want", ref::qstr(want)).f("err_eps", e).f("tol_eps", K));
}
static void sec_ell(Ctx& c, uint64_t idx) {
  vh::Rng& r = c.rng;
  Ell E; do { E = pick_ell(r, (idx % 4) == 0); } while (E.axes);
  const Ellipsoid& L = *E.E; ref::AuxRef& R = *E.R;
  const char* lc; double phi = gen_lat(r, lc);
  std::string cls = std::string("ell/") + E.regime + "/" + lc;
  c.count(cls, vh::hmix(vh::hmix(vh::hmix(51, E.a), E.f), phi));
  J w; w.obj("ell", jell(E)).f("phi", phi);
  if (c.want_sample(cls)) c.sample(cls, w);
  q128 sq, cq; ref::sincosd((q128)std::fabs(phi), sq, cq); q128 sgn = phi < 0 ? -1 : 1;
  q128 t = cq == 0 ? (q128)HUGE_VALQ : sq / cq;
  bool afbad = E.ba < 0.25;                          // finding F-A region (Ellipsoid always uses the (a,f) constructor)
  // ---- constants
  if ((idx % 8) == 1) {
    std::string cc = std::string("ell-const/") + E.regime; c.count(cc, vh::hmix(vh::hmix(52, E.a), E.f));
    rel_check(c, "ellipsoid/QuarterMeridian", cc, L.QuarterMeridian(), R.quarter_meridian(), K_MEASURE, w);
    rel_check(c, "ellipsoid/Area", cc, L.Area(), R.area(), K_MEASURE, w);
    rel_check(c, "ellipsoid/Volume", cc, L.Volume(), R.volume(), K_MEASURE, w);
    rel_check(c, "ellipsoid/EquatorialRadius", cc, L.EquatorialRadius(), R.a, 0, w);
    rel_check(c, "ellipsoid/PolarRadius", cc, L.PolarRadius(), R.b, 1, w);
    rel_check(c, "ellipsoid/Flattening", cc, L.Flattening(), (q128)E.f, 0, w);
    rel_check(c, "ellipsoid/SecondFlattening", cc, L.SecondFlattening(), (R.a - R.b) / R.b, K_MEASURE, w);
    rel_check(c, "ellipsoid/ThirdFlattening", cc, L.ThirdFlattening(), R.n, K_MEASURE, w);
    rel_check(c, "ellipsoid/EccentricitySq", cc, L.EccentricitySq(), R.e2, K_MEASURE, w);
    // e'^2 and e''^2 are formed from the rounded e^2: their condition number w.r.t. that rounding is 1/(1-e^2), 2/(2-e^2)
    double c2 = 1 + (double)fabsq(1 / (1 - R.e2));
    rel_check(c, "ellipsoid/SecondEccentricitySq", cc, L.SecondEccentricitySq(), (R.a - R.b) * (R.a + R.b) / (R.b * R.b), K_MEASURE * c2, w);
    rel_check(c, "ellipsoid/ThirdEccentricitySq", cc, L.ThirdEccentricitySq(), (R.a - R.b) * (R.a + R.b) / (R.a * R.a + R.b * R.b), K_MEASURE * 2, w);
    c.obs("ellipsoid/SecondEccentricitySq rel err without conditioning allowance [eps]", (double)(fabsq(L.SecondEccentricitySq() - (R.a - R.b) * (R.a + R.b) / (R.b * R.b)) / fabsq((R.a - R.b) * (R.a + R.b) / (R.b * R.b) + (R.sphere ? 1 : 0))) / EPS, w);
  }
  // ---- latitude wrappers (degrees in, degrees out)
  struct W { const char* n; int k; double (Ellipsoid::*fw)(double) const; double (Ellipsoid::*inv)(double) const; };
  static const W ws[] = {{"Parametric", ref::AUX_BETA, &Ellipsoid::ParametricLatitude, &Ellipsoid::InverseParametricLatitude},
    {"Geocentric", ref::AUX_THETA, &Ellipsoid::GeocentricLatitude, &Ellipsoid::InverseGeocentricLatitude},
    {"Rectifying", ref::AUX_MU, &Ellipsoid::RectifyingLatitude, &Ellipsoid::InverseRectifyingLatitude},
    {"Authalic", ref::AUX_XI, &Ellipsoid::AuthalicLatitude, &Ellipsoid::InverseAuthalicLatitude},
    {"Conformal", ref::AUX_CHI, &Ellipsoid::ConformalLatitude, &Ellipsoid::InverseConformalLatitude}};
  bool tiny = std::fabs(phi) < 1e-280;
  for (const W& x : ws) {
    for (int dir = 0; dir < 2; ++dir) {
      q128 tph = dir == 0 ? t : R.inv(x.k, t), T = dir == 0 ? R.fwd(x.k, t) : tph;
      q128 want = sgn * ref::tan_to_deg(T);
      double got = dir == 0 ? (L.*x.fw)(phi) : (L.*x.inv)(phi);
      double err = tiny ? (fabsq((q128)got - want) <= fabsq(want) * 1e-9Q + 1e-300Q ? 0 : HUGE_VAL) : deg_err_eps(got, want);
      double cond = x.k == ref::AUX_CHI ? chi_cond(R, tph) : 1;
      std::string nm = std::string("ellipsoid/") + (dir ? "Inverse" : "") + x.n + "Latitude";
      J w2(w); w2.f("got", got).str("want", ref::qstr(want)).f("err_tan_eps", err);
      c.obs(nm + " err as rel tan / conditioning [eps]", err / cond, w2);
      Regime rg_(auxlat_regime(E.ba, E.f, true, x.k == ref::AUX_XI, 0, tph));
      if (!(err <= K_EXACT * cond)) VIOL(c, std::string("oracle:C15/") + nm, cls, w2);
      // oddness and range
      double gm = dir == 0 ? (L.*x.fw)(-phi) : (L.*x.inv)(-phi);
      if (!(gm == -got)) VIOL(c, std::string("law:C15/") + nm + "/odd", cls, w2);
      if (!(std::fabs(got) <= 90)) VIOL(c, std::string("law:C15/") + nm + "/range", cls, w2);
      if (std::fabs(phi) == 90 && got != phi) VIOL(c, std::string("law:C15/") + nm + "/fixed-point-90", cls, w2);
      if (phi == 0 && got == 0 && std::signbit(got) != std::signbit(phi)) c.event("ellipsoid latitude wrapper: sign of zero not preserved (-0 -> +0)");
      if (phi == 0 && !(got == 0)) VIOL(c, std::string("law:C15/") + nm + "/fixed-point-0", cls, w2);
    }
    // round trip through the wrapper pair
    if (!tiny && std::fabs((L.*x.fw)(phi)) <= 90) {
      double fwv = (L.*x.fw)(phi), bk = (L.*x.inv)(fwv);
      // forward value is rounded to a double in degrees: near the pole that costs ulp(90)/|90-|fw|| relative in the tangent
      q128 T1 = R.fwd(x.k, t), Y1 = ref::tan_to_deg(T1);
      (void)Y1; double e = deg_err_eps(bk, sgn * ref::tan_to_deg(R.inv(x.k, ref::tand_exact(std::fabs(fwv)))));
      double cond = x.k == ref::AUX_CHI ? chi_cond(R, t) : 1;
      c.obs(std::string("ellipsoid/") + x.n + " inverse(forward(phi)) vs oracle inverse of the rounded forward [tan eps] / conditioning", e / cond, w);
      Regime rg_(auxlat_regime(E.ba, E.f, true, x.k == ref::AUX_XI, 0, t));
      if (!(e <= K_EXACT * cond)) VIOL(c, std::string("law:C15/ellipsoid/roundtrip/") + x.n, cls, J(w).f("forward", fwv).f("back", bk).f("err_tan_eps", e));
    }
  }
  // ---- isometric latitude (degrees)
  {
    double psi = L.IsometricLatitude(phi);
    if (std::fabs(phi) == 90) {
      double back = L.InverseIsometricLatitude(psi);
      if (!(std::fabs(psi) > 1e3 && back == phi && std::signbit(psi) == std::signbit(phi))) VIOL(c, "law:C15/ellipsoid/IsometricLatitude/pole", cls, J(w).f("psi", psi).f("back", back));
      // documentation: "some (positive or negative) large but finite value"
      else if (!std::isfinite(psi)) VIOL(c, "law:C15/ellipsoid/IsometricLatitude/pole-value-documented-finite-is-inf", cls, J(w).f("psi", psi).f("back", back));
    } else if (!tiny) {
      q128 want = sgn * R.psi(t) * (180 / M_PIq);
      // psi = asinh(tan chi): inherits the relative tangent error of chi (times tanh-like factor <= 1)
      double cond = chi_cond(R, t);
      rel_check(c, "ellipsoid/IsometricLatitude", cls, psi, want, K_EXACT * cond, w, 64 * DMIN);
      // inverse: tan(chi) = sinh(psi * degree): one rounding of psi*degree is amplified by |psi| (radians)
      if (!tiny) {
        double back = L.InverseIsometricLatitude(psi);
        q128 pr = (q128)psi * (M_PIq / 180), tchi = sinhq(fabsq(pr));
        if (tchi < 1e290Q) {
          q128 tp = R.inv(ref::AUX_CHI, tchi); double e = deg_err_eps(back, sgn * ref::tan_to_deg(tp));
          double cnd = cond * (1 + (double)fabsq(pr));
          c.obs("ellipsoid/InverseIsometricLatitude err as rel tan / conditioning [eps]", e / cnd, J(w).f("psi", psi).f("back", back));
          if (!(e <= K_EXACT * cnd)) VIOL(c, "oracle:C15/ellipsoid/InverseIsometricLatitude", cls, J(w).f("psi", psi).f("back", back).f("err_tan_eps", e));
        }
      }
    }
  }
  // ---- lengths and radii (denormal latitudes underflow inside sincosd: not judged)
  if (tiny) c.event("ell: denormal-range latitude, lengths not judged");
  else {
    q128 s = sgn * sq, co = cq;
    // condition number of v = 1 - e2 sin^2 w.r.t. the rounding of the stored e2 and of sin^2
    double cv = 1 + (double)(fabsq(R.e2) * sq * sq / (1 - R.e2 * sq * sq));
    rel_check(c, "ellipsoid/CircleRadius", cls, L.CircleRadius(phi), R.circle_radius(sq, co), K_MEASURE, w, 0);
    rel_check(c, "ellipsoid/CircleHeight", cls, L.CircleHeight(phi), R.circle_height(s, co), K_MEASURE, w, 64 * DMIN * E.a);
    rel_check(c, "ellipsoid/MeridionalCurvatureRadius", cls, L.MeridionalCurvatureRadius(phi), R.rho(sq), K_MEASURE * (1 + 1.5 * (cv - 1) + (double)fabsq(R.e2 / (1 - R.e2))), w);
    rel_check(c, "ellipsoid/TransverseCurvatureRadius", cls, L.TransverseCurvatureRadius(phi), R.nu(sq), K_MEASURE * (1 + 0.5 * (cv - 1)), w);
    double azi = r.coin(0.2) ? 90.0 * r.range(-4, 4) : r.uniform(-720, 720);
    q128 sa, ca; ref::sincosd((q128)azi, sa, ca);
    rel_check(c, "ellipsoid/NormalCurvatureRadius", cls, L.NormalCurvatureRadius(phi, azi), R.normal_radius(sq, sa, ca), K_MEASURE * (1 + 1.5 * (cv - 1) + (double)fabsq(R.e2 / (1 - R.e2))), J(w).f("azi", azi));
    q128 md = sgn * R.a * R.merid(t);
    double gotmd = L.MeridianDistance(phi);
    rel_check(c, "ellipsoid/MeridianDistance", cls, gotmd, md, 2 * K_MEASURE, w, 64 * DMIN * E.a);
    if (std::fabs(phi) == 90) rel_check(c, "ellipsoid/MeridianDistance(90)==QuarterMeridian", cls, std::fabs(gotmd), (q128)L.QuarterMeridian(), 4, w);
  }
  // ---- out-of-range latitude -> NaN
  if ((idx % 16) == 3) {
    double bad = r.sign() * vh::ulps(90.0, r.range(1, 3));
    if (!(std::isnan(L.ParametricLatitude(bad)) && std::isnan(L.RectifyingLatitude(bad)) && std::isnan(L.IsometricLatitude(bad)) && std::isnan(L.CircleRadius(bad)) &&
          std::isnan(L.MeridianDistance(bad)) && std::isnan(L.MeridionalCurvatureRadius(bad)) && std::isnan(L.InverseAuthalicLatitude(bad))))
      VIOL(c, "law:C15/ellipsoid/latitude-beyond-90-gives-nan", cls, J(w).f("bad", bad));
    c.count("ell/out-of-range-latitude", vh::hmix(53, bad), true);
  }
}

// static flattening / eccentricity interconversions, instance inspectors and constructors for f log-uniform in +-[1e-16, 0.99]
// (and exact 0).  The parameters are generated DIRECTLY (not derived from a double b/a: sqrt(fl((b/a)^2)) == b/a would hide
// cancellation in the inverse formulas).  Reference: the defining relations between a, b in binary128 (expm1/log1p forms where a
// naive form would cancel); K = 8 eps relative, times the condition number of the map where it exceeds 1.
static q128 q_f_from_e2(q128 e2) { return -expm1q(log1pq(-e2) / 2); }                       // f = 1 - sqrt(1 - e2)
static q128 q_f_from_ep2(q128 ep2) { return -expm1q(-log1pq(ep2) / 2); }                    // f = 1 - 1/sqrt(1 + e'2)
static q128 q_f_from_epp2(q128 x) { return -expm1q((log1pq(-x) - log1pq(x)) / 2); }         // f = 1 - sqrt((1-e''2)/(1+e''2))
static void sec_flat(Ctx& c, uint64_t idx) {
  vh::Rng& r = c.rng;
  auto genpar = [&](double lo, double hi_pos, double hi_neg) { int k = (int)r.below(20); if (k == 0) return 0.0; bool neg = r.coin();
    double m = r.logu(lo, neg ? hi_neg : hi_pos); return neg ? -m : m; };
  // ---- static functions: every one on its own directly generated argument
  double f = genpar(1e-16, 0.99, 99.0);
  if ((idx % 8) == 0) { static const double sp[] = {1 / 298.257223563, 1 / 150.0, -1 / 150.0, 1 / 297.0, 1e-8, 3e-14, -1e-11}; f = r.pick(sp); }
  std::string cls = std::string("flat/") + (f == 0 ? "f=0" : std::fabs(f) < 1e-8 ? "|f|<1e-8" : std::fabs(f) < 1e-3 ? "|f|<1e-3" : f > 0 ? "oblate" : "prolate");
  c.count(cls, vh::hmix(61, f));
  J w; w.f("f", f);
  auto chk = [&](const char* nm, double got, q128 want, double cond, const J& ww) { rel_check(c, std::string("ellipsoid-static/") + nm, cls, got, want, K_MEASURE * std::max(1.0, cond), ww); };
  q128 F = f;
  chk("FlatteningToSecondFlattening", Ellipsoid::FlatteningToSecondFlattening(f), F / (1 - F), 1 + (double)fabsq(F / (1 - F)), w);
  chk("FlatteningToThirdFlattening", Ellipsoid::FlatteningToThirdFlattening(f), F / (2 - F), 1, w);
  chk("FlatteningToEccentricitySq", Ellipsoid::FlatteningToEccentricitySq(f), F * (2 - F), 1, w);
  chk("FlatteningToSecondEccentricitySq", Ellipsoid::FlatteningToSecondEccentricitySq(f), F * (2 - F) / ((1 - F) * (1 - F)), 1 + 2 * (double)fabsq(F / (1 - F)), w);
  chk("FlatteningToThirdEccentricitySq", Ellipsoid::FlatteningToThirdEccentricitySq(f), F * (2 - F) / (1 + (1 - F) * (1 - F)), 2, w);
  { double fp = genpar(1e-16, 99.0, 0.99); q128 X = fp; chk("SecondFlatteningToFlattening", Ellipsoid::SecondFlatteningToFlattening(fp), X / (1 + X), 1 + (double)fabsq(X / (1 + X)), J().f("fp", fp)); }
  { double n = genpar(1e-16, 0.99, 0.99); q128 X = n; chk("ThirdFlatteningToFlattening", Ellipsoid::ThirdFlatteningToFlattening(n), 2 * X / (1 + X), 1 + (double)fabsq(X / (1 + X)), J().f("n", n)); }
  { double e2 = genpar(1e-16, 0.9999, 9999.0); if ((idx % 8) == 0) e2 = (double)(F * (2 - F)); q128 X = e2;
    chk("EccentricitySqToFlattening", Ellipsoid::EccentricitySqToFlattening(e2), q_f_from_e2(X), 1 + 0.5 * (double)fabsq(X / (1 - X)), J().f("e2", e2)); }
  { double ep2 = genpar(1e-16, 9999.0, 0.9999); q128 X = ep2; chk("SecondEccentricitySqToFlattening", Ellipsoid::SecondEccentricitySqToFlattening(ep2), q_f_from_ep2(X), 1 + 0.5 * (double)fabsq(X / (1 + X)), J().f("ep2", ep2)); }
  { double x = genpar(1e-16, 0.9999, 0.9999); q128 X = x; chk("ThirdEccentricitySqToFlattening", Ellipsoid::ThirdEccentricitySqToFlattening(x), q_f_from_epp2(X), 1 + (double)fabsq(X / ((1 - X) * (1 + X))), J().f("epp2", x)); }
  // ---- round trips f -> x -> f through every pair of static functions (two roundings)
  {
    struct RT { const char* n; double (*fw)(double); double (*bk)(double); };
    static const RT rts[] = {{"f->f'->f", &Ellipsoid::FlatteningToSecondFlattening, &Ellipsoid::SecondFlatteningToFlattening}, {"f->n->f", &Ellipsoid::FlatteningToThirdFlattening, &Ellipsoid::ThirdFlatteningToFlattening},
      {"f->e2->f", &Ellipsoid::FlatteningToEccentricitySq, &Ellipsoid::EccentricitySqToFlattening}, {"f->e'2->f", &Ellipsoid::FlatteningToSecondEccentricitySq, &Ellipsoid::SecondEccentricitySqToFlattening},
      {"f->e''2->f", &Ellipsoid::FlatteningToThirdEccentricitySq, &Ellipsoid::ThirdEccentricitySqToFlattening}};
    // condition number of the return map w.r.t. the single rounding of the intermediate value (|x f'(x)/f|), from the exact relations
    q128 G1 = 1 - F; const q128 cnds[5] = {fabsq(G1), fabsq(1 - F / 2), fabsq((2 - F) / (2 * G1)), fabsq((2 - F) * G1 / 2), fabsq((2 - F) * (1 + G1 * G1) / (4 * G1))};
    int ti = 0;
    for (const RT& t : rts) { double mid = t.fw(f), back = t.bk(mid);
      double cond = 1 + (double)cnds[ti++];
      double e = f == 0 ? (back == 0 ? 0 : HUGE_VAL) : std::fabs(back - f) / std::fabs(f) / EPS;
      c.obs(std::string("ellipsoid-static round trip ") + t.n + " rel err / conditioning [eps]", e / cond, J(w).f("mid", mid).f("back", back));
      if (!(e <= K_MEASURE * cond)) VIOL(c, std::string("law:C15/ellipsoid-static/roundtrip/") + t.n, cls, J(w).f("mid", mid).f("back", back).f("err_eps", e)); }
  }
  // ---- instance inspectors and the constructors of Ellipsoid / AuxLatitude with this f (b/a kept inside [0.01, 100])
  if (f > -99 && f < 0.99) {
    double a = r.pick(A_LADDER); Ellipsoid E(a, f); q128 A = a, B = A * (1 - F);
    J w2(w); w2.f("a", a);
    rel_check(c, "ellipsoid/PolarRadius", cls, E.PolarRadius(), B, 1, w2);
    rel_check(c, "ellipsoid/SecondFlattening", cls, E.SecondFlattening(), F / (1 - F), K_MEASURE * (1 + (double)fabsq(F / (1 - F))), w2);
    rel_check(c, "ellipsoid/ThirdFlattening", cls, E.ThirdFlattening(), F / (2 - F), K_MEASURE, w2);
    rel_check(c, "ellipsoid/EccentricitySq", cls, E.EccentricitySq(), F * (2 - F), K_MEASURE, w2);
    rel_check(c, "ellipsoid/SecondEccentricitySq", cls, E.SecondEccentricitySq(), F * (2 - F) / ((1 - F) * (1 - F)), K_MEASURE * (1 + (double)fabsq(F * (2 - F) / ((1 - F) * (1 - F)))), w2);
    rel_check(c, "ellipsoid/ThirdEccentricitySq", cls, E.ThirdEccentricitySq(), F * (2 - F) / (1 + (1 - F) * (1 - F)), K_MEASURE * 2, w2);
    rel_check(c, "ellipsoid/Volume", cls, E.Volume(), 4 * M_PIq * A * A * B / 3, K_MEASURE, w2);
    if ((idx % 4) == 1) {
      // the full reference ellipsoid (quadratures) for this f: measures and one exact conversion to every auxiliary latitude
      ref::AuxRef R(A, B); AuxLatitude L(a, f);
      rel_check(c, "ellipsoid/QuarterMeridian", cls, E.QuarterMeridian(), R.quarter_meridian(), K_MEASURE, w2);
      rel_check(c, "ellipsoid/Area", cls, E.Area(), R.area(), K_MEASURE, w2);
      rel_check(c, "cross/AuxLatitude::RectifyingRadius(exact)", cls, L.RectifyingRadius(true), R.rectifying_radius(), K_MEASURE, w2);
      rel_check(c, "cross/AuxLatitude::AuthalicRadiusSquared(exact)", cls, L.AuthalicRadiusSquared(true), R.authalic_radius_sq(), K_MEASURE, w2);
      bool ser = std::fabs(f) <= 1.0 / 150;
      if (ser) { rel_check(c, "cross/AuxLatitude::RectifyingRadius(series)", cls, L.RectifyingRadius(false), R.rectifying_radius(), K_MEASURE, w2);
        rel_check(c, "cross/AuxLatitude::AuthalicRadiusSquared(series)", cls, L.AuthalicRadiusSquared(false), R.authalic_radius_sq(), K_MEASURE, w2); }
      double t = r.logu(1e-3, 1e3); q128 T = t; double ba = 1 - f;
      for (int to = 1; to < 6; ++to) for (int meth = 0; meth < (ser ? 2 : 1); ++meth) {
        AuxAngle o = L.Convert(0, to, AuxAngle(t), meth == 0); q128 Tr = R.fwd(to, T);
        double e = tan_err_eps(o.y(), o.x(), Tr), cond = to == ref::AUX_CHI ? chi_cond(R, T) : 1;
        Regime rg_(auxlat_regime(ba, f, meth == 0, to == ref::AUX_XI, 0, T));
        c.count(std::string("flat-conv/") + (meth ? "series/" : "exact/") + AUXN[to] + "/" + cls, vh::hmix(vh::hmix(62, f), t) + to * 2 + meth);
        c.obs(std::string("auxlat (f log-uniform) ") + (meth ? "series" : "exact") + " phi->" + AUXN[to] + " rel err tan / conditioning [eps]", e / cond, J(w2).f("tan_phi", t));
        if (!(e <= (meth ? K_SERIES : K_EXACT) * cond)) VIOL(c, std::string("oracle:C15/auxlat/") + (meth ? "series" : "exact") + "/phi->" + AUXN[to], cls, J(w2).f("tan_phi", t).f("out_y", o.y()).f("out_x", o.x()).str("tan_ref", ref::qstr(Tr)).f("err_eps", e));
      }
    }
  }
}

// ================================================================ section: cross  (same quantity from different classes)
static void sec_cross(Ctx& c, uint64_t idx) {
  vh::Rng& r = c.rng; Ell E;
  if (idx < (uint64_t)NLAD * 3) E = ladder((int)(idx / 3), (int)(idx % 3));
  else do { E = pick_ell(r, (idx & 1) == 0); } while (E.axes);
  ref::AuxRef& R = *E.R; const Ellipsoid& L = *E.E;
  std::string cls = std::string("cross/") + E.regime; c.count(cls, vh::hmix(vh::hmix(71, E.a), E.f), idx < (uint64_t)NLAD * 3 && false);
  J w; w.obj("ell", jell(E));
  double a = E.a, f = E.f;
  // ---- area
  { q128 A = R.area();
    Geodesic g(a, f); GeodesicExact ge(a, f); Rhumb rh(a, f, true);
    rel_check(c, "cross/Geodesic::EllipsoidArea", cls, g.EllipsoidArea(), A, K_MEASURE, w);
    rel_check(c, "cross/GeodesicExact::EllipsoidArea", cls, ge.EllipsoidArea(), A, K_MEASURE, w);
    rel_check(c, "cross/Rhumb(exact)::EllipsoidArea", cls, rh.EllipsoidArea(), A, K_MEASURE, w);
    rel_check(c, "cross/Ellipsoid::Area-vs-oracle-closed-form", cls, L.Area(), R.area_closed(), K_MEASURE, w);
    rel_check(c, "cross/Ellipsoid::Area-vs-GeodesicExact", cls, L.Area(), (q128)ge.EllipsoidArea(), 2 * K_MEASURE, w);
    rel_check(c, "cross/Ellipsoid::Area-vs-Rhumb", cls, L.Area(), (q128)rh.EllipsoidArea(), 2 * K_MEASURE, w);
    rel_check(c, "cross/AuxLatitude::AuthalicRadiusSquared(exact)", cls, E.L->AuthalicRadiusSquared(true), R.authalic_radius_sq(), K_MEASURE, w);
    rel_check(c, "cross/AuxLatitude::RectifyingRadius(exact)", cls, E.L->RectifyingRadius(true), R.rectifying_radius(), K_MEASURE, w);
    if (E.series_ok) {
      Rhumb rs(a, f, false);
      rel_check(c, "cross/Rhumb(series)::EllipsoidArea", cls, rs.EllipsoidArea(), A, K_MEASURE, w);
      rel_check(c, "cross/AuxLatitude::AuthalicRadiusSquared(series)", cls, E.L->AuthalicRadiusSquared(false), R.authalic_radius_sq(), K_MEASURE, w);
      rel_check(c, "cross/AuxLatitude::RectifyingRadius(series)", cls, E.L->RectifyingRadius(false), R.rectifying_radius(), K_MEASURE, w);
    }
    // ---- quarter meridian = meridional geodesic / rhumb line from the equator to the pole
    q128 Q = R.quarter_meridian(); double s12, azi;
    ge.Inverse(0, 0, 90, 0, s12);
    // GeodesicExact's own documentation: round-off grows with the eccentricity (table in GeodesicExact.hpp); C01/C02 judge it.
    // Here: full strictness for 1/2 <= b/a <= 2, proportional allowance outside
    double gx = std::max(1.0, std::max(E.ba, 1 / E.ba));
    c.obs(std::string("cross/GeodesicExact-equator-to-pole rel err [eps] (") + E.regime + ")", (double)(fabsq(s12 - Q) / Q) / EPS, w);
    rel_check(c, "cross/GeodesicExact-equator-to-pole", cls, s12, Q, 4 * K_MEASURE * gx, w);
    rel_check(c, "cross/QuarterMeridian-vs-GeodesicExact", cls, L.QuarterMeridian(), (q128)s12, 6 * K_MEASURE * gx, w);
    rh.Inverse(0, 0, 90, 0, s12, azi);
    rel_check(c, "cross/Rhumb(exact)-equator-to-pole", cls, s12, Q, 2 * K_MEASURE, w);
    if (std::fabs(f) <= 0.02) { g.Inverse(0, 0, 90, 0, s12); rel_check(c, "cross/Geodesic(series)-equator-to-pole", cls, s12, Q, 2 * K_MEASURE, w); }
    // meridional geodesic to an intermediate latitude = MeridianDistance
    const char* lc; double phi; do { phi = gen_lat(r, lc); } while (std::fabs(phi) < 1e-9);
    q128 sq, cq; ref::sincosd((q128)std::fabs(phi), sq, cq); q128 t = cq == 0 ? (q128)HUGE_VALQ : sq / cq;
    q128 md = R.a * R.merid(t);
    ge.Inverse(0, 0, phi, 0, s12);
    rel_check(c, "cross/GeodesicExact-meridional-distance", cls, s12, md, 4 * K_MEASURE * gx, J(w).f("phi", phi), 5e-9 * E.a / 6378137.0);
    // ---- Geocentric at h = 0 gives the circle radius and height
    Geocentric gc(a, f); double X, Y, Z; gc.Forward(phi, 0, 0, X, Y, Z);
    rel_check(c, "cross/Geocentric-X-vs-CircleRadius", cls, X, R.circle_radius(sq, cq), K_MEASURE, J(w).f("phi", phi));
    rel_check(c, "cross/Geocentric-Z-vs-CircleHeight", cls, std::fabs(Z), R.circle_height(sq, cq), K_MEASURE, J(w).f("phi", phi));
    rel_check(c, "cross/Ellipsoid::CircleRadius-vs-Geocentric", cls, L.CircleRadius(phi), (q128)X, 2 * K_MEASURE, J(w).f("phi", phi));
    // ---- conformal latitude vs Math::taupf / tauf
    double es = (f < 0 ? -1 : 1) * std::sqrt(std::fabs(f * (2 - f)));
    double tau = r.sign() * r.logu(1e-12, 1e12), taup = Math::taupf(tau, es);
    q128 Tchi = R.fwd(ref::AUX_CHI, fabsq((q128)tau));
    double cond = chi_cond(R, fabsq((q128)tau));
    // taupf works from the rounded signed eccentricity es: tan(chi) ~ exp(-es atanh(es)) has condition number ~ e atanh(e) + e^2/(1-e^2) w.r.t. es
    double ces = 1 + (double)(fabsq(R.e2) / fabsq(1 - R.e2)) + (double)fabsq(R.e * (R.prolate ? atanq(R.e) : atanhq(R.e)));
    rel_check(c, "cross/Math::taupf-vs-conformal-definition", cls, std::fabs(taup), Tchi, K_EXACT * cond * ces, J(w).f("tau", tau));
    double chi = L.ConformalLatitude(Math::atand(tau)), chi2 = Math::atand(taup);
    // both in degrees; compare as tangents
    q128 tq = (q128)Math::atand(tau); q128 s2, c2; ref::sincosd(fabsq(tq), s2, c2);
    q128 Tchi2 = R.fwd(ref::AUX_CHI, s2 / c2);
    (void)Tchi2;
    double ecr = deg_err_eps(chi, copysignq(ref::tan_to_deg(Tchi2), (q128)tau));
    bool afbad = E.ba < 0.25;
    c.obs("cross/Ellipsoid::ConformalLatitude(atand(tau)) [tan eps] / conditioning", ecr / cond / (afbad ? 2 / (E.ba * E.ba) / K_EXACT : 1), J(w).f("tau", tau));
    (void)chi2;
    // inverse: Math::tauf(taup) should give back tau (extreme eccentricity: separate, known, key)
    double back = Math::tauf(taup, es); double eb = std::fabs(back - tau) / std::fabs(tau) / EPS;
    bool extreme = E.ba > 3 || E.ba < 0.1;
    c.obs(extreme ? "cross/Math::tauf(taupf(tau)) rel err [eps] (b/a>3 or <0.1)" : "cross/Math::tauf(taupf(tau)) rel err [eps]", eb, J(w).f("tau", tau).f("back", back));
    Regime rgt_(extreme ? "regime:C15/cross/Math::tauf/b/a>3-or-<0.1" : "");
    if (!(eb <= K_EXACT * cond * ces)) VIOL(c, "cross:C15/Math::tauf-roundtrip", cls, J(w).f("tau", tau).f("es", es).f("taup", taup).f("back", back).f("err_eps", eb));
    // ... and agree with Ellipsoid::InverseConformalLatitude
    if (!extreme && !afbad) {
      double ph1 = L.InverseConformalLatitude(Math::atand(taup)), ph2 = Math::atand(back);
      q128 d = fabsq((q128)ph1 - (q128)ph2); q128 scl = fabsq(sinq(2 * (q128)ph2 * (M_PIq / 180))) / 2;
      double e = scl == 0 ? 0 : (double)((d - 8 * (q128)ref::ulp_d(ph2) > 0 ? d - 8 * (q128)ref::ulp_d(ph2) : 0) * (M_PIq / 180) / scl) / EPS;
      c.obs("cross/InverseConformalLatitude-vs-Math::tauf [tan eps] / conditioning", e / (cond * ces), J(w).f("taup", taup));
      // chi is handed to the wrapper as a rounded number of degrees: near the pole that alone is a relative tangent error of ~ eps |taup|
      if (!(e <= 2 * K_EXACT * cond * ces + 4 * std::max(1.0, std::fabs(taup)))) VIOL(c, "cross:C15/InverseConformalLatitude-vs-Math::tauf", cls, J(w).f("taup", taup).f("es", es).f("ellipsoid", ph1).f("tauf", ph2));
    }
  }
}

// ================================================================ section: daux  (divided differences)
static void sec_daux(Ctx& c, uint64_t idx) {
  vh::Rng& r = c.rng; bool want_series = (idx % 3) != 2;
  Ell E; do { E = pick_ell(r, want_series); } while (E.axes);
  const DAux& L = *E.L; ref::AuxRef& R = *E.R;
  // two latitudes in [-90,90]: separation class
  const char* lc; double d1 = gen_lat(r, lc), d2; int sep = (int)r.below(6); const char* sc;
  switch (sep) { case 0: d2 = d1; sc = "equal"; break; case 1: d2 = vh::ulps(d1, r.range(1, 8)); sc = "ulps-apart"; break;
    case 2: d2 = d1 + r.sign() * r.logu(1e-12, 1e-4); sc = "close"; break; case 3: d2 = d1 + r.sign() * r.logu(1e-4, 10); sc = "moderate"; break;
    case 4: d2 = -d1 * r.uniform(0.5, 1); sc = "opposite-sign"; break; default: d2 = r.uniform(-90, 90); sc = "independent"; break; }
  if (d2 > 90) d2 = 90; if (d2 < -90) d2 = -90;
  if (std::fabs(d1) < 1e-280 || std::fabs(d2) < 1e-280) { d1 += 1e-6; d2 += 2e-6; }
  AuxAngle z1 = AuxAngle::degrees(d1), z2 = AuxAngle::degrees(d2);
  // exact angles of the AuxAngles actually passed (radians)
  auto ang = [](const AuxAngle& z) { return atan2q((q128)z.y(), (q128)z.x()); };
  auto tn = [](const AuxAngle& z) { return z.x() == 0 ? copysignq((q128)HUGE_VALQ, (q128)z.y()) : (q128)z.y() / (q128)z.x(); };
  q128 A1 = ang(z1), A2 = ang(z2), T1 = tn(z1), T2 = tn(z2);
  bool same = (z1.y() == z2.y() && z1.x() == z2.x());
  // angle (radians) of aux latitude `to` at geographic tangent T (signed)
  auto angle_of = [&](int from, int to, q128 T) { q128 v = R.conv(from, to, T); return ref::tan_to_rad(v); };
  // derivative d(to)/d(from) at tangent T of `from`
  auto deriv = [&](int from, int to, q128 T) -> q128 {
    q128 At = fabsq(T); if (isinfq(At)) { q128 s1 = R.slopeinf(to) / R.slopeinf(from); return 1 / s1; } if (At == 0) return R.slope0(to) / R.slope0(from);
    q128 tp = R.inv(from, At), To = R.fwd(to, tp), dT = R.dfwd(to, tp) / R.dfwd(from, tp);
    return dT * (1 + At * At) / (1 + To * To); };
  std::string cls = std::string("daux/") + sc + "/" + E.regime;
  J w; w.obj("ell", jell(E)).f("deg1", d1).f("deg2", d2).str("separation", sc);
  // reference divided difference: binary128 difference quotient; for |zeta2-zeta1| <= 1e-10 rad the quotient would lose
  // digits, and the derivative at the mid-point differs from it only by O(Delta^2) <= 1e-20 relative
  q128 Dl = A2 - A1, Tm = tanq((A1 + A2) / 2); if (fabsq(fabsq((A1 + A2) / 2) - M_PIq / 2) < 1e-30Q) Tm = copysignq((q128)HUGE_VALQ, A1 + A2);
  q128 rr_ = R.r < 1 ? R.r : 1 / R.r;
  bool tinysep = fabsq(Dl) <= 1e-10Q * rr_;
  auto dd = [&](int from, int to) -> q128 { return tinysep ? deriv(from, to, Tm) : (angle_of(from, to, T2) - angle_of(from, to, T1)) / Dl; };
  auto judge = [&](const std::string& nm, double got, q128 want, double K) {
    c.count(cls + "/" + nm, vh::hmix(vh::hmix(vh::hmix(81, E.f), d1), d2) ^ vh::hstr(nm.c_str()));
    double e = (double)(fabsq((q128)got - want) / fabsq(want)) / EPS;
    c.obs(std::string("daux/") + (nm.compare(0, 8, "DConvert") == 0 ? std::string("DConvert") : nm) + " rel err [eps] (" + sc + ")", e, J(w).str("fn", nm).f("got", got).str("want", ref::qstr(want)));
    if (!(e <= K)) VIOL(c, std::string("oracle:C15/daux/") + nm, cls, J(w).f("got", got).str("want", ref::qstr(want)).f("err_eps", e).f("tol_eps", K)); };
  bool afbad = E.ba < 0.25, xibad = E.ba > 4;
  // DConvert (series) for one random pair of kinds
  if (E.series_ok) {
    int from = (int)r.below(6), to = (int)r.below(6);
    q128 want = dd(from, to);
    judge(std::string("DConvert/") + AUXN[from] + "->" + AUXN[to], L.DConvert(from, to, z1, z2), want, K_DD);
  }
  // exact divided differences w.r.t. geographic latitude
  {
    { double got = L.DParametric(z1, z2);
      if (std::isnan(got) && !same) { c.count(cls + "/DParametric", vh::hmix(vh::hmix(84, d1), d2)); VIOL(c, "oracle:C15/daux/DParametric/nan-for-ulp-close-tangents", cls, J(w).f("got", got).str("want", ref::qstr(dd(0, ref::AUX_BETA)))); }
      else judge("DParametric", got, dd(0, ref::AUX_BETA), K_DD); }
    {
      // DE() forms d = y - x from two atan2 angles: for nearly equal latitudes close to 90 deg (oblate) / 0 deg (prolate, axes
      // swapped) that difference has the absolute error of the angles themselves; reported under its own key, bounded by the model
      double got = L.DRectifying(z1, z2); q128 want = dd(0, ref::AUX_MU);
      double e = (double)(fabsq((q128)got - want) / fabsq(want)) / EPS;
      double angmax = (double)(R.prolate ? M_PIq / 2 - (fabsq(A1) < fabsq(A2) ? fabsq(A1) : fabsq(A2)) : (fabsq(A1) > fabsq(A2) ? fabsq(A1) : fabsq(A2)));   // size of the angles DE() subtracts
      // regimes (inputs only, fixed order): 1 opposite signs with an underflowing product (the x*y<0 test fails);
      // 2 distinct same-sign latitudes closer than 0.1 rad (d = y - x of two atan2 angles cancels); 3 extreme oblate b/a < 0.05
      std::string rk;
      bool opp = d1 != 0 && d2 != 0 && (d1 < 0) != (d2 < 0), samesign = d1 != 0 && d2 != 0 && (d1 < 0) == (d2 < 0);
      if (opp && std::fabs(d1 * (M_PI / 180)) * std::fabs(d2 * (M_PI / 180)) < 2.3e-308) rk = "regime:C15/daux/DRectifying/opposite-sign-product-underflow";
      else if (!same && samesign && fabsq(Dl) <= 0.1Q) { rk = "regime:C15/daux/DRectifying/same-sign-|dphi|<=0.1rad";
        if (e > K_DD) c.obs("daux/DRectifying rel err [eps] / (4 max|angle|/|Delta|)  (cancellation regime, |Delta|<=0.1 rad)", e / (4 * angmax / (double)fabsq(Dl)), J(w).f("got", got).str("want", ref::qstr(want))); }
      else if (E.ba < 0.05) { rk = "regime:C15/daux/DRectifying/oblate-b/a<0.05"; c.obs("daux/DRectifying rel err [eps] (oblate b/a<0.05)", e, J(w).f("got", got).str("want", ref::qstr(want))); }
      Regime rg_(rk);
      if (std::isnan(got) && !same) { c.count(cls + "/DRectifying", vh::hmix(vh::hmix(86, d1), d2)); VIOL(c, "oracle:C15/daux/DRectifying/nan", cls, J(w).f("got", got).str("want", ref::qstr(want))); }
      else if (!rk.empty() && e > K_DD) { c.count(cls + "/DRectifying", vh::hmix(vh::hmix(85, d1), d2)); VIOL(c, "oracle:C15/daux/DRectifying", cls, J(w).f("got", got).str("want", ref::qstr(want)).f("err_eps", e)); }
      else judge("DRectifying", got, want, K_DD);
    }
    if (std::fabs(d1) < 90 && std::fabs(d2) < 90) {
      q128 p1 = copysignq(R.psi(fabsq(T1)), T1), p2 = copysignq(R.psi(fabsq(T2)), T2);
      q128 cm = 1 / hypotq(1, Tm), sm = Tm * cm;
      q128 wanti = same ? (1 - R.e2) / ((1 - R.e2 * sm * sm) * cm) : (p2 - p1) / Dl;   // closed form: the binary128 quotient is always accurate enough
      // 1 - e^2 (...) is formed from the stored, rounded e^2: condition number e^2/(1-e^2) for oblate ellipsoids
      double ce2 = R.prolate ? 1 : 1 + (double)(R.e2 / (1 - R.e2));
      judge("DIsometric", L.DIsometric(z1, z2), wanti, K_DD * ce2 * chi_cond(R, fabsq(T1) > fabsq(T2) ? fabsq(T1) : fabsq(T2)));
    }
  }
  (void)xibad;
  // static helpers: Dlam, Dp0Dpsi, Dasinh, Datan, Dsn, Dh on tangents
  {
    double x = r.sign() * r.logu(1e-10, 1e10), y = sep == 0 ? x : (sep == 1 ? vh::ulps(x, r.range(1, 8)) : (sep == 2 ? x * (1 + r.sign() * r.logu(1e-12, 1e-4)) : r.sign() * r.logu(1e-10, 1e10)));
    q128 X = x; bool eq = x == y;
    J w2; w2.f("x", x).f("y", y);
    auto j2 = [&](const std::string& nm, double got, q128 want, double K) {
      c.count(std::string("daux-static/") + nm + "/" + sc, vh::hmix(vh::hmix(82, x), y) ^ vh::hstr(nm.c_str()));
      q128 den = fabsq(want); if (x * y < 0 && (nm == "Dp0Dpsi" || nm == "Dh")) { q128 a1 = fabsq((q128)x) < fabsq((q128)y) ? fabsq((q128)x) : fabsq((q128)y); a1 = a1 / hypotq(1, a1) / 2; if (a1 > den) den = a1; }   // numerator cancels for x ~ -y
      double e = (double)(fabsq((q128)got - want) / den) / EPS;
      c.obs(std::string("daux-static/") + nm + " rel err [eps]", e, J(w2).f("got", got).str("want", ref::qstr(want)));
      if (!(e <= K)) VIOL(c, std::string("oracle:C15/daux-static/") + nm, std::string("daux-static/") + nm, J(w2).f("got", got).str("want", ref::qstr(want)).f("err_eps", e)); };
    // divided differences of elementary functions in 1200-bit MPFR arithmetic (exact to far below binary128)
    auto mpdd = [&](int fn, int gn) -> q128 {   // (f(y)-f(x)) / (g(y)-g(x)); fn/gn: 0 id, 1 atan, 2 asinh, 3 sn, 4 h, 5 log sec
      auto ev = [&](int k, double v, ref::MP& o) { ref::MP t(1200), u(1200); t.set(v);
        switch (k) { case 0: mpfr_set(o.v, t.v, MPFR_RNDN); break; case 1: mpfr_atan(o.v, t.v, MPFR_RNDN); break; case 2: mpfr_asinh(o.v, t.v, MPFR_RNDN); break;
          case 3: mpfr_sqr(u.v, t.v, MPFR_RNDN); mpfr_add_ui(u.v, u.v, 1, MPFR_RNDN); mpfr_sqrt(u.v, u.v, MPFR_RNDN); mpfr_div(o.v, t.v, u.v, MPFR_RNDN); break;
          case 4: mpfr_sqr(u.v, t.v, MPFR_RNDN); mpfr_add_ui(u.v, u.v, 1, MPFR_RNDN); mpfr_sqrt(u.v, u.v, MPFR_RNDN); mpfr_sqr(o.v, t.v, MPFR_RNDN); mpfr_div(o.v, o.v, u.v, MPFR_RNDN); mpfr_div_ui(o.v, o.v, 2, MPFR_RNDN); break;
          default: mpfr_sqr(u.v, t.v, MPFR_RNDN); mpfr_add_ui(u.v, u.v, 1, MPFR_RNDN); mpfr_log(o.v, u.v, MPFR_RNDN); mpfr_div_ui(o.v, o.v, 2, MPFR_RNDN); break; } };
      ref::MP fx(1200), fy(1200), gx(1200), gy(1200); ev(fn, x, fx); ev(fn, y, fy); ev(gn, x, gx); ev(gn, y, gy);
      mpfr_sub(fy.v, fy.v, fx.v, MPFR_RNDN); mpfr_sub(gy.v, gy.v, gx.v, MPFR_RNDN); mpfr_div(fy.v, fy.v, gy.v, MPFR_RNDN);
      long double hi = mpfr_get_ld(fy.v, MPFR_RNDN); mpfr_sub_d(gy.v, fy.v, 0.0, MPFR_RNDN); ref::MP t2(1200); mpfr_set_ld(t2.v, hi, MPFR_RNDN); mpfr_sub(t2.v, fy.v, t2.v, MPFR_RNDN);
      long double lo = mpfr_get_ld(t2.v, MPFR_RNDN); return (q128)hi + (q128)lo; };
    auto snq = [](q128 t) { return t / hypotq(1, t); };
    q128 dat = eq ? 1 / (1 + X * X) : mpdd(1, 0);
    q128 das = eq ? 1 / hypotq(1, X) : mpdd(2, 0);
    q128 dsn = eq ? 1 / (hypotq(1, X) * (1 + X * X)) : mpdd(3, 0);
    q128 dh = eq ? (snq(X) * (2 + X * X) / (1 + X * X)) / 2 : mpdd(4, 0);
    j2("Datan", DAux::Datan(x, y), dat, 16); j2("Dasinh", DAux::Dasinh(x, y), das, 16); j2("Dsn", DAux::Dsn(x, y), dsn, 16); j2("Dh", DAux::Dh(x, y), dh, 16);
    j2("Dlam", DAuxLatitude::Dlam(x, y), eq ? hypotq(1, X) : mpdd(2, 1), 32);
    // Dp0Dpsi: (log sec chi2 - log sec chi1)/(psi2 - psi1)
    j2("Dp0Dpsi", DAuxLatitude::Dp0Dpsi(x, y), eq ? snq(X) : mpdd(5, 2), 32);
  }
  // DClenshaw against the difference of two Clenshaw sums evaluated in binary128
  {
    double cs[6]; for (double& v : cs) v = r.uniform(-1, 1) * std::pow(0.1, r.uniform(0, 6));
    bool sinp = r.coin(); q128 Delta = A2 - A1; bool unit = r.coin(0.3) || same;
    auto sumq = [&](q128 z) { q128 sacc = 0; for (int k = 0; k < 6; ++k) sacc += (q128)cs[k] * (sinp ? sinq((2 * k + 2) * z) : cosq((2 * k + 2) * z)); return sacc; };
    // difference of the two sums without cancellation: sin a - sin b = 2 cos((a+b)/2) sin((a-b)/2), cos a - cos b = -2 sin((a+b)/2) sin((a-b)/2)
    auto diffq = [&](q128 z2, q128 z1) { q128 sacc = 0; for (int k = 0; k < 6; ++k) { q128 m = (k + 1) * (z2 + z1), h = (k + 1) * (z2 - z1);
      sacc += (q128)cs[k] * (sinp ? 2 * cosq(m) * sinq(h) : -2 * sinq(m) * sinq(h)); } return sacc; };
    AuxAngle n1 = z1.normalized(), n2 = z2.normalized();
    q128 B1 = ang(n1), B2 = ang(n2);
    double dl = unit ? 1.0 : (double)(B2 - B1);
    if (!unit && dl == 0) { unit = true; dl = 1; }
    double got = DAuxLatitude::DClenshaw(sinp, dl, n1.y(), n1.x(), n2.y(), n2.x(), cs, 6);
    q128 want = diffq(B2, B1) / (unit ? (q128)1 : (B2 - B1));
    q128 scale = 0; for (int k = 0; k < 6; ++k) scale += fabsq((q128)cs[k]) * (2 * k + 2);
    double e = (double)(fabsq((q128)got - want) / scale) / EPS;
    (void)Delta;
    c.count(std::string("daux/DClenshaw/") + sc + (unit ? "/Delta=1" : "/Delta=angle"), vh::hmix(vh::hmix(83, d1), d2));
    c.obs("daux/DClenshaw abs err / sum|c_k|(2k+2) [eps]", e, J(w).b("sinp", sinp).b("unit", unit).f("got", got).str("want", ref::qstr(want)));
    if (!(e <= 32)) VIOL(c, "oracle:C15/daux/DClenshaw", cls, J(w).b("sinp", sinp).b("unit", unit).f("got", got).str("want", ref::qstr(want)).f("err_eps", e));
    // plain Clenshaw
    double g1 = AuxLatitude::Clenshaw(sinp, n1.y(), n1.x(), cs, 6); q128 sc1 = scale;
    double e1 = (double)(fabsq((q128)g1 - sumq(B1)) / sc1) / EPS;
    c.obs("auxlat/Clenshaw abs err / sum|c_k|(2k+2) [eps]", e1, w);
    if (!(e1 <= 16)) VIOL(c, "oracle:C15/auxlat/Clenshaw", cls, J(w).b("sinp", sinp).f("got", g1).str("want", ref::qstr(sumq(B1))));
  }
}

// ================================================================ section: selftest  (oracle against itself; failure = harness error)
static void sec_selftest(Ctx& c, uint64_t idx) {
  vh::Rng& r = c.rng; Ell E = ladder((int)(idx % NLAD), 0); ref::AuxRef& R = *E.R;
  c.count(std::string("oracle-selftest/") + E.regime, vh::hmix(91, (uint64_t)idx), true);
  auto bad = [&](const char* what, double v) { char b[200]; std::snprintf(b, sizeof b, "oracle self-test failed: %s (%.3g) b/a=%g", what, v, E.ba); c.herr(b); };
  double v;
  if ((v = (double)(fabsq(R.area() - R.area_closed()) / R.area())) > 1e-28) bad("area by quadrature vs closed form", v);
  if ((v = (double)(fabsq(R.Ax.total()[0] - R.Aw.total()[0]) / R.qp)) > 1e-28) bad("zone-area integral from both ends", v);
  for (int k = 0; k < 8; ++k) {
    q128 t = expq((q128)r.uniform(-600, 600)), h = hypotq(1, t), s = t / h;
    // q(phi): quadrature vs closed form
    if (s > 1e-200Q && (v = (double)(fabsq(R.Ax(s)[0] - R.qzone_closed(s)) / R.qzone_closed(s))) > 1e-27) bad("q(phi) quadrature vs closed form", v);
    // meridian arc: algebraic variable vs direct quadrature of rho(phi) dphi (independent parametrisation)
    if (t > 1e-3Q && t < 1e3Q) {
      q128 e2 = R.e2; auto fr = [e2](q128 p, q128* o) { q128 sp = sinq(p), wv = 1 - e2 * sp * sp; o[0] = (1 - e2) / (wv * sqrtq(wv)); };
      q128 m2 = ref::adapt_integrate<1>(fr, 0, atanq(t))[0];
      if ((v = (double)(fabsq(m2 - R.merid(t)) / m2)) > 1e-27) bad("meridian arc in two parametrisations", v);
    }
    // analytic derivative vs finite difference, inverse o forward
    for (int aux = 3; aux < 6; ++aux) {
      q128 hh = 1e-12Q * t, fd = (R.fwd(aux, t + hh) - R.fwd(aux, t - hh)) / (2 * hh), an = R.dfwd(aux, t);
      if ((v = (double)fabsq(fd / an - 1)) > 1e-15) bad("dfwd vs finite difference", v);
      q128 ti = R.inv(aux, R.fwd(aux, t));
      if ((v = (double)fabsq(ti / t - 1)) > 1e-26) bad("inv(fwd(t))", v);
    }
  }
}

int main(int argc, char** argv) {
  std::vector<Section> S;
  S.push_back({"conv", 30000, 400000, true, sec_conv});
  S.push_back({"deg", 20000, 200000, true, sec_deg});
  S.push_back({"mono", 720, 7200, true, sec_mono});
  S.push_back({"auxangle", 20000, 200000, true, sec_auxangle});
  S.push_back({"ell", 15000, 120000, true, sec_ell});
  S.push_back({"flat", 10000, 200000, true, sec_flat});
  S.push_back({"cross", 2000, 20000, true, sec_cross});
  S.push_back({"daux", 15000, 120000, true, sec_daux});
  S.push_back({"selftest", 48, 480, false, sec_selftest});
  return vh::run_sections(argc, argv, S);
}
