// C19, part 5 (included by C19.cpp): NormalGravity against the Somigliana-Pizzetti closed form (float128) and its own laws.
#pragma once

static const double K_N = 32;     // eps-units relative to the sum of the magnitudes of the parts of each quantity

static void sec_normal(Ctx& c, uint64_t idx) {
  vh::Rng& r = c.rng;
  double a, GM, om, f; bool j2form = false; std::string ecl;
  std::unique_ptr<NormalGravity> own; const NormalGravity* NG = nullptr;
  int kind = (int)(idx % 8);
  if (kind == 0) { NG = &NormalGravity::WGS84(); a = Constants::WGS84_a(); GM = Constants::WGS84_GM(); om = Constants::WGS84_omega(); f = Constants::WGS84_f(); ecl = "WGS84"; }
  else if (kind == 1) { NG = &NormalGravity::GRS80(); a = Constants::GRS80_a(); GM = Constants::GRS80_GM(); om = Constants::GRS80_omega(); f = 0; j2form = true; ecl = "GRS80"; }
  else {
    a = r.coin(0.3) ? 1.0 : r.coin(0.5) ? 6378137.0 : r.logu(1e-3, 1e9);
    GM = (r.coin(0.3) ? 1.0 : r.logu(1e-6, 1e6)) * (a == 6378137.0 ? 3.986004418e14 : a * a * a);
    double m = r.coin(0.15) ? 0.0 : r.coin(0.5) ? r.logu(1e-8, 1e-2) : r.uniform(0, 0.3);         // omega^2 a^3 / GM
    om = std::sqrt(m * GM / (a * a * a)) * r.sign();
    static const double fl[] = {0, 1e-12, -1e-12, 1e-6, -1e-6, 1 / 298.257223563, -1 / 298.257223563, 0.01, -0.01, 0.1, -0.1, 0.2499, 0.25, 0.2, -0.2, 0.3, -0.3, 0.49, -0.49, 0.125, -1.0 / 3};
    f = r.coin(0.6) ? r.pick(fl) : r.uniform(-0.5, 0.5);
    j2form = kind >= 6;
    if (kind == 5 && r.coin(0.3)) GM = -GM;                                                         // documented: GM need not be positive (geometric form)
    ecl = f == 0 ? "sphere" : std::fabs(f) < 1e-3 ? (f > 0 ? "nearly-spherical-oblate" : "nearly-spherical-prolate") : std::fabs(f) <= 0.011 ? (f > 0 ? "earth-like-oblate" : "earth-like-prolate") : (f > 0 ? "very-oblate" : "very-prolate");
    if (GM < 0) ecl += "/GM<0";
  }
  Q fq = f, J2q = 0; double J2d = 0;
  if (j2form) {
    if (kind == 1) J2d = Constants::GRS80_J2();
    else J2d = dq(ref::NormalGravityRef::J2_of(a, GM, om, f));
    fq = ref::NormalGravityRef::f_of_J2(a, GM, om, J2d);      // the flattening implied by the (double) J2
    ecl += "/J2-form";
  }
  J ew = J().f("a", a).f("GM", GM).f("omega", om).f("f", dq(fq)).b("J2_form", j2form).f("J2", J2d);
  if (!NG) {
    try { own.reset(j2form ? new NormalGravity(a, GM, om, J2d, false) : new NormalGravity(a, GM, om, f, true)); }
    catch (const GeographicErr& e) { c.viol("oracle:C19/normalgravity/valid-parameters-rejected", "normal/" + ecl, J(ew).str("what", e.what())); return; }
    NG = own.get();
  }
  ref::NormalGravityRef R(a, GM, om, fq);
  std::string cls0 = "normal/" + ecl;
  Q m_ = (Q)om * om * a * a * a / fabsq((Q)GM);
  // The closed expressions for Q(z), H(z) (used by the library once |E^2/u^2| >= 1/4, where its series stop) cancel like
  // 3/(2 y^2 Q(y)) ~ 190 at y = 1/4: the rotational (omega^2) parts of every quantity carry that conditioning for such
  // ellipsoids (f >= 0.106 or f <= -0.118); recorded, not judged as a defect (outside the documented practical range).
  Q kq = fabsq(R.xb) >= (Q)0.25 ? (Q)190 : (Q)1;
  m_ *= kq;
  // ---------------------------------------------------------------- derived constants
  {
    c.count(cls0 + "/constants", vh::hmix(vh::hmix(vh::hmix(vh::hmix(61, a), GM), om), f));
    if (c.want_sample(cls0 + "/constants")) c.sample(cls0 + "/constants", ew);
    auto jc = [&](const char* what, double got, Q want, Q scale, double K = K_N) {
      double e = std::isfinite(got) ? dq(fabsq((Q)got - want) / ((Q)EPS * scale + (Q)1e-300)) : INF;
      c.obs(std::string("NormalGravity ") + what + " err [eps*sum|parts|]", e, ew);
      if (c.only) std::fprintf(stderr, "%s %s: lib %.17g ref %s e=%g\n", cls0.c_str(), what, got, qs(want).c_str(), e);
      if (!(e <= K)) c.viol(std::string("oracle:C19/normalgravity/") + what, cls0 + "/constants", J(ew).f("got", got).str("want", qs(want)).f("err_over_eps_scale", e)); };
    Q gm = fabsq((Q)GM), w2 = (Q)om * om * kq;
    if (j2form) {
      // flattening from J2: conditioning df/dJ2 ~ 3/2 ; J2's own parts are e2/3 and m-terms
      jc("Flattening(from J2)", NG->Flattening(), fq, (fabsq(fq) + fabsq((Q)J2d) + m_) * 2);
      if (NG->DynamicalFormFactor() != J2d) c.viol("oracle:C19/normalgravity/J2-not-echoed", cls0 + "/constants", ew);
    } else {
      if (NG->Flattening() != f) c.viol("oracle:C19/normalgravity/f-not-echoed", cls0 + "/constants", ew);
      jc("DynamicalFormFactor(from f)", NG->DynamicalFormFactor(), R.J2(), fabsq(R.e2) / 3 + m_ / 3 * 2);
    }
    jc("SurfacePotential", NG->SurfacePotential(), R.U0(), gm / R.b * ref::ng_A(R.xb) + w2 * a * a / 3);
    jc("EquatorialGravity", NG->EquatorialGravity(), R.gamma_e(), gm / (R.a * R.b) + w2 * a * 2);
    jc("PolarGravity", NG->PolarGravity(), R.gamma_p(), gm / (R.a * R.a) + w2 * R.b * 2);
    { Q ge = R.gamma_e(), gp = R.gamma_p();
      jc("GravityFlattening", NG->GravityFlattening(), (gp - ge) / ge, (fabsq(fq) * gm / (R.a * R.b) + w2 * a * 3) / fabsq(ge)); }
    // static conversions: FlatteningToJ2 / J2ToFlattening against REF and as mutual inverses
    if (GM > 0) {
      double fd = dq(fq), J2l = NormalGravity::FlatteningToJ2(a, GM, om, fd), fb = NormalGravity::J2ToFlattening(a, GM, om, J2l);
      Q J2r = ref::NormalGravityRef::J2_of(a, GM, om, fd);
      jc("FlatteningToJ2", J2l, J2r, fabsq((Q)fd) * 2 / 3 + m_ / 3 * 2);
      jc("J2ToFlattening(FlatteningToJ2(f))", fb, fd, (fabsq((Q)fd) + m_) * 2);
      Q fr = ref::NormalGravityRef::f_of_J2(a, GM, om, J2l);
      jc("J2ToFlattening", fb, fr, (fabsq(fr) + m_) * 2);
    }
    // zonal coefficients J_n, n = 0..14 (H&M 2-92; odd ones vanish)
    // mutual consistency: J_n from the library's own (f, J2) pair by H&M 2-92 (in the J2 form f is the solution of a
    // possibly ill-conditioned equation; its error is judged above, not again here)
    bool sphere = NG->Flattening() == 0;
    ref::NormalGravityRef Rl(a, GM, om, (Q)NG->Flattening());
    for (int n = 0; n <= 14; ++n) {
      double jl = NG->DynamicalFormFactor(n); Q jr = j2form ? Rl.Jn_with(n, (Q)J2d) : R.Jn(n);
      if (n == 2) jr = j2form ? (Q)J2d : R.J2();
      if (n & 1) { if (jl != 0) c.viol("oracle:C19/normalgravity/odd-Jn-nonzero", cls0 + "/constants", J(ew).i("n", n).f("got", jl)); continue; }
      if (sphere && n != 2 && std::isnan(jl)) { c.event("normalgravity: Jn is NaN for the sphere"); c.viol(KEY_SPHERE_NAN, cls0 + "/constants", J(ew).i("n", n).f("got", jl).str("want", qs(jr))); continue; }
      const ref::NormalGravityRef& Rs = j2form ? Rl : R;
      int k = n / 2; Q e2k1 = k >= 1 ? powq(fabsq(Rs.e2), k - 1) : (Q)1;
      Q scale = n == 0 ? (Q)1 : 3 * e2k1 * (fabsq(Rs.e2) * (k + 1) + 5 * k * (fabsq(Rs.e2) / 3 + m_)) / ((Q)(2 * k + 1) * (2 * k + 3));
      double e = std::isfinite(jl) ? dq(fabsq((Q)jl - jr) / ((Q)EPS * scale * (k + 1) + (Q)1e-300)) : INF;
      c.obs("NormalGravity J_n err [eps*(n/2+1)*sum|parts|]", e, J(ew).i("n", n));
      if (!(e <= K_N)) c.viol("oracle:C19/normalgravity/Jn", cls0 + "/constants", J(ew).i("n", n).f("got", jl).str("want", qs(jr)).f("err_over_eps_scale", e));
    }
  }
  // ---------------------------------------------------------------- surface: constant potential, Somigliana, gravity normal to the ellipsoid
  const Geocentric& earth = NG->Earth();
  Q U0 = R.U0(), gm = fabsq((Q)GM), w2 = (Q)om * om, w2k = w2 * kq;
  Q sU = gm / fminq(R.a, R.b) * 2 + w2k * a * a;                 // magnitude of the parts of U near the surface
  double umin = INF, umax = -INF;
  int nsurf = c.quick() ? 24 : 100;
  for (int i = 0; i < nsurf; ++i) {
    double lat = i == 0 ? 90 : i == 1 ? -90 : i == 2 ? 0 : i == 3 ? 45 : r.uniform(-90, 90), lon = r.uniform(-180, 180);
    double X, Y, Z, gX, gY, gZ; earth.Forward(lat, lon, 0, X, Y, Z);
    double U = NG->U(X, Y, Z, gX, gY, gZ);
    umin = std::min(umin, U); umax = std::max(umax, U);
    c.count(cls0 + "/surface", vh::hmix(vh::hmix(71, lat), lon));
    J wit = J(ew).f("lat", lat).f("lon", lon);
    double e = std::isfinite(U) ? dq(fabsq((Q)U - U0) / ((Q)EPS * sU)) : INF;
    c.obs("NormalGravity U on the ellipsoid vs U0 [eps*sum|parts|]", e, wit);
    if (!(e <= K_N)) c.viol("oracle:C19/normalgravity/potential-not-constant-on-ellipsoid", cls0 + "/surface", J(wit).f("U", U).str("U0", qs(U0)).f("err_over_eps_scale", e));
    Q som = R.somigliana(lat); Q sg = gm / (fminq(R.a, R.b) * fminq(R.a, R.b)) * 2 + w2k * a * 2;
    double gs = NG->SurfaceGravity(lat);
    e = std::isfinite(gs) ? dq(fabsq((Q)gs - som) / ((Q)EPS * sg)) : INF;
    c.obs("NormalGravity SurfaceGravity vs Somigliana [eps*sum|parts|]", e, wit);
    if (!(e <= K_N)) c.viol("oracle:C19/normalgravity/SurfaceGravity", cls0 + "/surface", J(wit).f("got", gs).str("want", qs(som)).f("err_over_eps_scale", e));
    // Gravity(lat, 0): gammay == 0, -gammaz == SurfaceGravity (documented)
    double gy, gz, Ug = NG->Gravity(lat, 0, gy, gz);
    e = dq(fmaxq(fabsq((Q)gy), fabsq((Q)gz + som)) / ((Q)EPS * sg)); if (std::isnan(e)) e = INF;
    c.obs("NormalGravity Gravity(lat,0) vs (0,-Somigliana) [eps*sum|parts|]", e, wit);
    if (!(e <= K_N)) c.viol("oracle:C19/normalgravity/gravity-not-normal-to-ellipsoid", cls0 + "/surface", J(wit).f("gammay", gy).f("gammaz", gz).str("somigliana", qs(som)).f("err_over_eps_scale", e));
    if (!(std::fabs(Ug - U) <= K_N * EPS * dq(sU))) c.viol("oracle:C19/normalgravity/Gravity-potential", cls0 + "/surface", J(wit).f("U_Gravity", Ug).f("U", U));
  }
  c.obs("NormalGravity spread of U over the ellipsoid [eps*sum|parts|]", (umax - umin) / (EPS * dq(sU)), ew);

  // ---------------------------------------------------------------- off the surface: V0, U, gradients, Gravity(lat,h), harmonicity
  int npts = c.quick() ? 6 : 12;
  for (int ip = 0; ip < npts; ++ip) {
    int ps = (int)r.below(6); std::string pcl; double X, Y, Z, lat = 0, h = 0; bool geod = false;
    double L = std::max(dq(R.a), dq(R.b));
    if (ps == 0) { lat = r.uniform(-90, 90); h = r.logu(1e-9, 1e3) * L; geod = true; pcl = "outside"; }
    else if (ps == 1) { X = 0; Y = 0; Z = r.sign() * dq(R.b) * (1 + r.logu(1e-6, 1e2)); pcl = "on-axis"; }
    else if (ps == 2) { double lam = r.uniform(-M_PI, M_PI), rho = dq(R.a) * (1 + r.logu(1e-6, 1e2)); X = rho * std::cos(lam); Y = rho * std::sin(lam); Z = 0; pcl = "equatorial-plane"; }
    else if (ps == 3) { lat = r.uniform(-90, 90); h = -r.logu(1e-9, 1e-2) * std::min(dq(R.a), dq(R.b)); geod = true; pcl = "just-inside"; }
    else if (ps == 4) { lat = r.coin() ? 90 : -90; h = r.logu(1e-6, 10) * L; geod = true; pcl = "above-pole"; }
    else { lat = r.uniform(-90, 90); h = r.logu(1e3, 1e6) * L; geod = true; pcl = "far"; }
    double lon = r.uniform(-180, 180);
    if (geod) earth.Forward(lat, lon, h, X, Y, Z);
    std::string cls = cls0 + "/" + pcl;
    J wit = J(ew).f("X", X).f("Y", Y).f("Z", Z);
    c.count(cls, vh::hmix(vh::hmix(vh::hmix(81, X), Y), Z));
    if (c.want_sample(cls)) c.sample(cls, wit);
    Q rr = sqrtq((Q)X * X + (Q)Y * Y + (Q)Z * Z);
    Q V0 = R.V0(X, Y, Z), Phi = R.Phi(X, Y), gx, gy, gz; R.gradV0(X, Y, Z, gx, gy, gz);
    // parts: mass term ~ GM/r, quadrupole term ~ w2 a^2 (b/r)^3, centrifugal
    Q sV = gm / rr * 2 + w2k * a * a * powq(R.b / rr, 3) + (Q)0, sG = sV / rr * 3;
    double GX, GY, GZ, v0 = NG->V0(X, Y, Z, GX, GY, GZ);
    double e = std::isfinite(v0) ? dq(fabsq((Q)v0 - V0) / ((Q)EPS * sV)) : INF;
    c.obs("NormalGravity V0 err [eps*sum|parts|]", e, wit);
    if (!(e <= K_N)) c.viol("oracle:C19/normalgravity/V0", cls, J(wit).f("got", v0).str("want", qs(V0)).f("err_over_eps_scale", e));
    e = finite3(GX, GY, GZ) ? dq(fmaxq(fmaxq(fabsq((Q)GX - gx), fabsq((Q)GY - gy)), fabsq((Q)GZ - gz)) / ((Q)EPS * sG)) : INF;
    c.obs("NormalGravity grad V0 err [eps*sum|parts|]", e, wit);
    if (c.only) std::fprintf(stderr, "%s: V0 lib %.17g ref %s; Gamma lib (%.17g,%.17g,%.17g) ref (%s,%s,%s)\n", cls.c_str(), v0, qs(V0).c_str(), GX, GY, GZ, qs(gx).c_str(), qs(gy).c_str(), qs(gz).c_str());
    if (!(e <= K_N)) c.viol("oracle:C19/normalgravity/gradient-of-V0-is-not-Gamma", cls, J(wit).f("got_x", GX).f("got_y", GY).f("got_z", GZ).str("want_x", qs(gx)).str("want_y", qs(gy)).str("want_z", qs(gz)).f("err_over_eps_scale", e));
    double uX, uY, uZ, u = NG->U(X, Y, Z, uX, uY, uZ), fX, fY, ph = NG->Phi(X, Y, fX, fY);
    e = dq(fabsq((Q)u - (V0 + Phi)) / ((Q)EPS * (sV + Phi * 2))); if (std::isnan(e)) e = INF;
    c.obs("NormalGravity U err [eps*sum|parts|]", e, wit);
    if (!(e <= K_N)) c.viol("oracle:C19/normalgravity/U", cls, J(wit).f("got", u).str("want", qs(V0 + Phi)).f("err_over_eps_scale", e));
    e = dq(fmaxq(fmaxq(fabsq((Q)uX - (gx + w2 * X)), fabsq((Q)uY - (gy + w2 * Y))), fabsq((Q)uZ - gz)) / ((Q)EPS * (sG + w2 * rr * 2))); if (std::isnan(e)) e = INF;
    c.obs("NormalGravity grad U err [eps*sum|parts|]", e, wit);
    if (!(e <= K_N)) c.viol("oracle:C19/normalgravity/gradient-of-U-is-not-gamma", cls, J(wit).f("got_x", uX).f("got_y", uY).f("got_z", uZ).f("err_over_eps_scale", e));
    { Q e1 = Phi != 0 ? fabsq((Q)ph - Phi) / Phi : (Q)(ph == 0 ? 0 : INF), e2 = w2 * X != 0 ? fabsq(((Q)fX - w2 * X) / (w2 * X)) : (Q)(fX == 0 ? 0 : INF), e3 = w2 * Y != 0 ? fabsq(((Q)fY - w2 * Y) / (w2 * Y)) : (Q)(fY == 0 ? 0 : INF);
      e = dq(fmaxq(fmaxq(e1, e2), e3)) / EPS; }
    c.obs("NormalGravity Phi and its gradient err [eps]", e, wit);
    if (!(e <= 8)) c.viol("oracle:C19/normalgravity/Phi", cls, J(wit).f("got", ph).str("want", qs(Phi)));
    if (geod) {      // Gravity(lat, h): north and up components of grad U in the local frame
      ref::GeoFrame F = ref::geodetic_frame(a, fq, lat, 0, h);
      Q Ugx, Ugy, Ugz; R.gradU(F.X, F.Y, F.Z, Ugx, Ugy, Ugz); Q ee, nn, uu; ref::to_enu(F, Ugx, Ugy, Ugz, ee, nn, uu);
      double gy2, gz2, U2 = NG->Gravity(lat, h, gy2, gz2);
      Q r2 = sqrtq(F.X * F.X + F.Y * F.Y + F.Z * F.Z), sV2 = gm / r2 * 2 + w2k * a * a * powq(R.b / r2, 3) + w2 * r2 * r2, sG2 = sV2 / r2 * 3;
      e = dq(fmaxq(fabsq((Q)gy2 - nn), fabsq((Q)gz2 - uu)) / ((Q)EPS * sG2)); if (std::isnan(e)) e = INF;
      c.obs("NormalGravity Gravity(lat,h) (north,up) err [eps*sum|parts|]", e, J(wit).f("lat", lat).f("h", h));
      if (!(e <= K_N)) c.viol("oracle:C19/normalgravity/Gravity", cls, J(wit).f("lat", lat).f("h", h).f("gammay", gy2).f("gammaz", gz2).str("want_y", qs(nn)).str("want_z", qs(uu)).f("err_over_eps_scale", e));
      e = dq(fabsq((Q)U2 - R.U(F.X, F.Y, F.Z)) / ((Q)EPS * sV2)); if (std::isnan(e)) e = INF;
      if (!(e <= K_N)) c.viol("oracle:C19/normalgravity/Gravity-potential", cls, J(wit).f("lat", lat).f("h", h).f("U", U2));
    }
    // harmonic outside: divergence of the returned Gamma by central differences of the library's own output
    if (ps != 3) {
      double hh = dq(rr) * 2e-5, div = 0, mag = 0;
      for (int ax = 0; ax < 3; ++ax) {
        double pp[3] = {X, Y, Z}, pm[3] = {X, Y, Z}; pp[ax] += hh; pm[ax] -= hh;
        double a1[3], a2[3]; NG->V0(pp[0], pp[1], pp[2], a1[0], a1[1], a1[2]); NG->V0(pm[0], pm[1], pm[2], a2[0], a2[1], a2[2]);
        div += (a1[ax] - a2[ax]) / (pp[ax] - pm[ax]); mag = std::max(mag, std::max(std::fabs(a1[ax]), std::fabs(a2[ax])));
      }
      // truncation (h/r)^2 * |Gamma|/r * O(10), round-off K eps |Gamma| / h ; near the ellipsoid higher derivatives grow like 1/(distance to the focal set)
      Q dfoc = fmaxq(rr - sqrtq(fabsq(R.E2)), rr * (Q)1e-3);
      double tol = 40 * dq(sG) * ((hh / dq(dfoc)) * (hh / dq(dfoc)) / dq(dfoc) + K_N * EPS / hh);
      c.obs("NormalGravity |div Gamma| / tolerance (central differences of the library's Gamma)", std::fabs(div) / tol, wit);
      c.event("normalgravity divergence checks");
      if (!(std::fabs(div) <= tol)) c.viol("law:C19/normalgravity/V0-not-harmonic-outside", cls, J(wit).f("div", div).f("tol", tol));
      (void)mag;
    }
  }
}
