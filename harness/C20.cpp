// C20 — geoid heights depend only on data and position, never on cache history.
//
// Monitors (all through the public API of GeographicLib::Geoid, no hooks):
//  * history monitor (core, needs no oracle): one query list evaluated on six objects with
//    different histories / cache modes must give identical 64-bit patterns;
//  * oracle monitor: oracle/ref_geoid.hpp (long double; cubic = weighted least-squares fit derived
//    in exact rationals from the documented description) next to every query;
//  * structural monitors: node reproduction, linearity along cell edges, continuity across cells
//    (bilinear), bit-exact 360-periodicity, NaN policy, exact reproduction of polynomial fields,
//    ConvertHeight definition + round trip, cache extent covers the request, cached-area queries
//    never touch the file;
//  * exception monitor over the malformed-file catalogue (every truncation, header field faults).
// Rasters are synthetic, written by oracle/ref_geoidfile.hpp under /dev/shm/<pid>/ (removed at exit).
#include <GeographicLib/Geoid.hpp>
#include <memory>
#include <new>
#include "harness/common.hpp"
#include "oracle/ref_geoidfile.hpp"
#include "oracle/ref_geoid.hpp"

using GeographicLib::Geoid;
using GeographicLib::GeographicErr;
using vh::Ctx; using vh::J; using vh::Section; using vh::Rng;
typedef long double LD;
static const double NaN = std::numeric_limits<double>::quiet_NaN();
static const double INF = std::numeric_limits<double>::infinity();
static const double U = 0x1p-53;                    // unit round-off of double

// ------------------------------------------------------------------------------------ allocation failpoint
// Global operator new replaced by malloc (+ failpoint): when armed with k > 0 the k-th allocation from now throws
// std::bad_alloc, once.  Armed only around a CacheArea/CacheAll call of a history ("allocation fault" operation).
// malloc/free stay intercepted by ASan, so heap checking is unaffected (same scheme as fuzz/C13_newlimit.hpp).
static long g_fail_countdown = 0;             // 0 = disarmed
static unsigned long g_fail_fired = 0;
void* operator new(std::size_t n) {
  if (g_fail_countdown > 0 && --g_fail_countdown == 0) { ++g_fail_fired; throw std::bad_alloc(); }
  void* p = std::malloc(n ? n : 1);
  if (!p) throw std::bad_alloc();
  return p;
}
void* operator new[](std::size_t n) { return operator new(n); }
void* operator new(std::size_t n, const std::nothrow_t&) noexcept { return std::malloc(n ? n : 1); }
void* operator new[](std::size_t n, const std::nothrow_t&) noexcept { return std::malloc(n ? n : 1); }
void operator delete(void* p) noexcept { std::free(p); }
void operator delete[](void* p) noexcept { std::free(p); }
void operator delete(void* p, std::size_t) noexcept { std::free(p); }
void operator delete[](void* p, std::size_t) noexcept { std::free(p); }
void operator delete(void* p, const std::nothrow_t&) noexcept { std::free(p); }
void operator delete[](void* p, const std::nothrow_t&) noexcept { std::free(p); }

static refgeoid::TmpDir* g_dir = nullptr;
static inline uint64_t bits_of(double v) { uint64_t u; std::memcpy(&u, &v, 8); return u; }
static inline bool same(double a, double b) { return bits_of(a) == bits_of(b) || (std::isnan(a) && std::isnan(b)); }
static std::string hexd(double v) { char b[40]; std::snprintf(b, sizeof b, "%a", v); return b; }
static double ulp_of(double x) { x = std::fabs(x); double n = std::nextafter(x, INF); return std::isinf(n) ? x - std::nextafter(x, 0.0) : n - x; }

// ------------------------------------------------------------------------------------ rasters
enum Field { F_RANDOM, F_CONST, F_SPIKE, F_ROWRAMP, F_COLRAMP, F_BILIN, F_CUBICPOLY, F_CHECKER, F_SMOOTH, F_EXTREMES, NFIELD };
static const char* FIELD_NAME[] = {"random16", "constant", "spike", "row-ramp", "col-ramp", "bilinear-poly", "cubic-poly", "checker-0-65535", "smooth", "extremes"};

struct Ras {
  refgeoid::Raster r; int field = 0; std::string name; bool stdhdr = true;
  std::vector<char> valid;                    // poly fields: pixel not clamped
  long long pc[4][4]; int i0 = 0, j0 = 0;     // poly fields: coefficients, centre
  std::string sizeclass() const { return r.w <= 4 ? "tiny" : r.w <= 16 ? "small" : r.w <= 72 ? "medium" : "large"; }
  J j() const { return J().i("w", r.w).i("h", r.h).str("field", FIELD_NAME[field]).str("offset", hexd(r.offset)).str("scale", hexd(r.scale)).f("offset_dec", r.offset).f("scale_dec", r.scale); }
  uint64_t hash() const { uint64_t h = vh::hmix(vh::hmix(r.w * 100003ULL + r.h, r.offset), r.scale); h = vh::hmix(h, (uint64_t)field);
    for (size_t k = 0; k < r.pix.size(); k += 1 + r.pix.size() / 64) h = vh::hmix(h, (uint64_t)r.pix[k] + k); return h; }
};

static void pick_size(Rng& g, bool quick, int& w, int& h) {
  static const int S[][2] = {{2, 3}, {4, 3}, {4, 5}, {8, 5}, {2, 5}, {2, 9}, {6, 7}, {12, 7}, {16, 9}, {10, 9}, {24, 13}, {36, 19}, {14, 37},
                             {72, 37}, {50, 3}, {30, 31}, {120, 61}, {360, 181}, {90, 45}, {180, 91}, {720, 361}, {1440, 721}};
  int n; double u = g.u();
  if (quick) n = u < 0.93 ? (int)g.below(17) : 17;                                   // ... 120x61 common, 360x181 7 %
  else n = u < 0.80 ? (int)g.below(17) : u < 0.90 ? 17 : u < 0.97 ? 18 + (int)g.below(3) : 21;
  w = S[n][0]; h = S[n][1];
}
static void pick_header(Rng& g, double& off, double& sc) {
  switch (g.below(10)) {
  case 0: case 1: off = -108; sc = 0.003; break;
  case 2: off = 0; sc = 1; break;
  case 3: off = -5e4; sc = 1e-9; break;                 // tiny scale, negative offset
  case 4: off = 1234.5; sc = 7.25; break;
  case 5: off = -0.0; sc = 0.5; break;
  case 6: off = 1e-3; sc = 1e-12; break;
  case 7: off = -65535 * 2.0; sc = 2; break;            // heights in [-131070, 0]: cancellation at the top
  case 8: off = g.sign() * g.logu(1e-3, 1e6); sc = g.logu(1e-9, 1e3); break;
  default: off = -g.logu(1, 1e4); sc = g.logu(1e-4, 1); break;
  }
}

static void fill_field(Ras& R, Rng& g, int field) {
  refgeoid::Raster& r = R.r; R.field = field; R.valid.clear();
  auto rnd = [&]() { return g.next(); };
  switch (field) {
  case F_RANDOM: refgeoid::fill_random(r, rnd); break;
  case F_CONST: { static const int V[] = {0, 1, 32768, 65534, 65535}; refgeoid::fill_constant(r, g.coin() ? (uint16_t)V[g.below(5)] : (uint16_t)g.below(65536)); } break;
  case F_SPIKE: { int ix = (int)g.below(r.w), iy = (int)g.below(r.h);
      if (g.coin(0.3)) iy = g.coin() ? (int)g.below(2) : r.h - 1 - (int)g.below(2);      // near a pole
      if (g.coin(0.3)) ix = g.coin() ? (int)g.below(2) : r.w - 1 - (int)g.below(2);      // near Greenwich column
      bool inv = g.coin(0.3); refgeoid::fill_spike(r, ix, iy, inv ? 65535 : (uint16_t)g.below(100), inv ? 0 : 65535); } break;
  case F_ROWRAMP: { int s = std::max(1, 65535 / (r.h - 1)); if (g.coin()) s = 1 + (int)g.below(s); bool dn = g.coin();
      for (int j = 0; j < r.h; ++j) for (int i = 0; i < r.w; ++i) r.at(i, j) = (uint16_t)(dn ? 65535 - s * j : s * j); } break;
  case F_COLRAMP: { int s = std::max(1, 65535 / r.w); if (g.coin()) s = 1 + (int)g.below(s); bool tri = g.coin();   // sawtooth (jump at Greenwich) or triangle (periodic)
      for (int j = 0; j < r.h; ++j) for (int i = 0; i < r.w; ++i) r.at(i, j) = (uint16_t)(tri ? 2 * s * std::min(i, r.w - i) : s * i); } break;
  case F_BILIN: case F_CUBICPOLY: {
      std::memset(R.pc, 0, sizeof R.pc);
      R.i0 = (int)g.below(r.w); R.j0 = (int)g.below(r.h);
      int deg = field == F_BILIN ? 1 : 3;
      for (int a = 0; a <= 3; ++a) for (int b = 0; b <= 3; ++b) {
        bool on = field == F_BILIN ? (a <= 1 && b <= 1) : (a + b <= deg);
        if (!on) continue;
        int n = a + b; long long lim = n == 0 ? 0 : n == 1 ? 900 : n == 2 ? 60 : 4;
        R.pc[a][b] = lim ? (long long)g.range(-(int)lim, (int)lim) : 0;
      }
      R.pc[0][0] = 20000 + (long long)g.below(25000);
      refgeoid::fill_poly(r, R.pc, R.i0, R.j0, R.valid); } break;
  case F_CHECKER: refgeoid::fill_checker(r, g.coin()); break;
  case F_SMOOTH: refgeoid::fill_smooth(r, rnd); break;
  case F_EXTREMES: { static const uint16_t V[] = {0, 65535, 1, 65534, 32767, 32768}; for (auto& p : r.pix) p = V[g.below(g.coin() ? 2 : 6)]; } break;
  }
}

static Ras make_raster(Rng& g, bool quick, int force_field = -1) {
  Ras R; int w, h; pick_size(g, quick, w, h);
  R.r = refgeoid::Raster(w, h);
  pick_header(g, R.r.offset, R.r.scale);
  static const int FW[] = {F_RANDOM, F_RANDOM, F_RANDOM, F_RANDOM, F_CONST, F_SPIKE, F_SPIKE, F_ROWRAMP, F_COLRAMP, F_BILIN, F_CUBICPOLY, F_CHECKER, F_SMOOTH, F_SMOOTH, F_EXTREMES};
  fill_field(R, g, force_field >= 0 ? force_field : FW[g.below(sizeof FW / sizeof FW[0])]);
  return R;
}
static uint64_t g_filectr = 0;
static void write_raster(Ras& R, Rng& g) {
  R.name = "c20_" + std::to_string(++g_filectr);
  R.stdhdr = g.coin(0.8);
  g_dir->write(R.r, R.name, R.stdhdr ? refgeoid::Header::standard() : refgeoid::Header::minimal());
}
struct FileGuard { std::string name; ~FileGuard() { if (!name.empty()) g_dir->remove(name); } };

// ------------------------------------------------------------------------------------ geometry helpers
struct Geo {
  int w, h; double dlon, dlat;
  explicit Geo(const refgeoid::Raster& r) : w(r.w), h(r.h), dlon(360.0 / r.w), dlat(180.0 / (r.h - 1)) {}
  double lon_of(double xcell) const { return xcell * dlon; }                     // xcell in cells east of Greenwich
  double lat_of(double ycell) const { double l = 90 - ycell * dlat; return l > 90 ? 90 : l < -90 ? -90 : l; }
  // documented cell rule evaluated in double (used only to LABEL which cache path a query takes)
  bool cell(double lat, double lon, int& ix, int& iy) const {
    if (std::isnan(lat) || std::isnan(lon) || std::fabs(lat) > 90 || std::isinf(lon)) return false;
    double ln = std::remainder(lon, 360.0);
    double fx = ln * (w / 360.0), fy = -lat * ((h - 1) / 180.0);
    ix = (int)std::floor(fx); iy = std::min((h - 1) / 2 - 1, (int)std::floor(fy)) + (h - 1) / 2;
    ix += ix < 0 ? w : (ix >= w ? -w : 0);
    return true;
  }
};

// one query
enum Kind { K_HEIGHT, K_G2E, K_E2G, K_NONE };
struct Query { double lat, lon; int kind; double hh; const char* mode; };
enum OpType { OP_QUERY, OP_AREA, OP_ALL, OP_CLEAR };
struct Op { int type; int qi; double s, w, n, e; int failk = 0; };   // failk > 0: the failk-th allocation inside the cache call throws bad_alloc

static double rand_lonrep(Rng& g, double lon) {        // another representation of the same meridian (not nec. exact)
  switch (g.below(6)) { case 0: return lon > 180 ? lon - 360 : lon; case 1: return lon < 0 ? lon + 360 : lon; default: return lon; }
}

struct Rect { bool active = false, all = false; double s = 0, w = 0, n = 0, e = 0; };

static void gen_rect(Rng& g, const Geo& G, const std::vector<Query>& Q, size_t near_q, double& s, double& w, double& n, double& e, const char*& kind) {
  auto around = [&](double lat, double lon, double cy, double cx) {
    s = std::max(-90.0, lat - cy * G.dlat * g.u()); n = std::min(90.0, lat + cy * G.dlat * g.u());
    w = lon - cx * G.dlon * g.u(); e = lon + cx * G.dlon * g.u(); };
  switch (g.below(12)) {
  case 0: case 1: {                                     // around an upcoming query, a few cells
      kind = "around-query";
      if (Q.empty()) { around(g.uniform(-90, 90), g.uniform(-180, 180), 3, 3); break; }
      const Query& q = Q[std::min(Q.size() - 1, near_q + g.below(12))];
      double la = std::isfinite(q.lat) ? std::max(-90.0, std::min(90.0, q.lat)) : 0, lo = std::isfinite(q.lon) ? std::remainder(q.lon, 360.0) : 0;
      around(la, lo, 1 + g.below(4), 1 + g.below(4)); } break;
  case 2: kind = "random"; s = g.uniform(-90, 90); n = g.uniform(-90, 90); if (s > n) std::swap(s, n); w = g.uniform(-180, 180); e = w + g.uniform(0, 360); if (g.coin()) e = std::remainder(e, 360.0); break;
  case 3: kind = "greenwich-crossing"; around(g.uniform(-80, 80), g.uniform(-0.7, 0.7) * G.dlon, 3, 1 + g.below(4)); if (g.coin()) { w += 360; } if (g.coin(0.3)) { w += 360; e += 360; } break;
  case 4: kind = "seam-crossing"; around(g.uniform(-80, 80), 180 + g.uniform(-0.7, 0.7) * G.dlon, 3, 1 + g.below(4)); if (g.coin()) { w = std::remainder(w, 360.0); e = std::remainder(e, 360.0); } break;
  case 5: kind = "polar"; w = g.uniform(-180, 180); e = w + g.uniform(0, 200);
    switch (g.below(3)) { case 0: n = 90; s = 90 - G.dlat * g.uniform(0, 3); break; case 1: s = -90; n = -90 + G.dlat * g.uniform(0, 3); break; default: s = -90; n = 90; }
    s = std::max(-90.0, s); n = std::min(90.0, n); break;
  case 6: {                                             // node-aligned
      kind = "node-aligned"; int ix = g.range(-G.w / 2, G.w / 2), iy = g.range(0, G.h - 1), nx = g.range(0, 3), ny = g.range(0, 3);
      n = G.lat_of(iy); s = G.lat_of(std::min(G.h - 1, iy + ny)); w = G.lon_of(ix); e = G.lon_of(ix + nx); } break;
  case 7: {                                             // degenerate
      kind = "degenerate"; double la = g.coin() ? G.lat_of(g.range(0, G.h - 1)) : g.uniform(-90, 90), lo = g.coin() ? G.lon_of(g.range(-G.w / 2, G.w / 2)) : g.uniform(-180, 180);
      switch (g.below(8)) {
      case 0: s = n = la; w = lo; e = lo + G.dlon * g.u(); break;                 // zero height
      case 1: s = la; n = std::min(90.0, la + G.dlat * g.u()); w = e = lo; break; // zero width => whole parallel
      case 2: s = n = la; w = e = lo; break;                                    // a point => whole parallel
      case 3: s = n = 90; w = lo; e = lo + 10; break;
      case 4: s = n = -90; w = lo; e = lo + 10; break;
      case 5: s = -90; n = 90; w = -180; e = 180; break;
      case 6: s = -90; n = 90; w = 0; e = 360; break;
      default: s = -0.0; n = 0.0; w = -0.0; e = 0.0; break;
      } } break;
  case 8: kind = "inverted(clears)"; s = g.uniform(-89, 90); n = s - g.logu(1e-12, 50); n = std::max(-90.0, n); w = g.uniform(-180, 180); e = g.uniform(-180, 180); break;
  case 9: kind = "big-longitudes"; s = g.uniform(-90, 0); n = g.uniform(0, 90); w = g.uniform(-180, 180) + 360 * g.range(-3, 3); e = w + g.uniform(0, 90) + 360 * g.range(-2, 2); break;
  case 10: kind = "almost-all-longitudes"; s = g.uniform(-90, 0); n = g.uniform(0, 90); w = g.uniform(-180, 180); e = w + 360 - G.dlon * g.uniform(0, 4); break;
  default: kind = "tiny"; around(g.uniform(-90, 90), g.uniform(-180, 180), 1e-6, 1e-6); break;
  }
}

// ------------------------------------------------------------------------------------ query generators
static void set_kind(Rng& g, Query& q) {
  double u = g.u();
  q.kind = u < 0.70 ? K_HEIGHT : u < 0.82 ? K_G2E : u < 0.94 ? K_E2G : K_NONE;
  switch (g.below(5)) { case 0: q.hh = 0; break; case 1: q.hh = g.sign() * g.logu(1e-6, 1e7); break; case 2: q.hh = g.uniform(-500, 9000); break;
    case 3: q.hh = (double)g.range(-100, 100); break; default: q.hh = g.sign() * g.logu(1e-300, 1e300); break; }
}
static Query mkq(Rng& g, double lat, double lon, const char* mode) { Query q; q.lat = lat; q.lon = lon; q.mode = mode; set_kind(g, q); return q; }

static void pick_cell(Rng& g, const Geo& G, int& ix, int& iy) {
  ix = (int)g.below(G.w); iy = (int)g.below(G.h - 1);
  if (g.coin(0.25)) iy = g.coin() ? 0 : G.h - 2;                       // polar rows
  if (g.coin(0.25)) { static const int d[] = {0, 1, -1, -2}; int k = d[g.below(4)]; ix = ((g.coin() ? 0 : G.w / 2) + k + G.w) % G.w; }   // Greenwich / seam columns
}
static Query in_cell(Rng& g, const Geo& G, int ix, int iy, const char* mode) {
  double fx = g.coin(0.9) ? g.uniform(0.001, 0.999) : g.logu(1e-12, 1e-3), fy = g.coin(0.9) ? g.uniform(0.001, 0.999) : 1 - g.logu(1e-12, 1e-3);
  return mkq(g, G.lat_of(iy + fy), rand_lonrep(g, G.lon_of(ix + fx)), mode);
}

// append one segment of queries; cur = the cache rectangle currently set in the history being generated
static void gen_segment(Rng& g, const Geo& G, const Rect& cur, std::vector<Query>& Q) {
  int ix, iy; pick_cell(g, G, ix, iy);
  int mode = (int)g.below(cur.active && !cur.all ? 14 : 10);
  switch (mode) {
  case 0: case 1: { int n = 2 + (int)g.below(14); for (int k = 0; k < n; ++k) Q.push_back(in_cell(g, G, ix, iy, "stay-in-cell")); } break;
  case 2: case 3: {                                      // hop between two cells
      int jx, jy;
      if (g.coin()) { jx = (ix + (g.coin() ? 1 : G.w - 1)) % G.w; jy = iy; if (g.coin()) { jy = std::max(0, std::min(G.h - 2, iy + (g.coin() ? 1 : -1))); if (g.coin()) jx = ix; } }
      else pick_cell(g, G, jx, jy);
      int n = 2 + (int)g.below(12);
      for (int k = 0; k < n; ++k) Q.push_back((k & 1) ? in_cell(g, G, jx, jy, "hop-two-cells") : in_cell(g, G, ix, iy, "hop-two-cells")); } break;
  case 4: {                                              // nodes (+- ulps)
      int n = 1 + (int)g.below(6);
      for (int k = 0; k < n; ++k) { int nx = g.range(-G.w / 2, G.w), ny = g.range(0, G.h - 1);
        double la = G.lat_of(ny), lo = G.lon_of(nx); if (g.coin(0.3)) { la = std::max(-90.0, std::min(90.0, vh::ulps(la, g.range(-2, 2)))); lo = vh::ulps(lo, g.range(-2, 2)); }
        Q.push_back(mkq(g, la, lo, "node")); } } break;
  case 5: {                                              // edges
      int n = 1 + (int)g.below(6);
      for (int k = 0; k < n; ++k) { bool ew = g.coin();
        double la = ew ? G.lat_of(iy + g.u()) : G.lat_of(iy + (int)g.below(2)), lo = ew ? G.lon_of(ix + (int)g.below(2)) : G.lon_of(ix + g.u());
        if (g.coin(0.3)) { if (ew) lo = vh::ulps(lo, g.range(-3, 3)); else la = std::max(-90.0, std::min(90.0, vh::ulps(la, g.range(-3, 3)))); }
        Q.push_back(mkq(g, la, rand_lonrep(g, lo), "edge")); } } break;
  case 6: {                                              // the +-180 seam and Greenwich
      static const double L[] = {180, -180, 540, -540, 0, -0.0, 360, -360, 720, 5e-324, -5e-324, 1e-300, -1e-300, 1e-17, -1e-17};
      int n = 1 + (int)g.below(5);
      for (int k = 0; k < n; ++k) { double lo = L[g.below(sizeof L / sizeof L[0])]; if (g.coin(0.4)) lo = vh::ulps(lo, g.range(-3, 3));
        Q.push_back(mkq(g, g.coin(0.3) ? G.lat_of(g.range(0, G.h - 1)) : g.uniform(-90, 90), lo, "seam-or-greenwich")); } } break;
  case 7: {                                              // poles, equator
      int n = 1 + (int)g.below(5);
      for (int k = 0; k < n; ++k) { static const double A[] = {90, -90, 0, -0.0};
        double la = A[g.below(4)]; if (g.coin(0.4)) la = la > 0 ? vh::ulps(la, -g.range(0, 3)) : la < 0 ? vh::ulps(la, g.range(0, 3)) : la;
        if (g.coin(0.15)) la = (g.coin() ? 1 : -1) * g.logu(5e-324, 1e-10);
        Q.push_back(mkq(g, la, g.coin(0.3) ? G.lon_of(g.range(-G.w, G.w)) : g.uniform(-180, 180), "pole-or-equator")); } } break;
  case 8: {                                              // lon +- 360 k, exactly representable
      double lo = std::ldexp(std::floor(std::ldexp(g.uniform(-180, 180), 24)), -24), la = G.lat_of(iy + g.u());
      int n = 2 + (int)g.below(5);
      for (int k = 0; k < n; ++k) { static const int KK[] = {0, 1, -1, 2, -2, 3, -3, 10, -10, 1000, -1000}; Q.push_back(mkq(g, la, lo + 360.0 * KK[g.below(11)], "lon+360k")); } } break;
  case 9: {                                              // random over the sphere, plus non-finite / out of range
      int n = 1 + (int)g.below(8);
      for (int k = 0; k < n; ++k) {
        if (g.coin(0.08)) { static const double BL[] = {NaN, 91, -91, 90.00000000000001, -90.00000000000001, INF, -INF, 1e300};
          bool blat = g.coin(0.6); Q.push_back(mkq(g, blat ? BL[g.below(8)] : g.uniform(-90, 90), blat ? g.uniform(-180, 180) : NaN, "nan-or-out-of-range")); }
        else Q.push_back(mkq(g, g.coin(0.8) ? g.uniform(-90, 90) : std::asin(g.uniform(-1, 1)) * 57.29577951308232, g.coin(0.7) ? g.uniform(-180, 180) : g.uniform(-1000, 1000), "random")); } } break;
  default: {                                             // relative to the cached rectangle
      double ee = cur.e; { double wn = std::remainder(cur.w, 360.0), en = std::remainder(cur.e, 360.0); if (en <= wn) en += 360; ee = en; (void)wn; }
      double wn = std::remainder(cur.w, 360.0);
      int n = 2 + (int)g.below(10);
      for (int k = 0; k < n; ++k) {
        double la, lo; const char* m;
        switch (g.below(4)) {
        case 0: case 1: m = "area-inside"; la = g.uniform(cur.s, cur.n); lo = g.uniform(wn, ee); break;
        case 2: m = "area-border"; {
            bool onlat = g.coin();
            la = onlat ? (g.coin() ? cur.s : cur.n) + (g.coin() ? 0 : g.uniform(-1.5, 1.5) * G.dlat) : g.uniform(cur.s, cur.n);
            lo = onlat ? g.uniform(wn, ee) : (g.coin() ? wn : ee) + (g.coin() ? 0 : g.uniform(-1.5, 1.5) * G.dlon); } break;
        default: m = "area-outside"; la = g.uniform(-90, 90); lo = ee + g.u() * (360 - (ee - wn)); if (g.coin(0.3)) { lo = g.uniform(wn, ee); la = g.coin() ? g.uniform(cur.n, 90) : g.uniform(-90, cur.s); } break;
        }
        la = std::max(-90.0, std::min(90.0, la));
        Q.push_back(mkq(g, la, g.coin() ? lo : std::remainder(lo, 360.0), m));
      } } break;
  }
}

// CacheArea(s, w, n, e) clears the cache instead of setting one when s > n (documented) or when a limit is NaN / infinite
// ("with nans (or infinite longitudes) the area is undefined"; path shown as never executed by the reach monitor)
static bool area_clears(double s, double w, double n, double e) { return s > n || !(std::isfinite(s) && std::isfinite(w) && std::isfinite(n) && std::isfinite(e)) || std::fabs(s) > 90 || std::fabs(n) > 90; }
static Op gen_cache_op(Rng& g, const Geo& G, const std::vector<Query>& Q, size_t near_q, Rect& cur, Ctx* c) {
  Op o; o.qi = -1; o.s = o.w = o.n = o.e = 0;
  const bool was_active = cur.active;
  double u = g.u();
  if (u < 0.15) { o.type = OP_ALL; cur.active = true; cur.all = true; }
  else if (u < 0.33) { o.type = OP_CLEAR; cur.active = false; cur.all = false; }
  else {
    o.type = OP_AREA; const char* kind = "";
    gen_rect(g, G, Q, near_q, o.s, o.w, o.n, o.e, kind);
    if (g.coin(0.05)) { static const double bad[] = {std::numeric_limits<double>::quiet_NaN(), std::numeric_limits<double>::infinity(), -std::numeric_limits<double>::infinity()};
      double b = bad[g.below(3)]; switch (g.below(4)) { case 0: o.s = b; break; case 1: o.w = b; break; case 2: o.n = b; break; default: o.e = b; break; } kind = "non-finite-limit"; }
    if (c) c->event(std::string("CacheArea rectangle kind: ") + kind);
    if (area_clears(o.s, o.w, o.n, o.e)) { cur.active = false; cur.all = false; } else { cur.active = true; cur.all = false; cur.s = o.s; cur.w = o.w; cur.n = o.n; cur.e = o.e; }
  }
  // allocation fault: the call is expected to end in GeographicErr and leave NO cache (most valuable right after a successful cache)
  if (o.type != OP_CLEAR && !(o.type == OP_AREA && area_clears(o.s, o.w, o.n, o.e)) && g.coin(was_active ? 0.30 : 0.08)) {
    o.failk = g.coin(0.7) ? 1 + (int)g.below(3) : 1 + (int)g.below(40);
    cur.active = false; cur.all = false;          // (if the fault does not fire because the call allocates less, the cache is simply on: labels come from the object)
    if (c) c->event("history operation planted: CacheArea/CacheAll with allocation fault");
  }
  return o;
}

// history A: segments of queries interleaved with cache operations (queries of kind (d) follow the rectangle in force)
static void gen_history(Rng& g, const Geo& G, size_t len, std::vector<Query>& Q, std::vector<Op>& ops, Ctx& c) {
  Rect cur;
  while (Q.size() < len) {
    if (g.coin(0.35)) ops.push_back(gen_cache_op(g, G, Q, Q.size(), cur, &c));
    size_t q0 = Q.size();
    gen_segment(g, G, cur, Q);
    // cache ops may also be planted in the middle of a segment (that is what could leave a stale cell cache)
    for (size_t k = q0; k < Q.size(); ++k) {
      if (k > q0 && g.coin(0.06)) ops.push_back(gen_cache_op(g, G, Q, k, cur, &c));
      Op o; o.type = OP_QUERY; o.qi = (int)k; o.s = o.w = o.n = o.e = 0; ops.push_back(o);
    }
  }
}
// a different history over the same query order
static void gen_other_history(Rng& g, const Geo& G, const std::vector<Query>& Q, std::vector<Op>& ops) {
  Rect cur; double p = g.logu(0.01, 0.4);
  for (size_t k = 0; k < Q.size(); ++k) {
    if (g.coin(p)) ops.push_back(gen_cache_op(g, G, Q, k, cur, nullptr));
    Op o; o.type = OP_QUERY; o.qi = (int)k; o.s = o.w = o.n = o.e = 0; ops.push_back(o);
  }
}

// ------------------------------------------------------------------------------------ execution + path labelling
enum Label { L_CELL, L_AREA, L_STRADDLE, L_FILE, L_FRESH, L_ALL, L_TS, L_NAN, NLABEL };
static const char* LABEL_NAME[] = {"cell-cache", "area-cache", "area-straddle", "file", "fresh-object", "full-cache", "threadsafe", "nan"};

static double do_query(const Geoid& g, const Query& q) {
  switch (q.kind) {
  case K_HEIGHT: return g(q.lat, q.lon);
  case K_G2E: return g.ConvertHeight(q.lat, q.lon, q.hh, Geoid::GEOIDTOELLIPSOID);
  case K_E2G: return g.ConvertHeight(q.lat, q.lon, q.hh, Geoid::ELLIPSOIDTOGEOID);
  default: return g.ConvertHeight(q.lat, q.lon, q.hh, Geoid::NONE);
  }
}

// is the point inside the area the object itself reports as cached (public accessors)?
static int area_relation(const Geoid& g, const Geo& G, double lat, double lon) {   // 1 inside, 0 near, -1 far
  if (!g.Cache()) return -1;
  double W = g.CacheWest(), E = g.CacheEast(), N = g.CacheNorth(), S = g.CacheSouth();
  double ln = std::remainder(lon, 360.0); while (ln < W) ln += 360; while (ln - 360 >= W) ln -= 360;
  bool inlon = ln < E, inlat = lat <= N && (lat > S || (S <= -90 && lat <= -90));
  if (inlon && inlat) return 1;
  double dx = inlon ? 0 : std::min(ln - E, W + 360 - ln) / G.dlon, dy = inlat ? 0 : std::max(lat - N, S - lat) / G.dlat;
  return (dx <= 3 && dy <= 3) ? 0 : -1;
}

struct Exec { std::vector<double> val; std::vector<uint8_t> lab; };

struct CacheLawStats { uint64_t checked = 0; };
// law: after a successful CacheArea(s,w,n,e), s<=n, the reported cached area covers the request; s>n clears
static void check_cache_law(Ctx& c, const Geoid& g, const Op& o, const Ras& R, bool cubic) {
  const char* ip = cubic ? "cubic" : "bilinear";
  J w = J(R.j()).b("cubic", cubic).str("s", hexd(o.s)).str("w", hexd(o.w)).str("n", hexd(o.n)).str("e", hexd(o.e)).f("s_dec", o.s).f("w_dec", o.w).f("n_dec", o.n).f("e_dec", o.e);
  if (o.type == OP_CLEAR || (o.type == OP_AREA && area_clears(o.s, o.w, o.n, o.e))) {
    if (g.Cache()) c.viol(std::string("law:C20/") + ip + "/cache-still-on-after-clear", "cache-law", w);
    // the extent accessors are also driven without a cache (sanitizer reach only: their value in that state is not part of the property)
    { volatile double sink = g.CacheWest() + g.CacheEast() + g.CacheNorth() + g.CacheSouth(); (void)sink; c.event("cache-extent accessors called without a cache (not judged)"); }
    return;
  }
  if (!g.Cache()) { c.viol(std::string("law:C20/") + ip + "/cache-off-after-CacheArea", "cache-law", w); return; }
  double W = g.CacheWest(), E = g.CacheEast(), N = g.CacheNorth(), S = g.CacheSouth();
  double s = o.s, n = o.n, wn = std::remainder(o.w, 360.0), en = std::remainder(o.e, 360.0);
  if (o.type == OP_ALL) { s = -90; n = 90; wn = 0; en = 360; }
  if (en <= wn) en += 360;
  const double slack = 1e-9;
  bool ok = N >= n - slack && S <= s + slack;
  if (!(S >= -90 - slack && N <= 90 + slack && S <= N + slack && W >= -180 - slack && W < 180 + slack && E > W && E - W <= 360 + slack))
    c.viol(std::string("law:C20/") + ip + "/cache-extent-accessors-out-of-range", "cache-law", J(w).f("West", W).f("East", E).f("North", N).f("South", S));
  if (!(E - W >= 360 - slack)) { double a = wn; while (a < W - slack) a += 360; while (a - 360 >= W - slack) a -= 360; ok = ok && a + (en - wn) <= E + slack; }
  c.event("cache-extent law checked");
  if (!ok) c.viol(std::string("law:C20/") + ip + "/cache-extent-does-not-cover-request", "cache-law", J(w).f("West", W).f("East", E).f("North", N).f("South", S));
}

static bool run_ops(Ctx& c, const Geoid& g, const std::vector<Op>& ops, const std::vector<Query>& Q, const Ras& R, bool cubic, int fixed_label, Exec& X, const char* who) {
  Geo G(R.r); X.val.assign(Q.size(), 0); X.lab.assign(Q.size(), L_NAN);
  int lx = -1, ly = -1;                                  // last cell evaluated on this object
  for (const Op& o : ops) {
    try {
      if (o.type == OP_QUERY) {
        const Query& q = Q[o.qi];
        int ix, iy; bool fin = G.cell(q.lat, q.lon, ix, iy);
        uint8_t lab;
        if (!fin) lab = L_NAN;
        else if (fixed_label == L_TS) lab = L_TS;
        else if (ix == lx && iy == ly) lab = L_CELL;
        else if (fixed_label >= 0) lab = (uint8_t)fixed_label;
        else { int rel = area_relation(g, G, q.lat, q.lon); lab = rel > 0 ? L_AREA : rel == 0 ? L_STRADDLE : L_FILE; }
        X.val[o.qi] = do_query(g, q); X.lab[o.qi] = lab;
        if (fin) { lx = ix; ly = iy; }
      } else {
        const char* ip = cubic ? "cubic" : "bilinear";
        const bool had_cache = g.Cache(); const unsigned long fired0 = g_fail_fired; bool failed = false;
        if (o.failk > 0 && o.type != OP_CLEAR) g_fail_countdown = o.failk;
        try { if (o.type == OP_AREA) g.CacheArea(o.s, o.w, o.n, o.e); else if (o.type == OP_ALL) g.CacheAll(); else g.CacheClear(); g_fail_countdown = 0; }
        catch (const GeographicErr&) { g_fail_countdown = 0; if (g_fail_fired == fired0) throw; failed = true; }
        catch (const std::exception& e) { g_fail_countdown = 0;
          c.viol(std::string("history:C20/") + ip + "/allocation-failure-in-cache-call-not-reported-as-GeographicErr", "history", J(R.j()).str("object", who).i("optype", o.type).i("failk", o.failk).str("what", e.what()).str("type", typeid(e).name()));
          return false; }
        if (failed) {     // documented: "in this case, you will have no cache"
          c.event(std::string("allocation fault in CacheArea/CacheAll -> GeographicErr: ") + ip + (had_cache ? " (a cache was active before)" : " (no cache before)"));
          if (g.Cache()) c.viol(std::string("law:C20/") + ip + "/cache-still-on-after-failed-CacheArea", "cache-law",
                                J(R.j()).str("object", who).i("optype", o.type).i("failk", o.failk).f("s", o.s).f("w", o.w).f("n", o.n).f("e", o.e).b("had_cache", had_cache));
        } else {
          if (o.failk > 0) c.event("planted allocation fault did not fire (call made fewer allocations)");
          check_cache_law(c, g, o, R, cubic);
        }
      }
    } catch (const GeographicErr& e) {
      c.viol(std::string("history:C20/") + (cubic ? "cubic" : "bilinear") + "/unexpected-GeographicErr-on-valid-file", "history",
             J(R.j()).str("object", who).i("optype", o.type).i("query", o.qi).str("what", e.what()).f("s", o.s).f("w", o.w).f("n", o.n).f("e", o.e));
      return false;
    }
  }
  return true;
}

// ------------------------------------------------------------------------------------ oracle monitor
// A-priori round-off model of the documented double-precision evaluation (all in metres):
//   |err| <= u * [ |h| + scale*|p| + scale * ( NOPS * S + (2|xg|+1) |dp/dx| + (2|yg|+1) |dp/dy| ) ]
// S = sum of |terms| of the interpolation polynomial, xg = lon*w/360 and yg = lat*(h-1)/180 are the
// grid coordinates whose rounding moves the evaluation point (relative error 2u each, plus u absolute
// from the subtraction of the cell index, which is inexact in the cell just below 0), NOPS the
// length of the evaluation chain (8 bilinear, 20 cubic).  Judged at K_ORACLE x this bound.
static const double K_ORACLE = 1.0;
static const double NOPS_BILINEAR = 8, NOPS_CUBIC = 20;

struct OracleOut { double ratio; LD ref; LD bound; int variant; long cx, cy; };
static OracleOut oracle_judge(const refgeoid::Grid<LD>& RG, bool cubic, double lat, double lon, double got) {
  LD x, y; RG.position(lat, lon, x, y);
  LD xg = fabsl(x), yg = fabsl((LD)lat * (RG.h() - 1) / 180);
  LD tolx = 8 * (LD)U * xg + 1e-290L, toly = 8 * (LD)U * yg + 1e-290L;
  static std::vector<refgeoid::RefVal<LD>> cand;
  RG.candidates(cubic, lat, lon, tolx, toly, cand);
  OracleOut best; best.ratio = HUGE_VAL; best.ref = 0; best.bound = 0; best.variant = -1; best.cx = best.cy = 0;
  LD sc = RG.scale(), nops = cubic ? NOPS_CUBIC : NOPS_BILINEAR;
  for (auto& r : cand) {
    LD bound = (LD)U * (fabsl(r.h) + sc * fabsl(r.p) + sc * (nops * r.S + (2 * xg + 1) * fabsl(r.px) + (2 * yg + 1) * fabsl(r.py)));
    LD err = fabsl((LD)got - r.h);
    double ratio = bound > 0 ? (double)(err / bound) : (err == 0 ? 0.0 : HUGE_VAL);
    if (!(ratio >= best.ratio)) { best.ratio = ratio; best.ref = r.h; best.bound = bound; best.variant = r.variant; best.cx = r.cx; best.cy = r.cy; }
  }
  // the violation key names the fit that the documented cell rule selects (exact floor), not the best-matching neighbour
  if (cubic) { long cy0 = (long)floorl(y); if (cy0 > RG.h() - 2) cy0 = RG.h() - 2; if (cy0 < 0) cy0 = 0; best.variant = cy0 == 0 ? 1 : (cy0 == RG.h() - 2 ? 2 : 0); }
  return best;
}

static inline double ratio0(double err, double bound) { return err == 0 ? 0.0 : err / bound; }
static const char* variant_name(int v) { return v == 0 ? "interior" : v == 1 ? "north-row" : v == 2 ? "south-row" : "cell"; }

// oracle + definition laws on a stateless (threadsafe) object for one query
static void judge_query(Ctx& c, const Geoid& ts, const refgeoid::Grid<LD>& RG, const Ras& R, bool cubic, const Query& q, double result_of_kind) {
  const char* ip = cubic ? "cubic" : "bilinear";
  double N = ts(q.lat, q.lon);
  bool should_nan = std::isnan(q.lat) || std::isnan(q.lon) || std::fabs(q.lat) > 90;
  if (should_nan) {
    if (!std::isnan(N)) c.viol(std::string("law:C20/") + ip + "/nan-in-nan-out", q.mode, J(R.j()).str("lat", hexd(q.lat)).str("lon", hexd(q.lon)).f("got", N));
    c.event("NaN/out-of-range input gave NaN");
    return;
  }
  if (std::isinf(q.lon)) return;
  OracleOut o = oracle_judge(RG, cubic, q.lat, q.lon, N);
  std::string on = std::string("oracle ") + ip + " |err|/roundoff-bound";
  c.obs(on, o.ratio, J().i("w", R.r.w).i("h", R.r.h).str("field", FIELD_NAME[R.field]).f("lat", q.lat).f("lon", q.lon).f("got", N).f("ref", (double)o.ref).f("bound_m", (double)o.bound));
  if (!(o.ratio <= K_ORACLE))
    c.viol(std::string("oracle:C20/") + ip + "/value/" + variant_name(o.variant), q.mode,
           J(R.j()).str("lat", hexd(q.lat)).str("lon", hexd(q.lon)).f("lat_dec", q.lat).f("lon_dec", q.lon).f("got", N).f("ref", (double)o.ref)
             .f("err", (double)fabsl((LD)N - o.ref)).f("bound", (double)o.bound).f("ratio", o.ratio).i("cell_x", o.cx).i("cell_y", o.cy));
  // ConvertHeight is h + d*N by definition (documented h = N + H, H = -N + h); bit-exact
  if (q.kind != K_HEIGHT) {
    double want = q.kind == K_G2E ? q.hh + N : q.kind == K_E2G ? q.hh - N : q.hh + 0 * N;
    if (!same(want, result_of_kind))
      c.viol(std::string("law:C20/") + ip + "/ConvertHeight-definition", q.mode, J(R.j()).f("lat", q.lat).f("lon", q.lon).str("hgt", hexd(q.hh)).i("kind", q.kind).str("N", hexd(N)).str("got", hexd(result_of_kind)).str("want", hexd(want)));
    if (q.kind != K_NONE && std::isfinite(q.hh) && std::fabs(q.hh) < 1e300) {
      double h1 = ts.ConvertHeight(q.lat, q.lon, q.hh, Geoid::GEOIDTOELLIPSOID), H2 = ts.ConvertHeight(q.lat, q.lon, h1, Geoid::ELLIPSOIDTOGEOID);
      double e1 = ts.ConvertHeight(q.lat, q.lon, q.hh, Geoid::ELLIPSOIDTOGEOID), h2 = ts.ConvertHeight(q.lat, q.lon, e1, Geoid::GEOIDTOELLIPSOID);
      double m1 = std::max(std::max(std::fabs(q.hh), std::fabs(h1)), std::fabs(N)), m2 = std::max(std::max(std::fabs(q.hh), std::fabs(e1)), std::fabs(N));
      double r1 = std::fabs(H2 - q.hh) / ulp_of(m1), r2 = std::fabs(h2 - q.hh) / ulp_of(m2), rr = std::max(r1, r2);
      c.obs("ConvertHeight round trip [ulp of max(|h|,|H|,|N|)]", rr, J().f("h", q.hh).f("N", N));
      if (!(rr <= 2)) c.viol(std::string("law:C20/") + ip + "/ConvertHeight-round-trip", q.mode, J(R.j()).f("lat", q.lat).f("lon", q.lon).str("hgt", hexd(q.hh)).str("N", hexd(N)).f("ulps", rr));
    }
  }
}

static std::string ops_context(const std::vector<Op>& ops, const std::vector<Query>& Q, int qi) {
  // the operations of history A that precede query qi (last 6), for the witness
  std::string s; size_t pos = 0;
  for (size_t k = 0; k < ops.size(); ++k) if (ops[k].type == OP_QUERY && ops[k].qi == qi) { pos = k; break; }
  for (size_t k = pos >= 80 ? pos - 80 : 0; k <= pos && k < ops.size(); ++k) {     // cache operations of the last 80 ops, and the last 4 queries
    const Op& o = ops[k]; char b[240];
    if (o.type == OP_QUERY) { if (k + 3 < pos) continue; std::snprintf(b, sizeof b, "q%d(%.17g,%.17g,k%d) ", o.qi, Q[o.qi].lat, Q[o.qi].lon, Q[o.qi].kind); }
    else if (o.type == OP_AREA) std::snprintf(b, sizeof b, "CacheArea(%.17g,%.17g,%.17g,%.17g)%s ", o.s, o.w, o.n, o.e, o.failk ? (" [bad_alloc at allocation " + std::to_string(o.failk) + "]").c_str() : "");
    else std::snprintf(b, sizeof b, "%s%s ", o.type == OP_ALL ? "CacheAll" : "CacheClear", o.failk ? (" [bad_alloc at allocation " + std::to_string(o.failk) + "]").c_str() : "");
    s += b;
  }
  return s;
}

static void run_history_case(Ctx& c, uint64_t) {
  Rng& g = c.rng;
  Ras R = make_raster(g, c.quick()); write_raster(R, g); FileGuard fg{R.name};
  bool cubic = g.coin(); const char* ip = cubic ? "cubic" : "bilinear";
  Geo G(R.r);
  size_t len = (size_t)g.logu(50, 2000);
  if (R.r.w >= 720) len = std::min<size_t>(len, 600);
  std::vector<Query> Q; std::vector<Op> opsA, opsE, opsF;
  gen_history(g, G, len, Q, opsA, c);
  gen_other_history(g, G, Q, opsE);
  opsF.assign(opsA.rbegin(), opsA.rend());
  std::vector<Op> plain; for (size_t k = 0; k < Q.size(); ++k) { Op o; o.type = OP_QUERY; o.qi = (int)k; o.s = o.w = o.n = o.e = 0; plain.push_back(o); }

  std::string cls = std::string("hist/") + ip + "/" + R.sizeclass() + "/" + FIELD_NAME[R.field];
  c.count(cls, vh::hmix(R.hash(), (uint64_t)Q.size() * 2 + cubic));
  if (c.want_sample(cls)) c.sample(cls, J(R.j()).b("cubic", cubic).u("queries", Q.size()).u("opsA", opsA.size()).u("opsE", opsE.size()));

  const std::string dir = g_dir->path();
  Exec XA, XB, XC, XD, XE, XF;
  try {
    Geoid gA(R.name, dir, cubic, false), gC(R.name, dir, cubic, false), gD(R.name, dir, cubic, true), gE(R.name, dir, cubic, false), gF(R.name, dir, cubic, false);
    if (gA.Offset() != R.r.offset || gA.Scale() != R.r.scale || !same(gA.Offset(), R.r.offset))
      c.viol("format:C20/offset-scale-not-as-written", cls, J(R.j()).f("Offset", gA.Offset()).f("Scale", gA.Scale()));
    if (!gD.ThreadSafe() || gA.ThreadSafe()) c.viol("law:C20/ThreadSafe-flag", cls, R.j());
    {   // header fields are reported as written (documented inspectors)
      bool ok = R.stdhdr ? (gA.Description() == "synthetic raster written by /verif/oracle/ref_geoidfile.hpp" && gA.DateTime() == "2026-10-01 00:00:00" &&
                            gA.MaxError() == (cubic ? 0.003 : 0.140) && gA.RMSError() == (cubic ? 0.001 : 0.005))
                         : (gA.Description() == "NONE" && gA.DateTime() == "UNKNOWN" && gA.MaxError() == -1 && gA.RMSError() == -1);
      ok = ok && gA.Interpolation() == (cubic ? "cubic" : "bilinear") && gA.GeoidName() == R.name && gA.GeoidDirectory() == dir && gA.GeoidFile() == dir + "/" + R.name + ".pgm" && !gA.Cache() && gD.Cache();
      if (!ok) c.viol("format:C20/header-inspectors-not-as-written", cls, J(R.j()).b("standard_header", R.stdhdr).str("Description", gA.Description()).str("DateTime", gA.DateTime()).f("MaxError", gA.MaxError()).f("RMSError", gA.RMSError()));
    }
    if (!run_ops(c, gA, opsA, Q, R, cubic, -1, XA, "A:history")) return;
    // B: a fresh object for every query, no cache
    XB.val.assign(Q.size(), 0); XB.lab.assign(Q.size(), L_FRESH);
    for (size_t k = 0; k < Q.size(); ++k) { Geoid gB(R.name, dir, cubic, false); XB.val[k] = do_query(gB, Q[k]); int ix, iy; if (!G.cell(Q[k].lat, Q[k].lon, ix, iy)) XB.lab[k] = L_NAN; }
    gC.CacheAll();
    if (!run_ops(c, gC, plain, Q, R, cubic, L_ALL, XC, "C:CacheAll")) return;
    if (!run_ops(c, gD, plain, Q, R, cubic, L_TS, XD, "D:threadsafe")) return;
    if (!run_ops(c, gE, opsE, Q, R, cubic, -1, XE, "E:other-history")) return;
    if (!run_ops(c, gF, opsF, Q, R, cubic, -1, XF, "F:reversed")) return;
    // threadsafe object refuses cache changes, and CacheClear is a no-op on it
    try { gD.CacheArea(-10, -10, 10, 10); c.viol("law:C20/threadsafe-CacheArea-accepted", cls, R.j()); } catch (const GeographicErr&) { c.event("threadsafe CacheArea refused with GeographicErr"); }
    try { gD.CacheAll(); c.viol("law:C20/threadsafe-CacheAll-accepted", cls, R.j()); } catch (const GeographicErr&) {}
    gD.CacheClear(); if (!gD.Cache()) c.viol("law:C20/threadsafe-CacheClear-dropped-cache", cls, R.j());

    refgeoid::Grid<LD> RG(R.r.w, R.r.h, R.r.pix.data(), R.r.offset, R.r.scale);
    const Exec* X[6] = {&XA, &XB, &XC, &XD, &XE, &XF};
    static const char* WHO[6] = {"history", "fresh-object-per-query", "CacheAll", "threadsafe", "other-history", "reversed-history"};
    uint64_t pair[NLABEL][NLABEL]; std::memset(pair, 0, sizeof pair);
    for (size_t k = 0; k < Q.size(); ++k) {
      const Query& q = Q[k];
      bool trivial = XA.lab[k] == L_NAN;
      c.count(std::string("q/") + ip + "/" + q.mode, vh::hmix(vh::hmix(vh::hmix(R.hash(), q.lat), q.lon), (uint64_t)q.kind * 31 + cubic), trivial);
      for (int a = 1; a < 6; ++a)
        if (!same(XA.val[k], X[a]->val[k]))
          c.viol(std::string("history:C20/") + ip + "/" + WHO[a] + "-differs-from-history-object", q.mode,
                 J(R.j()).i("query", (long long)k).str("lat", hexd(q.lat)).str("lon", hexd(q.lon)).f("lat_dec", q.lat).f("lon_dec", q.lon).i("kind", q.kind).str("hgt", hexd(q.hh))
                   .str("A", hexd(XA.val[k])).str("other", hexd(X[a]->val[k])).f("A_dec", XA.val[k]).f("other_dec", X[a]->val[k])
                   .str("path_A", LABEL_NAME[XA.lab[k]]).str("path_other", LABEL_NAME[X[a]->lab[k]]).str("ops_before", ops_context(opsA, Q, (int)k)));
      for (int a = 0; a < 6; ++a) for (int b = a + 1; b < 6; ++b) { int la = X[a]->lab[k], lb = X[b]->lab[k]; if (la > lb) std::swap(la, lb); ++pair[la][lb]; }
      judge_query(c, gD, RG, R, cubic, q, XD.val[k]);
    }
    for (int a = 0; a < NLABEL; ++a) for (int b = a; b < NLABEL; ++b) if (pair[a][b])
      c.event(std::string("paths compared bit-exactly: ") + ip + " " + LABEL_NAME[a] + " ~ " + LABEL_NAME[b], pair[a][b]);
    c.event(std::string("queries x 6 objects: ") + ip, Q.size());
  } catch (const GeographicErr& e) {
    c.viol(std::string("history:C20/") + ip + "/GeographicErr-constructing-valid-file", cls, J(R.j()).str("what", e.what()));
  }
}

// ------------------------------------------------------------------------------------ structural monitors
static std::unique_ptr<Geoid> make_obj(Rng& g, const Ras& R, bool cubic, std::string& mode) {
  int m = (int)g.below(4);
  std::unique_ptr<Geoid> p(new Geoid(R.name, g_dir->path(), cubic, m == 3));
  if (m == 1) { p->CacheAll(); mode = "CacheAll"; }
  else if (m == 2) { double s = g.uniform(-90, 20), w = g.uniform(-180, 180); p->CacheArea(s, w, s + g.uniform(5, 70), w + g.uniform(5, 200)); mode = "CacheArea"; }
  else mode = m == 3 ? "threadsafe" : "no-cache";
  return p;
}
static bool exact_grid(const refgeoid::Raster& r) {     // are the cell sizes and their reciprocals dyadic?
  double a = r.w / 360.0, b = (r.h - 1) / 180.0, cdl = 360.0 / r.w, cdb = 180.0 / (r.h - 1);
  return (LD)a * 360 == (LD)r.w && (LD)b * 180 == (LD)(r.h - 1) && (LD)cdl * r.w == 360 && (LD)cdb * (r.h - 1) == 180;
}
// local round-off model for bilinear values around node/cell (ix,iy): pixel magnitudes and differences in the 3x3 block
static double local_bound(const refgeoid::Grid<LD>& RG, const refgeoid::Raster& r, long ix, long iy, double lat, double lon, double hval) {
  long mx = 0, gd = 0;
  for (long dy = -1; dy <= 1; ++dy) for (long dx = -1; dx <= 1; ++dx) {
    long y = std::max(0L, std::min((long)r.h - 1, iy + dy)); long p = RG.pixel(ix + dx, y); mx = std::max(mx, p);
    gd = std::max(gd, std::labs(p - RG.pixel(ix + dx + 1, y))); if (y + 1 < r.h) gd = std::max(gd, std::labs(p - RG.pixel(ix + dx, y + 1)));
  }
  double xg = std::fabs(std::remainder(lon, 360.0)) * r.w / 360.0, yg = std::fabs(lat) * (r.h - 1) / 180.0;
  return U * (std::fabs(hval) + std::fabs(r.offset) + r.scale * ((NOPS_BILINEAR + 2) * mx + 4 * (xg + yg + 1) * gd));
}

static void run_struct_case(Ctx& c, uint64_t idx) {
  Rng& g = c.rng;
  int force = (idx % 4 == 0) ? F_CUBICPOLY : (idx % 4 == 1 && (idx / 4) % 2 == 0) ? F_BILIN : -1;
  Ras R = make_raster(g, c.quick(), force);
  if (R.r.w > 360 && g.coin(0.7)) { R.r = refgeoid::Raster(72, 37); pick_header(g, R.r.offset, R.r.scale); fill_field(R, g, R.field); }
  write_raster(R, g); FileGuard fg{R.name};
  Geo G(R.r); const refgeoid::Raster& r = R.r;
  refgeoid::Grid<LD> RG(r.w, r.h, r.pix.data(), r.offset, r.scale);
  std::string cls = std::string("struct/") + R.sizeclass() + "/" + FIELD_NAME[R.field];
  c.count(cls, R.hash());
  try {
    std::string mb, mc;
    std::unique_ptr<Geoid> gb = make_obj(g, R, false, mb), gc = make_obj(g, R, true, mc);
    c.event("struct object mode bilinear: " + mb); c.event("struct object mode cubic: " + mc);
    J W = J(R.j()).str("mode_bilinear", mb).str("mode_cubic", mc);
    bool exact = exact_grid(r);
    // (1) bilinear reproduces the grid values at the nodes
    {
      size_t nn = (size_t)r.w * r.h, todo = std::min<size_t>(nn, 1500);
      for (size_t t = 0; t < todo; ++t) {
        size_t k = nn <= 1500 ? t : g.below(nn); int ix = (int)(k % r.w), iy = (int)(k / r.w);
        double lat = G.lat_of(iy), lon = G.lon_of(ix); int rep = (int)g.below(3); if (rep == 1 && lon > 180) lon -= 360; if (rep == 2) lon = G.lon_of(ix - r.w);
        double h = (*gb)(lat, lon), want = r.offset + r.scale * (double)r.at(ix, iy);
        double err = std::fabs(h - want);
        c.count("node/bilinear", vh::hmix(vh::hmix(R.hash(), lat), lon), false);
        if (exact) {
          double ul = err / ulp_of(std::max(std::fabs(want), r.scale * (double)r.at(ix, iy)));
          c.obs("bilinear node reproduction, dyadic grids [ulp of scaled value]", ul, J().i("w", r.w).i("h", r.h).i("ix", ix).i("iy", iy));
          if (!(ul <= 1)) c.viol("law:C20/bilinear/node-reproduction-dyadic-grid", cls, J(W).i("ix", ix).i("iy", iy).str("lat", hexd(lat)).str("lon", hexd(lon)).str("got", hexd(h)).str("want", hexd(want)).f("ulps", ul));
        } else {
          // the node coordinates 90-iy*dlat, ix*dlon(-360) are themselves rounded: the exact offset of the INPUT from the node, times the local gradient, is not the library's error
          LD xe, ye; RG.position(lat, lon, xe, ye); long gd = 0;
          for (long dy = -1; dy <= 0; ++dy) for (long dx = -1; dx <= 0; ++dx) { long y0 = std::max(0L, std::min((long)r.h - 2, (long)iy + dy));
            gd = std::max(gd, std::max(std::labs(RG.pixel(ix + dx, y0) - RG.pixel(ix + dx + 1, y0)), std::labs(RG.pixel(ix + dx, y0 + 1) - RG.pixel(ix + dx + 1, y0 + 1))));
            gd = std::max(gd, std::max(std::labs(RG.pixel(ix + dx, y0) - RG.pixel(ix + dx, y0 + 1)), std::labs(RG.pixel(ix + dx + 1, y0) - RG.pixel(ix + dx + 1, y0 + 1)))); }
          double dev = (double)(fabsl(xe - rintl(xe)) + fabsl(ye - rintl(ye)));
          double b = local_bound(RG, r, ix, iy, lat, lon, want) + r.scale * gd * dev, ra = ratio0(err, b);
          c.obs("bilinear node reproduction, other grids |err|/roundoff-bound", ra, J().i("w", r.w).i("h", r.h).i("ix", ix).i("iy", iy));
          if (!(ra <= 1)) c.viol("law:C20/bilinear/node-reproduction", cls, J(W).i("ix", ix).i("iy", iy).str("lat", hexd(lat)).str("lon", hexd(lon)).f("got", h).f("want", want).f("bound", b));
        }
      }
    }
    // (2) bilinear varies linearly along cell edges (and along any parallel/meridian segment inside a cell)
    for (int t = 0; t < 300; ++t) {
      int ix, iy; pick_cell(g, G, ix, iy);
      bool alongx = g.coin(); int onedge = (int)g.below(3);     // 0: the low edge, 1: the high edge, 2: interior line
      double fc = onedge == 0 ? 0 : onedge == 1 ? 1 : g.uniform(0.01, 0.99);
      double t1 = g.uniform(0.01, 0.45), t3 = g.uniform(0.55, 0.99), t2 = g.uniform(t1, t3);
      if (g.coin(0.2)) { t1 = 0.001; t3 = 0.999; }
      double la[3], lo[3], tt[3] = {t1, t2, t3}, hv[3];
      for (int k = 0; k < 3; ++k) { la[k] = alongx ? G.lat_of(iy + fc) : G.lat_of(iy + tt[k]); lo[k] = alongx ? G.lon_of(ix + tt[k]) : G.lon_of(ix + fc); if (lo[k] > 180) lo[k] -= 360; }
      if (alongx && (lo[0] > lo[2])) continue;                  // straddles the seam representation; skip
      for (int k = 0; k < 3; ++k) hv[k] = (*gb)(la[k], lo[k]);
      LD a1 = alongx ? lo[0] : la[0], a2 = alongx ? lo[1] : la[1], a3 = alongx ? lo[2] : la[2];
      LD lin = (LD)hv[0] + ((LD)hv[2] - (LD)hv[0]) * (a2 - a1) / (a3 - a1);
      double b = 3 * local_bound(RG, r, ix, iy, la[1], lo[1], hv[1]), ra = ratio0((double)fabsl((LD)hv[1] - lin), b);
      c.count(std::string("linear/bilinear/") + (onedge < 2 ? "edge" : "interior-line"), vh::hmix(vh::hmix(R.hash(), la[1]), lo[1]));
      c.obs("bilinear linearity along edges |dev|/roundoff-bound", ra, J().i("w", r.w).i("h", r.h).i("ix", ix).i("iy", iy));
      if (!(ra <= 1)) c.viol(std::string("law:C20/bilinear/not-linear-along-") + (onedge < 2 ? "cell-edge" : "line-in-cell"), cls,
                             J(W).i("ix", ix).i("iy", iy).b("along_lon", alongx).f("lat1", la[0]).f("lon1", lo[0]).f("lat2", la[1]).f("lon2", lo[1]).f("lat3", la[2]).f("lon3", lo[2]).f("h1", hv[0]).f("h2", hv[1]).f("h3", hv[2]).f("bound", b));
    }
    // (3) bilinear is continuous across cell boundaries
    for (int t = 0; t < 300; ++t) {
      int ix, iy; pick_cell(g, G, ix, iy); bool vert = g.coin();   // vert: crossing a meridian edge
      if (!vert && iy == 0) iy = 1;
      double lat0 = vert ? G.lat_of(iy + g.u()) : G.lat_of(iy), lon0 = vert ? G.lon_of(ix) : G.lon_of(ix + g.u()); if (lon0 > 180) lon0 -= 360;
      int k = g.coin() ? g.range(1, 4) : (int)g.logu(4, 1e6);
      double a = vert ? vh::ulps(lon0, -k) : vh::ulps(lat0, -k), b2 = vert ? vh::ulps(lon0, k) : vh::ulps(lat0, k);
      if (!vert) { a = std::max(-90.0, a); b2 = std::min(90.0, b2); }
      double ha = vert ? (*gb)(lat0, a) : (*gb)(a, lon0), h0 = (*gb)(lat0, lon0), hb = vert ? (*gb)(lat0, b2) : (*gb)(b2, lon0);
      double dcell = (b2 - a) / (vert ? G.dlon : G.dlat);
      long mx = 0; for (long dy = -1; dy <= 1; ++dy) for (long dx = -1; dx <= 1; ++dx) mx = std::max(mx, RG.pixel(ix + dx, std::max(0L, std::min((long)r.h - 1, (long)iy + dy))));
      double bnd = 3 * local_bound(RG, r, ix, iy, lat0, lon0, h0) + 2 * r.scale * mx * dcell;
      double jump = std::max(std::fabs(ha - h0), std::fabs(hb - h0)), ra = ratio0(jump, bnd);
      c.count(std::string("continuity/bilinear/") + (vert ? "meridian-edge" : "parallel-edge"), vh::hmix(vh::hmix(R.hash(), lat0), lon0));
      c.obs("bilinear jump across cell boundary / bound", ra, J().i("w", r.w).i("h", r.h).i("ix", ix).i("iy", iy));
      if (!(ra <= 1)) c.viol("law:C20/bilinear/discontinuous-across-cell-boundary", cls, J(W).i("ix", ix).i("iy", iy).b("meridian_edge", vert).str("lat0", hexd(lat0)).str("lon0", hexd(lon0)).i("ulps", k).f("h_minus", ha).f("h0", h0).f("h_plus", hb).f("bound", bnd));
    }
    // (4) periodic in longitude: lon and lon + 360 k (exactly representable) give identical bits, both interpolations
    for (int t = 0; t < 300; ++t) {
      double lat = g.coin(0.2) ? G.lat_of(g.range(0, r.h - 1)) : g.uniform(-90, 90);
      double lon = g.coin(0.3) ? G.lon_of(g.range(-r.w / 2, r.w / 2)) : g.uniform(-180, 180);
      lon = std::ldexp(std::rint(std::ldexp(lon, 30)), -30);
      if (std::fabs(lon) >= 180) lon = 0.5 * lon;               // +-180 themselves are treated separately below
      static const int KK[] = {1, -1, 2, -2, 3, 7, -25, 1000, -1000, 100000};
      double l2 = lon + 360.0 * KK[g.below(10)];
      if ((LD)l2 - (LD)lon != 360.0L * std::rint((l2 - lon) / 360)) continue;
      for (int cub = 0; cub < 2; ++cub) {
        const Geoid& gg = cub ? *gc : *gb; double h1 = gg(lat, lon), h2 = gg(lat, l2);
        c.count(std::string("periodic/") + (cub ? "cubic" : "bilinear"), vh::hmix(vh::hmix(R.hash(), lat), l2));
        if (!same(h1, h2)) c.viol(std::string("law:C20/") + (cub ? "cubic" : "bilinear") + "/not-360-periodic", cls, J(W).str("lat", hexd(lat)).str("lon", hexd(lon)).str("lon2", hexd(l2)).str("h1", hexd(h1)).str("h2", hexd(h2)));
      }
    }
    // (4b) the +-180 seam: same meridian
    for (int t = 0; t < 40; ++t) {
      double lat = g.coin(0.3) ? G.lat_of(g.range(0, r.h - 1)) : g.uniform(-90, 90);
      double hb1 = (*gb)(lat, 180), hb2 = (*gb)(lat, -180), hc1 = (*gc)(lat, 180), hc2 = (*gc)(lat, -180);
      int ix = r.w / 2, iy = 0, dummy; G.cell(lat, 180, dummy, iy);
      double bnd = 3 * local_bound(RG, r, ix, iy, lat, 180, hb1);
      c.count("periodic/seam+-180", vh::hmix(R.hash(), lat));
      c.obs("bilinear h(180)-h(-180) / bound", ratio0(std::fabs(hb1 - hb2), bnd));
      if (!(std::fabs(hb1 - hb2) <= bnd)) c.viol("law:C20/bilinear/seam-180-vs-minus-180", cls, J(W).str("lat", hexd(lat)).f("h_180", hb1).f("h_m180", hb2).f("bound", bnd));
      if (!same(hc1, hc2)) { c.event("cubic h(180) and h(-180) differ in bits (different cells chosen; documented small discontinuity)");
        OracleOut o1 = oracle_judge(RG, true, lat, 180, hc1), o2 = oracle_judge(RG, true, lat, -180, hc2);
        if (!(o1.ratio <= K_ORACLE && o2.ratio <= K_ORACLE)) c.viol("law:C20/cubic/seam-180-vs-minus-180", cls, J(W).str("lat", hexd(lat)).f("h_180", hc1).f("h_m180", hc2)); }
    }
    // (5) NaN policy on both objects
    { static const double BL[] = {NaN, 90.00000000000001, -90.00000000000001, 91, -1e10, INF, -INF};
      for (double bl : BL) for (int cub = 0; cub < 2; ++cub) { const Geoid& gg = cub ? *gc : *gb;
        double h1 = gg(bl, g.uniform(-180, 180)), h2 = gg(g.uniform(-90, 90), NaN), h3 = gg.ConvertHeight(bl, 0, 5, Geoid::GEOIDTOELLIPSOID);
        c.count("nan-policy", vh::hmix(R.hash(), bl), true);
        if (!(std::isnan(h1) && std::isnan(h2) && std::isnan(h3))) c.viol(std::string("law:C20/") + (cub ? "cubic" : "bilinear") + "/nan-in-nan-out", cls, J(W).f("badlat", bl).f("h1", h1).f("h2", h2).f("h3", h3)); } }
    // (6) closed-form truth on polynomial fields (independent of the derived matrices): the least-squares cubic
    //     reproduces any cubic polynomial, bilinear any field a+bx+cy+dxy, wherever the stencil is unclamped,
    //     does not wrap around Greenwich (the polynomial is in the column index) and does not touch a polar row
    if (R.field == F_BILIN || R.field == F_CUBICPOLY) {
      int done = 0;
      for (int t = 0; t < 4000 && done < 400; ++t) {
        int ix = (int)g.below(r.w), iy = (int)g.below(r.h - 1);
        for (int cub = 0; cub < 2; ++cub) {
          if (R.field == F_CUBICPOLY && !cub) continue;
          bool ok = cub ? (ix >= 1 && ix + 2 < r.w && iy >= 1 && iy + 2 < r.h - 0 && iy != r.h - 2) : (ix + 1 < r.w);
          if (!ok) continue;
          for (int dy = cub ? -1 : 0; dy <= (cub ? 2 : 1) && ok; ++dy) for (int dx = cub ? -1 : 0; dx <= (cub ? 2 : 1); ++dx) if (!R.valid[(size_t)(iy + dy) * r.w + ix + dx]) { ok = false; break; }
          if (!ok) continue;
          double fx = g.u(), fy = g.u(), lat = G.lat_of(iy + fy), lon = G.lon_of(ix + fx); if (g.coin() && lon > 180) lon -= 360;
          LD x, y; RG.position(lat, lon, x, y); if (x < 0) x += r.w;
          if (floorl(x) != ix || floorl(y) != iy) continue;
          LD xx = x - R.i0, yy = y - R.j0, p = 0, px = 0, py = 0, S = 0, xp[4] = {1, xx, xx * xx, xx * xx * xx}, yp[4] = {1, yy, yy * yy, yy * yy * yy};
          for (int a = 0; a < 4; ++a) for (int b = 0; b < 4; ++b) if (R.pc[a][b]) { LD t2 = R.pc[a][b] * xp[a] * yp[b]; p += t2; S += fabsl(t2);
            if (a) px += R.pc[a][b] * a * xp[a - 1] * yp[b]; if (b) py += R.pc[a][b] * b * xp[a] * yp[b - 1]; }
          LD truth = (LD)r.offset + (LD)r.scale * p;
          double h = cub ? (*gc)(lat, lon) : (*gb)(lat, lon);
          // round-off model: as for the oracle, with the stencil magnitudes (<= 65535) as conditioning
          LD xg = fabsl(remainderl((LD)lon, 360) * r.w / 360), yg = fabsl((LD)lat * (r.h - 1) / 180);
          LD bound = (LD)U * (fabsl(truth) + (LD)r.scale * ((cub ? 12 * NOPS_CUBIC : NOPS_BILINEAR) * 65535.0L + (2 * xg + 1) * fabsl(px) + (2 * yg + 1) * fabsl(py)));
          double ra = ratio0((double)fabsl((LD)h - truth), (double)bound);
          c.count(std::string("polyfield/") + (cub ? "cubic" : "bilinear") + "/" + FIELD_NAME[R.field], vh::hmix(vh::hmix(R.hash(), lat), lon));
          c.obs(std::string("polynomial-field reproduction ") + (cub ? "cubic" : "bilinear") + " |err|/bound", ra, J().i("w", r.w).i("h", r.h).f("lat", lat).f("lon", lon));
          if (!(ra <= 1)) c.viol(std::string("law:C20/") + (cub ? "cubic" : "bilinear") + "/polynomial-field-not-reproduced", cls, J(W).i("ix", ix).i("iy", iy).str("lat", hexd(lat)).str("lon", hexd(lon)).f("got", h).f("truth", (double)truth).f("bound", (double)bound));
          ++done;
        }
      }
      c.event("polynomial-field points checked", done);
    }
    // (7) cubic in the polar rows is independent of longitude AT the pole, and equals the bilinear pole value when the pole row is constant
    for (int pole = 0; pole < 2; ++pole) {
      double lat = pole ? -90 : 90, h0 = (*gc)(lat, 0.0), worst = 0;
      for (int t = 0; t < 30; ++t) { double lon = g.coin() ? g.uniform(-180, 180) : G.lon_of(g.range(-r.w / 2, r.w / 2)); double h = (*gc)(lat, lon);
        // model: the value at the pole is one number per CELL (no x dependence inside a cell); across cells it may differ (small discontinuities)
        int ix, iy; G.cell(lat, lon, ix, iy); double lon2 = G.lon_of(ix + g.uniform(0.01, 0.99)); int jx, jy; G.cell(lat, lon2, jx, jy); if (jx != ix) continue;
        double h2 = (*gc)(lat, lon2); (void)h0;
        OracleOut o = oracle_judge(RG, true, lat, lon, h), o2 = oracle_judge(RG, true, lat, lon2, h2);
        if (o2.bound > o.bound) o.bound = o2.bound;        // the round-off bound depends on where in the cell the cubic is evaluated
        double d = ratio0(std::fabs(h - h2), (double)(2 * o.bound)); worst = std::max(worst, d);
        c.count("cubic-pole-independent-of-longitude", vh::hmix(vh::hmix(R.hash(), lat), lon));
        if (!(d <= 1)) c.viol("law:C20/cubic/pole-value-depends-on-longitude-within-cell", cls, J(W).f("lat", lat).str("lon", hexd(lon)).str("lon2", hexd(lon2)).f("h1", h).f("h2", h2).f("bound", (double)o.bound)); }
      c.obs("cubic pole value: variation within a cell / bound", worst);
    }
  } catch (const GeographicErr& e) {
    c.viol("history:C20/struct/unexpected-GeographicErr-on-valid-file", cls, J(R.j()).str("what", e.what()));
  }
}

// ------------------------------------------------------------------------------------ malformed files
static refgeoid::Raster base_raster(int k) {
  static const int S[][2] = {{2, 3}, {4, 3}, {4, 5}, {8, 5}};
  refgeoid::Raster r(S[k][0], S[k][1]); r.offset = k == 1 ? 17.5 : -108; r.scale = k == 1 ? 0.25 : 0.003;
  for (size_t i = 0; i < r.pix.size(); ++i) r.pix[i] = (uint16_t)((i + 1) * 40503u + k * 977u);
  return r;
}
static const int NBASE = 4;
struct TruncTab { std::vector<std::string> files; std::vector<int> base; std::vector<size_t> start; size_t total = 0; };
static const TruncTab& trunc_tab() {
  static TruncTab T;
  if (T.files.empty()) for (int k = 0; k < NBASE; ++k) for (int m = 0; m < 2; ++m) {
    if (m == 1 && k != 0 && k != 3) continue;
    T.files.push_back(refgeoid::serialize(base_raster(k), m ? refgeoid::Header::minimal() : refgeoid::Header::standard()));
    T.base.push_back(k); T.start.push_back(T.total); T.total += T.files.back().size();
  }
  return T;
}
struct FaultTab { std::vector<refgeoid::Fault> F; std::vector<int> base; };
static const FaultTab& fault_tab() {
  static FaultTab T;
  if (T.F.empty()) for (int k = 0; k < NBASE; ++k) { auto v = refgeoid::fault_catalogue(base_raster(k)); for (auto& f : v) { T.F.push_back(f); T.base.push_back(k); } }
  return T;
}

enum Outcome { O_ACCEPTED, O_GEOERR, O_FOREIGN };
// try to load `name`; on success exercise the object a little (everything it does must be a value or GeographicErr)
static Outcome try_load(Ctx& c, const std::string& name, bool cubic, bool ts, const refgeoid::Raster* expect, const std::string& label, std::string& what, double* off = nullptr, double* sc = nullptr) {
  try {
    Geoid g(name, g_dir->path(), cubic, ts);
    if (off) *off = g.Offset(); if (sc) *sc = g.Scale();
    (void)g.Description().size(); (void)g.DateTime().size(); (void)g.MaxError(); (void)g.RMSError(); (void)g.Interpolation();
    try {
      if (!ts) { g.CacheArea(-30, -20, 40, 50); (void)g(10, 10); g.CacheClear(); }
      static const double P[][2] = {{90, 0}, {-90, 0}, {0, 0}, {0, 180}, {0, -180}, {45.3, 77.1}, {-89.9, -179.9}, {12, 359.9}, {-33.3, -0.1}};
      for (auto& p : P) {
        double h = g(p[0], p[1]);
        if (expect) {
          refgeoid::Grid<LD> RG(expect->w, expect->h, expect->pix.data(), g.Offset(), g.Scale());
          OracleOut o = oracle_judge(RG, cubic, p[0], p[1], h);
          if (!(o.ratio <= K_ORACLE)) c.viol("format:C20/valid-variant-gives-wrong-height", label, J().str("fault", label).b("cubic", cubic).b("threadsafe", ts).f("lat", p[0]).f("lon", p[1]).f("got", h).f("ref", (double)o.ref));
        }
      }
      if (!ts) g.CacheAll();
    } catch (const GeographicErr& e) {
      if (expect) c.viol("format:C20/valid-variant-throws-on-use", label, J().str("fault", label).str("what", e.what()));
      else c.event("accepted file of class 'either' later threw GeographicErr on use");
    }
    return O_ACCEPTED;
  }
  catch (const GeographicErr& e) { what = e.what(); return O_GEOERR; }
  catch (const std::exception& e) { what = std::string(typeid(e).name()) + ": " + e.what(); return O_FOREIGN; }
  catch (...) { what = "non-std exception"; return O_FOREIGN; }
}

static void judge_file(Ctx& c, const std::string& bytes, refgeoid::Expect ex, const std::string& label, const refgeoid::Raster& base, const refgeoid::Fault* f, const std::string& cls, J wit) {
  std::string name = "c20_bad_" + std::to_string(++g_filectr);
  g_dir->write_bytes(bytes, name); FileGuard fg{name};
  for (int m = 0; m < 4; ++m) {
    bool cubic = m & 1, ts = m & 2; std::string what; double off = 0, sc = 0;
    Outcome o = try_load(c, name, cubic, ts, ex == refgeoid::ACCEPT ? &base : nullptr, label, what, &off, &sc);
    J w = J(wit).str("fault", label).b("cubic", cubic).b("threadsafe", ts).str("what", what).u("file_bytes", bytes.size());
    c.count(cls, vh::hmix(vh::hmixs(m, bytes.substr(0, 4096)), (uint64_t)bytes.size()), false);
    if (o == O_FOREIGN) c.viol("format:C20/foreign-exception/" + label, cls, w);
    else if (ex == refgeoid::REJECT && o == O_ACCEPTED) c.viol("format:C20/malformed-file-accepted/" + label, cls, w);
    else if (ex == refgeoid::ACCEPT && o == O_GEOERR) c.viol("format:C20/valid-file-rejected/" + label, cls, w);
    else if (ex == refgeoid::ACCEPT && o == O_ACCEPTED) {
      double eo = f && f->has_override ? f->offset_override : base.offset, es = f && f->has_override ? f->scale_override : base.scale;
      if (!(same(off, eo) && same(sc, es))) c.viol("format:C20/offset-scale-misparsed/" + label, cls, J(w).f("Offset", off).f("Scale", sc).f("want_offset", eo).f("want_scale", es));
    }
    c.event(std::string("malformed-file outcome: ") + (ex == refgeoid::REJECT ? "reject-class" : ex == refgeoid::ACCEPT ? "accept-class" : "either-class") + " -> " + (o == O_ACCEPTED ? "accepted" : o == O_GEOERR ? "GeographicErr" : "FOREIGN"));
  }
}

static void run_trunc_case(Ctx& c, uint64_t idx) {
  const TruncTab& T = trunc_tab();
  if (idx >= T.total) return;
  size_t f = 0; while (f + 1 < T.files.size() && T.start[f + 1] <= idx) ++f;
  size_t len = idx - T.start[f];
  refgeoid::Raster b = base_raster(T.base[f]);
  judge_file(c, T.files[f].substr(0, len), refgeoid::REJECT, "truncated", b, nullptr, "malformed/truncation", J().i("base_w", b.w).i("base_h", b.h).u("full_length", T.files[f].size()).u("truncated_to", len));
}
static void run_fault_case(Ctx& c, uint64_t idx) {
  const FaultTab& T = fault_tab();
  if (idx >= T.F.size()) return;
  const refgeoid::Fault& f = T.F[idx]; refgeoid::Raster b = base_raster(T.base[idx]);
  size_t p1 = f.label.find('/'), p2 = p1 == std::string::npos ? p1 : f.label.find('/', p1 + 1);
  std::string cls = "malformed/" + f.label.substr(0, f.label.compare(0, 6, "reject") == 0 && p2 != std::string::npos ? p2 : p1);
  judge_file(c, f.bytes, f.expect, f.label, b, &f, cls, J().i("base_w", b.w).i("base_h", b.h));
}
// random byte-level corruptions of the HEADER of a valid file: must load (then behave) or raise GeographicErr — nothing else
static void run_headerfuzz_case(Ctx& c, uint64_t) {
  Rng& g = c.rng; refgeoid::Raster b = base_raster((int)g.below(NBASE));
  std::string hdr = refgeoid::header_text(b, g.coin() ? refgeoid::Header::standard() : refgeoid::Header::minimal()), bytes = hdr + refgeoid::pixel_bytes(b);
  int nmut = 1 + (int)g.below(3); std::string desc;
  for (int k = 0; k < nmut; ++k) {
    size_t p = g.below(hdr.size());
    switch (g.below(5)) {
    case 0: bytes[p] = (char)g.below(256); desc += "set@" + std::to_string(p) + " "; break;
    case 1: bytes.erase(p, 1 + g.below(3)); desc += "del@" + std::to_string(p) + " "; break;
    case 2: { static const char* INS[] = {"\n", " ", "#", "-", "9", "e", ".", "\r", "65535", "\0"}; bytes.insert(p, INS[g.below(9)]); desc += "ins@" + std::to_string(p) + " "; } break;
    case 3: bytes[p] = "0123456789"[g.below(10)]; desc += "digit@" + std::to_string(p) + " "; break;
    default: { size_t q = g.below(hdr.size()); std::swap(bytes[p], bytes[q]); desc += "swap@" + std::to_string(p) + " "; } break;
    }
  }
  judge_file(c, bytes, refgeoid::EITHER, "header-byte-mutation", b, nullptr, "malformed/header-byte-mutation", J().str("mutations", desc).i("base_w", b.w).i("base_h", b.h));
}
// not-a-file cases
static void run_nofile_case(Ctx& c, uint64_t idx) {
  std::string what; Outcome o; std::string label;
  if (idx == 0) { label = "no-such-file"; o = try_load(c, "c20_does_not_exist", true, false, nullptr, label, what); }
  else if (idx == 1) { label = "directory-instead-of-file"; g_dir->make_directory_instead("c20_isdir"); o = try_load(c, "c20_isdir", false, true, nullptr, label, what); g_dir->remove_directory("c20_isdir"); }
  else if (idx == 2) { label = "empty-name"; o = try_load(c, "", true, false, nullptr, label, what); }
  else if (idx == 4 || idx == 5) {   // default path from the environment (documented DefaultGeoidPath)
    label = idx == 4 ? "env-GEOGRAPHICLIB_GEOID_PATH" : "env-GEOGRAPHICLIB_DATA";
    refgeoid::Raster b = base_raster(3); std::string sub = g_dir->path();
    if (idx == 5) { sub += "/geoids"; ::mkdir(sub.c_str(), 0700); }
    std::string f = sub + "/c20_env.pgm"; { FILE* fp = std::fopen(f.c_str(), "wb"); std::string by = refgeoid::serialize(b); std::fwrite(by.data(), 1, by.size(), fp); std::fclose(fp); }
    unsetenv("GEOGRAPHICLIB_GEOID_PATH"); unsetenv("GEOGRAPHICLIB_DATA");
    setenv(idx == 4 ? "GEOGRAPHICLIB_GEOID_PATH" : "GEOGRAPHICLIB_DATA", g_dir->path().c_str(), 1);
    try { Geoid g1("c20_env"), g2("c20_env", sub, true); o = same(g1(12.5, 33.25), g2(12.5, 33.25)) && Geoid::DefaultGeoidPath() == sub ? O_GEOERR : O_ACCEPTED; what = Geoid::DefaultGeoidPath(); }
    catch (const std::exception& e) { what = e.what(); o = O_FOREIGN; }
    unsetenv("GEOGRAPHICLIB_GEOID_PATH"); unsetenv("GEOGRAPHICLIB_DATA"); ::unlink(f.c_str()); if (idx == 5) ::rmdir(sub.c_str());
  }
  else { label = "no-such-directory"; try { Geoid g("x", "/nonexistent/dir/c20"); o = O_ACCEPTED; } catch (const GeographicErr&) { o = O_GEOERR; } catch (...) { o = O_FOREIGN; } }
  c.count("malformed/not-a-file", idx, false);
  if (o != O_GEOERR) c.viol(std::string(idx == 4 || idx == 5 ? "format:C20/default-path/" : "format:C20/not-a-file/") + label, "malformed/not-a-file", J().str("what", what).i("outcome", o));
}

// ------------------------------------------------------------------------------------ file disappears under a live object
// Documented: operator() "never [throws] if (lat, lon) is within a successfully cached area"; a threadsafe object has
// closed its file.  So after the data file is emptied, (a) the threadsafe and the CacheAll object must keep returning
// the same bits, (b) points inside the requested CacheArea rectangle must be served, (c) everything else is either the
// correct bits or GeographicErr — never a different value, never a foreign exception.
static void run_iofault_case(Ctx& c, uint64_t) {
  Rng& g = c.rng;
  Ras R = make_raster(g, true); if (R.r.w > 360) return;
  write_raster(R, g); FileGuard fg{R.name};
  bool cubic = g.coin(); const char* ip = cubic ? "cubic" : "bilinear"; Geo G(R.r);
  std::string cls = std::string("iofault/") + ip + "/" + R.sizeclass();
  c.count(cls, vh::hmix(R.hash(), (uint64_t)cubic));
  try {
    const std::string dir = g_dir->path();
    Geoid ref(R.name, dir, cubic, true), gall(R.name, dir, cubic, false), garea(R.name, dir, cubic, false), gplain(R.name, dir, cubic, false);
    gall.CacheAll();
    double s, w, n, e; const char* kind; std::vector<Query> none;
    do gen_rect(g, G, none, 0, s, w, n, e, kind); while (s > n);
    garea.CacheArea(s, w, n, e);
    double wn = std::remainder(w, 360.0), en = std::remainder(e, 360.0); if (en <= wn) en += 360;
    if (g.coin()) (void)gplain(g.uniform(-90, 90), g.uniform(-180, 180));     // warm the cell cache / stream buffer
    // the file goes away
    int how = (int)g.below(3);
    if (how == 0) g_dir->truncate_file(R.name, 0); else if (how == 1) g_dir->truncate_file(R.name, g.below(40)); else g_dir->truncate_file(R.name, refgeoid::header_text(R.r, refgeoid::Header::minimal()).size());
    J W = J(R.j()).b("cubic", cubic).f("s", s).f("w", w).f("n", n).f("e", e).str("rect", kind).i("truncate_mode", how);
    auto probe = [&](const Geoid& gg, double lat, double lon, bool must, const char* who, const char* key) {
      double want = ref(lat, lon);
      try { double h = gg(lat, lon);
        if (!same(h, want)) c.viol(std::string("history:C20/") + ip + "/wrong-value-after-file-loss/" + who, cls, J(W).str("lat", hexd(lat)).str("lon", hexd(lon)).str("got", hexd(h)).str("want", hexd(want)));
        c.event(std::string("file lost: ") + who + " served value"); }
      catch (const GeographicErr& ex) {
        if (must) c.viol(std::string("law:C20/") + ip + "/" + key, cls, J(W).str("lat", hexd(lat)).str("lon", hexd(lon)).f("lat_dec", lat).f("lon_dec", lon).str("what", ex.what()));
        c.event(std::string("file lost: ") + who + " raised GeographicErr"); }
      catch (const std::exception& ex) { c.viol(std::string("history:C20/") + ip + "/foreign-exception-after-file-loss/" + who, cls, J(W).str("what", ex.what())); }
    };
    for (int t = 0; t < 60; ++t) {
      double lat = g.uniform(-90, 90), lon = g.uniform(-180, 180);
      if (g.coin(0.2)) { lat = G.lat_of(g.range(0, G.h - 1)); lon = G.lon_of(g.range(-G.w / 2, G.w / 2)); }
      probe(gall, lat, lon, true, "CacheAll-object", "cached-all-query-touched-file");
      // strictly inside the requested rectangle
      if (n > s || true) {
        double la = s + (n - s) * g.uniform(0.001, 0.999), lo = wn + (en - wn) * g.uniform(0.001, 0.999);
        probe(garea, la, g.coin() ? lo : std::remainder(lo, 360.0), true, "CacheArea-object-inside", "cached-area-interior-query-touched-file");
      }
      // on the border of the requested rectangle (closed rectangle is "the specified area")
      { bool onlat = g.coin(); double la = onlat ? (g.coin() ? s : n) : s + (n - s) * g.u(), lo = onlat ? wn + (en - wn) * g.u() : (g.coin() ? w : e);
        probe(garea, la, lo, true, "CacheArea-object-border", "cached-area-border-query-touched-file"); }
      probe(garea, lat, lon, false, "CacheArea-object-anywhere", "");
      probe(gplain, lat, lon, false, "uncached-object", "");
    }
    // later cache operations on the broken file: GeographicErr or success, then still no wrong values
    try { garea.CacheAll(); c.event("file lost: CacheAll succeeded?!"); } catch (const GeographicErr&) { c.event("file lost: CacheAll raised GeographicErr"); if (garea.Cache()) c.viol(std::string("law:C20/") + ip + "/cache-on-after-failed-CacheAll", cls, W); }
    for (int t = 0; t < 10; ++t) probe(garea, g.uniform(-90, 90), g.uniform(-180, 180), false, "CacheArea-object-after-failed-CacheAll", "");
    gall.CacheClear();
    for (int t = 0; t < 5; ++t) probe(gall, g.uniform(-90, 90), g.uniform(-180, 180), false, "CacheAll-object-after-clear", "");
  } catch (const GeographicErr& e) {
    c.viol(std::string("history:C20/") + ip + "/iofault-setup-GeographicErr", cls, J(R.j()).str("what", e.what()));
  }
}

// ------------------------------------------------------------------------------------ oracle self test
static void run_selftest_case(Ctx& c, uint64_t idx) {
  Rng& g = c.rng;
  if (idx == 0) {
    std::string s = refgeoid::cubicfit().selftest();
    if (!s.empty()) { c.herr("ref_geoid cubic-fit derivation self-test failed: " + s); return; }
    const auto& F = refgeoid::cubicfit();
    c.sample("selftest/derived-denominators", J().i("interior", F.den[0]).i("north", F.den[1]).i("south", F.den[2]));
    c.count("selftest/exact-rational-derivation", 1, true);
    return;
  }
  // long double vs float128 reference agree; reference reproduces cubic polynomial fields exactly (interior cells)
  Ras R; R.r = refgeoid::Raster(24, 13); R.r.offset = -108; R.r.scale = 0.003; fill_field(R, g, idx % 2 ? F_RANDOM : F_CUBICPOLY);
  refgeoid::Grid<LD> A(R.r.w, R.r.h, R.r.pix.data(), R.r.offset, R.r.scale);
  refgeoid::Grid<__float128> B(R.r.w, R.r.h, R.r.pix.data(), R.r.offset, R.r.scale);
  for (int t = 0; t < 200; ++t) {
    double lat = g.uniform(-90, 90), lon = g.uniform(-180, 180); bool cubic = g.coin();
    std::vector<refgeoid::RefVal<LD>> ca; std::vector<refgeoid::RefVal<__float128>> cb;
    A.candidates(cubic, lat, lon, 0, 0, ca); B.candidates(cubic, lat, lon, 0, 0, cb);
    if (ca.size() != 1 || cb.size() != 1 || ca[0].cx != cb[0].cx || ca[0].cy != cb[0].cy) { c.herr("reference candidate cells differ between precisions"); return; }
    double d = (double)fabsq((__float128)ca[0].h - cb[0].h), lim = 1e-18 * (std::fabs(R.r.offset) + R.r.scale * 65535 * 40);
    c.obs("selftest: long double vs float128 reference [m]", d);
    if (!(d <= lim)) { c.herr("long double and float128 reference disagree"); return; }
    c.count("selftest/two-precisions", vh::hmix(vh::hmix(idx, lat), lon), true);
  }
}

// ------------------------------------------------------------------------------------ main
int main(int argc, char** argv) {
  refgeoid::TmpDir dir; g_dir = &dir;
  std::vector<Section> S;
  S.push_back(Section{"selftest", 5, 9, false, run_selftest_case, 60});
  S.push_back(Section{"hist", 3200, 64000, true, run_history_case, 120});
  S.push_back(Section{"struct", 640, 9600, true, run_struct_case, 120});
  S.push_back(Section{"iofault", 480, 6400, true, run_iofault_case, 60});
  S.push_back(Section{"trunc", trunc_tab().total, trunc_tab().total, false, run_trunc_case, 30});
  S.push_back(Section{"fault", fault_tab().F.size(), fault_tab().F.size(), false, run_fault_case, 30});
  S.push_back(Section{"headerfuzz", 1600, 32000, true, run_headerfuzz_case, 30});
  S.push_back(Section{"nofile", 6, 6, false, run_nofile_case, 30});
  return vh::run_sections(argc, argv, S);
}
