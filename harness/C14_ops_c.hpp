// C14 registry, part C: SphericalHarmonic/1/2, CircularEngine, GravityModel/Circle, MagneticModel/
// Circle, Geoid(threadsafe), static UTMUPS/MGRS/DMS/Geohash/GARS/Georef/OSGB, built-in singletons
#pragma once
#include "harness/C14_ops.hpp"

namespace c14 {

inline void gxyz(Rng& r, real a, real& X, real& Y, real& Z) {
  double u = r.u(); X = a * r.uniform(-2, 2); Y = a * r.uniform(-2, 2); Z = a * r.uniform(-2, 2);
  if (u < 0.08) { X = 0; Y = 0; if (Z == 0) Z = a; }     // polar axis
  else if (u < 0.14) Z = 0;
}

inline void register_c() {
  add("sh.value", "SphericalHarmonic", 1, true, [](const Shared* S, Rng& r, Res& o, int pv) {
    real X, Y, Z, gx, gy, gz; gxyz(r, S->P.a, X, Y, Z);
    if (pv / 1000 == 2) { real rr = std::hypot(std::hypot(X, Y), Z), sc = S->P.a * r.uniform(1.01, 2) / (rr > 0 ? rr : 1); X *= sc; Y *= sc; Z *= sc; }   // high degree: stay outside the sphere
    o.d(VAR(shv)(X, Y, Z)); o.d(VAR(shv)(X, Y, Z, gx, gy, gz)); o.d(gx); o.d(gy); o.d(gz); });
  add("sh.circle", "SphericalHarmonic", 1, true, [](const Shared* S, Rng& r, Res& o, int pv) {
    real a = S->P.a, gx = -1, gy = -2, gz = -3; CircularEngine c = VAR(shv).Circle(a * (pv / 1000 == 2 ? r.uniform(1.01, 2) : r.uniform(0, 2)), a * r.uniform(-2, 2), r.coin());
    real lon = glon(r); o.d(c(lon)); try { o.d(c(lon, gx, gy, gz)); o.d(gx); o.d(gy); o.d(gz); } catch (const GeographicErr&) { o.i(-1); }
    o.i(VAR(shv).Coefficients().nmx()); o.i(VAR(shv).Coefficients().mmx()); });
  add("sh1.value", "SphericalHarmonic1", 1, true, [](const Shared* S, Rng& r, Res& o, int pv) {
    real X, Y, Z, gx, gy, gz, t = r.uniform(-2, 2); gxyz(r, S->P.a, X, Y, Z); o.d(VAR(sh1v)(t, X, Y, Z)); o.d(VAR(sh1v)(t, X, Y, Z, gx, gy, gz)); o.d(gx); o.d(gy); o.d(gz); });
  add("sh1.circle", "SphericalHarmonic1", 1, true, [](const Shared* S, Rng& r, Res& o, int pv) {
    real a = S->P.a, gx, gy, gz; CircularEngine c = VAR(sh1v).Circle(r.uniform(-2, 2), a * r.uniform(0, 2), a * r.uniform(-2, 2), true);
    real lon = glon(r); o.d(c(lon)); o.d(c(lon, gx, gy, gz)); o.d(gx); o.d(gy); o.d(gz); });
  add("sh2.value", "SphericalHarmonic2", 1, true, [](const Shared* S, Rng& r, Res& o, int pv) {
    real X, Y, Z, gx, gy, gz, t1 = r.uniform(-2, 2), t2 = r.uniform(-2, 2); gxyz(r, S->P.a, X, Y, Z);
    o.d(VAR(sh2v)(t1, t2, X, Y, Z)); o.d(VAR(sh2v)(t1, t2, X, Y, Z, gx, gy, gz)); o.d(gx); o.d(gy); o.d(gz); });
  add("sh2.circle", "SphericalHarmonic2", 1, true, [](const Shared* S, Rng& r, Res& o, int pv) {
    real a = S->P.a, gx, gy, gz; CircularEngine c = VAR(sh2v).Circle(r.uniform(-2, 2), r.uniform(-2, 2), a * r.uniform(0, 2), a * r.uniform(-2, 2), true);
    real lon = glon(r); o.d(c(lon)); o.d(c(lon, gx, gy, gz)); o.d(gx); o.d(gy); o.d(gz); });
  add("circularengine.value", "CircularEngine", 2, true, [](const Shared* S, Rng& r, Res& o, int pv) {
    real lon = glon(r), gx, gy, gz, sl = std::sin(lon), cl = std::cos(lon);
    o.d(S->ce()(lon)); o.d(S->ce()(sl, cl)); o.d(S->ceg()(lon)); o.d(S->ceg()(lon, gx, gy, gz)); o.d(gx); o.d(gy); o.d(gz);
    o.d(S->ceg()(sl, cl, gx, gy, gz)); o.d(gx); o.d(gy); o.d(gz); });

  add("gravity.gravity", "GravityModel", 1, true, [](const Shared* S, Rng& r, Res& o, int pv) {
    real gx, gy, gz, lat = glat(r), lon = glon(r), h = gh(r);
    o.d(VAR(gmv).Gravity(lat, lon, h, gx, gy, gz)); o.d(gx); o.d(gy); o.d(gz);
    o.d(VAR(gmv).Disturbance(lat, lon, h, gx, gy, gz)); o.d(gx); o.d(gy); o.d(gz); });
  add("gravity.geoid-anomaly", "GravityModel", 1, true, [](const Shared* S, Rng& r, Res& o, int pv) {
    real a, b, c, lat = glat(r), lon = glon(r); o.d(VAR(gmv).GeoidHeight(lat, lon));
    VAR(gmv).SphericalAnomaly(lat, lon, gh(r), a, b, c); o.d(a); o.d(b); o.d(c); });
  add("gravity.potentials", "GravityModel", 1, true, [](const Shared* S, Rng& r, Res& o, int pv) {
    real X, Y, Z, gx, gy, gz; gxyz(r, 6378137.0, X, Y, Z); const GravityModel& g = VAR(gmv);
    o.d(g.W(X, Y, Z, gx, gy, gz)); o.d(gx); o.d(gy); o.d(gz); o.d(g.V(X, Y, Z, gx, gy, gz)); o.d(gx); o.d(gy); o.d(gz);
    o.d(g.T(X, Y, Z, gx, gy, gz)); o.d(gx); o.d(gy); o.d(gz); o.d(g.T(X, Y, Z)); o.d(g.U(X, Y, Z, gx, gy, gz)); o.d(gx); o.d(gy); o.d(gz);
    o.d(g.Phi(X, Y, gx, gy)); o.d(gx); o.d(gy); });
  add("gravity.circle", "GravityModel", 1, true, [](const Shared* S, Rng& r, Res& o, int pv) {
    static const unsigned caps[] = {GravityModel::ALL, GravityModel::GRAVITY, GravityModel::DISTURBANCE, GravityModel::GEOID_HEIGHT,
                                    GravityModel::SPHERICAL_ANOMALY, GravityModel::DISTURBING_POTENTIAL};
    unsigned cp = r.pick(caps); GravityCircle c = VAR(gmv).Circle(glat(r), gh(r), cp); real lon = glon(r), a, b, d;
    o.i(c.Capabilities());
    if (c.Capabilities(GravityModel::GRAVITY)) { o.d(c.Gravity(lon, a, b, d)); o.d(a); o.d(b); o.d(d); }
    if (c.Capabilities(GravityModel::DISTURBANCE)) { o.d(c.Disturbance(lon, a, b, d)); o.d(a); o.d(b); o.d(d); }
    if (c.Capabilities(GravityModel::GEOID_HEIGHT)) o.d(c.GeoidHeight(lon));
    if (c.Capabilities(GravityModel::SPHERICAL_ANOMALY)) { c.SphericalAnomaly(lon, a, b, d); o.d(a); o.d(b); o.d(d); }
    if (c.Capabilities(GravityModel::DISTURBING_POTENTIAL)) o.d(c.T(lon)); });
  add("gravity.accessors", "GravityModel", 0.3, true, [](const Shared* S, Rng&, Res& o, int pv) {
    const GravityModel& g = VAR(gmv); o.d(g.EquatorialRadius()); o.d(g.MassConstant()); o.d(g.ReferenceMassConstant()); o.d(g.AngularVelocity());
    o.d(g.Flattening()); o.i(g.Degree()); o.i(g.Order()); o.str(g.Description()); o.str(g.DateTime()); o.str(g.GravityModelName());
    o.d(g.ReferenceEllipsoid().SurfacePotential()); });
  add("gravitycircle.all", "GravityCircle", 2, true, [](const Shared* S, Rng& r, Res& o, int pv) {
    const GravityCircle& c = VAR(gmcv); real lon = glon(r), a, b, d;
    o.d(c.Gravity(lon, a, b, d)); o.d(a); o.d(b); o.d(d); o.d(c.Disturbance(lon, a, b, d)); o.d(a); o.d(b); o.d(d);
    o.d(c.GeoidHeight(lon)); c.SphericalAnomaly(lon, a, b, d); o.d(a); o.d(b); o.d(d);
    o.d(c.W(lon, a, b, d)); o.d(a); o.d(b); o.d(d); o.d(c.V(lon, a, b, d)); o.d(a); o.d(b); o.d(d);
    o.d(c.T(lon, a, b, d)); o.d(a); o.d(b); o.d(d); o.d(c.T(lon));
    o.d(c.Latitude()); o.d(c.Height()); o.d(c.EquatorialRadius()); o.d(c.Flattening()); o.b(c.Init()); });

  add("magnetic.field", "MagneticModel", 2, true, [](const Shared* S, Rng& r, Res& o, int pv) {
    real t = r.uniform(2010, 2040), lat = glat(r), lon = glon(r), h = gh(r), bx, by, bz, bxt, byt, bzt;
    VAR(mmv)(t, lat, lon, h, bx, by, bz); o.d(bx); o.d(by); o.d(bz);
    VAR(mmv)(t, lat, lon, h, bx, by, bz, bxt, byt, bzt); o.d(bx); o.d(by); o.d(bz); o.d(bxt); o.d(byt); o.d(bzt); });
  add("magnetic.fieldgeocentric", "MagneticModel", 1, true, [](const Shared* S, Rng& r, Res& o, int pv) {
    real X, Y, Z, bx, by, bz, bxt, byt, bzt; gxyz(r, 6371200.0, X, Y, Z);
    VAR(mmv).FieldGeocentric(r.uniform(2010, 2040), X, Y, Z, bx, by, bz, bxt, byt, bzt); o.d(bx); o.d(by); o.d(bz); o.d(bxt); o.d(byt); o.d(bzt); });
  add("magnetic.circle", "MagneticModel", 1, true, [](const Shared* S, Rng& r, Res& o, int pv) {
    MagneticCircle c = VAR(mmv).Circle(r.uniform(2010, 2040), glat(r), gh(r)); real lon = glon(r), bx, by, bz, bxt, byt, bzt;
    c(lon, bx, by, bz, bxt, byt, bzt); o.d(bx); o.d(by); o.d(bz); o.d(bxt); o.d(byt); o.d(bzt); });
  add("magnetic.accessors", "MagneticModel", 0.3, true, [](const Shared* S, Rng& r, Res& o, int pv) {
    const MagneticModel& m = VAR(mmv); o.d(m.MinHeight()); o.d(m.MaxHeight()); o.d(m.MinTime()); o.d(m.MaxTime()); o.d(m.EquatorialRadius());
    o.d(m.Flattening()); o.i(m.Degree()); o.i(m.Order()); o.str(m.Description()); o.str(m.DateTime()); o.str(m.MagneticModelName());
    real H, F, D, I, Ht, Ft, Dt, It, bx = r.uniform(-3e4, 3e4), by = r.uniform(-3e4, 3e4), bz = r.uniform(-3e4, 3e4);
    MagneticModel::FieldComponents(bx, by, bz, H, F, D, I); o.d(H); o.d(F); o.d(D); o.d(I);
    MagneticModel::FieldComponents(bx, by, bz, 1.0, -2.0, 3.0, H, F, D, I, Ht, Ft, Dt, It); o.d(Ht); o.d(Ft); o.d(Dt); o.d(It); });
  add("magneticcircle.all", "MagneticCircle", 2, true, [](const Shared* S, Rng& r, Res& o, int pv) {
    const MagneticCircle& c = VAR(mmcv); real lon = glon(r), bx, by, bz, bxt, byt, bzt;
    c(lon, bx, by, bz); o.d(bx); o.d(by); o.d(bz); c(lon, bx, by, bz, bxt, byt, bzt); o.d(bx); o.d(by); o.d(bz); o.d(bxt); o.d(byt); o.d(bzt);
    c.FieldGeocentric(lon, bx, by, bz, bxt, byt, bzt); o.d(bx); o.d(by); o.d(bz); o.d(bxt); o.d(byt); o.d(bzt);
    o.d(c.Latitude()); o.d(c.Height()); o.d(c.Time()); o.d(c.EquatorialRadius()); o.d(c.Flattening()); o.b(c.Init()); });

  add_variant("sh.", "sh-nmx.", "SphericalHarmonic(nmx,mmx ctor)", 1);
  add_variant("sh1.", "sh1-nmx.", "SphericalHarmonic1(nmx,mmx ctor)", 1);
  add_variant("sh2.", "sh2-nmx.", "SphericalHarmonic2(nmx,mmx ctor)", 1);
  add_variant("gravity.", "gravity-trunc.", "GravityModel(Nmax,Mmax)", 1);
  add_variant("gravitycircle.", "gravitycircle-trunc.", "GravityCircle(of truncated model)", 1);
  add_variant("magnetic.", "magnetic-trunc.", "MagneticModel(earth,Nmax,Mmax)", 1);
  add_variant("magneticcircle.", "magneticcircle-trunc.", "MagneticCircle(of truncated model)", 1);

  // the harmonic object that is constructed before the barrier but evaluated for the first time by the worker threads,
  // at a degree larger than anything evaluated earlier in the process (documented protocol: constructing the object is
  // enough, SphericalEngine::RootTable is never called by the harness)
  add_variant("sh.", "shfresh.", "SphericalHarmonic(first evaluation after barrier)", 2);
  for (auto& o : registry())
    if (o.cls.compare(0, 14, "CircularEngine") == 0 || o.cls.compare(0, 13, "GravityCircle") == 0 || o.cls.compare(0, 14, "MagneticCircle") == 0)
      o.needs_circle = true;

  add("geoid.bilinear", "Geoid(threadsafe)", 3, true, [](const Shared* S, Rng& r, Res& o, int pv) {
    real lat = glat(r), lon = glon(r); o.d(S->geob()(lat, lon)); o.d(S->geob().ConvertHeight(lat, lon, 10, Geoid::GEOIDTOELLIPSOID));
    o.d(S->geob()(lat, lon)); });
  add("geoid.cubic", "Geoid(threadsafe)", 3, true, [](const Shared* S, Rng& r, Res& o, int pv) {
    real lat = glat(r), lon = glon(r); o.d(S->geoc()(lat, lon)); o.d(S->geoc().ConvertHeight(lat, lon, 10, Geoid::ELLIPSOIDTOGEOID));
    o.d(S->geoc()(lat + 1e-9, lon)); });
  add("geoid.accessors", "Geoid(threadsafe)", 0.5, true, [](const Shared* S, Rng& r, Res& o, int pv) {
    const Geoid& g = r.coin() ? S->geob() : S->geoc(); o.str(g.Description()); o.str(g.DateTime()); o.str(g.GeoidName()); o.str(g.Interpolation());
    o.d(g.MaxError()); o.d(g.RMSError()); o.d(g.Offset()); o.d(g.Scale()); o.b(g.ThreadSafe()); o.b(g.Cache()); o.d(g.CacheWest()); o.d(g.CacheEast());
    o.d(g.CacheNorth()); o.d(g.CacheSouth()); o.d(g.EquatorialRadius()); o.d(g.Flattening());
    // cache-changing calls are refused on a thread-safe object (documented): the refusal must be consistent too
    try { g.CacheArea(0, 0, 10, 10); o.i(0); } catch (const GeographicErr& e) { o.i(1); o.str(e.what()); }
    g.CacheClear(); o.b(g.Cache()); o.d(g(10, 20)); });

  // ------------------------------------------------------------------ static function classes
  add("utmups.forward-reverse", "UTMUPS", 2, false, [](const Shared*, Rng& r, Res& o, int) {
    int zone = -9; bool np = false; real x = -1, y = -2, gam = -3, k = -4, lat = glat(r), lon = glon(r);
    int setzone = r.coin(0.6) ? (int)UTMUPS::STANDARD : r.coin() ? (int)UTMUPS::UTM : r.range(-3, 60);
    UTMUPS::Forward(lat, lon, zone, np, x, y, gam, k, setzone, r.coin(0.3)); o.i(zone); o.b(np); o.d(x); o.d(y); o.d(gam); o.d(k);
    real lat2, lon2; UTMUPS::Reverse(zone, np, x, y, lat2, lon2, gam, k); o.d(lat2); o.d(lon2); o.d(gam); o.d(k);
    o.i(UTMUPS::StandardZone(lat, lon)); o.str(UTMUPS::EncodeZone(zone, np, r.coin())); o.i(UTMUPS::EncodeEPSG(zone, np)); });
  add("utmups.transfer-zones", "UTMUPS", 1, false, [](const Shared*, Rng& r, Res& o, int) {
    int zone = -9, z2 = -9; bool np = false; real x, y, lat = r.uniform(-80, 84), lon = glon(r);
    UTMUPS::Forward(lat, lon, zone, np, x, y); int zo = zone + r.range(-1, 1); if (zo < 1) zo = 60; if (zo > 60) zo = 1;
    real xo, yo; UTMUPS::Transfer(zone, np, x, y, zo, r.coin(), xo, yo, z2); o.d(xo); o.d(yo); o.i(z2);
    std::string zs = UTMUPS::EncodeZone(zone, np, false); int z3; bool n3; UTMUPS::DecodeZone(zs, z3, n3); o.i(z3); o.b(n3);
    UTMUPS::DecodeEPSG(32600 + r.range(1, 60) + (r.coin() ? 100 : 0), z3, n3); o.i(z3); o.b(n3); o.d(UTMUPS::UTMShift()); });
  add("mgrs.forward-reverse", "MGRS", 2, false, [](const Shared*, Rng& r, Res& o, int) {
    int zone; bool np; real x, y, lat = r.coin(0.9) ? r.uniform(-89.9, 89.9) : glat(r), lon = glon(r);
    UTMUPS::Forward(lat, lon, zone, np, x, y); std::string m, m2; int prec = r.range(-1, 11);
    MGRS::Forward(zone, np, x, y, prec, m); o.str(m); MGRS::Forward(zone, np, x, y, lat, prec, m2); o.str(m2);
    int z2, p2; bool n2; real x2, y2; MGRS::Reverse(m, z2, n2, x2, y2, p2, r.coin()); o.i(z2); o.b(n2); o.d(x2); o.d(y2); o.i(p2);
    std::string a, b, c, d; MGRS::Decode(m, a, b, c, d); o.str(a); o.str(b); o.str(c); o.str(d); });
  add("mgrs.check", "MGRS", 0.2, false, [](const Shared*, Rng&, Res& o, int) { MGRS::Check(); o.i(1); });
  add("dms.encode-decode", "DMS", 2, false, [](const Shared*, Rng& r, Res& o, int) {
    real ang = r.coin() ? r.uniform(-180, 180) : glat(r); unsigned prec = (unsigned)r.range(0, 12);
    static const DMS::flag fl[] = {DMS::NONE, DMS::LATITUDE, DMS::LONGITUDE, DMS::AZIMUTH, DMS::NUMBER};
    DMS::flag f = r.pick(fl); std::string s = DMS::Encode(f == DMS::LATITUDE ? glat(r) : ang, prec, f, r.coin(0.3) ? ':' : char(0)); o.str(s);
    static const DMS::component cm[] = {DMS::DEGREE, DMS::MINUTE, DMS::SECOND};
    o.str(DMS::Encode(ang, r.pick(cm), prec % 8, r.coin() ? DMS::NONE : DMS::LONGITUDE));
    DMS::flag ind; o.d(DMS::Decode(s, ind)); o.i(ind); real d, m, sec; DMS::Encode(ang, d, m, sec); o.d(d); o.d(m); o.d(sec); o.d(DMS::Decode(d, m, sec)); });
  add("dms.decode-strings", "DMS", 1, false, [](const Shared*, Rng& r, Res& o, int) {
    static const char* la[] = {"40d26'47\"N", "-33.5", "12:30:15.5S", "5e1N", "89d59'59.99\"", "0", "N45", "40:26.25"};
    static const char* lo[] = {"79d58'36\"W", "151.2", "W073:15:00", "-0.5e2", "179d59'59.9\"E", "180", "E10", "x"};
    real lat = -1, lon = -2; DMS::DecodeLatLon(r.pick(la), r.pick(lo), lat, lon, r.coin(0.2)); o.d(lat); o.d(lon);
    o.d(DMS::DecodeAngle("12d30'")); o.d(DMS::DecodeAzimuth(r.coin() ? "45E" : "-170:30")); });
  add("geohash", "Geohash", 1, false, [](const Shared*, Rng& r, Res& o, int) {
    std::string g; int len = r.range(0, 18); real lat = glat(r), lon = glon(r); Geohash::Forward(lat, lon, len, g); o.str(g);
    real la, lo; int l2; Geohash::Reverse(g, la, lo, l2, r.coin()); o.d(la); o.d(lo); o.i(l2);
    o.d(Geohash::LatitudeResolution(len)); o.d(Geohash::LongitudeResolution(len)); o.i(Geohash::GeohashLength(r.logu(1e-8, 10)));
    o.i(Geohash::GeohashLength(r.logu(1e-8, 10), r.logu(1e-8, 10))); o.i(Geohash::DecimalPrecision(len)); });
  add("gars", "GARS", 1, false, [](const Shared*, Rng& r, Res& o, int) {
    std::string g; int prec = r.range(0, 2); GARS::Forward(glat(r), glon(r), prec, g); o.str(g);
    real la, lo; int p2; GARS::Reverse(g, la, lo, p2, r.coin()); o.d(la); o.d(lo); o.i(p2); o.d(GARS::Resolution(prec)); o.i(GARS::Precision(r.logu(1e-3, 1))); });
  add("georef", "Georef", 1, false, [](const Shared*, Rng& r, Res& o, int) {
    std::string g; int prec = r.range(-1, 11); Georef::Forward(glat(r), glon(r), prec, g); o.str(g);
    real la, lo; int p2; Georef::Reverse(g, la, lo, p2, r.coin()); o.d(la); o.d(lo); o.i(p2); o.d(Georef::Resolution(prec)); o.i(Georef::Precision(r.logu(1e-9, 20))); });
  add("osgb", "OSGB", 2, false, [](const Shared*, Rng& r, Res& o, int) {
    real x, y, gam, k, lat = r.uniform(49.9, 60.8), lon = r.uniform(-7.5, 1.7); OSGB::Forward(lat, lon, x, y, gam, k); o.d(x); o.d(y); o.d(gam); o.d(k);
    real la, lo; OSGB::Reverse(x, y, la, lo, gam, k); o.d(la); o.d(lo); o.d(gam); o.d(k);
    std::string g; int prec = r.range(0, 11); OSGB::GridReference(x, y, prec, g); o.str(g);
    real x2, y2; int p2; OSGB::GridReference(g, x2, y2, p2, r.coin()); o.d(x2); o.d(y2); o.i(p2);
    o.d(OSGB::EquatorialRadius()); o.d(OSGB::Flattening()); o.d(OSGB::CentralScale()); });

  // ------------------------------------------------------------------ built-in singletons (first-touch sets use these)
  add("singleton.Geodesic::WGS84", "singleton", 0.5, false, [](const Shared*, Rng& r, Res& o, int) {
    Pair p = gpair(r); real s12, a1, a2, m12, M12, M21, S12; o.d(Geodesic::WGS84().Inverse(p.lat1, p.lon1, p.lat2, p.lon2, s12, a1, a2, m12, M12, M21, S12));
    o.d(s12); o.d(a1); o.d(a2); o.d(m12); o.d(M12); o.d(M21); o.d(S12); });
  add("singleton.GeodesicExact::WGS84", "singleton", 0.5, false, [](const Shared*, Rng& r, Res& o, int) {
    Pair p = gpair(r); real s12, a1, a2, m12, M12, M21, S12; o.d(GeodesicExact::WGS84().Inverse(p.lat1, p.lon1, p.lat2, p.lon2, s12, a1, a2, m12, M12, M21, S12));
    o.d(s12); o.d(a1); o.d(a2); o.d(m12); o.d(M12); o.d(M21); o.d(S12); });
  add("singleton.TransverseMercator::UTM", "singleton", 0.5, false, [](const Shared*, Rng& r, Res& o, int) {
    real x, y, g, k; TransverseMercator::UTM().Forward(3, glat(r), 3 + r.uniform(-5, 5), x, y, g, k); o.d(x); o.d(y); o.d(g); o.d(k); });
  add("singleton.TransverseMercatorExact::UTM", "singleton", 0.5, false, [](const Shared*, Rng& r, Res& o, int) {
    real x, y, g, k; TransverseMercatorExact::UTM().Forward(3, glat(r), 3 + r.uniform(-5, 5), x, y, g, k); o.d(x); o.d(y); o.d(g); o.d(k); });
  add("singleton.PolarStereographic::UPS", "singleton", 0.5, false, [](const Shared*, Rng& r, Res& o, int) {
    real x, y, g, k; PolarStereographic::UPS().Forward(r.coin(), glat(r), glon(r), x, y, g, k); o.d(x); o.d(y); o.d(g); o.d(k); });
  add("singleton.LambertConformalConic::Mercator", "singleton", 0.5, false, [](const Shared*, Rng& r, Res& o, int) {
    real x, y, g, k; LambertConformalConic::Mercator().Forward(0, r.uniform(-89, 89), glon(r), x, y, g, k); o.d(x); o.d(y); o.d(g); o.d(k); });
  add("singleton.AlbersEqualArea::CylindricalEqualArea", "singleton", 0.3, false, [](const Shared*, Rng& r, Res& o, int) {
    real x, y, g, k; AlbersEqualArea::CylindricalEqualArea().Forward(0, glat(r), glon(r), x, y, g, k); o.d(x); o.d(y); o.d(g); o.d(k); });
  add("singleton.AlbersEqualArea::AzimuthalEqualAreaNorth", "singleton", 0.3, false, [](const Shared*, Rng& r, Res& o, int) {
    real x, y, g, k; AlbersEqualArea::AzimuthalEqualAreaNorth().Forward(0, glat(r), glon(r), x, y, g, k); o.d(x); o.d(y); o.d(g); o.d(k); });
  add("singleton.AlbersEqualArea::AzimuthalEqualAreaSouth", "singleton", 0.3, false, [](const Shared*, Rng& r, Res& o, int) {
    real x, y, g, k; AlbersEqualArea::AzimuthalEqualAreaSouth().Forward(0, glat(r), glon(r), x, y, g, k); o.d(x); o.d(y); o.d(g); o.d(k); });
  add("singleton.Geocentric::WGS84", "singleton", 0.5, false, [](const Shared*, Rng& r, Res& o, int) {
    real X, Y, Z, la, lo, h; Geocentric::WGS84().Forward(glat(r), glon(r), gh(r), X, Y, Z); o.d(X); o.d(Y); o.d(Z);
    Geocentric::WGS84().Reverse(X, Y, Z, la, lo, h); o.d(la); o.d(lo); o.d(h); });
  add("singleton.Ellipsoid::WGS84", "singleton", 0.5, false, [](const Shared*, Rng& r, Res& o, int) {
    const Ellipsoid& e = Ellipsoid::WGS84(); real phi = glat(r); o.d(e.RectifyingLatitude(phi)); o.d(e.AuthalicLatitude(phi)); o.d(e.ConformalLatitude(phi));
    o.d(e.MeridianDistance(phi)); o.d(e.Area()); o.d(e.QuarterMeridian()); });
  add("singleton.AuxLatitude::WGS84", "singleton", 0.5, false, [](const Shared*, Rng& r, Res& o, int) {
    const AuxLatitude& a = AuxLatitude::WGS84(); int in = r.range(0, 5), out = r.range(0, 5); o.d(a.Convert(in, out, glat(r))); o.d(a.Convert(out, in, glat(r), true)); });
  add("singleton.Rhumb::WGS84", "singleton", 0.5, false, [](const Shared*, Rng& r, Res& o, int) {
    Pair p = gpair(r); real s12, azi, S12, la, lo; Rhumb::WGS84().Inverse(p.lat1, p.lon1, p.lat2, p.lon2, s12, azi, S12); o.d(s12); o.d(azi); o.d(S12);
    Rhumb::WGS84().Direct(p.lat1, p.lon1, azi, s12, la, lo, S12); o.d(la); o.d(lo); o.d(S12); });
  add("singleton.NormalGravity::WGS84", "singleton", 0.5, false, [](const Shared*, Rng& r, Res& o, int) {
    real gy, gz; o.d(NormalGravity::WGS84().Gravity(glat(r), gh(r), gy, gz)); o.d(gy); o.d(gz); o.d(NormalGravity::WGS84().DynamicalFormFactor(4)); });
  add("singleton.NormalGravity::GRS80", "singleton", 0.5, false, [](const Shared*, Rng& r, Res& o, int) {
    real gy, gz; o.d(NormalGravity::GRS80().Gravity(glat(r), gh(r), gy, gz)); o.d(gy); o.d(gz); o.d(NormalGravity::GRS80().Flattening()); });
}

}  // namespace c14
