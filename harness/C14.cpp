// C14 — shared immutable objects are safe to use from many threads.
//
// One CASE = one TRIAL: fresh shared objects are constructed, T in {2,4,8,16} threads are released
// from a barrier and each performs a plan of const operations on the SAME objects (per-thread
// deterministic inputs, small random jitter between calls).  Monitors:
//   * ThreadSanitizer (tsan flavour): reports go to stderr; every trial is preceded by a marker
//     line "@@C14 case <section> <idx>" so that checks/C14.py can attach the witness trial to
//     each report (de-duplicated there by the pair of innermost GeographicLib frames);
//   * determinism monitor (all flavours): after join, every (operation, inputs) executed
//     concurrently is re-executed single-threaded on a SECOND fresh object and must give
//     bit-identical outputs (key determinism:C14/<op>).
// The monitor's own state is per-thread (pre-sized record vectors) and is only read after join;
// the one shared atomic (the sequence counter for the overlap evidence) is used with relaxed
// ordering only, so that it adds no happens-before edges that could hide a library race.
#include <chrono>
#include <new>
#include "harness/C14_ops.hpp"
#include "harness/C14_ops_a.hpp"
#include "harness/C14_ops_b.hpp"
#include "harness/C14_ops_c.hpp"

namespace c14 { void register_all() { register_a(); register_b(); register_c(); } }
using namespace c14;

struct Rec { uint32_t op; uint64_t seed, b, e; Res r; };

static std::atomic<uint64_t> g_seq{0};
static std::atomic<int> g_arrived{0};
static std::atomic<bool> g_go{false};
static std::string g_dir;

static void jitter(Rng& jr) {
  unsigned k = (unsigned)jr.below(8);
  if (k < 3) return;
  if (k == 3) { std::this_thread::yield(); return; }
  auto until = std::chrono::steady_clock::now() + std::chrono::nanoseconds(jr.below(50000));
  if (k == 4) { std::this_thread::sleep_until(until); return; }
  while (std::chrono::steady_clock::now() < until) { }
}

static void worker(const Shared* S, const std::vector<Op>* ops, std::vector<Rec>* recs, uint64_t jseed, int T) {
  Rng jr(jseed);
  g_arrived.fetch_add(1, std::memory_order_acq_rel);
  while (!g_go.load(std::memory_order_acquire)) { if (T > 8) std::this_thread::yield(); }
  for (Rec& rc : *recs) {
    rc.b = g_seq.fetch_add(1, std::memory_order_relaxed);
    exec((*ops)[rc.op], S, rc.seed, rc.r);
    rc.e = g_seq.fetch_add(1, std::memory_order_relaxed);
    jitter(jr);
  }
}

static bool harmonic_family(const std::string& c) {
  return c.compare(0, 17, "SphericalHarmonic") == 0 || c.compare(0, 12, "GravityModel") == 0 || c.compare(0, 13, "MagneticModel") == 0; }

struct Picker {
  std::vector<double> cum; double tot = 0;
  // focus: one class boosted; family: the whole harmonic family boosted; circles = false: operations on pre-built circles excluded
  explicit Picker(const std::vector<Op>& ops, const std::string& focus, double boost, bool circles, bool family) {
    for (auto& o : ops) {
      double w = o.w * (((!focus.empty() && o.cls == focus) || (family && harmonic_family(o.cls))) ? boost : 1.0);
      if (o.needs_circle && !circles) w = 0;
      tot += w; cum.push_back(tot); } }
  uint32_t pick(Rng& r) const { double x = r.u() * tot; return (uint32_t)(std::lower_bound(cum.begin(), cum.end(), x) - cum.begin()); }
};

static std::vector<std::string> g_classes;
static const int Ts[4] = {2, 4, 8, 16};

static int g_freshdeg = 30;      // per process: strictly increasing degree of Shared::shfresh

// focus_cls >= 0: directed trial hammering one class; fresh: meant to be the ONLY trial of its process (checks/C14.py runs
// section "fresh" with --only): nothing harmonic is evaluated before the barrier and the harmonic family is hammered
static void trial(vh::Ctx& ctx, uint64_t idx, int T, int focus_cls, bool fresh = false) {
  const std::vector<Op>& ops = registry();
  { char b[160]; int n = std::snprintf(b, sizeof b, "@@C14 case %s %llu seed %llu\n", ctx.section, (unsigned long long)idx, (unsigned long long)ctx.seed);
    ssize_t w = write(2, b, n); (void)w; }
  Rng& r = ctx.rng;
  Params P = make_params(r, g_dir);          // NB first use of ctx.rng: the --alone helper re-derives P the same way
  g_freshdeg += 1 + (int)(idx % 3); P.freshdeg = g_freshdeg; P.prebuilt_circles = !fresh;
  int nops = ctx.quick() ? r.range(200, 700) : r.range(200, 2000);
  // mode 0: all operations by weight; 1: 90+% of the calls on one class (different plan per thread);
  // 2: one class, and every thread executes the SAME operation sequence (different inputs), so that
  //    the first (cold) call of every operation happens on all threads at once
  int mode = (focus_cls >= 0 || fresh) ? 1 + (int)(idx & 1) : (r.u() < 0.35 ? 0 : r.u() < 0.6 ? 1 : 2);
  std::string focus = fresh ? "" : focus_cls >= 0 ? g_classes[focus_cls] : mode ? g_classes[r.below(g_classes.size())] : "";
  Picker pk(ops, focus, mode == 0 ? 1.0 : 400.0, P.prebuilt_circles, fresh);
  std::vector<std::vector<Rec>> recs(T);
  std::vector<uint32_t> common;
  if (mode == 2) for (int k = 0; k < nops; ++k) common.push_back(pk.pick(r));
  uint64_t tseed = r.next();
  for (int t = 0; t < T; ++t) {
    recs[t].resize(nops);
    for (int k = 0; k < nops; ++k) {
      Rec& rc = recs[t][k]; rc.op = mode == 2 ? common[k] : pk.pick(r);
      rc.seed = vh::hmix(vh::hmix(tseed, (uint64_t)t), (uint64_t)k); rc.b = rc.e = 0; }
  }
  // ---- fresh shared objects (A).  Under TSan its storage is never recycled so that the benign-race
  // annotation of the Intersect counters can never come to cover anything else.
  void* mem = ::operator new(sizeof(Shared));
  Shared* A = nullptr;
  try { A = new (mem) Shared(P); }
  catch (const std::exception& e) { ::operator delete(mem); ctx.herr(std::string("constructing shared objects failed: ") + e.what() + " " + params_json(P).done()); return; }
  g_arrived.store(0); g_go.store(false);
  std::vector<std::thread> th;
  for (int t = 0; t < T; ++t) th.emplace_back(worker, A, &ops, &recs[t], vh::hmix(tseed, (uint64_t)(1000 + t)), T);
  while (g_arrived.load(std::memory_order_acquire) < T) std::this_thread::yield();
  g_go.store(true, std::memory_order_release);
  for (auto& x : th) x.join();
  A->~Shared();
#if !defined(__SANITIZE_THREAD__)
  ::operator delete(mem);
#endif
  // ---- determinism monitor on a second fresh object
  std::unique_ptr<Shared> B;
  try { B.reset(new Shared(P)); } catch (const std::exception& e) { ctx.herr(std::string("constructing second object failed: ") + e.what()); return; }
  uint64_t ph = vh::hmix(vh::hmix(vh::hmix(1, P.a), P.f), P.coeffseed);
  uint64_t nmis = 0;
  for (int t = 0; t < T; ++t)
    for (int k = 0; k < nops; ++k) {
      Rec& rc = recs[t][k]; const Op& op = ops[rc.op]; Res alone; exec(op, B.get(), rc.seed, alone);
      ctx.count(op.name, vh::hmix(vh::hmix(ph, (uint64_t)rc.op), rc.seed));
      if (rc.r.exc) ctx.event("exception-result/" + op.cls);
      if (!alone.same(rc.r)) {
        ++nmis;
        int fd = alone.firstdiff(rc.r); char hb[40], ha[40]; hb[0] = ha[0] = 0;
        if (fd >= 0) { uint64_t u, v; std::memcpy(&u, &rc.r.v[fd], 8); std::memcpy(&v, &alone.v[fd], 8);
          std::snprintf(hb, sizeof hb, "%016llx", (unsigned long long)u); std::snprintf(ha, sizeof ha, "%016llx", (unsigned long long)v); }
        ctx.viol("determinism:C14/" + op.name, op.name, vh::J().str("op", op.name).i("threads", T).i("thread", t).i("call", k).u("opseed", rc.seed)
                 .i("first_differing_output", fd).str("concurrent_bits", hb).str("alone_bits", ha)
                 .f("concurrent", fd >= 0 ? rc.r.v[fd] : 0).f("alone", fd >= 0 ? alone.v[fd] : 0)
                 .str("concurrent_str", rc.r.s).str("alone_str", alone.s).i("mode", mode).obj("params", params_json(P)));
      }
    }
  // ---- samples for the fresh-process "alone" reference (judged by checks/C14.py with `C14 --alone ...`): in a directed
  // trial the first execution of EVERY operation of the focus class, and in every trial a rotating 1/16 of the operations
  {
    std::vector<char> seen(ops.size(), 0);
    for (int t = 0; t < T; ++t)
      for (int k = 0; k < nops; ++k) {
        Rec& rc = recs[t][k]; if (seen[rc.op]) continue; seen[rc.op] = 1;
        const Op& op = ops[rc.op];
        bool want = (focus_cls >= 0 && op.cls == focus) || (fresh && harmonic_family(op.cls)) || ((rc.op + idx) % 16 == 0);
        if (!want) continue;
        std::fprintf(ctx.out, "%s\n", vh::J().str("t", "alone").str("section", ctx.section).u("idx", idx).u("seed", ctx.seed).str("op", op.name)
                     .u("opseed", rc.seed).i("freshdeg", P.freshdeg).i("threads", T).str("res", reshex(rc.r)).done().c_str());
      }
    std::fflush(ctx.out);
  }
  ctx.obs("determinism: calls per trial whose concurrent result differs from the result alone (count; tolerance 0)", (double)nmis,
          vh::J().i("threads", T).i("ops_per_thread", nops));
  // ---- overlap evidence: calls of different threads whose [begin,end] sequence intervals intersect
  {
    struct Iv { uint64_t b, e; uint32_t op; int t; };
    std::vector<Iv> iv; iv.reserve((size_t)T * nops);
    for (int t = 0; t < T; ++t) for (auto& rc : recs[t]) iv.push_back(Iv{rc.b, rc.e, rc.op, t});
    std::sort(iv.begin(), iv.end(), [](const Iv& x, const Iv& y) { return x.b < y.b; });
    std::vector<Iv> act; std::map<std::pair<uint32_t, uint32_t>, uint64_t> pc;
    uint64_t total = 0;
    for (auto& x : iv) {
      size_t w = 0; for (size_t q = 0; q < act.size(); ++q) if (act[q].e > x.b) act[w++] = act[q]; act.resize(w);
      for (auto& y : act) if (y.t != x.t) { ++pc[{std::min(x.op, y.op), std::max(x.op, y.op)}]; ++total; }
      act.push_back(x);
    }
    ctx.event("overlapping-call-pairs", total);
    std::map<std::string, uint64_t> agg;
    for (auto& kv : pc) {
      const Op& a = ops[kv.first.first]; const Op& b = ops[kv.first.second];
      agg["overlap-op/" + a.name] += kv.second; if (kv.first.first != kv.first.second) agg["overlap-op/" + b.name] += kv.second;
      if (kv.first.first == kv.first.second) agg["overlap-self/" + a.name] += kv.second;
      std::string ca = a.cls, cb = b.cls; if (cb < ca) std::swap(ca, cb);
      agg["overlap-class/" + ca + "|" + cb] += kv.second;
    }
    for (auto& kv : agg) ctx.event(kv.first, kv.second);
  }
  ctx.event("trials/T=" + std::to_string(T)); ctx.event("trials/mode=" + std::to_string(mode));
  ctx.event("ops-executed-concurrently", (uint64_t)T * nops);
  ctx.event("ops-x-threads/T=" + std::to_string(T), (uint64_t)T * nops);
  if (ctx.want_sample("trial/T=" + std::to_string(T)))
    ctx.sample("trial/T=" + std::to_string(T), vh::J().i("threads", T).i("ops_per_thread", nops).i("mode", mode).str("focus", focus).obj("params", params_json(P)));
}

int main(int argc, char** argv) {
  register_all();
  for (int i = 1; i < argc; ++i) if (std::string(argv[i]) == "--list-ops") {
    for (auto& o : registry()) std::printf("%s\t%s\t%g\t%d\n", o.name.c_str(), o.cls.c_str(), o.w, (int)o.needs_shared); return 0; }
  C14_HG_IGNORE(&g_seq, sizeof g_seq); C14_HG_IGNORE(&g_arrived, sizeof g_arrived); C14_HG_IGNORE(&g_go, sizeof g_go);   // the harness's own atomics
  c14f::TmpDir tmp;
  if (tmp.path.empty()) { std::fprintf(stderr, "cannot create scratch dir\n"); return 2; }
  g_dir = tmp.path;
  // ---- fresh-process reference:  C14 --alone <section> <idx> <seed> <op> <opseed> <freshdeg>
  // re-derives the trial's parameters, constructs ONLY what that one operation touches (lazy objects) and executes ONLY that call
  if (argc == 8 && std::string(argv[1]) == "--alone") {
    uint64_t idx = std::strtoull(argv[3], nullptr, 10), seed = std::strtoull(argv[4], nullptr, 10), opseed = std::strtoull(argv[6], nullptr, 10);
    Rng r(vh::hmix(vh::hmix(vh::mix64(seed), vh::hstr(argv[2])), idx));
    Params P = make_params(r, g_dir); P.freshdeg = std::atoi(argv[7]);
    for (auto& o : registry()) if (o.name == argv[5]) {
      Shared S(P, true); Res res; exec(o, &S, opseed, res); std::printf("%s\n", reshex(res).c_str()); return 0; }
    std::fprintf(stderr, "no operation %s\n", argv[5]); return 3;
  }
  for (auto& o : registry()) if (std::find(g_classes.begin(), g_classes.end(), o.cls) == g_classes.end()) g_classes.push_back(o.cls);
  const uint64_t ncls = g_classes.size();
  if (std::getenv("VERIF_C14_PRETOUCH")) {
    // helgrind pass only: helgrind does not model the C++11 static-initialisation guards, so every function-local
    // static / built-in singleton is initialised here by the main thread before any worker thread exists
    // (concurrent first touch is judged by ThreadSanitizer in the C14_first processes instead).
    for (auto& o : registry()) if (!o.needs_shared) for (uint64_t k = 0; k < 25; ++k) { Res r; exec(o, nullptr, vh::hmix(77, k), r); }
  }
  std::vector<vh::Section> S;
  // directed: every class is the focus once (quick) / with every thread count (thorough)
  S.push_back(vh::Section{"focus", ncls, 4 * ncls, false, [ncls](vh::Ctx& c, uint64_t i) {
    trial(c, i, Ts[(i + i / 4 + i / 16 + i / ncls + c.seed) % 4], (int)(i % ncls)); }, 1800});
  S.push_back(vh::Section{"trial", 90, 1500, true, [](vh::Ctx& c, uint64_t i) { trial(c, i, Ts[(i + i / 4 + i / 16) % 4], -1); }, 1800});
  // one trial per PROCESS, run by checks/C14.py through --only fresh:<i> (0 cases in the ordinary shards)
  S.push_back(vh::Section{"fresh", 0, 0, false, [](vh::Ctx& c, uint64_t i) { trial(c, i, Ts[(i + i / 4) % 4], -1, true); }, 1800});
  int rc = vh::run_sections(argc, argv, S);
  return rc;
}
