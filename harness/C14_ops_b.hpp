// C14 registry, part B: projections, Geocentric, LocalCartesian, Ellipsoid, AuxLatitude,
// DAuxLatitude, EllipticFunction, NormalGravity
#pragma once
#include "harness/C14_ops.hpp"

namespace c14 {

template <class T, Lazy<T> Shared::*M> void add_tm(const std::string& pre, const std::string& cls) {
  add(pre + ".forward", cls, 2, true, [](const Shared* S, Rng& r, Res& o, int pv) {
    const T& t = (S->*M)(); real x, y, gam, k; real lon0 = glon(r), lat = glat(r);
    real lon = lon0 + (r.coin(0.8) ? r.uniform(-40, 40) : r.uniform(-180, 180));
    t.Forward(lon0, lat, lon, x, y, gam, k); o.d(x); o.d(y); o.d(gam); o.d(k);
    t.Forward(lon0, lat, lon, x, y); o.d(x); o.d(y); });
  add(pre + ".reverse", cls, 2, true, [](const Shared* S, Rng& r, Res& o, int pv) {
    const T& t = (S->*M)(); real lat, lon, gam, k; real a = t.EquatorialRadius();
    real x = a * r.uniform(-1, 1), y = a * r.uniform(-2, 2), lon0 = glon(r);
    t.Reverse(lon0, x, y, lat, lon, gam, k); o.d(lat); o.d(lon); o.d(gam); o.d(k);
    t.Reverse(lon0, x, y, lat, lon); o.d(lat); o.d(lon);
    o.d(t.EquatorialRadius()); o.d(t.Flattening()); o.d(t.CentralScale()); });
}
template <class T, Lazy<T> Shared::*M> void add_conic(const std::string& pre, const std::string& cls) {
  add(pre + ".forward", cls, 1, true, [](const Shared* S, Rng& r, Res& o, int pv) {
    const T& t = (S->*M)(); real x, y, gam, k; real lon0 = glon(r), lat = glat(r), lon = glon(r);
    t.Forward(lon0, lat, lon, x, y, gam, k); o.d(x); o.d(y); o.d(gam); o.d(k);
    t.Forward(lon0, lat, lon, x, y); o.d(x); o.d(y); });
  add(pre + ".reverse", cls, 1, true, [](const Shared* S, Rng& r, Res& o, int pv) {
    const T& t = (S->*M)(); real lat, lon, gam, k; real a = t.EquatorialRadius();
    real x = a * r.uniform(-3, 3), y = a * r.uniform(-3, 3), lon0 = glon(r);
    t.Reverse(lon0, x, y, lat, lon, gam, k); o.d(lat); o.d(lon); o.d(gam); o.d(k);
    t.Reverse(lon0, x, y, lat, lon); o.d(lat); o.d(lon);
    o.d(t.EquatorialRadius()); o.d(t.Flattening()); o.d(t.OriginLatitude()); o.d(t.CentralScale()); });
}

inline AuxAngle gaux(Rng& r) {
  double u = r.u();
  if (u < 0.05) return AuxAngle::degrees(90); if (u < 0.1) return AuxAngle::degrees(-90); if (u < 0.15) return AuxAngle::degrees(0);
  if (u < 0.25) return AuxAngle(r.sign() * r.logu(1e-20, 1e20), r.coin(0.2) ? -1.0 : 1.0);
  return AuxAngle::degrees(r.uniform(-90, 90));
}

inline void register_b() {
  add_tm<TransverseMercator, &Shared::tm>("tm", "TransverseMercator");
  add_tm<TransverseMercator, &Shared::tmx>("tmx", "TransverseMercator(exact=true)");
  add_tm<TransverseMercatorExact, &Shared::tme>("tmexact", "TransverseMercatorExact");
  add_conic<LambertConformalConic, &Shared::lcc1>("lcc1", "LambertConformalConic");
  add_conic<LambertConformalConic, &Shared::lcc2>("lcc2", "LambertConformalConic");
  add_conic<AlbersEqualArea, &Shared::alb1>("albers1", "AlbersEqualArea");
  add_conic<AlbersEqualArea, &Shared::alb2>("albers2", "AlbersEqualArea");
  add_conic<LambertConformalConic, &Shared::lcc3>("lcc-sincos", "LambertConformalConic(sin/cos ctor)");
  add_conic<LambertConformalConic, &Shared::lcc4>("lcc-setscale", "LambertConformalConic(SetScale)");
  add_conic<AlbersEqualArea, &Shared::alb3>("albers-sincos", "AlbersEqualArea(sin/cos ctor)");
  add_conic<AlbersEqualArea, &Shared::alb4>("albers-setscale", "AlbersEqualArea(SetScale)");

  add("polarstereo.forward", "PolarStereographic", 1, true, [](const Shared* S, Rng& r, Res& o, int pv) {
    real x, y, gam, k; bool np = r.coin(); real lat = glat(r), lon = glon(r);
    VAR(psv).Forward(np, lat, lon, x, y, gam, k); o.d(x); o.d(y); o.d(gam); o.d(k);
    VAR(psv).Forward(np, lat, lon, x, y); o.d(x); o.d(y); });
  add("polarstereo.reverse", "PolarStereographic", 1, true, [](const Shared* S, Rng& r, Res& o, int pv) {
    real lat, lon, gam, k; bool np = r.coin(); real a = VAR(psv).EquatorialRadius(), x = a * r.uniform(-3, 3), y = a * r.uniform(-3, 3);
    VAR(psv).Reverse(np, x, y, lat, lon, gam, k); o.d(lat); o.d(lon); o.d(gam); o.d(k);
    VAR(psv).Reverse(np, x, y, lat, lon); o.d(lat); o.d(lon);
    o.d(VAR(psv).EquatorialRadius()); o.d(VAR(psv).Flattening()); o.d(VAR(psv).CentralScale()); });

  add("geocentric.forward", "Geocentric", 1, true, [](const Shared* S, Rng& r, Res& o, int pv) {
    real X, Y, Z; std::vector<real> M(9); real lat = glat(r), lon = glon(r), h = gh(r);
    S->gc().Forward(lat, lon, h, X, Y, Z); o.d(X); o.d(Y); o.d(Z);
    S->gc().Forward(lat, lon, h, X, Y, Z, M); o.d(X); o.d(Y); o.d(Z); for (real m : M) o.d(m); });
  add("geocentric.reverse", "Geocentric", 2, true, [](const Shared* S, Rng& r, Res& o, int pv) {
    real lat, lon, h; std::vector<real> M(9); real a = S->P.a; double u = r.u();
    real X = a * r.uniform(-2, 2), Y = a * r.uniform(-2, 2), Z = a * r.uniform(-2, 2);
    if (u < 0.1) { X = 0; Y = 0; } else if (u < 0.2) { X *= 1e-9; Y *= 1e-9; Z *= 1e-9; } else if (u < 0.25) { X = Y = Z = 0; }
    S->gc().Reverse(X, Y, Z, lat, lon, h); o.d(lat); o.d(lon); o.d(h);
    S->gc().Reverse(X, Y, Z, lat, lon, h, M); o.d(lat); o.d(lon); o.d(h); for (real m : M) o.d(m);
    o.d(S->gc().EquatorialRadius()); o.d(S->gc().Flattening()); o.b(S->gc().Init()); });
  add("localcartesian.forward", "LocalCartesian", 1, true, [](const Shared* S, Rng& r, Res& o, int pv) {
    real x, y, z; std::vector<real> M(9); real lat = glat(r), lon = glon(r), h = gh(r);
    VAR(lcv).Forward(lat, lon, h, x, y, z); o.d(x); o.d(y); o.d(z);
    VAR(lcv).Forward(lat, lon, h, x, y, z, M); o.d(x); o.d(y); o.d(z); for (real m : M) o.d(m); });
  add("localcartesian.reverse", "LocalCartesian", 1, true, [](const Shared* S, Rng& r, Res& o, int pv) {
    real lat, lon, h; std::vector<real> M(9); real a = S->P.a;
    real x = a * r.uniform(-1, 1), y = a * r.uniform(-1, 1), z = a * r.uniform(-1, 0.5);
    VAR(lcv).Reverse(x, y, z, lat, lon, h); o.d(lat); o.d(lon); o.d(h);
    VAR(lcv).Reverse(x, y, z, lat, lon, h, M); o.d(lat); o.d(lon); o.d(h); for (real m : M) o.d(m);
    o.d(VAR(lcv).LatitudeOrigin()); o.d(VAR(lcv).LongitudeOrigin()); o.d(VAR(lcv).HeightOrigin()); o.d(VAR(lcv).EquatorialRadius()); o.d(VAR(lcv).Flattening()); });

  add("ellipsoid.lat.forward", "Ellipsoid", 1, true, [](const Shared* S, Rng& r, Res& o, int pv) {
    const Ellipsoid& e = S->ell(); real phi = glat(r);
    o.d(e.ParametricLatitude(phi)); o.d(e.GeocentricLatitude(phi)); o.d(e.RectifyingLatitude(phi)); o.d(e.AuthalicLatitude(phi));
    o.d(e.ConformalLatitude(phi)); o.d(e.IsometricLatitude(phi)); });
  add("ellipsoid.lat.inverse", "Ellipsoid", 1, true, [](const Shared* S, Rng& r, Res& o, int pv) {
    const Ellipsoid& e = S->ell(); real phi = glat(r);
    o.d(e.InverseParametricLatitude(phi)); o.d(e.InverseGeocentricLatitude(phi)); o.d(e.InverseRectifyingLatitude(phi));
    o.d(e.InverseAuthalicLatitude(phi)); o.d(e.InverseConformalLatitude(phi)); o.d(e.InverseIsometricLatitude(r.uniform(-400, 400))); });
  add("ellipsoid.measures", "Ellipsoid", 1, true, [](const Shared* S, Rng& r, Res& o, int pv) {
    const Ellipsoid& e = S->ell(); real phi = glat(r);
    o.d(e.QuarterMeridian()); o.d(e.Area()); o.d(e.Volume()); o.d(e.EquatorialRadius()); o.d(e.PolarRadius()); o.d(e.Flattening());
    o.d(e.SecondFlattening()); o.d(e.ThirdFlattening()); o.d(e.EccentricitySq()); o.d(e.SecondEccentricitySq()); o.d(e.ThirdEccentricitySq());
    o.d(e.CircleRadius(phi)); o.d(e.CircleHeight(phi)); o.d(e.MeridianDistance(phi)); o.d(e.MeridionalCurvatureRadius(phi));
    o.d(e.TransverseCurvatureRadius(phi)); o.d(e.NormalCurvatureRadius(phi, gazi(r))); });

  // AuxLatitude: all 36 conversions, series and exact; one registry entry per (in,out,exact)
  for (int ex = 0; ex < 2; ++ex)
    for (int in = 0; in < AuxLatitude::AUXNUMBER; ++in)
      for (int out = 0; out < AuxLatitude::AUXNUMBER; ++out) {
        std::string nm = std::string("aux.convert.") + (ex ? "exact" : "series") + "/" + std::to_string(in) + ">" + std::to_string(out);
        add(nm, ex ? "AuxLatitude(exact)" : "AuxLatitude(series)", 0.25, true, [](const Shared* S, Rng& r, Res& o, int pv) {
          int q = pv % 1000, ex = q / 100, in = (q / 10) % 10, out = q % 10;
          AuxAngle z = gaux(r); AuxAngle e = VAR(auxv).Convert(in, out, z, ex != 0); o.d(e.y()); o.d(e.x());
          o.d(VAR(auxv).Convert(in, out, glat(r), ex != 0)); }, ex * 100 + in * 10 + out);
      }
  for (int in = 0; in < AuxLatitude::AUXNUMBER; ++in)
    for (int out = 0; out < AuxLatitude::AUXNUMBER; ++out) {
      std::string nm = "daux.dconvert/" + std::to_string(in) + ">" + std::to_string(out);
      add(nm, "DAuxLatitude", 0.25, true, [](const Shared* S, Rng& r, Res& o, int pv) {
        int q = pv % 1000, in = q / 10, out = q % 10; AuxAngle z1 = gaux(r);
        AuxAngle z2 = r.coin(0.3) ? AuxAngle::degrees(z1.degrees() + r.sign() * r.logu(1e-14, 1e-3)) : gaux(r);
        o.d(S->daux().DConvert(in, out, z1, z2)); }, in * 10 + out);
    }
  add("aux.to-from-auxiliary", "AuxLatitude(exact)", 1, true, [](const Shared* S, Rng& r, Res& o, int pv) {
    int k = r.range(0, AuxLatitude::AUXNUMBER - 1); real diff = -1; int niter = -1; AuxAngle phi = gaux(r);
    AuxAngle e = VAR(auxv).ToAuxiliary(k, phi, &diff); o.d(e.y()); o.d(e.x()); o.d(diff);
    AuxAngle b = VAR(auxv).FromAuxiliary(k, e, &niter); o.d(b.y()); o.d(b.x()); o.i(niter); });
  add("aux.radii", "AuxLatitude(series)", 0.5, true, [](const Shared* S, Rng& r, Res& o, int pv) {
    bool ex = r.coin(); o.d(VAR(auxv).RectifyingRadius(ex)); o.d(VAR(auxv).AuthalicRadiusSquared(ex));
    o.d(VAR(auxv).EquatorialRadius()); o.d(VAR(auxv).PolarSemiAxis()); o.d(VAR(auxv).Flattening()); });
  add("aux.clenshaw.static", "AuxLatitude(series)", 0.5, false, [](const Shared*, Rng& r, Res& o, int) {
    real c[6]; for (real& x : c) x = r.uniform(-1, 1) * 1e-3; real z = r.uniform(-1.6, 1.6);
    o.d(AuxLatitude::Clenshaw(true, std::sin(z), std::cos(z), c, 6)); o.d(AuxLatitude::Clenshaw(false, std::sin(z), std::cos(z), c, 6)); });
  add("daux.exact-differences", "DAuxLatitude", 1, true, [](const Shared* S, Rng& r, Res& o, int pv) {
    AuxAngle p1 = gaux(r); AuxAngle p2 = r.coin(0.3) ? AuxAngle::degrees(p1.degrees() + r.sign() * r.logu(1e-14, 1e-3)) : gaux(r);
    o.d(S->daux().DParametric(p1, p2)); o.d(S->daux().DRectifying(p1, p2)); o.d(S->daux().DIsometric(p1, p2)); });
  add("daux.statics", "DAuxLatitude", 0.5, false, [](const Shared*, Rng& r, Res& o, int) {
    real c[6]; for (real& x : c) x = r.uniform(-1, 1) * 1e-3; real z1 = r.uniform(-1.6, 1.6), z2 = z1 + r.sign() * r.logu(1e-12, 1);
    o.d(DAuxLatitude::DClenshaw(true, z2 - z1, std::sin(z1), std::cos(z1), std::sin(z2), std::cos(z2), c, 6));
    o.d(DAuxLatitude::DClenshaw(false, 1, std::sin(z1), std::cos(z1), std::sin(z2), std::cos(z2), c, 6));
    o.d(DAuxLatitude::Dlam(std::tan(z1), std::tan(z2))); o.d(DAuxLatitude::Dp0Dpsi(std::tan(z1), std::tan(z2))); });

  add("elliptic.incomplete.phi", "EllipticFunction", 1, true, [](const Shared* S, Rng& r, Res& o, int pv) {
    const EllipticFunction& e = VAR(efv); real phi = r.coin(0.1) ? pk(r, {0.0, 1.5707963267948966, -1.5707963267948966, 3.141592653589793}) : r.uniform(-10, 10);
    o.d(e.F(phi)); o.d(e.E(phi)); o.d(e.Pi(phi)); o.d(e.D(phi)); o.d(e.G(phi)); o.d(e.H(phi)); o.d(e.Ed(phi * 57.3)); o.d(e.Einv(phi)); });
  add("elliptic.incomplete.sncndn", "EllipticFunction", 1, true, [](const Shared* S, Rng& r, Res& o, int pv) {
    const EllipticFunction& e = VAR(efv); real phi = r.uniform(-1.57, 1.57), sn = std::sin(phi), cn = std::cos(phi), dn = e.Delta(sn, cn);
    o.d(e.F(sn, cn, dn)); o.d(e.E(sn, cn, dn)); o.d(e.Pi(sn, cn, dn)); o.d(e.D(sn, cn, dn)); o.d(e.G(sn, cn, dn)); o.d(e.H(sn, cn, dn));
    o.d(e.deltaF(sn, cn, dn)); o.d(e.deltaE(sn, cn, dn)); o.d(e.deltaPi(sn, cn, dn)); o.d(e.deltaD(sn, cn, dn)); o.d(e.deltaG(sn, cn, dn));
    o.d(e.deltaH(sn, cn, dn)); o.d(e.deltaEinv(sn, cn)); });
  add("elliptic.jacobi", "EllipticFunction", 1, true, [](const Shared* S, Rng& r, Res& o, int pv) {
    const EllipticFunction& e = VAR(efv); real x = r.uniform(-6, 6), sn, cn, dn;
    e.sncndn(x, sn, cn, dn); o.d(sn); o.d(cn); o.d(dn); o.d(e.am(x)); o.d(e.am(x, sn, cn, dn)); o.d(sn); o.d(cn); o.d(dn);
    o.d(e.k2()); o.d(e.kp2()); o.d(e.alpha2()); o.d(e.alphap2()); o.d(e.K()); o.d(e.E()); o.d(e.D()); o.d(e.KE()); o.d(e.Pi()); o.d(e.G()); o.d(e.H()); });
  add("elliptic.carlson.static", "EllipticFunction", 1, false, [](const Shared*, Rng& r, Res& o, int) {
    real x = r.logu(1e-6, 1e3), y = r.logu(1e-6, 1e3), z = r.logu(1e-6, 1e3), p = r.logu(1e-6, 1e3);
    o.d(EllipticFunction::RF(x, y, z)); o.d(EllipticFunction::RF(x, y)); o.d(EllipticFunction::RC(x, y)); o.d(EllipticFunction::RG(x, y, z));
    o.d(EllipticFunction::RG(x, y)); o.d(EllipticFunction::RJ(x, y, z, p)); o.d(EllipticFunction::RD(x, y, z)); });

  add("normalgravity.surface", "NormalGravity", 1, true, [](const Shared* S, Rng& r, Res& o, int pv) {
    const NormalGravity& n = VAR(ngv); real gy, gz; o.d(n.SurfaceGravity(glat(r))); o.d(n.Gravity(glat(r), gh(r), gy, gz)); o.d(gy); o.d(gz); });
  add("normalgravity.potentials", "NormalGravity", 1, true, [](const Shared* S, Rng& r, Res& o, int pv) {
    const NormalGravity& n = VAR(ngv); real a = S->P.a, X = a * r.uniform(-2, 2), Y = a * r.uniform(-2, 2), Z = a * r.uniform(-2, 2), gx, gy, gz;
    o.d(n.U(X, Y, Z, gx, gy, gz)); o.d(gx); o.d(gy); o.d(gz); o.d(n.V0(X, Y, Z, gx, gy, gz)); o.d(gx); o.d(gy); o.d(gz);
    o.d(n.Phi(X, Y, gx, gy)); o.d(gx); o.d(gy); });
  add("normalgravity.constants", "NormalGravity", 0.5, true, [](const Shared* S, Rng& r, Res& o, int pv) {
    const NormalGravity& n = VAR(ngv); o.d(n.DynamicalFormFactor(2 * r.range(1, 6))); o.d(n.DynamicalFormFactor()); o.d(n.EquatorialRadius());
    o.d(n.MassConstant()); o.d(n.AngularVelocity()); o.d(n.Flattening()); o.d(n.EquatorialGravity()); o.d(n.PolarGravity());
    o.d(n.GravityFlattening()); o.d(n.SurfacePotential()); o.b(n.Init()); o.d(n.Earth().EquatorialRadius()); });
  // ---- the same operations on objects built through the alternative constructors / factories
  add_variant("aux.convert.series/", "auxaxes.convert.series/", "AuxLatitude::axes(series)", 1);
  add_variant("aux.convert.exact/", "auxaxes.convert.exact/", "AuxLatitude::axes(exact)", 1);
  add_variant("aux.to-from-auxiliary", "auxaxes.to-from-auxiliary", "AuxLatitude::axes(exact)", 1);
  add_variant("aux.radii", "auxaxes.radii", "AuxLatitude::axes(series)", 1);
  add_variant("polarstereo.", "polarstereo-setscale.", "PolarStereographic(SetScale)", 1);
  add_variant("localcartesian.", "localcartesian-reset.", "LocalCartesian(default+Reset)", 1);
  add_variant("elliptic.incomplete.", "elliptic4.incomplete.", "EllipticFunction(4-arg ctor)", 1);
  add_variant("elliptic.jacobi", "elliptic4.jacobi", "EllipticFunction(4-arg ctor)", 1);
  add_variant("normalgravity.surface", "normalgravityJ2.surface", "NormalGravity(J2 ctor)", 1);
  add_variant("normalgravity.potentials", "normalgravityJ2.potentials", "NormalGravity(J2 ctor)", 1);
  add_variant("normalgravity.constants", "normalgravityJ2.constants", "NormalGravity(J2 ctor)", 1);
  add("normalgravity.statics", "NormalGravity", 0.5, false, [](const Shared*, Rng& r, Res& o, int) {
    real f = r.uniform(-0.05, 0.05), a = 6378137, GM = 3.986004418e14, om = 7.292115e-5;
    real J2 = NormalGravity::FlatteningToJ2(a, GM, om, f); o.d(J2); o.d(NormalGravity::J2ToFlattening(a, GM, om, J2)); });
}

}  // namespace c14
