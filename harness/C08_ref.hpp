// C08 — reference side of the polygon monitors: back-end environment, type-erased polygon objects,
// reference edges (geodesic: oracle/ref_polygon.hpp on oracle/ref_geod.hpp; rhumb: oracle/ref_rhumb.hpp) and the
// reference closed-curve accumulator that plays the role of "the polygon with those vertices".
#pragma once
#include <GeographicLib/PolygonArea.hpp>
#include <stdexcept>
#include "harness/geod_common.hpp"
#include "oracle/ref_exact.hpp"
#include "oracle/ref_inverse.hpp"
#include "oracle/ref_polygon.hpp"
#include "oracle/ref_rhumb.hpp"

namespace c08 {
using namespace GeographicLib;
typedef long double LD;
using vh::Ctx; using vh::J;

enum BE { B_SERIES = 0, B_EXACT, B_DELEG, B_RH_SERIES, B_RH_EXACT, B_COUNT };
static const char* const BE_NAME[] = {"geod-series", "geod-exact-class", "geod-exact-delegating", "rhumb-series", "rhumb-exact"};
inline bool is_rhumb(BE b) { return b == B_RH_SERIES || b == B_RH_EXACT; }

// ---------------------------------------------------------------- type-erased polygon object
struct IPoly {
  virtual ~IPoly() {}
  virtual void Clear() = 0;
  virtual void AddPoint(double lat, double lon) = 0;
  virtual void AddEdge(double azi, double s) = 0;
  virtual unsigned Compute(bool r, bool s, double& per, double& area) const = 0;
  virtual unsigned TestPoint(double lat, double lon, bool r, bool s, double& per, double& area) const = 0;
  virtual unsigned TestEdge(double azi, double sd, bool r, bool s, double& per, double& area) const = 0;
  virtual void CurrentPoint(double& lat, double& lon) const = 0;
  virtual unsigned NumberPoints() const = 0;
  virtual bool Polyline() const = 0;
  virtual IPoly* clone() const = 0;
};
template <class P> struct PolyW : IPoly {
  P p;
  template <class G> PolyW(const G& g, bool polyline) : p(g, polyline) {}
  PolyW(const PolyW& o) : p(o.p) {}
  void Clear() override { p.Clear(); }
  void AddPoint(double lat, double lon) override { p.AddPoint(lat, lon); }
  void AddEdge(double azi, double s) override { p.AddEdge(azi, s); }
  unsigned Compute(bool r, bool s, double& per, double& area) const override { return p.Compute(r, s, per, area); }
  unsigned TestPoint(double lat, double lon, bool r, bool s, double& per, double& area) const override { return p.TestPoint(lat, lon, r, s, per, area); }
  unsigned TestEdge(double azi, double sd, bool r, bool s, double& per, double& area) const override { return p.TestEdge(azi, sd, r, s, per, area); }
  void CurrentPoint(double& lat, double& lon) const override { p.CurrentPoint(lat, lon); }
  unsigned NumberPoints() const override { return p.NumberPoints(); }
  bool Polyline() const override { return p.Polyline(); }
  IPoly* clone() const override { return new PolyW(*this); }
};

// ---------------------------------------------------------------- environment = (back end, ellipsoid)
struct Env {
  BE be; double a, f, b; std::string bucket;
  struct Solv { std::shared_ptr<Geodesic> series, delegating; std::shared_ptr<GeodesicExact> exact; double tol_series = 0, tol_exact = 0; };
  std::shared_ptr<Solv> S;                        // geodesic solvers owned by the environment (exact always present: generator helper / Newton seed)
  std::shared_ptr<Rhumb> rh;                      // rhumb back end
  std::shared_ptr<ref::RhumbRef<LD>> RR;
  ref::Ell<LD> E; ref::Authalic<LD> Au;
  LD area0, half_circ, cauth, inj;                // REF ellipsoid area, pi*min-ish scale for length scaling, authalic radius
  double area0_lib;
  double tol_pos;                                 // documented position accuracy of the back end on this ellipsoid (metres), before K
  double K;                                       // safety factor
  Env(BE be_, double a_, double f_) : be(be_), a(a_), f(f_), b(a_ * (1 - f_)), E(a_, f_), Au(E) {}
  IPoly* make(bool polyline) const {
    switch (be) {
    case B_SERIES: return new PolyW<PolygonArea>(*S->series, polyline);
    case B_EXACT: return new PolyW<PolygonAreaExact>(*S->exact, polyline);
    case B_DELEG: return new PolyW<PolygonArea>(*S->delegating, polyline);
    default: return new PolyW<PolygonAreaRhumb>(*rh, polyline);
    }
  }
};

// documented tolerance models.  Geodesic back ends: geod_common (Geodesic.hpp / GeodesicExact.hpp tables), K as in C01.
// Rhumb: "accurate to round-off" for the exact flavour and for |f| <= 0.01 for the series flavour; the figure used is the
// same 15 nm x a/a_WGS84 (the PolygonArea documentation gives no separate rhumb figure), see checks/C08.py.
inline std::shared_ptr<Env> make_env(BE be, double a, double f) {
  static std::map<std::tuple<int, double, double>, std::shared_ptr<Env>> cache;
  auto key = std::make_tuple((int)be, a, f);
  auto it = cache.find(key);
  if (it != cache.end()) return it->second;
  if (cache.size() > 48) cache.clear();
  auto e = std::make_shared<Env>(be, a, f);
  e->S = std::make_shared<Env::Solv>();
  e->S->exact = std::make_shared<GeodesicExact>(a, f);
  if (be == B_SERIES) e->S->series = std::make_shared<Geodesic>(a, f);
  if (be == B_DELEG) e->S->delegating = std::make_shared<Geodesic>(a, f, true);
  e->S->tol_series = gh::doc_series(f) * a / gh::WGS84_A;
  e->S->tol_exact = gh::doc_exact((a * (1 - f)) / a) * gh::quarter_meridian(a, f) / 1e7;
  double boa = 1 - f;
  if (is_rhumb(be)) {
    e->rh = std::make_shared<Rhumb>(a, f, be == B_RH_EXACT);
    e->RR = std::make_shared<ref::RhumbRef<LD>>((LD)a, (LD)f);
    e->tol_pos = 15e-9 * std::max(a, e->b) / gh::WGS84_A; e->K = 4;
    e->area0_lib = e->rh->EllipsoidArea();
  } else if (be == B_SERIES) {
    e->tol_pos = e->S->tol_series; e->K = 2; e->area0_lib = e->S->series->EllipsoidArea();
  } else {
    e->tol_pos = e->S->tol_exact; e->K = (boa < 1.0 / 16 || boa > 16) ? 8 : 4;
    e->area0_lib = be == B_EXACT ? e->S->exact->EllipsoidArea() : e->S->delegating->EllipsoidArea();
  }
  e->area0 = e->E.area(); e->cauth = sqrtl(e->E.c2); e->inj = ref::injectivity_radius(e->E);
  e->half_circ = ref::pi<LD>() * std::min((LD)a, (LD)e->b);
  double af = std::fabs(f);
  e->bucket = f == 0 ? "sphere" : af <= 0.0034 ? (f > 0 ? "wgs84-like" : "wgs84-like-prolate") : af <= 0.02 ? (f > 0 ? "f<=0.02" : "f>=-0.02")
    : af <= 0.2 ? (f > 0 ? "f<=0.2" : "f>=-0.2") : f > 0 ? "very-oblate" : "very-prolate";
  cache[key] = e;
  return e;
}

// ---------------------------------------------------------------- reference edges
struct RV { double lat, lon; };

// lon2 - lon1 reduced to [-180, 180]; tie: the exact difference is an odd multiple of 180
inline LD lon_diff(double lon1, double lon2, bool& tie) {
  LD r1 = std::remainder(lon1, 360.0), r2 = std::remainder(lon2, 360.0);     // exact
  LD sm = r2 - r1, bv = sm - r2, er = (r2 - (sm - bv)) + (-r1 - bv);         // two-sum: sm + er = r2 - r1 exactly
  LD d = ref::remainder(sm, (LD)360);
  tie = fabsl(d) == 180 && er == 0;
  if (fabsl(d) == 180 && er != 0) d = er > 0 ? -180 + er : 180 + er;          // just past the antimeridian
  return d;
}

enum EdgeStatus { E_OK = 0, E_AMBIG, E_FAIL };
struct EdgeOut {
  EdgeStatus st = E_FAIL; std::string why;
  LD I = 0, dlam = 0, len = 0;       // including the start / end jogs that close the curve onto the stored vertices
  LD lenscale = 1;                   // max(1, length / half circuit)
  LD cond = 1;                       // conditioning of the area of an inverse edge: an end-point error d sweeps d R tan(sigma12/2)
  LD extra_tol = 0;                  // additional absolute position tolerance of this edge (metres, before K): rhumb round-off term
  bool certified = false, seeded = false, pole = false, scanned = false, tie = false, rheq = false, rhtiny = false, preq = false;   // preq: signature of the GeodesicExact near-equatorial inverse defect on strongly prolate ellipsoids   // tie: the longitudes differ by exactly 180 deg
  LD azi1 = 0, a12 = 0;              // a12: arc on the auxiliary sphere (deg; geodesic edges between vertices only)
};

struct RefStats { long newton = 0, certified = 0, seeded = 0, ambig = 0, fail = 0, scans = 0, scan_shorter = 0, cand_shorter_than_lib = 0; };

// shortest geodesic between two stored vertices (AddPoint edge / closing edge), with the jogs at pole vertices
inline EdgeOut geod_edge_between(const Env& env, Ctx& c, const RV& A, const RV& B, bool want_form, double scan_prob) {
  EdgeOut o; bool tie;
  const ref::Ell<LD>& E = env.E; const LD D = ref::deg<LD>();
  LD lon12 = lon_diff(A.lon, B.lon, tie); o.tie = tie;
  bool pA = std::fabs(A.lat) == 90, pB = std::fabs(B.lat) == 90;
  if (!(std::fabs(A.lat) <= 90 && std::fabs(B.lat) <= 90 && std::isfinite(A.lon) && std::isfinite(B.lon))) { o.st = E_FAIL; o.why = "non-finite vertex"; return o; }
  if (pA || pB) {
    o.pole = true;
    if (pA && pB && A.lat != B.lat) { o.st = E_AMBIG; o.why = "pole-to-opposite-pole"; return o; }
    ref::EdgeRef<LD> e;
    if (!ref::geod_edge_special<LD>(E, env.Au, A.lat, A.lon, B.lat, B.lon, e)) { o.st = E_FAIL; o.why = "special"; return o; }
    o.len = e.s12; o.I = 0; o.dlam = 0; o.certified = e.certified; o.a12 = e.a12;
    // jogs: the reference edge runs along the meridian of the non-polar end (or has zero length); pole vertices carry a
    // conventional longitude -> parallel jog at the pole with sin(xi) = +-1
    if (pA && pB) { LD sx = A.lat > 0 ? 1 : -1, d = lon12 * D; o.I += -sx * d; o.dlam += d; }
    else if (pB) { LD sx = B.lat > 0 ? 1 : -1, d = lon12 * D; o.I += -sx * d; o.dlam += d; }        // edge ends at (pole, lonA); jog to lonB
    else { LD sx = A.lat > 0 ? 1 : -1, d = lon12 * D; o.I += -sx * d; o.dlam += d; }                  // jog from lonA to lonB at the pole, then the meridian lonB
    o.lenscale = std::max<LD>(1, o.len / env.half_circ); o.st = E_OK; return o;
  }
  if (A.lat == B.lat && lon12 == 0) { o.st = E_OK; o.certified = true; return o; }
  // regimes of two known GeodesicExact inverse defects (C02): strongly prolate (f < -0.2), both latitudes within 1e-3 deg of the equator and the
  // longitudes more than 120 deg apart (errors from 0.1 mm at |lat| = 1e-4 deg to thousands of km at 1e-17 deg, where it reaches down to
  // 150 deg of longitude difference; none seen at <= 120 deg or |lat| >= 1e-3 deg); strongly oblate (f > 0.5), both latitudes within 1e-8 deg of the equator.  Never when both latitudes are exactly 0.
  { double mx = std::max(std::fabs(A.lat), std::fabs(B.lat)); bool both0 = A.lat == 0 && B.lat == 0;
    o.preq = !both0 && ((env.f < -0.2 && mx < 1e-3 && fabsl(lon12) > 120) || (env.f > 0.5 && mx < 1e-8)); }
  // seeds: library GeodesicExact (hint only; every candidate is verified by the reference direct solution)
  double s12, azi1, azi2, m12, M12, M21, S12;
  double a12 = env.S->exact->GenInverse(A.lat, A.lon, B.lat, B.lon, GeodesicExact::DISTANCE | GeodesicExact::AZIMUTH, s12, azi1, azi2, m12, M12, M21, S12);
  LD sa[3] = {(LD)azi1, -(LD)azi1, 180 - (LD)azi1}, sb[3] = {(LD)a12, (LD)a12, (LD)a12};
  ++c.events["ref: newton inverse edges"];
  ref::EdgeRef<LD> best = ref::ref_inverse_newton<LD>(E, env.Au, A.lat, A.lon, B.lat, lon12, sa, sb, 0, false);
  if (best.ok && best.certified) { ++c.events["ref: edges certified shortest (length < injectivity radius)"]; o.certified = true; }
  else {
    // not certifiable by length: collect candidates from several seeds, take the shortest, detect near-ties
    std::vector<ref::EdgeRef<LD>> cand; if (best.ok) cand.push_back(best);
    for (int k = 0; k < 3; ++k) {
      if (!std::isfinite((double)sa[k]) || !std::isfinite((double)sb[k])) continue;
      // run Newton from this seed only (spherical guess is tried first inside; skip by passing it as the only seed and comparing)
      ref::EdgeRef<LD> r = ref::ref_inverse_newton<LD>(E, env.Au, A.lat, A.lon, B.lat, lon12, sa + k, sb + k, 1, false, nullptr, false);
      // the routine returns the shortest of {spherical guess, seed}; to keep the seed's own solution as a candidate as well:
      if (r.ok) cand.push_back(r);
    }
    if (cand.empty()) { o.st = E_FAIL; o.why = "newton did not converge from any seed"; ++c.events["ref: newton failed"]; return o; }
    size_t ib = 0; for (size_t i = 1; i < cand.size(); ++i) if (cand[i].s12 < cand[ib].s12) ib = i;
    // mirror images of the best candidate (about the meridian and about the prime vertical): symmetric pairs of shortest geodesics
    { LD ma[2] = {-cand[ib].azi1, 180 - cand[ib].azi1}, mb[2] = {cand[ib].a12, cand[ib].a12};
      for (int k = 0; k < 2; ++k) { ref::EdgeRef<LD> r = ref::ref_inverse_newton<LD>(E, env.Au, A.lat, A.lon, B.lat, lon12, ma + k, mb + k, 1, false, nullptr, false); if (r.ok) cand.push_back(r); }
      for (size_t i = 0; i < cand.size(); ++i) if (cand[i].s12 < cand[ib].s12) ib = i; }
    best = cand[ib];
    LD margin = 1000 * (LD)env.tol_pos;
    for (size_t i = 0; i < cand.size(); ++i) {
      LD dazi = fabsl(ref::remainder(cand[i].azi1 - best.azi1, (LD)360));
      if (i != ib && dazi > (LD)1e-12 && cand[i].s12 - best.s12 <= margin) { o.st = E_AMBIG; o.why = "two joining geodesics of (nearly) equal length"; ++c.events["ref: edges excluded as nearly antipodal / not unique"]; return o; }
    }
    if (best.s12 < (LD)s12 - margin) ++c.events["ref: reference found a joining geodesic shorter than the library's (C02 territory)"];
    o.seeded = true; ++c.events["ref: edges longer than the injectivity radius (shortest among verified candidates)"];
    // the global scan is run on a sample, and always when the library claims a shorter joining geodesic than every verified candidate
    bool lib_shorter = std::isfinite(s12) && (LD)s12 < best.s12 - margin;
    // (sampling by a hash of the end points, not by the case's random stream: the generated workload must not depend on oracle decisions)
    uint64_t hs = vh::hmix(vh::hmix(vh::hmix(vh::hmix(0x5ca9, A.lat), A.lon), B.lat), B.lon);
    if (lib_shorter || (scan_prob > 0 && (double)(hs % 1000003) < scan_prob * 1000003)) {
      // global certificate on a sample: scan the azimuth circle for any shorter joining geodesic
      ref::InvScan<LD> R = ref::ref_inverse_scan<LD>(env.a, env.f, A.lat, B.lat, (__float128)lon12, (double)(best.s12 * (1 + (LD)1e-9)), 720);
      ++c.events["ref: global-scan certificates run"]; o.scanned = true;
      if (R.nroots && R.smin < best.s12 - margin) { ++c.events["ref: WEAKNESS global scan found a shorter geodesic than all Newton candidates"]; o.st = E_AMBIG; o.why = "scan found shorter"; return o; }
      if (R.nroots >= 2 && R.roots[1].s12 - R.roots[0].s12 <= margin && (R.roots[1].west != R.roots[0].west || fabsl(R.roots[1].alp1 - R.roots[0].alp1) > (LD)1e-12)) { o.st = E_AMBIG; o.why = "scan: two shortest"; ++c.events["ref: edges excluded as nearly antipodal / not unique"]; return o; }
    }
  }
  o.len = best.s12; o.azi1 = best.azi1; o.a12 = best.a12;
  if (want_form) {
    ref::GeodLine<LD> L(E, (LD)A.lat, best.azi1);
    LD I, dl; ref::geod_edge_form<LD>(L, env.Au, best.a12 * D, I, dl);
    o.I = I; o.dlam = dl;
    // closing jog from the reference end point to the stored vertex (sub-nanometre)
    LD lon2ref = (LD)A.lon + dl / D, sx = env.Au.sinxi_deg((LD)B.lat), d = ref::remainder((LD)B.lon - lon2ref, (LD)360) * D;
    o.I += -sx * d; o.dlam += d;
  }
  o.lenscale = std::max<LD>(1, o.len / env.half_circ);
  // conditioning of the edge's area: an end-point error d turns the edge by d/m12 and sweeps (d/m12) * int m ds ~ d R (1 - cos sigma12)/|m12|
  // (= d R tan(sigma12/2) on a sphere); m12 is the reference reduced length, so focusing by the ellipsoid is accounted for
  if (o.a12 > 90) { LD Rm = std::max<LD>(env.a, env.b), m = fabsl(best.m12);
    LD cs = Rm * (1 - cosl(o.a12 * D)) / (m > 0 ? m : (LD)1e-300), ct = o.a12 < 180 ? tanl(o.a12 * D / 2) : (LD)1e300;
    o.cond = std::max<LD>(1, std::max(cs, std::min(ct, cs * 4))); }
  o.st = E_OK; return o;
}

// geodesic edge given as (azimuth, distance) from stored vertex A; Bstored = the vertex the library stored (its own direct solution).
// pos_err (metres) = distance between the reference end point and the stored vertex.
inline EdgeOut geod_edge_direct(const Env& env, const RV& A, double azi, double s, const RV* Bstored, bool want_form, LD* pos_err) {
  EdgeOut o; const LD D = ref::deg<LD>();
  ref::EdgeRef<LD> e;
  if (want_form) e = ref::geod_edge_direct<LD>(env.E, env.Au, (LD)A.lat, (LD)A.lon, (LD)azi, std::signbit(azi), false, (LD)s);
  else { ref::GeodLine<LD> L(env.E, (LD)A.lat, (LD)azi, std::signbit(azi)); ref::GeodPos<LD> P = L.at_dist((LD)s);
    e.lat2 = P.lat2; e.lon2 = (LD)A.lon + P.lon12; e.s12 = P.s12; e.dlam = P.lon12 * D; e.ok = true; }
  o.I = e.I; o.dlam = e.dlam; o.len = fabsl((LD)s); o.azi1 = azi;
  if (Bstored) {
    LD X1[3], X2[3]; ref::to_xyz<LD>(env.E, (LD)Bstored->lat, (LD)Bstored->lon, X1); ref::to_xyz<LD>(env.E, e.lat2, e.lon2, X2);
    if (pos_err) *pos_err = ref::dist3(X1, X2);
    if (want_form) { LD sx = env.Au.sinxi_deg((LD)Bstored->lat), d = ref::remainder((LD)Bstored->lon - e.lon2, (LD)360) * D; o.I += -sx * d; o.dlam += d; }
  }
  o.lenscale = std::max<LD>(1, o.len / env.half_circ);
  o.st = E_OK; return o;
}

// rhumb line between stored vertices
inline EdgeOut rhumb_edge_between(const Env& env, Ctx& c, const RV& A, const RV& B) {
  EdgeOut o; const LD D = ref::deg<LD>();
  if (!(std::fabs(A.lat) <= 90 && std::fabs(B.lat) <= 90 && std::isfinite(A.lon) && std::isfinite(B.lon))) { o.st = E_FAIL; o.why = "non-finite vertex"; return o; }
  bool tie; LD lon12 = lon_diff(A.lon, B.lon, tie);
  ref::RhumbInv<LD> r;
  try { r = env.RR->inverse((LD)A.lat, (LD)A.lon, (LD)B.lat, (LD)B.lon); }
  catch (const std::runtime_error& ex) { o.st = E_FAIL; o.why = ex.what(); ++c.events["ref: rhumb reference threw"]; return o; }
  bool pA = std::fabs(A.lat) == 90, pB = std::fabs(B.lat) == 90;
  o.pole = pA || pB; o.tie = tie;
  // regime of a known defect (Rhumb exact=true on a prolate ellipsoid, C09 'DE cancellation'): for latitudes on the same side of the equator
  // the rectifying divided difference loses relative accuracy eps/|beta_min|; the edge is in the regime when that predicted error
  // eps * length / |beta_min| is not negligible (> 1/20) against the tolerance the edge is judged with (always when a latitude is 0)
  auto in_rheq = [&env](double la1, double la2, LD len, LD tol_edge) {
    if (!(env.be == B_RH_EXACT && env.f < 0) || la1 == la2 || la1 * la2 < 0) return false;
    double bmin = std::min(std::fabs(la1), std::fabs(la2)) * (M_PI / 180);
    return bmin == 0 || (double)len * std::numeric_limits<double>::epsilon() / bmin > 0.05 * env.K * (double)tol_edge; };
  if (pA && pB && A.lat != B.lat) { o.st = E_AMBIG; o.why = "pole-to-opposite-pole"; return o; }
  if ((tie || r.tie) && !(pA || pB) ) { o.st = E_AMBIG; o.why = "opposite meridians: east/west rhumb lines equally long"; ++c.events["ref: edges excluded as nearly antipodal / not unique"]; return o; }
  // near-tie: |lon12| within the resolution at which AngDiff could legitimately round to +-180
  (void)lon12;
  o.len = r.s12; o.I = -r.S12 / env.E.c2; o.dlam = r.lon12 * D; o.certified = true;
  o.lenscale = std::max<LD>(1, o.len / env.half_circ);
  o.extra_tol = 8 * std::numeric_limits<double>::epsilon() * std::max<LD>(o.len, (LD)env.a * fabsl(o.dlam));
  o.rheq = in_rheq(A.lat, B.lat, o.len, (LD)env.tol_pos * o.lenscale + o.extra_tol);
  o.rhtiny = env.be == B_RH_EXACT && ((A.lat != 0 && std::fabs(A.lat) < 1e-290) || (B.lat != 0 && std::fabs(B.lat) < 1e-290));
  if (!(std::isfinite((double)o.I) && std::isfinite((double)o.len))) { o.st = E_FAIL; o.why = "rhumb reference non-finite"; return o; }
  o.st = E_OK; return o;
}
inline EdgeOut rhumb_edge_direct(const Env& env, Ctx& c, const RV& A, double azi, double s, const RV* Bstored, LD* pos_err, bool* crossed) {
  EdgeOut o; const LD D = ref::deg<LD>();
  ref::RhumbDir<LD> r;
  try { r = env.RR->direct((LD)A.lat, (LD)A.lon, (LD)azi, (LD)s); }
  catch (const std::runtime_error& ex) { o.st = E_FAIL; o.why = ex.what(); ++c.events["ref: rhumb reference threw"]; return o; }
  // a course that comes within 1e-7 deg (rectifying latitude) of a pole is treated like one that reaches it: the library's own
  // decision |mu2| <= 90 is taken in double and may differ there, and beyond the pole the longitude is NaN by documentation
  bool polar = r.crossed || r.at_pole || (r.from_pole && s != 0) || !(fabsl(r.mu2) <= 90 - (LD)1e-7);
  if (crossed) *crossed = polar;
  if (polar) { o.st = E_AMBIG; o.why = "rhumb course reaches or leaves a pole (longitude indeterminate, documented)"; return o; }
  o.I = -r.S12 / env.E.c2; o.dlam = r.lon12 * D; o.len = fabsl((LD)s);
  o.extra_tol = 8 * std::numeric_limits<double>::epsilon() * std::max<LD>(o.len, (LD)env.a * fabsl(o.dlam));
  o.lenscale = std::max<LD>(1, o.len / env.half_circ);
  o.rhtiny = env.be == B_RH_EXACT && A.lat != 0 && std::fabs(A.lat) < 1e-290;
  { // same regime predicate as for inverse edges, with the reference end latitude (and the stored one): also east-west courses (lat2 == lat1 up to the defect)
    double la2 = (double)r.lat2; LD tol_edge = (LD)env.tol_pos * o.lenscale + o.extra_tol;
    bool same = A.lat * la2 >= 0; double bmin = std::min(std::fabs(A.lat), std::fabs(la2)) * (M_PI / 180);
    o.rheq = env.be == B_RH_EXACT && env.f < 0 && same && s != 0 && (bmin == 0 ? A.lat != 0 || la2 != 0 : (double)o.len * std::numeric_limits<double>::epsilon() / bmin > 0.05 * env.K * (double)tol_edge); }
  if (Bstored) {
    LD X1[3], X2[3]; ref::to_xyz<LD>(env.E, (LD)Bstored->lat, (LD)Bstored->lon, X1); ref::to_xyz<LD>(env.E, r.lat2, r.lon2, X2);
    if (pos_err) *pos_err = ref::dist3(X1, X2);
    LD sx = env.Au.sinxi_deg((LD)Bstored->lat), d = ref::remainder((LD)Bstored->lon - r.lon2, (LD)360) * D; o.I += -sx * d; o.dlam += d;
  }
  o.lenscale = std::max<LD>(1, o.len / env.half_circ);
  o.st = E_OK; return o;
}

// ---------------------------------------------------------------- the polygon so far (sequential model + reference sums)
struct Model {
  struct MOp { bool edge; double x, y; };       // mutating operations since the last Clear (for fresh-object rebuilds)
  std::vector<MOp> ops;
  std::vector<RV> V;                            // stored vertices
  LD I = 0, dlam = 0, len = 0, absI = 0;        // reference sums over the open chain V[0] .. V.back()
  LD tolA = 0, tolP = 0;                        // accumulated tolerances (m^2, m), before K
  LD maxcond = 1;                               // largest conditioning factor of an edge of the chain
  bool judged = true; std::string why;          // false once an edge is ambiguous / the reference failed
  int nseeded = 0, nwrap = 0, npole = 0, nzero = 0, ntie = 0, nrheq = 0, npreq = 0, nrhtiny = 0;     // nrheq: edges with the signature of the Rhumb(exact, prolate) near-equator distance defect
  void clear() { *this = Model(); }
  void add(const Env& env, const EdgeOut& e) {
    if (e.st != E_OK) { if (judged) { judged = false; why = e.why; } return; }
    I += e.I; dlam += e.dlam; len += e.len; absI += fabsl(e.I);
    tolA += ((LD)env.tol_pos * e.lenscale + e.extra_tol) * env.cauth * e.cond; tolP += (LD)env.tol_pos * e.lenscale + e.extra_tol;
    if (e.cond > maxcond) maxcond = e.cond;
    if (e.tie) ++ntie; if (e.rheq) ++nrheq; if (e.rhtiny) ++nrhtiny; if (e.preq) ++npreq; if (e.seeded) ++nseeded; if (e.lenscale > 2) ++nwrap; if (e.pole) ++npole; if (e.len == 0) ++nzero;
  }
};

// counter-clockwise area in [0, area0) of the closed reference curve (chain + closing edge); frac = non-integrality of the winding
inline LD closed_area(const Env& env, LD I, LD dlam, LD* frac) {
  LD W = dlam / (2 * ref::pi<LD>()), Wr = roundl(W);
  if (frac) *frac = fabsl(W - Wr);
  LD A = env.E.c2 * (I + 2 * ref::pi<LD>() * Wr), A0 = env.area0;
  A = fmodl(A, A0); if (A < 0) A += A0;
  return A;
}
// expected value of Compute(reverse, sign) from the ccw area in [0, area0)
inline LD expect_area(const Env& env, LD Accw, bool reverse, bool sign) {
  LD A0 = env.area0, x = reverse ? (Accw == 0 ? 0 : A0 - Accw) : Accw;
  if (sign && x > A0 / 2) x -= A0;
  return x;
}
inline LD circ_dist(LD x, LD y, LD A0) { return fabsl(ref::remainder(x - y, A0)); }

}  // namespace c08
