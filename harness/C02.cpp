// C02 — inverse geodesic problem.  Monitors evaluated next to every Inverse / GenInverse / InverseLine call of the
// series solver, the exact solver and Geodesic(exact=true):
//   (i)   JOIN: the reference geodesic (oracle/ref_geod.hpp) followed from point 1 with the library's azi1 and s12 must
//         arrive at point 2 (chord miss distance), with forward azimuth azi2 (|m12|-weighted, pole-safe) and arc a12;
//   (ii)  SHORTEST: (a) constructed pairs (REF's own geodesic with sigma12 < pi and |lon12| < 180 is the unique shortest
//         path); (b) oracle/ref_inverse.hpp global azimuth scan: no joining geodesic shorter than s12 - tol may exist;
//         (c) short lines: chord <= s12 <= circular-arc bound from the largest principal curvature; (d) m12 >= 0;
//   (iii) RANGE: a12 in [0,180], longitudinal extent of the returned path <= 180, azimuths in [-180,180], s12 >= 0;
//   (iv)  SYMMETRY: swap ends x reflect in equator x reflect in meridian x lon +- 360k map the outputs predictably
//         (documented alternatives accepted where the shortest path is not unique);
//   (v)   series vs exact vs Geodesic(exact=true); InverseLine consistent with Inverse.
#include "harness/geod_common.hpp"
#include "oracle/ref_exact.hpp"
#include "oracle/ref_inverse.hpp"

using namespace GeographicLib;
using vh::Ctx; using vh::J; using vh::Section;
using gh::q128;
typedef long double ld;

// x documented accuracy (same constants as C01)
static const double K_SERIES = 2.0, K_EXACT = 4.0, K_EXACT_EXTREME = 8.0;

struct Pair { gh::EllSpec e; double lat1, lon1, lat2, lon2; std::string sec, regime, cls, kx, ks; };     // kx / ks: known-defect regime of the exact / series solver ("" = none)
struct Inv { double a12, s12, azi1, azi2, m12, M12, M21, S12; };
struct RefKnown { bool have = false; q128 s12, azi1, azi2, m12, M21, lat2, lon12; double d = 0; };     // constructed answer (for the unrounded point 2) and rounding displacement

static q128 lon12_exact(const Pair& p) { return remainderq((q128)p.lon2 - (q128)p.lon1, 360); }
static double tol_of(const gh::Solvers& S, bool series) {
  double boa = 1 - S.f;
  return series ? K_SERIES * S.tol_series : (boa < 1.0 / 16 || boa > 16 ? K_EXACT_EXTREME : K_EXACT) * S.tol_exact;
}
static double angdiff(double x, double y) { return std::remainder(y - x, 360.0); }     // y - x reduced to [-180,180]
// lat1 = -lat2 as the solver sees it (latitudes within ~7e-18 deg of the equator are rounded onto a 2^-57 grid / to 0)
static bool anti_lat_eff(double lat1, double lat2) { return lat1 == -lat2 || std::fabs(lat1 + lat2) <= 1.4e-17; }

// ---------------------------------------------------------------- regime classification (from the inputs' geometry only)
static std::string regime_of(double a, double f, double lat1, double lat2, q128 lon12q) {
  const q128 aL = fabsq(lon12q);
  double lon12 = (double)aL;
  bool pole1 = std::fabs(lat1) == 90, pole2 = std::fabs(lat2) == 90;
  if ((lat1 == lat2 && aL == 0 && !pole1) || (pole1 && lat1 == lat2)) return "coincident";
  if (pole1 || pole2) return "polar";
  double b1 = std::atan((1 - f) * std::tan(lat1 * M_PI / 180)), b2 = std::atan((1 - f) * std::tan(lat2 * M_PI / 180));
  // spherical arc between the reduced positions
  double dl = lon12 * M_PI / 180, sdb = std::sin((b2 - b1) / 2), sdl = std::sin(dl / 2);
  double hav = sdb * sdb + std::cos(b1) * std::cos(b2) * sdl * sdl, sig = 2 * std::asin(std::sqrt(std::min(1.0, hav)));
  // the solver's "really short" threshold is documented in its source as 0.1 sqrt(eps) / sqrt(max(0.001,|f|) min(1,1-f/2) / 2)
  double etol2 = 0.1 * std::sqrt(2.220446049250313e-16) / std::sqrt(std::max(0.001, std::fabs(f)) * std::min(1.0, 1 - f / 2) / 2);
  // the solver treats |lat| < ~3.5e-18 deg as the equator (documented in its source: 'If really close to the equator, treat as on equator')
  const double flush = 3.4e-18;
  const bool eq1 = std::fabs(lat1) < flush, eq2 = std::fabs(lat2) < flush;
  const double lim = (1 - std::max(0.0, f)) * 180;
  if (eq1 && eq2) return aL == 0 ? "coincident" : lon12 <= lim ? "equatorial" : lon12 < lim * (1 + 1e-6) ? "equatorial-beyond-limit" : "near-antipodal";
  // thin nearly-equatorial regimes get their own class
  if (f > 0 && std::fabs(lat1) < 1e-8 && std::fabs(lat2) < 1e-8) return (lon12 > 0.99 * lim && lon12 < std::min(180.0, 1.01 * lim)) ? "equatorial-limit" : sig < etol2 ? "short-line" : "near-equator";
  if (f < 0 && std::fabs(lat1) < 1 && std::fabs(lat2) < 1 && lon12 > 90) return "near-equator-prolate";
  if (aL == 0 || aL == 180) return "meridional";
  if (sig < etol2) return "short-line";
  // astroid neighbourhood of the antipodal point: |lon12 - 180| and |bet1 + bet2| within ~3 x |f| pi cos(bet1)
  double cb = std::max(std::cos(b1), 1e-3), sc = std::max(std::fabs(f), 1e-12) * M_PI * cb;
  if (f != 0 && (M_PI - dl) < 3.5 * sc && std::fabs(b1 + b2) < 3.5 * sc * cb) return "near-antipodal";
  if (sig > M_PI * (1 - 1e-6)) return "near-antipodal";
  (void)a;
  return "general";
}

// ---------------------------------------------------------------- known-defect regimes (DECISIONS.md): decided from the INPUTS only
// (ellipsoid, end points, which solver), checked in this fixed order.  Inside such a regime every monitor failure is reported under the
// single key regime:C02/<family> with the monitor's own key in detail.monitor; outside, the monitor keys apply unchanged.
static std::string known_family(bool series, double f, double lat1, double lat2, q128 lon12q) {
  const q128 aL = fabsq(lon12q);
  const double L = (double)aL, m1 = std::fabs(lat1), m2 = std::fabs(lat2), mx = std::max(m1, m2);
  const double flush = 3.4e-18;
  const bool eq1 = m1 < flush, eq2 = m2 < flush, on_eq = eq1 && eq2;
  const double lim = (1 - std::max(0.0, f)) * 180;
  // D5 (+D8) exact: nearly coincident points.  Separation on the auxiliary sphere sep = |bet1 - bet2| + cos(bet) |lon12| (degrees):
  //   anywhere:                                           sep < 1e-13  (observed: points 1-2 ulp of latitude apart on one meridian, a12 = 1.3e-14 .. 2.9e-14)
  //   both reduced latitudes beyond 80 deg, same side:    sep < 3e-12  (observed a12 up to 1.6e-12, any f)
  //   ... and strongly prolate (f < -2):                  sep < 1e-8   (observed a12 up to 2.1e-9 for f = -97)
  if (!series && lat1 * lat2 > 0) {
    auto beta = [f](double lat) { long double sp, cp; ref::sincosd<long double>((long double)lat, sp, cp); return std::atan2((1 - (long double)f) * sp, cp); };
    long double b1 = beta(lat1), b2 = beta(lat2), d80 = 80 * ref::deg<long double>();
    long double sep = (std::fabs(b1 - b2) + std::min(std::cos(b1), std::cos(b2)) * (long double)L * ref::deg<long double>()) / ref::deg<long double>();
    bool nearpole = std::fabs(b1) > d80 && std::fabs(b2) > d80;
    if (sep < (nearpole ? (f < -2 ? 1e-8L : 3e-12L) : 1e-13L)) return "exact/nearly-coincident-points";
  }
  // D8 both solvers: both points within 1e-3 deg of the same pole on (almost, not exactly) opposite meridians, 0 < 180 - lon12 <= 1e-12 deg:
  // InverseStart's final sanity check overwrites the short-line azimuth with azi1 = +-90 when omg12 rounds above pi
  if (lat1 * lat2 > 0 && m1 > 89.999 && m2 > 89.999 && aL < 180 && 180 - L <= 1e-12) return "short-line-across-pole-lon12-nearly-180";
  // D7 both solvers: prolate, lat2 = -lat1 +- 1..4 ulp (but not exactly -lat1), lon12 = 180 or slightly less (up to 3e-12 deg; up to 3e-6 deg
  // when |n| > 0.1, i.e. f < -0.2): NaN outputs
  if (f < 0 && lat1 != -lat2 && std::fabs(lat1 + lat2) <= 4 * ref::ulp_d(mx) && 180 - L <= (f < -0.2 ? 3e-6 : 3e-12)) return "prolate-lon180-lat2-nearly-minus-lat1";
  // D10 exact: prolate with |n| > 0.1 (f < -0.2), lon12 within one ulp of 180 but not exactly 180 (AngDiff returns +-180 with a non-zero
  // error term): a non-shortest near-meridional geodesic with m12 < 0 is returned for ~10 % of the latitude pairs
  if (!series && f < -0.2 && aL < 180 && 180 - L < 3e-14) return "exact/prolate-lon12-within-1ulp-of-180";
  // D1 exact: strongly prolate (f < -2), opposite meridians exactly, both points in the same hemisphere: over-the-pole meridian with m12 < 0
  if (!series && f < -2 && aL == 180 && lat1 * lat2 > 0) return "exact/very-prolate-lon180-same-hemisphere";
  // D2 exact: prolate with |n| > 0.1 (f < -0.2), both points within 1 deg of the equator (not both on it), lon12 > 90
  // (for latitudes below 1e-12 deg any longitude difference above 1 deg)
  if (!series && f < -0.2 && m1 < 1 && m2 < 1 && !on_eq && (L > 90 || (mx < 1e-12 && L > 1))) return "exact/prolate-near-equatorial";
  // D4 exact: very oblate (f > 0.35), both points ON the equator, lon12 just beyond the end (1-f) 180 of the equatorial regime
  if (!series && f > 0.35 && on_eq && L > lim && L < lim * (1 + 1e-6)) return "exact/very-oblate-equatorial-just-beyond-limit";
  // D6 both solvers (series: f in (0.18, 0.2]): oblate with |n| > 0.1 (f > 0.18), both points within 1e-12 deg of the equator (not both on it), lon12 below the equatorial limit band
  if (f > 0.18 && mx < 1e-12 && !on_eq && L <= 0.99 * lim) return "very-oblate-near-equatorial-below-limit";
  // D3 both solvers: oblate, both points within 1e-8 deg of the equator (not both on it), lon12 within 1 % of (1-f) 180
  if (f > 0 && mx < 1e-8 && !on_eq && L > 0.99 * lim && L < std::min(180.0, 1.01 * lim)) return "oblate-equatorial-limit";
  // D9 both solvers: oblate with |n| > 0.1 (f > 0.18: no astroid start), lat2 = -lat1 to 1e-3 relative, |lat| < 2 deg, lon12 within 0.1 % of the
  // cusp of the astroid 180 (1 - f cos(bet1))
  if (f > 0.18 && mx < 2 && !on_eq && std::fabs(lat1 + lat2) <= 1e-3 * mx + 1e-12) {
    double cusp = 180 * (1 - f * std::cos(std::atan((1 - f) * std::tan(mx * M_PI / 180))));
    if (L > 0.999 * cusp && L < 1.001 * cusp) return "very-oblate-near-cusp";
  }
  return "";
}
static void classify(Pair& p, q128 lon12q) {
  p.regime = regime_of(p.e.a, p.e.f, p.lat1, p.lat2, lon12q);
  p.cls = p.sec + "/" + p.regime + "/" + p.e.bucket;
  p.kx = known_family(false, p.e.f, p.lat1, p.lat2, lon12q);
  p.ks = p.e.series_ok ? known_family(true, p.e.f, p.lat1, p.lat2, lon12q) : "";
}
// observed maxima are recorded for the healthy regimes only (inside a known-defect regime the residuals are meaningless for calibration)
static void obsv(Ctx& c, const Pair& p, char which, const std::string& name, double v, const J& j = J()) {
  bool known = which == 'n' ? false : (which != 's' && !p.kx.empty()) || (which != 'x' && !p.ks.empty());
  if (!known) c.obs(name, v, j);
}
// which: 'x' exact solver's output involved, 's' series, 'b' both
static void report(Ctx& c, const Pair& p, char which, const std::string& key, const J& detail) {
  static const std::string none;
  const std::string& fam = which == 'n' ? none : (which != 's' && !p.kx.empty()) ? p.kx : (which != 'x' && !p.ks.empty()) ? p.ks : none;
  if (fam.empty()) c.viol(key, p.cls, detail);
  else { c.event("monitor failures inside known regime " + fam); c.viol("regime:C02/" + fam, p.cls, J(detail).str("monitor", key)); }
}

// ---------------------------------------------------------------- library calls
template <class G> static Inv call_inv(const G& g, const Pair& p) {
  Inv o; o.a12 = g.Inverse(p.lat1, p.lon1, p.lat2, p.lon2, o.s12, o.azi1, o.azi2, o.m12, o.M12, o.M21, o.S12); return o;
}
static J wit(const Pair& p, const char* solver) {
  return J().f("a", p.e.a).f("f", p.e.f).f("lat1", p.lat1).f("lon1", p.lon1).f("lat2", p.lat2).f("lon2", p.lon2).str("solver", solver);
}
static J wout(J j, const Inv& o) { return j.f("a12", o.a12).f("s12", o.s12).f("azi1", o.azi1).f("azi2", o.azi2).f("m12", o.m12); }

// ---------------------------------------------------------------- (i) JOIN + (iii) RANGE for one solver's answer
template <class T> static void join_resid(const gh::Solvers& S, const Pair& p, const Inv& o, q128 lon12q,
                                          double& epos, double& eazi, double& earc, double& elon, double& refm12) {
  ref::Ell<T> E((T)S.a, (T)S.f);
  ref::GeodLine<T> L(E, (T)p.lat1, (T)o.azi1, o.azi1 == 0 && std::signbit(o.azi1));
  ref::GeodPos<T> P = L.at_dist((T)o.s12);
  T X1[3], X2[3];
  ref::to_xyz<T>(E, (T)p.lat2, (T)lon12q, X1); ref::to_xyz<T>(E, P.lat2, P.lon12, X2);
  epos = (double)ref::dist3(X1, X2);
  T dalp = ref::remainder((T)o.azi2 - P.azi2, (T)360) * ref::deg<T>();
  T dlam = ref::remainder((T)lon12q - P.lon12, (T)360) * ref::deg<T>();
  T sphi = ref::sin(P.lat2 * ref::deg<T>());
  refm12 = (double)P.m12;
  eazi = (double)(ref::fabs(ref::sin(dalp) * ref::cos(dlam) - ref::cos(dalp) * ref::sin(dlam) * sphi) * ref::fabs(P.m12));
  earc = (double)(ref::fabs((T)o.a12 - P.a12) * ref::deg<T>() * E.b * P.w2);
  // longitudinal extent of the returned path beyond half a turn, as a ground distance at point 2
  T ext = ref::fabs(P.lon12) - 180;
  elon = ext > 0 ? (double)(ext * ref::deg<T>() * E.a * P.cbet2) : 0;
}

// ellipsoid shape tag used in violation keys (0.2 = limit of the series solver's documented range)
static std::string shape_of(double f) { return f == 0 ? "sphere" : f > 0.2 ? "very-oblate" : f > 0 ? "oblate" : f < -0.2 ? "very-prolate" : "prolate"; }
// sub-tag of the near-antipodal regime: the returned geodesic leaves and arrives (almost exactly) east-west, i.e. both end
// points are (almost) vertices of the geodesic -- the neighbourhood of the cusp of the astroid on the line lat2 = -lat1
static std::string subregime(const Pair& p, const Inv& o) {
  if (p.regime == "near-antipodal" && std::fabs(std::fabs(o.azi1) - 90) < 1e-6 && std::fabs(std::fabs(o.azi2) - 90) < 1e-3) return p.regime + "/east-west-grazing/" + shape_of(p.e.f);
  return p.regime + "/" + shape_of(p.e.f);
}
// returns 0 = outputs unusable, 1 = judged but the join failed, 2 = the returned geodesic joins the points
static int judge_one(Ctx& c, const gh::Solvers& S, const Pair& p, const char* solver, bool series, const Inv& o, q128 lon12q) {
  const double T = tol_of(S, series);
  std::string sv = solver;
  auto bad = [&](const std::string& what, double err, double tol) {
    report(c, p, series ? 's' : 'x', "oracle:C02/" + sv + "/" + what, wout(wit(p, solver), o).f("err_m", err).f("tol_m", tol).str("regime", p.regime)); };
  if (!(std::isfinite(o.a12) && std::isfinite(o.s12) && std::isfinite(o.azi1) && std::isfinite(o.azi2) && std::isfinite(o.m12) &&
        std::isfinite(o.M12) && std::isfinite(o.M21) && std::isfinite(o.S12))) { bad("non-finite-output/" + p.regime + "/" + shape_of(p.e.f), HUGE_VAL, 0); return 0; }
  // (iii) ranges
  // 180 deg plus round-off: the equatorial branch returns lon12 / (1 - f) after testing lon12 <= (1 - f) 180 in floating point,
  // so the excess can reach a few ulp(180) / (1 - f)
  const double a12max = 180 * (1 + 4 * 2.220446049250313e-16) + 1.2e-13 / std::min(1.0, std::fabs(1 - S.f));
  if (!(o.a12 >= 0 && o.a12 <= a12max)) bad("range/a12/" + p.regime + "/" + shape_of(p.e.f), o.a12, a12max);
  if (!(std::fabs(o.azi1) <= 180)) bad("range/azi1", o.azi1, 180);
  if (!(std::fabs(o.azi2) <= 180)) bad("range/azi2", o.azi2, 180);
  // (a distance that is negative by more than the tolerance is a different failure from a round-off sized one)
  if (!(o.s12 >= 0) || std::signbit(o.s12)) bad(std::string(o.s12 < -T ? "range/s12-grossly-negative/" : "range/s12-negative/") + p.regime + "/" + shape_of(p.e.f), o.s12, 0);
  // (ii d) a shortest path contains no conjugate point: m12 >= 0
  obsv(c, p, series ? 's' : 'x', "negative m12 / tolerance [" + sv + "]", -o.m12 / T, wit(p, solver).f("m12", o.m12));
  if (!(o.m12 >= -T)) bad("not-shortest/m12-negative/" + p.regime + "/" + shape_of(p.e.f), -o.m12, T);
  // (i) join
  double epos, eazi, earc, elon, rm12;
  join_resid<ld>(S, p, o, lon12q, epos, eazi, earc, elon, rm12);
  if (epos > 0.4 * T || eazi > 0.8 * T || earc > 0.4 * T || elon > 0) join_resid<q128>(S, p, o, lon12q, epos, eazi, earc, elon, rm12);   // confirm in float128
  obsv(c, p, series ? 's' : 'x', "join: miss distance / tolerance [" + sv + "]", epos / T, wit(p, solver).f("err_m", epos));
  obsv(c, p, series ? 's' : 'x', "join: azi2 residual*|m12| / tolerance [" + sv + "]", eazi / (2 * T), wit(p, solver).f("err_m", eazi));
  obsv(c, p, series ? 's' : 'x', "join: a12 residual / tolerance [" + sv + "]", earc / T, wit(p, solver).f("err_m", earc));
  obsv(c, p, series ? 's' : 'x', "join: miss distance [nm, scaled to a=WGS84] " + sv + " " + p.e.bucket, epos * 1e9 * gh::WGS84_A / p.e.a);
  obsv(c, p, series ? 's' : 'x', "join: miss distance / tolerance [" + sv + "] regime " + p.regime, epos / T, wit(p, solver).f("err_m", epos));
  const std::string rg = subregime(p, o);
  if (epos > T) bad("join/miss-distance/" + rg, epos, T);
  // azi2 is compared with the forward azimuth of REF's geodesic started with the library's (slightly wrong) azi1:
  // both errors enter, each bounded by tol/|m12|
  if (eazi > 2 * T) bad("join/azi2/" + rg, eazi, 2 * T);
  if (earc > T) bad("join/a12/" + rg, earc, T);
  if (epos <= T && elon > T) bad("range/longitudinal-extent/" + p.regime + "/" + shape_of(p.e.f), elon, T);      // (when the join fails this would only repeat it)
  return epos <= T ? 2 : 1;
}

// ---------------------------------------------------------------- InverseLine consistency
template <class G> static void judge_line(Ctx& c, const gh::Solvers& S, const G& g, const Pair& p, const char* solver, bool series, const Inv& o, q128 lon12q) {
  const double T = tol_of(S, series);
  auto l = g.InverseLine(p.lat1, p.lon1, p.lat2, p.lon2);
  double lat, lon, azi; l.Position(l.Distance(), lat, lon, azi);
  q128 X1[3], X2[3]; ref::to_xyz<q128>(S.E, p.lat2, lon12q, X1); ref::to_xyz<q128>(S.E, lat, remainderq((q128)lon - (q128)p.lon1, 360), X2);
  double epos = (double)ref::dist3(X1, X2), es = std::fabs(l.Distance() - o.s12), ea = std::fabs(l.Arc() - o.a12) * M_PI / 180 * S.b;
  q128 dalp = remainderq((q128)azi - (q128)o.azi2, 360) * ref::deg<q128>(), dlam = remainderq((q128)lon - (q128)p.lon2, 360) * ref::deg<q128>();
  double eazi = (double)(fabsq(sinq(dalp) * cosq(dlam) - cosq(dalp) * sinq(dlam) * sinq((q128)p.lat2 * ref::deg<q128>()))) * std::fabs(o.m12);
  std::string sv = solver;
  obsv(c, p, series ? 's' : 'x', "InverseLine: Position(Distance()) miss / tolerance [" + sv + "]", epos / (2 * T), wit(p, solver).f("err_m", epos));
  obsv(c, p, series ? 's' : 'x', "InverseLine: Distance()-s12 / tolerance [" + sv + "]", es / T);
  auto bad = [&](const char* what, double err) { report(c, p, series ? 's' : 'x', "law:C02/" + sv + "/InverseLine/" + what + "/" + subregime(p, o), wout(wit(p, solver), o).f("err_m", err).f("tol_m", 2 * T).f("line_s13", l.Distance()).f("line_a13", l.Arc()).f("lat", lat).f("lon", lon).f("azi", azi)); };
  if (!(epos <= 2 * T)) bad("position", epos);
  if (!(es <= T)) bad("distance", es);
  if (!(ea <= T)) bad("arc", ea);
  if (!(eazi <= 2 * T)) bad("azimuth", eazi);
  if (!(vh::same_bits(l.Latitude(), p.lat1) || l.Latitude() == p.lat1)) bad("lat1", l.Latitude());
}

// ---------------------------------------------------------------- everything for one point pair
struct Opt { bool scan = false; bool trivial = false; const RefKnown* rk = nullptr; int nrays = 3600; };

static void check_pair(Ctx& c, Pair& p, const Opt& opt) {
  gh::Solvers& S = gh::solvers(p.e.a, p.e.f, p.e.series_ok);
  const q128 lon12q = lon12_exact(p);
  classify(p, lon12q);
  uint64_t h = vh::hmix(vh::hmix(vh::hmix(vh::hmix(vh::hmix(vh::hmix(17, p.e.a), p.e.f), p.lat1), p.lon1), p.lat2), p.lon2);
  c.count(p.cls, h, opt.trivial);
  c.event("regime: " + p.regime);
  if (!p.kx.empty()) c.event("cases inside known regime " + p.kx);
  if (!p.ks.empty() && p.ks != p.kx) c.event("cases inside known regime " + p.ks);
  if (c.want_sample(p.cls)) c.sample(p.cls, wit(p, "-"));
  const bool ser = p.e.series_ok;
  Inv os{}, ox = call_inv(*S.exact, p), od = call_inv(*S.delegating, p);
  if (ser) os = call_inv(*S.series, p);
  if (c.only) {
    std::fprintf(stderr, "CASE a=%.17g f=%.17g  %.17g %.17g %.17g %.17g regime=%s lon12=%s\n", p.e.a, p.e.f, p.lat1, p.lon1, p.lat2, p.lon2, p.regime.c_str(), ref::qstr(lon12q, 25).c_str());
    std::fprintf(stderr, "  exact : a12=%.17g s12=%.17g azi1=%.17g azi2=%.17g m12=%.17g M12=%.17g M21=%.17g S12=%.17g\n", ox.a12, ox.s12, ox.azi1, ox.azi2, ox.m12, ox.M12, ox.M21, ox.S12);
    if (ser) std::fprintf(stderr, "  series: a12=%.17g s12=%.17g azi1=%.17g azi2=%.17g m12=%.17g M12=%.17g M21=%.17g S12=%.17g\n", os.a12, os.s12, os.azi1, os.azi2, os.m12, os.M12, os.M21, os.S12);
  }
  const int jx = judge_one(c, S, p, "exact", false, ox, lon12q), js = ser ? judge_one(c, S, p, "series", true, os, lon12q) : 0;
  const bool okx = jx > 0, oks = js > 0;
  c.event("inverse solutions judged (join+range)", ser ? 2 : 1);
  // Geodesic(exact=true) must be the exact solver (pure delegation): identical bits
  if (!(vh::same_bits(od.a12, ox.a12) && vh::same_bits(od.s12, ox.s12) && vh::same_bits(od.azi1, ox.azi1) && vh::same_bits(od.azi2, ox.azi2) &&
        vh::same_bits(od.m12, ox.m12) && vh::same_bits(od.M12, ox.M12) && vh::same_bits(od.M21, ox.M21) && vh::same_bits(od.S12, ox.S12)))
    report(c, p, 'n', "law:C02/exact-delegating/differs-from-GeodesicExact", wout(wit(p, "exact-delegating"), od).f("exact_s12", ox.s12).f("exact_azi1", ox.azi1));
  const double Tx = tol_of(S, false), Ts = tol_of(S, true);
  // (v) series vs exact
  if (ser && okx && oks) {
    double es = std::fabs(os.s12 - ox.s12), tol = Tx + Ts;
    double mm = std::min(std::fabs(os.m12), std::fabs(ox.m12));
    double e1 = std::fabs(angdiff(os.azi1, ox.azi1)) * M_PI / 180 * mm, e2 = std::fabs(angdiff(os.azi2, ox.azi2)) * M_PI / 180 * mm;
    // documented alternative pairs of equally short geodesics
    if (anti_lat_eff(p.lat1, p.lat2)) { double f1 = std::fabs(angdiff(os.azi1, ox.azi2)) * M_PI / 180 * mm, f2 = std::fabs(angdiff(os.azi2, ox.azi1)) * M_PI / 180 * mm; if (std::max(f1, f2) < std::max(e1, e2)) { e1 = f1; e2 = f2; } }
    if (fabsq(lon12q) == 180) { double f1 = std::fabs(angdiff(os.azi1, -ox.azi1)) * M_PI / 180 * mm, f2 = std::fabs(angdiff(os.azi2, -ox.azi2)) * M_PI / 180 * mm; if (std::max(f1, f2) < std::max(e1, e2)) { e1 = f1; e2 = f2; } }
    bool freeazi = p.regime == "coincident" || os.s12 == 0 || ox.s12 == 0 || (std::fabs(p.lat1) == 90 && p.lat1 == -p.lat2) || (p.e.f == 0 && std::fabs(os.a12 - 180) < 1e-9);
    obsv(c, p, 'b', "series vs exact: |s12 difference| / (tol_s + tol_x)", es / tol, wit(p, "series").f("err_m", es));
    if (es > tol) report(c, p, 'b', "law:C02/series-vs-exact/s12/" + subregime(p, ox), wout(wit(p, "series"), os).f("exact_s12", ox.s12).f("err_m", es).f("tol_m", tol));
    if (!freeazi) {
      obsv(c, p, 'b', "series vs exact: azimuth difference*|m12| / (tol_s + tol_x)", std::max(e1, e2) / tol, wit(p, "series"));
      if (std::max(e1, e2) > tol) report(c, p, 'b', "law:C02/series-vs-exact/azimuth/" + subregime(p, ox), wout(wit(p, "series"), os).f("exact_azi1", ox.azi1).f("exact_azi2", ox.azi2).f("err_m", std::max(e1, e2)).f("tol_m", tol));
    }
    double ea = std::fabs(os.a12 - ox.a12) * M_PI / 180 * S.b;
    if (ea > tol) report(c, p, 'b', "law:C02/series-vs-exact/a12/" + subregime(p, ox), wout(wit(p, "series"), os).f("exact_a12", ox.a12).f("err_m", ea).f("tol_m", tol));
  }
  // InverseLine
  if (okx) judge_line(c, S, *S.exact, p, "exact", false, ox, lon12q);
  if (ser && oks) judge_line(c, S, *S.series, p, "series", true, os, lon12q);
  // (ii a) constructed pair: REF's geodesic is the unique shortest path to the unrounded point 2; the true distance to the
  // rounded point differs by at most the rounding displacement d (triangle inequality)
  if (opt.rk && opt.rk->have) {
    const RefKnown& rk = *opt.rk;
    auto one = [&](const char* solver, const Inv& o, double T) {
      double es = (double)fabsq((q128)o.s12 - rk.s12);
      std::string sv = solver;
      obsv(c, p, sv == "series" ? 's' : 'x', "constructed: |s12 - s12_REF| / (tolerance + rounding) [" + sv + "]", es / (T + rk.d), wit(p, solver).f("err_m", es).f("round_m", rk.d));
      if (es > T + rk.d) report(c, p, sv == "series" ? 's' : 'x', "oracle:C02/" + sv + "/constructed/s12/" + subregime(p, o), wout(wit(p, solver), o).str("ref_s12", ref::qstr(rk.s12, 22)).f("err_m", es).f("tol_m", T + rk.d).str("regime", p.regime));
      // azimuths: only where moving point 2 by d is a small perturbation of the geodesic (linear regime).  The rounding of lon2
      // also rotates the local north at point 2 (meridian convergence): azi2 is compared with the author's azidiff formula.
      double m = (double)fabsq(rk.m12);
      if (rk.d < 1e-3 * m * 1e-3 && o.s12 > 0 && std::fabs(p.lat1) != 90 && std::fabs(p.lat2) != 90) {
        const q128 dlam = remainderq(lon12q - rk.lon12, 360) * ref::deg<q128>(), sphi = sinq(rk.lat2 * ref::deg<q128>());
        auto e1of = [&](double azi1) { return (double)fabsq(remainderq((q128)azi1 - rk.azi1, 360)) * M_PI / 180 * m; };
        auto e2of = [&](double azi2) { q128 dalp = remainderq((q128)azi2 - rk.azi2, 360) * ref::deg<q128>(); return (double)fabsq(sinq(dalp) * cosq(dlam) - cosq(dalp) * sinq(dlam) * sphi) * m; };
        double e = std::max(e1of(o.azi1), e2of(o.azi2));
        // a displacement d of point 2 turns azi1 by d/m12 and azi2 by |M21| d/m12 (first order)
        const double tolaz = T + 1.1 * rk.d * (1 + std::max(1.0, (double)fabsq(rk.M21)));
        // documented alternatives where the rounded pair has two equally short geodesics
        if (anti_lat_eff(p.lat1, p.lat2)) e = std::min(e, std::max(e1of(o.azi2), e2of(o.azi1)));
        if (fabsq(lon12q) == 180) { e = std::min(e, std::max(e1of(-o.azi1), e2of(-o.azi2))); if (anti_lat_eff(p.lat1, p.lat2)) e = std::min(e, std::max(e1of(-o.azi2), e2of(-o.azi1))); }
        obsv(c, p, sv == "series" ? 's' : 'x', "constructed: azimuth error*|m12| / (tolerance + 2 rounding) [" + sv + "]", e / tolaz, wit(p, solver));
        if (e > tolaz) report(c, p, sv == "series" ? 's' : 'x', "oracle:C02/" + sv + "/constructed/azimuth/" + subregime(p, o), wout(wit(p, solver), o).str("ref_azi1", ref::qstr(rk.azi1, 22)).str("ref_azi2", ref::qstr(rk.azi2, 22)).f("err_m", e).f("tol_m", tolaz));
        c.event("constructed azimuths judged");
      }
    };
    one("exact", ox, Tx); if (ser) one("series", os, Ts);
    c.event("constructed shortest-path certificates", ser ? 2 : 1);
  }
  // (ii c) short lines: chord <= s12 <= arc of the circle of the largest principal curvature on the same chord
  {
    q128 ch = ref::chord<q128>(S.E, (q128)p.lat1, (q128)p.lat2, lon12q);
    double a = S.a, b = S.b, kmax = 1.01 * std::max(std::max(a / (b * b), 1 / a), b / (a * a));
    double chd = (double)ch;
    auto one = [&](const char* solver, const Inv& o, double T) {
      if ((double)((q128)o.s12 - ch) < -T) report(c, p, solver[0] == 's' ? 's' : 'x', std::string("oracle:C02/") + solver + "/s12-shorter-than-chord/" + p.regime + "/" + shape_of(p.e.f), wout(wit(p, solver), o).f("chord", chd).f("tol_m", T));
      if (chd * kmax < 1e-5) {
        q128 x = (q128)kmax * ch / 2, ub = ch * (1 + x * x / 6 + 3 * x * x * x * x / 40 + x * x * x * x * x * x);    // (2/k) asin(k c/2), rounded up
        double over = (double)((q128)o.s12 - ub);
        obsv(c, p, solver[0] == 's' ? 's' : 'x', std::string("short line: (s12 - chord-arc bound) / tolerance [") + solver + "]", over / T, wit(p, solver));
        if (over > T) report(c, p, solver[0] == 's' ? 's' : 'x', std::string("oracle:C02/") + solver + "/not-shortest/chord-bound/" + p.regime + "/" + shape_of(p.e.f), wout(wit(p, solver), o).f("chord", chd).f("err_m", over).f("tol_m", T));
        c.event("short-line chord certificates");
      }
    };
    one("exact", ox, Tx); if (ser) one("series", os, Ts);
  }
  // (ii b) global scan
  if (opt.scan && okx) {
    double slim = std::max(ox.s12, ser && oks ? os.s12 : 0.0);
    if (slim > 1e-3 * p.e.a / 6.4e6) {
      ref::InvScan<ld> R = ref::ref_inverse_scan<ld>(p.e.a, p.e.f, p.lat1, p.lat2, lon12q, slim * (1 + 1e-9) + 1e-6 * p.e.a / 6.4e6, opt.nrays);
      c.event("global scans");
      c.event("global scans: joining geodesics found", R.nroots);
      if (R.nroots == 0 || R.smin_q < 0) { c.event("global scans that found no joining geodesic (certificate void)"); if (c.only) std::fprintf(stderr, "  scan found nothing\n"); }
      else {
        auto one = [&](const char* solver, const Inv& o, double T, bool joined) {
          double over = (double)((q128)o.s12 - R.smin_q);
          std::string sv = solver;
          obsv(c, p, sv == "series" ? 's' : 'x', "scan: (s12 - least joining length) / tolerance [" + sv + "]", over / T, wit(p, solver).f("err_m", over));
          if (joined) obsv(c, p, sv == "series" ? 's' : 'x', "scan: (least joining length - s12) / tolerance, library's geodesic joins (scan missed it if > 1) [" + sv + "]", -over / T, wit(p, solver).f("err_m", -over));
          if (over > T) report(c, p, sv == "series" ? 's' : 'x', "oracle:C02/" + sv + "/not-shortest/scan/" + p.regime + "/" + shape_of(p.e.f),
                               wout(wit(p, solver), o).str("shorter_s12", ref::qstr(R.smin_q, 22)).str("shorter_azi_at_origin", ref::qstr(R.azi_origin_q, 18)).b("origin_is_point2", R.swapped).f("err_m", over).f("tol_m", T).i("nroots", R.nroots));
          if (-over > T && joined) c.event("global scans that missed the library's (joining) geodesic [" + sv + "]");
        };
        one("exact", ox, Tx, jx == 2); if (ser && oks) one("series", os, Ts, js == 2);
      }
    }
  }
}

// stratified subsampling for the (expensive) global scan: by a hash of the case index, so that every shard gets its share
static bool pick(const Ctx& c, uint64_t one_in) { return vh::mix64(c.idx * 0x9e3779b97f4a7c15ULL + 777) % one_in == 0; }

// ================================================================ generators
static gh::EllSpec ell_of(double a, double f, const std::string& bucket = "") {
  gh::EllSpec e; e.a = a; e.f = f; double af = std::fabs(f); e.series_ok = af <= 0.2;
  e.bucket = !bucket.empty() ? bucket : f == 0 ? "sphere" : af <= 0.0034 ? (f > 0 ? "wgs84-like" : "wgs84-like-prolate") : af <= 0.02 ? (f > 0 ? "f<=0.02" : "f>=-0.02")
    : af <= 0.2 ? (f > 0 ? "f<=0.2" : "f>=-0.2") : f > 0 ? "very-oblate" : "very-prolate";
  return e;
}
static double lat_of_beta(double f, double betdeg) {   // geographic latitude of a reduced latitude (degrees)
  if (std::fabs(betdeg) >= 90) return betdeg > 0 ? 90 : -90;
  return std::atan(std::tan(betdeg * M_PI / 180) / (1 - f)) * 180 / M_PI;
}
static double beta_of_lat(double f, double lat) { return std::fabs(lat) == 90 ? lat : std::atan((1 - f) * std::tan(lat * M_PI / 180)) * 180 / M_PI; }

// ---- constructed pairs
static void sec_constructed(Ctx& c, uint64_t) {
  vh::Rng& r = c.rng;
  Pair p; p.sec = "constructed"; p.e = gh::pick_ellipsoid(r);
  std::string cl, ca, cn;
  p.lat1 = gh::pick_lat(r, cl);
  double azi1 = gh::pick_azi(r, ca); if (ca == "multi-turn") azi1 = std::remainder(azi1, 360.0);
  p.lon1 = r.coin(0.8) ? r.uniform(-180, 180) : gh::pick_lon(r);
  const double b = p.e.a * (1 - p.e.f);
  double a12;
  switch (r.below(8)) {
  case 0: cn = "tiny"; a12 = r.logu(1e-9, 1) * p.e.a / 6.4e6 / b * 180 / M_PI; break;            // 1e-9 m .. 1 m (scaled with a)
  case 1: cn = "short"; a12 = r.logu(1, 1e5) * p.e.a / 6.4e6 / b * 180 / M_PI; break;
  case 2: case 3: cn = "near-180"; a12 = 180 - r.logu(1e-12, 1e-1); break;
  case 4: cn = "near-180-decades"; { static const double d[] = {1e-1, 1e-2, 1e-3, 1e-4, 1e-5, 1e-6, 1e-7, 1e-8, 1e-9, 1e-10, 1e-11, 1e-12}; a12 = 180 - r.pick(d); } break;
  default: cn = "uniform"; a12 = r.uniform(0, 180 - 1e-9); break;
  }
  gh::Solvers& S = gh::solvers(p.e.a, p.e.f, p.e.series_ok);
  ref::GeodLine<q128> L(S.E, (q128)p.lat1, (q128)azi1, azi1 == 0 && std::signbit(azi1));
  ref::GeodPos<q128> P = L.at_arc((q128)a12);
  p.lat2 = (double)P.lat2; if (std::fabs(p.lat2) > 90) p.lat2 = std::copysign(90.0, p.lat2);
  p.lon2 = (double)((q128)p.lon1 + P.lon12);
  RefKnown rk; rk.s12 = P.s12; rk.azi1 = (q128)azi1; rk.azi2 = P.azi2; rk.m12 = P.m12; rk.M21 = P.M21; rk.lat2 = P.lat2; rk.lon12 = P.lon12;
  { q128 X1[3], X2[3]; ref::to_xyz<q128>(S.E, P.lat2, P.lon12, X1); ref::to_xyz<q128>(S.E, (q128)p.lat2, (q128)p.lon2 - (q128)p.lon1, X2); rk.d = (double)ref::dist3(X1, X2) * 1.0001; }
  // unique-shortest criterion: sigma12 < pi and longitudinal extent < 180 (the latter matters on prolate ellipsoids)
  rk.have = a12 < 180 && (double)fabsq(P.lon12) < 180 - 1e-9;
  if (!rk.have) c.event("constructed pairs without certificate (longitudinal extent >= 180)");
  p.sec = "constructed-" + cn;
  // stratified 4 % subsample also gets the global scan (1 % on the extreme ellipsoids, whose scans cost ~1 s)
  Opt o; o.rk = &rk; o.scan = pick(c, 25) && !((p.e.f > 0.6 || p.e.f < -2) && !pick(c, 100));
  check_pair(c, p, o);
}

// ---- unconstructed random pairs (all special latitudes / longitudes), stratified scan subsample
static void sec_random(Ctx& c, uint64_t) {
  vh::Rng& r = c.rng;
  Pair p; p.sec = "random"; p.e = gh::pick_ellipsoid(r);
  std::string c1, c2;
  p.lat1 = gh::pick_lat(r, c1); p.lon1 = gh::pick_lon(r);
  switch (r.below(8)) {
  case 0: p.lat2 = -p.lat1; break;
  case 1: p.lat2 = vh::ulps(-p.lat1, r.range(-3, 3)); if (std::fabs(p.lat2) > 90) p.lat2 = std::copysign(90.0, p.lat2); break;
  case 2: p.lat2 = p.lat1; break;
  default: p.lat2 = gh::pick_lat(r, c2); break;
  }
  switch (r.below(8)) {
  case 0: p.lon2 = p.lon1 + 180; break;
  case 1: p.lon2 = p.lon1 + 180 - r.logu(1e-13, 5); break;
  case 2: p.lon2 = p.lon1; break;
  case 3: p.lon2 = p.lon1 + r.sign() * r.logu(1e-14, 1e-3); break;
  default: p.lon2 = gh::pick_lon(r); break;
  }
  Opt o; o.scan = pick(c, 20) && !((p.e.f > 0.6 || p.e.f < -2) && !pick(c, 80));
  check_pair(c, p, o);
}

// ---- short lines: point 2 = point 1 + tiny offsets (1e-9 m .. 1 km)
static void sec_short(Ctx& c, uint64_t) {
  vh::Rng& r = c.rng;
  Pair p; p.sec = "short"; p.e = gh::pick_ellipsoid(r);
  std::string c1; p.lat1 = gh::pick_lat(r, c1); p.lon1 = gh::pick_lon(r); if (std::fabs(p.lon1) > 1e3) p.lon1 = 0;
  double len = r.logu(1e-9, 1e3) * p.e.a / 6.4e6, th = r.coin(0.2) ? 90.0 * r.range(0, 3) : r.uniform(0, 360);
  double R = std::max(p.e.a, p.e.a * (1 - p.e.f)), coslat = std::max(std::cos(p.lat1 * M_PI / 180), 1e-9);
  p.lat2 = p.lat1 + len * std::cos(th * M_PI / 180) / R * 180 / M_PI;
  if (std::fabs(p.lat2) > 90) p.lat2 = std::copysign(90.0, p.lat2);
  p.lon2 = p.lon1 + len * std::sin(th * M_PI / 180) / (R * coslat) * 180 / M_PI;
  if (r.coin(0.05)) { p.lat2 = p.lat1; p.lon2 = p.lon1 + (r.coin() ? 0 : 360); }       // coincident
  Opt o; o.scan = pick(c, 40);
  check_pair(c, p, o);
}

// ---- nearly antipodal pairs on (almost) opposite meridians with lat2 = -lat1 +- a few ulp (D7 regime and its neighbourhood)
static void sec_antipodal_ulps(Ctx& c, uint64_t) {
  vh::Rng& r = c.rng;
  Pair p; p.sec = "antipodal-ulps"; p.e = gh::pick_ellipsoid(r);
  if (r.coin(0.5)) { static const double fl[] = {-1e-6, -gh::WGS84_F, -0.01, -0.05, -0.1, -0.2, -0.5, -1, -9, gh::WGS84_F, 0.1}; p.e = ell_of(r.coin(0.8) ? gh::WGS84_A : 1.0, r.pick(fl)); }
  p.lat1 = r.coin(0.9) ? r.uniform(-90, 90) : r.sign() * r.logu(1e-12, 1);
  p.lat2 = vh::ulps(-p.lat1, r.range(-6, 6)); if (std::fabs(p.lat2) > 90) p.lat2 = -p.lat1;
  p.lon1 = r.coin(0.7) ? 0.0 : r.uniform(-180, 180);
  p.lon2 = p.lon1 + 180; if (r.coin(0.4)) p.lon2 = vh::ulps(p.lon2, r.range(-4, 4));
  Opt o; o.scan = pick(c, 20);
  check_pair(c, p, o);
}

// ---- both points next to the equator (1e-17 .. 1e-8 deg, prolate: .. 0.5 deg), any longitude difference; emphasis on ellipsoids with
// third flattening |n| > 0.1, for which the solver has no astroid starting guess (D2, D3, D4, D6, D9 regimes and their neighbourhood)
static void sec_near_equator(Ctx& c, uint64_t) {
  vh::Rng& r = c.rng;
  Pair p; p.sec = "near-equator";
  switch (r.below(5)) {
  case 0: case 1: p.e = ell_of(r.coin(0.8) ? gh::WGS84_A : 1.0, r.uniform(0.15, 0.99)); break;
  case 2: p.e = ell_of(r.coin(0.8) ? gh::WGS84_A : 1.0, -r.logu(0.15, 99)); break;
  default: p.e = gh::pick_ellipsoid(r); break;
  }
  const double f = p.e.f, lim = (1 - std::max(0.0, f)) * 180;
  double hi = (f < 0 && r.coin(0.3)) ? 0.5 : (r.coin(0.3) ? 1e-12 : 1e-8);
  p.lat1 = r.coin(0.25) ? (r.coin() ? 0.0 : -0.0) : r.sign() * r.logu(1e-17, hi);
  p.lat2 = r.coin(0.1) ? -p.lat1 : r.sign() * r.logu(1e-17, hi);
  p.lon1 = r.coin(0.5) ? 0.0 : r.uniform(-180, 180);
  double dl;
  switch (r.below(4)) {
  case 0: dl = lim * (1 - r.sign() * r.logu(1e-13, 1e-2)); break;        // around the end of the equatorial regime
  case 1: dl = 180 - r.logu(1e-13, 30); break;                             // towards the antipodal meridian
  default: dl = r.uniform(0, lim); break;                                  // anywhere below the limit
  }
  if (dl > 180) dl = 360 - dl;
  if (dl < 0) dl = -dl;
  p.lon2 = p.lon1 + dl * (r.coin(0.8) ? 1 : -1);
  Opt o; o.scan = pick(c, 10) && !((f > 0.6 || f < -2) && !pick(c, 40));
  check_pair(c, p, o);
}

// ---- directed catalogue (unconstructed singular sets); every case gets the global scan
struct Dir { double f, lat1, lon1, lat2, lon2; const char* tag; };
// (0.125 and 0.5: f * 180 is exact, so the solver's floating-point test (180 - lon12) >= f * 180 can be hit with equality)
static const double DIR_F[] = {gh::WGS84_F, 0, 1.0 / 150, -1.0 / 150, 0.02, -0.02, 0.1, -0.1, 0.2, -0.2, 0.5, -1.0, 0.9, -9.0, 0.99, -99.0, 1e-6, -1e-6, -1.0 / 300, 0.125};
static const int N_DIR_F = sizeof DIR_F / sizeof DIR_F[0];
// historic regression inputs of tests/CMakeLists.txt (GeodSolve -i ...): {a, f, lat1, lon1, lat2, lon2}
static const double REG[][6] = {
  {6378137, gh::WGS84_F, 40.6, -73.8, 49 + 1.0 / 60, 2 + 33.0 / 60},
  {6.4e6, -1.0 / 150, 0.07476, 0, -0.07476, 180}, {6.4e6, -1.0 / 150, 0.1, 0, -0.1, 180},
  {6378137, gh::WGS84_F, 36.493349428792, 0, 36.49334942879201, .0000008},
  {6378137, gh::WGS84_F, 88.202499451857, 0, -88.202499451857, 179.981022032992859592},
  {6378137, gh::WGS84_F, 89.262080389218, 0, -89.262080389218, 179.992207982775375662},
  {6378137, gh::WGS84_F, 89.333123580033, 0, -89.333123580032997687, 179.99295812360148422},
  {6378137, gh::WGS84_F, 56.320923501171, 0, -56.320923501171, 179.664747671772880215},
  {6378137, gh::WGS84_F, 52.784459512564, 0, -52.784459512563990912, 179.634407464943777557},
  {6378137, gh::WGS84_F, 48.522876735459, 0, -48.52287673545898293, 179.599720456223079643},
  {89.8, -1.83, 0, 0, -10, 160},
  {6.4e6, -1.0 / 150, 1, 2, 3, 4}, {6.4e6, 0, 1, 2, 3, 4},
  {6378137, gh::WGS84_F, 0, 539, 0, 181},
  {6378137, gh::WGS84_F, 0, 0, 0, 179}, {6378137, gh::WGS84_F, 0, 0, 0, 179.5}, {6378137, gh::WGS84_F, 0, 0, 0, 180}, {6378137, gh::WGS84_F, 0, 0, 1, 180},
  {6.4e6, 0, 0, 0, 0, 179}, {6.4e6, 0, 0, 0, 0, 180}, {6.4e6, 0, 0, 0, 1, 180},
  {6.4e6, -1.0 / 300, 0, 0, 0, 179}, {6.4e6, -1.0 / 300, 0, 0, 0, 180}, {6.4e6, -1.0 / 300, 0, 0, 0.5, 180}, {6.4e6, -1.0 / 300, 0, 0, 1, 180},
  {6378137, gh::WGS84_F, 5, 0.00000000000001, 10, 180},
  {6378137, gh::WGS84_F, 30, -0.000000000000000001, -31, 180}, {6378137, gh::WGS84_F, -5, -0.000000000000002, -10, 180},
  {6378137, gh::WGS84_F, 54.1589, 15.3872, 54.1591, 15.3877},
  {6378137, gh::WGS84_F, -(41 + 19.0 / 60), 174 + 49.0 / 60, 40 + 58.0 / 60, -(5 + 30.0 / 60)},
  {6378137, gh::WGS84_F, 27.2, 0, -27.1, 179.5},
  {6378137, gh::WGS84_F, 0, 0, 0, 90}, {6378137, gh::WGS84_F, 0, 0, 0.000001, 0.000001}, {6378137, gh::WGS84_F, 20.001, 0, 20.001, 0}, {6378137, gh::WGS84_F, 90, 0, 90, 180},
  {6378137, gh::WGS84_F, 37.757540000000006, -122.47018, 37.75754, -122.470177},
  {6378137, 1 / 298.257222101, 0, 0, 60.0832522871723, 89.8492185074635},
  {6378137, gh::WGS84_F, 45, 0, -45, 179.572719},
  {6378137, gh::WGS84_F, 0.01777745589997, 30, 0.01777745589997, 30.0001},
};
static const int N_REG = sizeof REG / sizeof REG[0];

// catalogue A: per flattening, structured singular configurations
static bool directed_case(uint64_t i, vh::Rng& r, Pair& p) {
  // layout: [regression x 27 perturbations] [per-f blocks]
  const uint64_t nregp = (uint64_t)N_REG * 27;
  if (i < nregp) {
    const double* g = REG[i / 27]; uint64_t k = i % 27;
    static const int dk[] = {0, 1, -1, 2, -2, 5, -5};
    p.e = ell_of(g[0], g[1]); p.lat1 = g[2]; p.lon1 = g[3]; p.lat2 = g[4]; p.lon2 = g[5];
    // perturbation 0 = as published; 1..6 = one coordinate by +-{1,2,5} ulp (coordinate chosen by k), 7..26 random combinations
    if (k >= 1 && k <= 6) { int w = (int)((i / 27 + k) % 4); double* q[] = {&p.lat1, &p.lon1, &p.lat2, &p.lon2}; *q[w] = vh::ulps(*q[w], dk[k]); }
    else if (k > 6) { p.lat1 = vh::ulps(p.lat1, dk[r.below(7)]); p.lon1 = vh::ulps(p.lon1, dk[r.below(7)]); p.lat2 = vh::ulps(p.lat2, dk[r.below(7)]); p.lon2 = vh::ulps(p.lon2, dk[r.below(7)]); }
    if (std::fabs(p.lat1) > 90) p.lat1 = std::copysign(90.0, p.lat1);
    if (std::fabs(p.lat2) > 90) p.lat2 = std::copysign(90.0, p.lat2);
    p.sec = "directed-regression"; return true;
  }
  i -= nregp;
  const uint64_t per_f = 200;
  if (i >= per_f * N_DIR_F) return false;
  double f = DIR_F[i / per_f]; uint64_t k = i % per_f;
  static const double as[] = {gh::WGS84_A, 1, 1e12};
  p.e = ell_of(as[(i / per_f + k) % 7 == 0 ? 1 : (i / per_f + k) % 11 == 0 ? 2 : 0], f);
  static const double lats[] = {30, -45, 1, 60, 85, 89.9, 1e-9, 0.5, 75, 15};
  double la = lats[k % 10];
  p.lon1 = (k % 3 == 0) ? 0 : (k % 3 == 1 ? -170 : 45); double dl = 0;
  p.sec = "directed";
  if (k < 10) { p.lat1 = la; p.lat2 = -la; dl = 180; p.sec = "directed-antipodal"; }                                  // exactly antipodal
  else if (k < 14) { static const double q[][2] = {{90, -90}, {-90, 90}, {90, 90}, {-90, -90}}; p.lat1 = q[k - 10][0]; p.lat2 = q[k - 10][1]; dl = (k % 2) ? 180 : 73; p.sec = "directed-poles"; }
  else if (k < 20) { p.lat1 = (k % 2) ? 90 : -90; p.lat2 = lats[k - 14] * ((k & 2) ? 1 : -1); dl = 37.5 * (k - 13); p.sec = "directed-poles"; }
  else if (k < 70) {    // lon12 = 180 exactly, lat2 = -lat1 +- j ulp, j = 0..1000
    static const int js[] = {0, 1, 2, 3, 5, 8, 13, 21, 34, 55, 89, 144, 233, 377, 610, 1000};
    int j = js[(k - 20) % 16]; if ((k - 20) / 16 == 1) j = -j; if ((k - 20) / 16 >= 2) j = r.range(-1000, 1000);
    p.lat1 = lats[(k / 3) % 10]; p.lat2 = vh::ulps(-p.lat1, j); dl = 180; p.sec = "directed-lon180-lat2=-lat1+-ulps";
  }
  else if (k < 100) {   // equator pairs with lon12 around (1-f) 180
    double l0 = (1 - f) * 180; if (l0 > 180) l0 = 180;
    static const double off[] = {0, 1e-13, -1e-13, 1e-10, -1e-10, 1e-6, -1e-6, 1e-3, -1e-3, 0.1, -0.1, 0.5, -0.5, 1, -2};
    p.lat1 = (k % 2) ? 0.0 : -0.0; p.lat2 = (k % 4 < 2) ? 0.0 : -0.0; dl = l0 + (k - 70 < 15 ? off[k - 70] : r.sign() * r.logu(1e-14, 1));
    // the solver's equatorial test is the floating-point comparison (180 - lon12) >= f * 180: hit it exactly and +-1 ulp
    if (k >= 70 && k <= 72 && f > 0) { p.lon1 = 0; dl = vh::ulps(180 - f * 180, (int)k - 71); }
    if (k >= 92) { p.lat1 = r.sign() * r.logu(1e-300, 1e-12); p.lat2 = r.coin() ? -p.lat1 : r.sign() * r.logu(1e-300, 1e-12); }     // "really close to the equator"
    if (dl > 180) dl = 360 - dl;
    p.sec = "directed-equator-near-(1-f)180";
  }
  else if (k < 130) {   // lat2 = -lat1 (exactly) with lon12 just short of 180: inside / on / outside the astroid cusp
    p.lat1 = la; p.lat2 = -la; double w = std::fabs(f) * 180 * std::cos(beta_of_lat(f, la) * M_PI / 180);
    static const double u[] = {1, 0.999999, 1.000001, 0.5, 0.9, 1.1, 2, 1e-3, 1e-6, 1e-9};
    dl = 180 - u[(k - 100) % 10] * (f == 0 ? 1e-3 : w) * (k < 120 ? 1 : r.uniform(0, 1.5));
    p.sec = "directed-lat2=-lat1-near-cusp";
  }
  else if (k < 145) {   // meridional pairs (same meridian, and opposite meridian through a pole)
    p.lat1 = la * ((k & 1) ? 1 : -1); p.lat2 = lats[(k + 3) % 10] * ((k & 2) ? 1 : -1); dl = (k % 3 == 0) ? 180 : 0; p.sec = "directed-meridional";
  }
  else if (k < 160) {   // coincident and nearly coincident
    p.lat1 = la; p.lat2 = (k % 2) ? la : vh::ulps(la, (int)(k % 5) - 2); dl = (k % 3 == 0) ? 0 : (k % 3 == 1 ? 360 : 1e-15); p.sec = "directed-coincident";
  }
  else {                // both points within 1e-17 .. 1e-9 deg (prolate: .. 0.5 deg) of the equator, longitude difference near the end of the equatorial regime
    p.lat1 = (k % 4 == 0) ? 0.0 : r.sign() * r.logu(1e-17, 1e-9); p.lat2 = r.sign() * r.logu(1e-17, 1e-9);
    if (f > 0) dl = (1 - f) * 180 * (1 - r.sign() * r.logu(1e-12, 1e-3));
    else { if (k % 2) { p.lat1 = r.sign() * r.logu(1e-12, 0.5); p.lat2 = r.sign() * r.logu(1e-12, 0.5); } dl = 180 - r.logu(1e-6, 60); }
    if (dl > 180) dl = 360 - dl;
    p.sec = "directed-near-equator";
  }
  p.lon2 = p.lon1 + dl;
  return true;
}
// unscaled catalogues are thinned by a hash stride when --scale < 1 (sanitizer flavours): a representative subset, not a prefix
static bool thinned_out(const Ctx& c, uint64_t i) {
  if (c.scale >= 1 || c.only) return false;
  uint64_t stride = (uint64_t)std::llround(1 / c.scale); return stride > 1 && vh::mix64(i * 0x9e3779b97f4a7c15ULL + 12345) % stride != 0;
}
static void sec_directed(Ctx& c, uint64_t i) {
  if (thinned_out(c, i)) return;
  Pair p; if (!directed_case(i, c.rng, p)) return;
  Opt o; o.scan = !(c.quick() && (p.e.f > 0.6 || p.e.f < -2) && !pick(c, 4)); check_pair(c, p, o);
}

// ---- dense raster of the astroid neighbourhood of the antipodal point (x, y scaled as the solver's InverseStart does:
// longitude offset in units of |f| pi cos(bet1), reduced-latitude offset in units of |f| pi cos^2(bet1)); all scanned
static const double AST_F[] = {gh::WGS84_F, -1.0 / 150, 0.02, -0.02, 0.1, -0.1, 1.0 / 150, 0.2, -0.2, 0.5, -1.0, 1e-6};
static const double AST_B[] = {-30, -60, -5, -85, -45, -0.5, -75, -15};
static void sec_astroid(Ctx& c, uint64_t i) {
  if (thinned_out(c, i)) return;
  const int n = c.quick() ? 24 : 200;
  uint64_t cell = i % ((uint64_t)n * n), cfg = i / ((uint64_t)n * n);
  double f = AST_F[cfg % 12], bet1 = AST_B[(cfg / 12 + cfg) % 8];
  int ix = (int)(cell % n), iy = (int)(cell / n);
  // x in [-3, 0.5] (negative: short of the antipodal meridian), y in [-3, 3]; jitter inside the cell so that seeds differ
  double x = -3 + 3.5 * (ix + c.rng.u()) / n, y = -3 + 6.0 * (iy + c.rng.u()) / n;
  double cb = std::cos(bet1 * M_PI / 180), af = std::fabs(f);
  double dlon = x * af * 180 * cb, dbet = y * af * 180 * cb * cb;
  Pair p; p.sec = "astroid"; p.e = ell_of(gh::WGS84_A, f);
  p.lat1 = lat_of_beta(f, bet1); p.lon1 = 0;
  double bet2 = -bet1 + dbet; if (bet2 > 90) bet2 = 90;
  p.lat2 = lat_of_beta(f, bet2);
  p.lon2 = 180 + dlon; if (p.lon2 > 180) p.lon2 -= 360;
  if (c.rng.coin(0.03)) p.lat2 = -p.lat1;       // exactly on the symmetric line
  Opt o; o.scan = true; check_pair(c, p, o);
}

// ================================================================ (iv) symmetry monitor
struct Img { bool swap, eq, mer; int k1, k2; };
static Inv map_image(const Inv& o, const Img& g) {       // predicted outputs of the image problem
  Inv q = o;
  if (g.swap) { q.azi1 = o.azi2 + 180; q.azi2 = o.azi1 + 180; q.M12 = o.M21; q.M21 = o.M12; q.S12 = -o.S12; }
  if (g.eq) { q.azi1 = 180 - q.azi1; q.azi2 = 180 - q.azi2; q.S12 = -q.S12; }
  if (g.mer) { q.azi1 = -q.azi1; q.azi2 = -q.azi2; q.S12 = -q.S12; }
  return q;
}
template <class G> static void sym_solver(Ctx& c, const gh::Solvers& S, const G& g, const Pair& p, const char* solver, bool series) {
  const double T = tol_of(S, series);
  Inv o = call_inv(g, p);
  const q128 lon12q = lon12_exact(p);
  const char wh = series ? 's' : 'x';
  auto finite = [](const Inv& x) { return std::isfinite(x.a12) && std::isfinite(x.s12) && std::isfinite(x.azi1) && std::isfinite(x.azi2) && std::isfinite(x.m12) && std::isfinite(x.M12) && std::isfinite(x.M21) && std::isfinite(x.S12); };
  if (!finite(o)) { report(c, p, wh, std::string("oracle:C02/") + solver + "/non-finite-output/" + p.regime + "/" + shape_of(p.e.f), wout(wit(p, solver), o)); return; }
  const bool l180 = fabsq(lon12q) == 180, anti_lat = anti_lat_eff(p.lat1, p.lat2), poles_opp = std::fabs(p.lat1) == 90 && anti_lat;
  const bool coincident = o.s12 == 0;
  const bool sphere_antipodal = p.e.f == 0 && anti_lat && l180;
  const bool conj = o.s12 > S.a && o.m12 < 10e3 * S.a / 6.4e6;      // m12 / S12 not compared near conjugacy (ill-conditioned by nature)
  std::string sv = solver;
  for (int im = 1; im < 16; ++im) {
    Img gI{bool(im & 1), bool(im & 2), bool(im & 4), 0, 0};
    if (im & 8) { gI.k1 = (int)c.rng.range(-2, 2); gI.k2 = (int)c.rng.range(-2, 2); if (!gI.k1 && !gI.k2) gI.k1 = 1; }
    double la1 = p.lat1, lo1 = p.lon1, la2 = p.lat2, lo2 = p.lon2;
    if (gI.swap) { std::swap(la1, la2); std::swap(lo1, lo2); }
    if (gI.eq) { la1 = -la1; la2 = -la2; }
    if (gI.mer) { lo1 = -lo1; lo2 = -lo2; }
    double n1 = lo1 + 360.0 * gI.k1, n2 = lo2 + 360.0 * gI.k2;
    if ((n1 - 360.0 * gI.k1) != lo1 || (n2 - 360.0 * gI.k2) != lo2 || remainderq((q128)n1 - (q128)lo1, 360) != 0 || remainderq((q128)n2 - (q128)lo2, 360) != 0) { c.event("symmetry: lon +- 360k image skipped (not exactly representable)"); continue; }
    Pair qp = p; qp.lat1 = la1; qp.lon1 = n1; qp.lat2 = la2; qp.lon2 = n2;
    Inv got = call_inv(g, qp), want = map_image(o, gI);
    c.event("symmetry images judged");
    if (!finite(got)) { report(c, p, wh, std::string("oracle:C02/") + solver + "/non-finite-output/" + p.regime + "/" + shape_of(p.e.f), wout(wit(qp, solver), got)); continue; }
    J w = wit(p, solver).i("image_swap", gI.swap).i("image_equator", gI.eq).i("image_meridian", gI.mer).i("k1", gI.k1).i("k2", gI.k2)
      .f("base_s12", o.s12).f("base_azi1", o.azi1).f("base_azi2", o.azi2).f("base_a12", o.a12).f("base_m12", o.m12).f("base_M12", o.M12).f("base_M21", o.M21).f("base_S12", o.S12)
      .f("img_s12", got.s12).f("img_azi1", got.azi1).f("img_azi2", got.azi2).f("img_a12", got.a12).f("img_m12", got.m12).f("img_M12", got.M12).f("img_M21", got.M21).f("img_S12", got.S12);
    std::string key = "law:C02/" + sv + "/symmetry/" + (gI.swap ? "swap" : "") + (gI.eq ? "+equator" : "") + (gI.mer ? "+meridian" : "") + ((gI.k1 || gI.k2) ? "+360k" : "");
    double es = std::fabs(got.s12 - want.s12), ea = std::fabs(got.a12 - want.a12) * M_PI / 180 * S.b;
    obsv(c, p, wh, "symmetry: |s12 image - s12| / tolerance [" + sv + "]", es / T, w);
    if (es > T) report(c, p, wh, key + "/s12", J(w).f("err_m", es).f("tol_m", T));
    if (ea > T) report(c, p, wh, key + "/a12", J(w).f("err_m", ea).f("tol_m", T));
    if (!conj) { double em = std::fabs(got.m12 - want.m12); obsv(c, p, wh, "symmetry: |m12 image - m12| / tolerance [" + sv + "]", em / (2 * T), w); if (em > 2 * T) report(c, p, wh, key + "/m12", J(w).f("err_m", em).f("tol_m", 2 * T)); }
    if (coincident || got.s12 == 0) { c.event("symmetry: coincident (azimuths free)"); continue; }
    // azimuths, scales, area: the predicted image or a documented alternative
    const double mm = std::max(std::fabs(o.m12), 0.0), rad = M_PI / 180;
    auto azerr = [&](const Inv& x) { return std::max(std::fabs(angdiff(got.azi1, x.azi1)), std::fabs(angdiff(got.azi2, x.azi2))) * rad * mm; };
    auto full = [&](const Inv& x, double& eaz, double& eM, double& eS) { eaz = azerr(x); eM = std::max(std::fabs(got.M12 - x.M12), std::fabs(got.M21 - x.M21)); eS = std::fabs(got.S12 - x.S12); };
    std::vector<Inv> alts; alts.push_back(want);
    if (anti_lat && !poles_opp) { Inv x = want; std::swap(x.azi1, x.azi2); std::swap(x.M12, x.M21); x.S12 = -x.S12; alts.push_back(x); }
    if (l180 && !poles_opp) { size_t n = alts.size(); for (size_t t = 0; t < n; ++t) { Inv x = alts[t]; x.azi1 = -x.azi1; x.azi2 = -x.azi2; x.S12 = -x.S12; alts.push_back(x); } }
    double bestaz = HUGE_VAL, bestM = HUGE_VAL, bestS = HUGE_VAL;
    const double area = 4 * M_PI * (double)S.E.c2;
    const double tolM = 1e-9 + 4 * T / S.a * 1e3, tolS = 4 * T * S.a * std::max(1.0, S.a / std::max(mm, 1.0));
    if (poles_opp || sphere_antipodal) {
      // [azi1, azi2] -> [azi1, azi2] + [d, -d]: only the sum is determined; S12 changes by c2 * (-2 d)
      double e = std::fabs(angdiff(got.azi1 + got.azi2, want.azi1 + want.azi2)) * rad * mm;
      c.event("symmetry: opposite poles / sphere antipodes (azimuth sum judged)");
      if (e > 2 * T && mm > 0) report(c, p, wh, key + "/azimuth-sum", J(w).f("err_m", e).f("tol_m", 2 * T));
      continue;
    }
    bool okalt = false;
    for (auto& x : alts) {
      double eaz, eM, eS; full(x, eaz, eM, eS);
      // S12 is defined modulo the ellipsoid area when the azimuth representation +-180 flips
      eS = std::min(eS, std::min(std::fabs(eS - area), std::fabs(eS - area / 2)));
      if (eaz <= 2 * T && (conj || (eM <= tolM && eS <= tolS))) okalt = true;
      if (eaz < bestaz) { bestaz = eaz; bestM = eM; bestS = eS; }
    }
    obsv(c, p, wh, "symmetry: azimuth image residual*|m12| / tolerance [" + sv + "]", bestaz / (2 * T), w);
    if (!conj) { obsv(c, p, wh, "symmetry: M12/M21 image residual / tolerance [" + sv + "]", bestM / tolM, w); obsv(c, p, wh, "symmetry: S12 image residual / tolerance [" + sv + "]", bestS / tolS, w); }
    if (alts.size() > 1) c.event("symmetry: cases with documented alternatives");
    if (!okalt) report(c, p, wh, key + (bestaz > 2 * T ? "/azimuth" : bestM > tolM ? "/M12-M21" : "/S12"), J(w).f("err_az_m", bestaz).f("err_M", bestM).f("err_S", bestS).f("tol_m", 2 * T).f("tol_M", tolM).f("tol_S", tolS));
  }
}
static void sec_symmetry(Ctx& c, uint64_t) {
  vh::Rng& r = c.rng;
  Pair p; p.sec = "symmetry"; p.e = gh::pick_ellipsoid(r);
  std::string c1, c2;
  auto grid = [&](double x) { return std::round(x * 1099511627776.0) / 1099511627776.0; };     // multiples of 2^-40: lon +- 360k exact
  p.lat1 = gh::pick_lat(r, c1);
  switch (r.below(6)) { case 0: p.lat2 = -p.lat1; break; case 1: p.lat2 = p.lat1; break; case 2: p.lat2 = vh::ulps(-p.lat1, r.range(-2, 2)); if (std::fabs(p.lat2) > 90) p.lat2 = -p.lat1; break; default: p.lat2 = gh::pick_lat(r, c2); }
  p.lon1 = grid(r.uniform(-180, 180));
  switch (r.below(8)) {
  case 0: p.lon2 = p.lon1 + 180; break;
  case 1: p.lon2 = grid(p.lon1 + 180 - r.logu(1e-11, 3)); break;
  case 2: p.lon2 = p.lon1; break;
  case 3: p.lon2 = grid(p.lon1 + r.sign() * r.logu(1e-11, 1e-3)); break;
  default: p.lon2 = grid(r.uniform(-180, 180)); break;
  }
  gh::Solvers& S = gh::solvers(p.e.a, p.e.f, p.e.series_ok);
  classify(p, lon12_exact(p));
  c.count(p.cls, vh::hmix(vh::hmix(vh::hmix(vh::hmix(vh::hmix(vh::hmix(19, p.e.a), p.e.f), p.lat1), p.lon1), p.lat2), p.lon2));
  c.event("regime: " + p.regime);
  if (c.want_sample(p.cls)) c.sample(p.cls, wit(p, "-"));
  sym_solver(c, S, *S.exact, p, "exact", false);
  if (p.e.series_ok) sym_solver(c, S, *S.series, p, "series", true);
}

// ================================================================ oracle self-validation (never a verdict on the library)
static void sec_selftest(Ctx& c, uint64_t i) {
  if (thinned_out(c, i)) return;
  vh::Rng& r = c.rng;
  static const double fl[] = {gh::WGS84_F, 0.02, -0.02, 0.1, -0.1, 0.2, 0.5, -1.0, 0};
  double f = fl[i % 9], a = 6.4e6;
  // constructed geodesic with sigma12 < pi and |lon12| < 180: the scan must find it and nothing shorter
  double lat1 = r.uniform(-89, 89), azi1 = r.uniform(-180, 180), a12 = r.coin(0.3) ? 180 - r.logu(1e-6, 1) : r.uniform(1, 179.9);
  ref::Ell<q128> E(a, f); ref::GeodLine<q128> L(E, (q128)lat1, (q128)azi1); ref::GeodPos<q128> P = L.at_arc((q128)a12);
  if ((double)fabsq(P.lon12) >= 180) { c.event("selftest: skipped (longitudinal extent >= 180)"); return; }
  double lat2 = (double)P.lat2;                         // the latitude is rounded; re-aim: keep (lat2, lon12) as the exact target of the scan
  q128 lon12 = P.lon12;
  ref::InvScan<ld> R = ref::ref_inverse_scan<ld>(a, f, lat1, lat2, lon12, (double)P.s12 * 1.001 + 1);
  c.count("selftest/scan-vs-constructed", vh::hmix(vh::hmix(vh::hmix(23, f), lat1), azi1), true);
  q128 X1[3], X2[3]; ref::to_xyz<q128>(E, P.lat2, P.lon12, X1); ref::to_xyz<q128>(E, (q128)lat2, lon12, X2);
  double d = (double)ref::dist3(X1, X2);
  if (R.nroots == 0) { c.herr("oracle self-test: scan found no geodesic for a constructed pair f=" + std::to_string(f) + " lat1=" + std::to_string(lat1) + " azi1=" + std::to_string(azi1) + " a12=" + std::to_string(a12)); return; }
  double diff = (double)(R.smin_q - P.s12);
  c.obs("selftest: |scan least length - constructed length| [m] (beyond rounding of lat2)", std::max(0.0, std::fabs(diff) - d), J().f("f", f).f("lat1", lat1).f("azi1", azi1).f("a12", a12).f("diff", diff));
  if (diff < -(d + 1e-9)) c.herr("oracle self-test: scan found a geodesic SHORTER than a constructed sigma12<pi geodesic by " + std::to_string(-diff) + " m (f=" + std::to_string(f) + " lat1=" + std::to_string(lat1) + " azi1=" + std::to_string(azi1) + " a12=" + std::to_string(a12) + ")");
  if (diff > d + 1e-9) c.herr("oracle self-test: scan missed the constructed geodesic, least length larger by " + std::to_string(diff) + " m (f=" + std::to_string(f) + " lat1=" + std::to_string(lat1) + " azi1=" + std::to_string(azi1) + " a12=" + std::to_string(a12) + ")");
}

int main(int argc, char** argv) {
  std::vector<Section> S;
  const uint64_t ndir = (uint64_t)N_REG * 27 + 200 * (uint64_t)N_DIR_F;
  S.push_back({"selftest", 180, 1800, false, sec_selftest, 300});
  S.push_back({"directed", ndir, ndir, false, sec_directed, 300});
  S.push_back({"astroid", 24 * 24 * 6, 200 * 200 * 6, false, sec_astroid, 300});
  S.push_back({"constructed", 24000, 1000000, true, sec_constructed, 300});
  S.push_back({"random", 12000, 500000, true, sec_random, 300});
  S.push_back({"short", 8000, 200000, true, sec_short, 300});
  S.push_back({"antipodal-ulps", 8000, 400000, true, sec_antipodal_ulps, 300});
  S.push_back({"near-equator", 6000, 300000, true, sec_near_equator, 300});
  S.push_back({"symmetry", 16000, 600000, true, sec_symmetry, 60});
  return vh::run_sections(argc, argv, S);
}
