// C13 (a)(b)(c): error contract of the numeric entry points.
//   ctor_matrix      every public constructor / validating setter x every parameter x special
//                    values (others valid): documented-illegal => GeographicErr and nothing
//                    else, documented-legal => no exception                        [monitor a]
//   ctor_random      several parameters special at once: only the exception TYPE is judged
//   nan_propagation  registry of entry points x argument position: baseline call, re-draws of
//                    that argument (dependence of every output is INFERRED from the re-draws),
//                    then NaN in that position: no exception from non-validating functions,
//                    every dependent output NaN (or the INVALID marker), every independent
//                    output bit-identical                                          [monitor b]
//   special_values   registry x argument x {+-inf, +-0, denormals, huge, +-90, +-180, int
//                    extremes ...}: only GeographicErr (validating functions) / bad_alloc,
//                    outputs untouched after a throw, no sanitizer report, CPU watchdog
//   special_multi    several arguments special at once
//   nan_marker       every string encoder with a documented INVALID marker: NaN in each coordinate
//                    position returns the marker WITHOUT any exception and the marker decodes back to NaN
//   throw_outputs    every validating function driven just outside each documented limit with
//                    sentinel-filled outputs: after the throw all outputs bit-identical [monitor c]
#include "fuzz/C13_newlimit.hpp"
#include "fuzz/C13_numreg3.hpp"
#include "fuzz/C13_ctors.hpp"
#include "harness/common.hpp"

using vh::Ctx; using vh::J; using vh::Section;
using namespace c13;

namespace {

struct Val { char k; double d; long long i; std::string s;
  bool same(const Val& o) const { return (k == 'r' || k == 'x') ? dsame(d, o.d) : (k == 'z' || k == 'i' || k == 'b') ? i == o.i : s == o.s; }
  bool nanmark() const {
    switch (k) {
    case 'r': return std::isnan(d);
    case 'z': return i == UTMUPS::INVALID;
    case 's': return upper_prefix(s, "INV");
    case 'd': { std::string t = s; for (auto& c : t) c = (char)std::tolower((unsigned char)c); return t.find("nan") != std::string::npos; }
    default: return true;     // i, b, n: no NaN representation
    }
  }
  std::string str() const { return (k == 'r' || k == 'x') ? vh::jnum(d) : (k == 'z' || k == 'i' || k == 'b') ? std::to_string(i) : "\"" + vh::jesc(s) + "\""; }
};
std::vector<Val> flatten(const Entry& e, const Outs& o) {
  std::vector<Val> v; int nr = 0, ni = 0, nb = 0, ns = 0;
  for (char c : e.out) {
    Val x{c, 0, 0, ""};
    if (c == 'r' || c == 'x') x.d = o.r[nr++]; else if (c == 'z' || c == 'i') x.i = o.i[ni++]; else if (c == 'b') x.i = o.b[nb++]; else x.s = o.s[ns++];
    v.push_back(x);
  }
  return v;
}
std::string jvals(const std::vector<Val>& v) { std::string s = "["; for (size_t i = 0; i < v.size(); ++i) { if (i) s += ","; s += v[i].str(); } return s + "]"; }
std::string jargs(const Entry& e, const double* a) { std::string s = "["; for (size_t i = 0; i < e.in.size(); ++i) { if (i) s += ","; s += vh::jnum(a[i]); } return s + "]"; }
std::string hexargs(const Entry& e, const double* a) { std::string s; char b[40]; for (size_t i = 0; i < e.in.size(); ++i) { std::snprintf(b, sizeof b, "%a ", a[i]); s += b; } return s; }

// call with the exception + sentinel monitors.  0 ok, 1 GeographicErr, 2 bad_alloc, 3 illegal
int call_entry(Ctx& c, const Entry& e, const double* a, Outs& o, const std::string& cls, std::string* msg = nullptr) {
  o.reset();
  hang::install(fileno(c.out), c.section, c.idx, c.seed); hang::g_site = e.name.c_str();
  int rc = 0; std::string what, type;
  try { e.call(a, o); }
  catch (const GeographicErr& x) { rc = 1; what = x.what(); }
  catch (const std::bad_alloc&) { rc = 2; }
  catch (const std::exception& x) { rc = 3; what = x.what(); type = demangle(typeid(x).name()); }
  catch (...) { rc = 3; type = "non-std"; }
  if (msg) *msg = what;
  if (rc == 3) c.viol("exception:" + type + "@" + e.name, cls, J().str("what", what).raw("args", jargs(e, a)).str("hexargs", hexargs(e, a)).i("ellipsoid", g_e));
  if (rc != 0 && !o.untouched())
    c.viol("sentinel:C13/throw-modified-output/" + e.name, cls, J().str("what", what).raw("args", jargs(e, a)).str("hexargs", hexargs(e, a)).raw("outputs", jvals(flatten(e, o))));
  if (rc == 1 && !e.validating)
    c.viol("contract:C13/GeographicErr-from-non-validating-function/" + e.name, cls, J().str("what", what).raw("args", jargs(e, a)).str("hexargs", hexargs(e, a)).i("ellipsoid", g_e));
  c.event(rc == 0 ? "exits/normal" : rc == 1 ? "exits/GeographicErr" : rc == 2 ? "exits/bad_alloc" : "exits/illegal");
  return rc;
}

// ---- regimes of KNOWN NaN-policy findings (DECISIONS.md): one key per defect, decided from the call
// site and the NaN argument only; the monitor/arg/out detail goes into the violation record.
// Checked in this fixed order; anything outside these predicates keeps the per-(entry,arg,out) key.
std::string nan_regime(const Entry& e, int ai, size_t k) {
  const std::string& n = e.name;
  if (n.compare(0, 21, "LambertConformalConic") == 0 && n.find("::Reverse") != std::string::npos && (ai == 1 || ai == 2))
    return "nan:C13/dependent-output-not-nan/LambertConformalConic::Reverse(x-or-y-nan)";
  if (n.compare(0, 15, "MagneticModel::") == 0 && n != "MagneticModel::FieldComponents" && ai == 0 && k >= 3)
    return "nan:C13/dependent-output-not-nan/MagneticModel(t-nan)/rates";
  if (n == "Intersect::Next") return "nan:C13/dependent-output-not-nan/Intersect::Next(nan-argument)";
  if (n == "EllipticFunction::RG2" || (n == "EllipticFunction::complete(k2,alpha2)" && ai == 0 && k == 1))
    return "nan:C13/dependent-output-not-nan/EllipticFunction::RG(nan-argument)";
  if (n == "AuxLatitude::ToAuxiliary" && (ai == 1 || ai == 2) && k == 2)
    return "nan:C13/dependent-output-not-nan/AuxLatitude::ToAuxiliary(nan-angle)/diff";
  return "";
}

// ---- documented INVALID markers: every string-producing encoder whose header documents a marker for
// NaN coordinates must RETURN that marker (no exception of any type, not even GeographicErr), and the
// marker must decode back to NaN / UTMUPS::INVALID.  (OSGB.hpp:144, MGRS.hpp:228, Geohash.hpp:59,
// GARS.hpp:70, Georef.hpp:72, UTMUPS.hpp:356; UTMUPS::Forward/Reverse/StandardZone and GeoCoords have
// explicit NaN branches and fall under the general clause of the property.)
void marker_case(Ctx& c, uint64_t idx) {
  const double nan = std::numeric_limits<double>::quiet_NaN();
  vh::Rng& r = c.rng;
  hang::install(fileno(c.out), c.section, c.idx, c.seed);
  auto run = [&](const char* fn, const char* pos, const std::string& want, bool ci, std::function<std::string()> enc,
                 std::function<bool(const std::string&)> decodes_to_nan) {
    std::string cls = std::string("nan-marker/") + fn, got, what; int rc = 0;
    hang::g_site = fn;
    try { got = enc(); }
    catch (const GeographicErr& x) { rc = 1; what = x.what(); }
    catch (const std::bad_alloc&) { rc = 2; }
    catch (const std::exception& x) { rc = 3; what = x.what(); }
    catch (...) { rc = 3; }
    c.count(cls + "/" + pos, vh::hmixs(vh::hmix(idx, (uint64_t)rc), std::string(fn) + pos));
    J d; d.str("nan_position", pos).str("what", what).str("got", got).str("documented_marker", want);
    if (rc != 0) { c.viol(std::string("nanmarker:C13/exception-instead-of-marker/") + fn, cls, d); return; }
    std::string g = got, w = want;
    if (ci) { for (auto& ch : g) ch = (char)std::toupper((unsigned char)ch); for (auto& ch : w) ch = (char)std::toupper((unsigned char)ch); }
    if (g != w) { c.viol(std::string("nanmarker:C13/wrong-marker/") + fn, cls, d); return; }
    bool ok = false; rc = 0;
    try { ok = decodes_to_nan(got); } catch (const std::exception& x) { rc = 1; d.str("decode_exception", x.what()); }
    if (rc != 0 || !ok) c.viol(std::string("nanmarker:C13/marker-does-not-decode-to-nan/") + fn, cls, d);
    else c.event("nan-marker/ok");
  };
  const int which = (int)(idx % 3);                      // NaN in first / second / both coordinate(s)
  const char* pos = which == 0 ? "first" : which == 1 ? "second" : "both";
  auto N1 = [&](double v) { return which != 1 ? nan : v; };
  auto N2 = [&](double v) { return which != 0 ? nan : v; };
  const double lat = r.uniform(-89, 89), lon = r.uniform(-179, 179), x = r.uniform(2.5e5, 7.5e5), y = r.uniform(1.2e6, 8.5e6);
  const int zone = r.range(1, 60), prec = r.range(-1, 11); const bool northp = r.coin(), cp = r.coin();
  // OSGB
  run("OSGB::GridReference(x,y,prec)", pos, "INVALID", false,
      [&] { std::string s = SSENT; OSGB::GridReference(N1(r.uniform(1e5, 6e5)), N2(r.uniform(1e5, 1.1e6)), r.range(0, 11), s); return s; },
      [&](const std::string& s) { real a = 0, b = 0; int p = 0; OSGB::GridReference(s, a, b, p, cp); return std::isnan(a) && std::isnan(b); });
  // MGRS (both overloads) and an INVALID zone
  run("MGRS::Forward(zone,northp,x,y,prec)", pos, "INVALID", false,
      [&] { std::string s = SSENT; MGRS::Forward(zone, northp, N1(x), N2(y), prec, s); return s; },
      [&](const std::string& s) { int z = 0, p = 0; bool n = true; real a = 0, b = 0; MGRS::Reverse(s, z, n, a, b, p, cp); return z == UTMUPS::INVALID && std::isnan(a) && std::isnan(b); });
  run("MGRS::Forward(zone,northp,x,y,lat,prec)", pos, "INVALID", false,
      [&] { std::string s = SSENT; MGRS::Forward(zone, northp, N1(x), N2(y), lat, prec, s); return s; },
      [&](const std::string& s) { int z = 0, p = 0; bool n = true; real a = 0, b = 0; MGRS::Reverse(s, z, n, a, b, p, cp); return z == UTMUPS::INVALID && std::isnan(a) && std::isnan(b); });
  run("MGRS::Forward(INVALID zone)", "zone", "INVALID", false,
      [&] { std::string s = SSENT; MGRS::Forward(UTMUPS::INVALID, northp, x, y, prec, s); return s; },
      [&](const std::string& s) { int z = 0, p = 0; bool n = true; real a = 0, b = 0; MGRS::Reverse(s, z, n, a, b, p, cp); return z == UTMUPS::INVALID && std::isnan(a); });
  // Geohash / GARS / Georef
  run("Geohash::Forward", pos, "invalid", false,
      [&] { std::string s = SSENT; Geohash::Forward(N1(lat), N2(lon), r.range(0, 18), s); return s; },
      [&](const std::string& s) { real a = 0, b = 0; int l = 0; Geohash::Reverse(s, a, b, l, cp); return std::isnan(a) && std::isnan(b); });
  run("GARS::Forward", pos, "INVALID", false,
      [&] { std::string s = SSENT; GARS::Forward(N1(lat), N2(lon), r.range(0, 2), s); return s; },
      [&](const std::string& s) { real a = 0, b = 0; int l = 0; GARS::Reverse(s, a, b, l, cp); return std::isnan(a) && std::isnan(b); });
  run("Georef::Forward", pos, "INVALID", false,
      [&] { std::string s = SSENT; Georef::Forward(N1(lat), N2(lon), prec, s); return s; },
      [&](const std::string& s) { real a = 0, b = 0; int l = 0; Georef::Reverse(s, a, b, l, cp); return std::isnan(a) && std::isnan(b); });
  // UTMUPS
  run("UTMUPS::EncodeZone(INVALID)", "zone", cp ? "inv" : "invalid", false,
      [&] { return UTMUPS::EncodeZone(UTMUPS::INVALID, northp, cp); },
      [&](const std::string& s) { int z = 0; bool n = true; UTMUPS::DecodeZone(s, z, n); return z == UTMUPS::INVALID; });
  run("UTMUPS::Forward", pos, "INVALID-ZONE-AND-NAN", false,
      [&] { int z = 0; bool n; real a = 0, b = 0, g = 0, k = 0; UTMUPS::Forward(N1(lat), N2(lon), z, n, a, b, g, k, r.coin() ? UTMUPS::STANDARD : UTMUPS::UTM, r.coin());
            return std::string(z == UTMUPS::INVALID && std::isnan(a) && std::isnan(b) && std::isnan(g) && std::isnan(k) ? "INVALID-ZONE-AND-NAN" : "zone " + std::to_string(z) + " x " + vh::jnum(a)); },
      [&](const std::string&) { return UTMUPS::StandardZone(N1(lat), N2(lon)) == UTMUPS::INVALID; });
  run("UTMUPS::Reverse", pos, "NAN", false,
      [&] { real a = 0, b = 0, g = 0, k = 0; UTMUPS::Reverse(zone, northp, N1(x), N2(y), a, b, g, k, r.coin());
            return std::string(std::isnan(a) && std::isnan(b) && std::isnan(g) && std::isnan(k) ? "NAN" : "lat " + vh::jnum(a)); },
      [&](const std::string&) { real a = 0, b = 0; UTMUPS::Reverse(UTMUPS::INVALID, northp, x, y, a, b); return std::isnan(a) && std::isnan(b); });
  // GeoCoords built from NaN coordinates
  run("GeoCoords(lat,lon)::MGRSRepresentation", pos, "INVALID", false,
      [&] { GeoCoords g(N1(lat), N2(lon)); return g.MGRSRepresentation(r.range(-1, 5)); },
      [&](const std::string& s) { GeoCoords g(s); return g.Zone() == UTMUPS::INVALID && std::isnan(g.Latitude()) && std::isnan(g.Easting()); });
  run("GeoCoords(lat,lon)::Zone", pos, "INVALID", false,
      [&] { GeoCoords g(N1(lat), N2(lon)); return std::string(g.Zone() == UTMUPS::INVALID && std::isnan(g.Easting()) && std::isnan(g.Northing()) ? "INVALID" : "zone " + std::to_string(g.Zone())); },
      [&](const std::string&) { GeoCoords g(N1(lat), N2(lon)); std::string t = g.GeoRepresentation(3); for (auto& ch : t) ch = (char)std::tolower((unsigned char)ch); return t.find("nan") != std::string::npos; });
  // DMS
  run("DMS::Encode", "angle", "nan", false,
      [&] { return DMS::Encode(nan, (unsigned)r.range(0, 8), r.coin() ? DMS::LATITUDE : DMS::NONE); },
      [&](const std::string& s) { DMS::flag f; return std::isnan(DMS::Decode(s, f)); });
}

std::vector<std::pair<int, int>> g_pairs;                 // (entry, arg)
struct Triple { int e, a; double v; };
std::vector<Triple> g_triples, g_bad;

uint64_t hargs(const Entry& e, const double* a, uint64_t h) { h = vh::hmixs(h, e.name); for (size_t i = 0; i < e.in.size(); ++i) h = vh::hmix(h, a[i]); return vh::hmix(h, (uint64_t)g_e); }

void draw_valid(Ctx& c, const Entry& e, double* a) { for (size_t i = 0; i < e.in.size(); ++i) a[i] = e.in[i].draw(c.rng); }

// baseline on valid inputs (validating functions may reject some "valid-looking" draws, e.g.
// UTM coordinates outside the zone: re-draw)
bool baseline(Ctx& c, const Entry& e, double* a, Outs& o, const std::string& cls) {
  for (int t = 0; t < 12; ++t) {
    draw_valid(c, e, a);
    int rc = call_entry(c, e, a, o, cls);
    if (rc == 0) return true;
    if (rc == 3) return false;
    if (!e.validating) return false;      // already reported as a contract violation
  }
  c.event("baseline/no-valid-draw/" + e.name);
  return false;
}

void nan_case(Ctx& c, uint64_t idx) {
  const auto& pr = g_pairs[idx % g_pairs.size()];
  const Entry& e = registry()[pr.first]; int ai = pr.second;
  g_e = (int)((idx / g_pairs.size()) % NE);
  std::string cls = "nan/" + e.name;
  double a[12]; Outs o;
  if (!baseline(c, e, a, o, cls)) return;
  std::vector<Val> out0 = flatten(e, o);
  // entries bound to one fixed degenerate object (Mercator, cylindrical / azimuthal equal area): an
  // output may be independent of an argument only because of that object's parameters (n0 = 0)
  const bool single_object = e.name.find("::Mercator::") != std::string::npos || e.name.find("EqualArea::") != std::string::npos;
  const bool isint = e.in[ai].cls == 'i';
  if (isint) return;
  // infer dependence.  dep_here: under the object/ellipsoid of this case and the baseline values of
  // the other arguments (these outputs MUST be NaN when argument ai is NaN).  dep_any: structural
  // dependence of the function (any object, any values of the other arguments): an output outside
  // dep_any must be bit-identical when argument ai is NaN.
  std::vector<char> dep(out0.size(), 0), dep_any(out0.size(), 0);
  auto redraw_here = [&](int n) {
    const double keep = a[ai];
    for (int t = 0; t < n; ++t) {
      a[ai] = t == 0 ? -keep : t == 1 ? e.in[ai].lo : t == 2 ? e.in[ai].hi : t == 3 ? 0.5 * (e.in[ai].lo + e.in[ai].hi) : e.in[ai].draw(c.rng);
      Outs q; if (call_entry(c, e, a, q, cls) != 0) continue;
      std::vector<Val> v = flatten(e, q);
      for (size_t k = 0; k < v.size(); ++k) if (!v[k].same(out0[k])) dep[k] = dep_any[k] = 1;
    }
    a[ai] = keep;
  };
  auto redraw_any = [&](int n) {
    const int e0 = g_e; double b[12];
    for (int t = 0; t < n; ++t) {
      g_e = t % NE;
      draw_valid(c, e, b);
      if (t < 2 * NE) for (size_t i = 0; i < e.in.size(); ++i) if ((int)i != ai) b[i] = a[i];   // first: baseline values under every object
      Outs p; if (call_entry(c, e, b, p, cls) != 0) continue;
      std::vector<Val> base = flatten(e, p);
      for (int u = 0; u < 3; ++u) {
        double keepb = b[ai];
        b[ai] = u == 0 ? -keepb : u == 1 ? (c.rng.coin() ? e.in[ai].lo : e.in[ai].hi) : e.in[ai].draw(c.rng);
        Outs q; int rc = call_entry(c, e, b, q, cls); b[ai] = keepb;
        if (rc != 0) continue;
        std::vector<Val> v = flatten(e, q);
        for (size_t k = 0; k < v.size(); ++k) if (!v[k].same(base[k])) dep_any[k] = 1;
      }
    }
    g_e = e0;
  };
  redraw_here(8);
  double keep = a[ai];
  a[ai] = std::numeric_limits<double>::quiet_NaN();
  Outs q; std::string msg;
  int rc = call_entry(c, e, a, q, cls, &msg);
  c.count(cls + (rc == 0 ? "" : "/rejected"), hargs(e, a, ai + 1));
  if (rc == 1 && e.validating) c.event("nan/validating-function-threw-GeographicErr");
  if (rc == 0) {
    std::vector<Val> v = flatten(e, q);
    bool confirmed = false;
    for (size_t k = 0; k < v.size(); ++k) {
      if (dep[k]) {
        if (!v[k].nanmark()) {
          std::string mon = "nan:C13/dependent-output-not-nan/" + e.name + "/arg" + std::to_string(ai) + "/out" + std::to_string(k), rk = nan_regime(e, ai, k);
          c.viol(rk.empty() ? mon : rk, cls,
                 J().str("monitor", mon).raw("args", jargs(e, a)).str("hexargs", hexargs(e, a)).f("valid_value_of_arg", keep).raw("baseline", jvals(out0)).raw("with_nan", jvals(v)).i("ellipsoid", g_e));
        } else c.event("nan/dependent-output-is-nan");
      } else if (!v[k].same(out0[k]) && !single_object && v[k].k != 'x' && !((v[k].k == 's' || v[k].k == 'z' || v[k].k == 'd') && v[k].nanmark())) {
        // did not move in 6 re-draws: look harder before calling it independent
        if (!confirmed) { a[ai] = keep; redraw_any(60); a[ai] = std::numeric_limits<double>::quiet_NaN(); confirmed = true; }
        // "independent" is an inference from sampling: before it becomes a verdict, sample two orders of magnitude harder (an output
        // such as the error term of Math::AngDiff is exactly 0 for whole families of arguments; the thorough tier met one case in
        // 3.5 million where 180 samples all gave 0 -- a false alarm of this inference, repaired here)
        if (!dep_any[k]) { a[ai] = keep; redraw_any(4000); a[ai] = std::numeric_limits<double>::quiet_NaN(); }
        if (dep_any[k]) { c.event("nan/structurally-dependent-output-changed"); if (false) { if (!v[k].nanmark()) c.viol("nan:C13/dependent-output-not-nan/" + e.name + "/arg" + std::to_string(ai) + "/out" + std::to_string(k), cls,
                 J().raw("args", jargs(e, a)).str("hexargs", hexargs(e, a)).raw("baseline", jvals(out0)).raw("with_nan", jvals(v)).i("ellipsoid", g_e)); } }
        else c.viol("nan:C13/independent-output-changed/" + e.name + "/arg" + std::to_string(ai) + "/out" + std::to_string(k), cls,
                 J().raw("args", jargs(e, a)).str("hexargs", hexargs(e, a)).f("valid_value_of_arg", keep).raw("baseline", jvals(out0)).raw("with_nan", jvals(v)).i("ellipsoid", g_e));
      } else c.event("nan/independent-output-unchanged");
    }
    if (c.want_sample(cls)) c.sample(cls, J().i("arg", ai).raw("args", jargs(e, a)).raw("baseline", jvals(out0)).raw("with_nan", jvals(v)));
  }
}

void special_case(Ctx& c, uint64_t idx) {
  // a stride permutation shifted by the seed: a run at scale < 1 (sanitizer build) covers a spread
  // sample of the (entry, argument, special value) list, a different one for every seed
  static const uint64_t stride = [] { uint64_t s = 7919; while (std::__gcd<uint64_t>(s, g_triples.size()) != 1) ++s; return s; }();
  const Triple& t = g_triples[(idx * stride + c.seed * 104729) % g_triples.size()];
  const Entry& e = registry()[t.e];
  g_e = (int)((idx / g_triples.size() + idx) % NE);
  std::string cls = "special/" + e.name;
  double a[12]; Outs o;
  draw_valid(c, e, a);
  a[t.a] = t.v;
  int rc = call_entry(c, e, a, o, cls);
  c.count(cls + (rc == 0 ? "" : "/rejected"), hargs(e, a, 77));
  if (c.want_sample(cls)) c.sample(cls, J().i("arg", t.a).raw("args", jargs(e, a)).i("exit", rc).raw("outputs", jvals(flatten(e, o))));
}

void multi_case(Ctx& c, uint64_t) {
  const Entry& e = registry()[c.rng.below(registry().size())];
  if (e.in.empty()) return;
  g_e = (int)c.rng.below(NE);
  std::string cls = "special-multi/" + e.name;
  double a[12]; Outs o;
  draw_valid(c, e, a);
  int n = 0;
  for (size_t i = 0; i < e.in.size(); ++i) if (c.rng.coin(0.55)) {
    ++n;
    if (e.in[i].cls == 'i') a[i] = c.rng.pick(int_specials());
    else a[i] = c.rng.coin(0.15) ? std::numeric_limits<double>::quiet_NaN() : c.rng.coin(0.3) ? vh::ulps(c.rng.pick(real_specials()), c.rng.range(-2, 2)) : c.rng.pick(real_specials());
  }
  if (!n) a[0] = e.in[0].cls == 'i' ? c.rng.pick(int_specials()) : c.rng.pick(real_specials());
  int rc = call_entry(c, e, a, o, cls);
  c.count(cls + (rc == 0 ? "" : "/rejected"), hargs(e, a, 99));
}

void bad_case(Ctx& c, uint64_t idx) {
  const Triple& t = g_bad[idx % g_bad.size()];
  const Entry& e = registry()[t.e];
  g_e = (int)((idx / g_bad.size()) % NE);
  std::string cls = "throw-outputs/" + e.name;
  double a[12]; Outs o(idx / g_bad.size() & 1);
  draw_valid(c, e, a);
  a[t.a] = t.v;
  if ((idx / g_bad.size()) % 3 == 2) a[t.a] = vh::ulps(t.v, c.rng.range(-1, 1));
  std::string msg;
  int rc = call_entry(c, e, a, o, cls, &msg);
  c.count(cls + (rc == 1 ? "/threw" : "/accepted"), hargs(e, a, 55));
  if (rc == 1) {
    // class of the check that fired = message up to the first digit
    size_t p = msg.find_first_of("0123456789-"); std::string m = msg.substr(0, std::min<size_t>(p == std::string::npos ? 40 : p, 40));
    c.event("check-fired/" + e.name + "/" + m);
  }
}

}  // namespace

int main(int argc, char** argv) {
  register_all();
  (void)W();
  const auto& R = registry();
  for (size_t e = 0; e < R.size(); ++e)
    for (size_t a = 0; a < R[e].in.size(); ++a) {
      if (R[e].in[a].cls == 'r') g_pairs.push_back({(int)e, (int)a});
      const std::vector<double>& sp = R[e].in[a].cls == 'i' ? int_specials() : real_specials();
      for (double v : sp) g_triples.push_back({(int)e, (int)a, v});
      if (R[e].validating) for (double v : bad_values(R[e].in[a])) g_bad.push_back({(int)e, (int)a, v});
    }
  std::vector<Section> S;
  S.push_back({"ctor_matrix", ctor_matrix_size(), ctor_matrix_size(), false, ctor_matrix_case, 4});
  S.push_back({"ctor_random", 20000, 1000000, true, ctor_random_case, 4});
  S.push_back({"nan_propagation", g_pairs.size() * 12, g_pairs.size() * 300, true, nan_case, 4});
  S.push_back({"special_values", g_triples.size() * 1, g_triples.size() * 12, true, special_case, 4});
  S.push_back({"special_multi", 60000, 3000000, true, multi_case, 4});
  S.push_back({"nan_marker", 3000, 150000, true, marker_case, 4});
  S.push_back({"throw_outputs", g_bad.size() * 6, g_bad.size() * 60, true, bad_case, 4});
  if (argc > 1 && std::string(argv[1]) == "--registry") {
    std::printf("entries %zu pairs %zu triples %zu bad %zu ctors %llu\n", R.size(), g_pairs.size(), g_triples.size(), g_bad.size(), (unsigned long long)ctor_matrix_size());
    for (auto& e : R) std::printf("%s %zu %s %d\n", e.name.c_str(), e.in.size(), e.out.c_str(), (int)e.validating);
    return 0;
  }
  return vh::run_sections(argc, argv, S);
}
